/-
Helper lemmas for C10: programs over metadata readers answer alike on reader objects that differ only in history.
-/
import Sqfs.Model.C10Dec
import Sqfs.Proofs.MetaReader
namespace Sqfs.C10P
open Sqfs.MetaReader Sqfs.Consts

/-- two reader objects no continuation can tell apart: indistinguishable in every field that matters (`Sim`), or
the first sits at the very end of its block and the second at the start of the following one (what seeking back to
a remembered `get_position` produces when the remembered position was a block end) -/
def Obs (f : File) (unc : Codec) (m₁ m₂ : MR) : Prop :=
  Sim m₁ m₂ ∨
  (m₁.offset = m₁.dataUsed ∧ (seek true f unc m₁ m₁.nextBlock 0).1 = 0 ∧ Sim (seek true f unc m₁ m₁.nextBlock 0).2 m₂)

theorem obs_getPos {f : File} {unc : Codec} (hc : CodecOK unc) {m₁ m₂ : MR} (h : Obs f unc m₁ m₂) : getPos m₁ = getPos m₂ := by
  cases h with
  | inl h => exact sim_getPos h
  | inr h =>
    obtain ⟨hend, hs0, hsim⟩ := h
    obtain ⟨ho, hdu⟩ := seek_ok hc hs0
    have htag := seek_ok_tag hc hs0
    rw [← sim_getPos hsim]
    unfold getPos
    have : ¬ 0 = (seek true f unc m₁ m₁.nextBlock 0).2.dataUsed := by omega
    simp only [hend, if_true, htag, ho, this, if_false]

theorem obs_read {f : File} {unc : Codec} (hc : CodecOK unc) {m₁ m₂ : MR} (h : Obs f unc m₁ m₂)
    (c₁ : Coherent f unc m₁) (c₂ : Coherent f unc m₂) (n : Nat) :
    (read true f unc m₁ n).1 = (read true f unc m₂ n).1 ∧ (read true f unc m₁ n).2.1 = (read true f unc m₂ n).2.1 ∧
    Obs f unc (read true f unc m₁ n).2.2 (read true f unc m₂ n).2.2 := by
  cases h with
  | inl h =>
    obtain ⟨e1, e2, e3⟩ := sim_readLoop hc n m₁ m₂ n [] h c₁ c₂
    exact ⟨e1, e2, Or.inl e3⟩
  | inr h =>
    obtain ⟨hend, hs0, hsim⟩ := h
    by_cases hn : n = 0
    · subst hn
      simp only [read_zero]
      exact ⟨trivial, trivial, Or.inr ⟨hend, hs0, hsim⟩⟩
    · obtain ⟨e1, e2, e3⟩ := read_from_block_end hc c₁ c₂ hend hs0 hsim n hn
      exact ⟨e1, e2, Or.inl e3⟩

/-- the families of reader objects `S` (used) and `S'` (reference): all coherent, same windows, and the readers
flagged in `fl` observationally equivalent -/
def Rel (f : File) (unc : Codec) (fl : Nat → Bool) (S S' : Readers) : Prop :=
  ∀ k, Coherent f unc (S k) ∧ Coherent f unc (S' k) ∧ (S k).start = (S' k).start ∧ (S k).limit = (S' k).limit ∧
    (fl k = true → Obs f unc (S k) (S' k))

theorem Rel.weaken {f : File} {unc : Codec} {fl : Nat → Bool} {S S' : Readers} (h : Rel f unc fl S S') :
    Rel f unc noneYet S S' := by
  intro k
  obtain ⟨a, b, c, d, _⟩ := h k
  exact ⟨a, b, c, d, fun h => nomatch h⟩

theorem Rel.set {f : File} {unc : Codec} {fl : Nat → Bool} {S S' : Readers} (h : Rel f unc fl S S') (k : Nat) {m m' : MR}
    (c : Coherent f unc m) (c' : Coherent f unc m') (hs : m.start = m'.start) (hl : m.limit = m'.limit)
    (fl' : Nat → Bool) (hfl : ∀ j, j ≠ k → fl' j = true → fl j = true) (ho : fl' k = true → Obs f unc m m') :
    Rel f unc fl' (S.set k m) (S'.set k m') := by
  intro j
  unfold Readers.set
  by_cases hj : j = k
  · subst hj
    simp only [if_true]
    exact ⟨c, c', hs, hl, ho⟩
  · simp only [hj, if_false]
    obtain ⟨a, b, c, d, e⟩ := h j
    exact ⟨a, b, c, d, fun hf => e (hfl j hj hf)⟩

/-- **Programs cannot tell related families apart.** -/
theorem exec_obs {α : Type} {f : File} {unc : Codec} (hc : CodecOK unc) (p : Prog α) :
    ∀ (fl : Nat → Bool) (S S' : Readers), Rel f unc fl S S' → WF fl p →
      (exec true f unc p S).1 = (exec true f unc p S').1 ∧
      Rel f unc noneYet (exec true f unc p S).2 (exec true f unc p S').2 := by
  induction p with
  | ret a => intro fl S S' hR _; exact ⟨rfl, hR.weaken⟩
  | fail e => intro fl S S' hR _; exact ⟨rfl, hR.weaken⟩
  | seek k b o c ih =>
    intro fl S S' hR hwf
    obtain ⟨c₁, c₂, hs, hl, _⟩ := hR k
    obtain ⟨e1, e2⟩ := seek_sim_of_coherent hc c₁ c₂ hs hl b o
    have k₁ := seek_coherent hc c₁ b o
    have k₂ := seek_coherent hc c₂ b o
    have w₁ := seek_start_limit true f unc (S k) b o
    have w₂ := seek_start_limit true f unc (S' k) b o
    have hs' : (MetaReader.seek true f unc (S k) b o).2.start = (MetaReader.seek true f unc (S' k) b o).2.start :=
      w₁.1.trans (hs.trans w₂.1.symm)
    have hl' : (MetaReader.seek true f unc (S k) b o).2.limit = (MetaReader.seek true f unc (S' k) b o).2.limit :=
      w₁.2.trans (hl.trans w₂.2.symm)
    unfold exec
    simp only
    rw [← e1]
    by_cases h0 : (MetaReader.seek true f unc (S k) b o).1 = 0
    · simp only [h0, ne_eq, not_true_eq_false, if_false]
      apply ih (fun j => j == k || fl j)
      · apply hR.set k k₁ k₂ hs' hl'
        · intro j hj hf
          have : (j == k) = false := by simpa using hj
          simpa [this] using hf
        · intro _; exact Or.inl (e2 h0)
      · exact hwf
    · simp only [h0, ne_eq, not_false_eq_true, if_true]
      refine ⟨trivial, ?_⟩
      exact hR.set k k₁ k₂ hs' hl' noneYet (fun _ _ h => nomatch h) (fun h => nomatch h)
  | read k n c ih =>
    intro fl S S' hR hwf
    obtain ⟨hfk, hwf'⟩ := hwf
    obtain ⟨c₁, c₂, hs, hl, ho⟩ := hR k
    obtain ⟨e1, e2, e3⟩ := obs_read hc (ho hfk) c₁ c₂ n
    have k₁ := read_coherent hc c₁ n
    have k₂ := read_coherent hc c₂ n
    have w₁ := readLoop_start_limit true f unc n (S k) n []
    have w₂ := readLoop_start_limit true f unc n (S' k) n []
    have hs' : (MetaReader.read true f unc (S k) n).2.2.start = (MetaReader.read true f unc (S' k) n).2.2.start :=
      w₁.1.trans (hs.trans w₂.1.symm)
    have hl' : (MetaReader.read true f unc (S k) n).2.2.limit = (MetaReader.read true f unc (S' k) n).2.2.limit :=
      w₁.2.trans (hl.trans w₂.2.symm)
    unfold exec
    simp only
    rw [← e1, ← e2]
    by_cases h0 : (MetaReader.read true f unc (S k) n).1 = 0
    · simp only [h0, ne_eq, not_true_eq_false, if_false]
      apply ih _ fl
      · exact hR.set k k₁ k₂ hs' hl' fl (fun _ _ h => h) (fun _ => e3)
      · exact hwf' _
    · simp only [h0, ne_eq, not_false_eq_true, if_true]
      refine ⟨trivial, ?_⟩
      exact hR.set k k₁ k₂ hs' hl' noneYet (fun _ _ h => nomatch h) (fun h => nomatch h)
  | pos k c ih =>
    intro fl S S' hR hwf
    obtain ⟨hfk, hwf'⟩ := hwf
    obtain ⟨_, _, _, _, ho⟩ := hR k
    unfold exec
    rw [← obs_getPos hc (ho hfk)]
    exact ih _ fl S S' hR (hwf' _)

/-! ### well-formedness: monotone in the flags, compositional -/

theorem WF_mono {α : Type} (p : Prog α) : ∀ (fl fl' : Nat → Bool), (∀ k, fl k = true → fl' k = true) → WF fl p → WF fl' p := by
  induction p with
  | ret a => intro _ _ _ _; trivial
  | fail e => intro _ _ _ _; trivial
  | seek k b o c ih =>
    intro fl fl' h hw
    apply ih _ _ _ hw
    intro j hj
    simp only [Bool.or_eq_true] at hj ⊢
    cases hj with
    | inl h1 => exact Or.inl h1
    | inr h2 => exact Or.inr (h j h2)
  | read k n c ih =>
    intro fl fl' h hw
    exact ⟨h k hw.1, fun bs => ih bs fl fl' h (hw.2 bs)⟩
  | pos k c ih =>
    intro fl fl' h hw
    exact ⟨h k hw.1, fun p => ih p fl fl' h (hw.2 p)⟩

theorem WF_bind {α β : Type} (p : Prog α) (g : α → Prog β) :
    ∀ fl : Nat → Bool, WF fl p → (∀ a fl', (∀ k, fl k = true → fl' k = true) → WF fl' (g a)) → WF fl (p.bind g) := by
  induction p with
  | ret a => intro fl _ hg; exact hg a fl (fun _ h => h)
  | fail e => intro _ _ _; trivial
  | seek k b o c ih =>
    intro fl hw hg
    apply ih _ hw
    intro a fl' hfl
    apply hg a fl'
    intro j hj
    apply hfl
    simp only [Bool.or_eq_true]
    exact Or.inr hj
  | read k n c ih =>
    intro fl hw hg
    exact ⟨hw.1, fun bs => ih bs fl (hw.2 bs) hg⟩
  | pos k c ih =>
    intro fl hw hg
    exact ⟨hw.1, fun p => ih p fl (hw.2 p) hg⟩

/-- a seek-first program is well-formed whatever is already positioned -/
theorem WF_any {α : Type} {p : Prog α} (h : WF noneYet p) (fl : Nat → Bool) : WF fl p :=
  WF_mono p noneYet fl (fun _ h => nomatch h) h

/-! ### the decoders of `C10Dec.lean` are seek-first -/

theorem readIndexP_wf {α : Type} (k : Nat) (fl : Nat → Bool) (hk : fl k = true) :
    ∀ (n im : Nat) (acc : Bytes) (cont : Bytes → Prog α), (∀ bs, WF fl (cont bs)) → WF fl (readIndexP k n im acc cont) := by
  intro n
  induction n with
  | zero => intro im acc cont h; exact h acc
  | succ n ih =>
    intro im acc cont h
    unfold readIndexP
    refine ⟨hk, fun ent => ?_⟩
    simp only
    split
    · trivial
    · exact ⟨hk, fun name => ih _ _ cont h⟩

theorem readInodeP_wf (k tblStart blockSize b o : Nat) : WF noneYet (readInodeP k tblStart blockSize b o) := by
  unfold readInodeP
  have hk : (fun j => j == k || noneYet j) k = true := by simp
  refine ⟨hk, fun h => ?_⟩
  simp only
  split
  · trivial
  · split
    · refine ⟨hk, fun d => ?_⟩
      simp only
      split
      · trivial
      · exact ⟨hk, fun ex => trivial⟩
    · split
      · refine ⟨hk, fun d => ?_⟩
        simp only
        split
        · trivial
        · exact ⟨hk, fun tgt => trivial⟩
      · split
        · refine ⟨hk, fun d => ?_⟩
          simp only
          split
          · trivial
          · split
            · trivial
            · exact ⟨hk, fun ex => trivial⟩
        · split
          · refine ⟨hk, fun d => ?_⟩
            simp only
            split
            · trivial
            · exact ⟨hk, fun tgt => ⟨hk, fun x => trivial⟩⟩
          · split
            · refine ⟨hk, fun d => ?_⟩
              simp only
              split
              · trivial
              · exact readIndexP_wf k _ hk _ _ _ _ (fun _ => trivial)
            · split
              · exact ⟨hk, fun d => trivial⟩
              · split
                · exact ⟨hk, fun d => trivial⟩
                · split
                  · exact ⟨hk, fun d => trivial⟩
                  · split
                    · exact ⟨hk, fun d => trivial⟩
                    · exact ⟨hk, fun d => trivial⟩

theorem readdirEntP_wf (k : Nat) (it : Rd) : WF noneYet (readdirEntP k it) := by
  unfold readdirEntP
  have hk : (fun j => j == k || noneYet j) k = true := by simp
  split
  · trivial
  · exact ⟨hk, fun e => ⟨hk, fun name => ⟨hk, fun p => trivial⟩⟩⟩

theorem readdirP_wf (k : Nat) (it : Rd) : WF noneYet (readdirP k it) := by
  unfold readdirP
  have hk : (fun j => j == k || noneYet j) k = true := by simp
  split
  · split
    · trivial
    · refine ⟨hk, fun h => ?_⟩
      simp only
      split
      · trivial
      · exact ⟨hk, fun p => WF_any (readdirEntP_wf k _) _⟩
  · exact readdirEntP_wf k it

theorem listGoP_wf (d : DirRd) : ∀ (fuel : Nat) (it : Rd) (acc : List (Entry × Nat)) (fl : Nat → Bool), WF fl (listGoP d fuel it acc) := by
  intro fuel
  induction fuel with
  | zero => intro _ _ _; trivial
  | succ fuel ih =>
    intro it acc fl
    unfold listGoP
    apply WF_bind _ _ fl (WF_any (readdirP_wf 1 it) fl)
    intro r fl' _
    cases r.1 with
    | eof => trivial
    | ent e iref => exact ih _ _ fl'

theorem listP_wf (d : DirRd) (ref : Nat) : WF noneYet (d.listP ref) := by
  unfold DirRd.listP
  apply WF_bind _ _ _ (readInodeP_wf _ _ _ _ _)
  intro ino fl' _
  cases d.openDir ino with
  | error e => trivial
  | ok it => exact listGoP_wf d _ it [] fl'

theorem findEntP_wf (d : DirRd) (path : Bytes) : ∀ (fuel : Nat) (it : Rd) (fl : Nat → Bool), WF fl (findEntP d path fuel it) := by
  intro fuel
  induction fuel with
  | zero => intro _ _; trivial
  | succ fuel ih =>
    intro it fl
    unfold findEntP
    apply WF_bind _ _ fl (WF_any (readdirP_wf 1 it) fl)
    intro r fl' _
    cases r.1 with
    | eof => trivial
    | ent e iref =>
      simp only
      split
      · trivial
      · exact ih _ fl'

theorem resolveGoP_wf (d : DirRd) : ∀ (fuel : Nat) (path : Bytes) (cur : Nat) (fl : Nat → Bool), WF fl (resolveGoP d fuel path cur) := by
  intro fuel
  induction fuel with
  | zero => intro _ _ _; trivial
  | succ fuel ih =>
    intro path cur fl
    unfold resolveGoP
    simp only
    split
    · trivial
    · apply WF_bind _ _ fl (WF_any (readInodeP_wf _ _ _ _ _) fl)
      intro ino fl' _
      cases d.openDir ino with
      | error e => trivial
      | ok it =>
        simp only
        apply WF_bind _ _ fl' (findEntP_wf d _ _ it fl')
        intro r fl'' _
        exact ih _ _ fl''

theorem resolveP_wf (d : DirRd) (path : Bytes) : WF noneYet (d.resolveP path) := resolveGoP_wf d _ _ _ _

theorem listSession_wf (d : DirRd) : ∀ (fuel : Nat) (it : Rd) (acc : List (Entry × Nat)), (listSession d fuel it acc).WF := by
  intro fuel
  induction fuel with
  | zero => intro _ _; trivial
  | succ fuel ih =>
    intro it acc
    refine ⟨readdirP_wf 1 it, fun r => ?_⟩
    cases r with
    | error e => trivial
    | ok v =>
      obtain ⟨res, it'⟩ := v
      cases res with
      | eof => trivial
      | ent e iref => exact ih _ _

theorem getDescP_wf (x : XR) (idx : Nat) : WF noneYet (x.getDescP idx) := by
  unfold XR.getDescP
  split
  · trivial
  · split
    · split <;> trivial
    · split
      · trivial
      · exact ⟨by simp, fun d => trivial⟩

theorem readKeyP_wf {α : Type} (x : XR) (fl : Nat → Bool) (h1 : fl 1 = true) (cont : Nat × Nat × Bytes → Prog α)
    (hcont : ∀ r, WF fl (cont r)) : WF fl (x.readKeyP cont) := by
  unfold XR.readKeyP
  refine ⟨h1, fun h => ?_⟩
  simp only
  split
  · trivial
  · exact ⟨h1, fun kb => hcont _⟩

theorem readValueP_wf {α : Type} (x : XR) (fl : Nat → Bool) (h1 : fl 1 = true) (ab keyType : Nat) (cont : Bytes → Prog α)
    (hcont : ∀ v fl', (∀ k, fl k = true → fl' k = true) → WF fl' (cont v)) : WF fl (x.readValueP ab keyType cont) := by
  unfold XR.readValueP
  refine ⟨h1, fun v => ?_⟩
  split
  · refine ⟨h1, fun r => ?_⟩
    simp only
    split
    · trivial
    · refine ⟨h1, fun p => ?_⟩
      have h1' : (fun j => j == 1 || fl j) 1 = true := by simp
      refine ⟨h1', fun v2 => ?_⟩
      simp only
      split
      · trivial
      · refine ⟨h1', fun val => ?_⟩
        apply hcont
        intro k hk
        simp only [Bool.or_eq_true]
        exact Or.inr (Or.inr hk)
  · simp only
    split
    · trivial
    · exact ⟨h1, fun val => hcont _ fl (fun _ h => h)⟩

theorem readPairsP_wf (x : XR) : ∀ (n : Nat) (acc : List (Bytes × Bytes)) (fl : Nat → Bool), fl 1 = true → WF fl (x.readPairsP n acc) := by
  intro n
  induction n with
  | zero => intro _ _ _; trivial
  | succ n ih =>
    intro acc fl h1
    unfold XR.readPairsP
    apply readKeyP_wf x fl h1
    intro k
    apply readValueP_wf x fl h1
    intro v fl' hfl
    exact ih _ fl' (hfl 1 h1)

theorem readAllP_wf (x : XR) (idx : Nat) : WF noneYet (x.readAllP idx) := by
  unfold XR.readAllP
  split
  · trivial
  · apply WF_bind _ _ _ (getDescP_wf x idx)
    intro d fl' _
    unfold XR.seekKvP
    split
    · trivial
    · exact readPairsP_wf x _ _ _ (by simp)

theorem readTableGoP_wf : ∀ (fuel : Nat) (locs : List Nat) (size : Nat) (acc : Bytes) (fl : Nat → Bool), WF fl (readTableGoP fuel locs size acc) := by
  intro fuel
  induction fuel with
  | zero => intro _ _ _ _; trivial
  | succ fuel ih =>
    intro locs size acc fl
    cases locs with
    | nil => trivial
    | cons start locs =>
      unfold readTableGoP
      split
      · trivial
      · exact ⟨by simp, fun bs => ih _ _ _ _⟩

/-! ### histories and sessions -/

theorem rel_disturb_left {f : File} {unc : Codec} (hc : CodecOK unc) {S S' : Readers} (h : Rel f unc noneYet S S')
    (hist : Nat → List Op) : Rel f unc noneYet (disturb true f unc S hist) S' := by
  intro k
  obtain ⟨a, b, c, d, _⟩ := h k
  obtain ⟨r1, r2, r3⟩ := run_coherent hc (hist k) (S k) a
  exact ⟨r1, b, r2.trans c, r3.trans d, fun h => nomatch h⟩

theorem rel_symm_none {f : File} {unc : Codec} {S S' : Readers} (h : Rel f unc noneYet S S') : Rel f unc noneYet S' S := by
  intro k
  obtain ⟨a, b, c, d, _⟩ := h k
  exact ⟨b, a, c.symm, d.symm, fun h => nomatch h⟩

theorem rel_disturb {f : File} {unc : Codec} (hc : CodecOK unc) {S S' : Readers} (h : Rel f unc noneYet S S')
    (hs hs' : List (Nat → List Op)) :
    Rel f unc noneYet (interleave true f unc S hs) (interleave true f unc S' hs') := by
  have l : Rel f unc noneYet (interleave true f unc S hs) S' := by
    cases hs with
    | nil => exact h
    | cons a _ => exact rel_disturb_left hc h a
  cases hs' with
  | nil => exact l
  | cons a _ => exact rel_symm_none (rel_disturb_left hc (rel_symm_none l) a)

/-- a session of seek-first calls gives the same result on related families, whatever other histories happen on
the reader objects between its calls -/
theorem session_obs {α β : Type} {f : File} {unc : Codec} (hc : CodecOK unc) (s : Session α β) :
    ∀ (S S' : Readers) (hs hs' : List (Nat → List Op)), Rel f unc noneYet S S' → s.WF →
      (s.runI true f unc S hs).1 = (s.runI true f unc S' hs').1 := by
  induction s with
  | done b => intro _ _ _ _ _ _; rfl
  | call p next ih =>
    intro S S' hs hs' hR hwf
    unfold Session.runI
    simp only
    have hR0 := rel_disturb hc hR hs hs'
    obtain ⟨e1, e2⟩ := exec_obs hc p noneYet _ _ hR0 hwf.1
    rw [e1]
    exact ih _ _ _ _ _ e2 (hwf.2 _)

/-- the families reachable from freshly created readers (reader `k` created with window `w k`) -/
def usedFam (f : File) (unc : Codec) (w : Nat → Nat × Nat) (h : Nat → List Op) : Readers :=
  fun k => run true f unc (fresh (w k).1 (w k).2) (h k)

def freshFam (w : Nat → Nat × Nat) : Readers := fun k => fresh (w k).1 (w k).2

theorem rel_used_fresh {f : File} {unc : Codec} (hc : CodecOK unc) (w : Nat → Nat × Nat) (hw : ∀ k, (w k).2 ≤ NONE)
    (h : Nat → List Op) : Rel f unc noneYet (usedFam f unc w h) (freshFam w) := by
  intro k
  have c := fresh_coherent f unc (w k).1 (w k).2 (hw k)
  obtain ⟨r1, r2, r3⟩ := run_coherent hc (h k) _ c
  exact ⟨r1, c, r2, r3, fun h => nomatch h⟩

/-! ### seeking back to a remembered position -/

/-- a reader that seeks (successfully) to the position another reader over the same window reports is from then
on indistinguishable from it -/
theorem seek_back_obs {f : File} {unc : Codec} (hc : CodecOK unc) {m r : MR} (cm : Coherent f unc m) (cr : Coherent f unc r)
    (hs : r.start = m.start) (hl : r.limit = m.limit)
    (hok : (seek true f unc r (getPos m).1 (getPos m).2).1 = 0) :
    Obs f unc m (seek true f unc r (getPos m).1 (getPos m).2).2 := by
  have hv := seek_sim_of_coherent hc cr cm hs hl (getPos m).1 (getPos m).2
  by_cases hend : m.offset = m.dataUsed
  · have hp : getPos m = (m.nextBlock, 0) := by unfold getPos; simp only [hend, if_true]
    rw [hp] at hok hv ⊢
    simp only at hok hv ⊢
    exact Or.inr ⟨hend, hv.1.symm.trans hok, (hv.2 hok).symm⟩
  · have hp : getPos m = (m.tag, m.offset) := by unfold getPos; simp only [hend, if_false]
    rw [hp] at hok hv ⊢
    simp only at hok hv ⊢
    have hm0 : (seek true f unc m m.tag m.offset).1 = 0 := hv.1.symm.trans hok
    have hself := seek_hit_self hend hm0
    have hsim := hv.2 hok
    rw [hself] at hsim
    exact Or.inl hsim.symm

theorem read_start_limit (f : File) (unc : Codec) (m : MR) (n : Nat) :
    (MetaReader.read true f unc m n).2.2.start = m.start ∧ (MetaReader.read true f unc m n).2.2.limit = m.limit :=
  readLoop_start_limit true f unc n m n []

@[simp] theorem set_same (S : Readers) (k : Nat) (m : MR) : (S.set k m) k = m := by
  unfold Readers.set; simp

theorem set_other (S : Readers) {j k : Nat} (m : MR) (h : j ≠ k) : (S.set k m) j = S j := by
  unfold Readers.set; simp [h]

/-- the two header reads every value starts with (`sizeof(sqfs_xattr_value_t)` and, out of line, the 8-byte
reference): the program against which the detour of `read_value` is measured -/
def valueHeaderP : Prog Unit := .read 1 sizeofXattrValue fun _ => .read 1 8 fun _ => .ret ()

/-- **`sqfs_xattr_reader_read_value` on an out-of-line value restores the position**: when it succeeds, the
key/value reader is left observationally equivalent to where it stood right behind the value's header and
reference; all other readers are untouched. -/
theorem readValue_ool_obs {f : File} {unc : Codec} (hc : CodecOK unc) (x : XR) (kt : Nat) (hool : kt / xattrFlagOol % 2 = 1)
    (S : Readers) (hS : Coherent f unc (S 1)) (v : Bytes) (hok : (exec true f unc (x.readValueApiP kt) S).1 = .ok v) :
    (∀ k, k ≠ 1 → (exec true f unc (x.readValueApiP kt) S).2 k = S k ∧ (exec true f unc valueHeaderP S).2 k = S k) ∧
    Coherent f unc ((exec true f unc valueHeaderP S).2 1) ∧ Coherent f unc ((exec true f unc (x.readValueApiP kt) S).2 1) ∧
    ((exec true f unc valueHeaderP S).2 1).start = ((exec true f unc (x.readValueApiP kt) S).2 1).start ∧
    ((exec true f unc valueHeaderP S).2 1).limit = ((exec true f unc (x.readValueApiP kt) S).2 1).limit ∧
    Obs f unc ((exec true f unc valueHeaderP S).2 1) ((exec true f unc (x.readValueApiP kt) S).2 1) := by
  unfold XR.readValueApiP XR.readValueP valueHeaderP at *
  simp only [exec, hool, if_true] at hok ⊢
  -- first read: the value header
  have ca := read_coherent hc hS sizeofXattrValue
  have wa := read_start_limit f unc (S 1) sizeofXattrValue
  generalize MetaReader.read true f unc (S 1) sizeofXattrValue = ra at hok ca wa ⊢
  obtain ⟨sa, ba, ma⟩ := ra
  simp only at hok ca wa ⊢
  by_cases ha : sa = 0
  · subst ha
    simp only [ne_eq, not_true_eq_false, if_false, set_same] at hok ⊢
    -- second read: the reference
    have cb := read_coherent hc ca 8
    have wb := read_start_limit f unc ma 8
    generalize MetaReader.read true f unc ma 8 = rb at hok cb wb ⊢
    obtain ⟨sb, bb, mb⟩ := rb
    simp only at hok cb wb ⊢
    by_cases hb : sb = 0
    · subst hb
      simp only [ne_eq, not_true_eq_false, if_false, set_same] at hok ⊢
      split at hok
      · simp only [exec] at hok; cases hok
      · simp only [exec, set_same] at hok ⊢
        rename_i hrange
        simp only [hrange, if_false, exec, set_same]
        -- seek to the referenced value
        generalize hns : wrap64 (x.xattrStart + leAt bb 0 8 / 65536) = ns at hok ⊢
        generalize hno : leAt bb 0 8 % 65536 = no at hok ⊢
        have cc := seek_coherent hc cb ns no
        have wc := seek_start_limit true f unc mb ns no
        generalize MetaReader.seek true f unc mb ns no = rc at hok cc wc ⊢
        obtain ⟨sc, mc⟩ := rc
        simp only at hok cc wc ⊢
        by_cases hcz : sc = 0
        · subst hcz
          simp only [ne_eq, not_true_eq_false, if_false, set_same] at hok ⊢
          have cd := read_coherent hc cc sizeofXattrValue
          have wd := read_start_limit f unc mc sizeofXattrValue
          generalize MetaReader.read true f unc mc sizeofXattrValue = rd at hok cd wd ⊢
          obtain ⟨sd, bd, md⟩ := rd
          simp only at hok cd wd ⊢
          by_cases hd : sd = 0
          · subst hd
            simp only [ne_eq, not_true_eq_false, if_false, set_same] at hok ⊢
            split at hok
            · simp only [exec] at hok; cases hok
            rename_i halloc
            simp only [halloc, if_false, exec, set_same] at hok ⊢
            have ce := read_coherent hc cd (leAt bd 0 4)
            have we := read_start_limit f unc md (leAt bd 0 4)
            generalize MetaReader.read true f unc md (leAt bd 0 4) = re at hok ce we ⊢
            obtain ⟨se, be, me⟩ := re
            simp only at hok ce we ⊢
            by_cases he : se = 0
            · subst he
              simp only [ne_eq, not_true_eq_false, if_false, set_same] at hok ⊢
              have hs : me.start = mb.start := we.1.trans (wd.1.trans wc.1)
              have hl : me.limit = mb.limit := we.2.trans (wd.2.trans wc.2)
              have cf := seek_coherent hc ce (getPos mb).1 (getPos mb).2
              have wf := seek_start_limit true f unc me (getPos mb).1 (getPos mb).2
              by_cases hf : (MetaReader.seek true f unc me (getPos mb).1 (getPos mb).2).1 = 0
              · have hobs := seek_back_obs hc cb ce hs hl hf
                simp only [hf, ne_eq, not_true_eq_false, if_false, exec, set_same] at hok ⊢
                refine ⟨fun k hk => ?_, cb, cf, ?_, ?_, hobs⟩
                · simp only [set_other _ _ hk, and_self]
                · exact (wf.1.trans hs).symm
                · exact (wf.2.trans hl).symm
              · simp only [hf, ne_eq, not_false_eq_true, if_true] at hok
                cases hok
            · simp only [he, ne_eq, not_false_eq_true, if_true] at hok
              cases hok
          · simp only [hd, ne_eq, not_false_eq_true, if_true] at hok
            cases hok
        · simp only [hcz, ne_eq, not_false_eq_true, if_true] at hok
          cases hok
    · simp only [hb, ne_eq, not_false_eq_true, if_true] at hok
      cases hok
  · simp only [ha, ne_eq, not_false_eq_true, if_true] at hok
    cases hok

/-! ### the loop fuel of the listing and path models suffices -/

theorem exec_bind {α β : Type} (fix : Bool) (f : File) (unc : Codec) (p : Prog α) (g : α → Prog β) :
    ∀ S : Readers, exec fix f unc (p.bind g) S =
      match exec fix f unc p S with
      | (.ok a, S') => exec fix f unc (g a) S'
      | (.error e, S') => (.error e, S') := by
  induction p with
  | ret a => intro S; rfl
  | fail e => intro S; rfl
  | seek k b o c ih =>
    intro S
    simp only [Prog.bind, exec]
    split
    · rfl
    · exact ih _
  | read k n c ih =>
    intro S
    simp only [Prog.bind, exec]
    split
    · rfl
    · exact ih _ _
  | pos k c ih =>
    intro S
    simp only [Prog.bind, exec]
    exact ih _ _

/-- every value the program can return satisfies `P` -/
def Leaves {α : Type} (P : α → Prop) : Prog α → Prop
  | .ret a => P a
  | .fail _ => True
  | .seek _ _ _ c => Leaves P c
  | .read _ _ c => ∀ bs, Leaves P (c bs)
  | .pos _ c => ∀ q, Leaves P (c q)

theorem exec_leaves {α : Type} (fix : Bool) (f : File) (unc : Codec) (P : α → Prop) (p : Prog α) :
    ∀ (S : Readers) (a : α), Leaves P p → (exec fix f unc p S).1 = .ok a → P a := by
  induction p with
  | ret a0 => intro S a h he; simp only [exec] at he; cases he; exact h
  | fail e => intro S a _ he; simp only [exec] at he; cases he
  | seek k b o c ih =>
    intro S a h he
    simp only [exec] at he
    split at he
    · cases he
    · exact ih _ _ h he
  | read k n c ih =>
    intro S a h he
    simp only [exec] at he
    split at he
    · cases he
    · exact ih _ _ _ (h _) he
  | pos k c ih =>
    intro S a h he
    simp only [exec] at he
    exact ih _ _ _ (h _) he

/-- the program never fails with `e` of its own accord -/
def NoFail {α : Type} (e : Status) : Prog α → Prop
  | .ret _ => True
  | .fail e' => e' ≠ e
  | .seek _ _ _ c => NoFail e c
  | .read _ _ c => ∀ bs, NoFail e (c bs)
  | .pos _ c => ∀ q, NoFail e (c q)

theorem set_coherent {f : File} {unc : Codec} {S : Readers} (h : ∀ k, Coherent f unc (S k)) (k : Nat) {m : MR}
    (hm : Coherent f unc m) : ∀ j, Coherent f unc ((S.set k m) j) := by
  intro j
  unfold Readers.set
  split
  · exact hm
  · exact h j

/-- on coherent readers a program stays on coherent readers and reports a model-only status (≥ 1000) only if it
fails with it of its own accord -/
theorem exec_coherent_err {α : Type} {f : File} {unc : Codec} (hc : CodecOK unc) (p : Prog α) :
    ∀ (S : Readers), (∀ k, Coherent f unc (S k)) →
      (∀ k, Coherent f unc ((exec true f unc p S).2 k)) ∧
      ∀ e, crashSt ≤ e → NoFail e p → (exec true f unc p S).1 ≠ .error e := by
  induction p with
  | ret a => intro S hS; exact ⟨hS, fun e _ _ h => by simp only [exec] at h; cases h⟩
  | fail e0 =>
    intro S hS
    refine ⟨hS, fun e _ hn h => ?_⟩
    simp only [exec] at h
    cases h
    exact hn rfl
  | seek k b o c ih =>
    intro S hS
    have hk := seek_coherent hc (hS k) b o
    have hlt := seek_status_lt (fix := true) (f := f) hc (S k) b o
    simp only [exec]
    by_cases h0 : (MetaReader.seek true f unc (S k) b o).1 = 0
    · simp only [h0, ne_eq, not_true_eq_false, if_false]
      exact ih _ (set_coherent hS k hk)
    · simp only [h0, ne_eq, not_false_eq_true, if_true]
      refine ⟨set_coherent hS k hk, fun e he _ h => ?_⟩
      have : (MetaReader.seek true f unc (S k) b o).1 = e := by injection h
      rw [this] at hlt
      exact Nat.not_lt.mpr he hlt
  | read k n c ih =>
    intro S hS
    have hk := read_coherent hc (hS k) n
    have hlt : (MetaReader.read true f unc (S k) n).1 < crashSt := readLoop_no_crash hc n _ n [] (hS k) (Nat.le_refl n)
    simp only [exec]
    by_cases h0 : (MetaReader.read true f unc (S k) n).1 = 0
    · simp only [h0, ne_eq, not_true_eq_false, if_false]
      obtain ⟨a, b⟩ := ih _ _ (set_coherent hS k hk)
      exact ⟨a, fun e he hn => b e he (hn _)⟩
    · simp only [h0, ne_eq, not_false_eq_true, if_true]
      refine ⟨set_coherent hS k hk, fun e he _ h => ?_⟩
      have : (MetaReader.read true f unc (S k) n).1 = e := by injection h
      rw [this] at hlt
      exact Nat.not_lt.mpr he hlt
  | pos k c ih =>
    intro S hS
    simp only [exec]
    obtain ⟨a, b⟩ := ih _ S hS
    exact ⟨a, fun e he hn => b e he (hn _)⟩

theorem readdirEntP_leaves (k : Nat) (it : Rd) (bound : Nat) (hb : it.size ≤ bound) :
    Leaves (fun r : RdRes × Rd => match r.1 with | .eof => True | .ent _ _ => r.2.size < bound) (readdirEntP k it) := by
  unfold readdirEntP
  split
  · trivial
  · intro e name q
    simp only [Leaves]
    have : sizeofDirNode = 8 := rfl
    split <;> omega

theorem readdirP_leaves (k : Nat) (it : Rd) :
    Leaves (fun r : RdRes × Rd => match r.1 with | .eof => True | .ent _ _ => r.2.size < it.size) (readdirP k it) := by
  unfold readdirP
  split
  · split
    · trivial
    · intro h
      simp only
      split
      · trivial
      · intro q
        apply readdirEntP_leaves
        simp only
        omega
  · exact readdirEntP_leaves k it it.size (Nat.le_refl _)

theorem readdirEntP_nofail (k : Nat) (it : Rd) : NoFail loopFuelSt (readdirEntP k it) := by
  unfold readdirEntP
  split
  · trivial
  · intro e name q; trivial

theorem readdirP_nofail (k : Nat) (it : Rd) : NoFail loopFuelSt (readdirP k it) := by
  unfold readdirP
  split
  · split
    · trivial
    · intro h
      simp only
      split
      · simp only [NoFail]; decide
      · intro q; exact readdirEntP_nofail _ _
  · exact readdirEntP_nofail _ _

theorem readIndexP_nofail {α : Type} (e : Status) (he : errAlloc ≠ e) (k : Nat) :
    ∀ (n im : Nat) (acc : Bytes) (cont : Bytes → Prog α), (∀ bs, NoFail e (cont bs)) → NoFail e (readIndexP k n im acc cont) := by
  intro n
  induction n with
  | zero => intro im acc cont h; exact h acc
  | succ n ih =>
    intro im acc cont h
    unfold readIndexP
    intro ent
    simp only
    split
    · exact he
    · intro name
      exact ih _ _ cont h

/-- `read_inode` fails of its own accord only with `SQFS_ERROR_UNSUPPORTED`, `SQFS_ERROR_OVERFLOW` or
`SQFS_ERROR_ALLOC` -/
theorem readInodeP_nofail (k tblStart blockSize b o : Nat) (e : Status) (h1 : errUnsupported ≠ e) (h2 : errOverflow ≠ e)
    (h3 : errAlloc ≠ e) : NoFail e (readInodeP k tblStart blockSize b o) := by
  unfold readInodeP
  intro h
  simp only
  split
  · exact h1
  · split
    · intro d
      simp only
      split
      · exact h3
      · intro ex; trivial
    · split
      · intro d
        simp only
        split
        · exact h3
        · intro tgt; trivial
      · split
        · intro d
          simp only
          split
          · exact h2
          · split
            · exact h3
            · intro ex; trivial
        · split
          · intro d
            simp only
            split
            · exact h3
            · intro tgt x; trivial
          · split
            · intro d
              simp only
              split
              · trivial
              · exact readIndexP_nofail e h3 k _ _ _ _ (fun _ => trivial)
            · split
              · intro d; trivial
              · split
                · intro d; trivial
                · split
                  · intro d; trivial
                  · split
                    · intro d; trivial
                    · intro d; trivial

/-- the listing loop never runs out of fuel: every entry consumes at least 9 bytes of `it.size` -/
theorem listGoP_fuel {f : File} {unc : Codec} (hc : CodecOK unc) (d : DirRd) :
    ∀ (fuel : Nat) (it : Rd) (acc : List (Entry × Nat)) (S : Readers), (∀ k, Coherent f unc (S k)) → it.size < fuel →
      (exec true f unc (listGoP d fuel it acc) S).1 ≠ .error loopFuelSt := by
  intro fuel
  induction fuel with
  | zero => intro it acc S _ h; omega
  | succ fuel ih =>
    intro it acc S hS hlt
    unfold listGoP
    rw [exec_bind]
    obtain ⟨hco, herr⟩ := exec_coherent_err hc (d.readP it) S hS
    have hleaf := exec_leaves true f unc (fun r : RdRes × Rd => match r.1 with | .eof => True | .ent _ _ => r.2.size < it.size)
      (d.readP it) S
    cases hr : exec true f unc (d.readP it) S with
    | mk r S' =>
      rw [hr] at hco herr hleaf
      cases r with
      | error e =>
        simp only
        intro h
        cases h
        exact herr loopFuelSt (by decide) (readdirP_nofail 1 it) rfl
      | ok v =>
        simp only
        have hv := hleaf v (readdirP_leaves 1 it) rfl
        obtain ⟨res, it'⟩ := v
        cases res with
        | eof => simp only [exec]; intro h; cases h
        | ent e iref =>
          simp only at hv ⊢
          exact ih it' _ S' hco (by omega)

theorem findEntP_fuel {f : File} {unc : Codec} (hc : CodecOK unc) (d : DirRd) (path : Bytes) :
    ∀ (fuel : Nat) (it : Rd) (S : Readers), (∀ k, Coherent f unc (S k)) → it.size < fuel →
      (∀ k, Coherent f unc ((exec true f unc (findEntP d path fuel it) S).2 k)) ∧
      (exec true f unc (findEntP d path fuel it) S).1 ≠ .error loopFuelSt ∧
      ∀ r, (exec true f unc (findEntP d path fuel it) S).1 = .ok r → 1 ≤ r.2 := by
  intro fuel
  induction fuel with
  | zero => intro it S _ h; omega
  | succ fuel ih =>
    intro it S hS hlt
    unfold findEntP
    rw [exec_bind]
    obtain ⟨hco, herr⟩ := exec_coherent_err hc (d.readP it) S hS
    have hleaf := exec_leaves true f unc (fun r : RdRes × Rd => match r.1 with | .eof => True | .ent _ _ => r.2.size < it.size)
      (d.readP it) S
    cases hr : exec true f unc (d.readP it) S with
    | mk r S' =>
      rw [hr] at hco herr hleaf
      cases r with
      | error e =>
        simp only
        refine ⟨hco, ?_, fun r h => by cases h⟩
        intro h
        cases h
        exact herr loopFuelSt (by decide) (readdirP_nofail 1 it) rfl
      | ok v =>
        simp only
        have hv := hleaf v (readdirP_leaves 1 it) rfl
        obtain ⟨res, it'⟩ := v
        cases res with
        | eof =>
          simp only [exec]
          refine ⟨hco, ?_, ?_⟩
          · intro h; cases h
          · intro r h; cases h
        | ent e iref =>
          simp only at hv ⊢
          split
          · simp only [exec]
            refine ⟨hco, ?_, ?_⟩
            · intro h; cases h
            · intro r h; cases h; simp
          · exact ih it' S' hco (by omega)

theorem dropSlashes_length (p : Bytes) : (dropSlashes p).length ≤ p.length := by
  induction p with
  | nil => simp [dropSlashes]
  | cons a p ih =>
    unfold dropSlashes
    split
    · rename_i r heq
      cases heq
      simp only [List.length_cons]
      omega
    · rename_i heq
      simp

/-- path resolution never runs out of fuel: every component consumes at least one byte of the path -/
theorem resolveGoP_fuel {f : File} {unc : Codec} (hc : CodecOK unc) (d : DirRd) :
    ∀ (fuel : Nat) (path : Bytes) (cur : Nat) (S : Readers), (∀ k, Coherent f unc (S k)) → path.length < fuel →
      (exec true f unc (resolveGoP d fuel path cur) S).1 ≠ .error loopFuelSt := by
  intro fuel
  induction fuel with
  | zero => intro path cur S _ h; omega
  | succ fuel ih =>
    intro path cur S hS hlt
    unfold resolveGoP
    simp only
    have hdl := dropSlashes_length path
    split
    · simp only [exec]; intro h; cases h
    · rename_i hne
      rw [exec_bind]
      obtain ⟨hco, herr⟩ := exec_coherent_err hc (d.getInodeP cur) S hS
      cases hr : exec true f unc (d.getInodeP cur) S with
      | mk r S' =>
        rw [hr] at hco herr
        cases r with
        | error e =>
          simp only
          intro h
          cases h
          exact herr loopFuelSt (by decide) (readInodeP_nofail _ _ _ _ _ loopFuelSt (by decide) (by decide) (by decide)) rfl
        | ok ino =>
          simp only
          cases hod : d.openDir ino with
          | error e =>
            simp only [exec]
            intro h
            cases h
            unfold DirRd.openDir at hod
            split at hod
            · cases hod
            · split at hod
              · cases hod
              · cases hod
          | ok it =>
            simp only
            rw [exec_bind]
            obtain ⟨fco, ferr, fok⟩ := findEntP_fuel hc d (dropSlashes path) (it.size + 2) it S' hco (by omega)
            cases hf : exec true f unc (findEntP d (dropSlashes path) (it.size + 2) it) S' with
            | mk r2 S'' =>
              rw [hf] at fco ferr fok
              cases r2 with
              | error e =>
                simp only
                intro h
                cases h
                exact ferr rfl
              | ok v =>
                simp only
                have h1 := fok v rfl
                apply ih _ _ S'' fco
                have hpos : 0 < (dropSlashes path).length := by
                  cases hp : dropSlashes path with
                  | nil => rw [hp] at hne; simp at hne
                  | cons a l => simp
                simp only [List.length_drop]
                omega

end Sqfs.C10P
