/-
C01 — the inode `serialize_tree_node` hands to `sqfs_meta_writer_write_inode` is well formed (so that
`decInode_encInode` applies to it), and what the writer refuses / accepts.
-/
import Sqfs.Proofs.EncSelect
import Sqfs.Proofs.IdTable
import Sqfs.Model.DirWriter
import Sqfs.Model.EncXattr
import Mathlib.Data.List.Perm.Subperm
namespace Sqfs.Enc
open Sqfs.Consts

theorem typeBits_makeExtended (i : Inode) : (makeExtended i).typeBits = i.typeBits := by cases i <;> rfl
theorem typeBits_makeBasic (i : Inode) : (makeBasic i).typeBits = i.typeBits := by
  cases i <;> simp only [makeBasic] <;> (repeat' split) <;> rfl
theorem typeBits_putXattr (x : Nat) (i : Inode) : (putXattr x i).typeBits = i.typeBits := by cases i <;> rfl
theorem base_makeExtended (i : Inode) : (makeExtended i).base = i.base := by cases i <;> rfl
theorem base_makeBasic (i : Inode) : (makeBasic i).base = i.base := by
  cases i <;> simp only [makeBasic] <;> (repeat' split) <;> rfl
theorem base_putXattr (x : Nat) (i : Inode) : (putXattr x i).base = i.base := by cases i <;> rfl

theorem none32_lt : NONE32 < 2 ^ 32 := by decide

theorem wf_makeExtended (bs : Nat) (i : Inode) (h : WfInode bs i) : WfInode bs (makeExtended i) := by
  have hN := none32_lt
  cases i with
  | dir b sb nl sz off par =>
    obtain ⟨hb, h1, h2, h3, h4, h5⟩ := h
    exact ⟨hb, h2, by omega, h1, h5, by omega, h4, hN, rfl, fun _ => rfl, by simp⟩
  | file b st fi fo sz blks =>
    obtain ⟨hb, h1, h2, h3, h4, h5⟩ := h
    exact ⟨hb, by omega, by omega, by omega, by omega, h2, h3, hN, h5⟩
  | slink b nl ts t => obtain ⟨hb, h1, h2, h3⟩ := h; exact ⟨hb, h1, h2, h3, hN⟩
  | dev b c nl d => obtain ⟨hb, h1, h2⟩ := h; exact ⟨hb, h1, h2, hN⟩
  | ipc b c nl => obtain ⟨hb, h1⟩ := h; exact ⟨hb, h1, hN⟩
  | _ => exact h

theorem wf_makeBasic (bs : Nat) (i : Inode) (h : WfInode bs i) : WfInode bs (makeBasic i) := by
  cases i with
  | dirExt b nl sz sb par ic off x idx =>
    simp only [makeBasic]
    by_cases hx : x ≠ NONE32
    · rw [if_pos hx]; exact h
    · rw [if_neg hx]
      by_cases hs : sz > 0xFFFF
      · rw [if_pos hs]; exact h
      · rw [if_neg hs]
        obtain ⟨hb, h1, h2, h3, h4, h5, h6, _⟩ := h
        exact ⟨hb, h3, h1, by omega, h6, h4⟩
  | fileExt b st sz sp nl fi fo x blks =>
    simp only [makeBasic]
    by_cases hx : x ≠ NONE32
    · rw [if_pos hx]; exact h
    · rw [if_neg hx]
      by_cases hs : st > 0xFFFFFFFF ∨ sz > 0xFFFFFFFF ∨ sp > 0 ∨ nl > 1
      · rw [if_pos hs]; exact h
      · rw [if_neg hs]
        obtain ⟨hb, h1, h2, h3, h4, h5, h6, h7, h8⟩ := h
        exact ⟨hb, by omega, h5, h6, by omega, h8⟩
  | slinkExt b nl ts t x =>
    simp only [makeBasic]
    by_cases hx : x ≠ NONE32
    · rw [if_pos hx]; exact h
    · rw [if_neg hx]; obtain ⟨hb, h1, h2, h3, _⟩ := h; exact ⟨hb, h1, h2, h3⟩
  | devExt b c nl d x =>
    simp only [makeBasic]
    by_cases hx : x ≠ NONE32
    · rw [if_pos hx]; exact h
    · rw [if_neg hx]; obtain ⟨hb, h1, h2, _⟩ := h; exact ⟨hb, h1, h2⟩
  | ipcExt b c nl x =>
    simp only [makeBasic]
    by_cases hx : x ≠ NONE32
    · rw [if_pos hx]; exact h
    · rw [if_neg hx]; obtain ⟨hb, h1, _⟩ := h; exact ⟨hb, h1⟩
  | _ => exact h

theorem wf_putXattr (bs x : Nat) (hx : x < 2 ^ 32) (i : Inode) (h : WfInode bs i) : WfInode bs (putXattr x i) := by
  cases i with
  | dirExt b nl sz sb par ic off x' idx => obtain ⟨hb, h1, h2, h3, h4, h5, h6, _, h8⟩ := h; exact ⟨hb, h1, h2, h3, h4, h5, h6, hx, h8⟩
  | fileExt b st sz sp nl fi fo x' blks => obtain ⟨hb, h1, h2, h3, h4, h5, h6, _, h8⟩ := h; exact ⟨hb, h1, h2, h3, h4, h5, h6, hx, h8⟩
  | slinkExt b nl ts t x' => obtain ⟨hb, h1, h2, h3, _⟩ := h; exact ⟨hb, h1, h2, h3, hx⟩
  | devExt b c nl d x' => obtain ⟨hb, h1, h2, _⟩ := h; exact ⟨hb, h1, h2, hx⟩
  | ipcExt b c nl x' => obtain ⟨hb, h1, _⟩ := h; exact ⟨hb, h1, hx⟩
  | _ => exact h

theorem wf_setXattrIndex (bs x : Nat) (hx : x < 2 ^ 32) (i : Inode) (h : WfInode bs i) : WfInode bs (setXattrIndex x i) := by
  unfold setXattrIndex
  split
  · exact wf_putXattr bs x hx _ (wf_makeExtended bs i h)
  · exact wf_putXattr bs x hx _ h

theorem wf_setFileNlink (bs lc : Nat) (hlc : lc < 2 ^ 32) (i : Inode) (h : WfInode bs i) : WfInode bs (setFileNlink lc i) := by
  cases i with
  | file b st fi fo sz blks =>
    simp only [setFileNlink]
    split
    · obtain ⟨hb, h1, h2, h3, h4, h5⟩ := h
      exact ⟨hb, by omega, by omega, by omega, hlc, h2, h3, none32_lt, h5⟩
    · exact h
  | fileExt b st sz sp nl fi fo x blks =>
    obtain ⟨hb, h1, h2, h3, h4, h5, h6, h7, h8⟩ := h
    exact ⟨hb, h1, h2, h3, hlc, h5, h6, h7, h8⟩
  | _ => exact h

theorem typeBits_setFileNlink (lc : Nat) (i : Inode) : (setFileNlink lc i).typeBits = i.typeBits := by
  cases i <;> simp only [setFileNlink] <;> (try split) <;> rfl

theorem typeBits_withBase (f : Base → Base) (i : Inode) : (i.withBase f).typeBits = i.typeBits := by cases i <;> rfl
theorem base_withBase (f : Base → Base) (i : Inode) : (i.withBase f).base = f i.base := by cases i <;> rfl

/-- replacing the base by one that is well formed for the kind keeps the inode well formed -/
theorem wf_withBase (bs : Nat) (f : Base → Base) (i : Inode) (h : WfInode bs i) (hf : WfBase i.typeBits (f i.base)) :
    WfInode bs (i.withBase f) := by
  obtain ⟨_, h⟩ := h
  refine ⟨by rw [typeBits_withBase, base_withBase]; exact hf, ?_⟩
  cases i <;> exact h

/-- **`serialize_tree_node` establishes `WfInode`.**  Given an inode that is well formed apart from its base (what
the directory writer, the block processor or `tree_node_to_inode` produced) and node attributes within their C types —
a mode whose `S_IFMT` bits are those of the kind, 32-bit time stamp, inode number, link count and xattr index — and
16-bit id-table indices, the inode handed to `sqfs_meta_writer_write_inode` is well formed. -/
theorem serialize_wf (bs : Nat) (isDir isReg : Bool) (a : NodeAttr) (uid gid : Nat) (i0 : Inode) (h0 : WfInode bs i0)
    (hm : a.mode < 65536 ∧ a.mode / 4096 * 4096 = i0.typeBits) (ht : a.mtime < 2 ^ 32) (hn : a.inum < 2 ^ 32)
    (hl : a.linkCount < 2 ^ 32) (hx : a.xattrIdx < 2 ^ 32) (hu : uid < 65536) (hg : gid < 65536) :
    WfInode bs (setIds uid gid (serializeInode isDir isReg a i0)) := by
  have hb0 := h0.1
  have h1 : WfInode bs (if isReg then setFileNlink a.linkCount i0 else i0) := by
    split
    · exact wf_setFileNlink bs _ hl i0 h0
    · exact h0
  have t1 : (if isReg then setFileNlink a.linkCount i0 else i0).typeBits = i0.typeBits := by
    split
    · exact typeBits_setFileNlink _ _
    · rfl
  have h2 := wf_withBase bs (fun b => { b with mode := a.mode, mtime := a.mtime, inum := a.inum }) _ h1 (by
    rw [t1]
    obtain ⟨_, _, c, d, _, _⟩ := h1.1
    exact ⟨hm.1, hm.2, c, d, ht, hn⟩)
  have h3 := wf_setXattrIndex bs a.xattrIdx hx _ h2
  have h4 : WfInode bs (serializeInode isDir isReg a i0) := by
    unfold serializeInode
    simp only
    split
    · exact wf_makeBasic bs _ h3
    · exact h3
  unfold setIds
  apply wf_withBase bs _ _ h4
  obtain ⟨a1, a2, _, _, a5, a6⟩ := h4.1
  exact ⟨a1, a2, hu, hg, a5, a6⟩

/-! ### the base the inode arrives with does not matter -/

theorem withBase_withBase (f g : Base → Base) (i : Inode) : (i.withBase f).withBase g = i.withBase (g ∘ f) := by cases i <;> rfl
theorem makeExtended_withBase (f : Base → Base) (i : Inode) : makeExtended (i.withBase f) = (makeExtended i).withBase f := by
  cases i <;> rfl
theorem makeBasic_withBase (f : Base → Base) (i : Inode) : makeBasic (i.withBase f) = (makeBasic i).withBase f := by
  cases i with
  | dirExt b nl sz sb par ic off x idx =>
    by_cases hx : x ≠ NONE32 <;> by_cases hs : sz > 0xFFFF <;> simp [makeBasic, hx, hs, Inode.withBase]
  | fileExt b st sz sp nl fi fo x blks =>
    by_cases hx : x ≠ NONE32 <;> by_cases hc : (st > 0xFFFFFFFF ∨ sz > 0xFFFFFFFF ∨ sp > 0 ∨ nl > 1) <;>
      simp [makeBasic, hx, hc, Inode.withBase]
  | slinkExt b nl ts t x => by_cases hx : x ≠ NONE32 <;> simp [makeBasic, hx, Inode.withBase]
  | devExt b c nl d x => by_cases hx : x ≠ NONE32 <;> simp [makeBasic, hx, Inode.withBase]
  | ipcExt b c nl x => by_cases hx : x ≠ NONE32 <;> simp [makeBasic, hx, Inode.withBase]
  | _ => rfl
theorem putXattr_withBase (x : Nat) (f : Base → Base) (i : Inode) : putXattr x (i.withBase f) = (putXattr x i).withBase f := by
  cases i <;> rfl
theorem setXattrIndex_withBase (x : Nat) (f : Base → Base) (i : Inode) :
    setXattrIndex x (i.withBase f) = (setXattrIndex x i).withBase f := by
  unfold setXattrIndex; split <;> simp [makeExtended_withBase, putXattr_withBase]
theorem setFileNlink_withBase (lc : Nat) (f : Base → Base) (i : Inode) :
    setFileNlink lc (i.withBase f) = (setFileNlink lc i).withBase f := by
  cases i with
  | file b st fi fo sz blks => by_cases h : lc > 1 <;> simp [setFileNlink, h, Inode.withBase, makeExtended]
  | _ => rfl

theorem wfBody_withBase (bs : Nat) (f : Base → Base) (i : Inode) : WfBody bs (i.withBase f) ↔ WfBody bs i := by
  cases i <;> exact Iff.rfl

/-- the result of `serialize_tree_node` does not depend on the base fields the inode arrived with -/
theorem serializeInode_base_irrelevant (isDir isReg : Bool) (a : NodeAttr) (uid gid : Nat) (f : Base → Base) (i0 : Inode) :
    setIds uid gid (serializeInode isDir isReg a (i0.withBase f)) = setIds uid gid (serializeInode isDir isReg a i0) := by
  unfold setIds serializeInode
  simp only
  have h1 : (if isReg = true then setFileNlink a.linkCount (i0.withBase f) else i0.withBase f)
      = (if isReg = true then setFileNlink a.linkCount i0 else i0).withBase f := by
    split
    · exact setFileNlink_withBase _ _ _
    · rfl
  rw [h1, withBase_withBase, setXattrIndex_withBase]
  generalize (if isReg = true then setFileNlink a.linkCount i0 else i0) = j
  split
  · rw [makeBasic_withBase, withBase_withBase]
    conv => rhs; rw [setXattrIndex_withBase, makeBasic_withBase, withBase_withBase]
    cases (makeBasic (setXattrIndex a.xattrIdx j)) <;> rfl
  · rw [withBase_withBase]
    conv => rhs; rw [setXattrIndex_withBase, withBase_withBase]
    cases (setXattrIndex a.xattrIdx j) <;> rfl

theorem typeBits_cases (i : Inode) : i.typeBits = 16384 ∨ i.typeBits = 32768 ∨ i.typeBits = 40960 ∨ i.typeBits = 24576 ∨
    i.typeBits = 8192 ∨ i.typeBits = 4096 ∨ i.typeBits = 49152 := by
  cases i with
  | dev b c nl d => cases c <;> simp [Inode.typeBits, sIFBLK, sIFCHR]
  | ipc b c nl => cases c <;> simp [Inode.typeBits, sIFIFO, sIFSOCK]
  | devExt b c nl d x => cases c <;> simp [Inode.typeBits, sIFBLK, sIFCHR]
  | ipcExt b c nl x => cases c <;> simp [Inode.typeBits, sIFIFO, sIFSOCK]
  | _ => simp [Inode.typeBits, sIFDIR, sIFREG, sIFLNK]

theorem typeBits_mul' (i : Inode) : i.typeBits < 65536 ∧ i.typeBits / 4096 * 4096 = i.typeBits := by
  rcases typeBits_cases i with h | h | h | h | h | h | h <;> rw [h] <;> constructor <;> omega

/-- `serialize_wf` with only the per-kind part required of the incoming inode (its base is calloc'ed zeros in C) -/
theorem serialize_wf' (bs : Nat) (isDir isReg : Bool) (a : NodeAttr) (uid gid : Nat) (i0 : Inode) (h0 : WfBody bs i0)
    (hm : a.mode < 65536 ∧ a.mode / 4096 * 4096 = i0.typeBits) (ht : a.mtime < 2 ^ 32) (hn : a.inum < 2 ^ 32)
    (hl : a.linkCount < 2 ^ 32) (hx : a.xattrIdx < 2 ^ 32) (hu : uid < 65536) (hg : gid < 65536) :
    WfInode bs (setIds uid gid (serializeInode isDir isReg a i0)) := by
  rw [← serializeInode_base_irrelevant isDir isReg a uid gid (fun _ => ⟨i0.typeBits, 0, 0, 0, 0⟩) i0]
  apply serialize_wf bs isDir isReg a uid gid _ ?_ (by rw [typeBits_withBase]; exact hm) ht hn hl hx hu hg
  refine ⟨?_, (wfBody_withBase bs _ i0).mpr h0⟩
  rw [typeBits_withBase, base_withBase]
  obtain ⟨t1, t2⟩ := typeBits_mul' i0
  exact ⟨t1, t2, by simp, by simp, by simp, by simp⟩

/-! ### refusal and acceptance -/

open Sqfs.IdTable in
theorem addAll_mem (lim : Nat) : ∀ (ids tbl t is : List Nat), addAll lim tbl ids = some (t, is) →
    (∀ x ∈ tbl, x ∈ t) ∧ ∀ x ∈ ids, x ∈ t := by
  intro ids
  induction ids with
  | nil => intro tbl t is h; simp only [addAll, Option.some.injEq, Prod.mk.injEq] at h; obtain ⟨rfl, _⟩ := h; simp
  | cons id rest ih =>
    intro tbl t is h
    simp only [addAll] at h
    cases hs : step lim tbl id with
    | none => rw [hs] at h; simp at h
    | some r =>
      obtain ⟨i, t1⟩ := r
      rw [hs] at h
      simp only [Option.map_eq_some_iff] at h
      obtain ⟨⟨t2, is2⟩, hr, heq⟩ := h
      simp only [Prod.mk.injEq] at heq
      obtain ⟨rfl, _⟩ := heq
      obtain ⟨m1, m2⟩ := ih t1 t2 is2 hr
      have hstep : (∀ x ∈ tbl, x ∈ t1) ∧ id ∈ t1 := by
        unfold step at hs
        simp only at hs
        by_cases c1 : tbl.idxOf id < tbl.length
        · rw [if_pos c1] at hs
          simp only [Option.some.injEq, Prod.mk.injEq] at hs
          obtain ⟨_, rfl⟩ := hs
          exact ⟨fun x hx => hx, List.idxOf_lt_length_iff.mp c1⟩
        · rw [if_neg c1] at hs
          by_cases c2 : tbl.length = lim
          · rw [if_pos c2] at hs; simp at hs
          · rw [if_neg c2] at hs
            simp only [Option.some.injEq, Prod.mk.injEq] at hs
            obtain ⟨_, rfl⟩ := hs
            exact ⟨fun x hx => List.mem_append_left _ hx, by simp⟩
      refine ⟨fun x hx => m1 x (hstep.1 x hx), ?_⟩
      intro x hx
      rcases List.mem_cons.mp hx with rfl | hx
      · exact m1 _ hstep.2
      · exact m2 x hx

/-- "at most 65535 distinct ids": every duplicate-free selection of the ids is that short -/
def IdsRepresentable (ids : List Nat) : Prop := ∀ d : List Nat, d.Nodup → (∀ x ∈ d, x ∈ ids) → d.length ≤ 65535

open Sqfs.IdTable in
/-- more than 65535 distinct ids are refused (`SQFS_ERROR_OVERFLOW`) instead of wrapping the 16-bit id count -/
theorem ids_refused (ids : List Nat) (h : ¬ IdsRepresentable ids) : addAll limit [] ids = none := by
  cases hr : addAll limit [] ids with
  | none => rfl
  | some r =>
    obtain ⟨t, is⟩ := r
    exfalso
    apply h
    intro d hd hsub
    obtain ⟨h1, _, h3, _, _⟩ := addAll_spec limit ids [] t is (by simp) (by simp) hr
    obtain ⟨_, m2⟩ := addAll_mem limit ids [] t is hr
    have hsp : d.Subperm t := List.Nodup.subperm hd (fun x hx => m2 x (hsub x hx))
    have := hsp.length_le
    simp only [limit] at h1
    omega

open Sqfs.IdTable in
theorem addAll_accepts (all : List Nat) (hrep : IdsRepresentable all) : ∀ (rest tbl : List Nat), tbl.Nodup →
    (∀ x ∈ tbl, x ∈ all) → (∀ x ∈ rest, x ∈ all) → ∃ r, addAll limit tbl rest = some r := by
  intro rest
  induction rest with
  | nil => intro tbl _ _ _; exact ⟨_, rfl⟩
  | cons id rest ih =>
    intro tbl hn hsub hrest
    simp only [addAll]
    have hid := hrest id (List.mem_cons_self ..)
    unfold step
    simp only
    by_cases c1 : tbl.idxOf id < tbl.length
    · rw [if_pos c1]
      obtain ⟨r, hr⟩ := ih tbl hn hsub (fun x hx => hrest x (List.mem_cons_of_mem _ hx))
      exact ⟨(r.1, tbl.idxOf id :: r.2), by simp [hr]⟩
    · rw [if_neg c1]
      have hnot : id ∉ tbl := fun hm => c1 (List.idxOf_lt_length_iff.mpr hm)
      have hnd : (tbl ++ [id]).Nodup := by
        rw [List.nodup_append]
        refine ⟨hn, by simp, ?_⟩
        intro a ha b hb
        simp only [List.mem_singleton] at hb
        subst hb
        intro hab; subst hab; exact hnot ha
      have hsub' : ∀ x ∈ tbl ++ [id], x ∈ all := by
        intro x hx
        rcases List.mem_append.mp hx with h | h
        · exact hsub x h
        · simp only [List.mem_singleton] at h; subst h; exact hid
      have hlen := hrep _ hnd hsub'
      have c2 : ¬ (tbl.length = limit) := by simp only [limit, List.length_append, List.length_cons, List.length_nil] at hlen ⊢; omega
      rw [if_neg c2]
      obtain ⟨r, hr⟩ := ih (tbl ++ [id]) hnd hsub' (fun x hx => hrest x (List.mem_cons_of_mem _ hx))
      exact ⟨(r.1, tbl.length :: r.2), by simp [hr]⟩

end Sqfs.Enc
