/-
Translation invariance of the block-writer model: running the writer on a file that has `pad` in front of `pre`
gives the same run with every offset shifted by `|pad|` (the answer `0` of a `LAST` call that stored nothing stays `0`,
as in C: `*out = 0`).  This is what the correspondence check relies on when it drives the *real* writer at file
offsets around 4 GiB (harness file with a virtual base of zero bytes) and compares with the model run at offset 0.
-/
import Sqfs.Proofs.BlockWriter
namespace Sqfs.BlockWriter
open Sqfs.Consts

def shiftE (k : Nat) (e : Entry) : Entry := { e with offset := e.offset + k }

/-- `s0` moved `|pad|` bytes up -/
def shiftState (pad : Bytes) (s0 : State) : State :=
  { file := pad ++ s0.file, blocks := s0.blocks.map (shiftE pad.length), fileStart := s0.fileStart, hashOnly := s0.hashOnly }

theorem shiftState_blocks (pad : Bytes) (s0 : State) : (shiftState pad s0).blocks = s0.blocks.map (shiftE pad.length) := rfl
theorem shiftState_file (pad : Bytes) (s0 : State) : (shiftState pad s0).file = pad ++ s0.file := rfl
theorem shiftState_fileStart (pad : Bytes) (s0 : State) : (shiftState pad s0).fileStart = s0.fileStart := rfl
theorem shiftState_hashOnly (pad : Bytes) (s0 : State) : (shiftState pad s0).hashOnly = s0.hashOnly := rfl

theorem slice_shift (pad f : Bytes) (off n : Nat) : slice (pad ++ f) (off + pad.length) n = slice f off n := by
  unfold slice
  have : List.drop (off + pad.length) (pad ++ f) = List.drop off f := by
    rw [Nat.add_comm, ← List.drop_drop]
    simp
  rw [this]

theorem readAt_shift (pad f : Bytes) (off n : Nat) : readAt (pad ++ f) (off + pad.length) n = readAt f off n := by
  unfold readAt
  by_cases hn : n = 0
  · simp [hn]
  · simp only [hn, if_false, List.length_append]
    by_cases h : off + n ≤ f.length
    · rw [if_pos (by omega), if_pos h, slice_shift]
    · rw [if_neg (by omega), if_neg h]

theorem rangeEqGo_shift (pad f : Bytes) : ∀ (fuel a b n : Nat),
    rangeEqGo (pad ++ f) fuel (a + pad.length) (b + pad.length) n = rangeEqGo f fuel a b n := by
  intro fuel
  induction fuel with
  | zero => intro a b n; rfl
  | succ fuel ih =>
    intro a b n
    unfold rangeEqGo
    by_cases hn : n = 0
    · simp [hn]
    · simp only [hn, if_false]
      rw [readAt_shift, readAt_shift]
      have e1 : a + pad.length + min (scratchSize / 2) n = (a + min (scratchSize / 2) n) + pad.length := by omega
      have e2 : b + pad.length + min (scratchSize / 2) n = (b + min (scratchSize / 2) n) + pad.length := by omega
      rw [e1, e2]
      cases readAt f a (min (scratchSize / 2) n) with
      | none => rfl
      | some x =>
        cases readAt f b (min (scratchSize / 2) n) with
        | none => rfl
        | some y =>
          simp only []
          split
          · rfl
          · exact ih _ _ _

theorem getElem?_shift (k : Nat) (l : List Entry) (i : Nat) : (l.map (shiftE k))[i]? = (l[i]?).map (shiftE k) := by
  rw [List.getElem?_map]

theorem hashRun_shift (k : Nat) (l : List Entry) (i fs : Nat) : ∀ (rem j : Nat),
    hashRun (l.map (shiftE k)) i fs rem j = hashRun l i fs rem j := by
  intro rem
  induction rem with
  | zero => intro j; rfl
  | succ rem ih =>
    intro j
    unfold hashRun
    rw [getElem?_shift, getElem?_shift]
    cases l[i + j]? with
    | none => rfl
    | some a =>
      cases l[fs + j]? with
      | none => rfl
      | some b =>
        simp only [Option.map_some]
        have : (shiftE k a).sameHash (shiftE k b) = a.sameHash b := rfl
        rw [this, ih]

theorem findMatch_shift (pad : Bytes) (s0 : State) (count locA sz : Nat) : ∀ (fuel i : Nat),
    findMatch (shiftState pad s0) count (locA + pad.length) sz fuel i = findMatch s0 count locA sz fuel i := by
  intro fuel
  induction fuel with
  | zero => intro i; rfl
  | succ fuel ih =>
    intro i
    unfold findMatch
    show (match hashRun (s0.blocks.map (shiftE pad.length)) i s0.fileStart count 0 with
      | none => Except.error Err.internal
      | some false => findMatch (shiftState pad s0) count (locA + pad.length) sz fuel (i + 1)
      | some true =>
        if s0.hashOnly then Except.ok i
        else
          match (s0.blocks.map (shiftE pad.length))[i]? with
          | none => Except.error Err.internal
          | some bi =>
            match checkFileRangeEqual (pad ++ s0.file) (locA + pad.length) bi.offset sz with
            | .error e => Except.error e
            | .ok true => Except.ok i
            | .ok false => findMatch (shiftState pad s0) count (locA + pad.length) sz fuel (i + 1)) = _
    rw [hashRun_shift, getElem?_shift]
    cases hashRun s0.blocks i s0.fileStart count 0 with
    | none => rfl
    | some r =>
      cases r with
      | false => exact ih _
      | true =>
        simp only []
        split
        · rfl
        · cases s0.blocks[i]? with
          | none => rfl
          | some bi =>
            simp only [Option.map_some]
            unfold checkFileRangeEqual
            show (match rangeEqGo (pad ++ s0.file) sz (locA + pad.length) (bi.offset + pad.length) sz with
              | .error e => Except.error e
              | .ok true => Except.ok i
              | .ok false => findMatch (shiftState pad s0) count (locA + pad.length) sz fuel (i + 1)) = _
            rw [rangeEqGo_shift]
            simp only [ih]
            cases rangeEqGo s0.file sz locA bi.offset sz with
            | error e => rfl
            | ok r => cases r <;> rfl

theorem truncate_shift (pad f : Bytes) (m : Nat) : truncate (pad ++ f) (m + pad.length) = pad ++ truncate f m := by
  unfold truncate
  have h1 : List.take (m + pad.length) (pad ++ f) = pad ++ List.take m f := by
    rw [Nat.add_comm, List.take_append, List.take_of_length_le (by omega), Nat.add_sub_cancel_left]
  have h2 : m + pad.length - (pad ++ f).length = m - f.length := by simp; omega
  rw [h1, h2, List.append_assoc]

theorem size_shift (k : Nat) (l : List Entry) : (l.map (shiftE k)).map Entry.size = l.map Entry.size := by
  rw [List.map_map]; rfl

/-- the answer of a `LAST` call: shifted, except the literal `0` for a file that stored nothing -/
def shiftLoc (k : Nat) (empty : Bool) (loc0 : Nat) : Nat := if empty then loc0 else loc0 + k

def shiftRes (pad : Bytes) (empty : Bool) : Except Err (State × Nat) → Except Err (State × Nat)
  | .error e => .error e
  | .ok (s0', loc0) => .ok (shiftState pad s0', shiftLoc pad.length empty loc0)

theorem dedup_shift (pad : Bytes) (s0 : State) (flags : Nat) :
    deduplicateBlocks (shiftState pad s0) flags =
      shiftRes pad (decide (s0.blocks.length - s0.fileStart = 0)) (deduplicateBlocks s0 flags) := by
  unfold deduplicateBlocks
  simp only [shiftState_blocks, shiftState_fileStart, shiftState_file, shiftState_hashOnly, List.length_map]
  split
  · rfl
  · by_cases hc0 : s0.blocks.length - s0.fileStart = 0
    · simp only [hc0, if_true, decide_true]; rfl
    · simp only [hc0, if_false, decide_false]
      rw [getElem?_shift]
      cases hb0 : s0.blocks[s0.fileStart]? with
      | none => rfl
      | some b0 =>
        simp only [Option.map_some]
        split
        · rfl
        · rw [← List.map_drop, size_shift]
          show (match findMatch (shiftState pad s0) (s0.blocks.length - s0.fileStart) (b0.offset + pad.length)
              (((s0.blocks.drop s0.fileStart).map Entry.size).sum) s0.fileStart 0 with
            | .error e => _ | .ok i => _) = _
          rw [findMatch_shift]
          cases findMatch s0 (s0.blocks.length - s0.fileStart) b0.offset
              ((s0.blocks.drop s0.fileStart).map Entry.size).sum s0.fileStart 0 with
          | error e => rfl
          | ok i =>
            simp only []
            rw [getElem?_shift]
            cases s0.blocks[i]? with
            | none => rfl
            | some bi =>
              simp only [Option.map_some]
              split
              · rfl
              · rw [getElem?_shift]
                cases s0.blocks[(if s0.blocks.length - s0.fileStart ≥ s0.fileStart - i
                    then i + (s0.blocks.length - s0.fileStart) else s0.fileStart) - 1]? with
                | none => rfl
                | some bl =>
                  simp only [Option.map_some, shiftRes, shiftLoc, shiftState, Bool.false_eq_true, if_false]
                  have e : (shiftE pad.length bl).offset + (shiftE pad.length bl).size = (bl.offset + bl.size) + pad.length := by
                    show bl.offset + pad.length + bl.size = _
                    omega
                  rw [e, truncate_shift, List.map_take]
                  rfl

theorem afterFirst_shift (pad : Bytes) (s0 : State) (c : Call) :
    afterFirst (shiftState pad s0) c = shiftState pad (afterFirst s0 c) := by
  unfold afterFirst
  split
  · simp [shiftState]
  · rfl

theorem afterStore_shift (pad : Bytes) (s0 : State) (c : Call) :
    afterStore (shiftState pad s0) c = shiftState pad (afterStore s0 c) := by
  unfold afterStore
  split
  · simp only [shiftState, List.map_append, List.map_cons, List.map_nil, shiftE, List.length_append]
    rw [show pad.length + s0.file.length = (pad ++ s0.file).length by simp, writeAt_end, writeAt_end, List.append_assoc]
    simp [Nat.add_comm]
  · rfl

/-- did this call end a file that stored nothing (the writer then answers the literal 0)? -/
def emptyLast (s0 : State) (c : Call) : Bool :=
  c.last && decide ((afterStore (afterFirst s0 c) c).blocks.length - (afterStore (afterFirst s0 c) c).fileStart = 0)

theorem writeDataBlock_shift (pad : Bytes) (s0 : State) (c : Call) :
    writeDataBlock (shiftState pad s0) c.chk c.flags c.data =
      shiftRes pad (emptyLast s0 c) (writeDataBlock s0 c.chk c.flags c.data) := by
  rw [writeDataBlock_eq, writeDataBlock_eq, afterFirst_shift, afterStore_shift]
  unfold emptyLast
  by_cases hl : hasFlag c.flags blkLastBlock = true
  · have hl' : c.last = true := hl
    rw [if_pos hl, if_pos hl, dedup_shift, hl']
    simp
  · have hl' : c.last = false := by
      have : hasFlag c.flags blkLastBlock = false := by simpa using hl
      exact this
    rw [if_neg hl, if_neg hl, hl']
    simp only [Bool.false_and, shiftRes, shiftLoc, Bool.false_eq_true, if_false]
    congr 2
    simp [shiftState, Nat.add_comm]

def emptiesOf : State → List Call → List Bool
  | _, [] => []
  | s, c :: cs =>
    emptyLast s c :: (match writeDataBlock s c.chk c.flags c.data with
      | .ok (s', _) => emptiesOf s' cs
      | .error _ => [])

def shiftLocs (k : Nat) : List Bool → List Nat → List Nat
  | e :: es, l :: ls => shiftLoc k e l :: shiftLocs k es ls
  | _, _ => []

theorem run_shift (pad : Bytes) : ∀ (cs : List Call) (s0 : State),
    run (shiftState pad s0) cs =
      (match run s0 cs with
       | .error e => .error e
       | .ok (s0', locs0) => .ok (shiftState pad s0', shiftLocs pad.length (emptiesOf s0 cs) locs0)) := by
  intro cs
  induction cs with
  | nil => intro s0; rfl
  | cons c cs ih =>
    intro s0
    simp only [run, emptiesOf]
    rw [writeDataBlock_shift]
    cases writeDataBlock s0 c.chk c.flags c.data with
    | error e => rfl
    | ok r =>
      obtain ⟨s1, l1⟩ := r
      simp only [shiftRes]
      rw [ih s1]
      cases run s1 cs with
      | error e => rfl
      | ok r2 =>
        obtain ⟨s2, ls⟩ := r2
        rfl

theorem init_shift (pad pre : Bytes) (wrFlags : Nat) : init (pad ++ pre) wrFlags = shiftState pad (init pre wrFlags) := rfl

end Sqfs.BlockWriter
