/-
C11: whatever the order in which entries arrive, the tree the scan builds has every directory strictly sorted by strcmp
(`TNode.AllSorted`) — the invariant behind "numbers and file list are functions of the sorted tree".
-/
import Sqfs.Proofs.FsTreePost

namespace Sqfs.FsTree

theorem allSorted_mk (n : Name) (a : Attr) (cs : List TNode) :
    (TNode.mk n a cs).AllSorted ↔ SortedNames (cs.map TNode.name) ∧ AllSortedList cs := by
  simp [TNode.AllSorted]

theorem allSortedList_iff (cs : List TNode) : AllSortedList cs ↔ ∀ c ∈ cs, c.AllSorted := by
  induction cs with
  | nil => simp [AllSortedList]
  | cons c cs ih => simp [AllSortedList, ih]

theorem TNode.allSorted_iff (t : TNode) :
    t.AllSorted ↔ SortedNames (t.children.map TNode.name) ∧ ∀ c ∈ t.children, c.AllSorted := by
  cases t; simp [allSorted_mk, allSortedList_iff]

theorem replaceChild_names (c' : TNode) (cs : List TNode) :
    (replaceChild c' cs).map TNode.name = cs.map TNode.name := by
  induction cs with
  | nil => rfl
  | cons x xs ih =>
    simp only [replaceChild]
    split
    · rename_i h; simp [h]
    · simp [ih]

theorem replaceChild_mem {c' : TNode} {cs : List TNode} {z : TNode} (h : z ∈ replaceChild c' cs) : z = c' ∨ z ∈ cs := by
  induction cs with
  | nil => simp [replaceChild] at h
  | cons x xs ih =>
    simp only [replaceChild] at h
    split at h
    · rcases List.mem_cons.mp h with h | h
      · exact Or.inl h
      · exact Or.inr (List.mem_cons_of_mem _ h)
    · rcases List.mem_cons.mp h with h | h
      · exact Or.inr (h ▸ List.mem_cons_self)
      · rcases ih h with h | h
        · exact Or.inl h
        · exact Or.inr (List.mem_cons_of_mem _ h)

theorem childByName_mem {cs : List TNode} {n : Name} {c : TNode} (h : childByName cs n = some c) : c ∈ cs := by
  induction cs with
  | nil => simp [childByName] at h
  | cons x xs ih =>
    simp only [childByName] at h
    split at h
    · cases h; exact List.mem_cons_self
    · exact List.mem_cons_of_mem _ (ih h)

theorem childByName_none {cs : List TNode} {n : Name} (h : childByName cs n = none) : ∀ c ∈ cs, c.name ≠ n := by
  induction cs with
  | nil => intro c hc; cases hc
  | cons x xs ih =>
    simp only [childByName] at h
    split at h
    · cases h
    · rename_i hx
      intro c hc
      rcases List.mem_cons.mp hc with rfl | hc
      · exact hx
      · exact ih h c hc

/-- replacing a child by a sorted node of the same name -/
theorem allSorted_replace {t c' : TNode} (ht : t.AllSorted) (hc : c'.AllSorted) :
    (TNode.mk t.name t.attr (replaceChild c' t.children)).AllSorted := by
  rw [TNode.allSorted_iff] at ht ⊢
  simp only [TNode.children_mk, replaceChild_names]
  refine ⟨ht.1, ?_⟩
  intro z hz
  rcases replaceChild_mem hz with rfl | hz
  · exact hc
  · exact ht.2 z hz

/-- `linkChild`: a sorted node with a new name is inserted -/
theorem allSorted_link {t c' t' : TNode} (ht : t.AllSorted) (hc : c'.AllSorted)
    (hnew : childByName t.children c'.name = none) (h : linkChild t c' = some t') : t'.AllSorted := by
  obtain ⟨tn, ta, tc⟩ := t
  simp only [linkChild] at h
  split at h
  · cases h
  · cases h
    rw [TNode.allSorted_iff] at ht ⊢
    simp only [TNode.children_mk, insertSorted] at ht hnew ⊢
    refine ⟨insertBy_sorted TNode.name c' tc ht.1 (childByName_none hnew), ?_⟩
    intro z hz
    rcases (insertBy_mem TNode.name c' tc z).mp hz with rfl | hz
    · exact hc
    · exact ht.2 z hz

theorem overwrite_allSorted {c c' : TNode} {e : Ent} (hc : c.AllSorted) (h : overwrite c e = some c') : c'.AllSorted := by
  obtain ⟨n, a, cs⟩ := c
  simp only [overwrite] at h
  split at h
  · cases h
  · cases h
    rw [allSorted_mk] at hc ⊢
    exact hc

theorem leaf_allSorted (n : Name) (a : Attr) : (TNode.mk n a []).AllSorted := by
  simp [allSorted_mk, SortedNames, AllSortedList]

theorem linkChild_name {t c t' : TNode} (h : linkChild t c = some t') : t'.name = t.name := by
  obtain ⟨tn, ta, tc⟩ := t
  simp only [linkChild] at h
  split at h
  · cases h
  · cases h; rfl

theorem mknode_name {depth : Nat} {t t' : TNode} {n : Name} {e : Ent} {x : Extra} (h : mknode depth t n e x = some t') :
    t'.name = t.name := by
  simp only [mknode] at h
  split at h
  · cases h
  · exact linkChild_name h

theorem addPathAt_name (d : Defaults) (e : Ent) (x : Extra) :
    ∀ (p : Path) (depth : Nat) (t t' : TNode), addPathAt d e x depth p t = some t' → t'.name = t.name
  | [], depth, t, t', h => by
    simp only [addPathAt] at h; exact overwrite_name h
  | [n], depth, t, t', h => by
    simp only [addPathAt] at h
    split at h
    · cases h
    · split at h
      · split at h
        · cases h
        · cases h; rfl
      · exact mknode_name h
  | n :: m :: rest, depth, t, t', h => by
    simp only [addPathAt] at h
    split at h
    · cases h
    · split at h
      · split at h
        · cases h
        · cases h; rfl
      · split at h
        · cases h
        · split at h
          · cases h
          · exact linkChild_name h

theorem addPathAt_allSorted (d : Defaults) (e : Ent) (x : Extra) :
    ∀ (p : Path) (depth : Nat) (t t' : TNode), t.AllSorted → addPathAt d e x depth p t = some t' → t'.AllSorted
  | [], depth, t, t', ht, h => by
    simp only [addPathAt] at h; exact overwrite_allSorted ht h
  | [n], depth, t, t', ht, h => by
    simp only [addPathAt] at h
    split at h
    · cases h
    · split at h
      · rename_i c hc
        split at h
        · cases h
        · rename_i c' hov
          cases h
          have hcs : c.AllSorted := ((TNode.allSorted_iff t).mp ht).2 c (childByName_mem hc)
          exact allSorted_replace ht (overwrite_allSorted hcs hov)
      · rename_i hc
        simp only [mknode] at h
        split at h
        · cases h
        · exact allSorted_link ht (leaf_allSorted _ _) hc h
  | n :: m :: rest, depth, t, t', ht, h => by
    simp only [addPathAt] at h
    split at h
    · cases h
    · split at h
      · rename_i c hc
        split at h
        · cases h
        · rename_i c' hrec
          cases h
          have hcs : c.AllSorted := ((TNode.allSorted_iff t).mp ht).2 c (childByName_mem hc)
          exact allSorted_replace ht (addPathAt_allSorted d e x (m :: rest) _ c c' hcs hrec)
      · rename_i hc
        split at h
        · cases h
        · split at h
          · cases h
          · rename_i c' hrec
            have hfresh := leaf_allSorted n { mknodeAttr (implicitEnt d) Extra.none with implicit := true }
            have hc' := addPathAt_allSorted d e x (m :: rest) _ _ c' hfresh hrec
            have hn : c'.name = n := addPathAt_name d e x _ _ _ _ hrec
            exact allSorted_link ht hc' (by rw [hn]; exact hc) h

theorem addPath_allSorted (d : Defaults) (e : Ent) (x : Extra) (p : Path) (t t' : TNode) (ht : t.AllSorted)
    (h : addPath d e x p t = some t') : t'.AllSorted :=
  addPathAt_allSorted d e x p 0 t t' ht h

theorem addGeneric_allSorted {d : Defaults} {e : Ent} {x : Extra} {t t' : TNode} (ht : t.AllSorted)
    (h : addGeneric d e x t = some t') : t'.AllSorted := by
  simp only [addGeneric] at h
  split at h
  · cases h
  · split at h
    · cases h
    · split at h
      · cases h
      · exact addPath_allSorted d e x _ t t' ht h

theorem mkdirImplicitAt_allSorted (d : Defaults) :
    ∀ (p : Path) (depth : Nat) (t t' : TNode), t.AllSorted → mkdirImplicitAt d depth p t = some t' →
      t'.AllSorted ∧ t'.name = t.name
  | [], depth, t, t', ht, h => by
    simp only [mkdirImplicitAt] at h; cases h; exact ⟨ht, rfl⟩
  | n :: rest, depth, t, t', ht, h => by
    simp only [mkdirImplicitAt] at h
    split at h
    · cases h
    · split at h
      · rename_i c hc
        split at h
        · cases h
        · rename_i c' hrec
          cases h
          have hcs : c.AllSorted := ((TNode.allSorted_iff t).mp ht).2 c (childByName_mem hc)
          exact ⟨allSorted_replace ht (mkdirImplicitAt_allSorted d rest _ c c' hcs hrec).1, rfl⟩
      · rename_i hc
        split at h
        · cases h
        · split at h
          · cases h
          · rename_i c' hrec
            have hfresh := leaf_allSorted n { mknodeAttr (implicitEnt d) Extra.none with implicit := true }
            have hc' := mkdirImplicitAt_allSorted d rest _ _ c' hfresh hrec
            have hn : c'.name = n := hc'.2
            exact ⟨allSorted_link ht hc'.1 (by rw [hn]; exact hc) h, linkChild_name h⟩

theorem mkdirImplicit_allSorted (d : Defaults) (p : Path) (t t' : TNode) (ht : t.AllSorted)
    (h : mkdirImplicit d p t = some t') : t'.AllSorted ∧ t'.name = t.name :=
  mkdirImplicitAt_allSorted d p 0 t t' ht h

theorem scanStep_allSorted {d : Defaults} {cfg : Cfg} {e : Ent} {hl : Option Path} {tg : List UInt8} {t t' : TNode}
    {links links' : List Path} {ig : Bool} (ht : t.AllSorted) (h : scanStep d cfg e hl tg t links = some (t', links', ig)) :
    t'.AllSorted := by
  simp only [scanStep] at h
  split at h
  · cases h; exact ht
  · split at h
    · cases h
    · rename_i t1 hadd
      cases h
      exact addGeneric_allSorted ht hadd

mutual
theorem walkNode_allSorted (d : Defaults) (cfg : Cfg) (fnm : Fnm) :
    ∀ (h : HNode) (rel : Path) (dirDev : Nat) (st st' : St), st.tree.AllSorted →
      walkNode d cfg fnm rel dirDev h st = some st' → st'.tree.AllSorted
  | .mk name s target children, rel, dirDev, st, st', ht, h => by
    simp only [walkNode] at h
    split at h
    · cases h; exact ht
    · split at h
      · cases h
      · split at h
        · cases h
        · rename_i tree' links' ignored hr
          have ht' : tree'.AllSorted := by
            split at hr
            · cases hr; exact ht
            · exact scanStep_allSorted ht hr
          split at h
          · exact walkList_allSorted d cfg fnm children _ _ _ st' ht' h
          · cases h; exact ht'
theorem walkList_allSorted (d : Defaults) (cfg : Cfg) (fnm : Fnm) :
    ∀ (l : List HNode) (rel : Path) (dirDev : Nat) (st st' : St), st.tree.AllSorted →
      walkList d cfg fnm rel dirDev l st = some st' → st'.tree.AllSorted
  | [], _, _, st, st', ht, h => by
    simp only [walkList] at h; cases h; exact ht
  | x :: xs, rel, dirDev, st, st', ht, h => by
    simp only [walkList] at h
    split at h
    · cases h
    · rename_i st1 h1
      exact walkList_allSorted d cfg fnm xs rel dirDev st1 st' (walkNode_allSorted d cfg fnm x rel dirDev st st1 ht h1) h
end

theorem scanInto_allSorted {sorted : Bool} {d : Defaults} {cfg : Cfg} {fnm : Fnm} {dev : Nat} {e : List HNode}
    {t t' : TNode} {l l' : List Path} (ht : t.AllSorted) (h : scanInto sorted d cfg fnm dev e t l = some (t', l')) :
    t'.AllSorted := by
  simp only [scanInto] at h
  split at h
  · cases h
  · rename_i st hst
    cases h
    exact walkList_allSorted d cfg fnm _ _ _ _ st ht hst

/-! post-processing only touches attributes -/

theorem modifyAt_allSorted {f : TNode → TNode} (hf : ∀ x, x.AllSorted → (f x).AllSorted) (hn : NamePres f) :
    ∀ (p : Path) (t : TNode), t.AllSorted → (modifyAt f p t).AllSorted
  | [], t, ht => hf t ht
  | n :: rest, t, ht => by
    rw [modifyAt_cons]
    split
    · rename_i c hc
      have hcs : c.AllSorted := ((TNode.allSorted_iff t).mp ht).2 c (childByName_mem hc)
      exact allSorted_replace ht (modifyAt_allSorted hf hn rest c hcs)
    · exact ht

theorem bump_allSorted (x : TNode) (h : x.AllSorted) : (bumpLinkCount x).AllSorted := by
  cases x; simpa [bumpLinkCount, allSorted_mk] using h

theorem setResolved_allSorted (tp : Path) (x : TNode) (h : x.AllSorted) : (setResolved tp x).AllSorted := by
  obtain ⟨n, a, cs⟩ := x
  simp only [setResolved]
  split
  · simpa [allSorted_mk] using h
  · exact h

theorem resolveHardLinks_allSorted (fuel : Nat) :
    ∀ (l : List Path) (t t' : TNode), t.AllSorted → resolveHardLinks fuel l t = some t' → t'.AllSorted
  | [], t, t', ht, h => by simp only [resolveHardLinks] at h; cases h; exact ht
  | p :: rest, t, t', ht, h => by
    simp only [resolveHardLinks] at h
    split at h
    · cases h
    · rename_i t1 h1
      refine resolveHardLinks_allSorted fuel rest t1 t' ?_ h
      simp only [resolveLink] at h1
      split at h1
      · cases h1
      · split at h1
        · cases h1
        · split at h1
          · cases h1
          · split at h1
            · cases h1
            · cases h1
              exact modifyAt_allSorted bump_allSorted namePres_bump _ _
                (modifyAt_allSorted (setResolved_allSorted _) (namePres_setResolved _) _ _ ht)

theorem initRoot_allSorted (d : Defaults) : (initRoot d).AllSorted := leaf_allSorted _ _

end Sqfs.FsTree
