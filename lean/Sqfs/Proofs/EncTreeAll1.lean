/-
C01 — the whole tree, part 1: bookkeeping of `sqfs_serialize_fstree`'s loop (references handed out, growth of the
streams) and the per-node hypotheses (`NodeInOk`) from the hypotheses on the input.
-/
import Sqfs.Proofs.EncTreeStep
import Sqfs.Proofs.EncDirIndex
import Sqfs.Spec.EncTreeSpec
import Mathlib.Tactic.IntervalCases
namespace Sqfs.Enc
open Sqfs.Consts
open Sqfs.FsTree (TNode Path lookup Result indexOf isType)
open Sqfs.DirWriter (DEnt Run dirEnd encodeRun dirSizeOf runBytes)

/-! ### references handed out -/

theorem lookupRef_cons_self (refs : List (Path × Nat)) (p : Path) (r : Nat) : lookupRef ((p, r) :: refs) p = r := by
  simp [lookupRef, List.find?]

theorem lookupRef_cons_ne (refs : List (Path × Nat)) (p q : Path) (r : Nat) (h : q ≠ p) :
    lookupRef ((q, r) :: refs) p = lookupRef refs p := by
  have : (q == p) = false := by simpa using h
  simp [lookupRef, List.find?, this]

theorem lookupRef_lt (refs : List (Path × Nat)) (p : Path) (b : Nat) (hb : 0 < b) (h : ∀ e ∈ refs, e.2 < b) :
    lookupRef refs p < b := by
  unfold lookupRef
  split
  · next e he => exact h e (List.mem_of_find?_eq_some he)
  · exact hb

theorem indexOf_le (p : Path) : ∀ l : List Path, indexOf p l ≤ l.length := by
  intro l
  induction l with
  | nil => simp [indexOf]
  | cons q r ih => simp only [indexOf]; split <;> simp <;> omega

theorem rawRef_lt (p : Nat) (h : p / metaBlockSize * rawCost < 2 ^ 32) : rawRef p < 2 ^ 48 := by
  rw [rawRef_eq]
  have h1 : p / 8192 * 8194 < 2 ^ 32 := h
  have h2 : p % 8192 < 8192 := Nat.mod_lt p (by decide)
  clear h
  obtain ⟨A, hA⟩ : ∃ A, A = p / 8192 * 8194 := ⟨_, rfl⟩
  obtain ⟨r, hr⟩ : ∃ r, r = p % 8192 := ⟨_, rfl⟩
  rw [← hA] at h1 ⊢
  rw [← hr] at h2 ⊢
  clear hA hr
  omega

theorem blk_mono (a b : Nat) (h : a ≤ b) : a / metaBlockSize * rawCost ≤ b / metaBlockSize * rawCost :=
  Nat.mul_le_mul_right _ (Nat.div_le_div_right h)

/-! ### the streams only grow -/

theorem serializeStep_grows (st st' : TreeSt) (n : NodeIn) (i0 : Inode) (dirs : Bytes) (h : serializeStep st n i0 dirs = .ok st') :
    (∃ a, st'.inodes = st.inodes ++ a) ∧ st'.dirs = dirs := by
  unfold serializeStep at h
  simp only at h
  split at h
  · cases h
  · split at h
    · cases h
    · cases h; exact ⟨⟨_, rfl⟩, rfl⟩

theorem serializeNode_grows (st st' : TreeSt) (n : NodeIn) (h : serializeNode st n = .ok st') :
    (∃ a, st'.inodes = st.inodes ++ a) ∧ (∃ b, st'.dirs = st.dirs ++ b)
    ∧ (∀ ents des, n.kind = .dir ents → addAllEntries ents = .ok des →
        st'.dirs = st.dirs ++ encListing rawCost (st.dirs.length / metaBlockSize * rawCost) (st.dirs.length % metaBlockSize) des) := by
  unfold serializeNode at h
  split at h
  · next ents hk =>
    split at h
    · cases h
    · next des hae =>
      obtain ⟨a, b⟩ := serializeStep_grows _ _ _ _ _ h
      refine ⟨a, ⟨_, b⟩, ?_⟩
      intro ents' des' he hd
      rw [hk] at he; injection he with he; subst he
      rw [hae] at hd; cases hd
      exact b
  · next inode hk =>
    obtain ⟨a, b⟩ := serializeStep_grows _ _ _ _ _ h
    exact ⟨a, ⟨[], by simp [b]⟩, by intro ents des he; rw [hk] at he; cases he⟩
  · next devno target hk =>
    split at h
    · cases h
    · obtain ⟨a, b⟩ := serializeStep_grows _ _ _ _ _ h
      exact ⟨a, ⟨[], by simp [b]⟩, by intro ents des he; rw [hk] at he; cases he⟩

theorem serializeGo_grows (root : TNode) (inodes : List Path) (x : TreeExtra) :
    ∀ (todo : List Path) (st : TreeSt) (refs : List (Path × Nat)) (stF : TreeSt) (refsF : List (Path × Nat)),
      serializeGo root inodes x todo st refs = .ok (stF, refsF) →
      st.inodes.length ≤ stF.inodes.length ∧ st.dirs.length ≤ stF.dirs.length := by
  intro todo
  induction todo with
  | nil => intro st refs stF refsF h; simp only [serializeGo, Except.ok.injEq, Prod.mk.injEq] at h; rw [h.1]; exact ⟨Nat.le_refl _, Nat.le_refl _⟩
  | cons p rest ih =>
    intro st refs stF refsF h
    simp only [serializeGo] at h
    split at h
    · cases h
    · split at h
      · cases h
      · next st' hs =>
        obtain ⟨⟨a, ha⟩, ⟨b, hb⟩, _⟩ := serializeNode_grows _ _ _ hs
        obtain ⟨i1, i2⟩ := ih _ _ _ _ h
        rw [ha] at i1; rw [hb] at i2
        simp only [List.length_append] at i1 i2
        exact ⟨by omega, by omega⟩

theorem encListing_length (c blk off : Nat) (des : List DEnt) : (encListing c blk off des).length = listingSize c blk off des := by
  unfold encListing listingSize dirSizeOf
  generalize dirEnd c blk off des = runs
  induction runs with
  | nil => rfl
  | cons r rs ih => simp only [List.map_cons, List.flatten_cons, List.length_append, List.sum_cons, ih, encodeRun_length]

/-! ### the format bits of a mode -/

/-- `mode & S_IFMT` of a 16-bit mode, arithmetically -/
theorem fmt16 (m : Nat) (h : m < 65536) : m &&& sIFMT = m / 4096 * 4096 := by
  show m &&& 61440 = m / 4096 * 4096
  have e : m / 4096 * 4096 = (m >>> 12) <<< 12 := by rw [Nat.shiftRight_eq_div_pow, Nat.shiftLeft_eq]
  rw [e]
  apply Nat.eq_of_testBit_eq
  intro i
  rw [Nat.testBit_and, Nat.testBit_shiftLeft, Nat.testBit_shiftRight]
  by_cases h16 : 16 ≤ i
  · have h1 : m.testBit i = false :=
      Nat.testBit_lt_two_pow (Nat.lt_of_lt_of_le h (Nat.pow_le_pow_right (by decide : 2 > 0) h16))
    have h2 : m.testBit (12 + (i - 12)) = false := by
      have : 12 + (i - 12) = i := by omega
      rw [this]; exact h1
    simp [h1, h2]
  · have hi : i < 16 := by omega
    interval_cases i <;> simp <;> intro _ <;> decide

theorem isDir_mode (n : TNode) (hf : n.attr.mode &&& sIFMT = n.attr.mode / 4096 * 4096) :
    n.isDir = true ↔ n.attr.mode / 4096 * 4096 = sIFDIR := by
  simp only [TNode.isDir, Sqfs.FsTree.isDirMode, isType, beq_iff_eq, hf]

theorem treeNodeToInode_typeBits (mode lc devno : Nat) (target : Bytes) (i0 : Inode)
    (h : treeNodeToInode mode lc devno target = some i0) : i0.typeBits = mode &&& sIFMT := by
  unfold treeNodeToInode at h
  simp only at h
  split at h
  · next hh => cases h; rw [hh]; rfl
  · split at h
    · next hh => cases h; rw [hh]; rfl
    · split at h
      · next hh => cases h; rw [hh]; rfl
      · split at h
        · next hh => cases h; rw [hh]; rfl
        · split at h
          · next hh => cases h; rw [hh]; rfl
          · cases h

/-! ### `NodeInOk` for the nodes of the tree -/

/-- what the loop knows about the references handed out so far when it reaches a node -/
structure RefsOk (inodes : List Path) (refs : List (Path × Nat)) : Prop where
  lt : ∀ e ∈ refs, e.2 < 2 ^ 48

theorem nodeInOk_of (bs : Nat) (root : TNode) (inodes : List Path) (x : TreeExtra) (refs : List (Path × Nat))
    (p : Path) (n : TNode) (st st' : TreeSt) (ha : AttrOk bs x p n) (hlen : inodes.length + 1 < 2 ^ 32)
    (hids : IdsOk st.ids) (hrefs : ∀ e ∈ refs, e.2 < 2 ^ 48)
    (hs : serializeNode st (nodeIn root inodes x refs p n) = .ok st') (hd : st'.dirs.length + 3 < 2 ^ 32) :
    NodeInOk bs st (nodeIn root inodes x refs p n) := by
  have hidx : ∀ q : Path, indexOf q inodes + 1 < 2 ^ 32 := fun q => by have := indexOf_le q inodes; omega
  refine ⟨ha.mode, ha.mtime, hidx p, ha.lc, ha.xattr, hids, ?_⟩
  by_cases hdir : n.isDir = true
  · have hk : (nodeIn root inodes x refs p n).kind = .dir (n.children.map (fun c =>
        (c.name, indexOf (entryTarget p c) inodes + 1, lookupRef refs (entryTarget p c),
          match lookup root (entryTarget p c) with | some t => t.attr.mode | none => 0))) := by
      simp only [nodeIn, hdir, if_true]
      rfl
    rw [hk]
    simp only
    refine ⟨(isDir_mode n (fmt16 _ ha.mode)).mp hdir, ?_, ?_, ?_⟩
    · simp only [nodeIn]; split
      · decide
      · exact hidx _
    · intro e he
      simp only [List.mem_map] at he
      obtain ⟨c, _, rfl⟩ := he
      exact ⟨hidx _, lookupRef_lt refs _ _ (by decide) hrefs⟩
    · intro des hdes
      have := (serializeNode_grows _ _ _ hs).2.2 _ des hk hdes
      rw [this, List.length_append, encListing_length] at hd
      omega
  · have hdir' : n.isDir = false := by simpa using hdir
    by_cases hreg : isType n.attr.mode sIFREG = true
    · have hk : (nodeIn root inodes x refs p n).kind = .reg (x.fileInode p) := by
        simp only [nodeIn, hdir', hreg, if_true, Bool.false_eq_true, if_false]
      rw [hk]
      simp only
      obtain ⟨r1, r2⟩ := ha.reg hdir' hreg
      refine ⟨?_, r1, r2⟩
      have : (n.attr.mode &&& sIFMT) = sIFREG := by simpa [isType] using hreg
      show n.attr.mode / 4096 * 4096 = sIFREG
      rw [← fmt16 _ ha.mode, this]
    · have hreg' : isType n.attr.mode sIFREG = false := by simpa using hreg
      have hk : (nodeIn root inodes x refs p n).kind
          = .other n.attr.rdev (match n.attr.extra with | .str s => s | _ => []) := by
        simp only [nodeIn, hdir', hreg', Bool.false_eq_true, if_false]
        rfl
      rw [hk]
      simp only
      obtain ⟨o1, o2⟩ := ha.other hdir' hreg'
      refine ⟨o1, ?_, ?_⟩
      · revert o2; cases n.attr.extra <;> simp
      · intro i0 hi0
        rw [treeNodeToInode_typeBits _ _ _ _ _ hi0]
        exact (fmt16 _ ha.mode).symm

end Sqfs.Enc
