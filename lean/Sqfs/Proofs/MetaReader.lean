/-
Helper lemmas for C10 (metadata reader): buffer arithmetic, the shape of `loadBlock`, preservation of
`Coherent`/`Inv`, and the congruence `Sim`.
-/
import Sqfs.Spec.MetaReader
namespace Sqfs.MetaReader
open Sqfs.Consts

theorem readAt_length {f : File} {off n : Nat} {bs : Bytes} (h : f.readAt off n = .ok bs) : bs.length = n := by
  unfold File.readAt at h
  split at h
  · cases h
  · split at h
    · cases h
    · cases h; simp

theorem overwrite_length {buf new : Bytes} (h : new.length ≤ buf.length) :
    (overwrite buf new).length = buf.length := by
  simp [overwrite]; omega

theorem overwrite_length_eq {b₁ b₂ new : Bytes} (h : b₁.length = b₂.length) :
    (overwrite b₁ new).length = (overwrite b₂ new).length := by
  simp [overwrite, h]

theorem overwrite_take (buf new : Bytes) : (overwrite buf new).take new.length = new := by
  simp [overwrite]

theorem loadBlock_done {f : File} {unc : Codec} (hc : CodecOK unc) {limit b : Nat} {raw blk : Bytes} {size : Nat}
    (h : loadBlock f unc limit b = .done raw blk size) :
    raw.length = size ∧ size ≤ metaBlockSize ∧ blk.length ≤ metaBlockSize := by
  unfold loadBlock at h
  split at h
  · cases h
  · simp only at h
    split at h
    · cases h
    · split at h
      · cases h
      · split at h
        · cases h
        · rename_i hsz _ _ raw' hr
          have hl := readAt_length hr
          split at h
          · split at h
            · cases h
            · rename_i out ho
              cases h
              exact ⟨hl, by omega, hc.1 _ _ _ ho⟩
          · cases h
            exact ⟨hl, by omega, by omega⟩

theorem loadBlock_uncErr {f : File} {unc : Codec} {limit b : Nat} {raw : Bytes} {e : Status}
    (h : loadBlock f unc limit b = .uncErr e raw) : raw.length ≤ metaBlockSize := by
  unfold loadBlock at h
  split at h
  · cases h
  · simp only at h
    split at h
    · cases h
    · split at h
      · cases h
      · split at h
        · cases h
        · rename_i hsz _ _ raw' hr
          have hl := readAt_length hr
          split at h
          · split at h
            · cases h; omega
            · cases h
          · cases h


theorem fresh_coherent (f : File) (unc : Codec) (s l : Nat) (hl : l ≤ NONE) : Coherent f unc (fresh s l) := by
  refine ⟨⟨?_, ?_, ?_, hl⟩, ?_, ?_⟩ <;> simp [fresh]

/-- `Coherent` is preserved by `seek` — on success and on **every** failure path (repaired code). -/
theorem seek_coherent {f : File} {unc : Codec} (hc : CodecOK unc) {m : MR} (hm : Coherent f unc m) (b o : Nat) :
    Coherent f unc (seek true f unc m b o).2 := by
  obtain ⟨⟨h1, h2, h3, h4⟩, hn, hs⟩ := hm
  unfold seek
  split
  · exact ⟨⟨h1, h2, h3, h4⟩, hn, hs⟩
  · rename_i hw
    split
    · split
      · exact ⟨⟨h1, h2, h3, h4⟩, hn, hs⟩
      · exact ⟨⟨by simp only; omega, h2, h3, h4⟩, hn, hs⟩
    · simp only [if_true]
      cases hl : loadBlock f unc m.limit b with
      | early e =>
        exact ⟨⟨by simp, by simp, h3, h4⟩, by simp, by simp⟩
      | uncErr e raw =>
        have hr := loadBlock_uncErr hl
        refine ⟨⟨by simp, by simp, ?_, h4⟩, by simp, by simp⟩
        simp only; rw [overwrite_length (by omega)]; exact h3
      | done raw blk size =>
        obtain ⟨hr, hsz, hb⟩ := loadBlock_done hc hl
        have hlen : (overwrite (overwrite m.data raw) blk).length = metaBlockSize := by
          rw [overwrite_length, overwrite_length] <;> try omega
          rw [overwrite_length] <;> omega
        simp only
        split
        · exact ⟨⟨by simp, by simp, hlen, h4⟩, by simp, by simp⟩
        · refine ⟨⟨by simp only; omega, by simp only; omega, hlen, h4⟩, ?_, ?_⟩
          · simp only; intro hb'; omega
          · intro _
            exact ⟨raw, blk, size, hl, overwrite_take _ _, rfl, rfl⟩


theorem metaBlockSize_lt : metaBlockSize < U64 := by decide

theorem readAt_err {f : File} {off n : Nat} {e : Status} (h : f.readAt off n = .error e) : e ≠ 0 := by
  unfold File.readAt at h
  split at h
  · cases h; decide
  · split at h
    · cases h; decide
    · cases h

theorem loadBlock_early {f : File} {unc : Codec} {limit b : Nat} {e : Status}
    (h : loadBlock f unc limit b = .early e) : e ≠ 0 := by
  unfold loadBlock at h
  split at h
  · rename_i e' he; cases h; exact readAt_err he
  · simp only at h
    split at h
    · cases h; decide
    · split at h
      · cases h; decide
      · split at h
        · rename_i e' he; cases h; exact readAt_err he
        · split at h
          · split at h <;> cases h
          · cases h

theorem loadBlock_uncErr_ne {f : File} {unc : Codec} (hc : CodecOK unc) {limit b : Nat} {raw : Bytes} {e : Status}
    (h : loadBlock f unc limit b = .uncErr e raw) : e ≠ 0 := by
  unfold loadBlock at h
  split at h
  · cases h
  · simp only at h
    split at h
    · cases h
    · split at h
      · cases h
      · split at h
        · cases h
        · split at h
          · split at h
            · rename_i e' he; cases h; exact Nat.ne_of_gt (hc.2 _ _ _ he).1
            · cases h
          · cases h

/-- a successful seek leaves the cursor where it was asked to be, inside the block -/
theorem seek_ok {fix : Bool} {f : File} {unc : Codec} (hc : CodecOK unc) {m : MR} {b o : Nat}
    (h : (seek fix f unc m b o).1 = 0) :
    (seek fix f unc m b o).2.offset = o ∧ o < (seek fix f unc m b o).2.dataUsed := by
  unfold seek at h ⊢
  split
  · rename_i hw; simp only [hw, if_true] at h; exact absurd h (by decide)
  · rename_i hw
    simp only [hw, if_false] at h
    split
    · rename_i hb
      simp only [hb, if_true] at h
      split
      · rename_i ho; simp only [ho, if_true] at h; exact absurd h (by decide)
      · exact ⟨rfl, by simp only; omega⟩
    · rename_i hb
      simp only [hb, if_false] at h
      cases hl : loadBlock f unc m.limit b with
      | early e => simp only [hl] at h; exact absurd h (loadBlock_early hl)
      | uncErr e raw => simp only [hl] at h; exact absurd h (loadBlock_uncErr_ne hc hl)
      | done raw blk size =>
        simp only [hl] at h ⊢
        split
        · rename_i ho; simp only [ho, if_true] at h; exact absurd h (by decide)
        · exact ⟨rfl, by simp only; omega⟩

theorem readAt_err_lt {f : File} {off n : Nat} {e : Status} (h : f.readAt off n = .error e) : e < crashSt := by
  unfold File.readAt at h
  split at h
  · cases h; decide
  · split at h
    · cases h; decide
    · cases h

theorem loadBlock_early_lt {f : File} {unc : Codec} {limit b : Nat} {e : Status}
    (h : loadBlock f unc limit b = .early e) : e < crashSt := by
  unfold loadBlock at h
  split at h
  · rename_i e' he; cases h; exact readAt_err_lt he
  · simp only at h
    split at h
    · cases h; decide
    · split at h
      · cases h; decide
      · split at h
        · rename_i e' he; cases h; exact readAt_err_lt he
        · split at h
          · split at h <;> cases h
          · cases h

theorem loadBlock_uncErr_lt {f : File} {unc : Codec} (hc : CodecOK unc) {limit b : Nat} {raw : Bytes} {e : Status}
    (h : loadBlock f unc limit b = .uncErr e raw) : e < crashSt := by
  unfold loadBlock at h
  split at h
  · cases h
  · simp only at h
    split at h
    · cases h
    · split at h
      · cases h
      · split at h
        · cases h
        · split at h
          · split at h
            · rename_i e' he; cases h; exact (hc.2 _ _ _ he).2
            · cases h
          · cases h

/-- the statuses `seek` returns are codes of the file, the codec or `SQFS_ERROR_*` — never the model-only ones -/
theorem errOOB_lt : errOutOfBounds < crashSt := by decide
theorem zero_lt_crash : (0 : Nat) < crashSt := by decide

theorem seek_status_lt {fix : Bool} {f : File} {unc : Codec} (hc : CodecOK unc) (m : MR) (b o : Nat) :
    (seek fix f unc m b o).1 < crashSt := by
  unfold seek
  split
  · exact errOOB_lt
  · split
    · split
      · exact errOOB_lt
      · exact zero_lt_crash
    · cases hl : loadBlock f unc m.limit b with
      | early e => exact loadBlock_early_lt hl
      | uncErr e raw => exact loadBlock_uncErr_lt hc hl
      | done raw blk size =>
        simp only
        split
        · exact errOOB_lt
        · exact zero_lt_crash

theorem seek_start_limit (fix : Bool) (f : File) (unc : Codec) (m : MR) (b o : Nat) :
    (seek fix f unc m b o).2.start = m.start ∧ (seek fix f unc m b o).2.limit = m.limit := by
  unfold seek
  split
  · exact ⟨rfl, rfl⟩
  · split
    · split <;> exact ⟨rfl, rfl⟩
    · cases hl : loadBlock f unc m.limit b with
      | early e => cases fix <;> exact ⟨rfl, rfl⟩
      | uncErr e raw => cases fix <;> exact ⟨rfl, rfl⟩
      | done raw blk size =>
        simp only
        split <;> cases fix <;> exact ⟨rfl, rfl⟩


/-- the position guard of `sqfs_meta_reader_read` (442364d) is dead when the cursor is inside the loaded data -/
theorem readStep_of_le (fix : Bool) (f : File) (unc : Codec) (m : MR) (size : Nat) (h : m.offset ≤ m.dataUsed) :
    readStep fix f unc m size = readStepBody fix f unc m size := by
  unfold readStep
  have : ¬ (fix = true ∧ m.offset > m.dataUsed) := by omega
  simp only [this, if_false]

theorem refill_coherent {f : File} {unc : Codec} (hc : CodecOK unc) {m : MR} (hm : Coherent f unc m) :
    Coherent f unc (refill true f unc m).2.1 := by
  unfold refill
  simp only
  split
  · exact seek_coherent hc hm _ _
  · exact hm

/-- after the top of a loop iteration succeeded there is at least one byte to copy and the copy stays inside
the valid part of the block: `data_used - offset` did not wrap (closes D3 for the repaired code) -/
theorem refill_ok {f : File} {unc : Codec} (hc : CodecOK unc) {m : MR} (hm : Coherent f unc m)
    (h : (refill true f unc m).1 = 0) :
    (refill true f unc m).2.1.offset + (refill true f unc m).2.2 ≤ (refill true f unc m).2.1.dataUsed ∧
    0 < (refill true f unc m).2.2 := by
  unfold refill at h ⊢
  simp only at h ⊢
  split
  · rename_i hd
    simp only [hd, if_true] at h
    obtain ⟨h1, h2⟩ := seek_ok hc h
    constructor <;> simp only <;> omega
  · rename_i hd
    obtain ⟨⟨h1, h2, h3, _⟩, _⟩ := hm
    have := metaBlockSize_lt
    simp only [subWrap, U64] at *
    split at hd <;> split <;> omega


theorem readStep_done {f : File} {unc : Codec} (hc : CodecOK unc) {m m' : MR} {size : Nat} {st : Status}
    (hm : Coherent f unc m) (h : readStep true f unc m size = .done st m') :
    Coherent f unc m' ∧ st < crashSt := by
  have hr := refill_coherent hc hm
  have hok := refill_ok hc hm
  have hst : (refill true f unc m).1 < crashSt := by
    unfold refill
    simp only
    split
    · exact seek_status_lt hc _ _ _
    · exact zero_lt_crash
  rw [readStep_of_le _ _ _ _ _ hm.1.1] at h
  unfold readStepBody at h
  generalize refill true f unc m = r at *
  obtain ⟨st1, m1, d1⟩ := r
  simp only at h hr hok hst
  by_cases h0 : st1 = 0
  · subst h0
    simp only [ne_eq, not_true_eq_false, if_false] at h
    have hok := hok rfl
    have hd : (if d1 > size then size else d1) ≤ d1 := by split <;> omega
    generalize (if d1 > size then size else d1) = diff at h hd
    by_cases hcr : m1.offset + diff > m1.data.length
    · obtain ⟨⟨h1, h2, h3, h4⟩, _⟩ := hr
      omega
    · simp only [hcr, if_false] at h
      cases h
  · simp only [ne_eq, h0, not_false_eq_true, if_true] at h
    cases h
    exact ⟨hr, hst⟩

theorem readStep_more {f : File} {unc : Codec} (hc : CodecOK unc) {m m' : MR} {size size' : Nat} {chunk : Bytes}
    (hm : Coherent f unc m) (hsz : size ≠ 0) (h : readStep true f unc m size = .more m' size' chunk) :
    Coherent f unc m' ∧ size' < size := by
  have hr := refill_coherent hc hm
  have hok := refill_ok hc hm
  rw [readStep_of_le _ _ _ _ _ hm.1.1] at h
  unfold readStepBody at h
  generalize refill true f unc m = r at *
  obtain ⟨st1, m1, d1⟩ := r
  simp only at h hr hok
  by_cases h0 : st1 = 0
  · subst h0
    simp only [ne_eq, not_true_eq_false, if_false] at h
    have hok := hok rfl
    have hd : (if d1 > size then size else d1) ≤ d1 ∧ 0 < (if d1 > size then size else d1) := by
      split <;> omega
    generalize (if d1 > size then size else d1) = diff at h hd
    by_cases hcr : m1.offset + diff > m1.data.length
    · simp only [hcr, if_true] at h
      cases h
    · simp only [hcr, if_false] at h
      cases h
      obtain ⟨⟨h1, h2, h3, h4⟩, hn, hs⟩ := hr
      exact ⟨⟨⟨by simp only; omega, h2, h3, h4⟩, hn, hs⟩, by omega⟩
  · simp only [ne_eq, h0, not_false_eq_true, if_true] at h
    cases h

theorem readLoop_coherent {f : File} {unc : Codec} (hc : CodecOK unc) :
    ∀ (k : Nat) (m : MR) (size : Nat) (acc : Bytes), Coherent f unc m →
      Coherent f unc (readLoop true f unc k m size acc).2.2 := by
  intro k
  induction k with
  | zero => intro m size acc hm; unfold readLoop; split <;> exact hm
  | succ k ih =>
    intro m size acc hm
    unfold readLoop
    split
    · exact hm
    · rename_i hsz
      split
      · rename_i st m' h; exact (readStep_done hc hm h).1
      · rename_i m' size' chunk h; exact ih _ _ _ (readStep_more hc hm hsz h).1

theorem read_coherent {f : File} {unc : Codec} (hc : CodecOK unc) {m : MR} (hm : Coherent f unc m) (n : Nat) :
    Coherent f unc (read true f unc m n).2.2 := readLoop_coherent hc _ _ _ _ hm

theorem zero_ne_crash : (0 : Nat) ≠ crashSt := by decide
theorem zero_ne_fuel : (0 : Nat) ≠ fuelSt := by decide

/-- the fuel `size` given by `read` is never exhausted and the copy never leaves `m->data` -/
theorem readLoop_no_crash {f : File} {unc : Codec} (hc : CodecOK unc) :
    ∀ (k : Nat) (m : MR) (size : Nat) (acc : Bytes), Coherent f unc m → size ≤ k →
      (readLoop true f unc k m size acc).1 < crashSt := by
  intro k
  induction k with
  | zero =>
    intro m size acc hm hk
    unfold readLoop
    have : size = 0 := by omega
    simp only [this, if_true]
    exact zero_lt_crash
  | succ k ih =>
    intro m size acc hm hk
    unfold readLoop
    split
    · exact zero_lt_crash
    · rename_i hsz
      split
      · rename_i st m' h
        exact (readStep_done hc hm h).2
      · rename_i m' size' chunk h
        have := readStep_more hc hm hsz h
        exact ih _ _ _ this.1 (by have := this.2; omega)


/-! ### `Sim` is a congruence for the API -/

theorem Sim.refl (m : MR) : Sim m m := ⟨rfl, rfl, rfl, rfl, rfl, rfl, rfl, rfl⟩

theorem sim_seek {f : File} {unc : Codec} {m₁ m₂ : MR} (h : Sim m₁ m₂) (b o : Nat) :
    (seek true f unc m₁ b o).1 = (seek true f unc m₂ b o).1 ∧
    Sim (seek true f unc m₁ b o).2 (seek true f unc m₂ b o).2 := by
  obtain ⟨s1, l1, t1, n1, d1, o1, dat1⟩ := m₁
  obtain ⟨s2, l2, t2, n2, d2, o2, dat2⟩ := m₂
  obtain ⟨h1, h2, h3, h4, h5, h6, h7, h8⟩ := h
  simp only at h1 h2 h3 h4 h5 h6 h7 h8
  subst h1 h2 h3 h4 h5 h6
  unfold seek
  simp only [if_true]
  by_cases hw : b < s1 ∨ b ≥ l1
  · simp only [hw, if_true]
    exact ⟨trivial, rfl, rfl, rfl, rfl, rfl, rfl, h7, h8⟩
  · simp only [hw, if_false]
    by_cases hb : b = t1
    · simp only [hb, if_true]
      by_cases ho : o ≥ d1
      · simp only [ho, if_true]
        exact ⟨trivial, rfl, rfl, rfl, rfl, rfl, rfl, h7, h8⟩
      · simp only [ho, if_false]
        exact ⟨trivial, rfl, rfl, rfl, rfl, rfl, rfl, h7, h8⟩
    · simp only [hb, if_false]
      cases hl : loadBlock f unc l1 b with
      | early e =>
        exact ⟨rfl, rfl, rfl, rfl, rfl, rfl, rfl, h7, by simp⟩
      | uncErr e raw =>
        exact ⟨rfl, rfl, rfl, rfl, rfl, rfl, rfl, overwrite_length_eq h7, by simp⟩
      | done raw blk size =>
        simp only
        by_cases ho : o ≥ blk.length
        · simp only [ho, if_true]
          exact ⟨trivial, rfl, rfl, rfl, rfl, rfl, rfl, overwrite_length_eq (overwrite_length_eq h7), by simp⟩
        · simp only [ho, if_false]
          refine ⟨trivial, rfl, rfl, rfl, rfl, rfl, rfl, overwrite_length_eq (overwrite_length_eq h7), ?_⟩
          simp only [overwrite_take]

/-- from a coherent object a seek answers like a freshly created reader, and on success leaves an object
that is indistinguishable from the one the fresh reader is left with -/
theorem seek_vs_fresh {f : File} {unc : Codec} (hc : CodecOK unc) {m : MR} (hm : Coherent f unc m) (b o : Nat) :
    (seek true f unc m b o).1 = (seek true f unc (fresh m.start m.limit) b o).1 ∧
    ((seek true f unc m b o).1 = 0 →
      Sim (seek true f unc m b o).2 (seek true f unc (fresh m.start m.limit) b o).2) := by
  obtain ⟨⟨i1, i2, i3, i4⟩, hn, hs⟩ := hm
  obtain ⟨s1, l1, t1, n1, d1, o1, dat1⟩ := m
  simp only at i1 i2 i3 i4 hn hs
  unfold seek fresh
  simp only [if_true]
  by_cases hw : b < s1 ∨ b ≥ l1
  · simp only [hw, if_true]
    exact ⟨trivial, fun h => absurd h (by decide)⟩
  · simp only [hw, if_false]
    have hbN : b ≠ NONE := by omega
    simp only [hbN, if_false]
    by_cases hb : b = t1
    · subst hb
      simp only [if_true]
      obtain ⟨raw, blk, size, hl, htk, hdu, hnb⟩ := hs hbN
      simp only [hl]
      subst hdu
      by_cases ho : o ≥ blk.length
      · simp only [ho, if_true]
        exact ⟨trivial, fun h => absurd h (by decide)⟩
      · simp only [ho, if_false]
        refine ⟨trivial, fun _ => ⟨rfl, rfl, rfl, hnb, rfl, rfl, ?_, ?_⟩⟩
        · simp only
          obtain ⟨hr, hsz, hbl⟩ := loadBlock_done hc hl
          have hrep : (List.replicate metaBlockSize (0 : UInt8)).length = metaBlockSize := List.length_replicate
          rw [overwrite_length, overwrite_length, hrep, i3]
          · omega
          · rw [overwrite_length] <;> omega
        · simp only [overwrite_take]; exact htk
    · simp only [hb, if_false]
      cases hl : loadBlock f unc l1 b with
      | early e => exact ⟨rfl, fun h => absurd h (loadBlock_early hl)⟩
      | uncErr e raw =>
        exact ⟨rfl, fun h => absurd h (loadBlock_uncErr_ne hc hl)⟩
      | done raw blk size =>
        simp only
        by_cases ho : o ≥ blk.length
        · simp only [ho, if_true]
          exact ⟨trivial, fun h => absurd h (by decide)⟩
        · simp only [ho, if_false]
          refine ⟨trivial, fun _ => ⟨rfl, rfl, rfl, rfl, rfl, rfl, ?_, ?_⟩⟩
          · exact overwrite_length_eq (overwrite_length_eq (by simp [i3]))
          · simp only [overwrite_take]


theorem sim_refill {f : File} {unc : Codec} {m₁ m₂ : MR} (h : Sim m₁ m₂) :
    (refill true f unc m₁).1 = (refill true f unc m₂).1 ∧
    Sim (refill true f unc m₁).2.1 (refill true f unc m₂).2.1 ∧
    (refill true f unc m₁).2.2 = (refill true f unc m₂).2.2 := by
  have hs := h
  obtain ⟨h1, h2, h3, h4, h5, h6, h7, h8⟩ := h
  unfold refill
  simp only
  rw [h5, h6, h4]
  by_cases hd : subWrap m₂.dataUsed m₂.offset = 0
  · simp only [hd, if_true]
    have := sim_seek (f := f) (unc := unc) hs m₂.nextBlock 0
    exact ⟨this.1, this.2, this.2.2.2.2.2.1⟩
  · simp only [hd, if_false]
    exact ⟨trivial, hs, trivial⟩

theorem drop_take_of_take_eq {l₁ l₂ : Bytes} {n o d : Nat} (h : l₁.take n = l₂.take n) (hle : o + d ≤ n) :
    (l₁.drop o).take d = (l₂.drop o).take d := by
  have key : ∀ l : Bytes, (l.drop o).take d = ((l.take n).drop o).take d := by
    intro l
    rw [List.drop_take, List.take_take]
    congr 1
    omega
  rw [key l₁, key l₂, h]

/-- outcomes of one loop iteration that the caller cannot tell apart -/
def StepSim : StepR → StepR → Prop
  | .done s₁ a, .done s₂ b => s₁ = s₂ ∧ Sim a b
  | .more a n₁ c₁, .more b n₂ c₂ => Sim a b ∧ n₁ = n₂ ∧ c₁ = c₂
  | _, _ => False

theorem stepSim_of_refill {f : File} {unc : Codec} {m₁ m₂ : MR} (size : Nat)
    (g1 : m₁.offset ≤ m₁.dataUsed) (g2 : m₂.offset ≤ m₂.dataUsed)
    (e1 : (refill true f unc m₁).1 = (refill true f unc m₂).1)
    (e2 : Sim (refill true f unc m₁).2.1 (refill true f unc m₂).2.1)
    (e3 : (refill true f unc m₁).2.2 = (refill true f unc m₂).2.2)
    (hok : (refill true f unc m₁).1 = 0 →
      (refill true f unc m₁).2.1.offset + (refill true f unc m₁).2.2 ≤ (refill true f unc m₁).2.1.dataUsed) :
    StepSim (readStep true f unc m₁ size) (readStep true f unc m₂ size) := by
  rw [readStep_of_le _ _ _ _ _ g1, readStep_of_le _ _ _ _ _ g2]
  unfold readStepBody
  generalize refill true f unc m₁ = r₁ at *
  generalize refill true f unc m₂ = r₂ at *
  obtain ⟨st1, a, d1⟩ := r₁
  obtain ⟨st2, b, d2⟩ := r₂
  simp only at e1 e2 e3 hok ⊢
  subst e1 e3
  by_cases h0 : st1 = 0
  · subst h0
    simp only [ne_eq, not_true_eq_false, if_false]
    have hok := hok rfl
    have hd : (if d1 > size then size else d1) ≤ d1 := by split <;> omega
    generalize (if d1 > size then size else d1) = diff at hd ⊢
    obtain ⟨h1, h2, h3, h4, h5, h6, h7, h8⟩ := e2
    rw [← h6, ← h7]
    by_cases hcr : a.offset + diff > a.data.length
    · simp only [hcr, if_true]
      exact ⟨rfl, h1, h2, h3, h4, h5, h6, h7, h8⟩
    · simp only [hcr, if_false]
      refine ⟨⟨h1, h2, h3, h4, h5, by simp only [h6], h7, h8⟩, rfl, ?_⟩
      apply drop_take_of_take_eq (n := a.dataUsed)
      · rw [h8, h5]
      · omega
  · simp only [ne_eq, h0, not_false_eq_true, if_true]
    exact ⟨rfl, e2⟩

theorem sim_readStep {f : File} {unc : Codec} (hc : CodecOK unc) {m₁ m₂ : MR} (h : Sim m₁ m₂)
    (c₁ : Coherent f unc m₁) (c₂ : Coherent f unc m₂) (size : Nat) :
    StepSim (readStep true f unc m₁ size) (readStep true f unc m₂ size) := by
  obtain ⟨e1, e2, e3⟩ := sim_refill (f := f) (unc := unc) h
  exact stepSim_of_refill size c₁.1.1 c₂.1.1 e1 e2 e3 (fun h0 => (refill_ok hc c₁ h0).1)

theorem sim_readLoop {f : File} {unc : Codec} (hc : CodecOK unc) :
    ∀ (k : Nat) (m₁ m₂ : MR) (size : Nat) (acc : Bytes), Sim m₁ m₂ → Coherent f unc m₁ → Coherent f unc m₂ →
      (readLoop true f unc k m₁ size acc).1 = (readLoop true f unc k m₂ size acc).1 ∧
      (readLoop true f unc k m₁ size acc).2.1 = (readLoop true f unc k m₂ size acc).2.1 ∧
      Sim (readLoop true f unc k m₁ size acc).2.2 (readLoop true f unc k m₂ size acc).2.2 := by
  intro k
  induction k with
  | zero =>
    intro m₁ m₂ size acc h _ _
    unfold readLoop
    split <;> exact ⟨rfl, rfl, h⟩
  | succ k ih =>
    intro m₁ m₂ size acc h c₁ c₂
    unfold readLoop
    split
    · exact ⟨rfl, rfl, h⟩
    · rename_i hsz
      have hss := sim_readStep hc h c₁ c₂ size
      cases hs₁ : readStep true f unc m₁ size with
      | done s₁ a =>
        cases hs₂ : readStep true f unc m₂ size with
        | done s₂ b =>
          rw [hs₁, hs₂] at hss
          exact ⟨hss.1, rfl, hss.2⟩
        | more b n₂ ch₂ => rw [hs₁, hs₂] at hss; exact hss.elim
      | more a n₁ ch₁ =>
        cases hs₂ : readStep true f unc m₂ size with
        | done s₂ b => rw [hs₁, hs₂] at hss; exact hss.elim
        | more b n₂ ch₂ =>
          rw [hs₁, hs₂] at hss
          obtain ⟨hsim, rfl, rfl⟩ := hss
          exact ih _ _ _ _ hsim (readStep_more hc c₁ hsz hs₁).1 (readStep_more hc c₂ hsz hs₂).1


/-! ### `start`/`limit` never change -/

theorem refill_start_limit (fix : Bool) (f : File) (unc : Codec) (m : MR) :
    (refill fix f unc m).2.1.start = m.start ∧ (refill fix f unc m).2.1.limit = m.limit := by
  unfold refill
  simp only
  split
  · exact seek_start_limit _ _ _ _ _ _
  · exact ⟨rfl, rfl⟩

theorem readStep_start_limit (fix : Bool) (f : File) (unc : Codec) (m : MR) (size : Nat) :
    match readStep fix f unc m size with
    | .done _ m' => m'.start = m.start ∧ m'.limit = m.limit
    | .more m' _ _ => m'.start = m.start ∧ m'.limit = m.limit := by
  have hr := refill_start_limit fix f unc m
  unfold readStep
  by_cases hg : fix = true ∧ m.offset > m.dataUsed
  · simp only [hg, and_self, if_true]
  simp only [hg, if_false]
  unfold readStepBody
  generalize refill fix f unc m = r at *
  obtain ⟨st1, m1, d1⟩ := r
  simp only at hr ⊢
  by_cases h0 : st1 = 0
  · subst h0
    simp only [ne_eq, not_true_eq_false, if_false]
    generalize (if d1 > size then size else d1) = diff
    by_cases hcr : m1.offset + diff > m1.data.length
    · simp only [hcr, if_true]; exact hr
    · simp only [hcr, if_false]; exact hr
  · simp only [ne_eq, h0, not_false_eq_true, if_true]; exact hr

theorem readLoop_start_limit (fix : Bool) (f : File) (unc : Codec) :
    ∀ (k : Nat) (m : MR) (size : Nat) (acc : Bytes),
      (readLoop fix f unc k m size acc).2.2.start = m.start ∧ (readLoop fix f unc k m size acc).2.2.limit = m.limit := by
  intro k
  induction k with
  | zero => intro m size acc; unfold readLoop; split <;> exact ⟨rfl, rfl⟩
  | succ k ih =>
    intro m size acc
    unfold readLoop
    split
    · exact ⟨rfl, rfl⟩
    · have hs := readStep_start_limit fix f unc m size
      cases hst : readStep fix f unc m size with
      | done st m' => rw [hst] at hs; exact hs
      | more m' size' chunk =>
        rw [hst] at hs
        simp only at hs ⊢
        have := ih m' size' (acc ++ chunk)
        exact ⟨this.1.trans hs.1, this.2.trans hs.2⟩

/-- everything a history can reach from a fresh reader is coherent (and still has the reader's window) -/
theorem run_coherent {f : File} {unc : Codec} (hc : CodecOK unc) (h : List Op) :
    ∀ m : MR, Coherent f unc m →
      Coherent f unc (run true f unc m h) ∧ (run true f unc m h).start = m.start ∧ (run true f unc m h).limit = m.limit := by
  induction h with
  | nil => intro m hm; exact ⟨hm, rfl, rfl⟩
  | cons op rest ih =>
    intro m hm
    have hstep : Coherent f unc (step true f unc m op) ∧ (step true f unc m op).start = m.start ∧
        (step true f unc m op).limit = m.limit := by
      cases op with
      | seek b o => exact ⟨seek_coherent hc hm b o, seek_start_limit _ _ _ _ _ _⟩
      | read n => exact ⟨read_coherent hc hm n, readLoop_start_limit _ _ _ _ _ _ _⟩
      | pos => exact ⟨hm, rfl, rfl⟩
    have := ih _ hstep.1
    unfold run at this ⊢
    simp only [List.foldl_cons]
    exact ⟨this.1, this.2.1.trans hstep.2.1, this.2.2.trans hstep.2.2⟩

theorem sim_getPos {m₁ m₂ : MR} (h : Sim m₁ m₂) : getPos m₁ = getPos m₂ := by
  obtain ⟨h1, h2, h3, h4, h5, h6, h7, h8⟩ := h
  unfold getPos
  rw [h3, h4, h5, h6]

theorem sim_answerReads {f : File} {unc : Codec} (hc : CodecOK unc) (ns : List Nat) :
    ∀ m₁ m₂ : MR, Sim m₁ m₂ → Coherent f unc m₁ → Coherent f unc m₂ →
      answerReads true f unc m₁ ns = answerReads true f unc m₂ ns := by
  induction ns with
  | nil => intro m₁ m₂ h _ _; unfold answerReads; rw [sim_getPos h]
  | cons n ns ih =>
    intro m₁ m₂ h c₁ c₂
    obtain ⟨e1, e2, e3⟩ := sim_readLoop hc n m₁ m₂ n [] h c₁ c₂
    have k₁ := read_coherent hc c₁ n
    have k₂ := read_coherent hc c₂ n
    unfold answerReads
    unfold read at k₁ k₂ ⊢
    simp only
    rw [← e1, ← e2]
    by_cases hst : (readLoop true f unc n m₁ n []).1 = 0
    · simp only [hst, ne_eq, not_true_eq_false, if_false]
      rw [ih _ _ e3 k₁ k₂]
    · simp only [hst, ne_eq, not_false_eq_true, if_true]


/-! ### seeking back to a remembered position (out-of-line xattr values) -/

theorem Sim.symm {m₁ m₂ : MR} (h : Sim m₁ m₂) : Sim m₂ m₁ := by
  obtain ⟨h1, h2, h3, h4, h5, h6, h7, h8⟩ := h
  exact ⟨h1.symm, h2.symm, h3.symm, h4.symm, h5.symm, h6.symm, h7.symm, h8.symm⟩

theorem Sim.trans {m₁ m₂ m₃ : MR} (h : Sim m₁ m₂) (g : Sim m₂ m₃) : Sim m₁ m₃ := by
  obtain ⟨h1, h2, h3, h4, h5, h6, h7, h8⟩ := h
  obtain ⟨g1, g2, g3, g4, g5, g6, g7, g8⟩ := g
  exact ⟨h1.trans g1, h2.trans g2, h3.trans g3, h4.trans g4, h5.trans g5, h6.trans g6, h7.trans g7, h8.trans g8⟩

theorem seek_ok_tag {fix : Bool} {f : File} {unc : Codec} (hc : CodecOK unc) {m : MR} {b o : Nat}
    (h : (seek fix f unc m b o).1 = 0) : (seek fix f unc m b o).2.tag = b := by
  unfold seek at h ⊢
  by_cases hw : b < m.start ∨ b ≥ m.limit
  · simp only [hw, if_true] at h; exact absurd h (by decide)
  · simp only [hw, if_false] at h ⊢
    by_cases hb : b = m.tag
    · simp only [hb, if_true] at h ⊢
      by_cases ho : o ≥ m.dataUsed
      · simp only [ho, if_true] at h; exact absurd h (by decide)
      · simp only [ho, if_false]
    · simp only [hb, if_false] at h ⊢
      cases hl : loadBlock f unc m.limit b with
      | early e => simp only [hl] at h; exact absurd h (loadBlock_early hl)
      | uncErr e raw => simp only [hl] at h; exact absurd h (loadBlock_uncErr_ne hc hl)
      | done raw blk size =>
        simp only [hl] at h ⊢
        by_cases ho : o ≥ blk.length
        · simp only [ho, if_true] at h; exact absurd h (by decide)
        · simp only [ho, if_false]

/-- after a successful seek, `get_position` reports exactly the position asked for -/
theorem seek_getPos {fix : Bool} {f : File} {unc : Codec} (hc : CodecOK unc) {m : MR} {b o : Nat}
    (h : (seek fix f unc m b o).1 = 0) : getPos (seek fix f unc m b o).2 = (b, o) := by
  obtain ⟨h1, h2⟩ := seek_ok hc h
  have h3 := seek_ok_tag hc h
  unfold getPos
  rw [h1, h3]
  have : ¬ o = (seek fix f unc m b o).2.dataUsed := by omega
  simp only [this, if_false]

/-- two coherent readers over the same window answer a seek alike and end up indistinguishable -/
theorem seek_sim_of_coherent {f : File} {unc : Codec} (hc : CodecOK unc) {m₁ m₂ : MR}
    (c₁ : Coherent f unc m₁) (c₂ : Coherent f unc m₂) (hs : m₁.start = m₂.start) (hl : m₁.limit = m₂.limit) (b o : Nat) :
    (seek true f unc m₁ b o).1 = (seek true f unc m₂ b o).1 ∧
    ((seek true f unc m₁ b o).1 = 0 → Sim (seek true f unc m₁ b o).2 (seek true f unc m₂ b o).2) := by
  have v₁ := seek_vs_fresh hc c₁ b o
  have v₂ := seek_vs_fresh hc c₂ b o
  rw [hs, hl] at v₁
  refine ⟨v₁.1.trans v₂.1.symm, fun h0 => ?_⟩
  exact (v₁.2 h0).trans (v₂.2 (v₂.1.trans (v₁.1.symm.trans h0))).symm


theorem refill_at_end (fix : Bool) (f : File) (unc : Codec) {m : MR} (h : m.offset = m.dataUsed) :
    refill fix f unc m =
      ((seek fix f unc m m.nextBlock 0).1, (seek fix f unc m m.nextBlock 0).2, (seek fix f unc m m.nextBlock 0).2.dataUsed) := by
  unfold refill
  have : subWrap m.dataUsed m.offset = 0 := by unfold subWrap; rw [h]; simp
  simp only [this, if_true]

theorem refill_at_start (fix : Bool) (f : File) (unc : Codec) {m : MR} (h0 : m.offset = 0) (hd : m.dataUsed ≠ 0) :
    refill fix f unc m = (0, m, m.dataUsed) := by
  unfold refill
  have : subWrap m.dataUsed m.offset = m.dataUsed := by unfold subWrap; rw [h0]; simp
  simp only [this, hd, if_false]

/-- reading on from the end of a block is reading from the start of the next one -/
theorem read_from_block_end {f : File} {unc : Codec} (hc : CodecOK unc) {m m3 : MR}
    (cm : Coherent f unc m) (c3 : Coherent f unc m3) (hend : m.offset = m.dataUsed)
    (hs0 : (seek true f unc m m.nextBlock 0).1 = 0) (hsim : Sim (seek true f unc m m.nextBlock 0).2 m3)
    (n : Nat) (hn : n ≠ 0) :
    (read true f unc m n).1 = (read true f unc m3 n).1 ∧ (read true f unc m n).2.1 = (read true f unc m3 n).2.1 ∧
    Sim (read true f unc m n).2.2 (read true f unc m3 n).2.2 := by
  obtain ⟨ho, hdu⟩ := seek_ok hc hs0
  have h3o : m3.offset = 0 := by rw [← hsim.2.2.2.2.2.1]; exact ho
  have h3d : m3.dataUsed ≠ 0 := by rw [← hsim.2.2.2.2.1]; omega
  have hss : StepSim (readStep true f unc m n) (readStep true f unc m3 n) := by
    apply stepSim_of_refill _ cm.1.1 c3.1.1
    · rw [refill_at_end _ _ _ hend, refill_at_start _ _ _ h3o h3d]; exact hs0
    · rw [refill_at_end _ _ _ hend, refill_at_start _ _ _ h3o h3d]; exact hsim
    · rw [refill_at_end _ _ _ hend, refill_at_start _ _ _ h3o h3d]; exact hsim.2.2.2.2.1
    · intro _
      rw [refill_at_end _ _ _ hend]
      simp only
      omega
  unfold read
  cases n with
  | zero => exact absurd rfl hn
  | succ k =>
    rw [readLoop, readLoop]
    simp only [hn, if_false]
    cases hs₁ : readStep true f unc m (k + 1) with
    | done s₁ a =>
      cases hs₂ : readStep true f unc m3 (k + 1) with
      | done s₂ b => rw [hs₁, hs₂] at hss; exact ⟨hss.1, rfl, hss.2⟩
      | more b n₂ ch₂ => rw [hs₁, hs₂] at hss; exact hss.elim
    | more a n₁ ch₁ =>
      cases hs₂ : readStep true f unc m3 (k + 1) with
      | done s₂ b => rw [hs₁, hs₂] at hss; exact hss.elim
      | more b n₂ ch₂ =>
        rw [hs₁, hs₂] at hss
        obtain ⟨hsm, rfl, rfl⟩ := hss
        exact sim_readLoop hc _ _ _ _ _ hsm (readStep_more hc cm hn hs₁).1 (readStep_more hc c3 hn hs₂).1

theorem read_zero (fix : Bool) (f : File) (unc : Codec) (m : MR) : read fix f unc m 0 = (0, [], m) := by
  unfold read
  rw [readLoop]
  simp

theorem answerReads_from_block_end {f : File} {unc : Codec} (hc : CodecOK unc) (ns : List Nat) :
    ∀ (m m3 : MR), Coherent f unc m → Coherent f unc m3 → m.offset = m.dataUsed →
      (seek true f unc m m.nextBlock 0).1 = 0 → Sim (seek true f unc m m.nextBlock 0).2 m3 →
      answerReads true f unc m ns = answerReads true f unc m3 ns := by
  induction ns with
  | nil =>
    intro m m3 cm c3 hend hs0 hsim
    obtain ⟨ho, hdu⟩ := seek_ok hc hs0
    have htag := seek_ok_tag hc hs0
    unfold answerReads getPos
    have h3o : m3.offset = 0 := by rw [← hsim.2.2.2.2.2.1]; exact ho
    have h3d : ¬ (0 = m3.dataUsed) := by rw [← hsim.2.2.2.2.1]; omega
    have h3t : m3.tag = m.nextBlock := by rw [← hsim.2.2.1]; exact htag
    simp only [hend, if_true, h3o, h3t, h3d, if_false]
  | cons n ns ih =>
    intro m m3 cm c3 hend hs0 hsim
    by_cases hn : n = 0
    · subst hn
      unfold answerReads
      simp only [read_zero, ne_eq, not_true_eq_false, if_false]
      rw [ih m m3 cm c3 hend hs0 hsim]
    · obtain ⟨e1, e2, e3⟩ := read_from_block_end hc cm c3 hend hs0 hsim n hn
      have k₁ := read_coherent hc cm n
      have k₂ := read_coherent hc c3 n
      unfold answerReads
      simp only
      rw [← e1, ← e2]
      by_cases hst : (read true f unc m n).1 = 0
      · simp only [hst, ne_eq, not_true_eq_false, if_false]
        rw [sim_answerReads hc ns _ _ e3 k₁ k₂]
      · simp only [hst, ne_eq, not_false_eq_true, if_true]

theorem seek_hit_self {f : File} {unc : Codec} {m : MR} (_hne : m.offset ≠ m.dataUsed)
    (h : (seek true f unc m m.tag m.offset).1 = 0) : (seek true f unc m m.tag m.offset).2 = m := by
  unfold seek at h ⊢
  by_cases hw : m.tag < m.start ∨ m.tag ≥ m.limit
  · simp only [hw, if_true] at h; exact absurd h (by decide)
  · simp only [hw, if_false, if_true] at h ⊢
    by_cases ho : m.offset ≥ m.dataUsed
    · simp only [ho, if_true] at h; exact absurd h (by decide)
    · simp only [ho, if_false]

end Sqfs.MetaReader
