/-
C01 — the position the meta writer reports (`sqfs_meta_writer_get_position`) after any prefix of its appends is the
reference `refOfPos` computes from the number of bytes appended so far and the blocks of the finished run.
-/
import Sqfs.Proofs.EncMeta
namespace Sqfs.Enc
open Sqfs.Consts
open Sqfs.MetaWriter (Block Codec St flush append appendGo run position stream flush_spec Inv)

theorem startOf_all (bs : List Block) : startOf bs bs.length = (bs.map Block.diskSize).sum := by
  simp [startOf]

theorem startOf_append_left (a b : List Block) : startOf (a ++ b) a.length = startOf a a.length := by
  simp [startOf]

/-- `block_offset` is the disk size of everything flushed so far, and the blocks of an earlier state `st0` stay in front -/
def PosOk (st0 st : St) : Prop := st.blockOffset = startOf st.out st.out.length ∧ ∃ more, st.out = st0.out ++ more

theorem flush_posOk (cmp : Codec) (st0 st : St) (h : PosOk st0 st) : PosOk st0 (flush cmp st) := by
  obtain ⟨h1, more, h2⟩ := h
  rcases flush_spec cmp st with ⟨_, he⟩ | ⟨_, b, _, _, he⟩
  · rw [he]; exact ⟨h1, more, h2⟩
  · rw [he]
    refine ⟨?_, more ++ [b], by simp [h2]⟩
    simp only [startOf_all, List.map_append, List.sum_append, List.map_cons, List.map_nil, List.sum_cons, List.sum_nil,
      Block.diskSize] at h1 ⊢
    omega

theorem appendGo_posOk (cmp : Codec) (st0 : St) : ∀ (f : Nat) (st : St) (data : List UInt8), PosOk st0 st →
    PosOk st0 (appendGo cmp f st data) := by
  intro f
  induction f with
  | zero => intro st data h; exact h
  | succ f ih =>
    intro st data h
    unfold appendGo
    split
    · exact h
    · apply ih
      have h' : PosOk st0 (if st.cur.length = metaBlockSize then flush cmp st else st) := by
        split
        · exact flush_posOk cmp st0 st h
        · exact h
      exact h'

theorem append_posOk (cmp : Codec) (st0 st : St) (data : List UInt8) (h : PosOk st0 st) : PosOk st0 (append cmp st data) := by
  unfold append
  simp only
  split
  · exact flush_posOk cmp st0 _ (appendGo_posOk cmp st0 _ st data h)
  · exact appendGo_posOk cmp st0 _ st data h

theorem foldl_posOk (cmp : Codec) (st0 : St) : ∀ (chunks : List (List UInt8)) (st : St), PosOk st0 st →
    PosOk st0 (chunks.foldl (append cmp) st) := by
  intro chunks
  induction chunks with
  | nil => intro st h; exact h
  | cons c cs ih => intro st h; exact ih _ (append_posOk cmp st0 st c h)

theorem stream_length_of_inv {cmp : Codec} {st : St} (h : Inv cmp st) :
    (stream st).length = st.out.length * metaBlockSize + st.cur.length := by
  unfold stream
  have : ((st.out.map (·.raw)).flatten).length = st.out.length * metaBlockSize := by
    have hf := h.full
    generalize st.out = l at hf
    induction l with
    | nil => simp
    | cons b l ih =>
      have := ih (fun x hx => hf x (List.mem_cons_of_mem _ hx))
      simp only [List.map_cons, List.flatten_cons, List.length_append, List.length_cons, this, hf b (List.mem_cons_self ..)]
      rw [Nat.add_mul]; omega
  simp [this]

/-- **Writer side of `meta_ref_roundtrip`.**  After the first `k` appends of a run the writer's `get_position` is
exactly `refOfPos` of the finished run's blocks at the number of bytes appended so far — the reference stored in inode
references, directory entries and xattr descriptors. -/
theorem writer_position (cmp : Codec) (chunks : List (List UInt8)) (k : Nat) :
    position ((chunks.take k).foldl (append cmp) {})
      = refOfPos (run cmp chunks).out ((chunks.take k).flatten.length) := by
  have h0 : Inv cmp ({} : St) := ⟨by simp, by simp, by simp⟩
  obtain ⟨i1, i2, i3⟩ := Sqfs.MetaWriter.foldl_append_inv cmp (chunks.take k) {} h0 (by simpa using Sqfs.MetaWriter.mb_pos)
  have hp0 : PosOk ({} : St) ({} : St) := ⟨by simp [startOf], [], by simp⟩
  have hp := foldl_posOk cmp {} (chunks.take k) {} hp0
  generalize hst : (chunks.take k).foldl (append cmp) {} = st at i1 i2 i3 hp
  have hrun : run cmp chunks = flush cmp ((chunks.drop k).foldl (append cmp) st) := by
    unfold run
    conv => lhs; rw [← List.take_append_drop k chunks, List.foldl_append, hst]
  have hq : PosOk st (flush cmp ((chunks.drop k).foldl (append cmp) st)) :=
    flush_posOk cmp st _ (foldl_posOk cmp st (chunks.drop k) st ⟨hp.1, [], by simp⟩)
  obtain ⟨_, more, hmore⟩ := hq
  have hs0 : stream ({} : St) = [] := by simp [stream]
  rw [hs0, List.nil_append] at i3
  have hlen := stream_length_of_inv i1
  rw [i3] at hlen
  unfold position refOfPos
  rw [hrun, hmore, hlen]
  have h8 : 0 < metaBlockSize := by decide
  have hd : (st.out.length * metaBlockSize + st.cur.length) / metaBlockSize = st.out.length := by
    rw [Nat.mul_comm, Nat.mul_add_div h8, Nat.div_eq_of_lt i2]; simp
  have hm : (st.out.length * metaBlockSize + st.cur.length) % metaBlockSize = st.cur.length := by
    rw [Nat.mul_comm, Nat.mul_add_mod, Nat.mod_eq_of_lt i2]
  rw [hd, hm, startOf_append_left, ← hp.1]

end Sqfs.Enc
