/-
Helper lemmas for the C09 extension (`Model/C09PoolX.lean`): projection of extended executions onto the base
model, monotonicity of the event log, and the pointer-ownership invariant behind the context clause.
-/
import Sqfs.Proofs.Pool
import Sqfs.Spec.C09PoolX
namespace Sqfs.Pool
open List

/-- every extended step is a base step on the base component, or leaves it unchanged -/
theorem xstep_base (cfg : Cfg) {xs xs' : XState} (c : XChoice) (h : xstep cfg xs c = some xs') :
    xs'.base = xs.base ∨ ∃ bc, step cfg xs.base bc = some xs'.base := by
  cases c with
  | base bc =>
    cases bc with
    | worker i spur =>
      simp only [xstep] at h
      unfold xstepWorker at h
      split at h
      · simp at h
      · rename_i b' hb
        right
        refine ⟨.worker i spur, ?_⟩
        simp only [step]
        split at h
        · simp only [Option.some.injEq] at h; subst h; exact hb
        · split at h <;> (simp only [Option.some.injEq] at h; subst h; exact hb)
    | main mc =>
      simp only [xstep] at h
      split at h
      · split at h
        · simp only [Option.some.injEq] at h; subst h; left; rfl
        · simp at h
      · split at h
        · simp at h
        · rename_i b' hb
          simp only [Option.some.injEq] at h; subst h
          right; exact ⟨.main mc, hb⟩
  | setPtr i p =>
    simp only [xstep] at h
    split at h
    · split at h <;> (simp only [Option.some.injEq] at h; subst h; left; rfl)
    · simp at h
  | submitOom d =>
    simp only [xstep] at h
    split at h
    · split at h
      · simp only [Option.some.injEq] at h; subst h; left; rfl
      · split at h
        · simp at h
        · rename_i b' hb
          simp only [Option.some.injEq] at h; subst h
          right; exact ⟨.main (.call (.submit d)), hb⟩
    · simp at h

theorem xreachable_base {cfg : Cfg} {n : Nat} {xs : XState} (hr : XReachable cfg n xs) :
    Reachable cfg n xs.base := by
  induction hr with
  | init => exact .init
  | step c _ hs ih =>
    rcases xstep_base cfg c hs with h | ⟨bc, h⟩
    · rw [h]; exact ih
    · exact .step bc ih h

/-- the log only grows -/
theorem xstep_log (cfg : Cfg) {xs xs' : XState} (c : XChoice) (h : xstep cfg xs c = some xs') :
    ∃ l, xs'.log = xs.log ++ l := by
  cases c with
  | base bc =>
    cases bc with
    | worker i spur =>
      simp only [xstep] at h
      unfold xstepWorker at h
      split at h
      · simp at h
      · split at h
        · simp only [Option.some.injEq] at h; subst h; exact ⟨_, rfl⟩
        · split at h
          · simp only [Option.some.injEq] at h; subst h; exact ⟨_, rfl⟩
          · simp only [Option.some.injEq] at h; subst h; exact ⟨[], by simp⟩
    | main mc =>
      simp only [xstep] at h
      split at h
      · split at h
        · simp only [Option.some.injEq] at h; subst h; exact ⟨[], by simp⟩
        · simp at h
      · split at h
        · simp at h
        · simp only [Option.some.injEq] at h; subst h; exact ⟨[], by simp⟩
  | setPtr i p =>
    simp only [xstep] at h
    split at h
    · split at h
      · simp only [Option.some.injEq] at h; subst h; exact ⟨_, rfl⟩
      · simp only [Option.some.injEq] at h; subst h; exact ⟨[], by simp⟩
    · simp at h
  | submitOom d =>
    simp only [xstep] at h
    split at h
    · split at h
      · simp only [Option.some.injEq] at h; subst h; exact ⟨_, rfl⟩
      · split at h
        · simp at h
        · simp only [Option.some.injEq] at h; subst h; exact ⟨[], by simp⟩
    · simp at h

/-- pointer ownership: wherever a non-NULL pointer sits (a worker's `user` field, the context a worker read at
its last callback entry, the argument of a `set_worker_ptr` call in progress), it belongs to that worker -/
structure InvX (own : Nat → Nat) (xs : XState) : Prop where
  users : ∀ i p, xs.users[i]? = some p → p ≠ 0 → own p = i
  ctxAt : ∀ i p, xs.ctxAt[i]? = some p → p ≠ 0 → own p = i
  pend : ∀ i p, xs.setPtr = some (i, p) → p ≠ 0 → own p = i

theorem getElem?_replicate_zero (n i p : Nat) (h : (replicate n 0)[i]? = some p) : p = 0 := by
  rw [getElem?_replicate] at h
  split at h
  · simp only [Option.some.injEq] at h; exact h.symm
  · simp at h

theorem invX_init (own : Nat → Nat) (n : Nat) : InvX own (xinit n) where
  users := by
    intro i p h hp
    exact absurd (getElem?_replicate_zero n i p h) hp
  ctxAt := by
    intro i p h hp
    exact absurd (getElem?_replicate_zero n i p h) hp
  pend := by intro i p h; simp [xinit] at h

theorem getD_eq_of_getElem? (l : List Nat) (i : Nat) : l[i]? = some (l.getD i 0) ∨ l.getD i 0 = 0 := by
  cases h : l[i]? with
  | none => right; simp [List.getD, h]
  | some a => left; simp [List.getD, h]

theorem invX_step (own : Nat → Nat) (cfg : Cfg) {xs xs' : XState} (c : XChoice) (h : InvX own xs)
    (hs : xstep cfg xs c = some xs')
    (hd : ∀ i p, XEvent.setPtr i p ∈ xs'.log → p ≠ 0 → own p = i) : InvX own xs' := by
  cases c with
  | base bc =>
    cases bc with
    | worker i spur =>
      simp only [xstep] at hs
      unfold xstepWorker at hs
      split at hs
      · simp at hs
      · split at hs
        · simp only [Option.some.injEq] at hs; subst hs
          exact ⟨h.users, h.ctxAt, h.pend⟩
        · split at hs
          · simp only [Option.some.injEq] at hs; subst hs
            refine ⟨h.users, ?_, h.pend⟩
            intro j q hj hq
            rcases getElem?_set_cases _ _ _ _ _ hj with ⟨hij, hqe⟩ | ⟨_, hj'⟩
            · subst hij
              rcases getD_eq_of_getElem? xs.users i with hu | hu
              · rw [hqe] at hq ⊢; exact h.users i _ hu hq
              · rw [hqe] at hq; exact absurd hu hq
            · exact h.ctxAt j q hj' hq
          · simp only [Option.some.injEq] at hs; subst hs
            exact ⟨h.users, h.ctxAt, h.pend⟩
    | main mc =>
      simp only [xstep] at hs
      split at hs
      · rename_i i p hp
        split at hs
        · simp only [Option.some.injEq] at hs; subst hs
          refine ⟨?_, h.ctxAt, ?_⟩
          · intro j q hj hq
            rcases getElem?_set_cases _ _ _ _ _ hj with ⟨hij, hqe⟩ | ⟨_, hj'⟩
            · subst hij; rw [hqe] at hq ⊢; exact h.pend i p hp hq
            · exact h.users j q hj' hq
          · intro j q hj; simp at hj
        · simp at hs
      · split at hs
        · simp at hs
        · simp only [Option.some.injEq] at hs; subst hs
          exact ⟨h.users, h.ctxAt, h.pend⟩
  | setPtr i p =>
    simp only [xstep] at hs
    split at hs
    · split at hs
      · simp only [Option.some.injEq] at hs; subst hs
        refine ⟨h.users, h.ctxAt, ?_⟩
        intro j q hj hq
        simp only [Option.some.injEq, Prod.mk.injEq] at hj
        obtain ⟨h1, h2⟩ := hj
        subst h1; subst h2
        exact hd i p (by simp) hq
      · simp only [Option.some.injEq] at hs; subst hs; exact h
    · simp at hs
  | submitOom d =>
    simp only [xstep] at hs
    split at hs
    · split at hs
      · simp only [Option.some.injEq] at hs; subst hs
        exact ⟨h.users, h.ctxAt, h.pend⟩
      · split at hs
        · simp at hs
        · simp only [Option.some.injEq] at hs; subst hs
          exact ⟨h.users, h.ctxAt, h.pend⟩
    · simp at hs

theorem invX_reachable (own : Nat → Nat) {cfg : Cfg} {n : Nat} {xs : XState} (hr : XReachable cfg n xs)
    (hd : ∀ i p, XEvent.setPtr i p ∈ xs.log → p ≠ 0 → own p = i) : InvX own xs := by
  induction hr with
  | init => exact invX_init own n
  | step c _ hs ih =>
    obtain ⟨l, hl⟩ := xstep_log cfg c hs
    refine invX_step own cfg c (ih ?_) hs hd
    intro i p hm hp
    exact hd i p (by rw [hl]; exact mem_append_left _ hm) hp

/-- no step changes the number of `user` fields / context slots -/
theorem xstep_lens (cfg : Cfg) {xs xs' : XState} (c : XChoice) (h : xstep cfg xs c = some xs') :
    xs'.users.length = xs.users.length ∧ xs'.ctxAt.length = xs.ctxAt.length := by
  cases c with
  | base bc =>
    cases bc with
    | worker i spur =>
      simp only [xstep] at h
      unfold xstepWorker at h
      split at h
      · simp at h
      · split at h
        · simp only [Option.some.injEq] at h; subst h; exact ⟨rfl, rfl⟩
        · split at h
          · simp only [Option.some.injEq] at h; subst h; exact ⟨rfl, by simp⟩
          · simp only [Option.some.injEq] at h; subst h; exact ⟨rfl, rfl⟩
    | main mc =>
      simp only [xstep] at h
      split at h
      · split at h
        · simp only [Option.some.injEq] at h; subst h; exact ⟨by simp, rfl⟩
        · simp at h
      · split at h
        · simp at h
        · simp only [Option.some.injEq] at h; subst h; exact ⟨rfl, rfl⟩
  | setPtr i p =>
    simp only [xstep] at h
    split at h
    · split at h <;> (simp only [Option.some.injEq] at h; subst h; exact ⟨rfl, rfl⟩)
    · simp at h
  | submitOom d =>
    simp only [xstep] at h
    split at h
    · split at h
      · simp only [Option.some.injEq] at h; subst h; exact ⟨rfl, rfl⟩
      · split at h
        · simp at h
        · simp only [Option.some.injEq] at h; subst h; exact ⟨rfl, rfl⟩
    · simp at h

theorem xlens_reachable {cfg : Cfg} {n : Nat} {xs : XState} (hr : XReachable cfg n xs) :
    xs.users.length = n ∧ xs.ctxAt.length = n ∧ xs.base.workers.length = n := by
  refine ⟨?_, ?_, workers_length_reachable (xreachable_base hr)⟩
  · induction hr with
    | init => simp [xinit]
    | step c _ hs ih => rw [(xstep_lens cfg c hs).1]; exact ih
  · induction hr with
    | init => simp [xinit]
    | step c _ hs ih => rw [(xstep_lens cfg c hs).2]; exact ih

/-- a base worker step that is enabled is enabled in the extended model -/
theorem xstepWorker_isSome (cfg : Cfg) (xs : XState) (i : Nat) (spur : Bool) {b' : State}
    (h : stepWorker cfg xs.base i spur = some b') : ∃ xs', xstepWorker cfg xs i spur = some xs' ∧ xs'.base = b' := by
  unfold xstepWorker
  rw [h]
  dsimp only
  split
  · exact ⟨_, rfl, rfl⟩
  · split
    · exact ⟨_, rfl, rfl⟩
    · exact ⟨_, rfl, rfl⟩

end Sqfs.Pool
