/-
Helper lemmas about `Sqfs/Model/Sort.lean`: the selection sort (`scanLow`, `sortLoop`) and the marking loop.
-/
import Sqfs.Model.Sort
namespace Sqfs.Sort
open Sqfs.Path (Bytes)

variable {α : Type}

/-! ## `scanLow`: splits the list at the *first* element of least priority -/

theorem scanLow_spec (prio : α → Int) (rest : List α) :
    ∀ (pre : List α) (low : α) (mid : List α),
      (∀ x ∈ pre, prio low < prio x) → (∀ x ∈ mid, prio low ≤ prio x) →
      (scanLow prio pre low mid rest).1 ++ (scanLow prio pre low mid rest).2.1 :: (scanLow prio pre low mid rest).2.2
          = pre ++ low :: mid ++ rest
      ∧ (∀ x ∈ (scanLow prio pre low mid rest).1, prio (scanLow prio pre low mid rest).2.1 < prio x)
      ∧ (∀ x ∈ (scanLow prio pre low mid rest).2.2, prio (scanLow prio pre low mid rest).2.1 ≤ prio x) := by
  induction rest with
  | nil => intro pre low mid hp hm; simp [scanLow]; exact ⟨hp, hm⟩
  | cons y ys ih =>
    intro pre low mid hp hm
    simp only [scanLow]
    split
    · rename_i hlt
      have h1 : ∀ x ∈ pre ++ low :: mid, prio y < prio x := by
        intro x hx
        rcases List.mem_append.1 hx with hx | hx
        · exact Int.lt_trans hlt (hp x hx)
        · rcases List.mem_cons.1 hx with hx | hx
          · subst hx; exact hlt
          · exact Int.lt_of_lt_of_le hlt (hm x hx)
      have := ih (pre ++ low :: mid) y [] h1 (by simp)
      simpa using this
    · rename_i hge
      have h2 : ∀ x ∈ mid ++ [y], prio low ≤ prio x := by
        intro x hx
        rcases List.mem_append.1 hx with hx | hx
        · exact hm x hx
        · simp at hx; subst hx; exact Int.not_lt.1 hge
      have := ih pre low (mid ++ [y]) hp h2
      simpa using this

/-- the three facts used below, for one extraction from `x :: xs` -/
theorem extract_spec (prio : α → Int) (x : α) (xs : List α) :
    let r := scanLow prio [] x [] xs
    r.1 ++ r.2.1 :: r.2.2 = x :: xs ∧ (∀ y ∈ r.1, prio r.2.1 < prio y) ∧ (∀ y ∈ r.2.2, prio r.2.1 ≤ prio y) := by
  have := scanLow_spec prio xs [] x [] (by simp) (by simp)
  simpa using this

theorem extract_length (prio : α → Int) (x : α) (xs : List α) :
    ((scanLow prio [] x [] xs).1 ++ (scanLow prio [] x [] xs).2.2).length = xs.length := by
  have h := (extract_spec prio x xs).1
  have := congrArg List.length h
  simp at this ⊢
  omega

/-! ## `sortLoop` -/

theorem sortLoop_perm (prio : α → Int) : ∀ (n : Nat) (l out : List α), l.length ≤ n →
    (sortLoop prio n l out).Perm (out ++ l) := by
  intro n
  induction n with
  | zero => intro l out h; have : l = [] := List.length_eq_zero_iff.1 (by omega); subst this; simp [sortLoop]
  | succ n ih =>
    intro l out h
    cases l with
    | nil => simp [sortLoop]
    | cons x xs =>
      simp only [sortLoop]
      have hs := extract_spec prio x xs
      have hl := extract_length prio x xs
      refine (ih _ _ (by simp at h; omega)).trans ?_
      rw [← hs.1, List.append_assoc]
      apply List.Perm.append_left
      simp only [List.singleton_append]
      exact (List.perm_middle).symm

theorem sortLoop_sorted (prio : α → Int) : ∀ (n : Nat) (l out : List α), l.length ≤ n →
    out.Pairwise (fun a b => prio a ≤ prio b) → (∀ a ∈ out, ∀ b ∈ l, prio a ≤ prio b) →
    (sortLoop prio n l out).Pairwise (fun a b => prio a ≤ prio b) := by
  intro n
  induction n with
  | zero => intro l out h hp _; simpa [sortLoop] using hp
  | succ n ih =>
    intro l out h hp hle
    cases l with
    | nil => simpa [sortLoop] using hp
    | cons x xs =>
      simp only [sortLoop]
      have hs := extract_spec prio x xs
      have hl := extract_length prio x xs
      have hmem : ∀ y, y ∈ (scanLow prio [] x [] xs).1 ++ (scanLow prio [] x [] xs).2.2 → y ∈ x :: xs := by
        intro y hy
        rw [← hs.1]
        rcases List.mem_append.1 hy with hy | hy
        · exact List.mem_append_left _ hy
        · exact List.mem_append_right _ (List.mem_cons_of_mem _ hy)
      have hlow : (scanLow prio [] x [] xs).2.1 ∈ x :: xs := by rw [← hs.1]; simp
      apply ih _ _ (by simp at h; omega)
      · rw [List.pairwise_append]
        refine ⟨hp, by simp, ?_⟩
        intro a ha b hb
        simp at hb; subst hb
        exact hle a ha _ hlow
      · intro a ha b hb
        rcases List.mem_append.1 ha with ha | ha
        · exact hle a ha b (hmem b hb)
        · simp at ha; subst ha
          rcases List.mem_append.1 hb with hb | hb
          · exact Int.le_of_lt (hs.2.1 b hb)
          · exact hs.2.2 b hb

theorem sortLoop_stable (prio : α → Int) (p : Int) : ∀ (n : Nat) (l out : List α), l.length ≤ n →
    (sortLoop prio n l out).filter (fun a => prio a == p)
      = out.filter (fun a => prio a == p) ++ l.filter (fun a => prio a == p) := by
  intro n
  induction n with
  | zero => intro l out h; have : l = [] := List.length_eq_zero_iff.1 (by omega); subst this; simp [sortLoop]
  | succ n ih =>
    intro l out h
    cases l with
    | nil => simp [sortLoop]
    | cons x xs =>
      simp only [sortLoop]
      have hs := extract_spec prio x xs
      have hl := extract_length prio x xs
      rw [ih _ _ (by simp at h; omega)]
      rw [← hs.1]
      simp only [List.filter_append, List.filter_cons, List.filter_nil, List.append_assoc]
      congr 1
      by_cases hp : prio (scanLow prio [] x [] xs).2.1 = p
      · -- nothing before `low` has priority p
        have hnil : (scanLow prio [] x [] xs).1.filter (fun a => prio a == p) = [] := by
          rw [List.filter_eq_nil_iff]
          intro y hy
          have := hs.2.1 y hy
          simp
          omega
        simp [hp, hnil]
      · simp [hp]

/-! ## marking -/

/-- effect of one line on one file, seen in isolation -/
def stepFile (mt : Matcher) (l : SortLine) (f : FileEnt) : FileEnt :=
  if f.matched then f else if lineMatches mt l f.path then mark l f else f

theorem stepFile_path (mt : Matcher) (l : SortLine) (f : FileEnt) : (stepFile mt l f).path = f.path := by
  unfold stepFile mark; split
  · rfl
  · split <;> rfl

theorem applyLine_glob (mt : Matcher) (l : SortLine) (h : l.dir.doGlob = true) (fs : List FileEnt) :
    applyLine mt l fs = fs.map (stepFile mt l) := by
  induction fs with
  | nil => rfl
  | cons f fs ih =>
    simp only [applyLine, List.map_cons, stepFile, h, if_true]
    split
    · rw [ih]
    · split <;> rw [ih]

theorem applyLine_eq_map (mt : Matcher) (l : SortLine) (fs : List FileEnt) (hnd : (fs.map (·.path)).Nodup) :
    applyLine mt l fs = fs.map (stepFile mt l) := by
  by_cases hg : l.dir.doGlob = true
  · exact applyLine_glob mt l hg fs
  · have hg' : l.dir.doGlob = false := by simpa using hg
    induction fs with
    | nil => rfl
    | cons f fs ih =>
      simp only [List.map_cons, List.nodup_cons] at hnd
      simp only [applyLine, List.map_cons, stepFile]
      split
      · rw [ih hnd.2]
      · split
        · rename_i hm
          congr 1
          -- no later file has the same path, so the rest is untouched
          have hpath : f.path = l.pattern := by simpa [lineMatches, hg'] using hm
          have hid : fs.map (stepFile mt l) = fs.map id := by
            apply List.map_congr_left
            intro g hgm
            have hne : g.path ≠ f.path := by
              intro e; exact hnd.1 (e ▸ List.mem_map_of_mem hgm)
            simp only [stepFile, id]
            split
            · rfl
            · have : lineMatches mt l g.path = false := by
                simp [lineMatches, hg', ← hpath, hne]
              simp [this]
          rw [hid, List.map_id]
        · rw [ih hnd.2]

theorem map_stepFile_paths (mt : Matcher) (l : SortLine) (fs : List FileEnt) :
    (fs.map (stepFile mt l)).map (·.path) = fs.map (·.path) := by
  simp [List.map_map, Function.comp_def, stepFile_path]

theorem applyLines_eq_map (mt : Matcher) (ls : List SortLine) : ∀ (fs : List FileEnt), (fs.map (·.path)).Nodup →
    applyLines mt ls fs = fs.map (fun f => ls.foldl (fun a l => stepFile mt l a) f) := by
  induction ls with
  | nil => intro fs _; simp [applyLines]
  | cons l ls ih =>
    intro fs hnd
    have h1 := applyLine_eq_map mt l fs hnd
    simp only [applyLines, List.foldl_cons] at ih ⊢
    rw [h1, ih _ (by rw [map_stepFile_paths]; exact hnd)]
    simp [List.map_map, Function.comp_def]

theorem foldl_stepFile_matched (mt : Matcher) (ls : List SortLine) (f : FileEnt) (h : f.matched = true) :
    ls.foldl (fun a l => stepFile mt l a) f = f := by
  induction ls with
  | nil => rfl
  | cons l ls ih =>
    have : stepFile mt l f = f := by simp [stepFile, h]
    simp only [List.foldl_cons, this]
    exact ih

theorem foldl_stepFile_fresh (mt : Matcher) (ls : List SortLine) (p : Bytes) :
    ls.foldl (fun a l => stepFile mt l a) ({ path := p } : FileEnt)
      = match ls.find? (fun l => lineMatches mt l p) with
        | some l => { path := p, priority := l.priority, flags := l.dir.flags, matched := true }
        | none => { path := p } := by
  induction ls with
  | nil => rfl
  | cons l ls ih =>
    simp only [List.foldl_cons, List.find?_cons]
    by_cases hm : lineMatches mt l p = true
    · have : stepFile mt l ({ path := p } : FileEnt) = mark l { path := p } := by simp [stepFile, hm]
      rw [this, foldl_stepFile_matched _ _ _ (by simp [mark])]
      simp [hm, mark]
    · have hm' : lineMatches mt l p = false := by simpa using hm
      have : stepFile mt l ({ path := p } : FileEnt) = { path := p } := by simp [stepFile, hm']
      rw [this, ih]
      simp [hm']

/-! ## quoting -/

theorem unquote_quote (t : Bytes) : unquote (QUOTE :: t) = .ok ([], t) := by
  rw [unquote.eq_def]; simp

theorem unquote_esc (d : UInt8) (t : Bytes) (h : d = BSL ∨ d = QUOTE) :
    unquote (BSL :: d :: t) = (match unquote t with
      | .ok (a, r) => .ok (d :: a, r)
      | .error e => .error e) := by
  rw [unquote.eq_def]
  have hb : (BSL : UInt8) ≠ QUOTE := by decide
  simp [hb, h]
  cases unquote t with
  | error e => rfl
  | ok p => obtain ⟨a, r⟩ := p; rfl

theorem unquote_plain (c : UInt8) (t : Bytes) (h1 : c ≠ QUOTE) (h2 : c ≠ BSL) :
    unquote (c :: t) = (match unquote t with
      | .ok (a, r) => .ok (c :: a, r)
      | .error e => .error e) := by
  rw [unquote.eq_def]
  simp [h1, h2]
  cases unquote t with
  | error e => rfl
  | ok p => obtain ⟨a, r⟩ := p; rfl

theorem unquote_escape (n rest : Bytes) : unquote (escapeName n ++ QUOTE :: rest) = .ok (n, rest) := by
  induction n with
  | nil => simpa [escapeName] using unquote_quote rest
  | cons c t ih =>
    by_cases hc : c = QUOTE ∨ c = BSL
    · have e : escapeName (c :: t) = BSL :: c :: escapeName t := by simp [escapeName, hc]
      rw [e, List.cons_append, List.cons_append, unquote_esc c _ hc.symm, ih]
    · have e : escapeName (c :: t) = c :: escapeName t := by simp [escapeName, hc]
      rw [e, List.cons_append, unquote_plain c _ (fun h => hc (Or.inl h)) (fun h => hc (Or.inr h)), ih]

end Sqfs.Sort
