/-
C02 helper lemmas (failing compressor, part 2b): the front end, `sync`, `finish` and the run over two pool
behaviours that agree where `G` holds (see BPFailStep.lean).
-/
import Sqfs.Proofs.BPFailStep
namespace Sqfs.BlockProc
open Sqfs.Consts
open Sqfs.BlockWriter (hasFlag)

section
variable {P : Params} {a : PoolSt → Pool.Op → Pool.Ret} {G : PoolSt → Prop}

theorem getNewBlockGo_tr (H : Agrees P a G) (fuel : Nat) (s s' : Proc)
    (h : getNewBlockGo (withAns P a) fuel s = .ok s') (hg : G s'.pool) : G s.pool ∧ getNewBlockGo P fuel s = .ok s' := by
  induction fuel generalizing s with
  | zero => simp only [getNewBlockGo] at h; cases h
  | succ n ih =>
    simp only [getNewBlockGo] at h ⊢
    split at h
    · rename_i hc
      rw [if_pos hc]
      split at h
      · cases h
      · rename_i s1 hs1
        obtain ⟨g1, e1⟩ := ih _ h
        obtain ⟨g0, e0⟩ := dequeueBlock_tr H _ _ hs1 g1
        refine ⟨g0, ?_⟩
        rw [e0]
        exact e1
    · rename_i hc
      rw [if_neg hc]
      simp only [Except.ok.injEq] at h
      rw [← h] at hg
      exact ⟨hg, by rw [h]⟩

theorem getNewBlock_tr (H : Agrees P a G) (s s' : Proc) (h : getNewBlock (withAns P a) s = .ok s') (hg : G s'.pool) :
    G s.pool ∧ getNewBlock P s = .ok s' :=
  getNewBlockGo_tr H _ _ _ h hg

theorem addSentinelBlock_tr (H : Agrees P a G) (s s' : Proc) (h : addSentinelBlock (withAns P a) s = .ok s') (hg : G s'.pool) :
    G s.pool ∧ addSentinelBlock P s = .ok s' := by
  unfold addSentinelBlock at h ⊢
  split at h
  · cases h
  · rename_i s1 hs1
    obtain ⟨g1, e1⟩ := enqueueBlock_tr H _ _ _ h hg
    obtain ⟨g0, e0⟩ := getNewBlock_tr H _ _ hs1 g1
    refine ⟨g0, ?_⟩
    rw [e0]
    exact e1

theorem appendGo_tr (H : Agrees P a G) (fuel : Nat) (s : Proc) (data : Bytes) (s' : Proc)
    (h : appendGo (withAns P a) fuel s data = .ok s') (hg : G s'.pool) : G s.pool ∧ appendGo P fuel s data = .ok s' := by
  induction fuel generalizing s data with
  | zero => simp only [appendGo] at h; cases h
  | succ n ih =>
    simp only [appendGo] at h ⊢
    split at h
    · rename_i hc
      rw [if_pos hc]
      split at h
      · cases h
      · rename_i cur hcur
        split at h
        · rename_i hB
          rw [if_pos hB]
          obtain ⟨g0, e0⟩ := enqueueBlock_tr H _ _ _ h hg
          exact ⟨g0, e0⟩
        · rename_i hB
          rw [if_neg hB]
          simp only [Except.ok.injEq] at h
          rw [← h] at hg
          exact ⟨hg, by rw [h]⟩
    · rename_i hc
      rw [if_neg hc]
      split at h
      · split at h
        · cases h
        · rename_i s1 hs1
          obtain ⟨g1, e1⟩ := ih _ _ h
          obtain ⟨g0, e0⟩ := getNewBlock_tr H _ _ hs1 g1
          refine ⟨g0, ?_⟩
          rw [e0]
          exact e1
      · rename_i cur hcur
        split at h
        · rename_i hd
          rw [if_pos hd]
          split at h
          · cases h
          · rename_i s1 hs1
            obtain ⟨g1, e1⟩ := ih _ _ h
            obtain ⟨g0, e0⟩ := enqueueBlock_tr H _ _ _ hs1 g1
            refine ⟨g0, ?_⟩
            rw [e0]
            exact e1
        · rename_i hd
          rw [if_neg hd]
          obtain ⟨g1, e1⟩ := ih _ _ h
          exact ⟨g1, e1⟩

theorem append_tr (H : Agrees P a G) (s : Proc) (data : Bytes) (s' : Proc)
    (h : append (withAns P a) s data = .ok s') (hg : G s'.pool) : G s.pool ∧ append P s data = .ok s' := by
  unfold append at h ⊢
  split at h
  · cases h
  · rename_i hc
    rw [if_neg hc]
    exact appendGo_tr H _ _ _ _ h hg

/-- the submissions of `end_file` -/
def endSubmit (P : Params) (s : Proc) : Except Err Proc :=
  match s.blkCurrent with
  | none => if !hasFlag s.blkFlags blkFirstBlock then addSentinelBlock P s else .ok s
  | some cur =>
    if hasFlag s.blkFlags blkDontFragment then
      enqueueBlock P { s with blkCurrent := none } { cur with flags := cur.flags ||| blkLastBlock }
    else
      match (if !hasFlag cur.flags blkFirstBlock then addSentinelBlock P s else .ok s) with
      | .error e => .error e
      | .ok s1 => enqueueBlock P { s1 with blkCurrent := none } { cur with flags := cur.flags ||| blkIsFragment }

theorem endFile_eq (P : Params) (s : Proc) :
    endFile P s = (if !s.beginCalled then .error .sequence
                   else match endSubmit P s with
                     | .error e => .error e
                     | .ok s2 => .ok { s2 with beginCalled := false, inode := none, blkFlags := 0 }) := rfl

theorem endSubmit_tr (H : Agrees P a G) (s s2 : Proc) (h : endSubmit (withAns P a) s = .ok s2) (hg : G s2.pool) :
    G s.pool ∧ endSubmit P s = .ok s2 := by
  unfold endSubmit at h ⊢
  cases hcur : s.blkCurrent with
  | none =>
    rw [hcur] at h
    simp only at h ⊢
    split at h
    · rename_i hf
      rw [if_pos hf]
      exact addSentinelBlock_tr H _ _ h hg
    · rename_i hf
      rw [if_neg hf]
      simp only [Except.ok.injEq] at h
      rw [← h] at hg
      exact ⟨hg, by rw [h]⟩
  | some cur =>
    rw [hcur] at h
    simp only at h ⊢
    split at h
    · rename_i hf
      rw [if_pos hf]
      exact enqueueBlock_tr H _ _ _ h hg
    · rename_i hf
      rw [if_neg hf]
      split at h
      · cases h
      · rename_i s1 hs1
        obtain ⟨g1, e1⟩ := enqueueBlock_tr H _ _ _ h hg
        split at hs1
        · rename_i hff
          rw [if_pos hff]
          obtain ⟨g0, e0⟩ := addSentinelBlock_tr H _ _ hs1 g1
          refine ⟨g0, ?_⟩
          rw [e0]
          exact e1
        · rename_i hff
          rw [if_neg hff]
          simp only [Except.ok.injEq] at hs1
          rw [← hs1] at g1 e1
          exact ⟨g1, e1⟩

theorem endFile_tr (H : Agrees P a G) (s s' : Proc) (h : endFile (withAns P a) s = .ok s') (hg : G s'.pool) :
    G s.pool ∧ endFile P s = .ok s' := by
  rw [endFile_eq] at h ⊢
  split at h
  · cases h
  · rename_i hc
    rw [if_neg hc]
    split at h
    · cases h
    · rename_i s2 hs2
      simp only [Except.ok.injEq] at h
      have hp : s'.pool = s2.pool := by rw [← h]
      rw [hp] at hg
      obtain ⟨g0, e0⟩ := endSubmit_tr H _ _ hs2 hg
      refine ⟨g0, ?_⟩
      rw [e0]
      simp only [Except.ok.injEq]
      exact h

theorem syncGo_tr (H : Agrees P a G) (fuel : Nat) (s s' : Proc)
    (h : syncGo (withAns P a) fuel s = .ok s') (hg : G s'.pool) : G s.pool ∧ syncGo P fuel s = .ok s' := by
  induction fuel generalizing s with
  | zero => simp only [syncGo] at h; cases h
  | succ n ih =>
    simp only [syncGo] at h ⊢
    split at h
    · rename_i hc
      rw [if_pos hc]
      simp only [Except.ok.injEq] at h
      rw [← h] at hg
      exact ⟨hg, by rw [h]⟩
    · rename_i hc
      rw [if_neg hc]
      split at h
      · rename_i hm
        rw [if_pos hm]
        simp only [Except.ok.injEq] at h
        rw [← h] at hg
        exact ⟨hg, by rw [h]⟩
      · rename_i hm
        rw [if_neg hm]
        split at h
        · cases h
        · rename_i s1 hs1
          obtain ⟨g1, e1⟩ := ih _ h
          obtain ⟨g0, e0⟩ := dequeueBlock_tr H _ _ hs1 g1
          refine ⟨g0, ?_⟩
          rw [e0]
          exact e1

theorem syncDrain_tr (H : Agrees P a G) (s s' : Proc) (h : syncDrain (withAns P a) s = .ok s') (hg : G s'.pool) :
    G s.pool ∧ syncDrain P s = .ok s' :=
  syncGo_tr H _ _ _ h hg

theorem packFile_tr (H : Agrees P a G) (s : Proc) (f : InFile) (s' : Proc)
    (h : packFile (withAns P a) s f = .ok s') (hg : G s'.pool) : G s.pool ∧ packFile P s f = .ok s' := by
  unfold packFile at h ⊢
  split at h
  · cases h
  · rename_i s1 hs1
    have hp1 : s1.pool = s.pool := by
      unfold beginFile at hs1
      split at hs1
      · cases hs1
      · split at hs1
        · cases hs1
        · simp only [Except.ok.injEq] at hs1; rw [← hs1]
    split at h
    · cases h
    · rename_i s2 hs2
      simp only [Bool.false_eq_true, if_false] at h ⊢
      obtain ⟨g2, e2⟩ := endFile_tr H _ _ h hg
      split at hs2
      · rename_i he
        rw [if_pos he]
        simp only [Except.ok.injEq] at hs2
        rw [← hs2] at g2 e2
        rw [hp1] at g2
        exact ⟨g2, e2⟩
      · rename_i he
        rw [if_neg he]
        obtain ⟨g1, e1⟩ := append_tr H _ _ _ hs2 g2
        rw [hp1] at g1
        refine ⟨g1, ?_⟩
        rw [e1]
        exact e2

theorem packFiles_tr (H : Agrees P a G) (files : List InFile) (s s' : Proc)
    (h : packFiles (withAns P a) s files = .ok s') (hg : G s'.pool) : G s.pool ∧ packFiles P s files = .ok s' := by
  induction files generalizing s with
  | nil =>
    simp only [packFiles, Except.ok.injEq] at h ⊢
    rw [← h] at hg
    exact ⟨hg, h⟩
  | cons f fs ih =>
    simp only [packFiles] at h ⊢
    split at h
    · cases h
    · rename_i s1 hs1
      obtain ⟨g1, e1⟩ := ih _ h
      obtain ⟨g0, e0⟩ := packFile_tr H _ _ _ hs1 g1
      refine ⟨g0, ?_⟩
      rw [e0]
      exact e1

/-! ### `sync` / `finish` (the current code: `sync` ends with `get_status`): `G` after a successful status check -/

/-- `sync` over the behaviour `a`; `hst`: a zero answer of `get_status` means `G` (for `G = Healthy`: the answer is
the status), `hrec`: the call itself keeps `G` -/
theorem sync_tr (H : Agrees P a G)
    (hst : ∀ p, (poolStatus (withAns P a) p).2 = 0 → G p) (hrec : ∀ p, G p → G (p.record .getStatus p.table))
    (s s' : Proc) (h : sync (withAns P a) s = .ok s') : G s'.pool ∧ G s.pool ∧ sync P s = .ok s' := by
  unfold sync at h ⊢
  split at h
  · cases h
  · rename_i s1 hs1
    split at h
    · cases h
    · rename_i h0
      simp only [ne_eq, Decidable.not_not] at h0
      have g1 : G s1.pool := hst _ h0
      obtain ⟨g0, e0⟩ := syncDrain_tr H _ _ hs1 g1
      simp only [Except.ok.injEq] at h
      have gp : G s'.pool := by
        rw [← h]
        exact hrec _ g1
      refine ⟨gp, g0, ?_⟩
      rw [e0]
      simp only
      rw [← poolStatus_snd H _ g1, h0]
      simp only [ne_eq, not_true_eq_false, if_false, Except.ok.injEq]
      exact h

theorem finish_tr (H : Agrees P a G)
    (hst : ∀ p, (poolStatus (withAns P a) p).2 = 0 → G p) (hrec : ∀ p, G p → G (p.record .getStatus p.table))
    (s s' : Proc) (h : finish (withAns P a) s = .ok s') : G s'.pool ∧ G s.pool ∧ finish P s = .ok s' := by
  unfold finish at h ⊢
  split at h
  · cases h
  · rename_i s1 hs1
    obtain ⟨g1, g0, e0⟩ := sync_tr H hst hrec _ _ hs1
    rw [e0]
    simp only
    split at h
    · rename_i hfb
      simp only [Except.ok.injEq] at h
      rw [← h]
      exact ⟨g1, g0, rfl⟩
    · rename_i fb hfb
      split at h
      · cases h
      · rename_i s2 hs2
        obtain ⟨g3, g2, e2⟩ := sync_tr H hst hrec _ _ h
        obtain ⟨_, e1⟩ := enqueueBlock_tr H _ _ _ hs2 g2
        refine ⟨g3, g0, ?_⟩
        rw [e1]
        exact e2

theorem runProc_tr (H : Agrees P a G)
    (hst : ∀ p, (poolStatus (withAns P a) p).2 = 0 → G p) (hrec : ∀ p, G p → G (p.record .getStatus p.table))
    (mb : Nat) (files : List InFile) (s' : Proc) (h : runProc (withAns P a) mb files = .ok s') :
    G s'.pool ∧ runProc P mb files = .ok s' := by
  unfold runProc at h ⊢
  split at h
  · cases h
  · rename_i s1 hs1
    obtain ⟨g2, g1, e1⟩ := finish_tr H hst hrec _ _ h
    obtain ⟨_, e0⟩ := packFiles_tr H _ _ _ hs1 g1
    have : packFiles P (create P mb) files = .ok s1 := e0
    rw [this]
    exact ⟨g2, e1⟩

end
end Sqfs.BlockProc
