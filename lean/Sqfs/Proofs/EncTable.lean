/-
C01 — lookup tables: `sqfs_read_table ∘ sqfs_write_table = id`, and the id / fragment / export tables on top.
-/
import Sqfs.Proofs.EncMeta
namespace Sqfs.Enc
open Sqfs.Consts
open Sqfs.Writer (le leVal le_length)
open Sqfs.MetaWriter (Block Codec Made run run_shape chunksOf)

/-! ### the blocks and locations of `sqfs_write_table` -/

theorem locs_fold : ∀ (bs : List Block) (l : List Nat) (s : Nat),
    (bs.foldl (fun (acc : List Nat × Nat) b => (acc.1 ++ [acc.2], acc.2 + 2 + b.stored.length)) (l, s)).1
      = l ++ (List.range bs.length).map (fun i => s + startOf bs i) := by
  intro bs
  induction bs with
  | nil => intro l s; simp
  | cons b bs ih =>
    intro l s
    simp only [List.foldl_cons, List.length_cons, List.range_succ_eq_map, List.map_cons, List.map_map]
    rw [ih]
    simp only [List.append_assoc, List.cons_append, List.nil_append]
    have e1 : s + startOf (b :: bs) 0 = s := by simp [startOf]
    have e2 : ∀ i, s + 2 + b.stored.length + startOf bs i = s + startOf (b :: bs) (i + 1) := by
      intro i; simp only [startOf, List.take_succ_cons, List.map_cons, List.sum_cons, Block.diskSize]; omega
    simp only [e1, e2]
    rfl

theorem run_full (cmp : Codec) (chunks : List Bytes) : FullButLast (run cmp chunks).out := by
  obtain ⟨full, last, h1, _, h3, h4, _, _, _⟩ := run_shape cmp chunks
  rw [h1]
  intro i hi
  have : i < full.length := by simp only [List.length_append] at hi; omega
  rw [List.getD_eq_getElem?_getD, List.getElem?_append_left this, List.getElem?_eq_getElem this]
  exact h3 _ (List.getElem_mem this)

theorem chunksOf_flatten : ∀ (f : Nat) (d : Bytes), d.length < f → (chunksOf f d).flatten = d := by
  intro f
  induction f with
  | zero => intro d h; omega
  | succ f ih =>
    intro d h
    unfold chunksOf
    by_cases hd : d = []
    · simp [hd]
    · simp only [hd, if_false, List.flatten_cons]
      rw [ih _ (by
        simp only [List.length_drop, metaBlockSize]
        have : 0 < d.length := List.length_pos_iff.mpr hd
        omega)]
      exact List.take_append_drop _ _

theorem rawOf_length_le (cmp : Codec) : ∀ (bs : List Block), BlocksOk cmp bs → (rawOf bs).length ≤ bs.length * metaBlockSize := by
  intro bs
  induction bs with
  | nil => intro _; simp [rawOf]
  | cons b bs ih =>
    intro hok
    have := ih (fun x hx => hok x (List.mem_cons_of_mem _ hx))
    have hb := (hok b (List.mem_cons_self ..)).2.2
    simp only [rawOf, List.map_cons, List.flatten_cons, List.length_append, List.length_cons] at this ⊢
    rw [Nat.add_mul]; omega

/-- a stream whose blocks are all full but the last has more than `8192 * i` bytes when it has a block number `i` -/
theorem rawOf_gt (cmp : Codec) (bs : List Block) (hok : BlocksOk cmp bs) (hfull : FullButLast bs) (i : Nat) (hi : i < bs.length) :
    i * metaBlockSize < (rawOf bs).length := by
  have h1 := rawOf_take_full bs i hfull hi
  have h2 := rawOf_split bs i
  obtain ⟨b, rest, hb⟩ : ∃ b rest, bs.drop i = b :: rest := by
    cases hd : bs.drop i with
    | nil => simp at hd; omega
    | cons b rest => exact ⟨b, rest, rfl⟩
  have hbm : b ∈ bs := List.mem_of_mem_drop (by rw [hb]; exact List.mem_cons_self ..)
  have := (hok b hbm).2.1
  have hraw : rawOf (b :: rest) = b.raw ++ rawOf rest := by simp [rawOf]
  rw [h2, hb, hraw]
  simp only [List.length_append, h1]
  omega

/-- the `while (table_size > 0)` loop of `sqfs_read_table` on the blocks of one table -/
theorem readTableGo_spec {cmp : Codec} {unc : Unc} (hc : CodecOk cmp unc) (bs : List Block) (hok : BlocksOk cmp bs)
    (hfull : FullButLast bs) (file : Bytes) (lower upper : Nat)
    (hwin : (file.take upper).drop lower = encBlocks bs) (hup : upper = lower + (encBlocks bs).length) :
    ∀ (k i : Nat), i + k = bs.length →
      readTableGo unc file lower upper (k + 1) ((List.range' i k).map (fun j => lower + startOf bs j))
        ((rawOf bs).length - i * metaBlockSize) = .ok ((rawOf bs).drop (i * metaBlockSize)) := by
  intro k
  induction k with
  | zero =>
    intro i hi
    have hle := rawOf_length_le cmp bs hok
    have : (rawOf bs).length - i * metaBlockSize = 0 := by simp at hi; subst hi; omega
    rw [this]
    simp only [readTableGo, if_true]
    rw [List.drop_eq_nil_of_le (by simp at hi; subst hi; omega)]
  | succ k ih =>
    intro i hi
    have hilt : i < bs.length := by omega
    have hgt := rawOf_gt cmp bs hok hfull i hilt
    unfold readTableGo
    have hne : ¬ ((rawOf bs).length - i * metaBlockSize = 0) := by omega
    simp only [hne, if_false, List.range'_succ, List.map_cons]
    have hst := startOf_lt bs i hilt
    have hw : ¬ (lower + startOf bs i < lower ∨ lower + startOf bs i ≥ upper) := by omega
    simp only [hw, if_false, hwin, Nat.add_sub_cancel_left]
    have href : refOfPos bs (i * metaBlockSize) = (startOf bs i, 0) := by
      simp [refOfPos, Nat.mul_div_cancel _ (show 0 < metaBlockSize by decide)]
    have hrd := metaReadAt_refOfPos hc bs hok hfull (i * metaBlockSize)
      (min metaBlockSize ((rawOf bs).length - i * metaBlockSize)) hgt (by omega)
    rw [href] at hrd
    simp only at hrd
    rw [hrd]
    have hrest := ih (i + 1) (by omega)
    have hsz : (rawOf bs).length - i * metaBlockSize - min metaBlockSize ((rawOf bs).length - i * metaBlockSize)
        = (rawOf bs).length - (i + 1) * metaBlockSize := by rw [Nat.add_mul]; omega
    rw [hsz, hrest]
    simp only
    congr 1
    by_cases hfullblk : metaBlockSize ≤ (rawOf bs).length - i * metaBlockSize
    · rw [Nat.min_eq_left hfullblk, Nat.add_mul, Nat.one_mul, ← List.drop_drop]
      exact List.take_append_drop _ _
    · rw [Nat.min_eq_right (by omega)]
      have hmul : (i + 1) * metaBlockSize = i * metaBlockSize + metaBlockSize := by rw [Nat.add_mul, Nat.one_mul]
      have hnil : (rawOf bs).drop ((i + 1) * metaBlockSize) = [] := List.drop_eq_nil_of_le (by rw [hmul]; omega)
      rw [hnil, List.append_nil, List.take_of_length_le (by simp only [List.length_drop]; omega)]

/-- number of blocks = number of locations `sqfs_read_table` expects -/
theorem blocks_count (cmp : Codec) (bs : List Block) (hok : BlocksOk cmp bs) (hfull : FullButLast bs) :
    bs.length = tableBlockCount (rawOf bs).length := by
  have h8 : metaBlockSize = 8192 := rfl
  unfold tableBlockCount
  cases hbs : bs.length with
  | zero =>
    have : bs = [] := List.eq_nil_of_length_eq_zero hbs
    subst this; simp [rawOf]
  | succ m =>
    have h1 := rawOf_gt cmp bs hok hfull m (by omega)
    have h2 := rawOf_length_le cmp bs hok
    rw [hbs] at h2
    rw [h8] at h1 h2 ⊢
    split <;> omega

/-- **Table round trip**: `sqfs_read_table` returns the bytes `sqfs_write_table` was given — any size (0, exact
multiples of 8 KiB, …), any codec meeting the contract, wherever in the file the table is put. -/
theorem readTableAt_writeTableAt {cmp : Codec} {unc : Unc} (hc : CodecOk cmp unc) (file data : Bytes)
    (hsz : (writeTableAt cmp file data).1.length < 2 ^ 64) :
    readTableAt unc (writeTableAt cmp file data).1 data.length (writeTableAt cmp file data).2 file.length
      (writeTableAt cmp file data).2 = .ok data := by
  have h8 : metaBlockSize = 8192 := rfl
  unfold writeTableAt Sqfs.MetaWriter.writeTable at hsz ⊢
  simp only at hsz ⊢
  obtain ⟨hok, hraw⟩ := run_blocksOk cmp (chunksOf (data.length + 1) data)
  have hfull := run_full cmp (chunksOf (data.length + 1) data)
  rw [chunksOf_flatten _ _ (by omega)] at hraw
  generalize (run cmp (chunksOf (data.length + 1) data)).out = bs at hok hraw hfull hsz ⊢
  have hlocs := locs_fold bs [] 0
  simp only [List.nil_append, Nat.zero_add] at hlocs
  rw [hlocs] at hsz ⊢
  have hcount := blocks_count cmp bs hok hfull
  rw [hraw] at hcount
  unfold readTableAt
  simp only
  have hdrop : (file ++ encBlocks bs ++ encWords 8 (((List.range bs.length).map (fun i => startOf bs i)).map (· + file.length))).drop
      (file.length + (encBlocks bs).length)
      = encWords 8 (((List.range bs.length).map (fun i => startOf bs i)).map (· + file.length)) := by
    rw [← List.length_append, List.drop_left]
  rw [hdrop, ← hcount]
  have hl : (((List.range bs.length).map (fun i => startOf bs i)).map (· + file.length)).length = bs.length := by simp
  have ht := take?_append' (encWords 8 (((List.range bs.length).map (fun i => startOf bs i)).map (· + file.length))) []
    (n := 8 * bs.length) (by rw [encWords_length, hl])
  rw [List.append_nil] at ht
  rw [ht]
  simp only
  have hdec := decWords_encWords 8 (((List.range bs.length).map (fun i => startOf bs i)).map (· + file.length)) [] (by
    intro v hv
    simp only [List.mem_map, List.mem_range] at hv
    obtain ⟨a, ⟨i, hi, rfl⟩, rfl⟩ := hv
    have := startOf_lt bs i hi
    simp only [List.length_append] at hsz
    have e : (256 : Nat) ^ 8 = 2 ^ 64 := by decide
    rw [e]; omega)
  rw [hl, List.append_nil] at hdec
  rw [hdec]
  have hwin : ((file ++ encBlocks bs ++ encWords 8 (((List.range bs.length).map (fun i => startOf bs i)).map (· + file.length))).take
      (file.length + (encBlocks bs).length)).drop file.length = encBlocks bs := by
    rw [← List.length_append, List.take_left, List.drop_left]
  have hgo := readTableGo_spec hc bs hok hfull _ file.length (file.length + (encBlocks bs).length) hwin rfl bs.length 0 (by omega)
  simp only [Nat.zero_mul, Nat.sub_zero, List.drop_zero, hraw] at hgo
  rw [← hgo]
  congr 1
  rw [List.range_eq_range']
  simp only [List.map_map]
  apply List.map_congr_left
  intro i _
  simp only [Function.comp]; omega

end Sqfs.Enc
