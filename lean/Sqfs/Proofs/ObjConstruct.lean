import Sqfs.Proofs.ObjCopy
/-! The constructors of `Sqfs.Model.Obj` build balanced heaps. -/
namespace Sqfs.Obj

theorem Balanced.empty : Balanced Heap.empty (fun _ => 0) := by
  refine ⟨rfl, ?_, ?_, ?_, ?_, ?_, ?_⟩
  · intro x ox hx; simp [Heap.empty] at hx
  · intro x hx; simp [Heap.empty] at hx
  · intro x _; exact ⟨rfl, rfl, rfl⟩
  · intro b hb; simp [Heap.empty] at hb
  · intro b _; exact ⟨rfl, rfl⟩
  · intro b hb; simp [Heap.empty] at hb

/-- `newObj` publishes an object whose slots are what the constructor holds; the constructor then holds the object -/
theorem Bal.newObj {h : Heap} {U : Nat → Nat} {P PB : List Nat} (k : Kind) (bufs views refs : List (Option Nat))
    (hb : Bal h U (refs.filterMap id ++ P) (bufs.filterMap id ++ PB) [])
    (hr : ∀ r, some r ∈ refs → r < h.nobj) (hv : ∀ v, some v ∈ views → some v ∈ bufs) :
    Bal (newObj h k bufs views refs).1 U ((newObj h k bufs views refs).2 :: P) PB [] :=
  Bal.allocObj (c := ⟨k, 1, true, true, bufs, views, refs⟩) hb rfl rfl rfl hr hv

theorem Bal.newBuf {h : Heap} {U : Nat → Nat} {P PB : List Nat} (hb : Bal h U P PB []) (bf : Buf) :
    Bal (newBuf h bf).1 U P ((newBuf h bf).2 :: PB) [] :=
  hb.allocBuf bf

theorem newObj_live {h : Heap} (k : Kind) (bufs views refs : List (Option Nat)) {x : Nat} (hx : (h.objs x).isSome) :
    ((newObj h k bufs views refs).1.objs x).isSome := by
  unfold newObj
  by_cases hxn : x = h.nobj
  · subst hxn; simp
  · simpa [upd, hxn] using hx

theorem grab_live {h : Heap} {U : Nat → Nat} {P PB : List Nat} (hb : Bal h U P PB []) {y x : Nat} (hy : (h.objs y).isSome)
    (hx : (h.objs x).isSome) : ((grab h y).objs x).isSome := by
  obtain ⟨oy, hoy⟩ := Option.isSome_iff_exists.mp hy
  rw [grab_eq hb.ok hoy]
  by_cases hxy : x = y
  · subst hxy; simp
  · simpa [upd, hxy] using hx

theorem newBuf_objs (h : Heap) (bf : Buf) : (newBuf h bf).1.objs = h.objs := rfl
theorem newBuf_nobj (h : Heap) (bf : Buf) : (newBuf h bf).1.nobj = h.nobj := rfl

/-- `sqfs_meta_reader_create` -/
theorem Bal.newMetaReader {h : Heap} {U : Nat → Nat} {P PB : List Nat} (hb : Bal h U P PB []) {file cmp : Nat}
    (hf : (h.objs file).isSome) (hc : (h.objs cmp).isSome) :
    Bal (newMetaReader h file cmp).1 U ((newMetaReader h file cmp).2 :: P) PB [] ∧
    (∀ x, (h.objs x).isSome → ((newMetaReader h file cmp).1.objs x).isSome) := by
  obtain ⟨of, hof⟩ := Option.isSome_iff_exists.mp hf
  have b1 := hb.grabbed hof (by simp)
  have hc1 := grab_live hb hf hc
  obtain ⟨oc, hoc⟩ := Option.isSome_iff_exists.mp hc1
  have b2 := b1.grabbed hoc (by simp)
  have hf2 := grab_live b1 hc1 (grab_live hb hf hf)
  have hc2 := grab_live b1 hc1 hc1
  have b3 := b2.newBuf fieldsBuf
  constructor
  · show Bal (Sqfs.Obj.newObj (Sqfs.Obj.newBuf (grab (grab h file) cmp) fieldsBuf).1 .metaReader [some (Sqfs.Obj.newBuf (grab (grab h file) cmp) fieldsBuf).2] []
        [some file, some cmp]).1 U ((Sqfs.Obj.newObj (Sqfs.Obj.newBuf (grab (grab h file) cmp) fieldsBuf).1 .metaReader
        [some (Sqfs.Obj.newBuf (grab (grab h file) cmp) fieldsBuf).2] [] [some file, some cmp]).2 :: P) PB []
    apply Bal.newObj
    · apply b3.perm
      · intro x; simp only [List.filterMap_cons, id, List.filterMap_nil, List.nil_append, List.cons_append, List.count_cons]; omega
      · intro _; rfl
    · intro r hr
      simp only [List.mem_cons, Option.some.injEq, List.not_mem_nil, or_false] at hr
      rcases hr with hr | hr
      · subst hr; exact b2.bound r hf2
      · subst hr; exact b2.bound r hc2
    · intro v hv; simp at hv
  · intro x hx
    show ((Sqfs.Obj.newObj (Sqfs.Obj.newBuf (grab (grab h file) cmp) fieldsBuf).1 .metaReader [some (Sqfs.Obj.newBuf (grab (grab h file) cmp) fieldsBuf).2] []
        [some file, some cmp]).1.objs x).isSome
    exact newObj_live _ _ _ _ (by rw [newBuf_objs]; exact grab_live b1 hc1 (grab_live hb hf hx))

/-- an object whose only slots are freshly allocated buffers (compressors, files) -/
theorem Bal.newLeaf1 {h : Heap} {U : Nat → Nat} {P PB : List Nat} (hb : Bal h U P PB []) (k : Kind) (b1 : Buf) :
    Bal (Sqfs.Obj.newObj (Sqfs.Obj.newBuf h b1).1 k [some (Sqfs.Obj.newBuf h b1).2] [] []).1 U ((Sqfs.Obj.newObj (Sqfs.Obj.newBuf h b1).1 k [some (Sqfs.Obj.newBuf h b1).2] [] []).2 :: P) PB [] :=
  Bal.newObj k _ [] [] (hb.newBuf b1) (by simp) (by simp)

theorem Bal.newLeaf2 {h : Heap} {U : Nat → Nat} {P PB : List Nat} (hb : Bal h U P PB []) (k : Kind) (b1 b2 : Buf) :
    Bal (Sqfs.Obj.newObj (Sqfs.Obj.newBuf (Sqfs.Obj.newBuf h b1).1 b2).1 k [some (Sqfs.Obj.newBuf h b1).2, some (Sqfs.Obj.newBuf (Sqfs.Obj.newBuf h b1).1 b2).2] [] []).1 U
      ((Sqfs.Obj.newObj (Sqfs.Obj.newBuf (Sqfs.Obj.newBuf h b1).1 b2).1 k [some (Sqfs.Obj.newBuf h b1).2, some (Sqfs.Obj.newBuf (Sqfs.Obj.newBuf h b1).1 b2).2] [] []).2 :: P) PB [] := by
  refine Bal.newObj k _ [] [] ?_ (by simp) (by simp)
  apply ((hb.newBuf b1).newBuf b2).perm
  · intro _; rfl
  · intro x; simp only [List.filterMap_cons, id, List.filterMap_nil, List.nil_append, List.cons_append, List.count_cons]; omega

/-- **every constructor keeps the heap balanced**; the caller holds the one reference to the new object -/
theorem construct_bal (k : Kind) {h : Heap} {U : Nat → Nat} {P PB : List Nat} (hb : Bal h U P PB []) {file cmp : Nat}
    (hf : (h.objs file).isSome) (hc : (h.objs cmp).isSome) :
    Bal (construct h k file cmp).1 U ((construct h k file cmp).2 :: P) PB [] := by
  have tbl : ∀ k', Bal (newObj h k' [none] [] []).1 U ((newObj h k' [none] [] []).2 :: P) PB [] := fun k' =>
    Bal.newObj k' [none] [] [] (by simpa using hb) (by simp) (by simp)
  cases k with
  | gzip => exact hb.newLeaf2 _ _ _
  | zstd => exact hb.newLeaf2 _ _ _
  | xz => exact hb.newLeaf1 _ _
  | lzma => exact hb.newLeaf1 _ _
  | lz4 => exact hb.newLeaf1 _ _
  | file => exact hb.newLeaf2 _ _ _
  | fragTable => exact tbl _
  | idTable => exact tbl _
  | metaReader => exact (hb.newMetaReader hf hc).1
  | xattrReader =>
    have b1 := hb.newBuf fieldsBuf
    exact Bal.newObj .xattrReader [none, some (newBuf h fieldsBuf).2] [] [none, none] b1 (by simp) (by simp)
  | dirReader =>
    obtain ⟨b1, l1⟩ := hb.newMetaReader hf hc
    obtain ⟨b2, l2⟩ := b1.newMetaReader (l1 _ hf) (l1 _ hc)
    have b3 := b2.newBuf fieldsBuf
    refine Bal.newObj .dirReader [none, some (newBuf (newMetaReader (newMetaReader h file cmp).1 file cmp).1 fieldsBuf).2] []
      [some (newMetaReader h file cmp).2, some (newMetaReader (newMetaReader h file cmp).1 file cmp).2] ?_ ?_ (by simp)
    · apply b3.perm
      · intro x; simp only [List.filterMap_cons, id, List.filterMap_nil, List.nil_append, List.cons_append, List.count_cons]; omega
      · intro x; simp only [List.filterMap_cons, id, List.filterMap_nil, List.nil_append, List.cons_append, List.count_cons]
    · intro r hr
      simp only [List.mem_cons, Option.some.injEq, List.not_mem_nil, or_false] at hr
      rcases hr with hr | hr
      · subst hr
        obtain ⟨o1, ho1, _⟩ := b1.mem_live List.mem_cons_self
        exact b2.bound _ (l2 _ (by simp [ho1]))
      · subst hr
        obtain ⟨o2, ho2, _⟩ := b2.mem_live List.mem_cons_self
        exact b2.bound _ (by simp [ho2])
  | dataReader =>
    have b1 := Bal.newObj (h := h) (P := P) (PB := PB) .fragTable [none] [] [] (by simpa using hb) (by simp) (by simp)
    have hf1 := newObj_live .fragTable [none] [] [] hf
    have hc1 := newObj_live .fragTable [none] [] [] hc
    obtain ⟨of, hof⟩ := Option.isSome_iff_exists.mp hf1
    have b2 := b1.grabbed hof (by simp)
    have hc2 := grab_live b1 hf1 hc1
    obtain ⟨oc, hoc⟩ := Option.isSome_iff_exists.mp hc2
    have b3 := b2.grabbed hoc (by simp)
    obtain ⟨oft, hoft, _⟩ := b1.mem_live List.mem_cons_self
    have hft3 := grab_live b2 hc2 (grab_live b1 hf1 (by rw [hoft]; rfl))
    have hf3 := grab_live b2 hc2 (grab_live b1 hf1 hf1)
    have hc3 := grab_live b2 hc2 hc2
    have b4 := b3.newBuf fieldsBuf
    refine Bal.newObj .dataReader [none, none, some (newBuf (grab (grab (newObj h .fragTable [none] [] []).1 file) cmp) fieldsBuf).2] []
      [some (newObj h .fragTable [none] [] []).2, some file, some cmp] ?_ ?_ (by simp)
    · apply b4.perm
      · intro x; simp only [List.filterMap_cons, id, List.filterMap_nil, List.nil_append, List.cons_append, List.count_cons]; omega
      · intro x; simp only [List.filterMap_cons, id, List.filterMap_nil, List.nil_append, List.cons_append, List.count_cons]
    · intro r hr
      simp only [List.mem_cons, Option.some.injEq, List.not_mem_nil, or_false] at hr
      rcases hr with hr | hr | hr
      · subst hr; exact b3.bound _ hft3
      · subst hr; exact b3.bound _ hf3
      · subst hr; exact b3.bound _ hc3
  | xattrWriter =>
    have b1 := hb.newBuf ⟨8, 0, 0⟩
    have b2 := b1.newBuf ⟨1, 1, 0⟩
    refine Bal.newObj .xattrWriter [none, none, some (newBuf h ⟨8, 0, 0⟩).2, none, some (newBuf (newBuf h ⟨8, 0, 0⟩).1 ⟨1, 1, 0⟩).2]
      [none, none, some (newBuf (newBuf h ⟨8, 0, 0⟩).1 ⟨1, 1, 0⟩).2] [] ?_ (by simp) ?_
    · apply b2.perm
      · intro _; rfl
      · intro x; simp only [List.filterMap_cons, id, List.filterMap_nil, List.nil_append, List.cons_append, List.count_cons]; omega
    · intro v hv
      simp only [List.mem_cons, reduceCtorEq, Option.some.injEq, List.not_mem_nil, or_false, false_or] at hv
      subst hv; simp

end Sqfs.Obj
