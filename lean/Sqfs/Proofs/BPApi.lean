/-
C02 helper lemmas, part 10: the API calls (`begin_file`, `append`, `end_file`, `finish`) keep the invariant and submit
exactly the blocks the pure front end of the reference produces.
-/
import Sqfs.Proofs.BPLoop
namespace Sqfs.BlockProc
open Sqfs.Consts
open Sqfs.BlockWriter (hasFlag)

/-- the front end hands a block to `enqueue_block` -/
theorem PInv.submit {P : Params} (hP : P.ans = serialAns) {s : Proc} {g : Ghost} {W : WSt} {held : Nat} (x : Blk)
    (hb : Back P s g (g.F P) W) (hacct : Acct s g (boolNat s.blkCurrent.isSome + held + 1))
    (hfe : FrontInv P.B s.fe (g.front ++ [x]) s.w.inodes.length) (hfin : g.fin = false) :
    ∃ s', enqueueBlock P s x = .ok s' ∧ s'.fe = s.fe ∧ s'.w.inodes.length = s.w.inodes.length ∧ s'.maxBacklog = s.maxBacklog ∧
      PInv P s' { g with front := g.front ++ [x], pend := g.pend ++ [processBlock P x], items := g.items ++ [processBlock P x] } held W := by
  have hx : ItemOK P.B s.w.inodes.length x := hfe.items x (List.mem_append_right _ List.mem_cons_self)
  obtain ⟨p', he, hb'⟩ := hb.enqueueFront hP x hx hfe.proto
  refine ⟨_, he, rfl, rfl, rfl, ?_⟩
  refine PInv.intro (g.F P) (Ghost.F_congr P rfl rfl) hb' ?_ hfe ?_
  · exact Acct.enqueue hacct p' _ _ _
  · intro hf; rw [hfin] at hf; cases hf

/-- every inode update applied so far addresses an existing inode -/
theorem Back.h_ids {P : Params} (hc : CodecOk P.codec) {s : Proc} {g : Ghost} {F : FSt} {W : WSt} (h : Back P s g F W) :
    ∀ e ∈ g.h, e.id < s.w.inodes.length := by
  intro e he
  rcases (h.mergeH.mem e).mp he with he | he
  · exact (h.feIds e he).1
  · rcases (h.mergeM.mem e).mp he with he | he
    · exact h.finv.effIds e he
    · obtain ⟨y, hy, hyfb, hyi⟩ := h.winv.effIds e he
      obtain ⟨x, hx, _, hyx⟩ := h.finv.datas y (List.mem_of_mem_take hy) hyfb
      obtain ⟨id, h1, h2⟩ := (h.itemOK_of_mem hc (List.mem_append_left _ hx)).ino
      rw [hyx] at hyi
      simp only [Blk.withSeq_inode] at hyi
      rw [h1] at hyi
      cases hyi
      exact h2

/-! ### `begin_file` -/

theorem beginFile_ok {P : Params} (hc : CodecOk P.codec) {s : Proc} {g : Ghost} {W : WSt} (h : PInv P s g 0 W)
    (hbc : s.beginCalled = false) (flags : Nat) (hfl : flags &&& blkUserSettable = flags) :
    ∃ s', beginFile s flags = .ok s' ∧ PInv P s' g 0 W ∧ s'.fe = feBegin s.fe s.w.inodes.length flags ∧
      s'.w.inodes.length = s.w.inodes.length + 1 ∧ s'.maxBacklog = s.maxBacklog := by
  have hne : ¬ (flags &&& blkUserSettable != flags) = true := by simp [hfl]
  refine ⟨{ s with w := { s.w with inodes := s.w.inodes ++ [{}] }, beginCalled := true, inode := some s.w.inodes.length, blkFlags := flags ||| blkFirstBlock, blkIndex := 0 }, by unfold beginFile; rw [if_neg (by simp [hbc]), if_neg hne], ?_, ?_, by simp, rfl⟩
  · have hlen : (s.w.inodes ++ [({} : Inode)]).length = s.w.inodes.length + 1 := by simp
    have hb := h.back
    refine PInv.intro (g.F P) rfl ?_ ?_ ?_ h.finNoPend
    · refine { hb with itemsOK := ?_, finv := ?_, inodes := ?_, feIds := ?_ }
      · intro x hx
        simp only [hlen]
        exact (hb.itemsOK x hx).mono (Nat.le_succ _)
      · simp only [hlen]; exact hb.finv.mono (Nat.le_succ _)
      · simp only [hlen]
        rw [replicate_succ_snoc, applyEffs_snoc _ _ _ (by simpa using hb.h_ids hc), ← hb.inodes]
      · intro e he
        simp only [hlen]
        obtain ⟨a, b⟩ := hb.feIds e he
        exact ⟨Nat.lt_succ_of_lt a, b⟩
    · have := h.acct
      unfold Acct at *
      exact this
    · have hfi := h.feInv.begin (by simpa [Proc.fe] using hbc) flags hfl
      simpa [Proc.fe, feBegin] using hfi
  · simp [Proc.fe, feBegin]

end Sqfs.BlockProc
