/-
C02 helper lemmas, part 10: the API calls (`begin_file`, `append`, `end_file`, `finish`) keep the invariant and submit
exactly the blocks the pure front end of the reference produces.
-/
import Sqfs.Proofs.BPLoop
namespace Sqfs.BlockProc
open Sqfs.Consts
open Sqfs.BlockWriter (hasFlag)

/-- the front end hands a block to `enqueue_block` -/
theorem PInv.submit {P : Params} (hP : P.ans = serialAns) {s : Proc} {g : Ghost} {W : WSt} {held : Nat} (x : Blk)
    (hb : Back P s g (g.F P) W) (hacct : Acct s g (boolNat s.blkCurrent.isSome + held + 1))
    (hx : ItemOK P.B s.w.inodes.length x) (hfp : fproto false (g.front ++ [x]) = true) (hfin : g.fin = false) :
    ∃ s', enqueueBlock P s x = .ok s' ∧ s'.fe = s.fe ∧ s'.w.inodes.length = s.w.inodes.length ∧ s'.maxBacklog = s.maxBacklog ∧
      PInv P s' { g with front := g.front ++ [x], pend := g.pend ++ [processBlock P x], items := g.items ++ [processBlock P x] } held W := by
  obtain ⟨p', he, hb'⟩ := hb.enqueueFront hP x hx hfp
  refine ⟨_, he, rfl, rfl, rfl, ?_⟩
  refine PInv.intro (g.F P) (Ghost.F_congr P rfl rfl) hb' ?_ ?_
  · exact Acct.enqueue hacct p' _ _ _
  · intro hf; rw [hfin] at hf; cases hf

/-- every inode update applied so far addresses an existing inode -/
theorem Back.h_ids {P : Params} (hc : CodecOk P.codec) {s : Proc} {g : Ghost} {F : FSt} {W : WSt} (h : Back P s g F W) :
    ∀ e ∈ g.h, e.id < s.w.inodes.length := by
  intro e he
  rcases (h.mergeH.mem e).mp he with he | he
  · exact (h.feIds e he).1
  · rcases (h.mergeM.mem e).mp he with he | he
    · exact h.finv.effIds e he
    · obtain ⟨y, hy, hyfb, hyi⟩ := h.winv.effIds e he
      obtain ⟨x, hx, _, hyx⟩ := h.finv.datas y (List.mem_of_mem_take hy) hyfb
      obtain ⟨id, h1, h2⟩ := (h.itemOK_of_mem hc (List.mem_append_left _ hx)).ino
      rw [hyx] at hyi
      simp only [Blk.withSeq_inode] at hyi
      rw [h1] at hyi
      cases hyi
      exact h2

/-! ### `begin_file` -/

theorem beginFile_ok {P : Params} (hc : CodecOk P.codec) {s : Proc} {g : Ghost} {W : WSt} (h : PInv P s g 0 W)
    (hfe : FrontInv P.B s.fe g.front s.w.inodes.length)
    (hbc : s.beginCalled = false) (flags : Nat) (hfl : flags &&& blkUserSettable = flags) :
    ∃ s', beginFile s flags = .ok s' ∧ PInv P s' g 0 W ∧ FrontInv P.B s'.fe g.front s'.w.inodes.length ∧
      s'.fe = feBegin s.fe s.w.inodes.length flags ∧
      s'.w.inodes.length = s.w.inodes.length + 1 ∧ s'.maxBacklog = s.maxBacklog := by
  have hne : ¬ (flags &&& blkUserSettable != flags) = true := by simp [hfl]
  refine ⟨{ s with w := { s.w with inodes := s.w.inodes ++ [{}] }, beginCalled := true, inode := some s.w.inodes.length, blkFlags := flags ||| blkFirstBlock, blkIndex := 0 }, by unfold beginFile; rw [if_neg (by simp [hbc]), if_neg hne], ?_, ?_, ?_, by simp, rfl⟩
  · have hlen : (s.w.inodes ++ [({} : Inode)]).length = s.w.inodes.length + 1 := by simp
    have hb := h.back
    refine PInv.intro (g.F P) rfl ?_ ?_ h.finNoPend
    · refine { hb with itemsOK := ?_, finv := ?_, inodes := ?_, feIds := ?_ }
      · intro x hx
        simp only [hlen]
        exact (hb.itemsOK x hx).mono (Nat.le_succ _)
      · simp only [hlen]; exact hb.finv.mono (Nat.le_succ _)
      · simp only [hlen]
        rw [replicate_succ_snoc, applyEffs_snoc _ _ _ (by simpa using hb.h_ids hc), ← hb.inodes]
      · intro e he
        simp only [hlen]
        obtain ⟨a, b⟩ := hb.feIds e he
        exact ⟨Nat.lt_succ_of_lt a, b⟩
    · have := h.acct
      unfold Acct at *
      exact this
  · have hfi := hfe.begin (by simpa [Proc.fe] using hbc) flags hfl
    simpa [Proc.fe, feBegin] using hfi
  · simp [Proc.fe, feBegin]

/-! ### `append` -/

/-- termination measure of the append loop: 3 · bytes left, plus 1 when a block has to be obtained, plus 2 when the open
block is full -/
def curRank (cur : Option Blk) (B : Nat) : Nat :=
  match cur with
  | none => 1
  | some c => if c.data.length = B then 2 else 0

theorem PInv.setFront {P : Params} {s s' : Proc} {g : Ghost} {held held' : Nat} {W : WSt} (h : PInv P s g held W)
    (hbe : Back P s g (g.F P) W → Back P s' g (g.F P) W)
    (hacct : Acct s' g (boolNat s'.blkCurrent.isSome + held')) : PInv P s' g held' W :=
  ⟨hbe h.back, hacct, h.finNoPend⟩

theorem appendGo_ok {P : Params} (hP : P.ans = serialAns) (hc : CodecOk P.codec) (hB : P.B < 2 ^ 24) (hBpos : 0 < P.B) :
    ∀ (fuel : Nat) (s : Proc) (data : Bytes) (g : Ghost) (W : WSt),
      PInv P s g 0 W → FrontInv P.B s.fe g.front s.w.inodes.length → s.beginCalled = true → g.fin = false →
      (data ≠ [] ∨ s.blkCurrent.isSome = true) →
      (data ≠ [] ∨ ∀ c, s.blkCurrent = some c → c.data ≠ []) →
      3 * data.length + curRank s.blkCurrent P.B < fuel →
      ∃ s' g' W' em, appendGo P fuel s data = .ok s' ∧ feAppendGo P.B fuel s.fe data = some (s'.fe, em) ∧
        g'.front = g.front ++ em ∧ PInv P s' g' 0 W' ∧ FrontInv P.B s'.fe g'.front s'.w.inodes.length ∧
        g'.fe = g.fe ∧ g'.fin = false ∧
        s'.w.inodes.length = s.w.inodes.length ∧ s'.maxBacklog = s.maxBacklog ∧
        (∀ c, s'.blkCurrent = some c → c.data ≠ []) := by
  intro fuel
  induction fuel with
  | zero => intro s data g W _ _ _ _ _ _ hf; omega
  | succ fuel ih =>
    intro s data g W h hfe0 hbc hfin hpre hne hf
    have hbc' : s.fe.beginCalled = true := hbc
    unfold appendGo feAppendGo
    by_cases hd0 : data.length = 0
    · -- the loop is left
      have hdnil : data = [] := List.eq_nil_of_length_eq_zero hd0
      rw [if_pos hd0, if_pos hd0]
      cases hcur : s.blkCurrent with
      | none => rcases hpre with hp | hp
                · exact absurd hdnil hp
                · rw [hcur] at hp; cases hp
      | some c =>
        have hcne : c.data ≠ [] := by
          rcases hne with hp | hp
          · exact absurd hdnil hp
          · exact hp c hcur
        have hfec : s.fe.blkCurrent = some c := hcur
        simp only [hfec]
        by_cases hfull : c.data.length = P.B
        · rw [if_pos hfull, if_pos hfull]
          have hfi := hfe0.emit hbc' c hfec hcne
          have hacct : Acct { s with blkCurrent := none } g (boolNat ({ s with blkCurrent := none } : Proc).blkCurrent.isSome + 0 + 1) := by
            have := h.acct
            unfold Acct at *
            simp only [hcur, Option.isSome_some, Option.isSome_none, boolNat] at this ⊢
            simpa using this
          obtain ⟨s', he, hfe', hil, hmb, hinv'⟩ := PInv.submit hP (s := { s with blkCurrent := none }) (held := 0) c { h.back with } hacct
            (hfi.items c (List.mem_append_right _ List.mem_cons_self)) hfi.proto hfin
          refine ⟨s', _, W, [c], he, ?_, rfl, hinv', ?_, rfl, hfin, hil, hmb, ?_⟩
          · rw [hfe']; rfl
          · rw [hfe', hil]; exact hfi
          · intro c' hc'
            have : s'.fe.blkCurrent = none := by rw [hfe']; rfl
            have h2 : s'.blkCurrent = none := this
            rw [h2] at hc'; cases hc'
        · rw [if_neg hfull, if_neg hfull]
          refine ⟨s, g, W, [], rfl, rfl, by simp, h, by simpa using hfe0, rfl, hfin, rfl, rfl, ?_⟩
          intro c' hc'
          rw [hcur] at hc'; cases hc'; exact hcne
    · -- bytes left
      have hdne : data ≠ [] := fun he => hd0 (by simp [he])
      rw [if_neg hd0, if_neg hd0]
      cases hcur : s.blkCurrent with
      | none =>
        have hfec : s.fe.blkCurrent = none := hcur
        simp only [hfec]
        -- a new block
        obtain ⟨s1, g1, W1, hg, h1, fr1⟩ := getNewBlock_ok hP hc hB h
        rw [hg]
        simp only
        have hcur1 : s1.blkCurrent = none := by rw [blkCurrent_of_fe fr1.fe]; exact hcur
        have hbc1 : s1.beginCalled = true := by
          have := congrArg Front.beginCalled fr1.fe
          simp only [Proc.fe] at this; rw [this]; exact hbc
        have hfi1 : FrontInv P.B s1.fe g1.front s1.w.inodes.length := by
          rw [fr1.fe, fr1.front, fr1.inodes]; exact hfe0
        have hfin1 : g1.fin = false := by rw [fr1.fin]; exact hfin
        have h2 : PInv P { s1 with blkCurrent := some { flags := s1.blkFlags, inode := s1.inode, index := s1.blkIndex },
                                   blkIndex := s1.blkIndex + 1, blkFlags := clearFlag s1.blkFlags blkFirstBlock } g1 0 W1 := by
          refine h1.setFront (fun hb => { hb with }) ?_
          have := h1.acct
          unfold Acct at *
          simp only [hcur1, Option.isSome_none, Option.isSome_some, boolNat] at this ⊢
          simpa using this
        have hm : 3 * data.length + curRank (some ({ flags := s1.blkFlags, inode := s1.inode, index := s1.blkIndex } : Blk)) P.B < fuel := by
          have : curRank s.blkCurrent P.B = 1 := by rw [hcur]; rfl
          have e : curRank (some ({ flags := s1.blkFlags, inode := s1.inode, index := s1.blkIndex } : Blk)) P.B = 0 := by
            simp only [curRank]
            rw [if_neg]
            simp; omega
          omega
        obtain ⟨s', g', W', em, ha, hfa, hfront, hinv', hfe', hgfe, hgfin, hil, hmb, hcne'⟩ :=
          ih _ data g1 W1 h2 (hfi1.newBlock hbc1 hcur1) hbc1 hfin1 (Or.inl hdne) (Or.inl hdne) hm
        refine ⟨s', g', W', em, ha, ?_, ?_, hinv', hfe', ?_, hgfin, ?_, ?_, hcne'⟩
        · rw [← hfa]
          have e := fr1.fe
          simp only [Proc.fe] at e ⊢
          simp only [Front.mk.injEq] at e
          obtain ⟨e1, e2, e3, e4, e5⟩ := e
          rw [e1, e2, e3, e4]
        · rw [hfront, fr1.front]
        · rw [hgfe, fr1.gfe]
        · rw [hil]; exact fr1.inodes
        · rw [hmb]; exact fr1.maxBacklog
      | some c =>
        have hfec : s.fe.blkCurrent = some c := hcur
        simp only [hfec]
        obtain ⟨id, hbz⟩ := hfe0.busy hbc'
        have hcle : c.data.length ≤ P.B := (hbz.cur c hfec).2.2.1
        by_cases hdiff : P.B - c.data.length = 0
        · -- the open block is full: submit it
          rw [if_pos hdiff, if_pos hdiff]
          have hfull : c.data.length = P.B := by omega
          have hcne : c.data ≠ [] := fun he => by simp [he] at hfull; omega
          have hfi := hfe0.emit hbc' c hfec hcne
          have hacct : Acct { s with blkCurrent := none } g (boolNat ({ s with blkCurrent := none } : Proc).blkCurrent.isSome + 0 + 1) := by
            have := h.acct
            unfold Acct at *
            simp only [hcur, Option.isSome_some, Option.isSome_none, boolNat] at this ⊢
            simpa using this
          obtain ⟨s1, he, hfe1, hil1, hmb1, hinv1⟩ := PInv.submit hP (s := { s with blkCurrent := none }) (held := 0) c { h.back with } hacct
            (hfi.items c (List.mem_append_right _ List.mem_cons_self)) hfi.proto hfin
          rw [he]
          simp only
          have hcur1 : s1.blkCurrent = none := by
            have : s1.fe.blkCurrent = none := by rw [hfe1]; rfl
            exact this
          have hbc1 : s1.beginCalled = true := by
            have : s1.fe.beginCalled = true := by rw [hfe1]; exact hbc
            exact this
          have hm : 3 * data.length + curRank s1.blkCurrent P.B < fuel := by
            have : curRank s.blkCurrent P.B = 2 := by rw [hcur]; simp [curRank, hfull]
            rw [hcur1]; simp only [curRank]; omega
          obtain ⟨s', g', W', em, ha, hfa, hfront, hinv', hfe', hgfe, hgfin, hil, hmb, hcne'⟩ :=
            ih s1 data _ W hinv1 (by rw [hfe1, hil1]; exact hfi) hbc1 hfin (Or.inl hdne) (Or.inl hdne) hm
          refine ⟨s', g', W', c :: em, ha, ?_, ?_, hinv', hfe', hgfe, hgfin, ?_, ?_, hcne'⟩
          · rw [hfe1] at hfa
            have : ({ s with blkCurrent := none } : Proc).fe = { s.fe with blkCurrent := none } := rfl
            rw [this] at hfa
            rw [hfa]
          · rw [hfront]; simp
          · rw [hil, hil1]
          · rw [hmb, hmb1]
        · -- copy bytes into the open block
          rw [if_neg hdiff, if_neg hdiff]
          have hn1 : 1 ≤ min (P.B - c.data.length) data.length := by
            have : 0 < data.length := Nat.pos_of_ne_zero hd0
            omega
          have hfi := hfe0.fill hbc' c hfec (data.take (min (P.B - c.data.length) data.length))
            (by simp only [List.length_take]; omega)
          have h2 : PInv P { s with blkCurrent := some { c with data := c.data ++ data.take (min (P.B - c.data.length) data.length) } } g 0 W := by
            refine h.setFront (fun hb => { hb with }) ?_
            have := h.acct
            unfold Acct at *
            simp only [hcur, Option.isSome_some] at this ⊢
            exact this
          have hm : 3 * (data.drop (min (P.B - c.data.length) data.length)).length +
              curRank (some ({ c with data := c.data ++ data.take (min (P.B - c.data.length) data.length) } : Blk)) P.B < fuel := by
            have hr : curRank (some ({ c with data := c.data ++ data.take (min (P.B - c.data.length) data.length) } : Blk)) P.B ≤ 2 := by
              simp only [curRank]; split <;> omega
            simp only [List.length_drop]
            omega
          obtain ⟨s', g', W', em, ha, hfa, hfront, hinv', hfe', hgfe, hgfin, hil, hmb, hcne'⟩ :=
            ih _ (data.drop (min (P.B - c.data.length) data.length)) g W h2 hfi hbc hfin (Or.inr rfl)
              (Or.inr (fun c' hc' => by
                simp only [Option.some.injEq] at hc'
                rw [← hc']
                intro he
                have := congrArg List.length he
                simp only [List.length_append, List.length_take, List.length_nil] at this
                omega)) hm
          exact ⟨s', g', W', em, ha, hfa, hfront, hinv', hfe', hgfe, hgfin, hil, hmb, hcne'⟩

/-- `append` adds to the file size -/
theorem Back.addSize {P : Params} {s : Proc} {g : Ghost} {F : FSt} {W : WSt} (h : Back P s g F W) (id n : Nat)
    (hid : id < s.w.inodes.length) :
    Back P { s with w := modInode s.w (some id) (InoEff.size n).app }
      { g with fe := g.fe ++ [⟨id, .size n⟩], h := g.h ++ [⟨id, .size n⟩] } F W := by
  have hlen : (modInode s.w (some id) (InoEff.size n).app).inodes.length = s.w.inodes.length := modInode_length _ _ _
  have e4 : (modInode s.w (some id) (InoEff.size n).app).inodes = applyEffs s.w.inodes (mkEff (some id) (.size n)) := by rw [modInode_eff]
  constructor
  · exact h.maxBacklog
  · exact h.pool
  · exact h.pend
  · exact h.worked
  · exact h.deqLe
  · exact h.queue
  · exact h.sorted
  · simp only [hlen]; exact h.itemsOK
  · exact h.fprotoOK
  · simp only [hlen]; exact h.finv
  · exact h.fragBlock
  · exact h.fragHt
  · exact h.ioSeq
  · exact h.wrun
  · exact h.winv
  · exact h.wr
  · exact h.calls
  · exact h.fragTbl
  · show (modInode s.w (some id) (InoEff.size n).app).inodes =
      applyEffs (List.replicate (modInode s.w (some id) (InoEff.size n).app).inodes.length {}) (g.h ++ [⟨id, .size n⟩])
    rw [hlen, e4, applyEffs_append, ← h.inodes]; rfl
  · exact h.mergeH.snoc_left _
  · exact h.mergeM
  · intro e he
    simp only [hlen]
    rcases List.mem_append.mp he with he | he
    · exact h.feIds e he
    · rw [List.mem_singleton] at he; subst he; exact ⟨hid, n, rfl⟩
  · exact h.inFlSub
  · exact h.inFlNodup
  · exact h.inFlAll
  · exact h.inFlNone
  · exact h.cache

theorem fe_inode {s : Proc} : s.fe.inode = s.inode := rfl
theorem fe_beginCalled {s : Proc} : s.fe.beginCalled = s.beginCalled := rfl
theorem fe_blkCurrent {s : Proc} : s.fe.blkCurrent = s.blkCurrent := rfl
theorem fe_blkFlags {s : Proc} : s.fe.blkFlags = s.blkFlags := rfl

/-- `sqfs_block_processor_append` with a non-empty buffer -/
theorem append_ok {P : Params} (hP : P.ans = serialAns) (hc : CodecOk P.codec) (hB : P.B < 2 ^ 24) (hBpos : 0 < P.B)
    {s : Proc} {g : Ghost} {W : WSt} (h : PInv P s g 0 W) (hfe : FrontInv P.B s.fe g.front s.w.inodes.length)
    (hbc : s.beginCalled = true) (hfin : g.fin = false) (data : Bytes) (hne : data ≠ []) :
    ∃ s' g' W' em id, append P s data = .ok s' ∧ feAppend P.B s.fe data = some (s'.fe, em) ∧ s.inode = some id ∧
      id + 1 = s.w.inodes.length ∧
      g'.front = g.front ++ em ∧ g'.fe = g.fe ++ [⟨id, .size data.length⟩] ∧ PInv P s' g' 0 W' ∧
      FrontInv P.B s'.fe g'.front s'.w.inodes.length ∧ g'.fin = false ∧
      s'.w.inodes.length = s.w.inodes.length ∧ s'.maxBacklog = s.maxBacklog ∧
      (∀ c, s'.blkCurrent = some c → c.data ≠ []) := by
  obtain ⟨id, hbz⟩ := hfe.busy hbc
  have hino : s.inode = some id := hbz.ino
  have hidn : id < s.w.inodes.length := by have := hbz.last; omega
  have hlen : (modInode s.w s.inode (fun i => { i with size := i.size + data.length })).inodes.length = s.w.inodes.length :=
    modInode_length _ _ _
  have hb0 := h.back.addSize id data.length hidn
  have e1 : (fun (i : Inode) => ({ i with size := i.size + data.length } : Inode)) = (InoEff.size data.length).app := rfl
  have h0 : PInv P { s with w := modInode s.w s.inode (fun i => { i with size := i.size + data.length }) }
      { g with fe := g.fe ++ [⟨id, .size data.length⟩], h := g.h ++ [⟨id, .size data.length⟩] } 0 W := by
    have e2 : modInode s.w s.inode (fun i => { i with size := i.size + data.length }) =
        modInode s.w (some id) (InoEff.size data.length).app := by rw [hino]; rfl
    rw [e2]
    refine PInv.intro (g.F P) (Ghost.F_congr P rfl rfl) hb0 ?_ h.finNoPend
    have := h.acct
    unfold Acct at *
    exact this
  have hfe0 : FrontInv P.B ({ s with w := modInode s.w s.inode (fun i => { i with size := i.size + data.length }) } : Proc).fe g.front
      ({ s with w := modInode s.w s.inode (fun i => { i with size := i.size + data.length }) } : Proc).w.inodes.length := by
    show FrontInv P.B s.fe g.front _
    rw [hlen]; exact hfe
  have hm : 3 * data.length + curRank s.blkCurrent P.B < 3 * data.length + 3 := by
    have : curRank s.blkCurrent P.B ≤ 2 := by unfold curRank; split <;> (try split) <;> omega
    omega
  obtain ⟨s', g', W', em, ha, hfa, hfront, hinv', hfe', hgfe, hgfin, hil, hmb, hcne'⟩ :=
    appendGo_ok hP hc hB hBpos _ _ data _ W h0 hfe0 hbc hfin (Or.inl hne) (Or.inl hne) hm
  refine ⟨s', g', W', em, id, ?_, hfa, hino, hbz.last, hfront, hgfe, hinv', hfe', hgfin, ?_, hmb, hcne'⟩
  · unfold append
    rw [if_neg (by simp [hbc])]
    exact ha
  · rw [hil]; exact hlen

/-- `add_sentinel_block` -/
theorem addSentinel_ok {P : Params} (hP : P.ans = serialAns) (hc : CodecOk P.codec) (hB : P.B < 2 ^ 24)
    {s : Proc} {g : Ghost} {W : WSt} (h : PInv P s g 0 W) (hfin : g.fin = false)
    (hx : ItemOK P.B s.w.inodes.length (feSentinel s.fe)) (hfp : fproto false (g.front ++ [feSentinel s.fe]) = true) :
    ∃ s' g' W', addSentinelBlock P s = .ok s' ∧ PInv P s' g' 0 W' ∧ s'.fe = s.fe ∧ g'.front = g.front ++ [feSentinel s.fe] ∧
      g'.fe = g.fe ∧ g'.fin = false ∧ s'.w.inodes.length = s.w.inodes.length ∧ s'.maxBacklog = s.maxBacklog := by
  obtain ⟨s1, g1, W1, hg, h1, fr1⟩ := getNewBlock_ok hP hc hB h
  have hsent : ({ inode := s1.inode, flags := s1.blkFlags ||| blkLastBlock } : Blk) = feSentinel s.fe := by
    have e := fr1.fe
    simp only [Proc.fe, Front.mk.injEq] at e
    obtain ⟨_, e2, e3, _, _⟩ := e
    simp only [feSentinel, Proc.fe, e2, e3]
  have hfin1 : g1.fin = false := by rw [fr1.fin]; exact hfin
  have hacct : Acct s1 g1 (boolNat s1.blkCurrent.isSome + 0 + 1) := h1.acct
  obtain ⟨s', he, hfe', hil, hmb, hinv'⟩ := PInv.submit hP (held := 0) (feSentinel s.fe) h1.back hacct
    (by rw [fr1.inodes]; exact hx) (by rw [fr1.front]; exact hfp) hfin1
  refine ⟨s', _, W1, ?_, hinv', hfe'.trans fr1.fe, ?_, fr1.gfe, hfin1, hil.trans fr1.inodes, hmb.trans fr1.maxBacklog⟩
  · unfold addSentinelBlock
    rw [hg]
    simp only
    rw [hsent]; exact he
  · simp only [fr1.front]

/-! ### `end_file` -/

theorem fproto_prefix {o : Bool} {a b : List Blk} (h : fproto o (a ++ b) = true) : fproto o a = true := by
  rw [fproto_append, Bool.and_eq_true] at h; exact h.1

/-- the reset at the end of `end_file` -/
theorem PInv.endReset {P : Params} {s : Proc} {g : Ghost} {W : WSt} (h : PInv P s g 0 W) :
    PInv P { s with beginCalled := false, inode := none, blkFlags := 0 } g 0 W :=
  h.setFront (fun hb => { hb with }) h.acct

theorem endFile_ok {P : Params} (hP : P.ans = serialAns) (hc : CodecOk P.codec) (hB : P.B < 2 ^ 24)
    {s : Proc} {g : Ghost} {W : WSt} (h : PInv P s g 0 W) (hfe : FrontInv P.B s.fe g.front s.w.inodes.length)
    (hbc : s.beginCalled = true) (hfin : g.fin = false) (hcne : ∀ c, s.blkCurrent = some c → c.data ≠ []) :
    ∃ s' g' W', endFile P s = .ok s' ∧ PInv P s' g' 0 W' ∧ FrontInv P.B s'.fe g'.front s'.w.inodes.length ∧
      s'.fe = feEnd s.fe ∧ g'.front = g.front ++ feEndItems s.fe ∧ g'.fe = g.fe ∧ g'.fin = false ∧
      s'.w.inodes.length = s.w.inodes.length ∧ s'.maxBacklog = s.maxBacklog := by
  have hend := hfe.endFile (by exact hbc) (by exact hcne)
  have hitems : ∀ x ∈ feEndItems s.fe, ItemOK P.B s.w.inodes.length x :=
    fun x hx => hend.items x (List.mem_append_right _ hx)
  unfold endFile
  rw [if_neg (by simp [hbc])]
  cases hcur : s.blkCurrent with
  | none =>
    have hfec : s.fe.blkCurrent = none := hcur
    have hitems_eq : feEndItems s.fe = if !hasFlag s.blkFlags blkFirstBlock then [feSentinel s.fe] else [] := by
      unfold feEndItems; rw [hfec]; rfl
    by_cases hfirst : hasFlag s.blkFlags blkFirstBlock = true
    · -- nothing was ever appended: nothing is submitted
      simp only [hfirst, Bool.not_true, Bool.false_eq_true, if_false]
      have hnil : feEndItems s.fe = [] := by rw [hitems_eq]; simp [hfirst]
      refine ⟨_, g, W, rfl, h.endReset, ?_, ?_, by rw [hnil]; simp, rfl, hfin, rfl, rfl⟩
      · rw [hnil, List.append_nil] at hend
        have : ({ s with beginCalled := false, inode := none, blkFlags := 0 } : Proc).fe = feEnd s.fe := by
          simp only [Proc.fe, feEnd, hcur]
        rw [this]; exact hend
      · simp only [Proc.fe, feEnd, hcur]
    · have hfirst' : hasFlag s.blkFlags blkFirstBlock = false := by simpa using hfirst
      simp only [hfirst', Bool.not_false, if_true]
      have hone : feEndItems s.fe = [feSentinel s.fe] := by rw [hitems_eq]; simp [hfirst']
      obtain ⟨s1, g1, W1, hs, h1, hfe1, hfr1, hgfe1, hfin1, hil1, hmb1⟩ := addSentinel_ok hP hc hB h hfin
        (hitems _ (by rw [hone]; exact List.mem_cons_self)) (by have := hend.proto; rw [hone] at this; exact this)
      rw [hs]
      simp only
      have hcur1 : s1.blkCurrent = none := by rw [blkCurrent_of_fe hfe1]; exact hcur
      refine ⟨_, g1, W1, rfl, h1.endReset, ?_, ?_, by rw [hfr1, hone], hgfe1, hfin1, hil1, hmb1⟩
      · have : ({ s1 with beginCalled := false, inode := none, blkFlags := 0 } : Proc).fe = feEnd s.fe := by
          have e := hfe1
          simp only [Proc.fe, Front.mk.injEq] at e
          obtain ⟨_, _, _, e4, _⟩ := e
          simp only [Proc.fe, feEnd, hcur1, e4]
        rw [this, hfr1, ← hone]
        show FrontInv P.B (feEnd s.fe) (g.front ++ feEndItems s.fe) s1.w.inodes.length
        rw [hil1]; exact hend
      · have e := hfe1
        simp only [Proc.fe, Front.mk.injEq] at e
        obtain ⟨_, _, _, e4, _⟩ := e
        simp only [Proc.fe, feEnd, hcur1, e4]
  | some c =>
    have hfec : s.fe.blkCurrent = some c := hcur
    simp only
    by_cases hdf : hasFlag s.blkFlags blkDontFragment = true
    · -- DONT_FRAGMENT: the open block is the last block
      simp only [hdf, if_true]
      have hone : feEndItems s.fe = [{ c with flags := c.flags ||| blkLastBlock }] := by
        unfold feEndItems; rw [hfec]; simp only; rw [if_pos (by exact hdf)]
      have hacct : Acct { s with blkCurrent := none } g (boolNat ({ s with blkCurrent := none } : Proc).blkCurrent.isSome + 0 + 1) := by
        have := h.acct
        unfold Acct at *
        simp only [hcur, Option.isSome_some, Option.isSome_none, boolNat] at this ⊢
        simpa using this
      obtain ⟨s2, he, hfe2, hil2, hmb2, hinv2⟩ := PInv.submit hP (s := { s with blkCurrent := none }) (held := 0)
        { c with flags := c.flags ||| blkLastBlock } { h.back with } hacct
        (hitems _ (by rw [hone]; exact List.mem_cons_self)) (by have := hend.proto; rw [hone] at this; exact this) hfin
      rw [he]
      simp only
      have hfe2' : s2.fe = { s.fe with blkCurrent := none } := hfe2
      refine ⟨_, _, W, rfl, hinv2.endReset, ?_, ?_, by rw [hone], rfl, hfin, hil2, hmb2⟩
      · have : ({ s2 with beginCalled := false, inode := none, blkFlags := 0 } : Proc).fe = feEnd s.fe := by
          have e := hfe2'
          simp only [Proc.fe, Front.mk.injEq] at e
          obtain ⟨_, _, _, e4, e5⟩ := e
          simp only [Proc.fe, feEnd, e4, e5]
        rw [this]
        show FrontInv P.B (feEnd s.fe) (g.front ++ [{ c with flags := c.flags ||| blkLastBlock }]) s2.w.inodes.length
        rw [← hone, hil2]; exact hend
      · have e := hfe2'
        simp only [Proc.fe, Front.mk.injEq] at e
        obtain ⟨_, _, _, e4, e5⟩ := e
        simp only [Proc.fe, feEnd, e4, e5]
    · have hdf' : hasFlag s.blkFlags blkDontFragment = false := by simpa using hdf
      simp only [hdf', Bool.false_eq_true, if_false]
      by_cases hcf : hasFlag c.flags blkFirstBlock = true
      · -- the only block of the file: it is the fragment
        simp only [hcf, Bool.not_true, Bool.false_eq_true, if_false]
        have hone : feEndItems s.fe = [{ c with flags := c.flags ||| blkIsFragment }] := by
          unfold feEndItems; rw [hfec]; simp only; rw [if_neg (by rw [fe_blkFlags, hdf']; simp)]; simp [hcf]
        have hacct : Acct { s with blkCurrent := none } g (boolNat ({ s with blkCurrent := none } : Proc).blkCurrent.isSome + 0 + 1) := by
          have := h.acct
          unfold Acct at *
          simp only [hcur, Option.isSome_some, Option.isSome_none, boolNat] at this ⊢
          simpa using this
        obtain ⟨s2, he, hfe2, hil2, hmb2, hinv2⟩ := PInv.submit hP (s := { s with blkCurrent := none }) (held := 0)
          { c with flags := c.flags ||| blkIsFragment } { h.back with } hacct
          (hitems _ (by rw [hone]; exact List.mem_cons_self)) (by have := hend.proto; rw [hone] at this; exact this) hfin
        rw [he]
        simp only
        have hfe2' : s2.fe = { s.fe with blkCurrent := none } := hfe2
        refine ⟨_, _, W, rfl, hinv2.endReset, ?_, ?_, by rw [hone], rfl, hfin, hil2, hmb2⟩
        · have : ({ s2 with beginCalled := false, inode := none, blkFlags := 0 } : Proc).fe = feEnd s.fe := by
            have e := hfe2'
            simp only [Proc.fe, Front.mk.injEq] at e
            obtain ⟨_, _, _, e4, e5⟩ := e
            simp only [Proc.fe, feEnd, e4, e5]
          rw [this]
          show FrontInv P.B (feEnd s.fe) (g.front ++ [{ c with flags := c.flags ||| blkIsFragment }]) s2.w.inodes.length
          rw [← hone, hil2]; exact hend
        · have e := hfe2'
          simp only [Proc.fe, Front.mk.injEq] at e
          obtain ⟨_, _, _, e4, e5⟩ := e
          simp only [Proc.fe, feEnd, e4, e5]
      · -- a sentinel carries `LAST`, then the tail end goes out as a fragment
        have hcf' : hasFlag c.flags blkFirstBlock = false := by simpa using hcf
        simp only [hcf', Bool.not_false, if_true]
        have htwo : feEndItems s.fe = [feSentinel s.fe, { c with flags := c.flags ||| blkIsFragment }] := by
          unfold feEndItems; rw [hfec]; simp only; rw [if_neg (by rw [fe_blkFlags, hdf']; simp)]; simp [hcf']
        have hp2 := hend.proto
        rw [htwo] at hp2
        have hp1 : fproto false (g.front ++ [feSentinel s.fe]) = true := by
          have : g.front ++ [feSentinel s.fe, { c with flags := c.flags ||| blkIsFragment }] =
              (g.front ++ [feSentinel s.fe]) ++ [{ c with flags := c.flags ||| blkIsFragment }] := by simp
          rw [this] at hp2
          exact fproto_prefix hp2
        obtain ⟨s1, g1, W1, hs, h1, hfe1, hfr1, hgfe1, hfin1, hil1, hmb1⟩ := addSentinel_ok hP hc hB h hfin
          (hitems _ (by rw [htwo]; exact List.mem_cons_self)) hp1
        rw [hs]
        simp only
        have hcur1 : s1.blkCurrent = some c := by rw [blkCurrent_of_fe hfe1]; exact hcur
        have hacct : Acct { s1 with blkCurrent := none } g1 (boolNat ({ s1 with blkCurrent := none } : Proc).blkCurrent.isSome + 0 + 1) := by
          have := h1.acct
          unfold Acct at *
          simp only [hcur1, Option.isSome_some, Option.isSome_none, boolNat] at this ⊢
          simpa using this
        obtain ⟨s2, he, hfe2, hil2, hmb2, hinv2⟩ := PInv.submit hP (s := { s1 with blkCurrent := none }) (held := 0)
          { c with flags := c.flags ||| blkIsFragment } { h1.back with } hacct
          (by
            show ItemOK P.B s1.w.inodes.length _
            rw [hil1]
            exact hitems _ (by rw [htwo]; simp))
          (by rw [hfr1]; simpa using hp2) hfin1
        rw [he]
        simp only
        have hfe2' : s2.fe = { s.fe with blkCurrent := none } := by
          rw [hfe2]
          show ({ s1 with blkCurrent := none } : Proc).fe = _
          have e := hfe1
          simp only [Proc.fe, Front.mk.injEq] at e ⊢
          obtain ⟨e1, e2, e3, e4, _⟩ := e
          exact ⟨e1, e2, e3, e4, trivial⟩
        refine ⟨_, _, W1, rfl, hinv2.endReset, ?_, ?_, by rw [hfr1, htwo]; simp, hgfe1, hfin1, hil2.trans hil1, hmb2.trans hmb1⟩
        · have : ({ s2 with beginCalled := false, inode := none, blkFlags := 0 } : Proc).fe = feEnd s.fe := by
            have e := hfe2'
            simp only [Proc.fe, Front.mk.injEq] at e
            obtain ⟨_, _, _, e4, e5⟩ := e
            simp only [Proc.fe, feEnd, e4, e5]
          rw [this]
          show FrontInv P.B (feEnd s.fe) (g1.front ++ [{ c with flags := c.flags ||| blkIsFragment }]) s2.w.inodes.length
          rw [hfr1, hil2, hil1]
          have : g.front ++ [feSentinel s.fe] ++ [{ c with flags := c.flags ||| blkIsFragment }] = g.front ++ feEndItems s.fe := by
            rw [htwo]; simp
          rw [this]; exact hend
        · have e := hfe2'
          simp only [Proc.fe, Front.mk.injEq] at e
          obtain ⟨_, _, _, e4, e5⟩ := e
          simp only [Proc.fe, feEnd, e4, e5]

/-! ### one file, all files -/

theorem feAppendGo_beginCalled (B : Nat) : ∀ (fuel : Nat) (f : Front) (data : Bytes) (r : Front × List Blk),
    feAppendGo B fuel f data = some r → r.1.beginCalled = f.beginCalled := by
  intro fuel
  induction fuel with
  | zero => intro f data r h; simp [feAppendGo] at h
  | succ fuel ih =>
    intro f data r h
    unfold feAppendGo at h
    by_cases hd0 : data.length = 0
    · rw [if_pos hd0] at h
      cases hcur : f.blkCurrent with
      | none => rw [hcur] at h; cases h
      | some c =>
        rw [hcur] at h
        simp only at h
        by_cases hfull : c.data.length = B
        · rw [if_pos hfull] at h; simp only [Option.some.injEq] at h; rw [← h]
        · rw [if_neg hfull] at h; simp only [Option.some.injEq] at h; rw [← h]
    · rw [if_neg hd0] at h
      cases hcur : f.blkCurrent with
      | none =>
        rw [hcur] at h
        have := ih _ _ _ h
        exact this
      | some c =>
        rw [hcur] at h
        simp only at h
        by_cases hdiff : B - c.data.length = 0
        · rw [if_pos hdiff] at h
          cases hrec : feAppendGo B fuel { f with blkCurrent := none } data with
          | none => rw [hrec] at h; cases h
          | some r' =>
            rw [hrec] at h
            simp only [Option.some.injEq] at h
            rw [← h]
            have := ih _ _ _ hrec
            exact this
        · rw [if_neg hdiff] at h
          have := ih _ _ _ h
          exact this

theorem feAppend_beginCalled {B : Nat} {f : Front} {data : Bytes} {f' : Front} {em : List Blk}
    (h : feAppend B f data = some (f', em)) (hb : f.beginCalled = true) (hx : f'.beginCalled = false) : False := by
  have := feAppendGo_beginCalled B _ f data _ h
  simp only at this
  rw [hb, hx] at this
  cases this

/-- the optional `sync` while the file is open -/
theorem maybeSync_ok {P : Params} (hP : P.ans = serialAns) (hc : CodecOk P.codec) (hB : P.B < 2 ^ 24) (sy : Bool)
    {s : Proc} {g : Ghost} {W : WSt} (h : PInv P s g 0 W) :
    ∃ s' g' W', (if sy then sync P s else .ok s) = .ok s' ∧ PInv P s' g' 0 W' ∧ Frame s s' g g' := by
  cases sy with
  | false => exact ⟨s, g, W, rfl, h, Frame.refl s g⟩
  | true =>
    obtain ⟨s', g', W', hs, h', fr, _⟩ := sync_ok hP hc hB h
    exact ⟨s', g', W', by simpa using hs, h', fr⟩

theorem packFile_ok {P : Params} (hP : P.ans = serialAns) (hc : CodecOk P.codec) (hB : P.B < 2 ^ 24) (hBpos : 0 < P.B)
    {s : Proc} {g : Ghost} {W : WSt} (h : PInv P s g 0 W) (hfe : FrontInv P.B s.fe g.front s.w.inodes.length)
    (hidle : s.beginCalled = false) (hfin : g.fin = false) (f : InFile) (hfl : f.flags &&& blkUserSettable = f.flags)
    (sy : Bool) :
    ∃ s' g' W' items, packFile P s f sy = .ok s' ∧ feFile P.B s.w.inodes.length f = .ok items ∧
      g'.front = g.front ++ items ∧
      g'.fe = g.fe ++ (if f.data.length = 0 then [] else [⟨s.w.inodes.length, .size f.data.length⟩]) ∧
      PInv P s' g' 0 W' ∧ FrontInv P.B s'.fe g'.front s'.w.inodes.length ∧ s'.beginCalled = false ∧ g'.fin = false ∧
      s'.w.inodes.length = s.w.inodes.length + 1 ∧ s'.maxBacklog = s.maxBacklog := by
  obtain ⟨hi1, hi2, _⟩ := hfe.idle hidle
  obtain ⟨s1, hb, h1, hfe1, hfeq, hil1, hmb1⟩ := beginFile_ok hc h hfe hidle f.flags hfl
  have hf0 : s1.fe = feBegin {} s.w.inodes.length f.flags := by
    rw [hfeq]
    simp only [feBegin, Front.mk.injEq]
    exact ⟨trivial, trivial, trivial, trivial, hi2⟩
  have hbc1 : s1.beginCalled = true := by
    have : s1.fe.beginCalled = true := by rw [hf0]; rfl
    exact this
  have hcur1 : s1.blkCurrent = none := by
    have : s1.fe.blkCurrent = none := by rw [hf0]; rfl
    exact this
  have hflok : ¬ (f.flags &&& blkUserSettable != f.flags) = true := by simp [hfl]
  unfold packFile feFile
  rw [hb, if_neg hflok]
  simp only
  by_cases hd0 : f.data.length = 0
  · rw [if_pos hd0, if_pos hd0]
    obtain ⟨sy1, gy1, Wy1, hsy, hy1, fry⟩ := maybeSync_ok hP hc hB sy h1
    simp only
    rw [hsy]
    simp only
    have hfey : FrontInv P.B sy1.fe gy1.front sy1.w.inodes.length := by rw [fry.fe, fry.front, fry.inodes]; exact hfe1
    have hbcy : sy1.beginCalled = true := by
      have : sy1.fe.beginCalled = true := by rw [fry.fe]; exact hbc1
      exact this
    have hcury : sy1.blkCurrent = none := by rw [blkCurrent_of_fe fry.fe]; exact hcur1
    have hfiny : gy1.fin = false := by rw [fry.fin]; exact hfin
    obtain ⟨s', g', W', he, hinv', hfe', hfend, hfront, hgfe, hgfin, hil, hmb⟩ := endFile_ok hP hc hB hy1 hfey hbcy hfiny
      (fun c hc' => by rw [hcury] at hc'; cases hc')
    refine ⟨s', g', W', _, he, rfl, ?_, ?_, hinv', hfe', ?_, hgfin, ?_, ?_⟩
    · rw [hfront, fry.front, fry.fe, hf0]
    · rw [hgfe, fry.gfe]; simp [hd0]
    · have : s'.fe.beginCalled = false := by rw [hfend]; rfl
      exact this
    · rw [hil, fry.inodes, hil1]
    · rw [hmb, fry.maxBacklog, hmb1]
  · rw [if_neg hd0, if_neg hd0]
    have hdne : f.data ≠ [] := fun he => hd0 (by simp [he])
    obtain ⟨s2, g2, W2, em, id, ha, hfa, hino, hidl, hfront2, hgfe2, hinv2, hfe2, hgfin2, hil2, hmb2, hcne2⟩ :=
      append_ok hP hc hB hBpos h1 hfe1 hbc1 hfin f.data hdne
    rw [ha]
    simp only
    rw [hf0] at hfa
    rw [hfa]
    simp only
    have hbc2 : s2.beginCalled = true := by
      have hb2 := hfe2.idle
      by_cases hx : s2.beginCalled = true
      · exact hx
      · exfalso
        have hx' : s2.fe.beginCalled = false := by
          show s2.beginCalled = false
          simpa using hx
        -- `append` never ends a file: the front end mirror keeps `begin_called`
        exact feAppend_beginCalled hfa (by rfl) hx'
    obtain ⟨sy1, gy1, Wy1, hsy, hy1, fry⟩ := maybeSync_ok hP hc hB sy hinv2
    rw [hsy]
    simp only
    have hfey : FrontInv P.B sy1.fe gy1.front sy1.w.inodes.length := by rw [fry.fe, fry.front, fry.inodes]; exact hfe2
    have hbcy : sy1.beginCalled = true := by
      have : sy1.fe.beginCalled = true := by rw [fry.fe]; exact hbc2
      exact this
    have hfiny : gy1.fin = false := by rw [fry.fin]; exact hgfin2
    have hcney : ∀ c, sy1.blkCurrent = some c → c.data ≠ [] := by
      intro c hc'; rw [blkCurrent_of_fe fry.fe] at hc'; exact hcne2 c hc'
    obtain ⟨s', g', W', he, hinv', hfe', hfend, hfront, hgfe, hgfin, hil, hmb⟩ := endFile_ok hP hc hB hy1 hfey hbcy hfiny hcney
    have hidn : id = s.w.inodes.length := by omega
    refine ⟨s', g', W', _, he, rfl, ?_, ?_, hinv', hfe', ?_, hgfin, ?_, ?_⟩
    · rw [hfront, fry.front, fry.fe, hfront2, List.append_assoc]
    · rw [hgfe, fry.gfe, hgfe2, hidn]; simp [hd0]
    · have : s'.fe.beginCalled = false := by rw [hfend]; rfl
      exact this
    · rw [hil, fry.inodes, hil2, hil1]
    · rw [hmb, fry.maxBacklog, hmb2, hmb1]

end Sqfs.BlockProc
