/-
C04 — `base64_decode` (lib/util/src/base64_decode.c as `pax_xattr_libarchive` calls it): it inverts base64 encoding.
-/
import Sqfs.Model.TarPax
namespace Sqfs.Tar

/-- the base64 alphabet `A–Z a–z 0–9 + /` -/
def b64Char (n : Nat) : UInt8 :=
  if n < 26 then UInt8.ofNat (65 + n) else if n < 52 then UInt8.ofNat (97 + (n - 26)) else if n < 62 then UInt8.ofNat (48 + (n - 52))
  else if n = 62 then 43 else 47

/-- RFC 4648 base64 with '=' padding -/
def b64Encode : Bytes → Bytes
  | [] => []
  | [a] => [b64Char (a.toNat / 4), b64Char (a.toNat % 4 * 16), 61, 61]
  | [a, b] => [b64Char (a.toNat / 4), b64Char (a.toNat % 4 * 16 + b.toNat / 16), b64Char (b.toNat % 16 * 4), 61]
  | a :: b :: c :: t =>
    b64Char (a.toNat / 4) :: b64Char (a.toNat % 4 * 16 + b.toNat / 16) :: b64Char (b.toNat % 16 * 4 + c.toNat / 64) ::
      b64Char (c.toNat % 64) :: b64Encode t

theorem b64Digit_char : ∀ n, n < 64 → b64Digit (b64Char n) = some n ∧ isPad (b64Char n) = false := by decide

theorem isPad_eq : isPad 61 = true := by decide

theorem byte1 (a b : UInt8) : UInt8.ofNat ((a.toNat / 4 * 4 + (a.toNat % 4 * 16 + b.toNat / 16) / 16) % 256) = a := by
  have := a.toNat_lt; have := b.toNat_lt
  have : (a.toNat / 4 * 4 + (a.toNat % 4 * 16 + b.toNat / 16) / 16) % 256 = a.toNat := by omega
  rw [this]; exact UInt8.ofNat_toNat

theorem byte1' (a : UInt8) : UInt8.ofNat ((a.toNat / 4 * 4 + (a.toNat % 4 * 16) / 16) % 256) = a := by
  have := a.toNat_lt
  have : (a.toNat / 4 * 4 + (a.toNat % 4 * 16) / 16) % 256 = a.toNat := by omega
  rw [this]; exact UInt8.ofNat_toNat

theorem byte2 (a b c : UInt8) :
    UInt8.ofNat (((a.toNat % 4 * 16 + b.toNat / 16) % 16 * 16 + (b.toNat % 16 * 4 + c.toNat / 64) / 4) % 256) = b := by
  have := a.toNat_lt; have := b.toNat_lt; have := c.toNat_lt
  have : ((a.toNat % 4 * 16 + b.toNat / 16) % 16 * 16 + (b.toNat % 16 * 4 + c.toNat / 64) / 4) % 256 = b.toNat := by omega
  rw [this]; exact UInt8.ofNat_toNat

theorem byte2' (a b : UInt8) :
    UInt8.ofNat (((a.toNat % 4 * 16 + b.toNat / 16) % 16 * 16 + (b.toNat % 16 * 4) / 4) % 256) = b := by
  have := a.toNat_lt; have := b.toNat_lt
  have : ((a.toNat % 4 * 16 + b.toNat / 16) % 16 * 16 + (b.toNat % 16 * 4) / 4) % 256 = b.toNat := by omega
  rw [this]; exact UInt8.ofNat_toNat

theorem byte3 (b c : UInt8) : UInt8.ofNat (((b.toNat % 16 * 4 + c.toNat / 64) % 4 * 64 + c.toNat % 64) % 256) = c := by
  have := b.toNat_lt; have := c.toNat_lt
  have : ((b.toNat % 16 * 4 + c.toNat / 64) % 4 * 64 + c.toNat % 64) % 256 = c.toNat := by omega
  rw [this]; exact UInt8.ofNat_toNat

theorem b64Loop_encode : ∀ (v acc : Bytes) (cap f : Nat), acc.length + (b64Encode v).length ≤ cap → v.length + 1 ≤ f →
    b64Loop cap f (b64Encode v) acc = some (acc ++ v) := by
  intro v
  induction v using b64Encode.induct with
  | case1 =>
    intro acc cap f _ hf
    obtain ⟨f', rfl⟩ : ∃ f', f = f' + 1 := ⟨f - 1, by omega⟩
    simp [b64Encode, b64Loop]
  | case2 a =>
    intro acc cap f hc hf
    obtain ⟨f', rfl⟩ : ∃ f', f = f' + 1 := ⟨f - 1, by omega⟩
    have := a.toNat_lt
    have h1 := b64Digit_char (a.toNat / 4) (by omega)
    have h2 := b64Digit_char (a.toNat % 4 * 16) (by omega)
    have hl : ¬ acc.length ≥ cap := by simp [b64Encode] at hc; omega
    simp only [b64Encode, b64Loop, h1.1, h2.1, hl, if_false, isPad_eq, if_true, not_true_eq_false, ne_eq, not_false_eq_true,
      or_self, byte1']
  | case3 a b =>
    intro acc cap f hc hf
    obtain ⟨f', rfl⟩ : ∃ f', f = f' + 1 := ⟨f - 1, by omega⟩
    have := a.toNat_lt; have := b.toNat_lt
    have h1 := b64Digit_char (a.toNat / 4) (by omega)
    have h2 := b64Digit_char (a.toNat % 4 * 16 + b.toNat / 16) (by omega)
    have h3 := b64Digit_char (b.toNat % 16 * 4) (by omega)
    have hl : ¬ acc.length ≥ cap := by simp [b64Encode] at hc; omega
    have hl2 : ¬ acc.length + 1 ≥ cap := by simp [b64Encode] at hc; omega
    simp only [b64Encode, b64Loop, h1.1, h2.1, h3.1, h3.2, hl, hl2, if_false, isPad_eq, if_true, not_true_eq_false, ne_eq,
      Bool.false_eq_true, List.length_append, List.length_cons, List.length_nil, byte1, byte2', List.append_assoc,
      List.cons_append, List.nil_append]
  | case4 a b c t ih =>
    intro acc cap f hc hf
    obtain ⟨f', rfl⟩ : ∃ f', f = f' + 1 := ⟨f - 1, by omega⟩
    have := a.toNat_lt; have := b.toNat_lt; have := c.toNat_lt
    have h1 := b64Digit_char (a.toNat / 4) (by omega)
    have h2 := b64Digit_char (a.toNat % 4 * 16 + b.toNat / 16) (by omega)
    have h3 := b64Digit_char (b.toNat % 16 * 4 + c.toNat / 64) (by omega)
    have h4 := b64Digit_char (c.toNat % 64) (by omega)
    have hlen : acc.length + 4 + (b64Encode t).length ≤ cap := by simp [b64Encode] at hc; omega
    have hl : ¬ acc.length ≥ cap := by omega
    have hl2 : ¬ acc.length + 1 ≥ cap := by omega
    have hl3 : ¬ acc.length + 1 + 1 ≥ cap := by omega
    have hrec := ih (acc ++ [a] ++ [b] ++ [c]) cap f' (by simp; omega) (by simp at hf ⊢; omega)
    simp only [b64Encode, b64Loop, h1.1, h2.1, h3.1, h3.2, h4.1, h4.2, hl, hl2, hl3, if_false, Bool.false_eq_true,
      List.length_append, List.length_cons, List.length_nil, byte1, byte2, byte3]
    rw [hrec]
    simp

/-- **`base64_decode`** inverts RFC 4648 base64 (with padding) for every byte string -/
theorem base64Decode_encode (v : Bytes) : base64Decode (b64Encode v) = some v := by
  have hlen : ∀ v : Bytes, v.length ≤ (b64Encode v).length := by
    intro v
    induction v using b64Encode.induct with
    | case1 => simp [b64Encode]
    | case2 a => simp [b64Encode]
    | case3 a b => simp [b64Encode]
    | case4 a b c t ih => simp [b64Encode] at ih ⊢; omega
  unfold base64Decode
  have := b64Loop_encode v [] (b64Encode v).length ((b64Encode v).length + 1) (by simp) (by have := hlen v; omega)
  simpa using this

/-- base64 without the trailing '=' padding (what libarchive writes) -/
def b64EncodeNoPad : Bytes → Bytes
  | [] => []
  | [a] => [b64Char (a.toNat / 4), b64Char (a.toNat % 4 * 16)]
  | [a, b] => [b64Char (a.toNat / 4), b64Char (a.toNat % 4 * 16 + b.toNat / 16), b64Char (b.toNat % 16 * 4)]
  | a :: b :: c :: t =>
    b64Char (a.toNat / 4) :: b64Char (a.toNat % 4 * 16 + b.toNat / 16) :: b64Char (b.toNat % 16 * 4 + c.toNat / 64) ::
      b64Char (c.toNat % 64) :: b64EncodeNoPad t

theorem b64Loop_encodeNoPad : ∀ (v acc : Bytes) (cap f : Nat), acc.length + (b64EncodeNoPad v).length ≤ cap → v.length + 1 ≤ f →
    b64Loop cap f (b64EncodeNoPad v) acc = some (acc ++ v) := by
  intro v
  induction v using b64EncodeNoPad.induct with
  | case1 =>
    intro acc cap f _ hf
    obtain ⟨f', rfl⟩ : ∃ f', f = f' + 1 := ⟨f - 1, by omega⟩
    simp [b64EncodeNoPad, b64Loop]
  | case2 a =>
    intro acc cap f hc hf
    obtain ⟨f', rfl⟩ : ∃ f', f = f' + 1 := ⟨f - 1, by omega⟩
    have := a.toNat_lt
    have h1 := b64Digit_char (a.toNat / 4) (by omega)
    have h2 := b64Digit_char (a.toNat % 4 * 16) (by omega)
    have hl : ¬ acc.length ≥ cap := by simp [b64EncodeNoPad] at hc; omega
    simp only [b64EncodeNoPad, b64Loop, h1.1, h2.1, hl, if_false, byte1']
  | case3 a b =>
    intro acc cap f hc hf
    obtain ⟨f', rfl⟩ : ∃ f', f = f' + 1 := ⟨f - 1, by omega⟩
    have := a.toNat_lt; have := b.toNat_lt
    have h1 := b64Digit_char (a.toNat / 4) (by omega)
    have h2 := b64Digit_char (a.toNat % 4 * 16 + b.toNat / 16) (by omega)
    have h3 := b64Digit_char (b.toNat % 16 * 4) (by omega)
    have hl : ¬ acc.length ≥ cap := by simp [b64EncodeNoPad] at hc; omega
    have hl2 : ¬ acc.length + 1 ≥ cap := by simp [b64EncodeNoPad] at hc; omega
    simp only [b64EncodeNoPad, b64Loop, h1.1, h2.1, h3.1, h3.2, hl, hl2, if_false, Bool.false_eq_true, List.length_append,
      List.length_cons, List.length_nil, byte1, byte2', List.append_assoc, List.cons_append, List.nil_append]
  | case4 a b c t ih =>
    intro acc cap f hc hf
    obtain ⟨f', rfl⟩ : ∃ f', f = f' + 1 := ⟨f - 1, by omega⟩
    have := a.toNat_lt; have := b.toNat_lt; have := c.toNat_lt
    have h1 := b64Digit_char (a.toNat / 4) (by omega)
    have h2 := b64Digit_char (a.toNat % 4 * 16 + b.toNat / 16) (by omega)
    have h3 := b64Digit_char (b.toNat % 16 * 4 + c.toNat / 64) (by omega)
    have h4 := b64Digit_char (c.toNat % 64) (by omega)
    have hlen : acc.length + 4 + (b64EncodeNoPad t).length ≤ cap := by simp [b64EncodeNoPad] at hc; omega
    have hl : ¬ acc.length ≥ cap := by omega
    have hl2 : ¬ acc.length + 1 ≥ cap := by omega
    have hl3 : ¬ acc.length + 1 + 1 ≥ cap := by omega
    have hrec := ih (acc ++ [a] ++ [b] ++ [c]) cap f' (by simp; omega) (by simp at hf ⊢; omega)
    simp only [b64EncodeNoPad, b64Loop, h1.1, h2.1, h3.1, h3.2, h4.1, h4.2, hl, hl2, hl3, if_false, Bool.false_eq_true,
      List.length_append, List.length_cons, List.length_nil, byte1, byte2, byte3]
    rw [hrec]
    simp

/-- … and base64 without padding -/
theorem base64Decode_encodeNoPad (v : Bytes) : base64Decode (b64EncodeNoPad v) = some v := by
  have hlen : ∀ v : Bytes, v.length ≤ (b64EncodeNoPad v).length := by
    intro v
    induction v using b64EncodeNoPad.induct with
    | case1 => simp [b64EncodeNoPad]
    | case2 a => simp [b64EncodeNoPad]
    | case3 a b => simp [b64EncodeNoPad]
    | case4 a b c t ih => simp [b64EncodeNoPad] at ih ⊢; omega
  unfold base64Decode
  have := b64Loop_encodeNoPad v [] (b64EncodeNoPad v).length ((b64EncodeNoPad v).length + 1) (by simp) (by have := hlen v; omega)
  simpa using this

end Sqfs.Tar
