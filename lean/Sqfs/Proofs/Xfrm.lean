/-
Helper lemmas for C15 (`Sqfs/Props/C15.lean`).
-/
import Sqfs.Spec.Xfrm
import Sqfs.Spec.XfrmContract
namespace Sqfs.Xfrm
open Sqfs.Xfrm.Spec

/-! ## generic facts about fuelled loops -/

theorem iter_mono {α β : Type} (body : α → LoopStep α β) :
    ∀ (f : Nat) (a : α) (r : β), iter body f a = some r → ∀ f', f ≤ f' → iter body f' a = some r := by
  intro f
  induction f with
  | zero => intro a r h; simp [iter] at h
  | succ n ih =>
    intro a r h f' hf
    obtain ⟨m, rfl⟩ : ∃ m, f' = m + 1 := ⟨f' - 1, by omega⟩
    simp only [iter] at h ⊢
    cases hb : body a with
    | done r' => simpa [hb] using h
    | next a' =>
      simp only [hb] at h ⊢
      exact ih _ _ h m (by omega)

/-- lexicographic order on pairs of naturals -/
def LexLt (p q : Nat × Nat) : Prop := p.1 < q.1 ∨ (p.1 = q.1 ∧ p.2 < q.2)

/--
Total-correctness rule: an invariant `I`, a lexicographic variant `μ` that every further round decreases, and
a postcondition `Q` established whenever the loop is left.
-/
theorem iter_total {α β : Type} (body : α → LoopStep α β) (I : α → Prop) (Q : β → Prop) (μ : α → Nat × Nat)
    (h : ∀ a, I a → (∀ r, body a = LoopStep.done r → Q r) ∧
                     (∀ a', body a = LoopStep.next a' → I a' ∧ LexLt (μ a') (μ a))) :
    ∀ a, I a → ∃ f r, iter body f a = some r ∧ Q r := by
  have key : ∀ n m a, (μ a).1 = n → (μ a).2 = m → I a → ∃ f r, iter body f a = some r ∧ Q r := by
    intro n
    induction n using Nat.strongRecOn with
    | _ n ihn =>
      intro m
      induction m using Nat.strongRecOn with
      | _ m ihm =>
        intro a h1 h2 hI
        obtain ⟨hd, hn⟩ := h a hI
        cases hb : body a with
        | done r => exact ⟨1, r, by simp [iter, hb], hd r hb⟩
        | next a' =>
          obtain ⟨hI', hlt⟩ := hn a' hb
          have : ∃ f r, iter body f a' = some r ∧ Q r := by
            rcases hlt with hlt | ⟨he, hlt⟩
            · exact ihn (μ a').1 (by omega) (μ a').2 a' rfl rfl hI'
            · exact ihm (μ a').2 (by omega) a' (by omega) rfl hI'
          obtain ⟨f, r, hf, hq⟩ := this
          exact ⟨f + 1, r, by simp [iter, hb, hf], hq⟩
  intro a hI
  exact key _ _ a rfl rfl hI

/-! ## `ostream_xfrm`: `flush_inbuf` -/

section Enc
variable {σ : Type} {C : Codec σ} {Dec : Bytes → Option Bytes}

theorem flushBody_false (bufsz : Nat) (cs : σ) (rest sink : Bytes) :
    flushBody C bufsz false (cs, rest, sink) =
      if 0 < rest.length then
        if (C.step cs rest bufsz Flush.none).res = Res.error then LoopStep.done (.error errCompressor)
        else if (C.step cs rest bufsz Flush.none).res = Res.streamEnd then
          LoopStep.done (.ok ((C.step cs rest bufsz Flush.none).st, rest.drop (C.step cs rest bufsz Flush.none).consumed,
            sink ++ (C.step cs rest bufsz Flush.none).out))
        else LoopStep.next ((C.step cs rest bufsz Flush.none).st, rest.drop (C.step cs rest bufsz Flush.none).consumed,
            sink ++ (C.step cs rest bufsz Flush.none).out)
      else LoopStep.done (.ok (cs, rest, sink)) := by
  simp [flushBody]

theorem flushBody_true (bufsz : Nat) (cs : σ) (rest sink : Bytes) :
    flushBody C bufsz true (cs, rest, sink) =
        if (C.step cs rest bufsz Flush.full).res = Res.error then LoopStep.done (.error errCompressor)
        else if (C.step cs rest bufsz Flush.full).res = Res.streamEnd then
          LoopStep.done (.ok ((C.step cs rest bufsz Flush.full).st, rest.drop (C.step cs rest bufsz Flush.full).consumed,
            sink ++ (C.step cs rest bufsz Flush.full).out))
        else LoopStep.next ((C.step cs rest bufsz Flush.full).st, rest.drop (C.step cs rest bufsz Flush.full).consumed,
            sink ++ (C.step cs rest bufsz Flush.full).out) := by
  simp [flushBody]

/-- `flush_inbuf(false)`: terminates, consumes the whole buffer, never fails -/
theorem flushLoop_none (hC : EncContract C Dec) {bufsz : Nat} (hb : 0 < bufsz) {cs : σ} {x y : Bytes}
    (rest sink : Bytes) (hR : hC.R cs x y false) :
    ∃ f cs' o, flushLoop C bufsz false f cs rest sink = some (.ok (cs', [], sink ++ o)) ∧
      hC.R cs' (x ++ rest) (y ++ o) false := by
  have hP : ∀ inp, Proto false Flush.none inp := fun _ => ⟨by decide, fun h => by cases h⟩
  have := iter_total (flushBody C bufsz false)
    (fun a => ∃ x' o', hC.R a.1 x' (y ++ o') false ∧ x' ++ a.2.1 = x ++ rest ∧ a.2.2 = sink ++ o')
    (fun r => ∃ cs' o, r = .ok (cs', [], sink ++ o) ∧ hC.R cs' (x ++ rest) (y ++ o) false)
    (fun a => (a.2.1.length, hC.pend a.1)) ?_ (cs, rest, sink) ⟨x, [], by simpa using hR, rfl, by simp⟩
  · obtain ⟨f, r, hf, cs', o, rfl, hR'⟩ := this
    exact ⟨f, cs', o, hf, hR'⟩
  · rintro ⟨cs1, rest1, sink1⟩ ⟨x', o', hR1, hx, hs⟩
    simp only at hR1 hx hs
    rw [flushBody_false]
    by_cases hne : 0 < rest1.length
    · rw [if_pos hne]
      have herr := hC.no_error rest1 bufsz Flush.none hR1 (hP _)
      have hcl := hC.consumed_le rest1 bufsz Flush.none hR1 (hP _)
      have hend : (C.step cs1 rest1 bufsz Flush.none).res ≠ Res.streamEnd := by
        intro he
        exact (hC.finish rest1 bufsz Flush.none hR1 (hP _) he).1 rfl
      have hkeep := hC.keep rest1 bufsz Flush.none hR1 (hP _) hend
      have hprog := hC.progress rest1 bufsz Flush.none hR1 (hP _) hb
        (Or.inl (by intro h; simp [h] at hne)) hend
      rw [if_neg herr, if_neg hend]
      refine ⟨(by intro r h; cases h), ?_⟩
      intro a' ha'
      cases ha'
      refine ⟨⟨x' ++ rest1.take (C.step cs1 rest1 bufsz Flush.none).consumed, o' ++ (C.step cs1 rest1 bufsz Flush.none).out, ?_, ?_, ?_⟩, ?_⟩
      · simpa [List.append_assoc] using hkeep
      · simp only [List.append_assoc, List.take_append_drop]; exact hx
      · simp [hs, List.append_assoc]
      · simp only [LexLt, List.length_drop]
        rcases hprog with hp | hp
        · left; omega
        · by_cases hc : (C.step cs1 rest1 bufsz Flush.none).consumed = 0
          · right; exact ⟨by omega, hp⟩
          · left; omega
    · rw [if_neg hne]
      have hnil : rest1 = [] := by
        cases rest1 with
        | nil => rfl
        | cons a t => simp at hne
      subst hnil
      refine ⟨?_, (by intro a' h; cases h)⟩
      intro r hr
      cases hr
      refine ⟨cs1, o', by rw [hs], ?_⟩
      simpa [← hx] using hR1

/-- `flush_inbuf(true)` on an open member: terminates with `END`, everything consumed, the member decodes -/
theorem flushLoop_full (hC : EncContract C Dec) {bufsz : Nat} (hb : 0 < bufsz) {cs : σ} {x y : Bytes}
    (rest sink : Bytes) (hR : hC.R cs x y false) (hne : x ++ rest ≠ []) :
    ∃ f cs' o, flushLoop C bufsz true f cs rest sink = some (.ok (cs', [], sink ++ o)) ∧
      hC.R cs' [] [] false ∧ Dec (y ++ o) = some (x ++ rest) := by
  have := iter_total (flushBody C bufsz true)
    (fun a => ∃ x' o' fin, hC.R a.1 x' (y ++ o') fin ∧ x' ++ a.2.1 = x ++ rest ∧ a.2.2 = sink ++ o' ∧
      (fin = true → a.2.1 = []))
    (fun r => ∃ cs' o, r = .ok (cs', [], sink ++ o) ∧ hC.R cs' [] [] false ∧ Dec (y ++ o) = some (x ++ rest))
    (fun a => (a.2.1.length, hC.pend a.1)) ?_ (cs, rest, sink)
    ⟨x, [], false, by simpa using hR, rfl, by simp, by intro h; cases h⟩
  · obtain ⟨f, r, hf, cs', o, rfl, hR', hd⟩ := this
    exact ⟨f, cs', o, hf, hR', hd⟩
  · rintro ⟨cs1, rest1, sink1⟩ ⟨x', o', fin, hR1, hx, hs, hfin⟩
    simp only at hR1 hx hs hfin
    have hP : Proto fin Flush.full rest1 := ⟨by decide, fun h => ⟨rfl, hfin h⟩⟩
    rw [flushBody_true]
    have herr := hC.no_error rest1 bufsz Flush.full hR1 hP
    have hcl := hC.consumed_le rest1 bufsz Flush.full hR1 hP
    rw [if_neg herr]
    by_cases hend : (C.step cs1 rest1 bufsz Flush.full).res = Res.streamEnd
    · rw [if_pos hend]
      obtain ⟨_, hc, hR', hdec⟩ := hC.finish rest1 bufsz Flush.full hR1 hP hend
      refine ⟨?_, (by intro a' h; cases h)⟩
      intro r hr
      cases hr
      refine ⟨_, o' ++ (C.step cs1 rest1 bufsz Flush.full).out, ?_, hR', ?_⟩
      · rw [hc, hs]; simp [List.append_assoc]
      · have := hdec (by rw [hx]; exact hne)
        rw [hx] at this
        simpa [List.append_assoc] using this
    · rw [if_neg hend]
      have hkeep := hC.keep rest1 bufsz Flush.full hR1 hP hend
      have hprog := hC.progress rest1 bufsz Flush.full hR1 hP hb (by
        by_cases h1 : rest1 = []
        · right; refine ⟨rfl, ?_⟩; intro h2; subst h1 h2; exact hne (by simpa using hx.symm)
        · left; exact h1) hend
      refine ⟨(by intro r h; cases h), ?_⟩
      intro a' ha'
      cases ha'
      refine ⟨⟨x' ++ rest1.take (C.step cs1 rest1 bufsz Flush.full).consumed, o' ++ (C.step cs1 rest1 bufsz Flush.full).out,
        (fin || (decide (Flush.full = Flush.full) && decide ((C.step cs1 rest1 bufsz Flush.full).consumed = rest1.length))), ?_, ?_, ?_, ?_⟩, ?_⟩
      · rw [← List.append_assoc]; exact hkeep
      · simp only [List.append_assoc, List.take_append_drop]; exact hx
      · simp [hs, List.append_assoc]
      · intro h
        simp only [Bool.or_eq_true, Bool.and_eq_true, decide_eq_true_eq] at h
        rcases h with h | ⟨_, h⟩
        · rw [hfin h]; simp
        · simp [h]
      · simp only [LexLt, List.length_drop]
        rcases hprog with hp | hp
        · left; omega
        · by_cases hc : (C.step cs1 rest1 bufsz Flush.full).consumed = 0
          · right; exact ⟨by omega, hp⟩
          · left; omega

end Enc

section Enc2
variable {σ : Type} {C : Codec σ} {Dec : Bytes → Option Bytes}

/-! ## `ostream_xfrm`: `xfrm_append`, `xfrm_flush`, histories -/

theorem Members_append {ms xs : List Bytes} {m x : Bytes} (h : Members Dec ms xs) (hm : Dec m = some x) :
    Members Dec (ms ++ [m]) (xs ++ [x]) := by
  induction h with
  | nil => exact Members.cons hm Members.nil
  | cons h1 _ ih => exact Members.cons h1 ih

/-- invariant of the output stream between two operations -/
def OInv (hC : EncContract C Dec) (st : OState σ) (done : List Bytes) (cur : Bytes) : Prop :=
  ∃ ms x y, Members Dec ms done ∧ hC.R st.cs x y false ∧ st.sink = ms.flatten ++ y ∧ cur = x ++ st.inbuf ∧
    (x = [] → y = []) ∧ (x ≠ [] → st.inbuf ≠ [])

theorem OInv_init (hC : EncContract C Dec) : OInv hC (oInit C) [] [] :=
  ⟨[], [], [], Members.nil, hC.init, by simp [oInit], by simp [oInit], fun _ => rfl, fun h => absurd rfl h⟩

theorem flushInbuf_false_spec (hC : EncContract C Dec) {bufsz : Nat} (hb : 0 < bufsz) (st : OState σ) {x y : Bytes}
    (hR : hC.R st.cs x y false) :
    ∃ f0 cs' o, hC.R cs' (x ++ st.inbuf) (y ++ o) false ∧
      ∀ f, f0 ≤ f → flushInbuf C bufsz f st false = some (.ok { st with cs := cs', inbuf := [], sink := st.sink ++ o }) := by
  obtain ⟨f0, cs', o, hf, hR'⟩ := flushLoop_none hC hb st.inbuf st.sink hR
  refine ⟨f0, cs', o, hR', ?_⟩
  intro f hle
  have := iter_mono _ _ _ _ hf f hle
  simp only [flushInbuf, flushLoop] at this ⊢
  rw [this]

theorem flushInbuf_true_spec (hC : EncContract C Dec) {bufsz : Nat} (hb : 0 < bufsz) (st : OState σ) {x y : Bytes}
    (hR : hC.R st.cs x y false) (hne : x ++ st.inbuf ≠ []) :
    ∃ f0 cs' o, hC.R cs' [] [] false ∧ Dec (y ++ o) = some (x ++ st.inbuf) ∧
      ∀ f, f0 ≤ f → flushInbuf C bufsz f st true = some (.ok { st with cs := cs', inbuf := [], sink := st.sink ++ o }) := by
  obtain ⟨f0, cs', o, hf, hR', hd⟩ := flushLoop_full hC hb st.inbuf st.sink hR hne
  refine ⟨f0, cs', o, hR', hd, ?_⟩
  intro f hle
  have := iter_mono _ _ _ _ hf f hle
  simp only [flushInbuf, flushLoop] at this ⊢
  rw [this]

theorem appendLoop_succ (bufsz fuel k : Nat) (st : OState σ) (data : Bytes) :
    appendLoop C bufsz fuel (k + 1) st data =
      match appendBody C bufsz fuel (st, data) with
      | LoopStep.done r => r
      | LoopStep.next a => appendLoop C bufsz fuel k a.1 a.2 := by
  simp only [appendLoop, iter]
  cases appendBody C bufsz fuel (st, data) <;> rfl

theorem appendLoop_spec (hC : EncContract C Dec) {bufsz : Nat} (hb : 0 < bufsz) :
    ∀ (n : Nat) (data : Bytes) (st : OState σ) (done : List Bytes) (cur : Bytes) (k : Nat),
      data.length = n → n < k → OInv hC st done cur →
      ∃ f0 st', OInv hC st' done (cur ++ data) ∧ ∀ f, f0 ≤ f → appendLoop C bufsz f k st data = some (.ok st') := by
  intro n
  induction n using Nat.strongRecOn with
  | _ n ih =>
    intro data st done cur k hn hk hI
    obtain ⟨k', rfl⟩ : ∃ k', k = k' + 1 := ⟨k - 1, by omega⟩
    by_cases hd : data.length = 0
    · refine ⟨0, st, ?_, fun f _ => ?_⟩
      · have : data = [] := List.eq_nil_of_length_eq_zero hd
        simpa [this] using hI
      · rw [appendLoop_succ]; simp [appendBody, hd]
    · obtain ⟨ms, x, y, hms, hR, hsink, hcur, hxy, hxi⟩ := hI
      by_cases hfull : bufsz ≤ st.inbuf.length
      · -- the buffer is full: flush_inbuf(false), then copy
        obtain ⟨f1, cs', o, hR', hfl⟩ := flushInbuf_false_spec hC hb st hR
        let diff := min (bufsz - 0) data.length
        let st2 : OState σ := { st with cs := cs', inbuf := [] ++ data.take diff, sink := st.sink ++ o }
        have hdiff : 0 < diff := by simp only [diff]; omega
        have hI2 : OInv hC st2 done (cur ++ data.take diff) := by
          refine ⟨ms, x ++ st.inbuf, y ++ o, hms, hR', ?_, ?_, ?_, ?_⟩
          · simp [st2, hsink, List.append_assoc]
          · simp [st2, hcur, List.append_assoc]
          · intro h
            have : st.inbuf = [] := (List.append_eq_nil_iff.1 h).2
            rw [this] at hfull; simp at hfull; omega
          · intro _ h
            have : (data.take diff).length = 0 := by simp [st2] at h; simp [h]
            rw [List.length_take] at this; omega
        obtain ⟨f2, st', hI', h2⟩ := ih (n - diff) (by omega) (data.drop diff) st2 done (cur ++ data.take diff) k'
          (by rw [List.length_drop]; omega) (by omega) hI2
        refine ⟨max f1 f2, st', ?_, fun f hf => ?_⟩
        · simpa [List.append_assoc, List.take_append_drop] using hI'
        · rw [appendLoop_succ]
          simp only [appendBody, hd, if_false, if_pos hfull, hfl f (by omega)]
          simpa [st2, diff] using h2 f (by omega)
      · -- room left: copy
        let diff := min (bufsz - st.inbuf.length) data.length
        let st2 : OState σ := { st with inbuf := st.inbuf ++ data.take diff }
        have hdiff : 0 < diff := by simp only [diff]; omega
        have hI2 : OInv hC st2 done (cur ++ data.take diff) := by
          refine ⟨ms, x, y, hms, hR, hsink, ?_, hxy, ?_⟩
          · simp [st2, hcur, List.append_assoc]
          · intro _ h
            have : (data.take diff).length = 0 := by
              simp [st2] at h; simp [h.2]
            rw [List.length_take] at this; omega
        obtain ⟨f2, st', hI', h2⟩ := ih (n - diff) (by omega) (data.drop diff) st2 done (cur ++ data.take diff) k'
          (by rw [List.length_drop]; omega) (by omega) hI2
        refine ⟨f2, st', ?_, fun f hf => ?_⟩
        · simpa [List.append_assoc, List.take_append_drop] using hI'
        · rw [appendLoop_succ]
          simp only [appendBody, hd, if_false, if_neg hfull]
          simpa [st2, diff] using h2 f hf

theorem oAppend_spec (hC : EncContract C Dec) {bufsz : Nat} (hb : 0 < bufsz) (st : OState σ) (done : List Bytes)
    (cur data : Bytes) (hI : OInv hC st done cur) :
    ∃ f0 st', OInv hC st' done (cur ++ data) ∧ ∀ f, f0 ≤ f → oAppend C bufsz f st data = some (.ok st') :=
  appendLoop_spec hC hb data.length data st done cur (data.length + 1) rfl (by omega) hI

theorem oFlush_spec (hC : EncContract C Dec) {bufsz : Nat} (hb : 0 < bufsz) (st : OState σ) (done : List Bytes)
    (cur : Bytes) (hI : OInv hC st done cur) :
    ∃ f0 st', OInv hC st' (if cur = [] then done else done ++ [cur]) [] ∧
      ∀ f, f0 ≤ f → oFlush C bufsz f st = some (.ok st') := by
  obtain ⟨ms, x, y, hms, hR, hsink, hcur, hxy, hxi⟩ := hI
  by_cases hin : st.inbuf = []
  · have hx : x = [] := by
      by_cases h : x = []
      · exact h
      · exact absurd hin (hxi h)
    have hc : cur = [] := by rw [hcur, hx, hin]; rfl
    refine ⟨0, { st with flushed := st.flushed + 1 }, ?_, fun f _ => ?_⟩
    · rw [if_pos hc]
      have hy := hxy hx
      rw [hx, hy] at hR
      exact ⟨ms, [], [], hms, hR, by simp [hsink, hy], by simp [hin], fun _ => rfl, fun h => absurd rfl h⟩
    · simp [oFlush, hin]
  · have hne : x ++ st.inbuf ≠ [] := by
      intro h; exact hin (List.append_eq_nil_iff.1 h).2
    obtain ⟨f0, cs', o, hR', hd, hfl⟩ := flushInbuf_true_spec hC hb st hR hne
    have hc : cur ≠ [] := by rw [hcur]; exact hne
    refine ⟨f0, { st with cs := cs', inbuf := [], sink := st.sink ++ o, flushed := st.flushed + 1 }, ?_, fun f hf => ?_⟩
    · rw [if_neg hc]
      refine ⟨ms ++ [y ++ o], [], [], Members_append hms (by rw [hcur]; exact hd), hR', ?_, by simp, fun _ => rfl, fun h => absurd rfl h⟩
      simp [hsink, List.append_assoc]
    · have hpos : 0 < st.inbuf.length := by
        cases h : st.inbuf with
        | nil => exact absurd h hin
        | cons a t => simp
      simp [oFlush, hpos, hfl f hf]

theorem oRun_spec (hC : EncContract C Dec) {bufsz : Nat} (hb : 0 < bufsz) :
    ∀ (ops : List OOp) (st : OState σ) (done : List Bytes) (cur : Bytes), OInv hC st done cur →
      ∃ f0 st', OInv hC st' (opsSegs done cur ops).1 (opsSegs done cur ops).2 ∧
        ∀ f, f0 ≤ f → oRun C bufsz f st ops = some (.ok st') := by
  intro ops
  induction ops with
  | nil => intro st done cur hI; exact ⟨0, st, hI, fun f _ => rfl⟩
  | cons op ops ih =>
    intro st done cur hI
    cases op with
    | append d =>
      obtain ⟨f1, st1, hI1, h1⟩ := oAppend_spec hC hb st done cur d hI
      obtain ⟨f2, st2, hI2, h2⟩ := ih st1 done (cur ++ d) hI1
      refine ⟨max f1 f2, st2, by simpa [opsSegs] using hI2, fun f hf => ?_⟩
      simp only [oRun, h1 f (by omega)]
      exact h2 f (by omega)
    | flush =>
      obtain ⟨f1, st1, hI1, h1⟩ := oFlush_spec hC hb st done cur hI
      obtain ⟨f2, st2, hI2, h2⟩ := ih st1 _ [] hI1
      refine ⟨max f1 f2, st2, ?_, fun f hf => ?_⟩
      · by_cases hc : cur = []
        · simpa [opsSegs, hc] using hI2
        · simpa [opsSegs, hc] using hI2
      · simp only [oRun, h1 f (by omega)]
        exact h2 f (by omega)

end Enc2

/-! ## `istream_xfrm` -/

section DecSide
variable {σ : Type} {C : Codec σ} {Dec : Bytes → Option Bytes}

theorem IsPre.refl (a : Bytes) : IsPre a a := ⟨[], by simp⟩
theorem IsPre.nil (a : Bytes) : IsPre [] a := ⟨a, rfl⟩
theorem IsPre.take (a : Bytes) (n : Nat) : IsPre (a.take n) a := ⟨a.drop n, (List.take_append_drop n a).symm⟩
theorem IsPre.append_right {a b : Bytes} (c : Bytes) (h : IsPre a b) : IsPre a (b ++ c) := by
  obtain ⟨t, rfl⟩ := h; exact ⟨t ++ c, by simp⟩
theorem IsPre.length_le {a b : Bytes} (h : IsPre a b) : a.length ≤ b.length := by
  obtain ⟨t, rfl⟩ := h; simp
theorem IsPre.trans {a b c : Bytes} (h1 : IsPre a b) (h2 : IsPre b c) : IsPre a c := by
  obtain ⟨t, rfl⟩ := h1; obtain ⟨t', rfl⟩ := h2; exact ⟨t ++ t', by simp⟩

theorem IsPre.drop_eq {v o x : Bytes} (h : IsPre (v ++ o) x) :
    x.drop v.length = o ++ x.drop (v ++ o).length := by
  obtain ⟨z, rfl⟩ := h
  simp [List.append_assoc]

theorem Members_flatten_nil (hnil : Dec [] = none) {ms xs : List Bytes} (h : Members Dec ms xs) (hf : ms.flatten = []) :
    ms = [] ∧ xs = [] := by
  cases h with
  | nil => exact ⟨rfl, rfl⟩
  | cons hm _ =>
    rename_i m x ms' xs'
    simp only [List.flatten_cons, List.append_eq_nil_iff] at hf
    rw [hf.1, hnil] at hm; cases hm

/-! ### `Link` and `Deliv` -/

theorem Link.refl (rem : Bytes) (j : Nat) : Link rem j [] rem j :=
  ⟨[], [], rfl, rfl, fun h => absurd rfl h, by simp⟩

theorem Link.of_eq {rem out rem' : Bytes} (j : Nat) (h : rem = out ++ rem') : Link rem j out rem' j :=
  ⟨out, [], by simp, h, fun h => absurd rfl h, by simp⟩

theorem Link.junk {out : Bytes} {j j' : Nat} (h : out.length + j' ≤ j) : Link [] j out [] j' :=
  ⟨[], out, by simp, rfl, fun _ => rfl, h⟩

theorem Link.trans {rem rem1 rem2 o1 o2 : Bytes} {j j1 j2 : Nat} (h1 : Link rem j o1 rem1 j1)
    (h2 : Link rem1 j1 o2 rem2 j2) : Link rem j (o1 ++ o2) rem2 j2 := by
  obtain ⟨a1, b1, ho1, hr1, hb1, hj1⟩ := h1
  obtain ⟨a2, b2, ho2, hr2, hb2, hj2⟩ := h2
  by_cases hb : b1 = []
  · subst hb
    refine ⟨a1 ++ a2, b2, by simp [ho1, ho2], by rw [hr1, hr2]; simp, hb2, ?_⟩
    simp only [List.length_nil, Nat.zero_add] at hj1
    omega
  · have h0 := hb1 hb
    rw [h0] at hr2
    have ha2 : a2 = [] := (List.append_eq_nil_iff.1 hr2.symm).1
    have hrem2 : rem2 = [] := (List.append_eq_nil_iff.1 hr2.symm).2
    subst ha2
    refine ⟨a1, b1 ++ b2, by simp [ho1, ho2], by rw [hr1, h0, hrem2], fun _ => hrem2, ?_⟩
    rw [List.length_append]; omega

theorem Link.eq_of_zero {rem out rem' : Bytes} {j' : Nat} (h : Link rem 0 out rem' j') : rem = out ++ rem' ∧ j' = 0 := by
  obtain ⟨a, b, ho, hr, _, hj⟩ := h
  have hb : b = [] := List.eq_nil_of_length_eq_zero (by omega)
  subst hb
  exact ⟨by rw [ho, hr]; simp, by omega⟩

theorem Link.nil_out {rem rem' : Bytes} {j j' : Nat} (h : Link rem j [] rem' j') : rem = rem' := by
  obtain ⟨a, b, ho, hr, _, _⟩ := h
  have := List.append_eq_nil_iff.1 ho.symm
  rw [hr, this.1]; rfl

theorem Link.length_le {X D rem : Bytes} {J j : Nat} (h : Link X J D rem j) : D.length ≤ X.length + J := by
  obtain ⟨a, b, hD, hX, _, hj⟩ := h
  rw [hD, hX]; simp only [List.length_append]; omega

theorem Link.deliv {X D rem acc : Bytes} {J j : Nat} (h : Link X J D rem j) (hp : IsPre acc D) : Deliv X J acc := by
  obtain ⟨a, b, hD, hX, hb, hj⟩ := h
  obtain ⟨t, ht⟩ := hp
  have hacc : acc = (a ++ b).take acc.length := by rw [← hD, ht]; simp
  refine ⟨a.take acc.length, b.take (acc.length - a.length), ?_, ?_, ?_, ?_⟩
  · conv => lhs; rw [hacc]
    rw [List.take_append]
  · exact (IsPre.take a _).trans ⟨rem, hX⟩
  · have : (b.take (acc.length - a.length)).length ≤ b.length := by rw [List.length_take]; omega
    omega
  · intro hne
    have hbne : b ≠ [] := by intro h0; rw [h0] at hne; simp at hne
    have hlen : a.length < acc.length := by
      by_cases hl : a.length < acc.length
      · exact hl
      · exfalso; apply hne
        have : acc.length - a.length = 0 := by omega
        rw [this]; rfl
    rw [hX, hb hbne, List.append_nil, List.take_of_length_le (by omega)]

theorem Deliv.zero {X acc : Bytes} (h : Deliv X 0 acc) : IsPre acc X := by
  obtain ⟨a, b, hacc, hp, hb, _⟩ := h
  have : b = [] := List.eq_nil_of_length_eq_zero (by omega)
  rw [hacc, this, List.append_nil]; exact hp

theorem Deliv.length_le {X acc : Bytes} {J : Nat} (h : Deliv X J acc) : acc.length ≤ X.length + J := by
  obtain ⟨a, b, hacc, hp, hb, _⟩ := h
  have := hp.length_le
  rw [hacc, List.length_append]; omega

/-! ### the ghost invariant for a per-member decoder -/

/-- no statement about input that has gone wrong -/
def Doom.none (hD : DecContract C Dec) : Doom hD where
  B := fun _ _ _ => False
  budget := fun _ => 0
  step_none := by intro s rest j h; exact h.elim
  step_full := by intro s j h; exact h.elim

/-- at a member boundary dead bytes lead into `B` -/
def Enter {hD : DecContract C Dec} (E : Doom hD) : Prop :=
  ∀ (s : σ) (c : Bytes), hD.R s [] [] → Dead Dec c → E.B s c (E.budget c.length)

/--
Ghost description of "decoder state `cs`, `rest` still in the wrapped stream (an input of kind `K`), content `rem` and
then at most `j` bytes of junk still to come".
-/
def G (hD : DecContract C Dec) (E : Doom hD) (K : Kind) (cs : σ) (rest rem : Bytes) (j : Nat) : Prop :=
  (∃ u v w x ms xs t xT, hD.R cs u v ∧ Dec (u ++ w) = some x ∧ IsPre v x ∧ Members Dec ms xs ∧ Tail Dec K t xT ∧
      rest = w ++ (ms.flatten ++ t) ∧ rem = x.drop v.length ++ (xs.flatten ++ xT) ∧
      (K ≠ Kind.corrupt → j = 0) ∧ (K = Kind.corrupt → j = E.budget t.length)) ∨
  (∃ u v w' w'' x, K = Kind.truncated ∧ hD.R cs u v ∧ Dec (u ++ (w' ++ w'')) = some x ∧ IsPre v x ∧ w'' ≠ [] ∧
      (u ≠ [] ∨ w' ≠ []) ∧ rest = w' ∧ rem = x.drop v.length ∧ j = 0) ∨
  (K = Kind.valid ∧ hD.R cs [] [] ∧ rest = [] ∧ rem = [] ∧ j = 0) ∨
  (K = Kind.corrupt ∧ rem = [] ∧ E.B cs rest j)

/-- at a member boundary -/
theorem G_boundary (hD : DecContract C Dec) (E : Doom hD) {K : Kind} (hen : K = Kind.corrupt → Enter E) {cs : σ}
    (hR : hD.R cs [] []) {ms xs : List Bytes} {t xT : Bytes} {j : Nat}
    (hms : Members Dec ms xs) (htail : Tail Dec K t xT) (hj0 : K ≠ Kind.corrupt → j = 0)
    (hjc : K = Kind.corrupt → j = E.budget t.length) :
    G hD E K cs (ms.flatten ++ t) (xs.flatten ++ xT) j := by
  cases hms with
  | cons hm hrest =>
    rename_i m x ms' xs'
    left
    exact ⟨[], [], m, x, ms', xs', t, xT, hR, by simpa using hm, IsPre.nil _, hrest, htail, by simp, by simp, hj0, hjc⟩
  | nil =>
    cases K with
    | valid =>
      obtain ⟨ht, hx⟩ := htail
      subst ht hx
      right; right; left
      exact ⟨rfl, hR, by simp, by simp, hj0 (by decide)⟩
    | truncated =>
      obtain ⟨ht, t', ht', hd⟩ := htail
      right; left
      exact ⟨[], [], t, t', xT, rfl, hR, by simpa using hd, IsPre.nil _, ht', Or.inr ht, by simp, by simp, hj0 (by decide)⟩
    | corrupt =>
      obtain ⟨hdead, hx⟩ := htail
      subst hx
      right; right; right
      refine ⟨rfl, by simp, ?_⟩
      rw [hjc rfl]
      simpa using hen rfl cs t hR hdead

/-- one `process_data` call while the wrapped stream still has data (`FLUSH_NONE`) -/
theorem G_step_none (hD : DecContract C Dec) (E : Doom hD) {K : Kind} (hen : K = Kind.corrupt → Enter E)
    {cs : σ} {rest rem : Bytes} {j : Nat} (hG : G hD E K cs rest rem j)
    (n room : Nat) (hn : 0 < n) (hnr : n ≤ rest.length) (hroom : 0 < room) :
    ∀ r, r = C.step cs (rest.take n) room Flush.none →
    (r.res = Res.error ∧ K = Kind.corrupt) ∨
    (r.res ≠ Res.error ∧ r.out.length ≤ room ∧ r.consumed ≤ n ∧
      (∃ rem' j', G hD E K r.st (rest.drop r.consumed) rem' j' ∧ Link rem j r.out rem' j') ∧
      (r.res = Res.bufferFull → r.out ≠ []) ∧
      (0 < r.consumed ∨ hD.pend r.st < hD.pend cs ∨ r.res = Res.bufferFull)) := by
  intro r hr
  have hinp : rest.take n ≠ [] := by
    intro h
    have := congrArg List.length h
    simp only [List.length_take, List.length_nil] at this
    omega
  have hlen : (rest.take n).length = n := by simp [List.length_take]; omega
  rcases hG with ⟨u, v, w, x, ms, xs, t, xT, hR, hdec, hpre, hms, htail, hrest, hrem, hj0, hjc⟩ |
      ⟨u, v, w', w'', x, hK, hR, hdec, hpre, hw'', hne, hrest, hrem, hj⟩ | ⟨_, _, hrest, _⟩ | ⟨hK, hrem, hB⟩
  · -- inside a complete member
    have hip : IsPre (rest.take n) (w ++ (ms.flatten ++ t)) := by rw [← hrest]; exact IsPre.take _ _
    obtain ⟨h1, h2, h3, h4, h5, h6, h7, h8⟩ := hD.valid w x (ms.flatten ++ t) (rest.take n) room Flush.none (by decide) hR hdec hip (fun h => by cases h)
    have hprog := hD.progress w x (ms.flatten ++ t) (rest.take n) room Flush.none (by decide) hR hdec hip (fun h => by cases h) hroom hinp
    rw [← hr] at h1 h2 h3 h4 h5 h6 h7 h8 hprog
    right
    refine ⟨h1, h4, by omega, ?_, h8, by rcases hprog with h | h; exact Or.inl h; exact Or.inr (Or.inl h)⟩
    by_cases hend : r.res = Res.streamEnd
    · obtain ⟨hc, hx, hR'⟩ := h6 hend
      refine ⟨xs.flatten ++ xT, j, ?_, Link.of_eq j ?_⟩
      · have : rest.drop r.consumed = ms.flatten ++ t := by
          rw [hrest, hc]; simp
        rw [this]
        exact G_boundary hD E hen hR' hms htail hj0 hjc
      · rw [hrem, ← hx]; simp
    · have hR' := h7 hend
      have htake : (rest.take n).take r.consumed = w.take r.consumed := by
        rw [List.take_take, Nat.min_eq_left (by omega), hrest, List.take_append_of_le_length h3]
      refine ⟨x.drop (v ++ r.out).length ++ (xs.flatten ++ xT), j, ?_, Link.of_eq j ?_⟩
      · left
        refine ⟨u ++ w.take r.consumed, v ++ r.out, w.drop r.consumed, x, ms, xs, t, xT, ?_, ?_, h5, hms, htail, ?_, rfl, hj0, hjc⟩
        · rw [← htake]; exact hR'
        · rw [List.append_assoc, List.take_append_drop]; exact hdec
        · rw [hrest, List.drop_append_of_le_length h3]
      · rw [hrem, IsPre.drop_eq h5]; simp [List.append_assoc]
  · -- inside the cut-off member
    have hip : IsPre (rest.take n) ((w' ++ w'') ++ []) := by
      rw [← hrest]; exact (IsPre.take _ _).append_right _ |>.append_right _
    obtain ⟨h1, h2, h3, h4, h5, h6, h7, h8⟩ := hD.valid (w' ++ w'') x [] (rest.take n) room Flush.none (by decide) hR hdec hip (fun h => by cases h)
    have hprog := hD.progress (w' ++ w'') x [] (rest.take n) room Flush.none (by decide) hR hdec hip (fun h => by cases h) hroom hinp
    rw [← hr] at h1 h2 h3 h4 h5 h6 h7 h8 hprog
    have hw''l : 0 < w''.length := by
      cases w'' with
      | nil => exact absurd rfl hw''
      | cons a b => simp
    have hend : r.res ≠ Res.streamEnd := by
      intro he
      have := (h6 he).1
      simp only [List.length_append] at this
      rw [← hrest] at this
      have : r.consumed ≤ n := by omega
      omega
    have hR' := h7 hend
    have hcw : r.consumed ≤ w'.length := by rw [← hrest]; omega
    have htake : (rest.take n).take r.consumed = w'.take r.consumed := by
      rw [List.take_take, Nat.min_eq_left (by omega), hrest]
    right
    refine ⟨h1, h4, by omega, ⟨x.drop (v ++ r.out).length, j, ?_, Link.of_eq j ?_⟩, h8,
      by rcases hprog with h | h; exact Or.inl h; exact Or.inr (Or.inl h)⟩
    · right; left
      refine ⟨u ++ w'.take r.consumed, v ++ r.out, w'.drop r.consumed, w'', x, hK, ?_, ?_, h5, hw'', ?_, ?_, rfl, hj⟩
      · rw [← htake]; exact hR'
      · rw [List.append_assoc, ← List.append_assoc (w'.take _), List.take_append_drop]; exact hdec
      · rcases hne with h | h
        · left; intro h'; exact h (List.append_eq_nil_iff.1 h').1
        · by_cases hc0 : r.consumed = 0
          · right; rw [hc0]; simpa using h
          · left; intro h'
            have := (List.append_eq_nil_iff.1 h').2
            have hl := congrArg List.length this
            simp only [List.length_take, List.length_nil] at hl
            omega
      · rw [hrest]
    · rw [hrem, IsPre.drop_eq h5]
  · rw [hrest] at hnr; simp at hnr; omega
  · -- the input has gone wrong
    rcases E.step_none hB n room hn hnr hroom r hr with he | ⟨hol, hcn, ⟨j', hB', hjj⟩, hbf, hprog⟩
    · exact Or.inl ⟨he, hK⟩
    · by_cases herr : r.res = Res.error
      · exact Or.inl ⟨herr, hK⟩
      · right
        refine ⟨herr, hol, hcn, ⟨[], j', Or.inr (Or.inr (Or.inr ⟨hK, rfl, hB'⟩)), ?_⟩, hbf, hprog⟩
        rw [hrem]; exact Link.junk hjj

/-- one `process_data` call at the end of the wrapped stream (`FLUSH_FULL`, no input) -/
theorem G_step_full (hD : DecContract C Dec) (E : Doom hD) {K : Kind} {cs : σ} {rem : Bytes} {j : Nat}
    (hG : G hD E K cs [] rem j) (room : Nat) (hroom : 0 < room) :
    ∀ r, r = C.step cs [] room Flush.full →
    (r.res = Res.error ∧ K ≠ Kind.valid) ∨
    (r.res ≠ Res.error ∧ r.consumed = 0 ∧ r.out.length ≤ room ∧
      (∃ rem' j', G hD E K r.st [] rem' j' ∧ Link rem j r.out rem' j') ∧
      (K = Kind.valid → r.out = [] → rem = []) ∧ (K ≠ Kind.valid → r.out ≠ [])) := by
  intro r hr
  rcases hG with ⟨u, v, w, x, ms, xs, t, xT, hR, hdec, hpre, hms, htail, hrest, hrem, hj0, hjc⟩ |
      ⟨u, v, w', w'', x, hK, hR, hdec, hpre, hw'', hne, hrest, hrem, hj⟩ | ⟨hK, hR, _, hrem, hj⟩ | ⟨hK, hrem, hB⟩
  · -- the last member has been consumed completely
    have hw : w = [] := (List.append_eq_nil_iff.1 hrest.symm).1
    have hmt := (List.append_eq_nil_iff.1 hrest.symm).2
    have ht : t = [] := (List.append_eq_nil_iff.1 hmt).2
    obtain ⟨hms0, hxs0⟩ := Members_flatten_nil hD.dec_nil hms (List.append_eq_nil_iff.1 hmt).1
    have hKv : K = Kind.valid ∧ xT = [] := by
      cases K with
      | valid => exact ⟨rfl, htail.2⟩
      | truncated => exact absurd ht htail.1
      | corrupt => exact absurd ht htail.1.1
    obtain ⟨hKv, hxT⟩ := hKv
    subst hw ht hms0 hxs0 hxT
    simp only [List.append_nil, List.flatten_nil] at hdec hrem
    obtain ⟨h1, h2, h3, h4, h5, h6, h7, h8⟩ := hD.valid [] x [] [] room Flush.full (by decide) hR (by simpa using hdec) (IsPre.nil _) (fun _ => by simp)
    have hdrain := hD.drain x room hR hdec hroom
    rw [← hr] at h1 h2 h3 h4 h5 h6 h7 h8 hdrain
    right
    refine ⟨h1, by simpa using h2, h4, ?_, ?_, (by intro h; exact absurd hKv h)⟩
    · by_cases hend : r.res = Res.streamEnd
      · obtain ⟨_, hx, hR'⟩ := h6 hend
        refine ⟨[], j, Or.inr (Or.inr (Or.inl ⟨hKv, hR', rfl, rfl, hj0 (by rw [hKv]; decide)⟩)), Link.of_eq j ?_⟩
        rw [hrem, ← hx]; simp
      · have hR' := h7 hend
        refine ⟨x.drop (v ++ r.out).length, j, Or.inl ⟨u, v ++ r.out, [], x, [], [], [], [], ?_, by simpa using hdec, h5,
          Members.nil, htail, by simp, by simp, hj0, hjc⟩, Link.of_eq j ?_⟩
        · simpa using hR'
        · rw [hrem, IsPre.drop_eq h5]
    · intro _ ho
      rcases hdrain with hd | hd
      · exact absurd ho hd
      · obtain ⟨_, hx, _⟩ := h6 hd
        rw [hrem, ← hx, ho]; simp
  · -- the stream ends inside a member
    have hw' : w' = [] := hrest.symm
    subst hw'
    have hu : u ≠ [] := by
      rcases hne with h | h
      · exact h
      · exact absurd rfl h
    have hKn : K ≠ Kind.valid := by rw [hK]; decide
    have htr := hD.truncated w'' x room hR hu hw'' (by simpa using hdec) hroom
    rw [← hr] at htr
    rcases htr with he | ⟨h1, h2, h3, h4, h5, h6⟩
    · left; exact ⟨he, hKn⟩
    · by_cases herr : r.res = Res.error
      · left; exact ⟨herr, hKn⟩
      · right
        refine ⟨herr, h3, h4, ⟨x.drop (v ++ r.out).length, j, Or.inr (Or.inl ⟨u, v ++ r.out, [], w'', x, hK, h6, hdec, h5, hw'',
          Or.inl hu, rfl, rfl, hj⟩), Link.of_eq j ?_⟩, (by intro h; exact absurd h hKn), (fun _ => h2)⟩
        rw [hrem, IsPre.drop_eq h5]
  · -- between two members: clean end of the stream
    have hidle := hD.idle_eof room hR hroom
    rw [← hr] at hidle
    obtain ⟨h1, h2, h3, h4⟩ := hidle
    right
    refine ⟨h1, h3, by rw [h2]; simp, ⟨[], j, Or.inr (Or.inr (Or.inl ⟨hK, h4, rfl, rfl, hj⟩)), Link.of_eq j (by simp [hrem, h2])⟩,
      fun _ _ => hrem, (by intro h; exact absurd hK h)⟩
  · -- the input has gone wrong: an error, or more junk — never empty-handed
    have hKn : K ≠ Kind.valid := by rw [hK]; decide
    rcases E.step_full hB room hroom r hr with he | ⟨hc, hout, hol, j', hB', hjj⟩
    · exact Or.inl ⟨he, hKn⟩
    · by_cases herr : r.res = Res.error
      · exact Or.inl ⟨herr, hKn⟩
      · right
        refine ⟨herr, hc, hol, ⟨[], j', Or.inr (Or.inr (Or.inr ⟨hK, rfl, hB'⟩)), ?_⟩, (by intro h; exact absurd h hKn), fun _ => hout⟩
        rw [hrem]; exact Link.junk hjj

/-- a per-member decoder as a stream-level decoder; `P` says which kinds of input the statement covers -/
def streamOfDoom (hD : DecContract C Dec) (E : Doom hD) (P : Kind → Prop) (hen : ∀ K, P K → K = Kind.corrupt → Enter E)
    (hPv : P Kind.valid) (hPt : P Kind.truncated) : StreamDecContract C Dec where
  G K cs rest rem j := P K ∧ G hD E K cs rest rem j
  pend := hD.pend
  start_valid := by
    intro ms xs hms
    refine ⟨hPv, ?_⟩
    have := G_boundary hD E (K := Kind.valid) (fun h => by cases h) hD.init hms (t := []) (xT := []) (j := 0) ⟨rfl, rfl⟩
      (fun _ => rfl) (fun h => by cases h)
    simpa using this
  start_truncated := by
    intro ms xs t t' xT hms ht ht' hd
    exact ⟨hPt, G_boundary hD E (K := Kind.truncated) (fun h => by cases h) hD.init hms ⟨ht, t', ht', hd⟩
      (fun _ => rfl) (fun h => by cases h)⟩
  no_junk := by
    intro K s rest rem j hG hK
    rcases hG.2 with ⟨_, _, _, _, _, _, _, _, _, _, _, _, _, _, _, hj0, _⟩ | ⟨_, _, _, _, _, _, _, _, _, _, _, _, _, hj⟩ |
        ⟨_, _, _, _, hj⟩ | ⟨hc, _, _⟩
    · exact hj0 hK
    · exact hj
    · exact hj
    · exact absurd hc hK
  step_none := by
    intro K s rest rem j hG n room hn hnr hroom r hr
    rcases G_step_none hD E (hen K hG.1) hG.2 n room hn hnr hroom r hr with h | ⟨h1, h2, h3, ⟨rem', j', hG', hL⟩, h5, h6⟩
    · exact Or.inl h
    · exact Or.inr ⟨h1, h2, h3, ⟨rem', j', ⟨hG.1, hG'⟩, hL⟩, h5, h6⟩
  step_full := by
    intro K s rem j hG room hroom r hr
    rcases G_step_full hD E hG.2 room hroom r hr with h | ⟨h1, h2, h3, ⟨rem', j', hG', hL⟩, h5, h6⟩
    · exact Or.inl h
    · exact Or.inr ⟨h1, h2, h3, ⟨rem', j', ⟨hG.1, hG'⟩, hL⟩, h5, h6⟩

/-- every decoder meeting the per-member contract meets the stream-level contract -/
def streamOfDec (hD : DecContract C Dec) : StreamDecContract C Dec :=
  streamOfDoom hD (Doom.none hD) (fun K => K ≠ Kind.corrupt) (fun _ h1 h2 => absurd h2 h1) (by decide) (by decide)

/-- … and with the contract for input that has gone wrong, also its corrupted-input part -/
def streamOfDecErr (hD : DecContract C Dec) (hE : DecErrContract hD) : StreamDecErrContract C Dec where
  toStreamDecContract := streamOfDoom hD hE.toDoom (fun _ => True) (fun _ _ _ s c hR hd => hE.enter hR hd) trivial trivial
  budget := hE.budget
  start_corrupt := by
    intro ms xs c hms hdead
    refine ⟨trivial, ?_⟩
    have := G_boundary hD hE.toDoom (K := Kind.corrupt) (fun _ s c hR hd => hE.enter hR hd) hD.init hms (t := c) (xT := [])
      (j := hE.budget c.length) ⟨hdead, rfl⟩ (fun h => absurd rfl h) (fun _ => rfl)
    simpa using this

/-! ### `precache`, `get_buffered_data`, a reader — for every stream-level decoder -/

theorem peek_nil {i : Inner} (h : i.rest = []) :
    i.peek.1 = [] ∧ i.peek.2.1 = true ∧ i.peek.2.2.rest = [] := by
  simp [Inner.peek, h]

theorem peek_cons {i : Inner} (h : i.rest ≠ []) :
    ∃ n, 0 < n ∧ n ≤ i.rest.length ∧ i.peek.1 = i.rest.take n ∧ i.peek.2.1 = false ∧ i.peek.2.2.rest = i.rest := by
  have hl : i.rest.length ≠ 0 := by
    intro h0; exact h (List.eq_nil_of_length_eq_zero h0)
  cases hs : i.script with
  | nil => exact ⟨i.rest.length, by omega, Nat.le_refl _, by simp [Inner.peek, hl, hs], by simp [Inner.peek, hl], by simp [Inner.peek, hl]⟩
  | cons k t =>
    exact ⟨min (k + 1) i.rest.length, by omega, by omega, by simp [Inner.peek, hl, hs], by simp [Inner.peek, hl], by simp [Inner.peek, hl]⟩

/-- what `precache`'s loop achieves -/
def PrecachePost (S : StreamDecContract C Dec) (K : Kind) (bufsz : Nat) (buf0 rem0 : Bytes) (j0 : Nat)
    (r : Except Int (σ × Bytes × Inner)) : Prop :=
  (r = .error errCompressor ∧ K ≠ Kind.valid) ∨
  ∃ cs' o inner' rem' j', r = .ok (cs', buf0 ++ o, inner') ∧ (buf0 ++ o).length ≤ bufsz ∧ S.G K cs' inner'.rest rem' j' ∧
    Link rem0 j0 o rem' j' ∧ (K = Kind.valid → o = [] → rem0 = []) ∧ (K ≠ Kind.valid → o ≠ [])

theorem precacheLoop_spec (S : StreamDecContract C Dec) {bufsz : Nat} {K : Kind} {cs : σ} {buf0 rem0 : Bytes} {j0 : Nat}
    {inner : Inner} (hG : S.G K cs inner.rest rem0 j0) (hlen : buf0.length < bufsz) :
    ∃ f r, precacheLoop C bufsz f cs buf0 inner = some r ∧ PrecachePost S K bufsz buf0 rem0 j0 r := by
  refine iter_total (precacheBody C bufsz)
    (fun a => ∃ o rem1 j1, a.2.1 = buf0 ++ o ∧ a.2.1.length < bufsz ∧ S.G K a.1 a.2.2.rest rem1 j1 ∧ Link rem0 j0 o rem1 j1)
    (PrecachePost S K bufsz buf0 rem0 j0)
    (fun a => (a.2.2.rest.length, S.pend a.1)) ?_ (cs, buf0, inner) ⟨[], rem0, j0, by simp, hlen, hG, Link.refl _ _⟩
  rintro ⟨cs1, buf1, inner1⟩ ⟨o, rem1, j1, hbuf, hl1, hG1, hrem⟩
  simp only at hbuf hl1 hG1 hrem
  have hroom : 0 < bufsz - buf1.length := by omega
  by_cases hrest : inner1.rest = []
  · -- end of the wrapped stream: one call with FLUSH_FULL, then leave
    obtain ⟨hp1, hp2, hp3⟩ := peek_nil hrest
    rw [hrest] at hG1
    have hstep := S.step_full hG1 (bufsz - buf1.length) hroom _ rfl
    simp only [precacheBody, hp1, hp2, if_true]
    rcases hstep with ⟨he, hK⟩ | ⟨hne, hc, hol, ⟨rem', j', hG', hr'⟩, hF, hTt⟩
    · rw [if_pos he]
      exact ⟨fun r hr => by cases hr; exact Or.inl ⟨rfl, hK⟩, fun a' h => by cases h⟩
    · rw [if_neg hne]
      rw [ite_self]
      refine ⟨fun r hr => ?_, fun a' h => by cases h⟩
      cases hr
      right
      refine ⟨(C.step cs1 [] (bufsz - buf1.length) Flush.full).st, o ++ (C.step cs1 [] (bufsz - buf1.length) Flush.full).out,
        inner1.peek.2.2.advance (C.step cs1 [] (bufsz - buf1.length) Flush.full).consumed, rem', j', by rw [← List.append_assoc, ← hbuf], ?_, ?_, ?_, ?_, ?_⟩
      · rw [← List.append_assoc, ← hbuf, List.length_append]; omega
      · simpa [Inner.advance, hp3] using hG'
      · exact hrem.trans hr'
      · intro hK ho
        obtain ⟨ho1, ho2⟩ := List.append_eq_nil_iff.1 ho
        rw [ho1] at hrem
        rw [hrem.nil_out, hF hK ho2]
      · intro hK ho
        exact hTt hK (List.append_eq_nil_iff.1 ho).2
  · -- data available: one call with FLUSH_NONE
    obtain ⟨n, hn0, hn1, hp1, hp2, hp3⟩ := peek_cons hrest
    simp only [precacheBody, hp1, hp2, Bool.false_eq_true, if_false]
    rcases S.step_none hG1 n (bufsz - buf1.length) hn0 hn1 hroom _ rfl with ⟨he, hK⟩ |
        ⟨hne, hol, hcn, ⟨rem', j', hG', hr'⟩, hbf, hprog⟩
    · rw [if_pos he]
      exact ⟨fun r hr => by cases hr; exact Or.inl ⟨rfl, by rw [hK]; decide⟩, fun a' h => by cases h⟩
    rw [if_neg hne]
    by_cases hexit : ((C.step cs1 (inner1.rest.take n) (bufsz - buf1.length) Flush.none).res = Res.bufferFull ||
        decide (bufsz ≤ (buf1 ++ (C.step cs1 (inner1.rest.take n) (bufsz - buf1.length) Flush.none).out).length)) = true
    · rw [if_pos hexit]
      refine ⟨fun r hr => ?_, fun a' h => by cases h⟩
      cases hr
      right
      have hout : (C.step cs1 (inner1.rest.take n) (bufsz - buf1.length) Flush.none).out ≠ [] := by
        simp only [Bool.or_eq_true, decide_eq_true_eq] at hexit
        rcases hexit with h | h
        · exact hbf h
        · intro h0; rw [h0] at h; simp at h; omega
      refine ⟨(C.step cs1 (inner1.rest.take n) (bufsz - buf1.length) Flush.none).st,
        o ++ (C.step cs1 (inner1.rest.take n) (bufsz - buf1.length) Flush.none).out,
        inner1.peek.2.2.advance (C.step cs1 (inner1.rest.take n) (bufsz - buf1.length) Flush.none).consumed, rem', j', by rw [← List.append_assoc, ← hbuf], ?_, ?_, ?_, ?_, ?_⟩
      · rw [← List.append_assoc, ← hbuf, List.length_append]; omega
      · simpa [Inner.advance, hp3] using hG'
      · exact hrem.trans hr'
      · intro _ ho; exact absurd (List.append_eq_nil_iff.1 ho).2 hout
      · intro _ ho; exact hout (List.append_eq_nil_iff.1 ho).2
    · rw [if_neg hexit]
      simp only [Bool.or_eq_true, decide_eq_true_eq, not_or, Nat.not_le] at hexit
      refine ⟨fun r hr => (by cases hr), fun a' h => ?_⟩
      cases h
      refine ⟨⟨o ++ (C.step cs1 (inner1.rest.take n) (bufsz - buf1.length) Flush.none).out, rem', j', by rw [← List.append_assoc, ← hbuf], hexit.2, ?_, ?_⟩, ?_⟩
      · simpa [Inner.advance, hp3] using hG'
      · exact hrem.trans hr'
      · simp only [LexLt, Inner.advance, hp3, List.length_drop]
        rcases hprog with hp | hp | hp
        · left; omega
        · by_cases hc : (C.step cs1 (inner1.rest.take n) (bufsz - buf1.length) Flush.none).consumed = 0
          · right; exact ⟨by omega, hp⟩
          · left; omega
        · exact absurd hp hexit.1

/-- invariant of the input stream between two reader operations; `rem` = content not yet in the buffer -/
def IInv (S : StreamDecContract C Dec) (K : Kind) (bufsz : Nat) (st : IState σ) (rem : Bytes) (j : Nat) : Prop :=
  st.off ≤ st.buf.length ∧ st.buf.length ≤ bufsz ∧ S.G K st.cs st.inner.rest rem j

theorem iGet_spec (S : StreamDecContract C Dec) {bufsz : Nat} (hb : 0 < bufsz) {K : Kind} {st : IState σ} {rem : Bytes} {j : Nat}
    (hI : IInv S K bufsz st rem j) (want : Nat) :
    ∃ f0 r, (∀ f, f0 ≤ f → iGet C bufsz f st want = some r) ∧
      ((r = .error errCompressor ∧ K ≠ Kind.valid) ∨
       ∃ st' rem' j' o, r = .ok (st', st'.buf.drop st'.off, decide ((st'.buf.drop st'.off).length = 0)) ∧
         IInv S K bufsz st' rem' j' ∧ st'.buf.drop st'.off = st.buf.drop st.off ++ o ∧ Link rem j o rem' j' ∧
         (0 < want → st'.buf.drop st'.off = [] → K = Kind.valid ∧ rem' = [])) := by
  obtain ⟨hoff, hlen, hG⟩ := hI
  by_cases hpre : (st.buf.length = 0 || decide (st.buf.length - st.off < (if bufsz < want then bufsz else want))) = true
  · -- precache
    have hl0 : (st.buf.drop st.off).length < bufsz := by
      simp only [Bool.or_eq_true, decide_eq_true_eq] at hpre
      rw [List.length_drop]
      rcases hpre with h | h
      · omega
      · split at h <;> omega
    obtain ⟨f0, r, hrun, hpost⟩ := precacheLoop_spec S hG hl0
    rcases hpost with ⟨rfl, hK⟩ | ⟨cs', o, inner', rem', j', rfl, hl', hG', hrem, hF, hTt⟩
    · refine ⟨f0, .error errCompressor, fun f hf => ?_, Or.inl ⟨rfl, hK⟩⟩
      have := iter_mono _ _ _ _ hrun f hf
      simp only [iGet, hpre, if_true, precache, precacheLoop] at this ⊢
      rw [this]
    · refine ⟨f0, _, fun f hf => ?_, Or.inr ⟨{ cs := cs', buf := st.buf.drop st.off ++ o, off := 0, inner := inner' }, rem', j', o, rfl,
        ⟨Nat.zero_le _, hl', hG'⟩, by simp, hrem, ?_⟩⟩
      · have := iter_mono _ _ _ _ hrun f hf
        simp only [iGet, hpre, if_true, precache, precacheLoop] at this ⊢
        rw [this]
      · intro _ hv
        simp only [List.drop_zero] at hv
        obtain ⟨h1, h2⟩ := List.append_eq_nil_iff.1 hv
        by_cases hK : K = Kind.valid
        · have h0 := hF hK h2
          rw [h2] at hrem
          exact ⟨hK, by rw [← hrem.nil_out, h0]⟩
        · exact absurd h2 (hTt hK)
  · -- enough buffered
    refine ⟨0, _, fun f _ => ?_, Or.inr ⟨st, rem, j, [], rfl, ⟨hoff, hlen, hG⟩, by simp, Link.refl _ _, ?_⟩⟩
    · simp only [iGet, hpre]; rfl
    · intro hw hv
      exfalso
      simp only [Bool.or_eq_true, decide_eq_true_eq, not_or, Nat.not_lt] at hpre
      have := congrArg List.length hv
      simp only [List.length_drop, List.length_nil] at this
      obtain ⟨h1, h2⟩ := hpre
      split at h2 <;> omega

/-- the number of reader rounds that take at least one byte (when there is one) -/
def takingRounds (ops : List (Nat × Nat)) : Nat := (ops.filter (fun op => decide (0 < op.2))).length

theorem takingRounds_all {ops : List (Nat × Nat)} (h : ∀ op ∈ ops, 0 < op.2) : takingRounds ops = ops.length := by
  unfold takingRounds
  rw [List.filter_eq_self.2 (fun op hop => by simpa using h op hop)]

theorem takingRounds_append (a b : List (Nat × Nat)) : takingRounds (a ++ b) = takingRounds a + takingRounds b := by
  simp [takingRounds]

theorem takingRounds_replicate (n want take : Nat) (ht : 0 < take) : takingRounds (List.replicate n (want, take)) = n := by
  rw [takingRounds_all (fun op hop => by rw [List.eq_of_mem_replicate hop]; exact ht), List.length_replicate]

theorem iRead_spec (S : StreamDecContract C Dec) {bufsz : Nat} (hb : 0 < bufsz) {K : Kind} (X : Bytes) (J : Nat)
    (hJ : K ≠ Kind.corrupt → J = 0) :
    ∀ (ops : List (Nat × Nat)) (st : IState σ) (rem : Bytes) (j : Nat) (acc : Bytes), IInv S K bufsz st rem j →
      Link X J (acc ++ st.buf.drop st.off) rem j → (∀ op ∈ ops, 0 < op.1) →
      ∃ f0 r, (∀ f, f0 ≤ f → iRead C bufsz f st ops acc = some r) ∧
        ((r = .error errCompressor ∧ K ≠ Kind.valid) ∨
         ∃ st' acc' eof, r = .ok (st', acc', eof) ∧ Deliv X J acc' ∧ (eof = true → K = Kind.valid ∧ acc' = X) ∧
           (eof = true ∨ acc.length + takingRounds ops ≤ acc'.length)) := by
  intro ops
  induction ops with
  | nil =>
    intro st rem j acc _ hX _
    exact ⟨0, _, fun f _ => rfl, Or.inr ⟨st, acc, false, rfl, hX.deliv ⟨_, rfl⟩, (by intro h; cases h), Or.inr (by simp [takingRounds])⟩⟩
  | cons op ops ih =>
    intro st rem j acc hI hX hw
    obtain ⟨want, take⟩ := op
    obtain ⟨f1, r1, hrun1, hpost1⟩ := iGet_spec S hb hI want
    rcases hpost1 with ⟨rfl, hK⟩ | ⟨st1, rem1, j1, o, rfl, hI1, hvis, hL, hempty⟩
    · refine ⟨f1, .error errCompressor, fun f hf => ?_, Or.inl ⟨rfl, hK⟩⟩
      simp only [iRead, hrun1 f hf]
    · have hX1 : Link X J (acc ++ st1.buf.drop st1.off) rem1 j1 := by
        rw [hvis, ← List.append_assoc]; exact hX.trans hL
      by_cases hv : (st1.buf.drop st1.off).length = 0
      · -- end of stream reported
        have hvn : st1.buf.drop st1.off = [] := List.eq_nil_of_length_eq_zero hv
        obtain ⟨hKv, hr⟩ := hempty (hw (want, take) (List.mem_cons_self ..)) hvn
        refine ⟨f1, .ok (st1, acc, true), fun f hf => ?_, Or.inr ⟨st1, acc, true, rfl, hX1.deliv ⟨_, rfl⟩, ?_, Or.inl rfl⟩⟩
        · simp only [iRead, hrun1 f hf, hv, decide_true, if_true]
        · intro _
          refine ⟨hKv, ?_⟩
          rw [hvn, hr, hJ (by rw [hKv]; decide)] at hX1
          have := hX1.eq_of_zero.1
          simpa using this.symm
      · -- data: take some, go on
        let n := min take (st1.buf.drop st1.off).length
        have hnle : n ≤ st1.buf.length - st1.off := by
          simp only [n, List.length_drop]; omega
        obtain ⟨hoff1, hlen1, hG1⟩ := hI1
        have hadv : iAdvance st1 n = some { st1 with off := st1.off + n } := by
          simp only [iAdvance]; rw [if_pos]; constructor <;> omega
        have hI2 : IInv S K bufsz { st1 with off := st1.off + n } rem1 j1 := ⟨by simp only; omega, hlen1, hG1⟩
        have hsplit : st1.buf.drop st1.off = (st1.buf.drop st1.off).take n ++ st1.buf.drop (st1.off + n) := by
          rw [← List.drop_drop, List.take_append_drop]
        have hX2 : Link X J ((acc ++ (st1.buf.drop st1.off).take n) ++ st1.buf.drop (st1.off + n)) rem1 j1 := by
          rw [List.append_assoc, ← hsplit]; exact hX1
        obtain ⟨f2, r2, hrun2, hpost2⟩ := ih { st1 with off := st1.off + n } rem1 j1 (acc ++ (st1.buf.drop st1.off).take n) hI2 hX2
          (fun op hop => hw op (List.mem_cons_of_mem _ hop))
        refine ⟨max f1 f2, r2, fun f hf => ?_, ?_⟩
        · simp only [iRead, hrun1 f (by omega), hv, decide_false, Bool.false_eq_true, if_false]
          rw [show iAdvance st1 (min take (List.drop st1.off st1.buf).length) = _ from hadv]
          exact hrun2 f (by omega)
        · rcases hpost2 with h | ⟨st', acc', eof, rfl, hp, he, hlive⟩
          · exact Or.inl h
          · refine Or.inr ⟨st', acc', eof, rfl, hp, he, ?_⟩
            rcases hlive with h | h
            · exact Or.inl h
            · right
              have hcount : takingRounds ((want, take) :: ops) = (if 0 < take then 1 else 0) + takingRounds ops := by
                unfold takingRounds
                by_cases ht0 : 0 < take
                · simp [ht0]; omega
                · simp [ht0]
              rw [hcount]
              simp only [List.length_append, List.length_take] at h
              by_cases ht0 : 0 < take
              · have : 0 < n := by simp only [n]; omega
                simp only [n] at this
                rw [if_pos ht0]
                omega
              · rw [if_neg ht0]
                omega

end DecSide

/-! ## the toy codec -/
namespace Toy

theorem encBytes_append (a b : Bytes) : encBytes (a ++ b) = encBytes a ++ encBytes b := by
  induction a with
  | nil => rfl
  | cons h t ih => simp [encBytes, ih]

theorem decode_encBytes_cons (x : Bytes) : decode (encBytes x ++ [0]) = some x := by
  induction x with
  | nil => simp [encBytes, decode]
  | cons b t ih =>
    simp only [encBytes, List.cons_append]
    rw [decode]
    simp [ih]

theorem decode_encode (x : Bytes) : decode (encode x) = some x := decode_encBytes_cons x

def EncR (s : Enc) (x y : Bytes) (fin : Bool) : Prop :=
  y ++ s.q = encBytes x ++ (if s.fin then [0] else []) ∧ (s.fin = true → fin = true)

def encPend (s : Enc) : Nat := s.q.length + (if s.fin then 0 else 2)

/-- the quantities of one encoder call -/
def encN (P : Params) (s : Enc) (inp : Bytes) : Nat :=
  if s.fin then 0 else if s.q.length ≤ P.thresh then min (P.absorb + 1) inp.length else 0
def encFin (P : Params) (s : Enc) (inp : Bytes) (fl : Flush) : Bool :=
  s.fin || (decide (fl = Flush.full) && decide (encN P s inp = inp.length))
def encQ (P : Params) (s : Enc) (inp : Bytes) (fl : Flush) : Bytes :=
  if encFin P s inp fl && !s.fin then s.q ++ encBytes (inp.take (encN P s inp)) ++ [0]
  else s.q ++ encBytes (inp.take (encN P s inp))
def encM (P : Params) (s : Enc) (inp : Bytes) (room : Nat) (fl : Flush) : Nat :=
  min (min room (P.gran + 1)) (encQ P s inp fl).length

theorem encStep_eq (P : Params) (s : Enc) (inp : Bytes) (room : Nat) (fl : Flush) (hr : 0 < room) :
    encStep P s inp room fl =
      if encFin P s inp fl && decide (((encQ P s inp fl).drop (encM P s inp room fl)).length = 0) then
        ⟨⟨[], false⟩, encN P s inp, (encQ P s inp fl).take (encM P s inp room fl), Res.streamEnd⟩
      else ⟨⟨(encQ P s inp fl).drop (encM P s inp room fl), encFin P s inp fl⟩, encN P s inp,
            (encQ P s inp fl).take (encM P s inp room fl), Res.ok⟩ := by
  have : ¬ room = 0 := by omega
  simp only [encStep, this, if_false, encFin, encQ, encM, encN]
  rfl

theorem encStep_room0 (P : Params) (s : Enc) (inp : Bytes) (fl : Flush) :
    encStep P s inp 0 fl = ⟨s, 0, [], Res.ok⟩ := by simp [encStep]

theorem encN_le (P : Params) (s : Enc) (inp : Bytes) : encN P s inp ≤ inp.length := by
  unfold encN; split
  · omega
  · split <;> omega

theorem encN_fin {P : Params} {s : Enc} {inp : Bytes} (h : s.fin = true) : encN P s inp = 0 := by
  simp [encN, h]

theorem encQ_inv {P : Params} {s : Enc} {x y : Bytes} {fin : Bool} (inp : Bytes) (fl : Flush) (hR : EncR s x y fin) :
    y ++ encQ P s inp fl = encBytes (x ++ inp.take (encN P s inp)) ++ (if encFin P s inp fl then [0] else []) := by
  obtain ⟨h1, _⟩ := hR
  cases hf : s.fin with
  | true =>
    have hn : encN P s inp = 0 := encN_fin hf
    simp [encQ, encFin, hf, hn, encBytes] at h1 ⊢
    exact h1
  | false =>
    rw [hf] at h1
    simp only [if_false, Bool.false_eq_true, List.append_nil] at h1
    cases he : encFin P s inp fl with
    | true => simp [encQ, he, hf, encBytes_append, ← h1, List.append_assoc]
    | false => simp [encQ, he, encBytes_append, ← h1, List.append_assoc]

theorem encQ_length (P : Params) (s : Enc) (inp : Bytes) (fl : Flush) :
    (encQ P s inp fl).length = s.q.length + (encBytes (inp.take (encN P s inp))).length +
      (if encFin P s inp fl && !s.fin then 1 else 0) := by
  unfold encQ; split <;> simp [*, Nat.add_assoc]

theorem encM_pos {P : Params} {s : Enc} {inp : Bytes} {room : Nat} {fl : Flush} (hr : 0 < room)
    (hq : 0 < (encQ P s inp fl).length) : 0 < encM P s inp room fl := by
  unfold encM; omega

/-- the toy encoder meets the encoder contract, for every setting of its knobs -/
def encContract (P : Params) : EncContract (encoder P) decode where
  R := EncR
  pend := encPend
  init := by simp [EncR, encoder, encBytes]
  no_error := by
    intro s x y fin inp room fl _ _
    by_cases hr : 0 < room
    · show (encStep P s inp room fl).res ≠ Res.error
      rw [encStep_eq P s inp room fl hr]; split <;> simp
    · have : room = 0 := by omega
      subst this; show (encStep P s inp 0 fl).res ≠ Res.error; rw [encStep_room0]; simp
  consumed_le := by
    intro s x y fin inp room fl _ _
    by_cases hr : 0 < room
    · show (encStep P s inp room fl).consumed ≤ _
      rw [encStep_eq P s inp room fl hr]; split <;> exact encN_le P s inp
    · have : room = 0 := by omega
      subst this; show (encStep P s inp 0 fl).consumed ≤ _; rw [encStep_room0]; simp
  out_le := by
    intro s x y fin inp room fl _ _
    by_cases hr : 0 < room
    · show (encStep P s inp room fl).out.length ≤ _
      rw [encStep_eq P s inp room fl hr]
      split <;> (simp only [List.length_take, encM]; omega)
    · have : room = 0 := by omega
      subst this; show (encStep P s inp 0 fl).out.length ≤ _; rw [encStep_room0]; simp
  keep := by
    intro s x y fin inp room fl hR hP hne
    simp only [show (encoder P).step = encStep P from rfl] at hne ⊢
    by_cases hr : 0 < room
    · have hq := encQ_inv (P := P) inp fl hR
      show EncR (encStep P s inp room fl).st _ _ _
      rw [encStep_eq P s inp room fl hr] at hne ⊢
      split at hne
      · exact absurd rfl hne
      · rename_i hc
        rw [if_neg hc]
        refine ⟨?_, ?_⟩
        · simp only [List.append_assoc, List.take_append_drop]; exact hq
        · intro he
          simp only [encFin, Bool.or_eq_true, Bool.and_eq_true] at he
          rcases he with he | ⟨h1, h2⟩
          · simp [hR.2 he]
          · simp [h1, h2]
    · have : room = 0 := by omega
      subst this
      show EncR (encStep P s inp 0 fl).st _ _ _
      rw [encStep_room0]
      refine ⟨by simpa using hR.1, fun h => by simp [hR.2 h]⟩
  finish := by
    intro s x y fin inp room fl hR hP he
    by_cases hr : 0 < room
    · have hq := encQ_inv (P := P) inp fl hR
      change (encStep P s inp room fl).res = Res.streamEnd at he
      show fl ≠ Flush.none ∧ (encStep P s inp room fl).consumed = _ ∧ EncR (encStep P s inp room fl).st [] [] false ∧
        (x ++ inp ≠ [] → decode (y ++ (encStep P s inp room fl).out) = some (x ++ inp))
      rw [encStep_eq P s inp room fl hr] at he ⊢
      split at he
      · rename_i hc
        rw [if_pos hc]
        simp only [Bool.and_eq_true, decide_eq_true_eq] at hc
        obtain ⟨hfin, hdrop⟩ := hc
        have hfl : fl = Flush.full ∧ encN P s inp = inp.length := by
          have := hfin
          simp only [encFin, Bool.or_eq_true, Bool.and_eq_true, decide_eq_true_eq] at this
          rcases this with h | h
          · obtain ⟨h1, h2⟩ := hP.2 (hR.2 h)
            exact ⟨h1, by rw [encN_fin h, h2]; rfl⟩
          · exact h
        refine ⟨by rw [hfl.1]; simp, hfl.2, by simp [EncR, encBytes], ?_⟩
        intro _
        have htake : (encQ P s inp fl).take (encM P s inp room fl) = encQ P s inp fl := by
          have := List.take_append_drop (encM P s inp room fl) (encQ P s inp fl)
          rw [List.eq_nil_of_length_eq_zero hdrop, List.append_nil] at this
          exact this
        show decode (y ++ (encQ P s inp fl).take (encM P s inp room fl)) = _
        rw [htake, hq, hfin, hfl.2, List.take_length]
        exact decode_encBytes_cons _
      · cases he
    · have : room = 0 := by omega
      subst this
      change (encStep P s inp 0 fl).res = Res.streamEnd at he
      rw [encStep_room0] at he; cases he
  progress := by
    intro s x y fin inp room fl hR hP hr hin hne
    change (encStep P s inp room fl).res ≠ Res.streamEnd at hne
    show 0 < (encStep P s inp room fl).consumed ∨ encPend (encStep P s inp room fl).st < encPend s
    rw [encStep_eq P s inp room fl hr] at hne ⊢
    split at hne
    · exact absurd rfl hne
    · rename_i hc
      rw [if_neg hc]
      simp only [Bool.and_eq_true, decide_eq_true_eq, not_and] at hc
      by_cases hn : 0 < encN P s inp
      · left; exact hn
      · right
        have hn0 : encN P s inp = 0 := by omega
        have hql := encQ_length P s inp fl
        simp only [hn0, List.take_zero, encBytes, List.length_nil, Nat.add_zero] at hql
        simp only [encPend, List.length_drop]
        cases hf : s.fin with
        | true =>
          have hfin : encFin P s inp fl = true := by simp [encFin, hf]
          have hd := hc hfin
          simp only [hfin, hf, Bool.not_true, Bool.and_false, Bool.false_eq_true, if_false, Nat.add_zero] at hql
          simp only [List.length_drop] at hd
          have hm := encM_pos (P := P) (s := s) (inp := inp) (fl := fl) hr (by omega)
          simp only [hfin, if_true]; omega
        | false =>
          cases he : encFin P s inp fl with
          | true =>
            simp only [he, hf, Bool.not_false, Bool.and_self, if_true] at hql
            have hm := encM_pos (P := P) (s := s) (inp := inp) (fl := fl) hr (by omega)
            simp; omega
          | false =>
            simp only [he, Bool.false_and, Bool.false_eq_true, if_false, Nat.add_zero] at hql
            have hq : 0 < s.q.length := by
              simp only [encN, hf, Bool.false_eq_true, if_false] at hn0
              split at hn0
              · have hlen : inp.length = 0 := by omega
                have hnil : inp = [] := List.eq_nil_of_length_eq_zero hlen
                rcases hin with h | ⟨h, _⟩
                · exact absurd hnil h
                · simp [encFin, hf, h, encN, hlen] at he
              · omega
            have hm := encM_pos (P := P) (s := s) (inp := inp) (fl := fl) hr (by omega)
            simp; omega

/-! ### the toy decoder -/

/-- the rest of a member as seen from a parser state -/
def decodeFrom : Bool → Bytes → Option Bytes
  | false, w => decode w
  | true, [] => none
  | true, b :: r => (decode r).map (b :: ·)

theorem decode_cons_cons (m b : UInt8) (r : Bytes) :
    decode (m :: b :: r) = if m = 1 then (decode r).map (b :: ·) else none := by
  rw [decode]

theorem decodeFrom_false_cons (h : UInt8) (t : Bytes) (y : Bytes) (hd : decodeFrom false (h :: t) = some y) :
    (h = 0 ∧ t = [] ∧ y = []) ∨ (h = 1 ∧ decodeFrom true t = some y) := by
  simp only [decodeFrom] at hd
  cases t with
  | nil =>
    simp only [decode] at hd
    split at hd
    · left; cases hd; exact ⟨by assumption, rfl, rfl⟩
    · cases hd
  | cons b r =>
    rw [decode_cons_cons] at hd
    split at hd
    · right; exact ⟨by assumption, by simpa [decodeFrom] using hd⟩
    · cases hd

theorem decodeFrom_true_cons (b : UInt8) (t : Bytes) (y : Bytes) (hd : decodeFrom true (b :: t) = some y) :
    ∃ y', y = b :: y' ∧ decodeFrom false t = some y' := by
  simp only [decodeFrom, Option.map_eq_some_iff] at hd
  obtain ⟨y', h1, h2⟩ := hd
  exact ⟨y', h2.symm, h1⟩

theorem parse_nil (i : Bool) : parse i [] = (0, [], i, false, false) := by cases i <;> rfl

theorem parse_true_cons (b : UInt8) (r : Bytes) :
    parse true (b :: r) = ((parse false r).1 + 1, b :: (parse false r).2.1, (parse false r).2.2.1,
      (parse false r).2.2.2.1, (parse false r).2.2.2.2) := by
  rw [parse]

theorem parse_false_cons (m : UInt8) (r : Bytes) :
    parse false (m :: r) =
      if m = 0 then (1, [], false, true, false)
      else if m = 1 then ((parse true r).1 + 1, (parse true r).2.1, (parse true r).2.2.1, (parse true r).2.2.2.1, (parse true r).2.2.2.2)
      else (0, [], false, false, true) := by
  rw [parse]

/-- a complete rest of a member is parsed to its end -/
theorem parse_whole : ∀ (w : Bytes) (i : Bool) (y : Bytes), decodeFrom i w = some y →
    parse i w = (w.length, y, false, true, false) := by
  intro w
  induction w with
  | nil => intro i y h; cases i <;> simp [decodeFrom, decode] at h
  | cons h t ih =>
    intro i y hd
    cases i with
    | true =>
      obtain ⟨y', rfl, hd'⟩ := decodeFrom_true_cons h t y hd
      rw [parse_true_cons, ih false y' hd']
      rfl
    | false =>
      rcases decodeFrom_false_cons h t y hd with ⟨rfl, rfl, rfl⟩ | ⟨rfl, hd'⟩
      · rw [parse_false_cons]; simp
      · rw [parse_false_cons, ih true y hd']; simp

/-- a proper prefix of the rest of a member is parsed completely, without reaching the end -/
theorem parse_prefix : ∀ (w : Bytes) (i : Bool) (y : Bytes) (k : Nat), decodeFrom i w = some y → k < w.length →
    ∃ d i', parse i (w.take k) = (k, d, i', false, false) ∧ IsPre d y := by
  intro w
  induction w with
  | nil => intro i y k _ hk; simp at hk
  | cons h t ih =>
    intro i y k hd hk
    cases k with
    | zero => exact ⟨[], i, by simp [parse_nil], IsPre.nil _⟩
    | succ k =>
      have hk' : k < t.length := by simpa using hk
      cases i with
      | true =>
        obtain ⟨y', rfl, hd'⟩ := decodeFrom_true_cons h t y hd
        obtain ⟨d, i', hp, hpre⟩ := ih false y' k hd' hk'
        refine ⟨h :: d, i', by rw [List.take_succ_cons, parse_true_cons, hp], ?_⟩
        obtain ⟨z, rfl⟩ := hpre
        exact ⟨z, rfl⟩
      | false =>
        rcases decodeFrom_false_cons h t y hd with ⟨rfl, rfl, rfl⟩ | ⟨rfl, hd'⟩
        · simp at hk'
        · obtain ⟨d, i', hp, hpre⟩ := ih true y k hd' hk'
          exact ⟨d, i', by rw [List.take_succ_cons, parse_false_cons, hp]; simp, hpre⟩

/-- once the terminator has been parsed, nothing more is looked at -/
theorem parse_done_append : ∀ (a : Bytes) (i : Bool) (d : Bytes) (i' : Bool) (b : Bytes),
    parse i a = (a.length, d, i', true, false) → parse i (a ++ b) = (a.length, d, i', true, false) := by
  intro a
  induction a with
  | nil => intro i d i' b h; rw [parse_nil] at h; cases h
  | cons h t ih =>
    intro i d i' b hp
    cases i with
    | true =>
      rcases hpt : parse false t with ⟨c, d0, i0, dn0, bd0⟩
      rw [parse_true_cons, hpt] at hp
      simp only [Prod.mk.injEq, List.length_cons, Nat.add_right_cancel_iff] at hp
      obtain ⟨rfl, rfl, rfl, rfl, rfl⟩ := hp
      rw [List.cons_append, parse_true_cons, ih false d0 i0 b hpt]
      rfl
    | false =>
      rw [parse_false_cons] at hp
      rw [List.cons_append, parse_false_cons]
      by_cases h0 : h = 0
      · rw [if_pos h0] at hp ⊢
        simp only [Prod.mk.injEq, List.length_cons] at hp
        obtain ⟨hl, rfl, rfl, _, _⟩ := hp
        have : t.length = 0 := by omega
        simp [this]
      · rw [if_neg h0] at hp ⊢
        by_cases h1 : h = 1
        · rw [if_pos h1] at hp ⊢
          rcases hpt : parse true t with ⟨c, d0, i0, dn0, bd0⟩
          rw [hpt] at hp
          simp only [Prod.mk.injEq, List.length_cons, Nat.add_right_cancel_iff] at hp
          obtain ⟨rfl, rfl, rfl, rfl, rfl⟩ := hp
          rw [ih true d0 i0 b hpt]
          rfl
        · rw [if_neg h1] at hp; simp at hp

/-- parsing continues where a not yet finished parse stopped -/
theorem parse_append : ∀ (a : Bytes) (i : Bool) (d : Bytes) (i' : Bool) (b : Bytes),
    parse i a = (a.length, d, i', false, false) →
    parse i (a ++ b) = (a.length + (parse i' b).1, d ++ (parse i' b).2.1, (parse i' b).2.2.1,
      (parse i' b).2.2.2.1, (parse i' b).2.2.2.2) := by
  intro a
  induction a with
  | nil =>
    intro i d i' b h
    rw [parse_nil] at h
    simp only [Prod.mk.injEq] at h
    obtain ⟨_, h2, h3, _⟩ := h
    subst h2 h3
    simp
  | cons h t ih =>
    intro i d i' b hp
    cases i with
    | true =>
      rcases hpt : parse false t with ⟨c, d0, i0, dn0, bd0⟩
      rw [parse_true_cons, hpt] at hp
      simp only [Prod.mk.injEq, List.length_cons, Nat.add_right_cancel_iff] at hp
      obtain ⟨rfl, rfl, rfl, rfl, rfl⟩ := hp
      rw [List.cons_append, parse_true_cons, ih false d0 i0 b hpt]
      simp only [List.length_cons, List.cons_append, Prod.mk.injEq, and_true, true_and]
      omega
    | false =>
      rw [parse_false_cons] at hp
      rw [List.cons_append, parse_false_cons]
      by_cases h0 : h = 0
      · rw [if_pos h0] at hp; simp at hp
      · rw [if_neg h0] at hp ⊢
        by_cases h1 : h = 1
        · rw [if_pos h1] at hp ⊢
          rcases hpt : parse true t with ⟨c, d0, i0, dn0, bd0⟩
          rw [hpt] at hp
          simp only [Prod.mk.injEq, List.length_cons, Nat.add_right_cancel_iff] at hp
          obtain ⟨rfl, rfl, rfl, rfl, rfl⟩ := hp
          rw [ih true d0 i0 b hpt]
          simp only [List.length_cons, Prod.mk.injEq, and_true, true_and]
          omega
        · rw [if_neg h1] at hp; simp at hp

def DecR (s : Dec) (u v : Bytes) : Prop :=
  s.bad = false ∧ parse false u = (u.length, v ++ s.q, s.inData, s.done, false) ∧ s.fresh = decide (u = [])

def decPend (s : Dec) : Nat := s.q.length + (if s.fresh then 0 else 1)

theorem DecR_facts {s : Dec} {u v w x : Bytes} (hR : DecR s u v) (hd : decode (u ++ w) = some x) :
    IsPre (v ++ s.q) x ∧ (s.done = true → w = [] ∧ v ++ s.q = x) ∧ (s.done = false → w ≠ []) := by
  obtain ⟨_, hp, _⟩ := hR
  by_cases hw : w = []
  · subst hw
    rw [List.append_nil] at hd
    have := parse_whole u false x (by simpa [decodeFrom] using hd)
    rw [this] at hp
    simp only [Prod.mk.injEq] at hp
    obtain ⟨_, h2, _, h4, _⟩ := hp
    exact ⟨by rw [← h2]; exact IsPre.refl _, fun _ => ⟨rfl, h2.symm⟩, fun h => (by rw [← h4] at h; cases h)⟩
  · have hk : u.length < (u ++ w).length := by
      cases w with
      | nil => exact absurd rfl hw
      | cons a b => simp
    obtain ⟨d, i', hpp, hpre⟩ := parse_prefix (u ++ w) false x u.length (by simpa [decodeFrom] using hd) hk
    rw [List.take_left' rfl, hp] at hpp
    simp only [Prod.mk.injEq] at hpp
    obtain ⟨_, h2, _, h4, _⟩ := hpp
    exact ⟨by rw [h2]; exact hpre, fun h => (by rw [h4] at h; cases h), fun _ => hw⟩

/-- what the parser does with a chunk offered inside a valid member -/
theorem chunk_parse {s : Dec} {u v w x : Bytes} (hR : DecR s u v) (hd : decode (u ++ w) = some x)
    (hnd : s.done = false) (chunk tail : Bytes) (hc : IsPre chunk (w ++ tail)) :
    ∃ d i', parse s.inData chunk = (min chunk.length w.length, d, i', decide (w.length ≤ chunk.length), false) ∧
      parse false (u ++ chunk.take (min chunk.length w.length)) =
        (u.length + min chunk.length w.length, (v ++ s.q) ++ d, i', decide (w.length ≤ chunk.length), false) ∧
      IsPre ((v ++ s.q) ++ d) x ∧ (w.length ≤ chunk.length → (v ++ s.q) ++ d = x) := by
  obtain ⟨_, hp, _⟩ := hR
  rw [hnd] at hp
  obtain ⟨z, hz⟩ := hc
  by_cases hlt : chunk.length < w.length
  · -- the chunk ends inside the member
    have hmin : min chunk.length w.length = chunk.length := by omega
    have hcw : chunk = w.take chunk.length := by
      have := congrArg (List.take chunk.length) hz
      rw [List.take_append_of_le_length (by omega), List.take_left' rfl] at this
      exact this.symm
    have hk : u.length + chunk.length < (u ++ w).length := by simp; omega
    obtain ⟨d', i'', hpp, hpre⟩ := parse_prefix (u ++ w) false x (u.length + chunk.length) (by simpa [decodeFrom] using hd) hk
    have htk : (u ++ w).take (u.length + chunk.length) = u ++ chunk := by
      rw [List.take_append, List.take_of_length_le (by omega)]
      congr 1
      rw [show u.length + chunk.length - u.length = chunk.length by omega]
      exact hcw.symm
    rw [htk, parse_append u false _ _ chunk hp] at hpp
    rcases hpc : parse s.inData chunk with ⟨c, dd, ii, dn, bd⟩
    rw [hpc] at hpp
    simp only [Prod.mk.injEq, Nat.add_left_cancel_iff] at hpp
    obtain ⟨rfl, rfl, rfl, rfl, rfl⟩ := hpp
    have hdec : decide (w.length ≤ chunk.length) = false := by simp; omega
    refine ⟨dd, ii, by rw [hmin, hdec], ?_, hpre, fun h => by omega⟩
    rw [hmin, List.take_length, parse_append u false _ _ chunk hp, hpc, hdec]
  · -- the chunk covers the rest of the member
    have hle : w.length ≤ chunk.length := by omega
    have hmin : min chunk.length w.length = w.length := by omega
    have hcw : chunk.take w.length = w := by
      have := congrArg (List.take w.length) hz
      rw [List.take_left' rfl, List.take_append_of_le_length hle] at this
      exact this.symm
    have hwhole := parse_whole (u ++ w) false x (by simpa [decodeFrom] using hd)
    rw [parse_append u false _ _ w hp] at hwhole
    rcases hpw : parse s.inData w with ⟨c, dd, ii, dn, bd⟩
    rw [hpw] at hwhole
    simp only [Prod.mk.injEq, List.length_append, Nat.add_left_cancel_iff] at hwhole
    obtain ⟨rfl, hx, rfl, rfl, rfl⟩ := hwhole
    have hdec : decide (w.length ≤ chunk.length) = true := by simp; omega
    have hch : chunk = w ++ chunk.drop w.length := by
      conv => lhs; rw [← List.take_append_drop w.length chunk, hcw]
    refine ⟨dd, false, ?_, ?_, by rw [hx]; exact IsPre.refl _, fun _ => hx⟩
    · rw [hmin, hdec, hch, parse_done_append w s.inData dd false _ hpw]
    · rw [hmin, hcw, hdec, parse_append u false _ _ w hp, hpw, hx]

theorem decCore_done (P : Params) {s : Dec} (inp : Bytes) (room : Nat) (h : s.done = true) :
    decCore P s inp room = ⟨0, s.q, min (min room (P.gran + 1)) s.q.length, s.inData, s.fresh, true, false⟩ := by
  simp [decCore, h]

theorem decCore_blocked (P : Params) {s : Dec} (inp : Bytes) (room : Nat) (h : s.done = false) (hq : ¬ s.q.length ≤ P.thresh) :
    decCore P s inp room = ⟨0, s.q, min (min room (P.gran + 1)) s.q.length, s.inData, s.fresh, false, false⟩ := by
  simp [decCore, h, hq]

theorem decCore_absorb (P : Params) {s : Dec} (inp : Bytes) (room : Nat) (h : s.done = false) (hq : s.q.length ≤ P.thresh)
    {n : Nat} {d : Bytes} {i' dn bd : Bool} (hp : parse s.inData (inp.take (P.absorb + 1)) = (n, d, i', dn, bd)) :
    decCore P s inp room = ⟨n, s.q ++ d, min (min room (P.gran + 1)) (s.q ++ d).length, i',
      s.fresh && decide (n = 0), dn, bd⟩ := by
  simp [decCore, h, hq, hp]

/-- everything the contract needs to know about one call of the decoding engine inside a valid member -/
theorem decCore_spec (P : Params) {s : Dec} {u v w x : Bytes} (hR : DecR s u v) (hd : decode (u ++ w) = some x)
    (inp tail : Bytes) (hin : IsPre inp (w ++ tail)) (room : Nat) :
    (decCore P s inp room).bad = false ∧ (decCore P s inp room).n ≤ inp.length ∧ (decCore P s inp room).n ≤ w.length ∧
    parse false (u ++ inp.take (decCore P s inp room).n) =
      (u.length + (decCore P s inp room).n, v ++ (decCore P s inp room).q, (decCore P s inp room).inData,
        (decCore P s inp room).done, false) ∧
    IsPre (v ++ (decCore P s inp room).q) x ∧
    ((decCore P s inp room).done = true ↔ (decCore P s inp room).n = w.length) ∧
    ((decCore P s inp room).done = true → v ++ (decCore P s inp room).q = x) ∧
    (decCore P s inp room).fresh = (s.fresh && decide ((decCore P s inp room).n = 0)) ∧
    (decCore P s inp room).m = min (min room (P.gran + 1)) (decCore P s inp room).q.length ∧
    ((decCore P s inp room).n = 0 → (decCore P s inp room).q = s.q) ∧
    (s.done = false → s.q.length ≤ P.thresh → inp ≠ [] → 0 < (decCore P s inp room).n) ∧
    (s.done = true → (decCore P s inp room).done = true) := by
  obtain ⟨hfacts1, hfacts2, hfacts3⟩ := DecR_facts hR hd
  have hp := hR.2.1
  cases hdn : s.done with
  | true =>
    obtain ⟨hw, hx⟩ := hfacts2 hdn
    subst hw
    rw [decCore_done P inp room hdn]
    rw [hdn] at hp
    refine ⟨rfl, Nat.zero_le _, Nat.le_refl _, by simpa using hp, hfacts1, by simp, fun _ => hx, by simp, rfl, fun _ => rfl,
      fun h => (by cases h), fun _ => rfl⟩
  | false =>
    have hw := hfacts3 hdn
    by_cases hq : s.q.length ≤ P.thresh
    · have hchunk : IsPre (inp.take (P.absorb + 1)) (w ++ tail) := (IsPre.take _ _).trans hin
      obtain ⟨d, i', hpc, hpu, hpre, hfull⟩ := chunk_parse hR hd hdn _ tail hchunk
      rw [decCore_absorb P inp room hdn hq hpc]
      have hnl : min (inp.take (P.absorb + 1)).length w.length ≤ inp.length := by
        simp only [List.length_take]; omega
      have htake : (inp.take (P.absorb + 1)).take (min (inp.take (P.absorb + 1)).length w.length) =
          inp.take (min (inp.take (P.absorb + 1)).length w.length) := by
        rw [List.take_take]; congr 1; simp only [List.length_take]; omega
      rw [htake] at hpu
      refine ⟨rfl, hnl, Nat.min_le_right _ _, by simpa [List.append_assoc] using hpu, by simpa [List.append_assoc] using hpre,
        ?_, ?_, rfl, rfl, ?_, ?_, fun h => (by cases h)⟩
      · simp only [decide_eq_true_eq]; omega
      · intro h
        simp only [decide_eq_true_eq] at h
        simpa [List.append_assoc] using hfull h
      · intro h0
        simp only at h0
        -- nothing consumed: nothing decoded
        have hw0 : 0 < w.length := by
          cases w with
          | nil => exact absurd rfl hw
          | cons a b => simp
        have hc0 : (inp.take (P.absorb + 1)).length = 0 := by omega
        have : inp.take (P.absorb + 1) = [] := List.eq_nil_of_length_eq_zero hc0
        rw [this, parse_nil] at hpc
        simp only [Prod.mk.injEq] at hpc
        rw [← hpc.2.1]; simp
      · intro _ _ hne
        have hw0 : 0 < w.length := by
          cases w with
          | nil => exact absurd rfl hw
          | cons a b => simp
        have : 0 < inp.length := by
          cases inp with
          | nil => exact absurd rfl hne
          | cons a b => simp
        simp only [List.length_take]; omega
    · rw [decCore_blocked P inp room hdn hq]
      rw [hdn] at hp
      have hw0 : 0 < w.length := by
        cases w with
        | nil => exact absurd rfl hw
        | cons a b => simp
      refine ⟨rfl, Nat.zero_le _, Nat.zero_le _, by simpa using hp, hfacts1, ?_, fun h => (by cases h), by simp, rfl, fun _ => rfl,
        fun _ h => absurd h hq, fun h => (by cases h)⟩
      constructor
      · intro h; cases h
      · intro h; simp only at h; omega

theorem decStep_room0 (P : Params) (s : Dec) (inp : Bytes) (fl : Flush) :
    decStep P s inp 0 fl = ⟨s, 0, [], Res.ok⟩ := by simp [decStep]

/-- `decStep` in terms of the engine's quantities `c` -/
def decFinish (s : Dec) (c : Core) (inp : Bytes) (room : Nat) (fl : Flush) : StepOut Dec :=
  if c.done && decide ((c.q.drop c.m).length = 0) then ⟨decFresh, c.n, c.q.take c.m, Res.streamEnd⟩
  else if decide (fl = Flush.full) && decide (c.n = inp.length) && decide (c.m = 0) then
    if c.fresh then ⟨decFresh, c.n, [], Res.streamEnd⟩
    else ⟨⟨c.q.drop c.m, c.inData, c.fresh, c.done, true⟩, c.n, [], Res.error⟩
  else if decide (0 < (c.q.drop c.m).length) && decide (c.m = room) then
    ⟨⟨c.q.drop c.m, c.inData, c.fresh, c.done, false⟩, c.n, c.q.take c.m, Res.bufferFull⟩
  else ⟨⟨c.q.drop c.m, c.inData, c.fresh, c.done, false⟩, c.n, c.q.take c.m, Res.ok⟩

theorem decStep_eq (P : Params) {s : Dec} (inp : Bytes) {room : Nat} (fl : Flush) (hr : 0 < room) (hb : s.bad = false)
    (hcb : (decCore P s inp room).bad = false) :
    decStep P s inp room fl = decFinish s (decCore P s inp room) inp room fl := by
  have : ¬ room = 0 := by omega
  simp only [decStep, this, hb, hcb, decFinish, if_false, Bool.false_eq_true]

theorem DecR_fresh : DecR decFresh [] [] := ⟨rfl, by simp [decFresh, parse_nil], by simp [decFresh]⟩

theorem drop_take_len {q : Bytes} {m : Nat} (h : (q.drop m).length = 0) : q.take m = q := by
  have := List.take_append_drop m q
  rw [List.eq_nil_of_length_eq_zero h, List.append_nil] at this
  exact this

theorem pre_take {v q x : Bytes} (m : Nat) (h : IsPre (v ++ q) x) : IsPre (v ++ q.take m) x := by
  obtain ⟨z, hz⟩ := h
  refine ⟨q.drop m ++ z, ?_⟩
  rw [hz, List.append_assoc v, List.append_assoc v, ← List.append_assoc (q.take m), List.take_append_drop]

/-- the toy decoder meets the decoder contract, for every setting of its knobs -/
def decContract (P : Params) : DecContract (decoder P) decode where
  R := DecR
  pend := decPend
  init := DecR_fresh
  dec_nil := by simp [decode]
  valid := by
    intro s u v w x tail inp room fl hns hR hd hin hfl
    show (decStep P s inp room fl).res ≠ Res.error ∧ (decStep P s inp room fl).consumed ≤ inp.length ∧
      (decStep P s inp room fl).consumed ≤ w.length ∧ (decStep P s inp room fl).out.length ≤ room ∧
      IsPre (v ++ (decStep P s inp room fl).out) x ∧
      ((decStep P s inp room fl).res = Res.streamEnd →
        (decStep P s inp room fl).consumed = w.length ∧ v ++ (decStep P s inp room fl).out = x ∧ DecR (decStep P s inp room fl).st [] []) ∧
      ((decStep P s inp room fl).res ≠ Res.streamEnd →
        DecR (decStep P s inp room fl).st (u ++ inp.take (decStep P s inp room fl).consumed) (v ++ (decStep P s inp room fl).out)) ∧
      ((decStep P s inp room fl).res = Res.bufferFull → (decStep P s inp room fl).out ≠ [])
    obtain ⟨hq0, _, _⟩ := DecR_facts hR hd
    by_cases hr : 0 < room
    · obtain ⟨c1, c2, c3, c4, c5, c6, c7, c8, c9, _, _, _⟩ := decCore_spec P hR hd inp tail hin room
      rw [decStep_eq P inp fl hr hR.1 c1]
      generalize decCore P s inp room = c at *
      have hml : c.m ≤ room := by rw [c9]; omega
      have htl : (c.q.take c.m).length ≤ room := by rw [List.length_take]; omega
      have hpre : IsPre (v ++ c.q.take c.m) x := by
        exact pre_take c.m c5
      have hkeep : ∀ bd : Bool, bd = false → DecR ⟨c.q.drop c.m, c.inData, c.fresh, c.done, bd⟩ (u ++ inp.take c.n) (v ++ c.q.take c.m) := by
        intro bd hbd
        refine ⟨hbd, ?_, ?_⟩
        · simp only [List.length_append, List.length_take, Nat.min_eq_left c2, List.append_assoc, List.take_append_drop]
          exact c4
        · simp only [c8, hR.2.2]
          by_cases hu : u = []
          · by_cases hn : c.n = 0
            · simp [hu, hn]
            · have : inp.take c.n ≠ [] := by
                intro h; have := congrArg List.length h; simp only [List.length_take, List.length_nil] at this; omega
              simp [hu, hn, this]
          · simp [hu]
      unfold decFinish
      by_cases h1 : (c.done && decide ((c.q.drop c.m).length = 0)) = true
      · rw [if_pos h1]
        simp only [Bool.and_eq_true, decide_eq_true_eq] at h1
        obtain ⟨hdone, hdrop⟩ := h1
        refine ⟨by simp, c2, c3, htl, hpre, fun _ => ⟨c6.1 hdone, by rw [drop_take_len hdrop]; exact c7 hdone, DecR_fresh⟩,
          fun h => absurd rfl h, fun h => (by cases h)⟩
      · rw [if_neg h1]
        by_cases h2 : (decide (fl = Flush.full) && decide (c.n = inp.length) && decide (c.m = 0)) = true
        · exfalso
          simp only [Bool.and_eq_true, decide_eq_true_eq] at h2
          obtain ⟨⟨hfull, hn⟩, hm⟩ := h2
          have hwl := hfl hfull
          have hdone : c.done = true := c6.2 (by omega)
          have hq : c.q.length = 0 := by rw [c9] at hm; omega
          apply h1
          simp [hdone, List.length_drop, hq]
        · rw [if_neg h2]
          by_cases h3 : (decide (0 < (c.q.drop c.m).length) && decide (c.m = room)) = true
          · rw [if_pos h3]
            simp only [Bool.and_eq_true, decide_eq_true_eq] at h3
            refine ⟨by simp, c2, c3, htl, hpre, fun h => (by cases h), fun _ => hkeep false rfl, fun _ => ?_⟩
            intro h
            have := congrArg List.length h
            simp only [List.length_take, List.length_nil, List.length_drop] at this h3
            omega
          · rw [if_neg h3]
            exact ⟨by simp, c2, c3, htl, hpre, fun h => (by cases h), fun _ => hkeep false rfl, fun h => (by cases h)⟩
    · have : room = 0 := by omega
      subst this
      rw [decStep_room0]
      refine ⟨by simp, Nat.zero_le _, Nat.zero_le _, by simp, ?_, fun h => (by cases h), fun _ => ?_, fun h => (by cases h)⟩
      · obtain ⟨z, hz⟩ := hq0
        exact ⟨s.q ++ z, by simp [hz, List.append_assoc]⟩
      · simpa using hR
  progress := by
    intro s u v w x tail inp room fl hns hR hd hin hfl hr hne
    show 0 < (decStep P s inp room fl).consumed ∨ decPend (decStep P s inp room fl).st < decPend s
    obtain ⟨_, hq2, _⟩ := DecR_facts hR hd
    obtain ⟨c1, c2, c3, c4, c5, c6, c7, c8, c9, c10, c11, c12⟩ := decCore_spec P hR hd inp tail hin room
    rw [decStep_eq P inp fl hr hR.1 c1]
    generalize decCore P s inp room = c at *
    by_cases hn : 0 < c.n
    · left; unfold decFinish; split
      · exact hn
      · split
        · split <;> exact hn
        · split <;> exact hn
    · right
      have hn0 : c.n = 0 := by omega
      have hcq := c10 hn0
      have hfr : c.fresh = s.fresh := by rw [c8, hn0]; simp
      -- nothing consumed: the queue is not empty, or the member is complete
      have hcase : s.done = true ∨ 0 < s.q.length := by
        cases hdn : s.done with
        | true => left; rfl
        | false =>
          right
          by_cases hq : s.q.length ≤ P.thresh
          · have := c11 hdn hq hne; omega
          · omega
      have hnf : s.done = true → s.fresh = false := by
        intro h
        have hu : u ≠ [] := by
          intro hu
          obtain ⟨hw, _⟩ := hq2 h
          subst hu hw
          simp [decode] at hd
        rw [hR.2.2]; simp [hu]
      have hm1 : 0 < s.q.length → 0 < c.m := by
        intro h; rw [c9, hcq]; omega
      unfold decFinish decPend
      by_cases h1 : (c.done && decide ((c.q.drop c.m).length = 0)) = true
      · rw [if_pos h1]
        simp only [Bool.and_eq_true] at h1
        simp only [decFresh, List.length_nil, if_true]
        rcases hcase with h | h
        · rw [hnf h]; simp
        · omega
      · rw [if_neg h1]
        by_cases h2 : (decide (fl = Flush.full) && decide (c.n = inp.length) && decide (c.m = 0)) = true
        · exfalso
          simp only [Bool.and_eq_true, decide_eq_true_eq] at h2
          have : inp.length = 0 := by omega
          exact hne (List.eq_nil_of_length_eq_zero this)
        · rw [if_neg h2]
          have hlt : (c.q.drop c.m).length + (if c.fresh then 0 else 1) < s.q.length + (if s.fresh then 0 else 1) := by
            rw [hfr, List.length_drop, hcq]
            rcases hcase with h | h
            · by_cases hq0 : 0 < s.q.length
              · have := hm1 hq0; omega
              · exfalso
                apply h1
                have hq00 : s.q.length = 0 := by omega
                simp [c12 h, List.length_drop, hcq, hq00]
            · have := hm1 h; omega
          split <;> exact hlt
  drain := by
    intro s u v x room hR hd hr
    show (decStep P s [] room Flush.full).out ≠ [] ∨ (decStep P s [] room Flush.full).res = Res.streamEnd
    have hd' : decode (u ++ []) = some x := by simpa using hd
    obtain ⟨_, hq2, hq3⟩ := DecR_facts hR hd'
    have hdone : s.done = true := by
      cases h : s.done with
      | true => rfl
      | false => exact absurd rfl (hq3 h)
    have hc := decCore_done P [] room hdone
    rw [decStep_eq P [] Flush.full hr hR.1 (by rw [hc]), hc]
    unfold decFinish
    by_cases hq : s.q.length = 0
    · right
      simp [hq]
    · left
      have hm : 0 < min (min room (P.gran + 1)) s.q.length := by omega
      have hne : s.q.take (min (min room (P.gran + 1)) s.q.length) ≠ [] := by
        intro h; have := congrArg List.length h; simp only [List.length_take, List.length_nil] at this; omega
      simp only
      split
      · exact hne
      · split
        · rename_i h2
          simp only [Bool.and_eq_true, decide_eq_true_eq] at h2
          omega
        · split <;> exact hne
  idle_eof := by
    intro s room hR hr
    show (decStep P s [] room Flush.full).res ≠ Res.error ∧ (decStep P s [] room Flush.full).out = [] ∧
      (decStep P s [] room Flush.full).consumed = 0 ∧ DecR (decStep P s [] room Flush.full).st [] []
    obtain ⟨hb, hp, hf⟩ := hR
    rw [parse_nil] at hp
    simp only [Prod.mk.injEq, List.length_nil, List.nil_append, true_and] at hp
    obtain ⟨hq, hi, hdn, _⟩ := hp
    have hc : decCore P s [] room = ⟨0, [], 0, false, true, false, false⟩ := by
      simp [decCore, ← hq, ← hdn, ← hi, hf, parse_nil]
    rw [decStep_eq P [] Flush.full hr hb (by rw [hc]), hc]
    simp [decFinish, DecR_fresh]
  truncated := by
    intro s u v w x room hR hu hw hd hr
    obtain ⟨hq1, _, _⟩ := DecR_facts hR hd
    obtain ⟨c1, c2, c3, c4, c5, c6, c7, c8, c9, c10, _, _⟩ := decCore_spec P hR hd [] w (IsPre.nil _) room
    show (decStep P s [] room Flush.full).res = Res.error ∨
      ((decStep P s [] room Flush.full).res ≠ Res.streamEnd ∧ (decStep P s [] room Flush.full).out ≠ [] ∧
       (decStep P s [] room Flush.full).consumed = 0 ∧ (decStep P s [] room Flush.full).out.length ≤ room ∧
       IsPre (v ++ (decStep P s [] room Flush.full).out) x ∧
       DecR (decStep P s [] room Flush.full).st u (v ++ (decStep P s [] room Flush.full).out))
    rw [decStep_eq P [] Flush.full hr hR.1 c1]
    generalize decCore P s [] room = c at *
    have hn0 : c.n = 0 := by simpa using c2
    have hw0 : 0 < w.length := by
      cases w with
      | nil => exact absurd rfl hw
      | cons a b => simp
    have hnd : c.done = false := by
      cases h : c.done with
      | false => rfl
      | true => have := c6.1 h; omega
    have hfr : c.fresh = false := by rw [c8, hR.2.2]; simp [hu]
    unfold decFinish
    rw [if_neg (by simp [hnd])]
    by_cases hm : c.m = 0
    · left
      simp [hn0, hm, hfr]
    · right
      have hne : c.q.take c.m ≠ [] := by
        intro h; have := congrArg List.length h
        simp only [List.length_take, List.length_nil] at this
        rw [c9] at hm this; omega
      have htl : (c.q.take c.m).length ≤ room := by rw [List.length_take, c9]; omega
      have hpre : IsPre (v ++ c.q.take c.m) x := by
        exact pre_take c.m c5
      have hkeep : DecR ⟨c.q.drop c.m, c.inData, c.fresh, c.done, false⟩ u (v ++ c.q.take c.m) := by
        refine ⟨rfl, ?_, ?_⟩
        · simp only [List.append_assoc, List.take_append_drop]
          simpa [hn0] using c4
        · simp [hfr, hu]
      rw [if_neg (by simp [hm])]
      split
      · exact ⟨by simp, hne, hn0, htl, hpre, hkeep⟩
      · exact ⟨by simp, hne, hn0, htl, hpre, hkeep⟩

end Toy

end Sqfs.Xfrm
