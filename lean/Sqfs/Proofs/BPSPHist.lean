/-
C02, `packRef = specPack`, part 2: the block writer's history against `specPack`'s.  `Hist ps H`: the abstract view `ps`
of the writer state (Proofs/BlockWriter.lean: entries with their payloads) carries, entry by entry, the size word,
checksum and payload of the `Stored` values of `H`.  Under it `deduplicate_blocks` is `Pack.placeBlocks`.
-/
import Sqfs.Proofs.BPSPDefs
import Sqfs.Proofs.BlockWriterSpec
import Sqfs.Proofs.PackStep
namespace Sqfs.BlockProc
open Sqfs.Consts
open Sqfs.BlockWriter (hasFlag PE Abs MatchAt)

/-- the C value of the size word of a stored block -/
def wordOf (s : Sqfs.Pack.Stored) : Nat := if s.raw then s.data.length ||| (1 <<< 24) else s.data.length

theorem rawBit_eq : Sqfs.Pack.rawBit = 1 <<< 24 := by decide

theorem wordOf_toNat (s : Sqfs.Pack.Stored) : s.word.toNat = wordOf s := by
  unfold Sqfs.Pack.Stored.word Sqfs.Pack.Word.toNat wordOf
  cases s.raw <;> simp [rawBit_eq]

theorem stored_toNat (n : Nat) (raw : Bool) :
    (Sqfs.Pack.Word.stored n raw).toNat = if raw then n ||| (1 <<< 24) else n := by
  unfold Sqfs.Pack.Word.toNat
  cases raw <;> simp [rawBit_eq]

def sview (s : Sqfs.Pack.Stored) : Nat × UInt32 × Bytes := (wordOf s, s.cksum, s.data)
def pview (p : PE) : Nat × UInt32 × Bytes := (p.1.word, p.1.chk, p.2)

/-- every payload fits the 24-bit size field -/
def HOK (H : List Sqfs.Pack.Stored) : Prop := ∀ s ∈ H, s.data.length < 2 ^ 24

theorem sview_inj {s t : Sqfs.Pack.Stored} (hs : s.data.length < 2 ^ 24) (ht : t.data.length < 2 ^ 24)
    (h : sview s = sview t) : s = t := by
  obtain ⟨sr, sc, sd⟩ := s
  obtain ⟨tr, tc, td⟩ := t
  simp only [sview, wordOf, Prod.mk.injEq] at h
  obtain ⟨hw, hc, hd⟩ := h
  subst hc hd
  simp only at hs
  have hr : sr = tr := by
    cases sr <;> cases tr <;> simp only [Bool.false_eq_true, if_false, if_true] at hw
    · rfl
    · have := and_bit24_of_lt _ hs
      rw [hw] at this
      exact absurd this (or_bit24_and _)
    · have := and_bit24_of_lt _ hs
      rw [← hw] at this
      exact absurd this (or_bit24_and _)
    · rfl
  rw [hr]

theorem map_sview_inj : ∀ (a b : List Sqfs.Pack.Stored), HOK a → HOK b → a.map sview = b.map sview → a = b := by
  intro a
  induction a with
  | nil => intro b _ _ h; cases b with
    | nil => rfl
    | cons _ _ => simp at h
  | cons x a ih =>
    intro b ha hb h
    cases b with
    | nil => simp at h
    | cons y b =>
      simp only [List.map_cons, List.cons.injEq] at h
      rw [sview_inj (ha x List.mem_cons_self) (hb y List.mem_cons_self) h.1,
        ih b (fun s hs => ha s (List.mem_cons_of_mem _ hs)) (fun s hs => hb s (List.mem_cons_of_mem _ hs)) h.2]

theorem HOK.append {a b : List Sqfs.Pack.Stored} (ha : HOK a) (hb : HOK b) : HOK (a ++ b) := by
  intro s hs
  rcases List.mem_append.mp hs with h | h
  · exact ha s h
  · exact hb s h

theorem HOK.take {a : List Sqfs.Pack.Stored} (ha : HOK a) (n : Nat) : HOK (a.take n) :=
  fun s hs => ha s (List.mem_of_mem_take hs)

theorem HOK.drop {a : List Sqfs.Pack.Stored} (ha : HOK a) (n : Nat) : HOK (a.drop n) :=
  fun s hs => ha s (List.mem_of_mem_drop hs)

/-- the writer's entries are the `Stored` values of `H` -/
def Hist (ps : List PE) (H : List Sqfs.Pack.Stored) : Prop := ps.map pview = H.map sview

theorem Hist.length {ps H} (h : Hist ps H) : ps.length = H.length := by
  have := congrArg List.length h
  simpa using this

theorem Hist.take {ps H} (h : Hist ps H) (n : Nat) : Hist (ps.take n) (H.take n) := by
  unfold Hist at *; rw [List.map_take, List.map_take, h]

theorem Hist.drop {ps H} (h : Hist ps H) (n : Nat) : Hist (ps.drop n) (H.drop n) := by
  unfold Hist at *; rw [List.map_drop, List.map_drop, h]

theorem Hist.append {ps H qs K} (h : Hist ps H) (k : Hist qs K) : Hist (ps ++ qs) (H ++ K) := by
  unfold Hist at *; rw [List.map_append, List.map_append, h, k]

theorem Hist.snd {ps H} (h : Hist ps H) : ps.map (·.2) = H.map (·.data) := by
  have := congrArg (List.map (fun v : Nat × UInt32 × Bytes => v.2.2)) h
  simpa [List.map_map, Function.comp_def, pview, sview] using this

theorem bytesOf_eq_flatten (ps : List PE) : BlockWriter.bytesOf ps = (ps.map (·.2)).flatten := by
  induction ps with
  | nil => rfl
  | cons p r ih => simp [ih]

theorem Hist.bytes {ps H} (h : Hist ps H) : BlockWriter.bytesOf ps = Sqfs.Pack.areaOf H := by
  rw [bytesOf_eq_flatten, h.snd, Sqfs.Pack.areaOf, List.flatMap_def]

theorem Hist.bytesLen {ps H} (h : Hist ps H) : (BlockWriter.bytesOf ps).length = Sqfs.Pack.bytesOf H := by
  rw [h.bytes, Sqfs.Pack.areaOf_length]

theorem pview_lists : ∀ (xs ys : List PE),
    xs.map pview = ys.map pview ↔ xs.map BlockWriter.pkey = ys.map BlockWriter.pkey ∧ xs.map (·.2) = ys.map (·.2) := by
  intro xs
  induction xs with
  | nil => intro ys; cases ys <;> simp
  | cons x xs ih =>
    intro ys
    cases ys with
    | nil => simp
    | cons y ys =>
      simp only [List.map_cons, List.cons.injEq, ih ys]
      simp only [pview, BlockWriter.pkey, Prod.mk.injEq]
      constructor
      · rintro ⟨⟨a, b, c⟩, d, e⟩; exact ⟨⟨⟨a, b⟩, d⟩, c, e⟩
      · rintro ⟨⟨⟨a, b⟩, d⟩, c, e⟩; exact ⟨⟨a, b, c⟩, d, e⟩

/-- the writer's match test (`MatchAt`: words, checksums and bytes of the run at `r` equal the file's) is `findMatch`'s -/
theorem matchAt_iff {pre : Bytes} {s : BlockWriter.State} {ps : List PE} (habs : Abs pre s ps) {H : List Sqfs.Pack.Stored}
    (hh : Hist ps H) (hok : HOK H) (fs r : Nat) :
    MatchAt ps fs (ps.length - fs) r ↔ (H.drop r).take (H.length - fs) = H.drop fs := by
  have hl := hh.length
  have e1 : ((ps.drop r).take (ps.length - fs)).map pview = ((H.drop r).take (H.length - fs)).map sview := by
    rw [hl]; exact (hh.drop r).take _
  have e2 : (ps.drop fs).map pview = (H.drop fs).map sview := hh.drop fs
  constructor
  · rintro ⟨hk, hb⟩
    have hw : ((ps.drop r).take (ps.length - fs)).map (·.1.word) = (ps.drop fs).map (·.1.word) := by
      have := congrArg (List.map Prod.fst) hk
      simpa [List.map_map, BlockWriter.pkey, Function.comp_def] using this
    have hlen := BlockWriter.Offs_words_lengths _ _ _ _
      (BlockWriter.Offs_take _ _ (ps.length - fs) (BlockWriter.Offs_drop pre.length ps r habs.offs))
      (BlockWriter.Offs_drop pre.length ps fs habs.offs) hw
    have hpl := BlockWriter.payloads_eq _ _ hlen hb
    have := (pview_lists _ _).2 ⟨hk, hpl⟩
    rw [e1, e2] at this
    exact map_sview_inj _ _ ((hok.drop r).take _) (hok.drop fs) this
  · intro h
    have : ((ps.drop r).take (ps.length - fs)).map pview = (ps.drop fs).map pview := by rw [e1, e2, h]
    obtain ⟨hk, hp⟩ := (pview_lists _ _).1 this
    refine ⟨hk, ?_⟩
    rw [bytesOf_eq_flatten, bytesOf_eq_flatten, hp]

theorem find?_range_eq (p : Nat → Bool) (n r : Nat) (hr : r ≤ n) (hm : r < n → p r = true) (hmin : ∀ k, k < r → p k = false) :
    (List.range n).find? p = if r < n then some r else none := by
  obtain ⟨h1, h2⟩ := BlockWriter.find?_range_spec p n
  cases hf : (List.range n).find? p with
  | some r' =>
    obtain ⟨a1, a2, a3⟩ := h1 r' hf
    have hle : r ≤ r' := by
      by_cases hlt : r' < r
      · have := hmin r' hlt; rw [a2] at this; cases this
      · omega
    have : r = r' := by
      by_cases hlt : r < r'
      · have := hm (by omega); rw [a3 r hlt] at this; cases this
      · omega
    subst this
    rw [if_pos a1]
  | none =>
    have hn := h2 hf
    by_cases hlt : r < n
    · have := hm hlt; rw [hn r hlt] at this; cases this
    · rw [if_neg hlt]

theorem off_eq {ps : List PE} {H : List Sqfs.Pack.Stored} (hh : Hist ps H) (pre : Bytes) (i : Nat) :
    BlockWriter.off pre ps i = pre.length + Sqfs.Pack.bytesOf (H.take i) := by
  unfold BlockWriter.off
  rw [(hh.take i).bytesLen]

/-- **`deduplicate_blocks` is `placeBlocks`** (file start at entry `|hs|`, the file's own entries `mine` behind it) -/
theorem dedup_place {pre : Bytes} {s : BlockWriter.State} {ps : List PE} (habs : Abs pre s ps) {hs mine : List Sqfs.Pack.Stored}
    (hh : Hist ps (hs ++ mine)) (hok : HOK (hs ++ mine)) (hfs : s.fileStart = hs.length) (flags : Nat) :
    ∃ s' ps', BlockWriter.deduplicateBlocks s flags =
        .ok (s', (Sqfs.Pack.placeBlocks pre.length (hasFlag flags blkDontDeduplicate) hs mine).2.1) ∧
      Abs pre s' ps' ∧ Hist ps' (Sqfs.Pack.placeBlocks pre.length (hasFlag flags blkDontDeduplicate) hs mine).1 := by
  obtain ⟨s', loc, ps', hd, habs', _, hout⟩ := BlockWriter.dedup_explicit pre s ps habs flags
  have hl : ps.length = hs.length + mine.length := by rw [hh.length, List.length_append]
  have htk : (hs ++ mine).take hs.length = hs := List.take_left
  have hdr : (hs ++ mine).drop hs.length = mine := List.drop_left
  rw [hd]
  unfold BlockWriter.DedupOut at hout
  rw [hfs] at hout
  unfold Sqfs.Pack.placeBlocks
  rcases hout with ⟨hc, hp, hloc⟩ | ⟨hc, hdd, hp, hloc⟩ | ⟨hc, hdd, r, hr, hm, hmin, hloc, hp⟩
  · have hmine : mine = [] := List.eq_nil_of_length_eq_zero (by omega)
    subst hmine
    rw [if_pos rfl]
    subst hp hloc
    exact ⟨s', _, rfl, habs', by simpa using hh⟩
  · have hmine : mine ≠ [] := fun h => by subst h; simp at hl; omega
    rw [if_neg hmine, hdd, if_pos rfl]
    subst hp
    refine ⟨s', _, ?_, habs', hh⟩
    rw [hloc, off_eq hh, htk]
  · have hmine : mine ≠ [] := fun h => by subst h; simp at hl; omega
    rw [if_neg hmine, hdd, if_neg (by simp)]
    have hcount : ps.length - hs.length = mine.length := by omega
    have hfind : Sqfs.Pack.findMatch hs mine = if r < hs.length then some r else none := by
      unfold Sqfs.Pack.findMatch
      have hiff : ∀ k, (((hs ++ mine).drop k).take mine.length == mine) = true ↔ MatchAt ps hs.length (ps.length - hs.length) k := by
        intro k
        rw [matchAt_iff habs hh hok hs.length k, hdr, List.length_append, Nat.add_sub_cancel_left, beq_iff_eq]
      apply find?_range_eq _ _ r hr
      · intro hlt; exact (hiff r).2 (hm hlt)
      · intro k hk
        have := hmin k hk
        rw [← hiff k] at this
        simpa using this
    rw [hfind]
    by_cases hlt : r < hs.length
    · rw [if_pos hlt] at hp ⊢
      simp only
      subst hp
      refine ⟨s', _, ?_, habs', ?_⟩
      · rw [hloc, off_eq hh, List.take_append_of_le_length (by omega)]
      · rw [hcount]; exact hh.take _
    · rw [if_neg hlt] at hp ⊢
      simp only
      subst hp
      have : r = hs.length := by omega
      subst this
      refine ⟨s', _, ?_, habs', hh⟩
      rw [hloc, off_eq hh, htk]

end Sqfs.BlockProc
