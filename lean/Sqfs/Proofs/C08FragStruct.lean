/-
Structural facts about the fragment model (`Model/FragDedup.lean`) that the composition with the block writer
(`Proofs/C08Stream.lean`) needs, beyond the invariant of `Proofs/FragDedup.lean`:
* `GoodF`: a fragment block's flags are `FRAGMENT_BLOCK` or `FRAGMENT_BLOCK | DONT_COMPRESS`, nothing else;
* `GoodS`: a fragment block never exceeds the block size;
* `NoNewWritten`: fragment processing and closing never change a block that is on disk, and never put one there.
-/
import Sqfs.Proofs.FragDedup
namespace Sqfs.FragDedup
open Sqfs.Consts

def FlagOk (f : Nat) : Prop := f = blkFragmentBlock ∨ f = blkFragmentBlock ||| blkDontCompress

@[reducible] def GoodF (st : State) : Prop := ∀ (i : Nat) (b : FragBlock), st.blocks[i]? = some b → FlagOk b.flags
@[reducible] def GoodS (B : Nat) (st : State) : Prop :=
  ∀ (i : Nat) (b : FragBlock), st.blocks[i]? = some b → b.data.length ≤ B

/-- every block that is on disk in `st'` is the same block of `st` -/
@[reducible] def NoNewWritten (st st' : State) : Prop :=
  ∀ (i : Nat) (b' : FragBlock), st'.blocks[i]? = some b' → (∃ s c, b'.place = Place.written s c) → st.blocks[i]? = some b'

theorem NoNewWritten.refl (st : State) : NoNewWritten st st := fun _ _ h _ => h

theorem NoNewWritten.trans {a b c : State} (h1 : NoNewWritten a b) (h2 : NoNewWritten b c) : NoNewWritten a c :=
  fun i x hx hw => h1 i x (h2 i x hx hw) hw

theorem NoNewWritten_of_eq {a b : State} (h : b.blocks = a.blocks) : NoNewWritten a b := by
  intro i x hx _; rw [← h]; exact hx

theorem dc_cases (flags : Nat) : flags &&& blkDontCompress = 0 ∨ flags &&& blkDontCompress = 1 := by
  have : flags &&& blkDontCompress = flags % 2 := Nat.and_one_is_mod flags
  rw [this]
  exact Nat.mod_two_eq_zero_or_one flags

theorem FlagOk_new (flags : Nat) : FlagOk (blkFragmentBlock ||| (flags &&& blkDontCompress)) := by
  rcases dc_cases flags with h | h <;> rw [h]
  · left; decide
  · right; decide

theorem FlagOk_or (f flags : Nat) (h : FlagOk f) : FlagOk (f ||| (flags &&& blkDontCompress)) := by
  rcases dc_cases flags with h2 | h2 <;> rw [h2] <;> rcases h with h | h <;> rw [h]
  · left; decide
  · right; decide
  · right; decide
  · right; decide

/-! ### functions that only touch the cache and the table -/

theorem search_blocks (codec : Codec) (bc : Bool) (d : Bytes) (hd : UInt32) (kf : Nat) :
    ∀ (l : List Chunk) (st : State) (r : Option Chunk) (st' : State),
      search codec bc st d hd kf l = .ok (r, st') → st'.blocks = st.blocks := by
  intro l
  induction l with
  | nil => intro st r st' h; simp only [search] at h; cases h; rfl
  | cons c rest ih =>
    intro st r st' h
    unfold search at h
    split at h
    · cases h
    · cases h; rfl
    · have := ih _ _ _ h; exact this

theorem insert_blocks (codec : Codec) (bc : Bool) (d : Bytes) (hd : UInt32) (new : Chunk) :
    ∀ (l done : List Chunk) (st st' : State), insert codec bc st d hd new done l = .ok st' → st'.blocks = st.blocks := by
  intro l
  induction l with
  | nil => intro done st st' h; simp only [insert] at h; cases h; rfl
  | cons c rest ih =>
    intro done st st' h
    unfold insert at h
    split at h
    · cases h
    · cases h; rfl
    · have := ih _ _ _ h; exact this

/-! ### closing, placing -/

theorem closeOpen_struct (st : State) :
    (GoodF st → GoodF (closeOpen st)) ∧ (∀ B, GoodS B st → GoodS B (closeOpen st)) ∧ NoNewWritten st (closeOpen st) := by
  unfold closeOpen
  cases ho : openIndex st with
  | none => exact ⟨id, fun _ => id, NoNewWritten.refl st⟩
  | some i =>
    simp only []
    obtain ⟨b, hb, hp, _⟩ := openIndex_some ho
    refine ⟨?_, ?_, ?_⟩
    · intro hg j b' hb'
      by_cases hij : i = j
      · subst hij
        rw [getElem?_modify_self _ _ _ _ hb] at hb'
        cases hb'; exact hg i b hb
      · rw [getElem?_modify_ne _ _ _ _ hij] at hb'
        exact hg j b' hb'
    · intro B hg j b' hb'
      by_cases hij : i = j
      · subst hij
        rw [getElem?_modify_self _ _ _ _ hb] at hb'
        cases hb'; exact hg i b hb
      · rw [getElem?_modify_ne _ _ _ _ hij] at hb'
        exact hg j b' hb'
    · intro j b' hb' hw
      by_cases hij : i = j
      · subst hij
        rw [getElem?_modify_self _ _ _ _ hb] at hb'
        cases hb'
        obtain ⟨s, c, hsc⟩ := hw
        cases hsc
      · rw [getElem?_modify_ne _ _ _ _ hij] at hb'
        exact hb'

theorem overflow_struct (B : Nat) (st : State) (d : Bytes) :
    (GoodF st → GoodF (overflow B st d)) ∧ (GoodS B st → GoodS B (overflow B st d)) ∧
      NoNewWritten st (overflow B st d) := by
  unfold overflow
  cases ho : openIndex st with
  | none => exact ⟨id, id, NoNewWritten.refl st⟩
  | some i =>
    simp only []
    obtain ⟨b, hb, hp, _⟩ := openIndex_some ho
    rw [hb]
    simp only []
    split
    · have hc := closeOpen_struct st
      exact ⟨hc.1, hc.2.1 B, hc.2.2⟩
    · exact ⟨id, id, NoNewWritten.refl st⟩

/-- after `overflow`, an open block has room for the fragment -/
theorem overflow_room (codec : Codec) (B : Nat) (st : State) (d : Bytes) (hinv : Inv codec st) :
    ∀ i b, openIndex (overflow B st d) = some i → (overflow B st d).blocks[i]? = some b →
      b.data.length + d.length ≤ B := by
  unfold overflow
  cases ho : openIndex st with
  | none => intro i b h; rw [ho] at h; cases h
  | some i =>
    simp only []
    obtain ⟨b, hb, hp, _⟩ := openIndex_some ho
    rw [hb]
    simp only []
    split
    · have hcs := closeOpen_spec codec st hinv
      intro j b' h; rw [hcs.2.2.2.1] at h; cases h
    · rename_i hle
      intro j b' h hb'
      rw [ho] at h; cases h
      rw [hb] at hb'; cases hb'
      omega

theorem place_struct (B : Nat) (st : State) (d : Bytes) (flags : Nat) :
    (GoodF st → GoodF (place st d flags).2.2) ∧
    (GoodS B st → (∀ i b, openIndex st = some i → st.blocks[i]? = some b → b.data.length + d.length ≤ B) →
      d.length ≤ B → GoodS B (place st d flags).2.2) ∧
    NoNewWritten st (place st d flags).2.2 := by
  unfold place
  cases ho : openIndex st with
  | none =>
    simp only []
    have hget : ∀ (j : Nat) (b' : FragBlock) (nb : FragBlock), (st.blocks ++ [nb])[j]? = some b' →
        st.blocks[j]? = some b' ∨ b' = nb := by
      intro j b' nb hb'
      by_cases hj : j < st.blocks.length
      · rw [List.getElem?_append_left hj] at hb'; exact Or.inl hb'
      · rw [List.getElem?_append_right (by omega)] at hb'
        have hj0 : j - st.blocks.length = 0 := by
          by_cases h0 : j - st.blocks.length = 0
          · exact h0
          · rw [List.getElem?_eq_none (by simp; omega)] at hb'; cases hb'
        rw [hj0] at hb'
        simp only [List.getElem?_cons_zero, Option.some.injEq] at hb'
        exact Or.inr hb'.symm
    refine ⟨?_, ?_, ?_⟩
    · intro hg j b' hb'
      rcases hget j b' _ hb' with h | h
      · exact hg j b' h
      · subst h; exact FlagOk_new flags
    · intro hg _ hd j b' hb'
      rcases hget j b' _ hb' with h | h
      · exact hg j b' h
      · subst h; exact hd
    · intro j b' hb' hw
      rcases hget j b' _ hb' with h | h
      · exact h
      · subst h
        obtain ⟨s, c, hsc⟩ := hw
        cases hsc
  | some i =>
    simp only []
    obtain ⟨b, hb, hp, _⟩ := openIndex_some ho
    refine ⟨?_, ?_, ?_⟩
    · intro hg j b' hb'
      by_cases hij : i = j
      · subst hij
        rw [getElem?_modify_self _ _ _ _ hb] at hb'
        cases hb'; exact FlagOk_or _ _ (hg i b hb)
      · rw [getElem?_modify_ne _ _ _ _ hij] at hb'
        exact hg j b' hb'
    · intro hg hroom _ j b' hb'
      by_cases hij : i = j
      · subst hij
        rw [getElem?_modify_self _ _ _ _ hb] at hb'
        cases hb'
        have := hroom i b rfl hb
        simpa using this
      · rw [getElem?_modify_ne _ _ _ _ hij] at hb'
        exact hg j b' hb'
    · intro j b' hb' hw
      by_cases hij : i = j
      · subst hij
        rw [getElem?_modify_self _ _ _ _ hb] at hb'
        cases hb'
        obtain ⟨s, c, hsc⟩ := hw
        change b.place = _ at hsc
        rw [hp] at hsc; cases hsc
      · rw [getElem?_modify_ne _ _ _ _ hij] at hb'
        exact hb'

theorem findShared_blocks (codec : Codec) (st : State) (d : Bytes) (hd : UInt32) (flags : Nat) (r : Option Chunk)
    (st' : State) (h : findShared codec true st d hd flags = .ok (r, st')) : st'.blocks = st.blocks := by
  unfold findShared at h
  split at h
  · cases h; rfl
  · exact search_blocks _ _ _ _ _ _ _ _ _ h

theorem findShared_inv (codec : Codec) (st : State) (d : Bytes) (hd : UInt32) (flags : Nat) (r : Option Chunk)
    (st' : State) (hinv : Inv codec st) (h : findShared codec true st d hd flags = .ok (r, st')) : Inv codec st' := by
  unfold findShared at h
  split at h
  · cases h; exact hinv
  · obtain ⟨r', st'', hs, _, _, hi, _⟩ := search_spec codec d hd (flags &&& blkDontCompress) st.table st hinv
      (fun c hc => hinv.chunks c hc)
    rw [hs] at h; cases h; exact hi

theorem processFragment_struct (codec : Codec) (h : Bytes → UInt32) (B : Nat) (st : State) (d : Bytes)
    (flags : Nat) (r : Res) (st' : State)
    (hrun : processFragment codec h true B st d flags = .ok (r, st')) :
    (GoodF st → GoodF st') ∧ (Inv codec st → d.length ≤ B → GoodS B st → GoodS B st') ∧ NoNewWritten st st' := by
  unfold processFragment at hrun
  split at hrun
  · cases hrun; exact ⟨id, fun _ _ => id, NoNewWritten.refl st⟩
  · split at hrun
    · cases hrun
    · -- found
      rename_i c st1 hfs
      cases hrun
      have hb := findShared_blocks _ _ _ _ _ _ _ hfs
      exact ⟨fun hg i b hb' => hg i b (by rw [← hb]; exact hb'),
        fun _ _ hg i b hb' => hg i b (by rw [← hb]; exact hb'), NoNewWritten_of_eq hb⟩
    · rename_i st1 hfs
      have hb1 := findShared_blocks _ _ _ _ _ _ _ hfs
      unfold storeFragment at hrun
      simp only [] at hrun
      split at hrun
      · cases hrun
      · rename_i st4 hins
        cases hrun
        have hb4 := insert_blocks _ _ _ _ _ _ _ _ _ hins
        obtain ⟨o1, o2, o3⟩ := overflow_struct B st1 d
        obtain ⟨p1, p2, p3⟩ := place_struct B (overflow B st1 d) d flags
        refine ⟨?_, ?_, ?_⟩
        · intro hg
          have g1 : GoodF st1 := fun i b hb' => hg i b (by rw [← hb1]; exact hb')
          have g3 := p1 (o1 g1)
          exact fun i b hb' => g3 i b (by rw [← hb4]; exact hb')
        · intro hinv hd hg
          have g1 : GoodS B st1 := fun i b hb' => hg i b (by rw [← hb1]; exact hb')
          have hinv1 := findShared_inv _ _ _ _ _ _ _ hinv hfs
          have g3 := p2 (o2 g1) (overflow_room codec B st1 d hinv1) hd
          exact fun i b hb' => g3 i b (by rw [← hb4]; exact hb')
        · exact NoNewWritten.trans (NoNewWritten_of_eq hb1) (NoNewWritten.trans o3 (NoNewWritten.trans p3 (NoNewWritten_of_eq hb4)))

/-- `process_completed_block` of fragment block `idx`: only that block changes, and only its place -/
theorem blockWritten_struct (codec : Codec) (st st' : State) (idx : Nat) (h : blockWritten codec st idx = .ok st') :
    ∃ b p, st.blocks[idx]? = some b ∧ b.place = .inFlight ∧ st'.blocks[idx]? = some { b with place := p } ∧
      (∀ j, j ≠ idx → st'.blocks[j]? = st.blocks[j]?) ∧ st'.blocks.length = st.blocks.length := by
  unfold blockWritten at h
  split at h
  · rename_i data fl hb
    cases h
    refine ⟨_, _, hb, rfl, getElem?_modify_self _ _ _ _ hb, ?_, by simp⟩
    intro j hj
    exact getElem?_modify_ne _ _ _ _ (Ne.symm hj)
  · cases h

/-! ### blocks that are not open are never touched; what closing does -/

/-- every block of `st` that is not open is the same block of `st'` -/
@[reducible] def Keep (st st' : State) : Prop :=
  ∀ (i : Nat) (b : FragBlock), st.blocks[i]? = some b → b.place ≠ Place.opened → st'.blocks[i]? = some b

theorem Keep.refl (st : State) : Keep st st := fun _ _ h _ => h

theorem Keep.trans {a b c : State} (h1 : Keep a b) (h2 : Keep b c) : Keep a c :=
  fun i x hx hp => h2 i x (h1 i x hx hp) hp

theorem Keep_of_eq {a b : State} (h : b.blocks = a.blocks) : Keep a b := by
  intro i x hx _; rw [h]; exact hx

theorem openIndex_congr {a b : State} (h : b.blocks = a.blocks) : openIndex b = openIndex a := by
  unfold openIndex; rw [h]

theorem closeOpen_keep (st : State) : Keep st (closeOpen st) ∧
    (∀ i, openIndex st = some i → ∃ b, st.blocks[i]? = some b ∧
      (closeOpen st).blocks[i]? = some { b with place := Place.inFlight }) := by
  unfold closeOpen
  cases ho : openIndex st with
  | none => exact ⟨Keep.refl st, fun i h => by cases h⟩
  | some i =>
    simp only []
    obtain ⟨b, hb, hp, _⟩ := openIndex_some ho
    refine ⟨?_, ?_⟩
    · intro j x hx hpx
      by_cases hij : i = j
      · subst hij; rw [hb] at hx; cases hx; exact absurd hp hpx
      · rw [getElem?_modify_ne _ _ _ _ hij]; exact hx
    · intro j hj
      cases hj
      exact ⟨b, hb, getElem?_modify_self _ _ _ _ hb⟩

theorem place_keep (st : State) (d : Bytes) (flags : Nat) : Keep st (place st d flags).2.2 := by
  unfold place
  cases ho : openIndex st with
  | none =>
    simp only []
    intro j x hx _
    have hj : j < st.blocks.length := (List.getElem?_eq_some_iff.1 hx).1
    rw [List.getElem?_append_left hj]; exact hx
  | some i =>
    simp only []
    obtain ⟨b, hb, hp, _⟩ := openIndex_some ho
    intro j x hx hpx
    by_cases hij : i = j
    · subst hij; rw [hb] at hx; cases hx; exact absurd hp hpx
    · rw [getElem?_modify_ne _ _ _ _ hij]; exact hx

/-- appending to the open block keeps it the open block -/
theorem place_open (st : State) (d : Bytes) (flags : Nat) (i : Nat) (ho : openIndex st = some i) :
    openIndex (place st d flags).2.2 = some i := by
  unfold place
  rw [ho]
  simp only []
  obtain ⟨b, hb, hp, hlen⟩ := openIndex_some ho
  unfold openIndex
  rw [List.getLast?_eq_getElem?]
  simp only [List.length_modify]
  have : st.blocks.length - 1 = i := by omega
  rw [this, getElem?_modify_self _ _ _ _ hb]
  simp [hp]

/-- `process_completed_fragment`: blocks that are not open are not touched; if the open block is not the open block
afterwards it has been handed to the pool (in flight), with the bytes and flags it had -/
theorem processFragment_keep (codec : Codec) (h : Bytes → UInt32) (B : Nat) (st : State) (d : Bytes)
    (flags : Nat) (r : Res) (st' : State) (hinv : Inv codec st)
    (hrun : processFragment codec h true B st d flags = .ok (r, st')) :
    Keep st st' ∧
    (∀ i, openIndex st = some i → openIndex st' ≠ some i →
      ∃ b, st.blocks[i]? = some b ∧ st'.blocks[i]? = some { b with place := Place.inFlight }) := by
  unfold processFragment at hrun
  split at hrun
  · cases hrun; exact ⟨Keep.refl st, fun i h1 h2 => absurd h1 h2⟩
  · split at hrun
    · cases hrun
    · rename_i c st1 hfs
      cases hrun
      have hb := findShared_blocks _ _ _ _ _ _ _ hfs
      exact ⟨Keep_of_eq hb, fun i h1 h2 => absurd (by rw [openIndex_congr hb]; exact h1) h2⟩
    · rename_i st1 hfs
      have hb1 := findShared_blocks _ _ _ _ _ _ _ hfs
      have hinv1 := findShared_inv _ _ _ _ _ _ _ hinv hfs
      unfold storeFragment at hrun
      simp only [] at hrun
      split at hrun
      · cases hrun
      · rename_i st4 hins
        cases hrun
        have hb4 := insert_blocks _ _ _ _ _ _ _ _ _ hins
        have hov : Keep st1 (overflow B st1 d) := by
          unfold overflow
          cases ho : openIndex st1 with
          | none => exact Keep.refl st1
          | some i =>
            simp only []
            obtain ⟨b, hb, _, _⟩ := openIndex_some ho
            rw [hb]; simp only []
            split
            · exact (closeOpen_keep st1).1
            · exact Keep.refl st1
        refine ⟨Keep.trans (Keep_of_eq hb1) (Keep.trans hov (Keep.trans (place_keep _ d flags) (Keep_of_eq hb4))), ?_⟩
        intro i ho hne
        have ho1 : openIndex st1 = some i := by rw [openIndex_congr hb1]; exact ho
        obtain ⟨b, hb, hp, hlen⟩ := openIndex_some ho1
        -- which branch did `overflow` take?
        by_cases hfull : b.data.length + d.length > B
        · have hovc : overflow B st1 d = closeOpen st1 := by
            unfold overflow; rw [ho1]; simp only []; rw [hb]; simp only []; rw [if_pos hfull]
          obtain ⟨b', hb', hcb⟩ := (closeOpen_keep st1).2 i ho1
          rw [hb] at hb'; cases hb'
          refine ⟨b, by rw [← hb1]; exact hb, ?_⟩
          rw [hb4]
          have hk := place_keep (overflow B st1 d) d flags i { b with place := Place.inFlight } (by rw [hovc]; exact hcb)
            (by intro hc; cases hc)
          exact hk
        · exfalso
          have hovc : overflow B st1 d = st1 := by
            unfold overflow; rw [ho1]; simp only []; rw [hb]; simp only []; rw [if_neg hfull]
          apply hne
          rw [openIndex_congr hb4, hovc]
          exact place_open st1 d flags i ho1

end Sqfs.FragDedup
