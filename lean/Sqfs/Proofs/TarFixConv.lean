/-
C04 fix-point — `process_tarball` on the members read back from sqfs2tar's archive rebuilds the tree node by node.
-/
import Sqfs.Proofs.TarFixPath
import Sqfs.Proofs.TarConv
namespace Sqfs.Tar
open Sqfs.Path (joinSlash splitSlash SL canonicalize)

theorem lookup_of_unique (t : List TNode) (m : TNode) (hm : m ∈ t) (hu : ∀ a ∈ t, a.path = m.path → a = m) :
    lookup t m.path = some m := by
  unfold lookup
  induction t with
  | nil => cases hm
  | cons a r ih =>
    by_cases ha : a.path = m.path
    · have := hu a (by simp) ha
      subst this
      simp [List.find?]
    · have hm' : m ∈ r := by
        rcases List.mem_cons.1 hm with rfl | h
        · exact absurd rfl ha
        · exact h
      simp only [List.find?, ha, decide_false]
      exact ih hm' (fun b hb => hu b (List.mem_cons_of_mem _ hb))

theorem lookup_none (t : List TNode) (p : List Bytes) (h : ∀ m ∈ t, m.path ≠ p) : lookup t p = none := by
  unfold lookup
  rw [List.find?_eq_none]
  intro m hm; simpa using h m hm

/-- when every proper prefix is already a directory of the tree, `fstree_get_node_by_path` creates nothing -/
theorem ensureParents_present (o : ConvOpts) (t : List TNode) :
    ∀ (cs pre : List Bytes),
      (∀ k, 0 < k → k < cs.length → ∃ m, lookup t (pre ++ cs.take k) = some m ∧ isDirMode m.mode = true) →
      ensureParents o t pre cs = some t := by
  intro cs
  induction cs with
  | nil => intro pre _; rfl
  | cons c rest ih =>
    intro pre h
    cases rest with
    | nil => rfl
    | cons d rest =>
      obtain ⟨m, hm, hd⟩ := h 1 (by omega) (by simp)
      simp only [List.take_succ_cons, List.take_zero] at hm
      simp only [ensureParents, hm, hd, if_true]
      apply ih
      intro k h0 hk
      obtain ⟨m', hm', hd'⟩ := h (k + 1) (by omega) (by simp at hk ⊢; omega)
      refine ⟨m', ?_, hd'⟩
      rw [← hm']
      simp [List.take_succ_cons]

theorem clampMtime_u32 (v : Nat) (h : v ≤ 0xFFFFFFFF) : clampMtime (v : Int) = (v : Int) := by
  unfold clampMtime
  simp only []
  rw [if_neg (by omega), if_neg (by omega)]

theorem clampTimestamp_u32 (v : Nat) (h : v ≤ 0xFFFFFFFF) : clampTimestamp (v : Int) = v := by
  unfold clampTimestamp
  rw [if_neg (by omega), if_neg (by omega)]
  omega

/-- the `CEntry` tar2sqfs builds from the member read back for node `n` -/
def centryOf (img : ImgData) (n : TNode) : CEntry :=
  ⟨joinSlash n.path, n.mode, n.uid, n.gid, (n.modTime : Int), n.hardLink,
   if fmt n.mode = S_IFLNK then n.target else none, (viewOf img n).devMajor, (viewOf img n).devMinor⟩

/-- … passes through `process_entry` unchanged (default options) -/
theorem processEntry_node (img : ImgData) (n : TNode) (h : NodeOK img n) :
    processEntry {} (centryOf img n) = .node (centryOf img n) := by
  unfold processEntry processEntryWith centryOf
  have hne := joinSlash_ne_nil n.path h.pathNe h.comps
  simp only [clampMtime_u32 _ h.mtime, hne, if_false, if_true]

/-- … and `fstree_add_generic` appends exactly the node it came from, when its parents are there and its path is new -/
theorem addGeneric_node (img : ImgData) (n : TNode) (pre : List TNode) (h : NodeOK img n)
    (hnew : ∀ m ∈ pre, m.path ≠ n.path)
    (hpar : ∀ k, 0 < k → k < n.path.length → ∃ m, lookup pre (n.path.take k) = some m ∧ isDirMode m.mode = true) :
    addGeneric {} pre (centryOf img n) = some (pre ++ [n]) := by
  have hsplit : splitSlash (joinSlash n.path) = n.path :=
    Sqfs.Path.splitSlash_joinSlash n.path h.pathNe (fun c hc => clean_slashFree (h.comps c hc))
  unfold addGeneric centryOf
  simp only [hsplit]
  -- EINVAL: a symlink without target
  have c1 : ¬ (fmt n.mode = S_IFLNK ∧ (if fmt n.mode = S_IFLNK then n.target else none).isNone = true) := by
    rintro ⟨hl, hn⟩
    obtain ⟨tg, htg, _⟩ := h.lnkTarget hl
    simp [hl, htg] at hn
  rw [if_neg c1]
  have c2 : ¬ (n.uid > 0xFFFFFFFF ∨ n.gid > 0xFFFFFFFF) := by have := h.uid; have := h.gid; omega
  rw [if_neg c2]
  have c3 : ¬ ((fmt n.mode = S_IFBLK ∨ fmt n.mode = S_IFCHR) ∧ ¬ n.hardLink = true ∧
      ((viewOf img n).devMajor ≥ 4096 ∨ (viewOf img n).devMinor ≥ 1048576)) := by
    rintro ⟨hd, _, hbig⟩
    have hd' : fmt n.mode = S_IFCHR ∨ fmt n.mode = S_IFBLK := hd.symm
    have := h.dev hd'
    simp only [viewOf, hd', if_true] at hbig
    omega
  rw [if_neg c3]
  rw [ensureParents_present {} pre n.path [] (by simpa using hpar)]
  simp only [lookup_none pre n.path hnew]
  by_cases hh : n.hardLink = true
  · have hl := h.hardMode hh
    obtain ⟨tg, htg, hc⟩ := h.hardTarget hh
    simp only [hh, if_true, hl, htg, Option.getD_some, hc, true_or, clampTimestamp_u32 _ h.mtime]
    congr 2
    rw [← h.lnkMode hl]
    have he := h.explicit
    cases n
    simp_all
  · have hh' : n.hardLink = false := by cases hv : n.hardLink <;> simp_all
    simp only [hh', Bool.false_eq_true, if_false, false_or, clampTimestamp_u32 _ h.mtime]
    congr 2
    by_cases hl : fmt n.mode = S_IFLNK
    · have hm := h.lnkMode hl
      have he := h.explicit
      simp only [hl, if_true, ← hm]
      cases n
      simp_all
    · have ht := h.noTarget hl
      have he := h.explicit
      simp only [hl, if_false]
      cases n
      simp_all

/-- one round of `process_tarball`'s loop on a member read back for node `n` -/
theorem convStep_node (img : ImgData) (n : TNode) (pre : List TNode) (devs : List (List Bytes × Nat × Nat)) (x : IterEntry)
    (hx : x.view = viewOf img n) (h : NodeOK img n) (hnew : ∀ m ∈ pre, m.path ≠ n.path)
    (hpar : ∀ k, 0 < k → k < n.path.length → ∃ m, lookup pre (n.path.take k) = some m ∧ isDirMode m.mode = true) :
    convStep processEntry {} (some (pre, devs)) x =
      some (pre ++ [n], devs ++ [(n.path, (viewOf img n).devMajor, (viewOf img n).devMinor)]) := by
  have e1 : x.name = joinSlash n.path := congrArg EntryView.name hx
  have e2 : x.mode = n.mode := congrArg EntryView.mode hx
  have e3 : x.uid = n.uid := congrArg EntryView.uid hx
  have e4 : x.gid = n.gid := congrArg EntryView.gid hx
  have e5 : x.mtime = (n.modTime : Int) := congrArg EntryView.mtime hx
  have e6 : x.hardLink = n.hardLink := congrArg EntryView.hardLink hx
  have e7 : x.link = if fmt n.mode = S_IFLNK then n.target else none := congrArg EntryView.link hx
  have e8 : x.devMajor = (viewOf img n).devMajor := congrArg EntryView.devMajor hx
  have e9 : x.devMinor = (viewOf img n).devMinor := congrArg EntryView.devMinor hx
  have hce : (⟨x.name, x.mode, x.uid, x.gid, x.mtime, x.hardLink, if fmt x.mode = S_IFLNK then x.link else none,
      x.devMajor, x.devMinor⟩ : CEntry) = centryOf img n := by
    unfold centryOf
    rw [e1, e2, e3, e4, e5, e6, e7, e8, e9]
    by_cases hl : fmt n.mode = S_IFLNK <;> simp [hl]
  have hsplit : splitSlash (joinSlash n.path) = n.path :=
    Sqfs.Path.splitSlash_joinSlash n.path h.pathNe (fun c hc => clean_slashFree (h.comps c hc))
  unfold convStep
  simp only [hce]
  have c1 : ¬ (fmt x.mode = S_IFLNK ∧ (if fmt x.mode = S_IFLNK then x.link else none).isNone = true) := by
    rw [e2, e7]
    rintro ⟨hl, hn⟩
    obtain ⟨tg, htg, _⟩ := h.lnkTarget hl
    simp [hl, htg] at hn
  rw [if_neg c1, processEntry_node img n h]
  simp only [addGeneric_node img n pre h hnew hpar]
  have : (centryOf img n).name = joinSlash n.path := rfl
  rw [this, hsplit, e8, e9]

theorem mem_take_iff {α : Type} (l : List α) (i : Nat) (a : α) :
    a ∈ l.take i ↔ ∃ j, ∃ h : j < l.length, j < i ∧ l[j] = a := by
  constructor
  · intro h
    obtain ⟨j, hj, rfl⟩ := List.mem_iff_getElem.1 h
    rw [List.length_take] at hj
    exact ⟨j, by omega, by omega, by rw [List.getElem_take]⟩
  · rintro ⟨j, hj, hji, rfl⟩
    apply List.mem_iff_getElem.2
    exact ⟨j, by rw [List.length_take]; omega, by rw [List.getElem_take]⟩

/-- **the tree is rebuilt**: folding `process_tarball` over members that are the image's nodes yields the image's tree -/
theorem convert_fromImage (img : ImgData) (t : List TNode) (h : FromImage img t) (es : List IterEntry)
    (hv : es.map IterEntry.view = t.map (viewOf img)) :
    convertWith processEntry {} es = some (t, devsOf img t) := by
  have hlen : es.length = t.length := by simpa using congrArg List.length hv
  have key : ∀ i, i ≤ t.length →
      (es.take i).foldl (convStep processEntry {}) (some ([], [])) = some (t.take i, devsOf img (t.take i)) := by
    intro i
    induction i with
    | zero => intro _; simp [devsOf]
    | succ i ih =>
      intro hi
      have hi' : i < t.length := by omega
      have hie : i < es.length := by omega
      rw [List.take_succ_eq_append_getElem hie, List.foldl_append, ih (by omega)]
      simp only [List.foldl_cons, List.foldl_nil]
      have hx : (es[i]).view = viewOf img t[i] := by
        have := congrArg (fun l => l[i]?) hv
        simpa [List.getElem?_map, hie, hi'] using this
      have hn := h.nodes t[i] (List.getElem_mem hi')
      rw [convStep_node img t[i] (t.take i) _ es[i] hx hn]
      · rw [List.take_succ_eq_append_getElem hi']
        simp only [devsOf, List.map_append, List.map_cons, List.map_nil]
      · intro m hm
        obtain ⟨j, hj, hji, rfl⟩ := (mem_take_iff t i m).1 hm
        intro heq
        have := h.distinct j i hj hi' heq
        omega
      · intro k h0 hk
        obtain ⟨j, hj, hji, hp, hd⟩ := h.parents i hi' k h0 hk
        refine ⟨t[j], ?_, hd⟩
        rw [← hp]
        apply lookup_of_unique
        · exact (mem_take_iff t i _).2 ⟨j, hj, hji, rfl⟩
        · intro a ha hpa
          obtain ⟨j', hj', _, rfl⟩ := (mem_take_iff t i a).1 ha
          have := h.distinct j' j hj' hj hpa
          subst this; rfl
  unfold convertWith
  have := key t.length (Nat.le_refl _)
  rw [← hlen, List.take_length] at this
  rw [this, hlen, List.take_length]

end Sqfs.Tar
