/-
C02, environment clause: the order of a directory's children is fixed by the bytes of the names.  `insert_sorted` (fstree.c)
compares with `strcmp` — `Sqfs.FsTree.nameLt`, lexicographic on unsigned bytes, a strict total order
(`nameLt_irrefl/trans/total`, Proofs/FsTree.lean) — so the list it builds is *the* strictly sorted arrangement: there is no
second one a collation order could prefer.
-/
import Sqfs.Props.C11
namespace Sqfs.FsTree

theorem sorted_perm_unique_c02 {α : Type} (lt : α → α → Prop) (hasym : ∀ a b, lt a b → lt b a → False) :
    ∀ l₁ l₂ : List α, l₁.Pairwise lt → l₂.Pairwise lt → l₁.Perm l₂ → l₁ = l₂ := by
  intro l₁
  induction l₁ with
  | nil => intro l₂ _ _ hp; exact (List.Perm.nil_eq hp)
  | cons a t₁ ih =>
    intro l₂ h1 h2 hp
    cases l₂ with
    | nil => exact absurd hp.symm (by intro h; exact List.cons_ne_nil _ _ (List.Perm.nil_eq h).symm)
    | cons b t₂ =>
      have ha : a ∈ b :: t₂ := hp.subset List.mem_cons_self
      have hb : b ∈ a :: t₁ := hp.symm.subset List.mem_cons_self
      have hab : a = b := by
        rcases List.mem_cons.mp ha with h | h
        · exact h
        · rcases List.mem_cons.mp hb with h' | h'
          · exact h'.symm
          · exact absurd ((List.pairwise_cons.mp h1).1 b h') (fun x => hasym _ _ x ((List.pairwise_cons.mp h2).1 a h))
      subst hab
      rw [ih t₂ (List.pairwise_cons.mp h1).2 (List.pairwise_cons.mp h2).2 ((List.perm_cons a).mp hp)]

theorem foldl_insertSorted_spec (nodes : List TNode) :
    ∀ acc : List TNode, SortedNames (acc.map TNode.name) → ((nodes ++ acc).map TNode.name).Nodup →
      SortedNames ((nodes.foldl (fun acc n => insertSorted n acc) acc).map TNode.name) ∧
      (nodes.foldl (fun acc n => insertSorted n acc) acc).Perm (nodes ++ acc) := by
  induction nodes with
  | nil => intro acc hs _; exact ⟨hs, List.Perm.refl _⟩
  | cons n ns ih =>
    intro acc hs hnd
    simp only [List.foldl_cons]
    have hnd' : (n.name :: ((ns ++ acc).map TNode.name)).Nodup := by simpa using hnd
    have hnew : ∀ c ∈ acc, c.name ≠ n.name := by
      intro c hc he
      have := (List.nodup_cons.mp hnd').1
      apply this
      rw [← he]
      exact List.mem_map_of_mem (List.mem_append_right _ hc)
    obtain ⟨hs1, hp1⟩ := Sqfs.C11.insertSorted_sorted n acc hs hnew
    have hperm : (ns ++ insertSorted n acc).Perm (n :: (ns ++ acc)) :=
      (List.Perm.append_left ns hp1).trans (List.perm_middle)
    have hnd1 : ((ns ++ insertSorted n acc).map TNode.name).Nodup :=
      ((hperm.map TNode.name).nodup_iff).mpr (by simpa using hnd')
    obtain ⟨h1, h2⟩ := ih (insertSorted n acc) hs1 hnd1
    exact ⟨h1, h2.trans (hperm.trans (by simp))⟩

/-- the children list `insert_sorted` builds from `nodes` (pairwise different names, any order of arrival) is the only
arrangement of these nodes that is strictly sorted by `strcmp` -/
theorem sorted_children_unique (nodes : List TNode) (hnd : (nodes.map TNode.name).Nodup) (l : List TNode)
    (hp : l.Perm nodes) (hs : SortedNames (l.map TNode.name)) :
    l = nodes.foldl (fun acc n => insertSorted n acc) [] := by
  obtain ⟨h1, h2⟩ := foldl_insertSorted_spec nodes [] List.Pairwise.nil (by simpa using hnd)
  have hp' : l.Perm (nodes.foldl (fun acc n => insertSorted n acc) []) := hp.trans (by simpa using h2.symm)
  unfold SortedNames at hs h1
  rw [List.pairwise_map] at hs h1
  exact sorted_perm_unique_c02 (fun a b : TNode => nameLt a.name b.name = true)
    (fun a b hab hba => by rw [nameLt_asymm hab] at hba; cases hba) l _ hs h1 hp'

end Sqfs.FsTree
