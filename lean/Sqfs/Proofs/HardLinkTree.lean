/-
The graph that the model of `fstree_add_generic` hands to `resolve_link` meets the hypotheses of
`resolve_links_exact`: it is well formed and `links` lists every hard link.
-/
import Sqfs.Proofs.HardLinkSpec
namespace Sqfs.HardLink.Tree

theorem childGo_lt (p : Nat) (nm : Bytes) : ∀ (l : List TNode) (i r : Nat), childGo p nm i l = some r → r < i + l.length := by
  intro l
  induction l with
  | nil => intro i r h; simp [childGo] at h
  | cons n rest ih =>
    intro i r h
    simp only [childGo] at h
    split at h
    · cases h; simp
    · have := ih (i + 1) r h; simp; omega

theorem walk_lt (t : T) : ∀ (cs : List Bytes) (cur r : Nat), cur < t.length → walk t cur cs = .found r → r < t.length := by
  intro cs
  induction cs with
  | nil => intro cur r hc h; simp only [walk] at h; cases h; exact hc
  | cons c cs ih =>
    intro cur r hc h
    simp only [walk] at h
    split at h
    · cases h
    · split at h
      · cases h
      · rename_i n hn
        have := childGo_lt cur c t 0 n hn
        exact ih n r (by omega) h

theorem toGraph_wf (t : T) (hne : t ≠ []) : WF (toGraph t) := by
  intro i j h
  unfold Step toGraph at h
  rw [List.getElem?_map] at h
  cases hi : t[i]? with
  | none => rw [hi] at h; cases h
  | some n =>
    rw [hi] at h
    simp only [Option.map_some] at h
    have hlen : 0 < t.length := by cases t with | nil => exact absurd rfl hne | cons _ _ => simp
    cases hk : n.kind with
    | dir => rw [hk] at h; cases h
    | other => rw [hk] at h; cases h
    | hlink =>
      rw [hk] at h
      simp only [Option.some.injEq, Node.hlink.injEq] at h
      simp only [toGraph, List.length_map]
      exact walk_lt t _ 0 j hlen h

theorem mem_linksGo : ∀ (l : List TNode) (i : Nat) (acc : List Nat) (k : Nat),
    k ∈ linksGo i l acc ↔ k ∈ acc ∨ (i ≤ k ∧ ∃ n, l[k - i]? = some n ∧ n.kind = .hlink) := by
  intro l
  induction l with
  | nil => intro i acc k; simp [linksGo]
  | cons n rest ih =>
    intro i acc k
    simp only [linksGo]
    rw [ih]
    constructor
    · rintro (h | ⟨hle, m, hm, hk⟩)
      · split at h
        · rcases List.mem_cons.1 h with rfl | h
          · right; exact ⟨Nat.le_refl _, n, by simp, by assumption⟩
          · left; exact h
        · left; exact h
      · right
        refine ⟨by omega, m, ?_, hk⟩
        have : k - i = (k - (i + 1)) + 1 := by omega
        rw [this]; simpa using hm
    · rintro (h | ⟨hle, m, hm, hk⟩)
      · left; split
        · exact List.mem_cons_of_mem _ h
        · exact h
      · by_cases hki : k = i
        · subst hki
          simp at hm
          subst hm
          left; simp [hk]
        · right
          refine ⟨by omega, m, ?_, hk⟩
          have : k - i = (k - (i + 1)) + 1 := by omega
          rw [this] at hm; simpa using hm

theorem links_complete (t : T) (k : Nat) (tg : Lookup) (h : (toGraph t)[k]? = some (.hlink tg)) : k ∈ links t := by
  unfold links
  rw [mem_linksGo]
  right
  refine ⟨Nat.zero_le _, ?_⟩
  unfold toGraph at h
  rw [List.getElem?_map] at h
  cases hi : t[k]? with
  | none => rw [hi] at h; cases h
  | some n =>
    rw [hi] at h
    simp only [Option.map_some] at h
    refine ⟨n, by simp [hi], ?_⟩
    cases hk : n.kind with
    | dir => rw [hk] at h; cases h
    | other => rw [hk] at h; cases h
    | hlink => rfl

theorem links_lt (t : T) (n : Nat) (h : n ∈ links t) : n < (toGraph t).length := by
  unfold links at h
  rw [mem_linksGo] at h
  rcases h with h | ⟨_, m, hm, _⟩
  · cases h
  · simp only [Nat.sub_zero] at hm
    have := (List.getElem?_eq_some_iff.1 hm).1
    simpa [toGraph] using this

end Sqfs.HardLink.Tree
