/-
C04 — the hard-link filter of sqfs2tar (`lib/sqfs/src/io/dir_hl.c`, model `hlFilter`): which entries come out as hard links and
to which name they point.
-/
import Sqfs.Model.TarSqfs2tar
namespace Sqfs.Tar

/-- the (inode, emitted name) pairs of the entries that can be link targets: everything but directories -/
def linkable (es : List RawEnt) : List (Nat × Bytes) :=
  es.filterMap fun x => if fmt x.mode = S_IFDIR then none else some (x.inode, x.name)

/-- what the filter does with one entry, given the name recorded for its inode (if any) -/
def hlMark (e : RawEnt) : Option (Nat × Bytes) → RawEnt
  | some (_, tgt) => { e with mode := S_IFLNK + 0o777, hardLink := true, target := some tgt, xattr := [], content := [] }
  | none => e

theorem find_skip (seen R : List (Nat × Bytes)) (p : Nat × Bytes) (x : Nat)
    (h : (seen.find? (·.1 = p.1)).isSome = true) :
    (seen ++ p :: R).find? (·.1 = x) = (seen ++ R).find? (·.1 = x) := by
  simp only [List.find?_append]
  cases hs : seen.find? (·.1 = x) with
  | some v => rfl
  | none =>
    simp only [Option.none_or, List.find?_cons]
    by_cases hx : p.1 = x
    · subst hx; rw [hs] at h; cases h
    · simp [hx]

theorem hlFilter_length (seen : List (Nat × Bytes)) (es : List RawEnt) : (hlFilter seen es).length = es.length := by
  induction es generalizing seen with
  | nil => rfl
  | cons e rest ih =>
    unfold hlFilter
    split
    · simp [ih]
    · split <;> simp [ih]

theorem hlFilter_cons_dir (seen : List (Nat × Bytes)) (e : RawEnt) (rest : List RawEnt) (hd : fmt e.mode = S_IFDIR) :
    hlFilter seen (e :: rest) = e :: hlFilter seen rest := by
  rw [hlFilter, if_pos hd]

theorem hlFilter_cons_found (seen : List (Nat × Bytes)) (e : RawEnt) (rest : List RawEnt) (hd : ¬ fmt e.mode = S_IFDIR)
    (p : Nat × Bytes) (hf : seen.find? (·.1 = e.inode) = some p) :
    hlFilter seen (e :: rest) = hlMark e (some p) :: hlFilter seen rest := by
  rw [hlFilter, if_neg hd, hf]
  rfl

theorem hlFilter_cons_new (seen : List (Nat × Bytes)) (e : RawEnt) (rest : List RawEnt) (hd : ¬ fmt e.mode = S_IFDIR)
    (hf : seen.find? (·.1 = e.inode) = none) :
    hlFilter seen (e :: rest) = e :: hlFilter (seen ++ [(e.inode, e.name)]) rest := by
  rw [hlFilter, if_neg hd, hf]

theorem linkable_cons (e : RawEnt) (l : List RawEnt) (hd : ¬ fmt e.mode = S_IFDIR) :
    linkable (e :: l) = (e.inode, e.name) :: linkable l := by
  simp [linkable, hd]

theorem linkable_cons_dir (e : RawEnt) (l : List RawEnt) (hd : fmt e.mode = S_IFDIR) : linkable (e :: l) = linkable l := by
  simp [linkable, hd]

theorem hlFilter_getElem (es : List RawEnt) : ∀ (seen : List (Nat × Bytes)) (i : Nat) (hi : i < es.length),
    (hlFilter seen es)[i]'(by rw [hlFilter_length]; exact hi) =
      if fmt es[i].mode = S_IFDIR then es[i]
      else hlMark es[i] ((seen ++ linkable (es.take i)).find? (·.1 = es[i].inode)) := by
  induction es with
  | nil => intro seen i hi; cases hi
  | cons e rest ih =>
    intro seen i hi
    by_cases hd : fmt e.mode = S_IFDIR
    · cases i with
      | zero => simp only [hlFilter_cons_dir seen e rest hd, List.getElem_cons_zero, hd, if_true]
      | succ k =>
        have hk : k < rest.length := by simpa using hi
        simp only [hlFilter_cons_dir seen e rest hd, List.getElem_cons_succ, List.take_succ_cons, linkable_cons_dir e _ hd]
        exact ih seen k hk
    · cases hf : seen.find? (·.1 = e.inode) with
      | some p =>
        cases i with
        | zero =>
          simp only [hlFilter_cons_found seen e rest hd p hf, List.getElem_cons_zero, hd, if_false, List.take_zero, linkable,
            List.filterMap_nil, List.append_nil, hf]
        | succ k =>
          have hk : k < rest.length := by simpa using hi
          simp only [hlFilter_cons_found seen e rest hd p hf, List.getElem_cons_succ, List.take_succ_cons, linkable_cons e _ hd]
          rw [ih seen k hk, find_skip seen _ (e.inode, e.name) _ (by simp [hf])]
      | none =>
        cases i with
        | zero =>
          simp only [hlFilter_cons_new seen e rest hd hf, List.getElem_cons_zero, hd, if_false, List.take_zero, linkable,
            List.filterMap_nil, List.append_nil, hf, hlMark]
        | succ k =>
          have hk : k < rest.length := by simpa using hi
          simp only [hlFilter_cons_new seen e rest hd hf, List.getElem_cons_succ, List.take_succ_cons, linkable_cons e _ hd]
          rw [ih _ k hk, List.append_assoc]
          rfl

/-- `keep_entry` for one `--subdir` argument selects exactly the directory itself, its ancestors and what lies below it -/
theorem keepFor_iff (p name : Bytes) :
    keepFor p name = true ↔ name = p ∨ isBelow name p = true ∨ isBelow p name = true := by
  unfold keepFor isBelow
  by_cases h : name.length ≤ p.length
  · rw [if_pos h]
    by_cases he : name.length = p.length
    · have h1 : ¬ name.length < p.length := by omega
      have h2 : ¬ p.length < name.length := by omega
      have ht : p.take name.length = p := by rw [he]; exact List.take_length
      simp only [he, true_or, true_and, List.take_length, Nat.lt_irrefl, false_and, decide_false, Bool.false_eq_true, or_false,
        decide_eq_true_eq]
      exact eq_comm
    · have h1 : name.length < p.length := by omega
      have h2 : ¬ p.length < name.length := by omega
      have hne : name ≠ p := by intro h; subst h; exact he rfl
      simp only [he, false_or, h1, h2, true_and, false_and, decide_false, hne, decide_eq_true_eq, Bool.false_eq_true, or_false]
  · rw [if_neg h]
    have h1 : ¬ name.length < p.length := by omega
    have h2 : p.length < name.length := by omega
    have hne : name ≠ p := by intro h'; subst h'; omega
    simp only [h1, h2, true_and, false_and, decide_false, false_or, hne, decide_eq_true_eq, Bool.false_eq_true]

end Sqfs.Tar
