/-
C02 helper lemmas (failing compressor, part 2): the block processor over two pool behaviours that agree wherever a
predicate `G` on the pool's history holds, `G` being closed downwards along the three ways the pool state evolves.  If a
function of the model succeeds over the one behaviour and `G` holds of the pool *afterwards*, then `G` held before and the
function does exactly the same over the other behaviour.  (Used with `G = Healthy`: the failing serial pool vs. the healthy
one.)  Part 2a: everything up to `dequeue_block`.
-/
import Sqfs.Proofs.BPFailPool
namespace Sqfs.BlockProc
open Sqfs.Consts
open Sqfs.BlockWriter (hasFlag)

/-- the same parameters with another pool behaviour -/
abbrev withAns (P : Params) (a : PoolSt → Pool.Op → Pool.Ret) : Params := { P with ans := a }

structure Agrees (P : Params) (a : PoolSt → Pool.Op → Pool.Ret) (G : PoolSt → Prop) : Prop where
  agree : ∀ p op, G p → a p op = P.ans p op
  ofSubmit : ∀ p b, G (p.record (.submit p.table.length) (p.table ++ [b])) → G p
  ofSame : ∀ p op, G (p.record op p.table) → G p

section
variable {P : Params} {a : PoolSt → Pool.Op → Pool.Ret} {G : PoolSt → Prop}

/-! ### functions that do not consult the pool -/

theorem search_ans (s : Proc) (d : Bytes) (hd : UInt32) (kf : Nat) (l : List Chunk) :
    search (withAns P a) s d hd kf l = search P s d hd kf l := by
  induction l generalizing s with
  | nil => rfl
  | cons c rest ih =>
    simp only [search]
    have : chunkEquals (withAns P a) s d hd kf c = chunkEquals P s d hd kf c := rfl
    rw [this]
    split <;> simp only [ih]

theorem insert_ans (s : Proc) (d : Bytes) (new : Chunk) (done l : List Chunk) :
    insert (withAns P a) s d new done l = insert P s d new done l := by
  induction l generalizing s done with
  | nil => rfl
  | cons c rest ih =>
    simp only [insert]
    have : chunkEquals (withAns P a) s d new.hash new.flags c = chunkEquals P s d new.hash new.flags c := rfl
    rw [this]
    split <;> simp only [ih]

theorem lookupFrag_ans (s : Proc) (frag : Blk) : lookupFrag (withAns P a) s frag = lookupFrag P s frag := by
  unfold lookupFrag
  rw [search_ans]

theorem search_pool (s : Proc) (d : Bytes) (hd : UInt32) (kf : Nat) (l : List Chunk) (r : Option Chunk) (s' : Proc)
    (h : search P s d hd kf l = .ok (r, s')) : s'.pool = s.pool := by
  induction l generalizing s with
  | nil => simp only [search, Except.ok.injEq, Prod.mk.injEq] at h; rw [← h.2]
  | cons c rest ih =>
    simp only [search] at h
    split at h
    · cases h
    · simp only [Except.ok.injEq, Prod.mk.injEq] at h; rw [← h.2]
    · exact (ih _ h).trans rfl

theorem insert_pool (s : Proc) (d : Bytes) (new : Chunk) (done l : List Chunk) (s' : Proc)
    (h : insert P s d new done l = .ok s') : s'.pool = s.pool := by
  induction l generalizing s done with
  | nil => simp only [insert, Except.ok.injEq] at h; rw [← h]
  | cons c rest ih =>
    simp only [insert] at h
    split at h
    · cases h
    · simp only [Except.ok.injEq] at h; rw [← h]
    · exact (ih _ _ h).trans rfl

theorem lookupFrag_pool (s : Proc) (frag : Blk) (r : Option Chunk) (s' : Proc) (h : lookupFrag P s frag = .ok (r, s')) :
    s'.pool = s.pool := by
  unfold lookupFrag at h
  split at h
  · exact search_pool _ _ _ _ _ _ _ h
  · simp only [Except.ok.injEq, Prod.mk.injEq] at h; rw [← h.2]

theorem processCompletedBlock_pool (s : Proc) (b : Blk) (s' : Proc) (h : processCompletedBlock s b = .ok s') :
    s'.pool = s.pool := by
  unfold processCompletedBlock at h
  split at h
  · cases h
  · simp only [Except.ok.injEq] at h; rw [← h]; rfl

theorem releaseGo_pool (fuel : Nat) (s s' : Proc) (h : releaseGo fuel s = .ok s') : s'.pool = s.pool := by
  induction fuel generalizing s with
  | zero =>
    simp only [releaseGo] at h
    split at h
    · simp only [Except.ok.injEq] at h; rw [← h]
    · split at h
      · simp only [Except.ok.injEq] at h; rw [← h]
      · cases h
  | succ n ih =>
    simp only [releaseGo] at h
    split at h
    · simp only [Except.ok.injEq] at h; rw [← h]
    · split at h
      · simp only [Except.ok.injEq] at h; rw [← h]
      · split at h
        · cases h
        · rename_i s1 hs1
          rw [ih _ h, processCompletedBlock_pool _ _ _ hs1]

theorem release_pool (s s' : Proc) (h : release s = .ok s') : s'.pool = s.pool := releaseGo_pool _ _ _ h

/-! ### the three pool calls -/

theorem poolSubmit_snd (H : Agrees P a G) (p : PoolSt) (b : Blk) (hg : G p) :
    (poolSubmit (withAns P a) p b).2 = (poolSubmit P p b).2 := by
  simp only [poolSubmit, H.agree p _ hg]

theorem poolDequeue_snd (H : Agrees P a G) (p : PoolSt) (hg : G p) :
    (poolDequeue (withAns P a) p).2 = (poolDequeue P p).2 := by
  simp only [poolDequeue, H.agree p _ hg]

theorem poolStatus_snd (H : Agrees P a G) (p : PoolSt) (hg : G p) :
    (poolStatus (withAns P a) p).2 = (poolStatus P p).2 := by
  simp only [poolStatus, H.agree p _ hg]

/-! ### `enqueue_block` … `dequeue_block` -/

theorem enqueueBlock_tr (H : Agrees P a G) (s : Proc) (b : Blk) (s' : Proc)
    (h : enqueueBlock (withAns P a) s b = .ok s') (hg : G s'.pool) : G s.pool ∧ enqueueBlock P s b = .ok s' := by
  unfold enqueueBlock at h
  split at h
  · cases h
  · rename_i h0
    simp only [Except.ok.injEq] at h
    have hp : s'.pool = (poolSubmit P s.pool b).1 := by rw [← h]; rfl
    have hg0 : G s.pool := by
      rw [hp] at hg
      exact H.ofSubmit _ _ hg
    refine ⟨hg0, ?_⟩
    unfold enqueueBlock
    rw [poolSubmit_snd H _ _ hg0] at h0
    rw [if_neg h0, ← h]
    rfl

theorem makeRoom_tr (H : Agrees P a G) (s : Proc) (len : Nat) (s' : Proc)
    (h : makeRoom (withAns P a) s len = .ok s') (hg : G s'.pool) : G s.pool ∧ makeRoom P s len = .ok s' := by
  unfold makeRoom at h ⊢
  split at h
  · split at h
    · obtain ⟨h1, h2⟩ := enqueueBlock_tr H _ _ _ h hg
      rename_i hc
      exact ⟨h1, by rw [if_pos hc]; exact h2⟩
    · rename_i hc
      simp only [Except.ok.injEq] at h
      rw [← h] at hg
      exact ⟨hg, by rw [if_neg hc, h]⟩
  · simp only [Except.ok.injEq] at h
    rw [← h] at hg
    exact ⟨hg, by rw [h]⟩

theorem storeFrag_tr (H : Agrees P a G) (s : Proc) (frag : Blk) (s' : Proc)
    (h : storeFrag (withAns P a) s frag = .ok s') (hg : G s'.pool) : G s.pool ∧ storeFrag P s frag = .ok s' := by
  unfold storeFrag at h ⊢
  split at h
  · cases h
  · rename_i s2 hs2
    simp only at h
    rw [insert_ans] at h
    split at h
    · cases h
    · rename_i s4 hs4
      simp only [Except.ok.injEq] at h
      have hp4 : s4.pool = s2.pool := by
        have := insert_pool _ _ _ _ _ _ hs4
        rw [this]
        unfold placeFrag
        split <;> rfl
      have hp' : s'.pool = s4.pool := by
        rw [← h]
        split <;> rfl
      have hg2 : G s2.pool := by rw [← hp4, ← hp']; exact hg
      obtain ⟨h1, h2⟩ := makeRoom_tr H _ _ _ hs2 hg2
      refine ⟨h1, ?_⟩
      rw [h2]
      simp only
      rw [hs4]
      simp only [Except.ok.injEq]
      exact h

theorem processCompletedFragment_tr (H : Agrees P a G) (s : Proc) (frag : Blk) (s' : Proc)
    (h : processCompletedFragment (withAns P a) s frag = .ok s') (hg : G s'.pool) :
    G s.pool ∧ processCompletedFragment P s frag = .ok s' := by
  unfold processCompletedFragment at h ⊢
  split at h
  · rename_i hc
    simp only [Except.ok.injEq] at h
    rw [if_pos hc]
    have : s'.pool = s.pool := by rw [← h]; rfl
    rw [this] at hg
    exact ⟨hg, by rw [h]⟩
  · rename_i hc
    rw [if_neg hc]
    rw [lookupFrag_ans] at h
    split at h
    · cases h
    · rename_i c s1 hl
      simp only [Except.ok.injEq] at h
      have hp1 := lookupFrag_pool _ _ _ _ hl
      have : s'.pool = s1.pool := by rw [← h]; rfl
      rw [this, hp1] at hg
      exact ⟨hg, by rw [h]⟩
    · rename_i s1 hl
      have hp1 := lookupFrag_pool _ _ _ _ hl
      obtain ⟨h1, h2⟩ := storeFrag_tr H _ _ _ h hg
      rw [hp1] at h1
      exact ⟨h1, h2⟩

theorem handleDequeued_tr (H : Agrees P a G) (s : Proc) (blk : Blk) (s' : Proc)
    (h : handleDequeued (withAns P a) s blk = .ok s') (hg : G s'.pool) : G s.pool ∧ handleDequeued P s blk = .ok s' := by
  unfold handleDequeued at h ⊢
  split at h
  · rename_i hc
    rw [if_pos hc]
    exact processCompletedFragment_tr H _ _ _ h hg
  · rename_i hc
    rw [if_neg hc]
    split at h
    · rename_i hn
      simp only [Except.ok.injEq] at h
      have : s'.pool = s.pool := by rw [← h]
      rw [this] at hg
      exact ⟨hg, by rw [if_pos hn, h]⟩
    · rename_i hn
      simp only [Except.ok.injEq] at h
      have : s'.pool = s.pool := by rw [← h]
      rw [this] at hg
      exact ⟨hg, by rw [if_neg hn, h]⟩

theorem dequeueGo_tr (H : Agrees P a G) (backlogOld : Nat) (fuel : Nat) (s s' : Proc)
    (h : dequeueGo (withAns P a) backlogOld fuel s = .ok s') (hg : G s'.pool) :
    G s.pool ∧ dequeueGo P backlogOld fuel s = .ok s' := by
  induction fuel generalizing s with
  | zero => simp only [dequeueGo] at h; cases h
  | succ n ih =>
    simp only [dequeueGo] at h ⊢
    split at h
    · cases h
    · rename_i s1 hs1
      have hp1 := release_pool _ _ hs1
      split at h
      · rename_i hc
        simp only [Except.ok.injEq] at h
        rw [← h, hp1] at hg
        exact ⟨hg, by rw [if_pos hc, h]⟩
      · rename_i hc
        rw [if_neg hc]
        split at h
        · rename_i hm
          simp only [Except.ok.injEq] at h
          rw [← h, hp1] at hg
          exact ⟨hg, by rw [if_pos hm, h]⟩
        · rename_i hm
          rw [if_neg hm]
          split at h
          · cases h
          · rename_i blk hb
            split at h
            · cases h
            · rename_i s2 hs2
              have key : G s2.pool → G s.pool ∧
                  (poolDequeue P s1.pool).2 = some blk ∧ handleDequeued P { s1 with pool := (poolDequeue P s1.pool).1 } blk = .ok s2 := by
                intro hg2
                obtain ⟨h1, h2⟩ := handleDequeued_tr H _ _ _ hs2 hg2
                have h1' : G s1.pool := H.ofSame _ _ h1
                refine ⟨by rw [← hp1]; exact h1', ?_, h2⟩
                rw [← poolDequeue_snd H _ h1']; exact hb
              split at h
              · rename_i hge
                obtain ⟨g2, e2⟩ := ih _ h
                obtain ⟨g0, e1, e3⟩ := key g2
                refine ⟨g0, ?_⟩
                rw [e1]
                simp only
                rw [e3]
                simp only
                rw [if_pos hge]
                exact e2
              · rename_i hge
                simp only [Except.ok.injEq] at h
                rw [← h] at hg
                obtain ⟨g0, e1, e3⟩ := key hg
                refine ⟨g0, ?_⟩
                rw [e1]
                simp only
                rw [e3]
                simp only
                rw [if_neg hge, h]

theorem dequeueBlock_tr (H : Agrees P a G) (s s' : Proc) (h : dequeueBlock (withAns P a) s = .ok s') (hg : G s'.pool) :
    G s.pool ∧ dequeueBlock P s = .ok s' :=
  dequeueGo_tr H _ _ _ _ h hg

end
end Sqfs.BlockProc
