/-
Lemmas about `Sqfs/Model/C03FsDir.lean`: `strcmp`-order is a strict total order on byte strings, `insert_sorted`
keeps a duplicate-free list strictly sorted.
-/
import Sqfs.Model.C03FsDir
namespace Sqfs.C03FsDir

theorem strLt_irrefl : ∀ (a : Bytes), strLt a a = false := by
  intro a
  induction a with
  | nil => rfl
  | cons x xs ih => simp [strLt, ih]

theorem strLt_trans : ∀ (a b c : Bytes), strLt a b = true → strLt b c = true → strLt a c = true := by
  intro a
  induction a with
  | nil =>
    intro b c h1 h2
    cases b with
    | nil => simp [strLt] at h1
    | cons y ys => cases c with
      | nil => simp [strLt] at h2
      | cons z zs => simp [strLt]
  | cons x xs ih =>
    intro b c h1 h2
    cases b with
    | nil => simp [strLt] at h1
    | cons y ys =>
      cases c with
      | nil => simp [strLt] at h2
      | cons z zs =>
        simp only [strLt] at h1 h2 ⊢
        by_cases hxy : x < y
        · by_cases hyz : y < z
          · have : x < z := by
              rw [UInt8.lt_iff_toNat_lt] at hxy hyz ⊢; omega
            simp [this]
          · simp only [hyz, if_false] at h2
            by_cases hzy : z < y
            · simp [hzy] at h2
            · have : y = z := by
                apply UInt8.toNat_inj.mp
                rw [UInt8.lt_iff_toNat_lt] at hyz hzy; omega
              subst this; simp [hxy]
        · simp only [hxy, if_false] at h1
          by_cases hyx : y < x
          · simp [hyx] at h1
          · simp only [hyx, if_false] at h1
            have : x = y := by
              apply UInt8.toNat_inj.mp
              rw [UInt8.lt_iff_toNat_lt] at hxy hyx; omega
            subst this
            by_cases hxz : x < z
            · simp [hxz]
            · simp only [hxz, if_false] at h2 ⊢
              by_cases hzx : z < x
              · simp [hzx] at h2
              · simp only [hzx, if_false] at h2 ⊢
                exact ih ys zs h1 h2

/-- trichotomy: two different names are ordered one way or the other -/
theorem strLt_total : ∀ (a b : Bytes), strLt a b = false → a ≠ b → strLt b a = true := by
  intro a
  induction a with
  | nil =>
    intro b h hne
    cases b with
    | nil => exact absurd rfl hne
    | cons y ys => simp [strLt] at h
  | cons x xs ih =>
    intro b h hne
    cases b with
    | nil => simp [strLt]
    | cons y ys =>
      simp only [strLt] at h ⊢
      by_cases hxy : x < y
      · simp [hxy] at h
      · simp only [hxy, if_false] at h
        by_cases hyx : y < x
        · simp [hyx]
        · simp only [hyx, if_false] at h ⊢
          have : x = y := by
            apply UInt8.toNat_inj.mp
            rw [UInt8.lt_iff_toNat_lt] at hxy hyx; omega
          subst this
          simp only [hxy, if_false]
          exact ih ys h (fun he => hne (by rw [he]))

/-- strictly sorted by `strcmp` -/
def Sorted (l : List Bytes) : Prop := l.Pairwise (fun a b => strLt a b = true)

theorem mem_insertSorted (n x : Bytes) : ∀ (l : List Bytes), x ∈ insertSorted n l ↔ x = n ∨ x ∈ l := by
  intro l
  induction l with
  | nil => simp [insertSorted]
  | cons it rest ih =>
    unfold insertSorted
    split
    · simp only [List.mem_cons, ih]
      constructor
      · rintro (h | h | h)
        · exact Or.inr (Or.inl h)
        · exact Or.inl h
        · exact Or.inr (Or.inr h)
      · rintro (h | h | h)
        · exact Or.inr (Or.inl h)
        · exact Or.inl h
        · exact Or.inr (Or.inr h)
    · simp [List.mem_cons]

theorem length_insertSorted (n : Bytes) : ∀ (l : List Bytes), (insertSorted n l).length = l.length + 1 := by
  intro l
  induction l with
  | nil => rfl
  | cons it rest ih => unfold insertSorted; split <;> simp [ih]

theorem sorted_insertSorted (n : Bytes) : ∀ (l : List Bytes), Sorted l → n ∉ l → Sorted (insertSorted n l) := by
  intro l
  induction l with
  | nil => intro _ _; simp [insertSorted, Sorted]
  | cons it rest ih =>
    intro hs hn
    unfold Sorted at hs
    rw [List.pairwise_cons] at hs
    unfold insertSorted
    by_cases hlt : strLt it n = true
    · rw [if_pos hlt]
      unfold Sorted
      rw [List.pairwise_cons]
      refine ⟨?_, ih hs.2 (fun h => hn (List.mem_cons_of_mem _ h))⟩
      intro x hx
      rcases (mem_insertSorted n x rest).mp hx with h | h
      · subst h; exact hlt
      · exact hs.1 x h
    · rw [if_neg hlt]
      have hni : strLt n it = true :=
        strLt_total it n (by simpa using hlt) (fun he => hn (by rw [he]; exact List.mem_cons_self))
      unfold Sorted
      rw [List.pairwise_cons, List.pairwise_cons]
      refine ⟨?_, hs⟩
      intro x hx
      rcases List.mem_cons.mp hx with h | h
      · subst h; exact hni
      · exact strLt_trans n it x hni (hs.1 x h)

/-- invariant of a directory built by `addChild` from the empty one -/
structure Good (d : Dir) : Prop where
  sorted : Sorted d.children
  links : d.linkCount = 2 + d.children.length
  bound : d.linkCount ≤ 0xFFFFFFFF

theorem good_init : Good {} := ⟨by simp [Sorted], rfl, by decide⟩

theorem addChild_good (d d' : Dir) (n : Bytes) (hg : Good d) (h : addChild d n = .ok d') :
    Good d' ∧ n ∉ d.children ∧ d'.children = insertSorted n d.children := by
  unfold addChild at h
  split at h
  · simp at h
  · rename_i hc
    split at h
    · simp at h
    · rename_i hl
      simp only [Except.ok.injEq] at h
      subst h
      have hn : n ∉ d.children := by simpa using hc
      refine ⟨⟨sorted_insertSorted n _ hg.sorted hn, ?_, ?_⟩, hn, rfl⟩
      · simp only [length_insertSorted]; have := hg.links; omega
      · have := hg.bound; simp only; omega

theorem addAll_good : ∀ (names : List Bytes) (d : Dir), Good d →
    Good (addAll d names) ∧ (∀ x, x ∈ (addAll d names).children → x ∈ d.children ∨ x ∈ names) ∧
    ((addAll d names).linkCount < 0xFFFFFFFF → ∀ x, x ∈ d.children ∨ x ∈ names → x ∈ (addAll d names).children) ∧
    d.linkCount ≤ (addAll d names).linkCount := by
  intro names
  induction names with
  | nil => intro d hg; simp [addAll, hg]
  | cons n ns ih =>
    intro d hg
    unfold addAll
    simp only [List.foldl_cons]
    cases hadd : addChild d n with
    | error e =>
      simp only
      obtain ⟨i1, i2, i3, i4⟩ := ih d hg
      unfold addAll at i1 i2 i3 i4
      refine ⟨i1, ?_, ?_, i4⟩
      · intro x hx
        rcases i2 x hx with h | h
        · exact Or.inl h
        · exact Or.inr (List.mem_cons_of_mem _ h)
      · intro hlt x hx
        -- the refused name was refused because it is there already (EMLINK is excluded by `hlt`)
        have hin : n ∈ d.children := by
          unfold addChild at hadd
          split at hadd
          · rename_i hc; simpa using hc
          · split at hadd
            · rename_i hl; omega
            · simp at hadd
        rcases hx with h | h
        · exact i3 hlt x (Or.inl h)
        · rcases List.mem_cons.mp h with h | h
          · subst h; exact i3 hlt x (Or.inl hin)
          · exact i3 hlt x (Or.inr h)
    | ok d' =>
      simp only
      obtain ⟨g', hn, hc⟩ := addChild_good d d' n hg hadd
      obtain ⟨i1, i2, i3, i4⟩ := ih d' g'
      unfold addAll at i1 i2 i3 i4
      have hl : d'.linkCount = d.linkCount + 1 := by
        have := g'.links; have := hg.links; rw [hc, length_insertSorted] at *; omega
      refine ⟨i1, ?_, ?_, by omega⟩
      · intro x hx
        rcases i2 x hx with h | h
        · rw [hc] at h
          rcases (mem_insertSorted n x _).mp h with h | h
          · subst h; exact Or.inr List.mem_cons_self
          · exact Or.inl h
        · exact Or.inr (List.mem_cons_of_mem _ h)
      · intro hlt x hx
        apply i3 hlt x
        rw [hc]
        rcases hx with h | h
        · exact Or.inl ((mem_insertSorted n x _).mpr (Or.inr h))
        · rcases List.mem_cons.mp h with h | h
          · subst h; exact Or.inl ((mem_insertSorted x x _).mpr (Or.inl rfl))
          · exact Or.inr h

end Sqfs.C03FsDir
