/-
Export table (`dir_writer.c: add_export_table_entry`): after every directory entry and the root have been added,
entry `i - 1` is the inode reference of inode number `i`.
-/
import Sqfs.Spec.PackSpec
namespace Sqfs.Pack

theorem addExport_length (t : List UInt64) (n : Nat) (r : UInt64) (hn : 1 ≤ n) :
    (addExport t n r).length = max t.length n := by
  unfold addExport
  split
  · simp; omega
  · simp; omega

theorem addExport_self (t : List UInt64) (n : Nat) (r : UInt64) (hn : 1 ≤ n) : (addExport t n r)[n - 1]? = some r := by
  unfold addExport
  rw [List.getElem?_set_self]
  split
  · simp; omega
  · omega

theorem addExport_other (t : List UInt64) (n : Nat) (r : UInt64) (i : Nat) (hi : i ≠ n - 1) (v : UInt64)
    (h : t[i]? = some v) : (addExport t n r)[i]? = some v := by
  unfold addExport
  rw [List.getElem?_set_ne (Ne.symm hi)]
  have hlt : i < t.length := by
    rcases Nat.lt_or_ge i t.length with h' | h'
    · exact h'
    · rw [List.getElem?_eq_none_iff.2 h'] at h; cases h
  split
  · rw [List.getElem?_append_left hlt]; exact h
  · exact h

/-- inode `m` has its reference in the table -/
def Has (ref : Nat → UInt64) (t : List UInt64) (m : Nat) : Prop := t[m - 1]? = some (ref m)

theorem has_addExport (ref : Nat → UInt64) (t : List UInt64) (m m' : Nat) (hm : 1 ≤ m) (hm' : 1 ≤ m')
    (h : Has ref t m) : Has ref (addExport t m' (ref m')) m := by
  unfold Has at h ⊢
  by_cases e : m - 1 = m' - 1
  · have : m = m' := by omega
    subst this
    exact addExport_self t m (ref m) hm
  · exact addExport_other t m' (ref m') (m - 1) e _ h

theorem export_fold (ref : Nat → UInt64) (N : Nat) : ∀ (L : List Nat) (t : List UInt64),
    (∀ m ∈ L, 1 ≤ m ∧ m ≤ N) → t.length ≤ N →
    (L.foldl (fun t m => addExport t m (ref m)) t).length ≤ N
    ∧ (∀ m, 1 ≤ m → Has ref t m → Has ref (L.foldl (fun t m => addExport t m (ref m)) t) m)
    ∧ (∀ m ∈ L, Has ref (L.foldl (fun t m => addExport t m (ref m)) t) m) := by
  intro L
  induction L with
  | nil => intro t _ ht; exact ⟨ht, fun _ _ h => h, fun m hm => by simp at hm⟩
  | cons a L ih =>
    intro t hL ht
    have ha := hL a (by simp)
    have hlen : (addExport t a (ref a)).length ≤ N := by rw [addExport_length _ _ _ ha.1]; omega
    obtain ⟨h1, h2, h3⟩ := ih (addExport t a (ref a)) (fun m hm => hL m (List.mem_cons_of_mem _ hm)) hlen
    simp only [List.foldl_cons]
    refine ⟨h1, ?_, ?_⟩
    · intro m hm hh
      exact h2 m hm (has_addExport ref t m a hm ha.1 hh)
    · intro m hm
      rcases List.mem_cons.1 hm with rfl | hm
      · exact h2 m ha.1 (addExport_self t m (ref m) ha.1)
      · exact h3 m hm

theorem exportTable_eq_fold (ref : Nat → UInt64) (nums : List Nat) (root : Nat) :
    exportTable (nums.map (fun m => (m, ref m))) (root, ref root)
      = (nums ++ [root]).foldl (fun t m => addExport t m (ref m)) [] := by
  unfold exportTable
  have : nums.map (fun m => (m, ref m)) ++ [(root, ref root)] = (nums ++ [root]).map (fun m => (m, ref m)) := by simp
  rw [this, List.foldl_map]

end Sqfs.Pack
