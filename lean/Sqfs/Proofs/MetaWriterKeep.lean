/-
C03 helper lemmas: the meta writer with its flag word and both sinks (`FSt`: `flush` branches on
`SQFS_META_WRITER_KEEP_IN_MEMORY`, meta_writer.c:134-144) runs in step with the flag-less machine `St` that every other
theorem about the meta writer is stated for.
-/
import Sqfs.Proofs.MetaWriter
namespace Sqfs.MetaWriter
open Sqfs.Consts

/-- the flagged writer `w` and the flag-less machine `st` are in step: same open chunk, same `block_offset`, and the
blocks flushed so far sit — all of them, in order — in the sink the flag selects, the other sink being empty -/
def FSim (w : FSt) (st : St) : Prop :=
  w.cur = st.cur ∧ w.blockOffset = st.blockOffset ∧
  (if hasFlag w.flags metaWriterKeepInMemory then w.list = st.out ∧ w.file = [] else w.file = st.out ∧ w.list = [])

theorem FSim.init (fl : Nat) : FSim { flags := fl } {} := by
  refine ⟨rfl, rfl, ?_⟩
  split <;> exact ⟨rfl, rfl⟩

theorem FSim.ofSt (fl : Nat) (st : St) : FSim (FSt.ofSt fl st) st := by
  unfold FSt.ofSt
  by_cases h : hasFlag fl metaWriterKeepInMemory = true
  · rw [if_pos h]; exact ⟨rfl, rfl, by rw [if_pos h]; exact ⟨rfl, rfl⟩⟩
  · rw [if_neg h]; exact ⟨rfl, rfl, by rw [if_neg h]; exact ⟨rfl, rfl⟩⟩

theorem FSt.flush_flags (cmp : Codec) (w : FSt) : (w.flush cmp).flags = w.flags := by
  unfold FSt.flush
  split
  · rfl
  · simp only
    split <;> rfl

theorem FSim.flush {cmp : Codec} {w : FSt} {st : St} (h : FSim w st) : FSim (w.flush cmp) (flush cmp st) := by
  obtain ⟨h1, h2, h3⟩ := h
  unfold FSt.flush MetaWriter.flush
  rw [h1]
  by_cases hc : st.cur = []
  · rw [if_pos hc, if_pos hc]; exact ⟨h1, h2, h3⟩
  · rw [if_neg hc, if_neg hc]
    simp only
    by_cases hk : hasFlag w.flags metaWriterKeepInMemory = true
    · rw [if_pos hk]
      rw [if_pos hk] at h3
      cases hcmp : cmp st.cur with
      | none => exact ⟨rfl, by simp only [h2]; omega, by simp only [hk, if_true]; exact ⟨by rw [h3.1], h3.2⟩⟩
      | some c =>
        simp only
        by_cases hl : c.length > 0
        · simp only [hl, if_true]
          exact ⟨rfl, by simp only [h2]; omega, by simp only [hk, if_true]; exact ⟨by rw [h3.1], h3.2⟩⟩
        · simp only [hl, if_false]
          exact ⟨rfl, by simp only [h2]; omega, by simp only [hk, if_true]; exact ⟨by rw [h3.1], h3.2⟩⟩
    · rw [if_neg hk]
      rw [if_neg hk] at h3
      cases hcmp : cmp st.cur with
      | none => exact ⟨rfl, by simp only [h2]; omega, by simp only [hk]; exact ⟨by rw [h3.1], h3.2⟩⟩
      | some c =>
        simp only
        by_cases hl : c.length > 0
        · simp only [hl, if_true]
          exact ⟨rfl, by simp only [h2]; omega, by simp only [hk]; exact ⟨by rw [h3.1], h3.2⟩⟩
        · simp only [hl, if_false]
          exact ⟨rfl, by simp only [h2]; omega, by simp only [hk]; exact ⟨by rw [h3.1], h3.2⟩⟩

theorem FSim.setCur {w : FSt} {st : St} (h : FSim w st) (d : Bytes) :
    FSim { w with cur := w.cur ++ d } { st with cur := st.cur ++ d } := by
  obtain ⟨h1, h2, h3⟩ := h
  exact ⟨by simp [h1], h2, h3⟩

theorem FSim.appendGo {cmp : Codec} : ∀ (f : Nat) {w : FSt} {st : St} (data : Bytes), FSim w st →
    FSim (FSt.appendGo cmp f w data) (MetaWriter.appendGo cmp f st data)
  | 0, w, st, data, h => by simpa [FSt.appendGo, MetaWriter.appendGo] using h
  | f + 1, w, st, data, h => by
    unfold FSt.appendGo MetaWriter.appendGo
    by_cases hd : data = []
    · rw [if_pos hd, if_pos hd]; exact h
    · rw [if_neg hd, if_neg hd]
      simp only
      have hcur : w.cur = st.cur := h.1
      rw [hcur]
      by_cases hfull : st.cur.length = metaBlockSize
      · simp only [hfull, if_true]
        have hs := h.flush (cmp := cmp)
        have := (hs.setCur (data.take (min (metaBlockSize - (MetaWriter.flush cmp st).cur.length) data.length)))
        rw [← hs.1] at this ⊢
        exact FSim.appendGo f _ this
      · simp only [hfull, if_false]
        have := (h.setCur (data.take (min (metaBlockSize - st.cur.length) data.length)))
        rw [← hcur] at this ⊢
        exact FSim.appendGo f _ this

theorem FSim.append {cmp : Codec} {w : FSt} {st : St} (h : FSim w st) (d : Bytes) :
    FSim (w.append cmp d) (MetaWriter.append cmp st d) := by
  unfold FSt.append MetaWriter.append
  have hg := FSim.appendGo (cmp := cmp) (d.length + 1) d h
  simp only
  rw [hg.1]
  split
  · exact hg.flush
  · exact hg

theorem FSim.foldl {cmp : Codec} : ∀ (chunks : List Bytes) {w : FSt} {st : St}, FSim w st →
    FSim (chunks.foldl (FSt.append cmp) w) (chunks.foldl (MetaWriter.append cmp) st)
  | [], _, _, h => h
  | c :: cs, _, _, h => by
    simp only [List.foldl_cons]
    exact FSim.foldl cs (h.append c)

theorem FSt.append_flags (cmp : Codec) (w : FSt) (d : Bytes) : (w.append cmp d).flags = w.flags := by
  have hgo : ∀ (f : Nat) (w : FSt) (data : Bytes), (FSt.appendGo cmp f w data).flags = w.flags := by
    intro f
    induction f with
    | zero => intro w data; rfl
    | succ f ih =>
      intro w data
      unfold FSt.appendGo
      split
      · rfl
      · simp only
        rw [ih]
        split
        · exact FSt.flush_flags cmp w
        · rfl
  unfold FSt.append
  simp only
  split
  · rw [FSt.flush_flags, hgo]
  · rw [hgo]

theorem FSt.foldl_append_flags (cmp : Codec) : ∀ (chunks : List Bytes) (w : FSt),
    (chunks.foldl (FSt.append cmp) w).flags = w.flags
  | [], _ => rfl
  | c :: cs, w => by
    simp only [List.foldl_cons]
    rw [FSt.foldl_append_flags cmp cs, FSt.append_flags]

end Sqfs.MetaWriter
