/-
C01 — extended attributes: what `sqfs_xattr_writer_flush` writes is what `sqfs_xattr_reader_read_all` reads back,
for every set index, with in-line and out-of-line values.
-/
import Sqfs.Model.EncXattr
import Sqfs.Proofs.EncBytes
namespace Sqfs.Enc
open Sqfs.Consts
open Sqfs.Writer (le leVal le_length)

def keyOf (w : XWriter) (ki : Nat) : Bytes := w.keys.getD ki []
def valOf (w : XWriter) (vi : Nat) : Bytes := (w.values.getD vi ([], 0)).1

/-! ### keys -/

theorem prefixId_spec {key : Bytes} {t : Nat} (h : prefixId key = some t) :
    ∃ pfx rem, prefixOf t = some pfx ∧ key = pfx ++ rem ∧ afterDot key = rem ∧ t < 3 := by
  simp only [prefixId, xattrTypes, List.find?] at h
  split at h
  · rename_i hc
    simp only [Bool.and_eq_true, decide_eq_true_eq] at hc
    obtain ⟨rem, hrem⟩ := List.isPrefixOf_iff_prefix.mp hc.1
    simp only [Option.map_some, Option.some.injEq] at h
    subst h
    exact ⟨prefixUser, rem, by decide, hrem.symm, by rw [← hrem]; simp [prefixUser, afterDot], by decide⟩
  · split at h
    · rename_i hc
      simp only [Bool.and_eq_true, decide_eq_true_eq] at hc
      obtain ⟨rem, hrem⟩ := List.isPrefixOf_iff_prefix.mp hc.1
      simp only [Option.map_some, Option.some.injEq] at h
      subst h
      exact ⟨prefixTrusted, rem, by decide, hrem.symm, by rw [← hrem]; simp [prefixTrusted, afterDot], by decide⟩
    · split at h
      · rename_i hc
        simp only [Bool.and_eq_true, decide_eq_true_eq] at hc
        obtain ⟨rem, hrem⟩ := List.isPrefixOf_iff_prefix.mp hc.1
        simp only [Option.map_some, Option.some.injEq] at h
        subst h
        exact ⟨prefixSecurity, rem, by decide, hrem.symm, by rw [← hrem]; simp [prefixSecurity, afterDot], by decide⟩
      · simp at h

/-- what the pair `(key index, value index)` must satisfy to be representable: a known prefix, a key remainder that
fits the 16-bit size field, a value that fits the 32-bit size field -/
structure PairOk (w : XWriter) (p : Nat × Nat) : Prop where
  key : ∃ t, prefixId (keyOf w p.1) = some t
  klen : (afterDot (keyOf w p.1)).length < 65536
  vlen : (valOf w p.2).length < 2 ^ 32

/-- the contract between the writer's `get_position` and the reader's `seek` on the key/value stream -/
structure RefOk (refOf : Nat → Nat) (posOf : Nat → Option Nat) : Prop where
  inv : ∀ p, posOf (refOf p) = some p
  off : ∀ p, refOf p % 65536 < metaBlockSize
  lt : ∀ p, refOf p < 2 ^ 64

theorem flag_none {t : Nat} (ht : t < 3) : t % (xattrPrefixMask + 1) = t ∧ ¬ ((t / xattrFlagOol) % 2 = 1) := by
  simp only [xattrPrefixMask, xattrFlagOol]; omega

theorem flag_ool {t : Nat} (ht : t < 3) :
    (t ||| xattrFlagOol) % (xattrPrefixMask + 1) = t ∧ ((t ||| xattrFlagOol) / xattrFlagOol) % 2 = 1 ∧ (t ||| xattrFlagOol) < 65536 := by
  have : t = 0 ∨ t = 1 ∨ t = 2 := by omega
  rcases this with rfl | rfl | rfl <;> decide

/-- a pair stored in line reads back -/
theorem readPair_inline (r : XReader) (key val suffix : Bytes) {t : Nat} (hk : prefixId key = some t)
    (hkl : (afterDot key).length < 65536) (hvl : val.length < 2 ^ 32) :
    readPair r (encKey key false ++ encValue val ++ suffix) = .ok ((key, val), suffix) := by
  obtain ⟨pfx, rem, hp, hkey, hrem, ht⟩ := prefixId_spec hk
  obtain ⟨f1, f2⟩ := flag_none ht
  unfold readPair encKey encValue
  simp only [hk, Option.getD_some, hrem, Bool.false_eq_true, if_false, List.append_assoc]
  rw [hrem] at hkl
  have h1 := readFields_encFields_fit [(2, t), (2, rem.length)] (rem ++ (encFields [(4, val.length)] ++ (val ++ suffix))) (by
    simp only [List.forall_mem_cons, List.not_mem_nil, false_imp_iff, implies_true, and_true]
    constructor <;> simp <;> omega)
  simp only [List.map_cons, List.map_nil] at h1
  rw [h1]
  simp only [f1, hp, take?_append]
  have h2 := readFields_encFields_fit [(4, val.length)] (val ++ suffix) (by
    simp only [List.forall_mem_cons, List.not_mem_nil, false_imp_iff, implies_true, and_true]; simp; omega)
  simp only [List.map_cons, List.map_nil] at h2
  rw [h2]
  simp only [f2, if_false, take?_append, hkey]

/-- a pair whose value is stored out of line reads back, provided the reference leads to a stored copy of the value -/
theorem readPair_ool (r : XReader) (key val suffix a b : Bytes) (ref p : Nat) {t : Nat} (hk : prefixId key = some t)
    (hkl : (afterDot key).length < 65536) (hvl : val.length < 2 ^ 32)
    (hpos : r.posOf ref = some p) (hkv : r.kv = a ++ encValue val ++ b) (ha : a.length = p)
    (hoff : ref % 65536 < metaBlockSize) (hlt : ref < 2 ^ 64) :
    readPair r (encKey key true ++ encValueOol ref ++ suffix) = .ok ((key, val), suffix) := by
  obtain ⟨pfx, rem, hp, hkey, hrem, ht⟩ := prefixId_spec hk
  obtain ⟨f1, f2, f3⟩ := flag_ool ht
  unfold readPair encKey encValueOol
  simp only [hk, Option.getD_some, hrem, if_true, List.append_assoc]
  rw [hrem] at hkl
  have h1 := readFields_encFields_fit [(2, t ||| xattrFlagOol), (2, rem.length)]
      (rem ++ (encFields [(4, 8), (8, ref)] ++ suffix)) (by
    simp only [List.forall_mem_cons, List.not_mem_nil, false_imp_iff, implies_true, and_true]
    constructor <;> simp <;> omega)
  simp only [List.map_cons, List.map_nil] at h1
  rw [h1]
  simp only [f1, hp, take?_append]
  have h2 : readFields [4] (encFields [(4, 8), (8, ref)] ++ suffix) = .ok ([8], encFields [(8, ref)] ++ suffix) := by
    have := readFields_encFields_fit [(4, 8)] (encFields [(8, ref)] ++ suffix) (by simp)
    simpa [encFields] using this
  rw [h2]
  have h3 := readFields_encFields_fit [(8, ref)] suffix (by
    simp only [List.forall_mem_cons, List.not_mem_nil, false_imp_iff, implies_true, and_true]; simp; omega)
  simp only [List.map_cons, List.map_nil] at h3
  simp only [f2, if_true, h3]
  have hno : ¬ (ref % 65536 ≥ metaBlockSize) := by omega
  simp only [hno, if_false, hpos, hkv]
  have hd : (a ++ encValue val ++ b).drop p = encFields [(4, val.length)] ++ (val ++ b) := by
    rw [List.append_assoc, ← ha, List.drop_left]; simp [encValue]
  rw [hd]
  have h4 := readFields_encFields_fit [(4, val.length)] (val ++ b) (by
    simp only [List.forall_mem_cons, List.not_mem_nil, false_imp_iff, implies_true, and_true]; simp; omega)
  simp only [List.map_cons, List.map_nil] at h4
  rw [h4]
  simp only [take?_append, hkey]

/-! ### `write_kv_pairs` -/

/-- every location in `ool_locations[]` names a place where the value really is -/
def OolInv (refOf : Nat → Nat) (w : XWriter) (st : KvSt) : Prop :=
  ∀ vi, st.ool.getD vi NONE64 ≠ NONE64 →
    ∃ a b, st.out = a ++ encValue (valOf w vi) ++ b ∧ st.ool.getD vi NONE64 = refOf a.length

theorem getD_set (l : List Nat) (i j v d : Nat) :
    (l.set i v).getD j d = if i = j ∧ i < l.length then v else l.getD j d := by
  simp only [List.getD_eq_getElem?_getD, List.getElem?_set]
  by_cases h : i = j
  · subst h
    by_cases hl : i < l.length <;> simp [hl]
  · simp [h]

/-- one pair: the stream grows, the invariant survives, and a reader whose stream extends what had been written
before the pair reads the pair back from the bytes just appended -/
theorem writePair_spec (refOf : Nat → Nat) (posOf : Nat → Option Nat) (hr : RefOk refOf posOf) (w : XWriter) (st : KvSt)
    (p : Nat × Nat) (hinv : OolInv refOf w st) (hp : PairOk w p) :
    ∃ d, (writePair refOf w st p).out = st.out ++ d ∧ OolInv refOf w (writePair refOf w st p) ∧
      ∀ (r : XReader), r.posOf = posOf → (∃ tail, r.kv = st.out ++ tail) → ∀ suffix,
        readPair r (d ++ suffix) = .ok ((keyOf w p.1, valOf w p.2), suffix) := by
  obtain ⟨⟨t, hk⟩, hkl, hvl⟩ := hp
  unfold writePair
  simp only
  split
  · -- stored in line
    refine ⟨encKey (w.keys.getD p.1 []) false ++ encValue (w.values.getD p.2 ([], 0)).1, by simp, ?_, ?_⟩
    · intro vi hvi
      simp only at hvi ⊢
      by_cases hs : shouldStoreOol (w.values.getD p.2 ([], 0)).1 (w.values.getD p.2 ([], 0)).2 = true
      · simp only [hs, if_true] at hvi ⊢
        rw [getD_set] at hvi ⊢
        by_cases hc : p.2 = vi ∧ p.2 < st.ool.length
        · rw [if_pos hc]
          obtain ⟨rfl, _⟩ := hc
          exact ⟨st.out ++ encKey (w.keys.getD p.1 []) false, [], by simp [valOf], by simp⟩
        · rw [if_neg hc] at hvi ⊢
          obtain ⟨a, b, h1, h2⟩ := hinv vi hvi
          exact ⟨a, b ++ (encKey (w.keys.getD p.1 []) false ++ encValue (w.values.getD p.2 ([], 0)).1), by rw [h1]; simp, h2⟩
      · simp only [hs] at hvi ⊢
        obtain ⟨a, b, h1, h2⟩ := hinv vi hvi
        exact ⟨a, b ++ (encKey (w.keys.getD p.1 []) false ++ encValue (w.values.getD p.2 ([], 0)).1), by rw [h1]; simp, h2⟩
    · intro r _ _ suffix
      exact readPair_inline r _ _ suffix hk hkl hvl
  · -- stored as a reference
    rename_i hne
    obtain ⟨a, b, h1, h2⟩ := hinv p.2 hne
    refine ⟨encKey (w.keys.getD p.1 []) true ++ encValueOol (st.ool.getD p.2 NONE64), by simp, ?_, ?_⟩
    · intro vi hvi
      obtain ⟨a', b', h1', h2'⟩ := hinv vi hvi
      exact ⟨a', b' ++ (encKey (w.keys.getD p.1 []) true ++ encValueOol (st.ool.getD p.2 NONE64)), by simp only; rw [h1']; simp, h2'⟩
    · intro r hpo ⟨tail, hkv⟩ suffix
      refine readPair_ool r _ _ suffix a (b ++ tail) _ a.length hk hkl hvl ?_ ?_ rfl ?_ ?_
      · rw [hpo, h2]; exact hr.inv _
      · rw [hkv, h1]; simp [valOf]
      · rw [h2]; exact hr.off _
      · rw [h2]; exact hr.lt _

/-- all pairs of one set -/
theorem writePairs_spec (refOf : Nat → Nat) (posOf : Nat → Option Nat) (hr : RefOk refOf posOf) (w : XWriter) :
    ∀ (ps : List (Nat × Nat)) (st : KvSt), OolInv refOf w st → (∀ p ∈ ps, PairOk w p) →
      ∃ d, (ps.foldl (writePair refOf w) st).out = st.out ++ d ∧ OolInv refOf w (ps.foldl (writePair refOf w) st) ∧
        ∀ (r : XReader), r.posOf = posOf → (∃ tail, r.kv = st.out ++ d ++ tail) → ∀ suffix,
          readPairs r ps.length (d ++ suffix) = .ok (ps.map (fun p => (keyOf w p.1, valOf w p.2))) := by
  intro ps
  induction ps with
  | nil => intro st hinv _; exact ⟨[], by simp, hinv, by intro r _ _ suffix; rfl⟩
  | cons p ps ih =>
    intro st hinv hall
    obtain ⟨d1, e1, i1, r1⟩ := writePair_spec refOf posOf hr w st p hinv (hall p (List.mem_cons_self ..))
    obtain ⟨d2, e2, i2, r2⟩ := ih (writePair refOf w st p) i1 (fun x hx => hall x (List.mem_cons_of_mem _ hx))
    refine ⟨d1 ++ d2, by simp only [List.foldl_cons]; rw [e2, e1]; simp, by simpa using i2, ?_⟩
    intro r hpo ⟨tail, hkv⟩ suffix
    simp only [List.length_cons, readPairs, List.map_cons, List.append_assoc]
    rw [r1 r hpo ⟨d1 ++ (d2 ++ tail), by rw [hkv]; simp⟩ (d2 ++ suffix)]
    simp only
    rw [r2 r hpo ⟨tail, by rw [hkv, e1]; simp⟩ suffix]

/-- all sets: every descriptor names the start of its set, and the set reads back from there -/
theorem writeBlocks_spec (refOf : Nat → Nat) (posOf : Nat → Option Nat) (hr : RefOk refOf posOf) (w : XWriter) :
    ∀ (bs : List (Nat × Nat)) (st : KvSt), OolInv refOf w st → (∀ b ∈ bs, ∀ p ∈ blockPairs w.pairs b, PairOk w p) →
      ∃ d, (writeBlocks refOf w st bs).1.out = st.out ++ d ∧ (writeBlocks refOf w st bs).2.length = bs.length ∧
        ∀ (r : XReader), r.posOf = posOf → (∃ tail, r.kv = st.out ++ d ++ tail) →
          ∀ (j : Nat) (b : Nat × Nat) (ds : XDesc), bs[j]? = some b → (writeBlocks refOf w st bs).2[j]? = some ds →
            ds.count = b.2 ∧ ∃ pos, ds.ref = refOf pos ∧
              readPairs r (blockPairs w.pairs b).length (r.kv.drop pos)
                = .ok ((blockPairs w.pairs b).map (fun p => (keyOf w p.1, valOf w p.2))) := by
  intro bs
  induction bs with
  | nil => intro st _ _; exact ⟨[], by simp [writeBlocks], rfl, by intro r _ _ j b ds hb; simp at hb⟩
  | cons b bs ih =>
    intro st hinv hall
    obtain ⟨d1, e1, i1, r1⟩ := writePairs_spec refOf posOf hr w (blockPairs w.pairs b) st hinv (hall b (List.mem_cons_self ..))
    obtain ⟨d2, e2, l2, r2⟩ := ih ((blockPairs w.pairs b).foldl (writePair refOf w) st) i1
      (fun x hx => hall x (List.mem_cons_of_mem _ hx))
    refine ⟨d1 ++ d2, by simp only [writeBlocks]; rw [e2, e1]; simp, by simp [writeBlocks, l2], ?_⟩
    intro r hpo ⟨tail, hkv⟩ j b' ds hb hds
    cases j with
    | zero =>
      simp only [List.getElem?_cons_zero, Option.some.injEq] at hb
      subst hb
      simp only [writeBlocks, List.getElem?_cons_zero, Option.some.injEq] at hds
      subst hds
      refine ⟨rfl, st.out.length, rfl, ?_⟩
      have hd : r.kv.drop st.out.length = d1 ++ (d2 ++ tail) := by rw [hkv]; simp [List.append_assoc]
      rw [hd]
      exact r1 r hpo ⟨d2 ++ tail, by rw [hkv]; simp⟩ (d2 ++ tail)
    | succ j =>
      simp only [List.getElem?_cons_succ] at hb
      simp only [writeBlocks, List.getElem?_cons_succ] at hds
      exact r2 r hpo ⟨tail, by rw [hkv, e1]; simp⟩ j b' ds hb hds

theorem oolInv_init (refOf : Nat → Nat) (w : XWriter) (n : Nat) : OolInv refOf w { out := [], ool := List.replicate n NONE64 } := by
  intro vi hvi
  exfalso
  apply hvi
  simp only [List.getD_eq_getElem?_getD, List.getElem?_replicate]
  split <;> rfl

/-! ### the descriptor table -/

theorem encDesc_length (d : XDesc) : (encDesc d).length = sizeofXattrId := by
  simp [encDesc, encFields_length, sizeofXattrId]

theorem encDescs_drop : ∀ (l : List XDesc) (j : Nat) (d : XDesc), l[j]? = some d →
    ∃ tail, (encDescs l).drop (j * sizeofXattrId) = encDesc d ++ tail := by
  intro l
  induction l with
  | nil => intro j d h; simp at h
  | cons x l ih =>
    intro j d h
    cases j with
    | zero =>
      simp only [List.getElem?_cons_zero, Option.some.injEq] at h
      subst h
      exact ⟨encDescs l, by simp [encDescs]⟩
    | succ j =>
      simp only [List.getElem?_cons_succ] at h
      obtain ⟨tail, ht⟩ := ih j d h
      refine ⟨tail, ?_⟩
      have : (j + 1) * sizeofXattrId = (encDesc x).length + j * sizeofXattrId := by
        rw [encDesc_length]; simp only [sizeofXattrId]; omega
      simp only [encDescs, List.map_cons, List.flatten_cons] at ht ⊢
      rw [this, ← List.drop_drop, List.drop_left]
      exact ht

theorem getDesc_spec (r : XReader) (descs : List XDesc) (j : Nat) (d : XDesc) (hids : r.ids = encDescs descs)
    (hn : r.numIds = descs.length) (hj : descs[j]? = some d) (h1 : d.ref < 2 ^ 64) (h2 : d.count < 2 ^ 32) (h3 : d.size < 2 ^ 32) :
    getDesc r j = .ok d := by
  unfold getDesc
  obtain ⟨hlt, _⟩ := List.getElem?_eq_some_iff.mp hj
  have : ¬ (j ≥ r.numIds) := by omega
  simp only [this, if_false]
  obtain ⟨tail, ht⟩ := encDescs_drop descs j d hj
  rw [hids, ht]
  have hf := readFields_encFields_fit [(8, d.ref), (4, d.count), (4, d.size)] tail (by
    simp only [List.forall_mem_cons, List.not_mem_nil, false_imp_iff, implies_true, and_true]
    refine ⟨?_, ?_, ?_⟩ <;> simp <;> omega)
  simp only [List.map_cons, List.map_nil] at hf
  simp only [encDesc, hf]

/-- **xattr flush → read.**  For a writer state in which every recorded pair is representable, and for every
`(refOf, posOf)` in which the reader's seek undoes the writer's `get_position`: reading set index `j` from what
`sqfs_xattr_writer_flush` wrote yields exactly the pairs of block `j` — keys with their prefix, values byte for
byte, whether a value was stored in line or as a reference to an earlier copy. -/
theorem readSet_flush (refOf : Nat → Nat) (posOf : Nat → Option Nat) (hr : RefOk refOf posOf) (w : XWriter)
    (hp : ∀ b ∈ w.blocks, ∀ p ∈ blockPairs w.pairs b, PairOk w p)
    (hfit : ∀ d ∈ (flushKv refOf w).2, d.count < 2 ^ 32 ∧ d.size < 2 ^ 32)
    (hcount : ∀ b ∈ w.blocks, (blockPairs w.pairs b).length = b.2)
    (j : Nat) (hj : j < w.blocks.length) (hj32 : j ≠ NONE32) :
    readSet ⟨(flushKv refOf w).1, encDescs (flushKv refOf w).2, w.blocks.length, posOf⟩ j = .ok (w.setOf j) := by
  obtain ⟨d, e, l, rd⟩ := writeBlocks_spec refOf posOf hr w w.blocks { out := [], ool := List.replicate w.values.length NONE64 }
    (oolInv_init refOf w _) hp
  simp only [List.nil_append] at e rd
  have hfk1 : (flushKv refOf w).1 = d := by simp only [flushKv]; exact e
  have hfk2 : (flushKv refOf w).2 = (writeBlocks refOf w { out := [], ool := List.replicate w.values.length NONE64 } w.blocks).2 := rfl
  obtain ⟨b, hb⟩ : ∃ b, w.blocks[j]? = some b := ⟨w.blocks[j], by simp [hj]⟩
  obtain ⟨ds, hds⟩ : ∃ ds, (flushKv refOf w).2[j]? = some ds := by
    rw [hfk2]
    exact ⟨_, List.getElem?_eq_getElem (by rw [l]; exact hj)⟩
  obtain ⟨r, hrdef⟩ : ∃ r : XReader, r = ⟨(flushKv refOf w).1, encDescs (flushKv refOf w).2, w.blocks.length, posOf⟩ := ⟨_, rfl⟩
  rw [← hrdef]
  have hkv : r.kv = (flushKv refOf w).1 := by rw [hrdef]
  have hids : r.ids = encDescs (flushKv refOf w).2 := by rw [hrdef]
  have hn : r.numIds = w.blocks.length := by rw [hrdef]
  have hpo : r.posOf = posOf := by rw [hrdef]
  obtain ⟨hc, pos, hpos, hread⟩ := rd r hpo ⟨[], by rw [hkv, hfk1]; simp⟩ j b ds hb (by rw [← hfk2]; exact hds)
  have hmem : ds ∈ (flushKv refOf w).2 := List.mem_of_getElem? hds
  obtain ⟨f1, f2⟩ := hfit ds hmem
  have hg := getDesc_spec r (flushKv refOf w).2 j ds hids (by rw [hn, hfk2, l]) hds (by rw [hpos]; exact hr.lt _) f1 f2
  unfold readSet
  simp only [hj32, if_false, hg, hpo, hpos, hr.inv]
  rw [hc, ← hcount b (List.mem_of_getElem? hb), hread]
  simp [XWriter.setOf, hb, keyOf, valOf]

end Sqfs.Enc
