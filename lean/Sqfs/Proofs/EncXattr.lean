/-
C01 — extended attributes: what `sqfs_xattr_writer_flush` writes is what `sqfs_xattr_reader_read_all` reads back,
for every set index, with in-line and out-of-line values.
-/
import Sqfs.Model.EncXattr
import Sqfs.Proofs.EncBytes
namespace Sqfs.Enc
open Sqfs.Consts
open Sqfs.Writer (le leVal le_length)

def keyOf (w : XWriter) (ki : Nat) : Bytes := w.keys.getD ki []
def valOf (w : XWriter) (vi : Nat) : Bytes := (w.values.getD vi ([], 0)).1

/-! ### keys -/

theorem prefixId_spec {key : Bytes} {t : Nat} (h : prefixId key = some t) :
    ∃ pfx rem, prefixOf t = some pfx ∧ key = pfx ++ rem ∧ afterDot key = rem ∧ t < 3 := by
  simp only [prefixId, xattrTypes, List.find?] at h
  split at h
  · rename_i hc
    simp only [Bool.and_eq_true, decide_eq_true_eq] at hc
    obtain ⟨rem, hrem⟩ := List.isPrefixOf_iff_prefix.mp hc.1
    simp only [Option.map_some, Option.some.injEq] at h
    subst h
    exact ⟨prefixUser, rem, by decide, hrem.symm, by rw [← hrem]; simp [prefixUser, afterDot], by decide⟩
  · split at h
    · rename_i hc
      simp only [Bool.and_eq_true, decide_eq_true_eq] at hc
      obtain ⟨rem, hrem⟩ := List.isPrefixOf_iff_prefix.mp hc.1
      simp only [Option.map_some, Option.some.injEq] at h
      subst h
      exact ⟨prefixTrusted, rem, by decide, hrem.symm, by rw [← hrem]; simp [prefixTrusted, afterDot], by decide⟩
    · split at h
      · rename_i hc
        simp only [Bool.and_eq_true, decide_eq_true_eq] at hc
        obtain ⟨rem, hrem⟩ := List.isPrefixOf_iff_prefix.mp hc.1
        simp only [Option.map_some, Option.some.injEq] at h
        subst h
        exact ⟨prefixSecurity, rem, by decide, hrem.symm, by rw [← hrem]; simp [prefixSecurity, afterDot], by decide⟩
      · simp at h

/-- what the pair `(key index, value index)` must satisfy to be representable: a known prefix, a key remainder that
fits the 16-bit size field, a value that fits the 32-bit size field -/
structure PairOk (w : XWriter) (p : Nat × Nat) : Prop where
  key : ∃ t, prefixId (keyOf w p.1) = some t
  klen : (afterDot (keyOf w p.1)).length < 65536
  vlen : (valOf w p.2).length < 2 ^ 32

/-- the contract between the writer's `get_position` and the reader's `seek` on the key/value stream, for the
positions the writer can stand at: `p ≤ bound` (the length of the finished stream).  Satisfied by the real reference
arithmetic: `refOk_raw` (uncompressed metadata, `rawRef`/`rawPos`) and `refOk_blocks` (`refOfPos` of any block list a
meta writer produced) in `Proofs/EncXattrRef.lean`. -/
structure RefOk (refOf : Nat → Nat) (posOf : Nat → Option Nat) (bound : Nat) : Prop where
  inv : ∀ p, p ≤ bound → posOf (refOf p) = some p
  off : ∀ p, p ≤ bound → refOf p % 65536 < metaBlockSize
  lt : ∀ p, p ≤ bound → refOf p < 2 ^ 64

theorem flag_none {t : Nat} (ht : t < 3) : t % (xattrPrefixMask + 1) = t ∧ ¬ ((t / xattrFlagOol) % 2 = 1) := by
  simp only [xattrPrefixMask, xattrFlagOol]; omega

theorem flag_ool {t : Nat} (ht : t < 3) :
    (t ||| xattrFlagOol) % (xattrPrefixMask + 1) = t ∧ ((t ||| xattrFlagOol) / xattrFlagOol) % 2 = 1 ∧ (t ||| xattrFlagOol) < 65536 := by
  have : t = 0 ∨ t = 1 ∨ t = 2 := by omega
  rcases this with rfl | rfl | rfl <;> decide

/-- a pair stored in line reads back -/
theorem readPair_inline (r : XReader) (key val suffix : Bytes) {t : Nat} (hk : prefixId key = some t)
    (hkl : (afterDot key).length < 65536) (hvl : val.length < 2 ^ 32) :
    readPair r (encKey key false ++ encValue val ++ suffix) = .ok ((key, val), suffix) := by
  obtain ⟨pfx, rem, hp, hkey, hrem, ht⟩ := prefixId_spec hk
  obtain ⟨f1, f2⟩ := flag_none ht
  unfold readPair encKey encValue
  simp only [hk, Option.getD_some, hrem, Bool.false_eq_true, if_false, List.append_assoc]
  rw [hrem] at hkl
  have h1 := readFields_encFields_fit [(2, t), (2, rem.length)] (rem ++ (encFields [(4, val.length)] ++ (val ++ suffix))) (by
    simp only [List.forall_mem_cons, List.not_mem_nil, false_imp_iff, implies_true, and_true]
    constructor <;> simp <;> omega)
  simp only [List.map_cons, List.map_nil] at h1
  rw [h1]
  simp only [f1, hp, take?_append]
  have h2 := readFields_encFields_fit [(4, val.length)] (val ++ suffix) (by
    simp only [List.forall_mem_cons, List.not_mem_nil, false_imp_iff, implies_true, and_true]; simp; omega)
  simp only [List.map_cons, List.map_nil] at h2
  rw [h2]
  simp only [f2, if_false, take?_append, hkey]

/-- a pair whose value is stored out of line reads back, provided the reference leads to a stored copy of the value -/
theorem readPair_ool (r : XReader) (key val suffix a b : Bytes) (ref p : Nat) {t : Nat} (hk : prefixId key = some t)
    (hkl : (afterDot key).length < 65536) (hvl : val.length < 2 ^ 32)
    (hpos : r.posOf ref = some p) (hkv : r.kv = a ++ encValue val ++ b) (ha : a.length = p)
    (hoff : ref % 65536 < metaBlockSize) (hlt : ref < 2 ^ 64) :
    readPair r (encKey key true ++ encValueOol ref ++ suffix) = .ok ((key, val), suffix) := by
  obtain ⟨pfx, rem, hp, hkey, hrem, ht⟩ := prefixId_spec hk
  obtain ⟨f1, f2, f3⟩ := flag_ool ht
  unfold readPair encKey encValueOol
  simp only [hk, Option.getD_some, hrem, if_true, List.append_assoc]
  rw [hrem] at hkl
  have h1 := readFields_encFields_fit [(2, t ||| xattrFlagOol), (2, rem.length)]
      (rem ++ (encFields [(4, 8), (8, ref)] ++ suffix)) (by
    simp only [List.forall_mem_cons, List.not_mem_nil, false_imp_iff, implies_true, and_true]
    constructor <;> simp <;> omega)
  simp only [List.map_cons, List.map_nil] at h1
  rw [h1]
  simp only [f1, hp, take?_append]
  have h2 : readFields [4] (encFields [(4, 8), (8, ref)] ++ suffix) = .ok ([8], encFields [(8, ref)] ++ suffix) := by
    have := readFields_encFields_fit [(4, 8)] (encFields [(8, ref)] ++ suffix) (by simp)
    simpa [encFields] using this
  rw [h2]
  have h3 := readFields_encFields_fit [(8, ref)] suffix (by
    simp only [List.forall_mem_cons, List.not_mem_nil, false_imp_iff, implies_true, and_true]; simp; omega)
  simp only [List.map_cons, List.map_nil] at h3
  simp only [f2, if_true, h3]
  have hno : ¬ (ref % 65536 ≥ metaBlockSize) := by omega
  simp only [hno, if_false, hpos, hkv]
  have hd : (a ++ encValue val ++ b).drop p = encFields [(4, val.length)] ++ (val ++ b) := by
    rw [List.append_assoc, ← ha, List.drop_left]; simp [encValue]
  rw [hd]
  have h4 := readFields_encFields_fit [(4, val.length)] (val ++ b) (by
    simp only [List.forall_mem_cons, List.not_mem_nil, false_imp_iff, implies_true, and_true]; simp; omega)
  simp only [List.map_cons, List.map_nil] at h4
  rw [h4]
  simp only [take?_append, hkey]

/-! ### `write_kv_pairs` -/

/-- every location in `ool_locations[]` names a place where the value really is -/
def OolInv (refOf : Nat → Nat) (w : XWriter) (st : KvSt) : Prop :=
  ∀ vi, st.ool.getD vi NONE64 ≠ NONE64 →
    ∃ a b, st.out = a ++ encValue (valOf w vi) ++ b ∧ st.ool.getD vi NONE64 = refOf a.length

theorem getD_set (l : List Nat) (i j v d : Nat) :
    (l.set i v).getD j d = if i = j ∧ i < l.length then v else l.getD j d := by
  simp only [List.getD_eq_getElem?_getD, List.getElem?_set]
  by_cases h : i = j
  · subst h
    by_cases hl : i < l.length <;> simp [hl]
  · simp [h]

/-- one pair: the stream grows, the invariant survives, and a reader whose stream extends what had been written
before the pair reads the pair back from the bytes just appended -/
theorem writePair_spec (refOf : Nat → Nat) (posOf : Nat → Option Nat) (bound : Nat) (hr : RefOk refOf posOf bound) (w : XWriter) (st : KvSt)
    (p : Nat × Nat) (hinv : OolInv refOf w st) (hp : PairOk w p) :
    ∃ d, (writePair refOf w st p).out = st.out ++ d ∧ OolInv refOf w (writePair refOf w st p) ∧
      ∀ (r : XReader), r.posOf = posOf → r.kv.length ≤ bound → (∃ tail, r.kv = st.out ++ tail) → ∀ suffix,
        readPair r (d ++ suffix) = .ok ((keyOf w p.1, valOf w p.2), suffix) := by
  obtain ⟨⟨t, hk⟩, hkl, hvl⟩ := hp
  unfold writePair
  simp only
  split
  · -- stored in line
    refine ⟨encKey (w.keys.getD p.1 []) false ++ encValue (w.values.getD p.2 ([], 0)).1, by simp, ?_, ?_⟩
    · intro vi hvi
      simp only at hvi ⊢
      by_cases hs : shouldStoreOol (w.values.getD p.2 ([], 0)).1 (w.values.getD p.2 ([], 0)).2 = true
      · simp only [hs, if_true] at hvi ⊢
        rw [getD_set] at hvi ⊢
        by_cases hc : p.2 = vi ∧ p.2 < st.ool.length
        · rw [if_pos hc]
          obtain ⟨rfl, _⟩ := hc
          exact ⟨st.out ++ encKey (w.keys.getD p.1 []) false, [], by simp [valOf], by simp⟩
        · rw [if_neg hc] at hvi ⊢
          obtain ⟨a, b, h1, h2⟩ := hinv vi hvi
          exact ⟨a, b ++ (encKey (w.keys.getD p.1 []) false ++ encValue (w.values.getD p.2 ([], 0)).1), by rw [h1]; simp, h2⟩
      · simp only [hs] at hvi ⊢
        obtain ⟨a, b, h1, h2⟩ := hinv vi hvi
        exact ⟨a, b ++ (encKey (w.keys.getD p.1 []) false ++ encValue (w.values.getD p.2 ([], 0)).1), by rw [h1]; simp, h2⟩
    · intro r _ _ _ suffix
      exact readPair_inline r _ _ suffix hk hkl hvl
  · -- stored as a reference
    rename_i hne
    obtain ⟨a, b, h1, h2⟩ := hinv p.2 hne
    refine ⟨encKey (w.keys.getD p.1 []) true ++ encValueOol (st.ool.getD p.2 NONE64), by simp, ?_, ?_⟩
    · intro vi hvi
      obtain ⟨a', b', h1', h2'⟩ := hinv vi hvi
      exact ⟨a', b' ++ (encKey (w.keys.getD p.1 []) true ++ encValueOol (st.ool.getD p.2 NONE64)), by simp only; rw [h1']; simp, h2'⟩
    · intro r hpo hbd ⟨tail, hkv⟩ suffix
      have hal : a.length ≤ bound := by
        have : r.kv.length = a.length + (encValue (valOf w p.2)).length + b.length + tail.length := by
          rw [hkv, h1]; simp; omega
        omega
      refine readPair_ool r _ _ suffix a (b ++ tail) _ a.length hk hkl hvl ?_ ?_ rfl ?_ ?_
      · rw [hpo, h2]; exact hr.inv _ hal
      · rw [hkv, h1]; simp [valOf]
      · rw [h2]; exact hr.off _ hal
      · rw [h2]; exact hr.lt _ hal

/-- all pairs of one set -/
theorem writePairs_spec (refOf : Nat → Nat) (posOf : Nat → Option Nat) (bound : Nat) (hr : RefOk refOf posOf bound) (w : XWriter) :
    ∀ (ps : List (Nat × Nat)) (st : KvSt), OolInv refOf w st → (∀ p ∈ ps, PairOk w p) →
      ∃ d, (ps.foldl (writePair refOf w) st).out = st.out ++ d ∧ OolInv refOf w (ps.foldl (writePair refOf w) st) ∧
        ∀ (r : XReader), r.posOf = posOf → r.kv.length ≤ bound → (∃ tail, r.kv = st.out ++ d ++ tail) → ∀ suffix,
          readPairs r ps.length (d ++ suffix) = .ok (ps.map (fun p => (keyOf w p.1, valOf w p.2))) := by
  intro ps
  induction ps with
  | nil => intro st hinv _; exact ⟨[], by simp, hinv, by intro r _ _ _ suffix; rfl⟩
  | cons p ps ih =>
    intro st hinv hall
    obtain ⟨d1, e1, i1, r1⟩ := writePair_spec refOf posOf bound hr w st p hinv (hall p (List.mem_cons_self ..))
    obtain ⟨d2, e2, i2, r2⟩ := ih (writePair refOf w st p) i1 (fun x hx => hall x (List.mem_cons_of_mem _ hx))
    refine ⟨d1 ++ d2, by simp only [List.foldl_cons]; rw [e2, e1]; simp, by simpa using i2, ?_⟩
    intro r hpo hbd ⟨tail, hkv⟩ suffix
    simp only [List.length_cons, readPairs, List.map_cons, List.append_assoc]
    rw [r1 r hpo hbd ⟨d1 ++ (d2 ++ tail), by rw [hkv]; simp⟩ (d2 ++ suffix)]
    simp only
    rw [r2 r hpo hbd ⟨tail, by rw [hkv, e1]; simp⟩ suffix]

/-- all sets: every descriptor names the start of its set, and the set reads back from there -/
theorem writeBlocks_spec (refOf : Nat → Nat) (posOf : Nat → Option Nat) (bound : Nat) (hr : RefOk refOf posOf bound) (w : XWriter) :
    ∀ (bs : List (Nat × Nat)) (st : KvSt), OolInv refOf w st → (∀ b ∈ bs, ∀ p ∈ blockPairs w.pairs b, PairOk w p) →
      ∃ d, (writeBlocks refOf w st bs).1.out = st.out ++ d ∧ (writeBlocks refOf w st bs).2.length = bs.length ∧
        ∀ (r : XReader), r.posOf = posOf → r.kv.length ≤ bound → (∃ tail, r.kv = st.out ++ d ++ tail) →
          ∀ (j : Nat) (b : Nat × Nat) (ds : XDesc), bs[j]? = some b → (writeBlocks refOf w st bs).2[j]? = some ds →
            ds.count = b.2 ∧ ds.size ≤ d.length ∧ ∃ pos, pos ≤ r.kv.length ∧ ds.ref = refOf pos ∧
              readPairs r (blockPairs w.pairs b).length (r.kv.drop pos)
                = .ok ((blockPairs w.pairs b).map (fun p => (keyOf w p.1, valOf w p.2))) := by
  intro bs
  induction bs with
  | nil => intro st _ _; exact ⟨[], by simp [writeBlocks], rfl, by intro r _ _ _ j b ds hb; simp at hb⟩
  | cons b bs ih =>
    intro st hinv hall
    obtain ⟨d1, e1, i1, r1⟩ := writePairs_spec refOf posOf bound hr w (blockPairs w.pairs b) st hinv (hall b (List.mem_cons_self ..))
    obtain ⟨d2, e2, l2, r2⟩ := ih ((blockPairs w.pairs b).foldl (writePair refOf w) st) i1
      (fun x hx => hall x (List.mem_cons_of_mem _ hx))
    refine ⟨d1 ++ d2, by simp only [writeBlocks]; rw [e2, e1]; simp, by simp [writeBlocks, l2], ?_⟩
    intro r hpo hbd ⟨tail, hkv⟩ j b' ds hb hds
    cases j with
    | zero =>
      simp only [List.getElem?_cons_zero, Option.some.injEq] at hb
      subst hb
      simp only [writeBlocks, List.getElem?_cons_zero, Option.some.injEq] at hds
      subst hds
      refine ⟨rfl, by simp only [e1, List.length_append]; omega, st.out.length, by rw [hkv]; simp, rfl, ?_⟩
      have hd : r.kv.drop st.out.length = d1 ++ (d2 ++ tail) := by rw [hkv]; simp [List.append_assoc]
      rw [hd]
      exact r1 r hpo hbd ⟨d2 ++ tail, by rw [hkv]; simp⟩ (d2 ++ tail)
    | succ j =>
      simp only [List.getElem?_cons_succ] at hb
      simp only [writeBlocks, List.getElem?_cons_succ] at hds
      obtain ⟨c1, c2, c3⟩ := r2 r hpo hbd ⟨tail, by rw [hkv, e1]; simp⟩ j b' ds hb hds
      exact ⟨c1, by simp only [List.length_append]; omega, c3⟩

theorem oolInv_init (refOf : Nat → Nat) (w : XWriter) (n : Nat) : OolInv refOf w { out := [], ool := List.replicate n NONE64 } := by
  intro vi hvi
  exfalso
  apply hvi
  simp only [List.getD_eq_getElem?_getD, List.getElem?_replicate]
  split <;> rfl

end Sqfs.Enc
