/-
C04 — `decode_header` applied to a header block the writer produced, and the last iteration of `read_header`'s loop.
-/
import Sqfs.Proofs.TarReadLoop
import Sqfs.Proofs.TarDecodeSpec
namespace Sqfs.Tar

/-- none of the numeric `set_by_pax` bits is set (the writer's extension records only ever set `PAX_NAME` and
    `PAX_SLINK_TARGET`) -/
structure OnlyNameLink (mask : Nat) : Prop where
  size : hasFlag mask PAX_SIZE = false
  uid : hasFlag mask PAX_UID = false
  gid : hasFlag mask PAX_GID = false
  maj : hasFlag mask PAX_DEV_MAJ = false
  min : hasFlag mask PAX_DEV_MIN = false
  mtime : hasFlag mask PAX_MTIME = false
  sparse : hasFlag mask PAX_SPARSE_GNU_1_X = false

/-- the masks the writer's records can produce -/
def nlMask (l k : Bool) : Nat := (if k then PAX_SLINK_TARGET else 0) + (if l then PAX_NAME else 0)

theorem nlMask_only (l k : Bool) : OnlyNameLink (nlMask l k) := by
  cases l <;> cases k <;> exact ⟨by decide, by decide, by decide, by decide, by decide, by decide, by decide⟩

theorem nlMask_name (l k : Bool) : hasFlag (nlMask l k) PAX_NAME = l := by cases l <;> cases k <;> decide
theorem nlMask_link (l k : Bool) : hasFlag (nlMask l k) PAX_SLINK_TARGET = k := by cases l <;> cases k <;> decide
theorem nlMask_setK (l : Bool) : setFlag (nlMask l false) PAX_SLINK_TARGET = nlMask l true := by cases l <;> decide
theorem nlMask_setL (k : Bool) : setFlag (nlMask false k) PAX_NAME = nlMask true k := by cases k <;> decide

/-- what `decode_header` makes of the writer's fields (mirrors the function's tail) -/
def decodedMain (nm ln : Bytes) (mode uid gid size maj min : Nat) (mtime : Int) (tf : UInt8) (mask : Nat) (out : Decoded) : Decoded :=
  let out := if hasFlag mask PAX_NAME then out else { out with name := some (strn nm) }
  let out := { out with recordSize := size, uid := uid, gid := gid, devMajor := maj % 4294967296, devMinor := min % 4294967296,
                        mtime := mtime, mode := mode % 4096 }
  let out := if (tf = 49 ∨ tf = 50) ∧ ¬ hasFlag mask PAX_SLINK_TARGET then { out with link := some (strn ln) } else out
  let out := { out with unknown := false }
  if tf = 0 ∨ tf = 48 ∨ tf = 83 then { out with mode := out.mode + S_IFREG }
  else if tf = 49 then { out with hardLink := true }
  else if tf = 50 then { out with mode := S_IFLNK + 0o777 }
  else if tf = 51 then { out with mode := out.mode + S_IFCHR }
  else if tf = 52 then { out with mode := out.mode + S_IFBLK }
  else if tf = 53 then { out with mode := out.mode + S_IFDIR }
  else if tf = 54 then { out with mode := out.mode + S_IFIFO }
  else { out with unknown := true }

theorem decodeHeader_hdrBlock (name : Bytes) (mode uid gid size : Nat) (mtime : Int) (tf : UInt8) (linkname : Bytes) (maj min : Nat)
    (hn : name.length = 100) (hl : linkname.length = 100) (mask : Nat) (out : Decoded) (hm : OnlyNameLink mask)
    (hmode : mode < 127 * 2 ^ 56) (huid : uid < 127 * 2 ^ 56) (hgid : gid < 127 * 2 ^ 56) (hsize : size < U64)
    (hmt : -9223372036854775808 ≤ mtime ∧ mtime < 9223372036854775808)
    (hmaj : maj < 127 * 2 ^ 56) (hmin : min < 127 * 2 ^ 56) :
    decodeHeader (hdrBlock name mode uid gid size mtime tf linkname maj min) mask out .prePosix =
      some (decodedMain name linkname mode uid gid size maj min mtime tf mask out) := by
  have hmt' := readNumber_writeNumberSigned mtime 12 (by omega) hmt
  cases hr : readNumber (writeNumberSigned mtime 12) with
  | none => rw [hr] at hmt'; cases hmt'
  | some x =>
    rw [hr] at hmt'
    simp only [Option.map_some, Option.some.injEq] at hmt'
    unfold decodeHeader decodedMain
    simp only [blk_name name mode uid gid size mtime tf linkname maj min hn hl,
      blk_mode name mode uid gid size mtime tf linkname maj min hn hl,
      blk_uid name mode uid gid size mtime tf linkname maj min hn hl,
      blk_gid name mode uid gid size mtime tf linkname maj min hn hl,
      blk_size name mode uid gid size mtime tf linkname maj min hn hl,
      blk_mtime name mode uid gid size mtime tf linkname maj min hn hl,
      blk_typeflag name mode uid gid size mtime tf linkname maj min hn hl,
      blk_linkname name mode uid gid size mtime tf linkname maj min hn hl,
      blk_devmajor name mode uid gid size mtime tf linkname maj min hn hl,
      blk_devminor name mode uid gid size mtime tf linkname maj min hn hl,
      hm.size, hm.uid, hm.gid, hm.maj, hm.min, hm.mtime, Bool.false_eq_true, if_false,
      readNumber_writeNumber8 _ hmode, readNumber_writeNumber8 _ huid, readNumber_writeNumber8 _ hgid,
      readNumber_writeNumber8 _ hmaj, readNumber_writeNumber8 _ hmin, readNumber_writeNumber12 _ hsize, hr, hmt',
      Option.map_some, Option.bind_eq_bind, Option.bind_some, Option.pure_def, List.headD_cons,
      reduceCtorEq, and_false]

theorem decodedMain_sparse (nm ln : Bytes) (mode uid gid size maj min : Nat) (mtime : Int) (tf : UInt8) (mask : Nat) (out : Decoded) :
    (decodedMain nm ln mode uid gid size maj min mtime tf mask out).sparse = out.sparse := by
  unfold decodedMain
  simp only
  split_ifs <;> rfl

theorem decodedMain_recordSize (nm ln : Bytes) (mode uid gid size maj min : Nat) (mtime : Int) (tf : UInt8) (mask : Nat) (out : Decoded) :
    (decodedMain nm ln mode uid gid size maj min mtime tf mask out).recordSize = size := by
  unfold decodedMain
  simp only
  split_ifs <;> rfl

/-- the last iteration: a real header (not 'K', 'L', 'g', 'x', 'S'), no sparse map pending -/
theorem loop_main (cfg : ReadCfg) (f : Nat) (s' : Bytes) (pz : Bool)
    (name : Bytes) (mode uid gid size : Nat) (mtime : Int) (tf : UInt8) (linkname : Bytes) (maj min : Nat)
    (hn : name.length = 100) (hl : linkname.length = 100) (mask : Nat) (out : Decoded) (hm : OnlyNameLink mask)
    (hmode : mode < 127 * 2 ^ 56) (huid : uid < 127 * 2 ^ 56) (hgid : gid < 127 * 2 ^ 56) (hsize : size < U64)
    (hmt : -9223372036854775808 ≤ mtime ∧ mtime < 9223372036854775808)
    (hmaj : maj < 127 * 2 ^ 56) (hmin : min < 127 * 2 ^ 56)
    (htf : tf ≠ 75 ∧ tf ≠ 76 ∧ tf ≠ 103 ∧ tf ≠ 120 ∧ tf ≠ 83) (hsp : out.sparse = []) :
    readHeaderLoop cfg (f + 1) (hdrBlock name mode uid gid size mtime tf linkname maj min ++ s') out mask pz =
      .ok { decodedMain name linkname mode uid gid size maj min mtime tf mask out with actualSize := size } s' := by
  have h := hdrBlock_isHdr name mode uid gid size mtime tf linkname maj min hn hl hsize
  have hd := decodeHeader_hdrBlock name mode uid gid size mtime tf linkname maj min hn hl mask out hm hmode huid hgid hsize hmt hmaj hmin
  have hs := decodedMain_sparse name linkname mode uid gid size maj min mtime tf mask out
  have hr := decodedMain_recordSize name linkname mode uid gid size maj min mtime tf mask out
  rw [readHeaderLoop]
  simp only [show ¬ (hdrBlock name mode uid gid size mtime tf linkname maj min ++ s').length < 512 by simp [h.len],
    if_false, List.take_left' h.len, List.drop_left' h.len, h.nz,
    hdrBlock_version name mode uid gid size mtime tf linkname maj min hn hl, h.ck, h.tfl,
    Bool.false_eq_true, not_true_eq_false, if_true, htf.1, htf.2.1, htf.2.2.1, htf.2.2.2.1, htf.2.2.2.2, hd, hm.sparse]
  simp only [hs, hsp, hr, List.isEmpty_nil, not_true_eq_false, false_and, and_false, if_false, if_true]

/-! ### a plain header block of any dialect (v7, pre-POSIX/GNU, POSIX ustar) -/

/-- the last iteration of `read_header`'s loop on *any* block the reader recognises (valid checksum, one of the three
    magic/version pairs, type flag other than the extension records and the old GNU sparse header): the result is exactly
    the field-by-field specification `specDecode`, or the header is refused -/
theorem loop_plain (cfg : ReadCfg) (f : Nat) (h s' : Bytes) (pz : Bool) (v : Version) (mask : Nat) (out : Decoded)
    (hl : h.length = 512) (hnz : isZeroBlock h = false) (hv : checkVersion h = some v) (hck : isChecksumValid h = true)
    (htf : (slice h 156 1).headD 0 ≠ 75 ∧ (slice h 156 1).headD 0 ≠ 76 ∧ (slice h 156 1).headD 0 ≠ 103 ∧
           (slice h 156 1).headD 0 ≠ 120 ∧ (slice h 156 1).headD 0 ≠ 83)
    (hsp : out.sparse = []) (hgnu : hasFlag mask PAX_SPARSE_GNU_1_X = false) :
    readHeaderLoop cfg (f + 1) (h ++ s') out mask pz =
      match specDecode h mask out v with
      | none => .err
      | some d => .ok { d with actualSize := d.recordSize } s' := by
  rw [readHeaderLoop]
  simp only [show ¬ (h ++ s').length < 512 by simp [hl], if_false, List.take_left' hl, List.drop_left' hl, hnz, hv, hck,
    Bool.false_eq_true, not_true_eq_false, if_true, htf.1, htf.2.1, htf.2.2.1, htf.2.2.2.1, htf.2.2.2.2,
    decodeHeader_eq_spec, hgnu]
  cases hd : specDecode h mask out v with
  | none => rfl
  | some d =>
    have hs : d.sparse = [] := by
      unfold specDecode at hd
      simp only [Option.bind_eq_bind, Option.pure_def] at hd
      -- every path of the specification keeps `sparse`
      revert hd
      cases specField mask PAX_SIZE (some out.recordSize) (slice h 124 12) id <;>
      cases specField mask PAX_UID (some out.uid) (slice h 108 8) id <;>
      cases specField mask PAX_GID (some out.gid) (slice h 116 8) id <;>
      cases specField mask PAX_DEV_MAJ (some out.devMajor) (slice h 329 8) (· % 4294967296) <;>
      cases specField mask PAX_DEV_MIN (some out.devMinor) (slice h 337 8) (· % 4294967296) <;>
      cases specField mask PAX_MTIME (some out.mtime) (slice h 136 12) toSigned <;>
      cases specNumber (slice h 100 8) <;>
      simp only [Option.bind_none, Option.bind_some, reduceCtorEq, false_imp_iff, Option.some.injEq] <;>
      (intro hd; rw [← hd]; exact hsp)
    simp only [hs, List.isEmpty_nil, not_true_eq_false, false_and, and_false, if_false, if_true]

end Sqfs.Tar
