/-
C01 — the whole tree, part 2: the invariant of `sqfs_serialize_fstree`'s loop.  After any number of iterations every
node written so far is found again at the reference it was given: its inode decodes from there, resolves (owner through
the id table) to the node's attributes, and — for a directory — its listing decodes to its children, each with the
reference its own inode was given earlier.
-/
import Sqfs.Proofs.EncTreeAll1
namespace Sqfs.Enc
open Sqfs.Consts
open Sqfs.FsTree (TNode Path lookup Result indexOf isType)
open Sqfs.DirWriter (DEnt Run dirEnd encodeRun dirSizeOf runBytes addEntry createInode createInodeCap)

/-! ### small facts -/

theorem encInode_pos (i : Inode) : 0 < (encInode i).length := by
  simp only [encInode, encBase, List.length_append, encFields_length]
  simp only [List.map_cons, List.map_nil, List.sum_cons, List.sum_nil]
  omega

theorem addAllEntries_map : ∀ (ents : List (Bytes × Nat × Nat × Nat)) (des : List DEnt), addAllEntries ents = .ok des →
    des.map (fun e => (e.name, e.inodeRef)) = ents.map (fun x => (x.1, x.2.2.1)) := by
  intro ents
  induction ents with
  | nil => intro des h; simp only [addAllEntries, Except.ok.injEq] at h; subst h; rfl
  | cons x rest ih =>
    intro des h
    obtain ⟨nm, n, r, m⟩ := x
    simp only [addAllEntries] at h
    cases ha : addEntry nm n r m with
    | unsupported => rw [ha] at h; cases h
    | argInvalid => rw [ha] at h; cases h
    | ok e0 =>
      rw [ha] at h
      simp only at h
      cases hr : addAllEntries rest with
      | error s => rw [hr] at h; cases h
      | ok l =>
        rw [hr] at h
        simp only [Except.ok.injEq] at h
        subst h
        have h1 : e0.name = nm ∧ e0.inodeRef = r := by
          unfold addEntry at ha; split at ha; cases ha; split at ha; cases ha; split at ha; cases ha; cases ha; exact ⟨rfl, rfl⟩
        simp only [List.map_cons, ih l hr, h1.1, h1.2]

theorem dirInodeOf_view (dpos : Nat) (n : NodeIn) (des : List DEnt) :
    (dirInodeOf dpos n des).view.typeBits = sIFDIR
    ∧ (dirInodeOf dpos n des).view.nums.getD 3 0 = n.parentInum
    ∧ (dirInodeOf dpos n des).view.nums.getD 0 0 = (rawRef dpos >>> 16) % 4294967296
    ∧ (dirInodeOf dpos n des).view.nums.getD 2 0 = rawRef dpos % 65536
    ∧ (dirInodeOf dpos n des).view.words = [] ∧ (dirInodeOf dpos n des).view.bytes = [] := by
  unfold dirInodeOf createInode createInodeCap
  simp only
  split <;> simp [DirInode.toInode, setDirNlink, Inode.view, rawRef, rawCost]

theorem dirPos_view (i : Inode) (h : i.view.typeBits = sIFDIR) :
    dirPos i = rawPos ((i.view.nums.getD 0 0 <<< 16) ||| i.view.nums.getD 2 0) := by
  cases i with
  | dir => rfl
  | dirExt => rfl
  | file => simp [Inode.view, sIFREG, sIFDIR] at h
  | fileExt => simp [Inode.view, sIFREG, sIFDIR] at h
  | slink => simp [Inode.view, sIFLNK, sIFDIR] at h
  | slinkExt => simp [Inode.view, sIFLNK, sIFDIR] at h
  | dev b c => cases c <;> simp [Inode.view, sIFCHR, sIFBLK, sIFDIR] at h
  | devExt b c => cases c <;> simp [Inode.view, sIFCHR, sIFBLK, sIFDIR] at h
  | ipc b c => cases c <;> simp [Inode.view, sIFIFO, sIFSOCK, sIFDIR] at h
  | ipcExt b c => cases c <;> simp [Inode.view, sIFIFO, sIFSOCK, sIFDIR] at h

theorem rawRef_split (p : Nat) (h : p / metaBlockSize * rawCost < 2 ^ 32) :
    (((rawRef p >>> 16) % 4294967296) <<< 16) ||| (rawRef p % 65536) = rawRef p := by
  have h1 : rawRef p >>> 16 < 4294967296 := by
    rw [rawRef_eq, Nat.shiftRight_eq_div_pow]
    have h1 : p / 8192 * 8194 < 2 ^ 32 := h
    have h2 : p % 8192 < 8192 := Nat.mod_lt p (by decide)
    clear h
    obtain ⟨A, hA⟩ : ∃ A, A = p / 8192 * 8194 := ⟨_, rfl⟩
    obtain ⟨r, hr⟩ : ∃ r, r = p % 8192 := ⟨_, rfl⟩
    rw [← hA] at h1 ⊢
    rw [← hr] at h2 ⊢
    clear hA hr
    omega
  rw [Nat.mod_eq_of_lt h1]
  exact ref_roundtrip _

/-! ### the expected attributes do not depend on the references -/

theorem nodeIn_isDir (root : TNode) (inodes : List Path) (x : TreeExtra) (refs : List (Path × Nat)) (p : Path) (n : TNode) :
    (nodeIn root inodes x refs p n).kind.isDir = n.isDir := by
  simp only [nodeIn]
  split
  · next h => rw [h]; rfl
  · next h =>
    have : n.isDir = false := by simpa using h
    rw [this]; split <;> rfl

theorem expectAttr_refs (root : TNode) (inodes : List Path) (x : TreeExtra) (refs : List (Path × Nat)) (p : Path) (n : TNode) :
    expectAttr (nodeIn root inodes x refs p n) = expectAttr (nodeIn root inodes x [] p n) := by
  by_cases hd : n.isDir = true
  · simp only [nodeIn, hd, if_true, expectAttr]
  · have hd' : n.isDir = false := by simpa using hd
    by_cases hr : isType n.attr.mode sIFREG = true
    · simp only [nodeIn, hd', hr, if_true, Bool.false_eq_true, if_false, expectAttr]
    · have hr' : isType n.attr.mode sIFREG = false := by simpa using hr
      simp only [nodeIn, hd', hr', Bool.false_eq_true, if_false, expectAttr]

/-- the reader's view of the inode written equals the input's attributes -/
theorem resolve_written (st : TreeSt) (n : NodeIn) (i i0 : Inode) (ui gi : Nat) (ids : List Nat)
    (hpre : preInode st n = some i0) (hv : i.view = withIds ui gi (wanted n.attr i0.view))
    (hu : ids[ui]? = some n.uid) (hg : ids[gi]? = some n.gid)
    (hnd : n.kind.isDir = false → i0.view.typeBits ≠ sIFDIR) :
    expectAttr n = some (i.resolve ids) := by
  unfold Inode.resolve
  simp only [hv, withIds, wanted, hu, hg]
  unfold preInode at hpre
  unfold expectAttr
  split at hpre
  · next ents hk =>
    split at hpre
    · next des hae =>
      cases hpre
      obtain ⟨v1, v2, _, _, v5, v6⟩ := dirInodeOf_view st.dirs.length n des
      simp only [hk, v1, v2, v5, v6, if_true]
    · cases hpre
  · next inode hk =>
    cases hpre
    simp only [hk]
    have hd := hnd (by rw [hk]; rfl)
    simp only [hd, if_false]
  · next devno target hk =>
    simp only [hk, hpre, Option.map_some]
    have hd := hnd (by rw [hk]; rfl)
    simp only [hd, if_false]

end Sqfs.Enc
