/-
C11: `sort_file_list` (gensquashfs -S) returns a permutation of the file list in non-descending priority order in which
files of equal priority keep their relative order.
-/
import Sqfs.Spec.FsTree

namespace Sqfs.FsTree

theorem lowestFile_mem (low : FileEnt) (l : List FileEnt) : lowestFile low l ∈ low :: l := by
  induction l generalizing low with
  | nil => simp [lowestFile]
  | cons it rest ih =>
    simp only [lowestFile]
    split
    · exact List.mem_cons_of_mem _ (ih it)
    · rcases List.mem_cons.mp (ih low) with h | h
      · rw [h]; exact List.mem_cons_self
      · exact List.mem_cons_of_mem _ (List.mem_cons_of_mem _ h)

/-- the node the scan ends on has the lowest priority of all -/
theorem lowestFile_le (low : FileEnt) (l : List FileEnt) : ∀ x ∈ low :: l, (lowestFile low l).prio ≤ x.prio := by
  induction l generalizing low with
  | nil => intro x hx; simp only [List.mem_cons, List.not_mem_nil, or_false] at hx; subst hx; simp [lowestFile]
  | cons it rest ih =>
    intro x hx
    simp only [lowestFile]
    split
    · rename_i hlt
      have h := ih it
      rcases List.mem_cons.mp hx with rfl | hx'
      · have := h it List.mem_cons_self; omega
      · exact h x hx'
    · rename_i hge
      have h := ih low
      rcases List.mem_cons.mp hx with rfl | hx'
      · exact h _ List.mem_cons_self
      · rcases List.mem_cons.mp hx' with rfl | hx''
        · have := h low List.mem_cons_self; omega
        · exact h x (List.mem_cons_of_mem _ hx'')

theorem takeFirst_some {p : Int} {l : List FileEnt} {x : FileEnt} {rem : List FileEnt} (h : takeFirst p l = some (x, rem)) :
    x.prio = p ∧ (x :: rem).Perm l := by
  induction l generalizing x rem with
  | nil => simp [takeFirst] at h
  | cons f fs ih =>
    simp only [takeFirst] at h
    split at h
    · rename_i hp
      cases h
      exact ⟨hp, List.Perm.refl _⟩
    · split at h
      · cases h
      · rename_i y r hr
        cases h
        have := ih hr
        exact ⟨this.1, (List.Perm.swap _ _ _).trans (List.Perm.cons f this.2)⟩

theorem takeFirst_none {p : Int} {l : List FileEnt} (h : takeFirst p l = none) : ∀ x ∈ l, x.prio ≠ p := by
  induction l with
  | nil => intro x hx; cases hx
  | cons f fs ih =>
    simp only [takeFirst] at h
    split at h
    · cases h
    · rename_i hp
      split at h
      · rename_i hr
        intro x hx
        rcases List.mem_cons.mp hx with rfl | hx'
        · exact hp
        · exact ih hr x hx'
      · cases h

theorem sortFileList_perm : ∀ (fuel : Nat) (l : List FileEnt), l.length ≤ fuel → (sortFileList fuel l).Perm l
  | 0, [], _ => by simp [sortFileList]
  | 0, _ :: _, h => by simp at h
  | fuel + 1, [], _ => by simp [sortFileList]
  | fuel + 1, f :: fs, h => by
    simp only [sortFileList]
    split
    · rename_i hn
      exact absurd rfl (takeFirst_none hn _ (lowestFile_mem f fs))
    · rename_i x rem hs
      have hp := (takeFirst_some hs).2
      have hl : rem.length ≤ fuel := by
        have := hp.length_eq
        simp only [List.length_cons] at this h
        omega
      exact (List.Perm.cons _ (sortFileList_perm fuel _ hl)).trans hp

theorem sortFileList_sorted : ∀ (fuel : Nat) (l : List FileEnt), l.length ≤ fuel →
    (sortFileList fuel l).Pairwise (fun a b => a.prio ≤ b.prio)
  | 0, [], _ => by simp [sortFileList]
  | 0, _ :: _, h => by simp at h
  | fuel + 1, [], _ => by simp [sortFileList]
  | fuel + 1, f :: fs, h => by
    simp only [sortFileList]
    split
    · exact List.Pairwise.nil
    · rename_i x rem hs
      have hx := takeFirst_some hs
      have hl : rem.length ≤ fuel := by
        have := hx.2.length_eq
        simp only [List.length_cons] at this h
        omega
      rw [List.pairwise_cons]
      refine ⟨?_, sortFileList_sorted fuel _ hl⟩
      intro y hy
      have hy' : y ∈ rem := (sortFileList_perm fuel _ hl).mem_iff.mp hy
      have hy'' : y ∈ f :: fs := hx.2.mem_iff.mp (List.mem_cons_of_mem _ hy')
      rw [hx.1]
      exact lowestFile_le f fs y hy''

theorem takeFirst_filter {p : Int} {l : List FileEnt} {x : FileEnt} {rem : List FileEnt} (h : takeFirst p l = some (x, rem))
    (q : Int) : l.filter (fun f => f.prio = q) = (if x.prio = q then [x] else []) ++ rem.filter (fun f => f.prio = q) := by
  induction l generalizing x rem with
  | nil => simp [takeFirst] at h
  | cons f fs ih =>
    simp only [takeFirst] at h
    split at h
    · cases h
      by_cases hq : f.prio = q <;> simp [hq]
    · rename_i hp
      split at h
      · cases h
      · rename_i y r hr
        cases h
        have hy := (takeFirst_some hr).1
        have := ih hr
        by_cases hq : f.prio = q
        · have hxq : ¬ x.prio = q := by rw [hy, ← hq]; exact fun e => hp e.symm
          simp [hq, this, hxq]
        · simp [hq, this]

/-- `sort_file_list` is stable: the files of one priority come out in the order they had in the file list -/
theorem sortFileList_stable (q : Int) : ∀ (fuel : Nat) (l : List FileEnt), l.length ≤ fuel →
    (sortFileList fuel l).filter (fun f => f.prio = q) = l.filter (fun f => f.prio = q)
  | 0, [], _ => by simp [sortFileList]
  | 0, _ :: _, h => by simp at h
  | fuel + 1, [], _ => by simp [sortFileList]
  | fuel + 1, f :: fs, h => by
    simp only [sortFileList]
    split
    · rename_i hn
      exact absurd rfl (takeFirst_none hn _ (lowestFile_mem f fs))
    · rename_i x rem hs
      have hl : rem.length ≤ fuel := by
        have := (takeFirst_some hs).2.length_eq
        simp only [List.length_cons] at this h
        omega
      rw [takeFirst_filter hs q, List.filter_cons, sortFileList_stable q fuel rem hl]
      by_cases hq : x.prio = q <;> simp [hq]

theorem applySortRule_paths (fnm : Fnm) (r : SortRule) (l : List FileEnt) :
    (applySortRule fnm r l).map (·.path) = l.map (·.path) := by
  induction l with
  | nil => rfl
  | cons f fs ih =>
    simp only [applySortRule]
    repeat' split
    all_goals simp_all

theorem foldl_applySortRule_paths (fnm : Fnm) (rules : List SortRule) (l : List FileEnt) :
    (rules.foldl (fun acc r => applySortRule fnm r acc) l).map (·.path) = l.map (·.path) := by
  induction rules generalizing l with
  | nil => rfl
  | cons r rs ih => simp only [List.foldl_cons]; rw [ih, applySortRule_paths]

theorem sortFiles_perm_sorted (fnm : Fnm) (rules : List SortRule) (files : List Path) :
    ((sortFiles fnm rules files).map (·.path)).Perm files ∧
      (sortFiles fnm rules files).Pairwise (fun a b => a.prio ≤ b.prio) ∧
      ∀ q : Int, List.Sublist (((sortFiles fnm rules files).filter (fun f => f.prio = q)).map (·.path)) files := by
  simp only [sortFiles]
  have hpaths : (List.foldl (fun acc r => applySortRule fnm r acc)
      (files.map fun p => ({ path := p, prio := 0, flags := 0, matched := false } : FileEnt)) rules).map (·.path) = files := by
    rw [foldl_applySortRule_paths]
    simp [List.map_map, Function.comp_def]
  refine ⟨?_, sortFileList_sorted _ _ (Nat.le_refl _), ?_⟩
  · have h1 := (sortFileList_perm _ _ (Nat.le_refl _)).map (fun f : FileEnt => f.path)
      (l₁ := sortFileList (List.foldl (fun acc r => applySortRule fnm r acc)
        (files.map fun p => ({ path := p, prio := 0, flags := 0, matched := false } : FileEnt)) rules).length _)
    rw [hpaths] at h1
    exact h1
  · intro q
    rw [sortFileList_stable q _ _ (Nat.le_refl _)]
    have h1 := (List.filter_sublist (p := fun f : FileEnt => decide (f.prio = q))
      (l := List.foldl (fun acc r => applySortRule fnm r acc)
        (files.map fun p => ({ path := p, prio := 0, flags := 0, matched := false } : FileEnt)) rules)).map (fun f : FileEnt => f.path)
    rw [hpaths] at h1
    exact h1

end Sqfs.FsTree
