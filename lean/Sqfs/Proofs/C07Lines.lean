/-
Helper lemmas for C07: the callers' loop around `istream_get_line` over the buffered file stream returns the lines
of the byte-at-a-time specification, for every buffer size and every script of short reads, and it ends.
Built on C12's simulation lemmas (`getLineLoop_sim`, `idealGetLine_closed`).
-/
import Sqfs.Proofs.IoIdeal
import Sqfs.Model.C07Lines
namespace Sqfs.C07Lines
open Sqfs.IoLoops Sqfs.IoLoops.Spec

theorem nextLineAux_rest_lt (flags : Nat) : ∀ (rest cur : Bytes) (ln : Nat), rest ≠ [] →
    (nextLineAux flags cur rest ln).2.1.length < rest.length := by
  intro rest
  induction rest with
  | nil => intro cur ln h; exact absurd rfl h
  | cons c r ih =>
    intro cur ln _
    have hle : ∀ cur ln, (nextLineAux flags cur r ln).2.1.length ≤ r.length := by
      intro cur ln
      cases r with
      | nil => simp only [nextLineAux]; split <;> (try split) <;> simp
      | cons d r' => exact Nat.le_of_lt (ih cur ln (by simp))
    simp only [nextLineAux]
    split
    · split
      · simp
      · have := hle [] (ln + 1); simp only [List.length_cons]; omega
    · have := hle (cur ++ [c]) ln; simp only [List.length_cons]; omega

theorem nextLine_nil (flags ln : Nat) : nextLine flags [] ln = (none, [], ln) := by
  simp [nextLine, nextLineAux]

/-- the specification's loop needs at most one round per byte, plus the final one -/
theorem specLines_no_fuel (flags : Nat) : ∀ (fuel : Nat) (rest : Bytes) (ln : Nat) (acc : List (Bytes × Nat)),
    rest.length + 1 ≤ fuel → (specLines flags fuel rest ln acc).err = none := by
  intro fuel
  induction fuel with
  | zero => intro rest ln acc h; omega
  | succ f ih =>
    intro rest ln acc h
    simp only [specLines]
    cases rest with
    | nil => rw [nextLine_nil]
    | cons c r =>
      have hlt := nextLineAux_rest_lt flags (c :: r) [] ln (by simp)
      generalize hn : nextLine flags (c :: r) ln = res at *
      obtain ⟨o, rest', ln'⟩ := res
      have hl : rest'.length < (c :: r).length := by
        have : (nextLineAux flags [] (c :: r) ln).2.1 = rest' := by
          have := congrArg (fun x => x.2.1) hn; simpa [nextLine] using this
        rw [← this]; exact hlt
      cases o with
      | none => rfl
      | some l => exact ih rest' (ln' + 1) _ (by simp only [List.length_cons] at hl h; omega)

/-- one call of `istream_get_line` on the file stream, from any reachable state: the spec's next line, and the
state stays related to the ideal stream positioned behind that line -/
theorem getLine_file_step (B : Nat) (hB : 0 < B) (data : Bytes) (flags : Nat) (s : IStream) (t : Ideal) (ln : Nat) (os : OS)
    (hr : Rel B data s t) (hi : Iv data t) (hn : noHard os.sc = true) :
    ∃ s' t' os', getLineLoop (fileStream B) flags ((fileStream B).bound s + 2) s [] ln os =
        (lineRetOf (nextLine flags (data.drop t.pos) ln).1, s', (nextLine flags (data.drop t.pos) ln).2.2, os') ∧
      Rel B data s' t' ∧ Iv data t' ∧ noHard os'.sc = true ∧ data.drop t'.pos = (nextLine flags (data.drop t.pos) ln).2.1 := by
  have hb := (file_sim B hB data).bound s t hr
  obtain ⟨s', os', h1, hr', hn', _⟩ := getLineLoop_sim (file_sim B hB data) flags ((fileStream B).bound s + 2) s t [] ln os
    OS.full hr hn (by simp [noHard, OS.full])
  obtain ⟨t', c1, hd, hi'⟩ := idealGetLine_closed B hB data flags ((fileStream B).bound s + 2) t [] ln OS.full hi
    (by rw [hb]; simp [idealStream])
  rw [c1] at h1 hr'
  exact ⟨s', t', os', by simpa [nextLine] using h1, hr', hi', hn', by simpa [nextLine] using hd⟩

theorem readLines_file (B : Nat) (hB : 0 < B) (data : Bytes) (flags : Nat) :
    ∀ (fuel : Nat) (s : IStream) (t : Ideal) (ln : Nat) (os : OS) (acc : List (Bytes × Nat)),
    Rel B data s t → Iv data t → noHard os.sc = true →
    readLines (fileStream B) flags fuel s ln os acc = specLines flags fuel (data.drop t.pos) ln acc := by
  intro fuel
  induction fuel with
  | zero => intro s t ln os acc _ _ _; rfl
  | succ f ih =>
    intro s t ln os acc hr hi hn
    obtain ⟨s', t', os', h1, hr', hi', hn', hd⟩ := getLine_file_step B hB data flags s t ln os hr hi hn
    simp only [readLines, specLines, h1]
    generalize nextLine flags (List.drop t.pos data) ln = res at *
    obtain ⟨o, rest', ln'⟩ := res
    cases o with
    | none => simp [lineRetOf]
    | some l =>
      simp only [lineRetOf]
      rw [ih s' t' (ln' + 1) os' _ hr' hi' hn', hd]

end Sqfs.C07Lines
