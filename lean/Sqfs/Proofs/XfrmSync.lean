/-
C15 — the library conventions say nothing about `XFRM_STREAM_FLUSH_SYNC` (review E, F2).

`LibEncContract` / `LibDecContract` used to quantify over all three flush modes.  The real libraries answer the action the
backends map `FLUSH_SYNC` to in ways those clauses excluded — liblzma's encoder answers `LZMA_STREAM_END` to a completed
`LZMA_FULL_FLUSH` (without ending the stream), its decoder answers `LZMA_PROG_ERROR`; libbz2 answers `BZ_SEQUENCE_ERROR` to a `BZ_RUN`
after an unfinished `BZ_FLUSH` — so `False` followed from the contract plus any such fact and the `backend_*` theorems were vacuous
for the real liblzma/libbz2.  The clauses are now restricted to the modes the wrappers pass (`Proto`, `fl ≠ Flush.sync`).

This file shows that the restriction is complete: **whatever** a library does on `FLUSH_SYNC` (`Lib.withSync L f`: `L` with its
`sync` calls replaced by an arbitrary function `f`), it meets the conventions as soon as its `none`/`full` behaviour does.
`Toy.lzmaLikeEnc` / `Toy.lzmaLikeDec` are the toy libraries with liblzma's `sync` answers.
-/
import Sqfs.Proofs.XfrmWrapDec
namespace Sqfs.Xfrm

/-- `L`, except that a call with `FLUSH_SYNC` does what `f` says -/
def Lib.withSync {τ : Type} (L : Lib τ) (f : τ → Bytes → Nat → LibOut τ) : Lib τ :=
  { L with call := fun s inp room fl => if fl = Flush.sync then f s inp room else L.call s inp room fl }

theorem Lib.withSync_call {τ : Type} (L : Lib τ) (f : τ → Bytes → Nat → LibOut τ) (s : τ) (inp : Bytes) (room : Nat) {fl : Flush}
    (h : fl ≠ Flush.sync) : (L.withSync f).call s inp room fl = L.call s inp room fl := by
  simp [Lib.withSync, h]

section
variable {τ : Type} {L : Lib τ} {b : Backend} {Dec : Bytes → Option Bytes}

/-- the compressing convention does not constrain `FLUSH_SYNC` -/
def LibEncContract.withSync (h : LibEncContract L b Dec) (f : τ → Bytes → Nat → LibOut τ) : LibEncContract (L.withSync f) b Dec where
  R := h.R
  pend := h.pend
  init := h.init
  mono := h.mono
  ret_ok := by
    intro s x y fin inp room fl hR hP hr
    rw [Lib.withSync_call L f s inp room hP.1]
    exact h.ret_ok inp room fl hR hP hr
  consumed_le := by
    intro s x y fin inp room fl hR hP hr
    rw [Lib.withSync_call L f s inp room hP.1]
    exact h.consumed_le inp room fl hR hP hr
  out_le := by
    intro s x y fin inp room fl hR hP hr
    rw [Lib.withSync_call L f s inp room hP.1]
    exact h.out_le inp room fl hR hP hr
  keep := by
    intro s x y fin inp room fl hR hP hr
    rw [Lib.withSync_call L f s inp room hP.1]
    exact h.keep inp room fl hR hP hr
  finish := by
    intro s x y fin inp room fl hR hP hr
    rw [Lib.withSync_call L f s inp room hP.1]
    exact h.finish inp room fl hR hP hr
  progress := by
    intro s x y fin inp room fl hR hP hr
    rw [Lib.withSync_call L f s inp room hP.1]
    exact h.progress inp room fl hR hP hr
  bytes := by
    intro s x y fin inp room fl hR hP hr
    rw [Lib.withSync_call L f s inp room hP.1]
    exact h.bytes inp room fl hR hP hr

/-- the decompressing convention does not constrain `FLUSH_SYNC` -/
def LibDecContract.withSync (h : LibDecContract L b Dec) (f : τ → Bytes → Nat → LibOut τ) : LibDecContract (L.withSync f) b Dec where
  R := h.R
  pend := h.pend
  init := h.init
  dec_nil := h.dec_nil
  total := h.total
  valid := by
    intro s u v w x tail inp room fl hns
    rw [Lib.withSync_call L f s inp room hns]
    exact h.valid w x tail inp room fl hns
  bytes := by
    intro s u v w x tail inp room fl hns
    rw [Lib.withSync_call L f s inp room hns]
    exact h.bytes w x tail inp room fl hns
  progress := by
    intro s u v w x tail inp room fl hns
    rw [Lib.withSync_call L f s inp room hns]
    exact h.progress w x tail inp room fl hns
  buf_quiet := by
    intro s u v w x tail inp room fl hns
    rw [Lib.withSync_call L f s inp room hns]
    exact h.buf_quiet w x tail inp room fl hns
  drain := by
    intro s u v w x tail inp room fl hns
    rw [Lib.withSync_call L f s inp room hns]
    exact h.drain w x tail inp room fl hns
  idle := by
    intro s room fl hns
    rw [Lib.withSync_call L f s [] room hns]
    exact h.idle room fl hns

end

namespace Toy

/-- liblzma's encoder on `LZMA_FULL_FLUSH`, in the toy: everything offered is taken in and handed out (as far as there is room),
and the call answers `LZMA_STREAM_END` although the member goes on -/
def lzmaSyncEnc (s : LibSt Enc) (inp : Bytes) (room : Nat) : LibOut (LibSt Enc) :=
  let q := s.eng.q ++ encBytes inp
  { st := ⟨⟨q.drop room, s.eng.fin⟩, s.total + inp.length⟩, consumed := inp.length, out := q.take room, ret := LibRet.streamEnd }

/-- liblzma's decoder on `LZMA_FULL_FLUSH`: `LZMA_PROG_ERROR`, nothing done -/
def lzmaSyncDec (s : LibSt Dec) (_inp : Bytes) (_room : Nat) : LibOut (LibSt Dec) :=
  { st := s, consumed := 0, out := [], ret := LibRet.dataError }

/-- the toy compressing library with liblzma's answer to `FLUSH_SYNC` -/
def lzmaLikeEnc (P : Params) : Lib (LibSt Enc) := (encLib P Backend.xz).withSync lzmaSyncEnc
/-- the toy decompressing library with liblzma's answer to `FLUSH_SYNC` -/
def lzmaLikeDec (P : Params) : Lib (LibSt Dec) := (decLib P Backend.xz).withSync lzmaSyncDec

def lzmaLikeEncContract (P : Params) : LibEncContract (lzmaLikeEnc P) Backend.xz decode := (encLibContract P Backend.xz).withSync _
def lzmaLikeDecContract (P : Params) : LibDecContract (lzmaLikeDec P) Backend.xz decode := (decLibContract P Backend.xz).withSync _

end Toy
end Sqfs.Xfrm
