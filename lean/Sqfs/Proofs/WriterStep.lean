/-
Helper lemmas for C14, part 3: the invariant `Good` ("bytes [0,96) are the provisional superblock, everything else
stays clear of them") and the relation `Step` ("reached by modelled code that only writes at offsets in
[96, size]"), one lemma per model function.
-/
import Sqfs.Proofs.Writer
namespace Sqfs.Writer
open Sqfs.Consts

/-- invariant that holds from the provisional superblock write on -/
structure Good (P : Bytes) (s : WState) : Prop where
  file : s.file = image s.ops
  size : s.size = s.file.length
  ge : sizeofSuper ≤ s.size
  ops : ∃ rest, s.ops = .pwrite 0 P :: rest ∧ ∀ o ∈ rest, o.Safe
  /-- the output call at the fault position is never issued -/
  bound : ∀ j, s.fault.failAt = some j → s.ops.length ≤ j

/-- `s'` is reached from `s` by modelled code that only writes at offsets in `[96, size]` -/
structure Step (s s' : WState) : Prop where
  err : s'.err = none → s.err = none
  frozen : s.err ≠ none → s' = s
  size : s.size ≤ s'.size
  good : ∀ P, Good P s → Good P s'
  ops : ∃ ext, s'.ops = s.ops ++ ext
  cfg : s'.fault = s.fault

theorem Step.refl (s : WState) : Step s s :=
  ⟨id, fun _ => rfl, Nat.le_refl _, fun _ h => h, ⟨[], by simp⟩, rfl⟩

theorem Step.trans {a b c : WState} (h1 : Step a b) (h2 : Step b c) : Step a c := by
  refine ⟨fun h => h1.err (h2.err h), ?_, Nat.le_trans h1.size h2.size, fun P h => h2.good P (h1.good P h), ?_,
    h2.cfg.trans h1.cfg⟩
  · intro h
    have hb := h1.frozen h
    rw [hb] at h2
    exact h2.frozen h
  · obtain ⟨e1, h1'⟩ := h1.ops
    obtain ⟨e2, h2'⟩ := h2.ops
    exact ⟨e1 ++ e2, by rw [h2', h1', List.append_assoc]⟩

theorem fWrite_of_err (s : WState) (off : Nat) (d : Bytes) (h : s.err ≠ none) : fWrite s off d = s := by
  unfold fWrite
  cases he : s.err with
  | none => exact absurd he h
  | some e => simp

/-- setting the sticky error changes nothing else -/
theorem setErr_step (s : WState) (e : Nat) (he : s.err = none) : Step s { s with err := some e } :=
  ⟨fun h => by simp at h, fun h => absurd he h, Nat.le_refl _,
   fun _ g => ⟨g.file, g.size, g.ge, g.ops, g.bound⟩, ⟨[], by simp⟩, rfl⟩

theorem faults_false_failAt (s : WState) (n j : Nat) (h : s.faults n = false) (hj : s.fault.failAt = some j) :
    j ≠ s.ops.length := by
  unfold WState.faults at h
  rw [hj] at h
  simp only [Bool.or_eq_false_iff, beq_eq_false_iff_ne, ne_eq, Option.some.injEq] at h
  exact h.1

/-- the two outcomes of `stdio_write_at` in a state without error: the injected fault hits (only the error is
recorded), or the call is carried out -/
theorem fWrite_cases (s : WState) (off : Nat) (d : Bytes) (he : s.err = none) :
    (d.length ≠ 0 ∧ s.faults (off + d.length) = true ∧ fWrite s off d = { s with err := some errIo }) ∨
    ((d.length ≠ 0 → s.faults (off + d.length) = false) ∧ fWrite s off d = { s with
        ops := if d.length = 0 then s.ops else s.ops ++ [.pwrite off d]
        file := if d.length = 0 then s.file else filePwrite s.file off d
        size := if off + d.length ≥ s.size then off + d.length else s.size }) := by
  by_cases hf : d.length ≠ 0 ∧ s.faults (off + d.length) = true
  · exact Or.inl ⟨hf.1, hf.2, by simp [fWrite, he, hf.1, hf.2]⟩
  · refine Or.inr ⟨fun hd => ?_, ?_⟩
    · cases hx : s.faults (off + d.length) with
      | false => rfl
      | true => exact absurd ⟨hd, hx⟩ hf
    · unfold fWrite
      rw [if_neg (by simp [he]), if_neg hf]

theorem fWrite_step (s : WState) (off : Nat) (d : Bytes)
    (h : ∀ P, Good P s → s.err = none → sizeofSuper ≤ off ∧ off ≤ s.size) : Step s (fWrite s off d) := by
  cases he : s.err with
  | some e =>
    rw [fWrite_of_err s off d (by simp [he])]; exact Step.refl s
  | none =>
    rcases fWrite_cases s off d he with ⟨_, _, hw⟩ | ⟨hnf, hw⟩
    · rw [hw]; exact setErr_step s _ he
    rw [hw]
    refine ⟨fun _ => he, fun h => absurd he h, ?_, ?_, ?_, rfl⟩
    · simp only; split <;> omega
    · intro P g
      obtain ⟨h1, h2⟩ := h P g he
      obtain ⟨rest, hr, hs⟩ := g.ops
      by_cases hd : d.length = 0
      · simp only [hd, if_true]
        refine ⟨g.file, ?_, ?_, ⟨rest, hr, hs⟩, g.bound⟩
        · simp only; rw [← g.size]; split <;> omega
        · simp only; have := g.ge; split <;> omega
      · simp only [hd, if_false]
        refine ⟨?_, ?_, ?_, ⟨rest ++ [.pwrite off d], by rw [hr]; simp, ?_⟩, ?_⟩
        · simp only; rw [image_snoc, ← g.file]; rfl
        · simp only [filePwrite_length]; rw [← g.size]; split <;> omega
        · simp only; have := g.ge; split <;> omega
        · intro o ho
          rcases List.mem_append.mp ho with ho | ho
          · exact hs o ho
          · simp at ho; subst ho; exact h1
        · intro j hj
          have hb := g.bound j hj
          have hne := faults_false_failAt s _ j (hnf hd) hj
          simp only [List.length_append, List.length_cons, List.length_nil]
          omega
    · by_cases hd : d.length = 0
      · exact ⟨[], by simp [hd]⟩
      · exact ⟨[.pwrite off d], by simp [hd]⟩

theorem fWrite_append_step (s : WState) (d : Bytes) : Step s (fWrite s s.size d) :=
  fWrite_step s s.size d (fun _ g _ => ⟨g.ge, Nat.le_refl _⟩)


theorem metaWriteBlock_step (s : WState) (b : Bytes) : Step s (metaWriteBlock s b) :=
  fWrite_append_step s _

theorem metaFlush_step (cmp : Cmp) (s : WState) (m : MetaW) : Step s (metaFlush cmp s m).1 := by
  unfold metaFlush
  split
  · exact Step.refl s
  · simp only
    split
    · exact Step.refl s
    · exact metaWriteBlock_step s _

theorem metaAppendLoop_step (cmp : Cmp) (fuel : Nat) (s : WState) (m : MetaW) (d : Bytes) :
    Step s (metaAppendLoop cmp fuel s m d).1 := by
  induction fuel generalizing s m d with
  | zero => exact Step.refl s
  | succ n ih =>
    unfold metaAppendLoop
    split
    · exact Step.refl s
    · simp only
      split
      · exact (metaFlush_step cmp s m).trans (ih _ _ _)
      · exact ih _ _ _

theorem metaAppend_step (cmp : Cmp) (s : WState) (m : MetaW) (d : Bytes) : Step s (metaAppend cmp s m d).1 := by
  unfold metaAppend
  simp only
  split
  · exact (metaAppendLoop_step cmp _ s m d).trans (metaFlush_step cmp _ _)
  · exact metaAppendLoop_step cmp _ s m d

theorem metaAppendAll_step (cmp : Cmp) (s : WState) (m : MetaW) (l : List Bytes) :
    Step s (metaAppendAll cmp s m l).1 := by
  induction l generalizing s m with
  | nil => exact Step.refl s
  | cons d r ih =>
    unfold metaAppendAll
    exact (metaAppend_step cmp s m d).trans (ih _ _)

theorem metaWriteList_step (s : WState) (l : List Bytes) : Step s (metaWriteList s l) := by
  induction l generalizing s with
  | nil => exact Step.refl s
  | cons b r ih => unfold metaWriteList; exact (metaWriteBlock_step s b).trans (ih _)

theorem writeTableLoop_step (cmp : Cmp) (fuel : Nat) (s : WState) (m : MetaW) (locs : List Nat) (d : Bytes) :
    Step s (writeTableLoop cmp fuel s m locs d).1 := by
  induction fuel generalizing s m locs d with
  | zero => exact Step.refl s
  | succ n ih =>
    unfold writeTableLoop
    split
    · exact Step.refl s
    · exact (metaAppend_step cmp s m _).trans (ih _ _ _ _)

theorem writeTable_step (cmp : Cmp) (s : WState) (p : Bytes) : Step s (writeTable cmp s p).1 := by
  unfold writeTable
  exact ((writeTableLoop_step cmp _ s _ _ p).trans (metaFlush_step cmp _ _)).trans (fWrite_append_step _ _)

theorem fragTableWrite_step (cmp : Cmp) (s : WState) (sup : Super) (t : Bytes) (c : Bool) :
    Step s (fragTableWrite cmp s sup t c).1 := by
  unfold fragTableWrite
  split
  · exact Step.refl s
  · exact writeTable_step cmp s t

theorem exportTableWrite_step (cmp : Cmp) (s : WState) (sup : Super) (t : Option Bytes) :
    Step s (exportTableWrite cmp s sup t).1 := by
  cases t with
  | none => exact Step.refl s
  | some t => exact writeTable_step cmp s t

theorem idTableWrite_step (cmp : Cmp) (s : WState) (sup : Super) (ids : List Nat) :
    Step s (idTableWrite cmp s sup ids).1 := writeTable_step cmp s _

theorem xattrIdLoop_step (cmp : Cmp) (s : WState) (m : MetaW) (locs : List Nat) (l : List Bytes) :
    Step s (xattrIdLoop cmp s m locs l).1 := by
  induction l generalizing s m locs with
  | nil => exact Step.refl s
  | cons e r ih => unfold xattrIdLoop; exact (metaAppend_step cmp s m e).trans (ih _ _ _)


theorem fWrite_size_of_ok (s : WState) (off : Nat) (d : Bytes) (h : (fWrite s off d).err = none) :
    (fWrite s off d).size = (if off + d.length ≥ s.size then off + d.length else s.size) ∧ s.err = none := by
  cases he : s.err with
  | some e => rw [fWrite_of_err s off d (by simp [he])] at h; simp [he] at h
  | none =>
    rcases fWrite_cases s off d he with ⟨_, _, hw⟩ | ⟨_, hw⟩
    · rw [hw] at h; simp at h
    · rw [hw]; exact ⟨rfl, rfl⟩

theorem xattrKv_step (cmp : Cmp) (s : WState) (x : XattrIn) : Step s (xattrKv cmp s x).1 :=
  (metaAppendAll_step cmp s _ _).trans (metaFlush_step cmp _ _)

theorem xattrIds_step (cmp : Cmp) (s : WState) (m : MetaW) (x : XattrIn) : Step s (xattrIds cmp s m x).1 :=
  (xattrIdLoop_step cmp s _ _ _).trans (metaFlush_step cmp _ _)

theorem xattrLocTable_step (s : WState) (a b : Nat) (locs : List Nat) : Step s (xattrLocTable s a b locs) := by
  unfold xattrLocTable
  refine (fWrite_append_step s _).trans (fWrite_step _ _ _ ?_)
  intro P g he
  -- the 16-byte header has just been appended at `start`, so `start + 16` is the new size
  have h1 := fWrite_size_of_ok s s.size (le 8 a ++ le 4 b ++ le 4 0) he
  have hl : (le 8 a ++ le 4 b ++ le 4 0).length = sizeofXattrIdTable := by
    simp [le_length, sizeofXattrIdTable]
  rw [hl] at h1
  have := g.ge
  simp only [ge_iff_le, Nat.le_add_right, if_true] at h1
  rw [h1.1] at this ⊢
  simp only [sizeofXattrIdTable, sizeofSuper] at *
  omega

theorem xattrFlush_step (cmp : Cmp) (s : WState) (sup : Super) (x : XattrIn) : Step s (xattrFlush cmp s sup x).1 := by
  unfold xattrFlush
  split
  · exact Step.refl s
  · exact ((xattrKv_step cmp s x).trans (xattrIds_step cmp _ _ x)).trans (xattrLocTable_step _ _ _ _)

theorem fail_step (s : WState) (e : Nat) : Step s (s.fail e) := by
  unfold WState.fail
  split
  · exact Step.refl s
  · rename_i he
    refine ⟨fun h => by simp at h, fun h => ?_, Nat.le_refl _, ?_, ⟨[], by simp⟩, rfl⟩
    · exfalso; apply h; cases h' : s.err <;> simp_all
    · intro P g; exact ⟨g.file, g.size, g.ge, g.ops, g.bound⟩

theorem writeOptions_step (s : WState) (o : Bytes) : Step s (writeOptions s o).1 := by
  unfold writeOptions
  split
  · exact Step.refl s
  · split
    · exact fail_step s _
    · exact fWrite_step s _ _ (fun P g _ => ⟨Nat.le_refl _, g.ge⟩)

theorem serialize_step (r : Run) (s : WState) (sup : Super) : Step s (serialize r s sup).1 := by
  unfold serialize
  simp only
  exact ((((metaAppendAll_step r.cmp s _ _).trans (metaAppendAll_step r.cmp _ _ _)).trans
    (metaFlush_step r.cmp _ _)).trans (metaFlush_step r.cmp _ _)).trans (metaWriteList_step _ _)

/-- every recorded block lies behind the superblock -/
def BWInv (w : BlockW) : Prop := ∀ b ∈ w.blocks, sizeofSuper ≤ b.offset

/-- data-phase relation under the invariant: `Good` is kept, operations are only appended -/
structure DStep (P : Bytes) (s s' : WState) : Prop where
  good : Good P s'
  ops : ∃ ext, s'.ops = s.ops ++ ext
  cfg : s'.fault = s.fault
  err : s'.err = none → s.err = none

theorem DStep.refl {P : Bytes} {s : WState} (g : Good P s) : DStep P s s := ⟨g, ⟨[], by simp⟩, rfl, id⟩

theorem DStep.of_step {P : Bytes} {s s' : WState} (g : Good P s) (h : Step s s') : DStep P s s' :=
  ⟨h.good P g, h.ops, h.cfg, h.err⟩

theorem DStep.trans {P : Bytes} {a b c : WState} (h1 : DStep P a b) (h2 : DStep P b c) : DStep P a c := by
  obtain ⟨e1, h1'⟩ := h1.ops
  obtain ⟨e2, h2'⟩ := h2.ops
  exact ⟨h2.good, ⟨e1 ++ e2, by rw [h2', h1', List.append_assoc]⟩, h2.cfg.trans h1.cfg, fun h => h1.err (h2.err h)⟩

theorem fTrunc_of_err (s : WState) (n : Nat) (h : s.err ≠ none) : fTrunc s n = s := by
  unfold fTrunc
  cases he : s.err with
  | none => exact absurd he h
  | some e => simp

theorem fTrunc_dstep (P : Bytes) (s : WState) (n : Nat) (g : Good P s) (hn : sizeofSuper ≤ n) : DStep P s (fTrunc s n) := by
  cases he : s.err with
  | some e => rw [fTrunc_of_err s n (by simp [he])]; exact DStep.refl g
  | none =>
    by_cases hf : s.faults n = true
    · have hw : fTrunc s n = { s with err := some errIo } := by simp [fTrunc, he, hf]
      rw [hw]; exact DStep.of_step g (setErr_step s _ he)
    have hw : fTrunc s n = { s with ops := s.ops ++ [.ftruncate n], file := fileTrunc s.file n, size := n } := by
      simp [fTrunc, he, hf]
    rw [hw]
    obtain ⟨rest, hr, hs⟩ := g.ops
    refine ⟨⟨?_, ?_, hn, ⟨rest ++ [.ftruncate n], by rw [hr]; simp, ?_⟩, ?_⟩, ⟨[.ftruncate n], rfl⟩, rfl, fun _ => he⟩
    · simp only; rw [image_snoc, ← g.file]; rfl
    · simp only [fileTrunc_length]
    · intro o ho
      rcases List.mem_append.mp ho with ho | ho
      · exact hs o ho
      · simp at ho; subst ho; exact hn
    · intro j hj
      have hb := g.bound j hj
      have hne := faults_false_failAt s n j (by cases hx : s.faults n <;> simp_all) hj
      simp only [List.length_append, List.length_cons, List.length_nil]
      omega

theorem fail_of_err (s : WState) (e : Nat) (h : s.err ≠ none) : s.fail e = s := by
  unfold WState.fail
  cases he : s.err with
  | none => exact absurd he h
  | some e => simp

theorem dedup_dstep (P : Bytes) (s : WState) (w : BlockW) (fl : Nat) (g : Good P s) (hw : BWInv w) :
    DStep P s (dedup s w fl).1 ∧ BWInv (dedup s w fl).2.1 := by
  unfold dedup
  simp only
  split
  · exact ⟨DStep.refl g, hw⟩
  · split
    · exact ⟨DStep.refl g, hw⟩
    · split
      · exact ⟨DStep.of_step g (fail_step s _), hw⟩
      · split
        · exact ⟨DStep.refl g, hw⟩
        · split
          · exact ⟨DStep.of_step g (fail_step s _), hw⟩
          · rename_i b hb
            have hmem : b ∈ w.blocks := List.mem_of_mem_take (List.mem_of_getLast? hb)
            refine ⟨fTrunc_dstep P s _ g (by have := hw b hmem; omega), ?_⟩
            intro x hx
            exact hw x (List.mem_of_mem_take hx)

theorem writeDataBlock_dstep (P : Bytes) (s : WState) (w : BlockW) (c : BlkCall) (g : Good P s) (hw : BWInv w) :
    DStep P s (writeDataBlock s w c).1 ∧ BWInv (writeDataBlock s w c).2.1 := by
  unfold writeDataBlock
  simp only
  have hw0 : BWInv (if hasFlag c.flags blkFirstBlock = true then { w with fileStart := w.blocks.length } else w) := by
    split <;> exact hw
  generalize (if hasFlag c.flags blkFirstBlock = true then { w with fileStart := w.blocks.length } else w) = w0 at hw0 ⊢
  have key : DStep P s (if c.data.length ≠ 0 ∧ ¬ hasFlag c.flags blkIsSparse = true then
        (fWrite s s.size c.data, ({ w0 with blocks := w0.blocks ++ [⟨s.size, mkBlkHash c.chksum (c.data.length ||| (if hasFlag c.flags blkIsCompressed = true then 0 else 2 ^ 24))⟩] } : BlockW))
        else (s, w0)).1 ∧
      BWInv (if c.data.length ≠ 0 ∧ ¬ hasFlag c.flags blkIsSparse = true then
        (fWrite s s.size c.data, ({ w0 with blocks := w0.blocks ++ [⟨s.size, mkBlkHash c.chksum (c.data.length ||| (if hasFlag c.flags blkIsCompressed = true then 0 else 2 ^ 24))⟩] } : BlockW))
        else (s, w0)).2 := by
    split
    · refine ⟨DStep.of_step g (fWrite_append_step s _), ?_⟩
      intro b hb
      rcases List.mem_append.mp hb with hb | hb
      · exact hw0 b hb
      · simp at hb; subst hb; exact g.ge
    · exact ⟨DStep.refl g, hw0⟩
  generalize (if c.data.length ≠ 0 ∧ ¬ hasFlag c.flags blkIsSparse = true then
        (fWrite s s.size c.data, ({ w0 with blocks := w0.blocks ++ [⟨s.size, mkBlkHash c.chksum (c.data.length ||| (if hasFlag c.flags blkIsCompressed = true then 0 else 2 ^ 24))⟩] } : BlockW))
        else (s, w0)) = sw at key ⊢
  split
  · split
    · exact key
    · have := dedup_dstep P sw.1 sw.2 c.flags key.1.good key.2
      exact ⟨key.1.trans this.1, this.2⟩
  · exact key

theorem writeDataBlocks_dstep (P : Bytes) (s : WState) (w : BlockW) (l : List BlkCall) (g : Good P s) (hw : BWInv w) :
    DStep P s (writeDataBlocks s w l).1 := by
  induction l generalizing s w with
  | nil => exact DStep.refl g
  | cons c r ih =>
    unfold writeDataBlocks
    have h := writeDataBlock_dstep P s w c g hw
    exact h.1.trans (ih _ _ h.1.good h.2)

theorem writeDataBlock_frozen (s : WState) (w : BlockW) (c : BlkCall) (h : s.err ≠ none) : (writeDataBlock s w c).1 = s := by
  have hs : s.err.isSome = true := by cases he : s.err <;> simp_all
  unfold writeDataBlock
  simp only
  split <;> split <;> simp [fWrite_of_err s _ _ h, hs]

theorem writeDataBlocks_frozen (s : WState) (w : BlockW) (l : List BlkCall) (h : s.err ≠ none) : (writeDataBlocks s w l).1 = s := by
  induction l generalizing w with
  | nil => rfl
  | cons c r ih =>
    unfold writeDataBlocks
    simp only
    have := writeDataBlock_frozen s w c h
    rw [this]; exact ih _

theorem tables_step (r : Run) (s : WState) (sup : Super) : Step s (tables r s sup).1 := by
  unfold tables
  simp only
  have h1 := serialize_step r s sup
  have h2 := h1.trans (fragTableWrite_step r.cmp _ (serialize r s sup).2 r.fragTable r.fragAnyCompressed)
  cases hx : r.xattr <;> cases he : r.exportTable <;> simp only
  · exact h2.trans (idTableWrite_step _ _ _ _)
  · exact (h2.trans (exportTableWrite_step _ _ _ _)).trans (idTableWrite_step _ _ _ _)
  · exact (h2.trans (idTableWrite_step _ _ _ _)).trans (xattrFlush_step _ _ _ _)
  · exact ((h2.trans (exportTableWrite_step _ _ _ _)).trans (idTableWrite_step _ _ _ _)).trans (xattrFlush_step _ _ _ _)

theorem inputCheck_step (r : Run) (s : WState) : Step s (inputCheck r s) := by
  unfold inputCheck
  split
  · exact Step.refl s
  · exact fail_step s _

/-- the state right after `sqfs_writer_init`: failed with an untouched log (`sqfs_super_init` refused the
parameters, or the provisional superblock write itself failed), or `Good` for the provisional superblock -/
theorem wInit_spec (r : Run) :
    (wInit r).1.fault = r.fault ∧
    (((wInit r).1.ops = [] ∧ (wInit r).1.err ≠ none) ∨
     (∃ sup, superInit r.blockSize r.mtime r.compId = .ok sup ∧ Good sup.encode (wInit r).1)) := by
  unfold wInit
  cases h : superInit r.blockSize r.mtime r.compId with
  | error e => exact ⟨rfl, Or.inl ⟨rfl, by simp⟩⟩
  | ok sup =>
    simp only
    have hl := encode_length sup
    have hne : ¬ sup.encode.length = 0 := by rw [hl]; simp [sizeofSuper]
    have he0 : ({ fault := r.fault } : WState).err = none := rfl
    have hwo := writeOptions_step (fWrite { fault := r.fault } 0 sup.encode) r.opts
    rcases fWrite_cases { fault := r.fault } 0 sup.encode he0 with ⟨_, _, hw⟩ | ⟨hnf, hw⟩
    · -- the provisional superblock write itself fails
      rw [hw] at hwo ⊢
      rw [hwo.frozen (by simp)]
      exact ⟨rfl, Or.inl ⟨rfl, by simp⟩⟩
    · rw [hw] at hwo ⊢
      refine ⟨hwo.cfg, Or.inr ⟨sup, rfl, hwo.good _ ?_⟩⟩
      simp only [hne, if_false]
      refine ⟨?_, ?_, ?_, ⟨[], by simp, by simp⟩, ?_⟩
      · simp [image, applyOps, Op.apply]
      · simp [filePwrite_length]
      · simp [hl]
      · intro j hj
        have := faults_false_failAt { fault := r.fault } _ j (hnf hne) hj
        simp only [List.length_nil, List.nil_append, List.length_cons] at this ⊢
        omega

theorem preFinal_spec (r : Run) :
    (preFinal r).1.fault = r.fault ∧
    (((preFinal r).1.ops = [] ∧ (preFinal r).1.err ≠ none) ∨
     (∃ sup, superInit r.blockSize r.mtime r.compId = .ok sup ∧ Good sup.encode (preFinal r).1)) := by
  unfold preFinal
  simp only
  obtain ⟨hf, hw⟩ := wInit_spec r
  rcases hw with ⟨h1, hne⟩ | ⟨sup, h1, g⟩
  · have hd := writeDataBlocks_frozen (wInit r).1 {} r.blocks hne
    rw [hd, (inputCheck_step r _).frozen hne, (tables_step r _ _).frozen hne]
    exact ⟨hf, Or.inl ⟨h1, hne⟩⟩
  · have hd := writeDataBlocks_dstep sup.encode (wInit r).1 {} r.blocks g (by intro b hb; cases hb)
    have ht := (inputCheck_step r (writeDataBlocks (wInit r).1 {} r.blocks).1).trans (tables_step r _
      { (wInit r).2 with inodeCount := r.inodeCount % 2 ^ 32 })
    exact ⟨(ht.cfg.trans hd.cfg).trans hf, Or.inr ⟨sup, h1, ht.good _ hd.good⟩⟩

theorem core_prefix (P : Bytes) (rest ext : List Op) (hP : P.length = sizeofSuper) (hid : (Super.decode P).idCount = 0)
    (hs : ∀ o ∈ rest, o.Safe) (k : Nat) (hk : k ≤ rest.length + 1) :
    readerAccepts (image (((Op.pwrite 0 P :: rest) ++ ext).take k)) = false ∧
    (1 ≤ k → (image (((Op.pwrite 0 P :: rest) ++ ext).take k)).take sizeofSuper = P) := by
  cases k with
  | zero => exact ⟨rejected_of_short _ (by simp [image, applyOps, sizeofSuper]), by omega⟩
  | succ j =>
    have hj : j ≤ rest.length := by omega
    rw [List.cons_append, List.take_succ_cons, List.take_append_of_le_length hj]
    have := image_prov_mid P (rest.take j) hP (fun o ho => hs o (List.mem_of_mem_take ho))
    refine ⟨?_, fun _ => this.1⟩
    apply rejected_of_idCount_zero
    rw [this.1]; exact hid

theorem padd_spec (s : WState) (size blk : Nat) :
    padd s size blk = s ∨ ∃ n, padd s size blk = fWrite s s.size (zeros n) := by
  unfold padd
  split
  · exact Or.inl rfl
  · exact Or.inr ⟨_, rfl⟩

theorem padd_step (s : WState) (size blk : Nat) : Step s (padd s size blk) := by
  rcases padd_spec s size blk with h | ⟨n, h⟩
  · rw [h]; exact Step.refl s
  · rw [h]; exact fWrite_append_step s _

theorem run_of_commit_err (r : Run) (h : (commit r).err ≠ none) : run r = commit r :=
  (padd_step (commit r) _ _).frozen h

/-- a run that ended without error went through the final superblock write without error -/
theorem commit_ok_of_run_ok (r : Run) (hok : (run r).err = none) : (commit r).err = none :=
  (padd_step (commit r) _ _).err hok

/-- the log of the complete run: either the run fails before it commits — then nothing is issued after the calls
of `preFinal` —, or the final superblock write is carried out and at most the padding follows (whether or not the
padding write succeeds) -/
theorem run_ops (r : Run) :
    ((commit r).err ≠ none ∧ run r = commit r ∧ (commit r).ops = (preFinal r).1.ops) ∨
    ((preFinal r).1.err = none ∧ (commit r).err = none ∧ ∃ pad, (run r).ops = (preFinal r).1.ops ++ .pwrite 0 (finalSuper r).encode :: pad ∧
      (pad = [] ∨ ∃ n, pad = [.pwrite (max (preFinal r).1.size sizeofSuper) (zeros n)])) := by
  cases he : (preFinal r).1.err with
  | some e =>
    left
    have hne : (preFinal r).1.err ≠ none := by simp [he]
    have h1 : commit r = (preFinal r).1 := fWrite_of_err _ _ _ hne
    have h2 : (commit r).err ≠ none := by rw [h1]; exact hne
    exact ⟨h2, run_of_commit_err r h2, by rw [h1]⟩
  | none =>
    have hl := encode_length (finalSuper r)
    have hne : ¬ (finalSuper r).encode.length = 0 := by rw [hl]; simp [sizeofSuper]
    rcases fWrite_cases (preFinal r).1 0 (finalSuper r).encode he with ⟨_, _, hw⟩ | ⟨_, hw⟩
    · left
      have h1 : commit r = { (preFinal r).1 with err := some errIo } := hw
      have h2 : (commit r).err ≠ none := by rw [h1]; simp
      exact ⟨h2, run_of_commit_err r h2, by rw [h1]⟩
    · right
      have h1 : commit r = _ := hw
      simp only [hne, if_false] at h1
      have hs1 : (commit r).ops = (preFinal r).1.ops ++ [.pwrite 0 (finalSuper r).encode] := by rw [h1]
      have hs2 : (commit r).size = max (preFinal r).1.size sizeofSuper := by
        rw [h1]; simp only [hl, Nat.zero_add]; split <;> omega
      have hs3 : (commit r).err = none := by rw [h1]; exact he
      refine ⟨rfl, hs3, ?_⟩
      unfold run
      generalize commit r = s1 at hs1 hs2 hs3 ⊢
      rcases padd_spec s1 (finalSuper r).bytesUsed r.devblksize with h | ⟨n, h⟩
      · rw [h]; exact ⟨[], by rw [hs1], Or.inl rfl⟩
      · rw [h]
        rcases fWrite_cases s1 s1.size (zeros n) hs3 with ⟨_, _, hw2⟩ | ⟨_, hw2⟩
        · rw [hw2]; exact ⟨[], by rw [hs1], Or.inl rfl⟩     -- the padding write fails: nothing more is issued
        · rw [hw2, zeros_length]
          by_cases hn : n = 0
          · refine ⟨[], ?_, Or.inl rfl⟩
            simp only [hn, if_true, hs1]
          · refine ⟨[.pwrite (max (preFinal r).1.size sizeofSuper) (zeros n)], ?_, Or.inr ⟨n, rfl⟩⟩
            simp only [hn, if_false, hs1, hs2]; simp

theorem image_nil_rejected : readerAccepts (image []) = false :=
  rejected_of_short _ (by simp [image, applyOps, sizeofSuper])

/-- **prefix_rejected** -/
theorem prefix_rejected' (r : Run) (k : Nat) (hk : k < kFinal r) :
    readerAccepts (image ((run r).ops.take k)) = false := by
  unfold kFinal at hk
  rcases (preFinal_spec r).2 with ⟨h2, hne⟩ | ⟨sup, h1, g⟩
  · have : (run r).ops = [] := by
      rcases run_ops r with ⟨_, h, h'⟩ | ⟨h, _⟩
      · rw [h, h', h2]
      · exact absurd h hne
    rw [this]; simp only [List.take_nil]; exact image_nil_rejected
  · obtain ⟨rest, hr, hs⟩ := g.ops
    have hid : (Super.decode sup.encode).idCount = 0 := by
      rw [decode_encode]; simp [Super.wrap, superInit_idCount _ _ _ sup h1]
    have hext : ∃ ext, (run r).ops = (Op.pwrite 0 sup.encode :: rest) ++ ext := by
      rcases run_ops r with ⟨_, h, h'⟩ | ⟨_, _, pad, h, _⟩
      · exact ⟨[], by rw [h, h', hr]; simp⟩
      · exact ⟨_, by rw [h, hr]⟩
    obtain ⟨ext, hx⟩ := hext
    rw [hx]
    rw [hr] at hk
    exact (core_prefix sup.encode rest ext (encode_length sup) hid hs k (by simp at hk; omega)).1

theorem zeros_all (n : Nat) : ∀ b ∈ zeros n, b = 0 := by
  intro b hb; simp [zeros] at hb; exact hb.2

/-- a run that got through the final superblock write: the decomposition of the log -/
theorem run_ok_ops (r : Run) (hok : (commit r).err = none) :
    ∃ sup rest pad, superInit r.blockSize r.mtime r.compId = .ok sup ∧ Good sup.encode (preFinal r).1 ∧
      (preFinal r).1.err = none ∧
      (preFinal r).1.ops = .pwrite 0 sup.encode :: rest ∧ (∀ o ∈ rest, o.Safe) ∧
      (run r).ops = .pwrite 0 sup.encode :: (rest ++ .pwrite 0 (finalSuper r).encode :: pad) ∧
      (pad = [] ∨ ∃ n, pad = [.pwrite (image (.pwrite 0 sup.encode :: rest)).length (zeros n)]) := by
  rcases run_ops r with ⟨h1, _⟩ | ⟨h1, _, pad, h2, h3⟩
  · exact absurd hok h1
  · rcases (preFinal_spec r).2 with ⟨_, h⟩ | ⟨sup, hs, g⟩
    · exact absurd h1 h
    · obtain ⟨rest, hr, hsafe⟩ := g.ops
      refine ⟨sup, rest, pad, hs, g, h1, hr, hsafe, by rw [h2, hr]; simp, ?_⟩
      rcases h3 with h3 | ⟨n, h3⟩
      · exact Or.inl h3
      · refine Or.inr ⟨n, ?_⟩
        rw [h3, ← hr, ← g.file, ← g.size, Nat.max_eq_left g.ge]

theorem suffix_complete' (r : Run) (hok : (commit r).err = none) (k : Nat) (hk : kFinal r ≤ k) :
    ∃ pad, image (run r).ops = image ((run r).ops.take k) ++ pad ∧ ∀ b ∈ pad, b = 0 := by
  obtain ⟨sup, rest, pad, _, _, _, hr, hsafe, hops, hpad⟩ := run_ok_ops r hok
  unfold kFinal at hk
  rw [hr] at hk
  have hpo : pad = [] ∨ ∃ z, pad = [.pwrite (image (.pwrite 0 sup.encode :: rest)).length z] := by
    rcases hpad with h | ⟨n, h⟩
    · exact Or.inl h
    · exact Or.inr ⟨_, h⟩
  obtain ⟨pad', h1, h2⟩ := core_suffix sup.encode (finalSuper r).encode rest pad (encode_length _) (encode_length _) hsafe hpo k
    (by simp at hk; omega)
  rw [hops]
  refine ⟨pad', h1, ?_⟩
  rcases h2 with h2 | h2
  · rw [h2]; simp
  · rcases hpad with h | ⟨n, h⟩
    · rw [h] at h2; simp at h2
    · rw [h] at h2
      have : zeros n = pad' := by simpa using h2
      rw [← this]; exact zeros_all n

theorem super_region_invariant' (r : Run) (sup : Super) (h : superInit r.blockSize r.mtime r.compId = .ok sup)
    (hne : (run r).ops ≠ []) :
    (∃ rest, (preFinal r).1.ops = .pwrite 0 sup.encode :: rest ∧ ∀ o ∈ rest, o.Safe) ∧
    ∀ k, 1 ≤ k → k < kFinal r → (image ((run r).ops.take k)).take sizeofSuper = sup.encode := by
  rcases (preFinal_spec r).2 with ⟨h2, herr⟩ | ⟨sup', h1, g⟩
  · exfalso; apply hne
    rcases run_ops r with ⟨_, h, h'⟩ | ⟨h, _⟩
    · rw [h, h', h2]
    · exact absurd h herr
  · rw [h] at h1; injection h1 with h1; subst h1
    obtain ⟨rest, hr, hs⟩ := g.ops
    refine ⟨⟨rest, hr, hs⟩, ?_⟩
    intro k hk1 hk
    have hid : (Super.decode sup.encode).idCount = 0 := by
      rw [decode_encode]; simp [Super.wrap, superInit_idCount _ _ _ sup h]
    have hext : ∃ ext, (run r).ops = (Op.pwrite 0 sup.encode :: rest) ++ ext := by
      rcases run_ops r with ⟨_, h, h'⟩ | ⟨_, _, pad, h, _⟩
      · exact ⟨[], by rw [h, h', hr]; simp⟩
      · exact ⟨_, by rw [h, hr]⟩
    obtain ⟨ext, hx⟩ := hext
    unfold kFinal at hk
    rw [hx]
    rw [hr] at hk
    exact (core_prefix sup.encode rest ext (encode_length sup) hid hs k (by simp at hk; omega)).2 hk1

/-- what makes a superblock pass `sqfs_super_read` and the entry of `sqfs_id_table_read` -/
structure SuperOk (t : Super) : Prop where
  magic : t.magic = Consts.magic
  vMajor : t.vMajor = versionMajor
  vMinor : t.vMinor = versionMinor
  block : ∃ log, 12 ≤ log ∧ log ≤ 20 ∧ t.blockSize = 2 ^ log ∧ t.blockLog = log
  comp : compMin ≤ t.compId ∧ t.compId ≤ compMax
  idc : 0 < t.idCount ∧ t.idCount < 2 ^ 16
  idlt : t.idStart < t.bytesUsed
  idlist : t.idStart + 8 * tableBlocks (t.idCount * 4) ≤ t.bytesUsed
  used : t.bytesUsed < 2 ^ 64

def Pow2Ok (log : Nat) : Prop :=
  ((2 ^ log + 2 ^ 32 - 1) % 2 ^ 32) &&& 2 ^ log = 0 ∧ minBlockSize ≤ 2 ^ log ∧ 2 ^ log ≤ maxBlockSize ∧ 2 ^ log < 2 ^ 32
theorem p12 : Pow2Ok 12 := by simp [Pow2Ok, minBlockSize, maxBlockSize]
theorem p13 : Pow2Ok 13 := by simp [Pow2Ok, minBlockSize, maxBlockSize]
theorem p14 : Pow2Ok 14 := by simp [Pow2Ok, minBlockSize, maxBlockSize]
theorem p15 : Pow2Ok 15 := by simp [Pow2Ok, minBlockSize, maxBlockSize]
theorem p16 : Pow2Ok 16 := by simp [Pow2Ok, minBlockSize, maxBlockSize]
theorem p17 : Pow2Ok 17 := by simp [Pow2Ok, minBlockSize, maxBlockSize]
theorem p18 : Pow2Ok 18 := by simp [Pow2Ok, minBlockSize, maxBlockSize]
theorem p19 : Pow2Ok 19 := by simp [Pow2Ok, minBlockSize, maxBlockSize]
theorem p20 : Pow2Ok 20 := by simp [Pow2Ok, minBlockSize, maxBlockSize]
theorem pow2_check (log : Nat) (h1 : 12 ≤ log) (h2 : log ≤ 20) : Pow2Ok log := by
  have : log = 12 ∨ log = 13 ∨ log = 14 ∨ log = 15 ∨ log = 16 ∨ log = 17 ∨ log = 18 ∨ log = 19 ∨ log = 20 := by omega
  rcases this with h | h | h | h | h | h | h | h | h <;> rw [h]
  · exact p12
  · exact p13
  · exact p14
  · exact p15
  · exact p16
  · exact p17
  · exact p18
  · exact p19
  · exact p20

theorem superRead_of_checks (f : Bytes) (hl : sizeofSuper ≤ f.length)
    (h1 : (Super.decode (f.take sizeofSuper)).magic = Consts.magic)
    (h2 : (Super.decode (f.take sizeofSuper)).vMajor = versionMajor)
    (h2' : (Super.decode (f.take sizeofSuper)).vMinor = versionMinor)
    (h3 : (((Super.decode (f.take sizeofSuper)).blockSize + 2 ^ 32 - 1) % 2 ^ 32) &&& (Super.decode (f.take sizeofSuper)).blockSize = 0)
    (h4 : minBlockSize ≤ (Super.decode (f.take sizeofSuper)).blockSize)
    (h5 : (Super.decode (f.take sizeofSuper)).blockSize ≤ maxBlockSize)
    (h6 : 12 ≤ (Super.decode (f.take sizeofSuper)).blockLog ∧ (Super.decode (f.take sizeofSuper)).blockLog ≤ 20)
    (h7 : (Super.decode (f.take sizeofSuper)).blockSize = 2 ^ (Super.decode (f.take sizeofSuper)).blockLog)
    (h8 : compMin ≤ (Super.decode (f.take sizeofSuper)).compId ∧ (Super.decode (f.take sizeofSuper)).compId ≤ compMax)
    (h9 : (Super.decode (f.take sizeofSuper)).idCount ≠ 0) :
    superRead f = .ok (Super.decode (f.take sizeofSuper)) := by
  simp only [superRead, readAt_super f hl]
  rw [if_neg (fun h => h h1), if_neg (by rw [h2, h2']; simp), if_neg (fun h => h h3), if_neg (by omega), if_neg (by omega),
    if_neg (by omega), if_neg (fun h => h h7), if_neg (by omega), if_neg h9]

theorem accept_of (f : Bytes) (t : Super) (h96 : f.take sizeofSuper = t.encode) (hlen : t.bytesUsed ≤ f.length)
    (ok : SuperOk t) : readerAccepts f = true := by
  have hl : sizeofSuper ≤ f.length := by
    have := congrArg List.length h96
    rw [encode_length, List.length_take] at this
    omega
  obtain ⟨log, hl1, hl2, hbs, hbl⟩ := ok.block
  have hp := pow2_check log hl1 hl2
  unfold Pow2Ok at hp
  have hd : Super.decode (f.take sizeofSuper) = t.wrap := by rw [h96, decode_encode]
  have e1 : t.wrap.magic = Consts.magic := by simp [Super.wrap, ok.magic]; decide
  have e2 : t.wrap.vMajor = versionMajor := by simp [Super.wrap, ok.vMajor]; decide
  have e3 : t.wrap.vMinor = versionMinor := by simp [Super.wrap, ok.vMinor]; decide
  have e4 : t.wrap.blockSize = 2 ^ log := by simp only [Super.wrap, hbs]; omega
  have e5 : t.wrap.blockLog = log := by simp only [Super.wrap, hbl]; omega
  have e6 : t.wrap.compId = t.compId := by
    have := ok.comp.2; simp only [compMax] at this; simp only [Super.wrap]; omega
  have e7 : t.wrap.idCount = t.idCount := by have := ok.idc.2; simp only [Super.wrap]; omega
  have e8 : t.wrap.bytesUsed = t.bytesUsed := by have := ok.used; simp only [Super.wrap]; omega
  have e9 : t.wrap.idStart = t.idStart := by have := ok.used; have := ok.idlt; simp only [Super.wrap]; omega
  have hsr : superRead f = .ok t.wrap := by
    have := superRead_of_checks f hl (by rw [hd]; exact e1) (by rw [hd]; exact e2) (by rw [hd]; exact e3)
      (by rw [hd, e4]; exact hp.1) (by rw [hd, e4]; exact hp.2.1) (by rw [hd, e4]; exact hp.2.2.1)
      (by rw [hd, e5]; exact ⟨hl1, hl2⟩) (by rw [hd, e4, e5]) (by rw [hd, e6]; exact ok.comp)
      (by rw [hd, e7]; exact Nat.ne_of_gt ok.idc.1)
    rw [this, hd]
  have hid : idTableStage f t.wrap = .ok () := by
    have hn : 8 * tableBlocks (t.idCount * 4) ≠ 0 := by
      have := ok.idc.1
      simp only [tableBlocks, metaBlockSize]
      by_cases h : t.idCount * 4 % 8192 = 0
      · simp only [h, ne_eq, not_true_eq_false, if_false]; omega
      · simp only [h, ne_eq, not_false_eq_true, if_true]; omega
    have hb := ok.idlist
    have hlt := ok.idlt
    have c5 := ok.idc.1
    have hle : t.idStart + 8 * tableBlocks (t.idCount * 4) ≤ f.length := by omega
    have hcond : ¬ (t.idCount = 0 ∨ t.idStart ≥ t.bytesUsed) := by omega
    simp only [idTableStage, e7, e8, e9, readAt, hn, if_false, hcond, hle, if_true]
  simp [readerAccepts, readerVerdict, hsr, hid]

/-- the fields only `sqfs_super_init` sets -/
def Super.head (s : Super) : Nat × Nat × Nat × Nat × Nat × Nat :=
  (s.magic, s.vMajor, s.vMinor, s.blockSize, s.blockLog, s.compId)

theorem serialize_head (r : Run) (s : WState) (sup : Super) : (serialize r s sup).2.head = sup.head := rfl

theorem fragTableWrite_head (cmp : Cmp) (s : WState) (sup : Super) (t : Bytes) (c : Bool) :
    (fragTableWrite cmp s sup t c).2.head = sup.head := by
  unfold fragTableWrite; split <;> rfl

theorem exportTableWrite_head (cmp : Cmp) (s : WState) (sup : Super) (t : Option Bytes) :
    (exportTableWrite cmp s sup t).2.head = sup.head := by
  cases t <;> rfl

theorem xattrFlush_super (cmp : Cmp) (s : WState) (sup : Super) (x : XattrIn) :
    (xattrFlush cmp s sup x).2.head = sup.head ∧ (xattrFlush cmp s sup x).2.idCount = sup.idCount ∧
    (xattrFlush cmp s sup x).2.idStart = sup.idStart := by
  unfold xattrFlush; split <;> exact ⟨rfl, rfl, rfl⟩

theorem tables_id (r : Run) (s : WState) (sup : Super) : ∃ s1 : WState,
    (tables r s sup).2.idCount = r.ids.length % 2 ^ 16 ∧
    (tables r s sup).2.idStart = (writeTable r.cmp s1 (leList 4 r.ids)).2 ∧
    Step (writeTable r.cmp s1 (leList 4 r.ids)).1 (tables r s sup).1 ∧
    (tables r s sup).2.head = sup.head := by
  unfold tables
  simp only
  have hf := fragTableWrite_head r.cmp (serialize r s sup).1 (serialize r s sup).2 r.fragTable r.fragAnyCompressed
  rw [serialize_head] at hf
  generalize fragTableWrite r.cmp (serialize r s sup).1 (serialize r s sup).2 r.fragTable r.fragAnyCompressed = x1 at hf ⊢
  cases hx : r.xattr <;> cases he : r.exportTable <;> simp only
  · exact ⟨x1.1, rfl, rfl, Step.refl _, hf⟩
  · rename_i t
    exact ⟨(exportTableWrite r.cmp x1.1 x1.2 t).1, rfl, rfl, Step.refl _, by
      have := exportTableWrite_head r.cmp x1.1 x1.2 t; rw [hf] at this; exact this⟩
  · rename_i xa
    have hx := xattrFlush_super r.cmp (idTableWrite r.cmp x1.1 x1.2 r.ids).1 (idTableWrite r.cmp x1.1 x1.2 r.ids).2 xa
    exact ⟨x1.1, hx.2.1, hx.2.2, xattrFlush_step _ _ _ _, by rw [hx.1]; exact hf⟩
  · rename_i xa t
    have hx := xattrFlush_super r.cmp (idTableWrite r.cmp (exportTableWrite r.cmp x1.1 x1.2 t).1 (exportTableWrite r.cmp x1.1 x1.2 t).2 r.ids).1
      (idTableWrite r.cmp (exportTableWrite r.cmp x1.1 x1.2 t).1 (exportTableWrite r.cmp x1.1 x1.2 t).2 r.ids).2 xa
    exact ⟨(exportTableWrite r.cmp x1.1 x1.2 t).1, hx.2.1, hx.2.2, xattrFlush_step _ _ _ _, by
      rw [hx.1]
      have := exportTableWrite_head r.cmp x1.1 x1.2 t; rw [hf] at this; exact this⟩

theorem leList_length (n : Nat) (l : List Nat) : (leList n l).length = n * l.length := by
  induction l with
  | nil => simp [leList]
  | cons v r ih => simp [leList, le_length, ih, Nat.mul_add]; omega

theorem tableBlocks_eq (n : Nat) : tableBlocks n = (n + 8191) / 8192 := by
  unfold tableBlocks metaBlockSize
  split <;> omega

theorem tableBlocks_step (len : Nat) (h : len ≠ 0) :
    tableBlocks (len - min metaBlockSize len) + 1 = tableBlocks len := by
  rw [tableBlocks_eq, tableBlocks_eq]
  unfold metaBlockSize
  omega

theorem writeTableLoop_locs (cmp : Cmp) (fuel : Nat) (s : WState) (m : MetaW) (locs : List Nat) (d : Bytes)
    (hf : d.length ≤ fuel) :
    (writeTableLoop cmp fuel s m locs d).2.2.length = locs.length + tableBlocks d.length := by
  induction fuel generalizing s m locs d with
  | zero =>
    have : d.length = 0 := by omega
    simp [writeTableLoop, this, tableBlocks]
  | succ n ih =>
    unfold writeTableLoop
    split
    · rename_i h0; simp [h0, tableBlocks]
    · rename_i h0
      simp only
      rw [ih _ _ _ _ (by simp only [List.length_drop, metaBlockSize]; omega)]
      simp only [List.length_append, List.length_drop, List.length_cons, List.length_nil]
      have := tableBlocks_step d.length h0
      omega

theorem writeTable_size (cmp : Cmp) (s : WState) (p : Bytes) (hok : (writeTable cmp s p).1.err = none) :
    (writeTable cmp s p).1.size = (writeTable cmp s p).2 + 8 * tableBlocks p.length := by
  unfold writeTable at hok ⊢
  simp only at hok ⊢
  have hl := writeTableLoop_locs cmp p.length s {} [] p (Nat.le_refl _)
  generalize writeTableLoop cmp p.length s {} [] p = r at hl hok ⊢
  generalize (metaFlush cmp r.1 r.2.1).1 = s1 at hok ⊢
  have := fWrite_size_of_ok s1 s1.size (leList 8 r.2.2) hok
  rw [this.1, leList_length, hl]
  simp

/-- the file at any crash point from the second superblock write on: second superblock in front, everything
written before it behind, possibly the padding -/
theorem core_suffix_form (p s : Bytes) (mid pad : List Op) (hp : p.length = sizeofSuper) (hs : s.length = sizeofSuper)
    (safe : ∀ o ∈ mid, o.Safe)
    (padOk : pad = [] ∨ ∃ z, pad = [.pwrite (image (.pwrite 0 p :: mid)).length z])
    (k : Nat) (hk : mid.length + 2 ≤ k) :
    ∃ z, image ((Op.pwrite 0 p :: (mid ++ .pwrite 0 s :: pad)).take k) = s ++ (image (.pwrite 0 p :: mid)).drop sizeofSuper ++ z := by
  have hb := image_prov_mid p mid hp safe
  have hX : image (.pwrite 0 p :: mid ++ [.pwrite 0 s]) = s ++ (image (.pwrite 0 p :: mid)).drop sizeofSuper := by
    rw [image_snoc]; simp only [Op.apply]; rw [filePwrite_zero _ _ (by omega), hs]
  have e1 : Op.pwrite 0 p :: (mid ++ .pwrite 0 s :: pad) = (.pwrite 0 p :: mid ++ [.pwrite 0 s]) ++ pad := by simp
  rcases padOk with hpad | ⟨z, hpad⟩
  · refine ⟨[], ?_⟩
    rw [List.take_of_length_le (by rw [hpad]; simp; omega), hpad, ← hX]; simp
  · by_cases hk2 : mid.length + 3 ≤ k
    · refine ⟨z, ?_⟩
      rw [List.take_of_length_le (by rw [hpad]; simp; omega), e1, hpad, image_snoc, hX]
      simp only [Op.apply]
      have hl : (s ++ (image (.pwrite 0 p :: mid)).drop sizeofSuper).length = (image (.pwrite 0 p :: mid)).length := by
        simp [hs]; omega
      rw [← hl, filePwrite_append]
    · refine ⟨[], ?_⟩
      have e2 : (Op.pwrite 0 p :: (mid ++ .pwrite 0 s :: pad)).take k = .pwrite 0 p :: mid ++ [.pwrite 0 s] := by
        rw [e1, List.take_append_of_le_length (by simp; omega)]
        apply List.take_of_length_le; simp; omega
      rw [e2, hX]; simp

structure ValidCfg (r : Run) : Prop where
  block : ∃ log, 12 ≤ log ∧ log ≤ 20 ∧ r.blockSize = 2 ^ log
  comp : compMin ≤ r.compId ∧ r.compId ≤ compMax
  ids : 0 < r.ids.length ∧ r.ids.length < 2 ^ 16

theorem blockLog_pow (log : Nat) (h1 : 12 ≤ log) (h2 : log ≤ 20) : blockLogLoop 64 (2 ^ log) 0 = log := by
  have : log = 12 ∨ log = 13 ∨ log = 14 ∨ log = 15 ∨ log = 16 ∨ log = 17 ∨ log = 18 ∨ log = 19 ∨ log = 20 := by omega
  rcases this with h | h | h | h | h | h | h | h | h <;> rw [h] <;> rfl

theorem superInit_head (bs mt c : Nat) (sup : Super) (h : superInit bs mt c = .ok sup) :
    sup.head = (Consts.magic, versionMajor, versionMinor, bs, blockLogLoop 64 bs 0, c % 2 ^ 16) := by
  unfold superInit at h
  split at h; · contradiction
  split at h; · contradiction
  split at h; · contradiction
  injection h with h; subst h; rfl

theorem wInit_head (r : Run) (sup : Super) (h : superInit r.blockSize r.mtime r.compId = .ok sup) :
    (wInit r).2.head = sup.head := by
  unfold wInit
  rw [h]
  simp only
  split <;> rfl

theorem finalSuper_ok (r : Run) (v : ValidCfg r) (hok : (commit r).err = none) (hsz : (preFinal r).1.size < 2 ^ 64) :
    SuperOk (finalSuper r) := by
  obtain ⟨sup, rest, pad, hsi, g, hpe, hr, hsafe, hops, hpad⟩ := run_ok_ops r hok
  obtain ⟨log, hl1, hl2, hbs⟩ := v.block
  have hh := superInit_head _ _ _ sup hsi
  have hw := wInit_head r sup hsi
  obtain ⟨s1, hic, his, hst, hhd⟩ := tables_id r (inputCheck r (writeDataBlocks (wInit r).1 {} r.blocks).1)
    { (wInit r).2 with inodeCount := r.inodeCount % 2 ^ 32 }
  have hhead : (finalSuper r).head = sup.head := by
    unfold finalSuper preFinal
    simp only
    have : ({ (wInit r).2 with inodeCount := r.inodeCount % 2 ^ 32 } : Super).head = (wInit r).2.head := rfl
    rw [← hw, ← this, ← hhd]; rfl
  have hidc : (finalSuper r).idCount = r.ids.length := by
    unfold finalSuper preFinal; simp only; rw [hic]; have := v.ids.2; omega
  have hids : (finalSuper r).idStart = (writeTable r.cmp s1 (leList 4 r.ids)).2 := by
    unfold finalSuper preFinal; simp only; rw [his]
  have hbu : (finalSuper r).bytesUsed = (preFinal r).1.size := rfl
  have hwok : (writeTable r.cmp s1 (leList 4 r.ids)).1.err = none := hst.err hpe
  have hws := writeTable_size r.cmp s1 (leList 4 r.ids) hwok
  have hmono : (writeTable r.cmp s1 (leList 4 r.ids)).1.size ≤ (preFinal r).1.size := hst.size
  rw [leList_length] at hws
  rw [hh] at hhead
  simp only [Super.head, Prod.mk.injEq] at hhead
  obtain ⟨m1, m2, m3, m4, m5, m6⟩ := hhead
  have hcomp := v.comp
  have hc16 : r.compId % 2 ^ 16 = r.compId := by simp only [compMax] at hcomp; omega
  have htb : tableBlocks (r.ids.length * 4) = tableBlocks (4 * r.ids.length) := by rw [Nat.mul_comm]
  have hpos : 0 < tableBlocks (4 * r.ids.length) := by
    rw [tableBlocks_eq]; have := v.ids.1; omega
  refine ⟨m1, m2, m3, ⟨log, hl1, hl2, by rw [m4, hbs], by rw [m5, hbs, blockLog_pow log hl1 hl2]⟩,
    by rw [m6, hc16]; exact hcomp, by rw [hidc]; exact v.ids, ?_, ?_, by rw [hbu]; exact hsz⟩
  · rw [hids, hbu]; omega
  · rw [hids, hbu, hidc, htb]; omega

theorem final_accepted' (r : Run) (v : ValidCfg r) (hok : (commit r).err = none) (hsz : (preFinal r).1.size < 2 ^ 64)
    (k : Nat) (hk : kFinal r ≤ k) : readerAccepts (image ((run r).ops.take k)) = true := by
  have sok := finalSuper_ok r v hok hsz
  obtain ⟨sup, rest, pad, _, g, _, hr, hsafe, hops, hpad⟩ := run_ok_ops r hok
  unfold kFinal at hk
  rw [hr] at hk
  have hpo : pad = [] ∨ ∃ z, pad = [.pwrite (image (.pwrite 0 sup.encode :: rest)).length z] := by
    rcases hpad with h | ⟨n, h⟩
    · exact Or.inl h
    · exact Or.inr ⟨_, h⟩
  obtain ⟨z, hz⟩ := core_suffix_form sup.encode (finalSuper r).encode rest pad (encode_length _) (encode_length _) hsafe hpo k
    (by simp at hk; omega)
  rw [hops, hz]
  have hB : (image (.pwrite 0 sup.encode :: rest)).length = (preFinal r).1.size := by
    rw [← hr, ← g.file, ← g.size]
  have hge := g.ge
  apply accept_of _ (finalSuper r) _ _ sok
  · rw [List.append_assoc, List.take_append_of_le_length (by rw [encode_length]; exact Nat.le_refl _)]
    rw [← encode_length (finalSuper r), List.take_length]
  · have : (finalSuper r).bytesUsed = (preFinal r).1.size := rfl
    rw [this]
    simp only [List.length_append, List.length_drop, encode_length, hB]
    omega

theorem splitSafe_append (a : List Op) (b : Op) (c : List Op) (ha : ∀ o ∈ a, o.Safe) (hb : ¬ b.Safe) :
    splitSafe (a ++ b :: c) = (a, b :: c) := by
  induction a with
  | nil => simp [splitSafe, hb]
  | cons o r ih =>
    have ho : o.Safe := ha o (by simp)
    simp only [List.cons_append, splitSafe, ho, if_true]
    rw [ih (fun x hx => ha x (by simp [hx]))]

theorem superInit_wrap (bs mt c : Nat) (sup : Super) (h : superInit bs mt c = .ok sup) :
    superInit sup.wrap.blockSize sup.wrap.mtime sup.wrap.compId = .ok sup := by
  unfold superInit at h
  split at h; · contradiction
  split at h; · contradiction
  split at h; · contradiction
  rename_i h1 h2 h3
  injection h with h; subst h
  have hb : bs % 2 ^ 32 = bs := by simp only [maxBlockSize] at h3; omega
  simp only [Super.wrap, hb, Nat.mod_mod]
  unfold superInit
  rw [if_neg h1, if_neg h2, if_neg h3, Nat.mod_mod, Nat.mod_mod]

theorem isProvisional_init (bs mt c : Nat) (sup : Super) (h : superInit bs mt c = .ok sup) :
    isProvisional sup.encode = true := by
  simp only [isProvisional, decode_encode, superInit_wrap bs mt c sup h]
  simp

/-- the log of a successful model run passes the predicate the runner evaluates on the real logs -/
theorem run_shape' (r : Run) (hok : (commit r).err = none) (hsz : (preFinal r).1.size < 2 ^ 64) :
    shapeCheck (run r).ops = true ∧ kFinalOf (run r).ops = kFinal r := by
  obtain ⟨sup, rest, pad, hsi, g, _, hr, hsafe, hops, hpad⟩ := run_ok_ops r hok
  have hns : ¬ (Op.pwrite 0 (finalSuper r).encode).Safe := by simp [Op.Safe, sizeofSuper]
  have hsp := splitSafe_append rest (.pwrite 0 (finalSuper r).encode) pad hsafe hns
  have hB : (image (.pwrite 0 sup.encode :: rest)).length = (preFinal r).1.size := by
    rw [← hr, ← g.file, ← g.size]
  constructor
  · rw [hops]
    simp only [shapeCheck, isProvisional_init _ _ _ sup hsi, hsp, Bool.true_and, encode_length, beq_self_eq_true]
    have hu : (Super.decode (finalSuper r).encode).bytesUsed = (image (.pwrite 0 sup.encode :: rest)).length := by
      rw [decode_encode, hB]
      have : (finalSuper r).bytesUsed = (preFinal r).1.size := rfl
      simp only [Super.wrap, this]; omega
    rw [hu]
    rcases hpad with h | ⟨n, h⟩
    · rw [h]; simp
    · rw [h]; simp [isZeros, zeros]
  · rw [hops]
    unfold kFinalOf kFinal
    rw [List.tail_cons, hsp, hr]; simp

/-! ## Failing runs -/

/-- a run that fails at any step up to and including the final superblock write issues nothing after the calls
made before the failure: its log is that of `preFinal` -/
theorem failing_run_ops (r : Run) (hfail : (commit r).err ≠ none) : (run r).ops = (preFinal r).1.ops := by
  rcases run_ops r with ⟨_, h, h'⟩ | ⟨_, h, _⟩
  · rw [h, h']
  · exact absurd h hfail

/-- … and no crash point of it is accepted -/
theorem failing_run_never_commits' (r : Run) (hfail : (commit r).err ≠ none) (k : Nat) :
    readerAccepts (image ((run r).ops.take k)) = false := by
  by_cases hk : k < kFinal r
  · exact prefix_rejected' r k hk
  · have hl : (run r).ops.length < kFinal r := by rw [failing_run_ops r hfail]; unfold kFinal; omega
    rw [List.take_of_length_le (by omega)]
    have := prefix_rejected' r (run r).ops.length hl
    rwa [List.take_length] at this

/-- every fault position up to and including the final superblock write makes the run fail -/
theorem fault_position_fails' (r : Run) (j : Nat) (hf : r.fault.failAt = some j) (hj : j < kFinal r) :
    (commit r).err ≠ none := by
  unfold kFinal at hj
  obtain ⟨hcfg, hsp⟩ := preFinal_spec r
  cases he : (preFinal r).1.err with
  | some e =>
    have : commit r = (preFinal r).1 := fWrite_of_err _ _ _ (by simp [he])
    rw [this, he]; simp
  | none =>
    rcases hsp with ⟨_, hne⟩ | ⟨sup, _, g⟩
    · exact absurd he hne
    · have hb := g.bound j (by rw [hcfg]; exact hf)
      have hl := encode_length (finalSuper r)
      have hne : (finalSuper r).encode.length ≠ 0 := by rw [hl]; simp [sizeofSuper]
      rcases fWrite_cases (preFinal r).1 0 (finalSuper r).encode he with ⟨_, _, hw⟩ | ⟨hnf, _⟩
      · have : commit r = _ := hw
        rw [this]; simp
      · have := faults_false_failAt (preFinal r).1 _ j (hnf hne) (by rw [hcfg]; exact hf)
        omega

/-- a failure reported by the input side (damaged or truncated input, allocation) makes the run fail -/
theorem inputError_fails' (r : Run) (e : Nat) (h : r.inputError = some e) : (commit r).err ≠ none := by
  have h1 : ∀ s : WState, (inputCheck r s).err ≠ none := by
    intro s
    unfold inputCheck WState.fail
    rw [h]
    simp only
    split
    · rename_i hs; cases hx : s.err <;> simp_all
    · simp
  have h2 : (preFinal r).1.err ≠ none := by
    unfold preFinal
    simp only
    rw [(tables_step r _ _).frozen (h1 _)]
    exact h1 _
  have : commit r = (preFinal r).1 := fWrite_of_err _ _ _ h2
  rw [this]; exact h2

theorem all_safe_of_decide (l : List Op) (h : l.all (fun o => decide o.Safe) = true) : ∀ o ∈ l, o.Safe := by
  intro o ho
  have := List.all_eq_true.mp h o ho
  simpa using this

theorem all_safe_decide (l : List Op) (h : ∀ o ∈ l, o.Safe) : l.all (fun o => decide o.Safe) = true := by
  apply List.all_eq_true.mpr
  intro o ho
  simpa using h o ho

/-- no crash point of a log that has the shape of a failed run is accepted -/
theorem failShape_rejected (ops : List Op) (h : failShapeCheck ops = true) (k : Nat) :
    readerAccepts (image (ops.take k)) = false := by
  unfold failShapeCheck at h
  split at h
  · simp only [List.take_nil]; exact image_nil_rejected
  · rename_i p rest
    simp only [Bool.and_eq_true] at h
    obtain ⟨hp, hs⟩ := h
    obtain ⟨hpl, hid⟩ := isProvisional_spec p hp
    have hsafe := all_safe_of_decide rest hs
    by_cases hk : k ≤ rest.length + 1
    · have := (core_prefix p rest [] hpl hid hsafe k hk).1
      simpa using this
    · rw [List.take_of_length_le (by simp; omega)]
      have := (core_prefix p rest [] hpl hid hsafe (rest.length + 1) (Nat.le_refl _)).1
      rw [List.append_nil, List.take_of_length_le (by simp)] at this
      exact this
  · contradiction

/-- the log of a model run that fails before it commits has the shape the runner checks on the logs of the real
packers' failing runs -/
theorem failing_run_shape' (r : Run) (hfail : (commit r).err ≠ none) : failShapeCheck (run r).ops = true := by
  rw [failing_run_ops r hfail]
  rcases (preFinal_spec r).2 with ⟨h2, _⟩ | ⟨sup, h1, g⟩
  · rw [h2]; rfl
  · obtain ⟨rest, hr, hs⟩ := g.ops
    rw [hr]
    simp only [failShapeCheck, isProvisional_init _ _ _ sup h1, all_safe_decide rest hs, Bool.and_self]

end Sqfs.Writer
