/-
Spec-level facts about link chains (determinism, the three outcomes exclude each other)
and soundness of the repaired `resolve_link` loop against them.
-/
import Sqfs.Proofs.HardLink
namespace Sqfs.HardLink

theorem Step.fun {g : Graph} {i j j' : Nat} (h : Step g i j) (h' : Step g i j') : j = j' := by
  unfold Step at h h'; rw [h] at h'; cases h'; rfl

theorem Chain.trans {g : Graph} {i j k : Nat} (h : Chain g i j) (h' : Chain g j k) : Chain g i k := by
  induction h with
  | refl => exact h'
  | step s _ ih => exact .step s (ih h')

theorem Chain.snoc {g : Graph} {i j k : Nat} (h : Chain g i j) (s : Step g j k) : Chain g i k :=
  h.trans (.step s (.refl k))

theorem NonLink.no_step {g : Graph} {t j : Nat} (h : NonLink g t) (s : Step g t j) : False := by
  unfold Step at s; rcases h with h | h <;> rw [h] at s <;> cases s

theorem NonLink.chain_eq {g : Graph} {t k : Nat} (h : NonLink g t) (c : Chain g t k) : k = t := by
  cases c with
  | refl => rfl
  | step s _ => exact (h.no_step s).elim

/-- chains from one node are linearly ordered (the link graph is a partial function) -/
theorem Chain.linear {g : Graph} {i k k' : Nat} (h : Chain g i k) (h' : Chain g i k') :
    Chain g k k' ∨ Chain g k' k := by
  induction h with
  | refl => exact Or.inl h'
  | step s c ih =>
    cases h' with
    | refl => exact Or.inr (.step s c)
    | step s' c' =>
      have := s.fun s'
      subst this
      exact ih c'

/-- everything reachable from a node on a cycle is a link on that cycle -/
theorem cycle_closed {g : Graph} {k x : Nat} (c : Chain g k x) :
    ∀ m, Step g k m → Chain g m k → (∃ y, Step g x y) ∧ Chain g x k := by
  induction c with
  | refl i => intro m s _; exact ⟨⟨m, s⟩, .refl i⟩
  | step s c ih =>
    intro m sm cm
    have hjm := s.fun sm
    subst hjm
    rename_i i j x
    -- the successor is on the cycle as well
    have hj : ∃ m', Step g j m' ∧ Chain g m' j := by
      cases cm with
      | refl => exact ⟨_, s, .refl _⟩
      | step s' c' => exact ⟨_, s', c'.snoc s⟩
    obtain ⟨m', s', c'⟩ := hj
    obtain ⟨hy, hx⟩ := ih m' s' c'
    exact ⟨hy, hx.trans cm⟩

theorem EndsAt.not_cyclic {g : Graph} {i t : Nat} (h : EndsAt g i t) : ¬ Cyclic g i := by
  rintro ⟨k, m, ck, s, cm⟩
  rcases h.1.linear ck with c | c
  · have := h.2.chain_eq c; subst this; exact h.2.no_step s
  · obtain ⟨⟨y, sy⟩, _⟩ := cycle_closed c m s cm
    exact h.2.no_step sy

theorem EndsAt.not_dangling {g : Graph} {i t : Nat} {e : LErr} (h : EndsAt g i t) : ¬ Dangling g i e := by
  rintro ⟨k, ck, hk⟩
  rcases h.1.linear ck with c | c
  · have := h.2.chain_eq c; subst this
    rcases h.2 with h2 | h2 <;> rw [h2] at hk <;> cases hk
  · cases c with
    | refl => rcases h.2 with h2 | h2 <;> rw [h2] at hk <;> cases hk
    | step s _ => unfold Step at s; rw [hk] at s; cases s

theorem Dangling.not_cyclic {g : Graph} {i : Nat} {e : LErr} (h : Dangling g i e) : ¬ Cyclic g i := by
  obtain ⟨k, ck, hk⟩ := h
  rintro ⟨k', m, ck', s, cm⟩
  rcases ck.linear ck' with c | c
  · cases c with
    | refl => unfold Step at s; rw [hk] at s; cases s
    | step s' _ => unfold Step at s'; rw [hk] at s'; cases s'
  · obtain ⟨⟨y, sy⟩, _⟩ := cycle_closed c m s cm
    unfold Step at sy; rw [hk] at sy; cases sy

theorem EndsAt.unique {g : Graph} {i t t' : Nat} (h : EndsAt g i t) (h' : EndsAt g i t') : t = t' := by
  rcases h.1.linear h'.1 with c | c
  · exact (h.2.chain_eq c).symm
  · exact h'.2.chain_eq c

theorem Dangling.unique {g : Graph} {i : Nat} {e e' : LErr} (h : Dangling g i e) (h' : Dangling g i e') : e = e' := by
  obtain ⟨k, ck, hk⟩ := h
  obtain ⟨k', ck', hk'⟩ := h'
  have : k = k' := by
    rcases ck.linear ck' with c | c
    · cases c with
      | refl => rfl
      | step s _ => unfold Step at s; rw [hk] at s; cases s
    · cases c with
      | refl => rfl
      | step s _ => unfold Step at s; rw [hk'] at s; cases s
  subst this
  rw [hk] at hk'; cases hk'; rfl

/-! ### the loop against the specification -/

/-- what `fstree_resolve_hard_links` maintains between calls of `resolve_link` -/
structure Cons (g : Graph) (links0 : List Nat) (res : Nat → Option Nat) : Prop where
  /-- a recorded resolution is the end of that link's chain -/
  ends : ∀ k t, res k = some t → EndsAt g k t
  /-- every hard link not yet resolved is on the list that was counted on entry -/
  mem : ∀ k tg, g[k]? = some (.hlink tg) → res k = none → k ∈ links0

/-- pigeon-hole: distinct members of `links0` cannot outnumber it -/
theorem nodup_subset_length {l m : List Nat} (hd : l.Nodup) (hs : ∀ x ∈ l, x ∈ m) : l.length ≤ m.length :=
  (List.subperm_of_subset hd (fun x hx => hs x hx)).length_le

theorem loopFix_sound (g : Graph) (links0 : List Nat) (res : Nat → Option Nat) (start : Nat)
    (hc : Cons g links0 res) :
    ∀ fuel node hops (vis : List Nat), Chain g start node → vis.length = hops → (Cyclic g start ∨ vis.Nodup) →
      (∀ v ∈ vis, v ∈ links0) → (∀ v ∈ vis, ∃ m, Step g v m ∧ Chain g m node) →
      (∀ r, loopFix g res start links0.length fuel node hops = .brk r → EndsAt g start r) ∧
      (loopFix g res start links0.length fuel node hops = .err .EMLINK → Cyclic g start) ∧
      (∀ e : LErr, loopFix g res start links0.length fuel node hops = .err e.toErrno → Dangling g start e) ∧
      (loopFix g res start links0.length fuel node hops ≠ .err .EPERM) ∧
      (loopFix g res start links0.length fuel node hops = .badIndex → Escapes g start) := by
  intro fuel
  induction fuel with
  | zero =>
    intro node hops vis _ _ _ _ _
    simp [loopFix]
  | succ f ih =>
    intro node hops vis hch hlen hnd hsub hcyc
    cases hq : g[node]? with
    | none =>
      simp only [loopFix, hq]
      refine ⟨by simp, by simp, by simp, by simp, fun _ => ⟨node, hch, hq⟩⟩
    | some nd =>
      cases nd with
      | other =>
        simp only [loopFix, hq]
        refine ⟨?_, by simp, by simp, by simp, by simp⟩
        intro r hr; cases hr; exact ⟨hch, Or.inl hq⟩
      | dir =>
        simp only [loopFix, hq]
        refine ⟨?_, by simp, by simp, by simp, by simp⟩
        intro r hr; cases hr; exact ⟨hch, Or.inr hq⟩
      | hlink tgt =>
        cases hr : res node with
        | some t =>
          have he := hc.ends node t hr
          by_cases hts : t = start
          · -- a resolved target is never a link, the start is one: this branch reports EMLINK only if `start` is on a cycle
            simp only [loopFix, hq, hr, hts, if_true]
            refine ⟨by simp, ?_, ?_, by simp, by simp⟩
            · intro _
              -- start = t is a non-link reached from start …; then node = start by `chain_eq`, contradiction with hq
              have h1 : NonLink g start := hts ▸ he.2
              have := h1.chain_eq hch
              subst this
              rcases h1 with h1 | h1 <;> rw [h1] at hq <;> cases hq
            · intro e h; cases e <;> cases h
          · simp only [loopFix, hq, hr, hts, if_false]
            have hch' : Chain g start t := hch.trans he.1
            exact ih t hops vis hch' hlen hnd hsub
              (fun v hv => by obtain ⟨m, s, c⟩ := hcyc v hv; exact ⟨m, s, c.trans he.1⟩)
        | none =>
          have hmem : node ∈ links0 := hc.mem node tgt hq hr
          by_cases hh : hops ≥ links0.length
          · simp only [loopFix, hq, hr, hh, if_true]
            refine ⟨by simp, ?_, ?_, by simp, by simp⟩
            · intro _
              -- pigeon-hole: `node :: vis` has more members than `links0`, so `node ∈ vis`, i.e. a cycle
              rcases hnd with hcy | hnd
              · exact hcy
              by_cases hin : node ∈ vis
              · obtain ⟨m, s, c⟩ := hcyc node hin
                exact ⟨node, m, hch, s, c⟩
              · have hnd' : (node :: vis).Nodup := List.nodup_cons.2 ⟨hin, hnd⟩
                have := nodup_subset_length hnd' (fun x hx => by
                  rcases List.mem_cons.1 hx with rfl | hx
                  · exact hmem
                  · exact hsub x hx)
                simp only [List.length_cons] at this
                omega
            · intro e h; cases e <;> cases h
          · cases tgt with
            | fail e =>
              simp only [loopFix, hq, hr, hh, if_false]
              refine ⟨by simp, ?_, ?_, ?_, by simp⟩
              · intro h; cases e <;> cases h
              · intro e' h
                have : e = e' := by cases e <;> cases e' <;> first | rfl | cases h
                subst this
                exact ⟨node, hch, hq⟩
              · intro h; cases e <;> cases h
            | found nx =>
              have hs : Step g node nx := hq
              by_cases hns : nx = start
              · simp only [loopFix, hq, hr, hh, hns, if_false, if_true]
                refine ⟨by simp, ?_, ?_, by simp, by simp⟩
                · intro _
                  exact ⟨node, start, hch, hns ▸ hs, hch⟩
                · intro e h; cases e <;> cases h
              · simp only [loopFix, hq, hr, hh, hns, if_false]
                have hnd' : Cyclic g start ∨ (node :: vis).Nodup := by
                  rcases hnd with hcy | hnd
                  · exact Or.inl hcy
                  · by_cases hin : node ∈ vis
                    · obtain ⟨m, s, c⟩ := hcyc node hin
                      exact Or.inl ⟨node, m, hch, s, c⟩
                    · exact Or.inr (List.nodup_cons.2 ⟨hin, hnd⟩)
                refine ih nx (hops + 1) (node :: vis) (hch.snoc hs) (by simp [hlen]) hnd' ?_ ?_
                · intro x hx
                  rcases List.mem_cons.1 hx with rfl | hx
                  · exact hmem
                  · exact hsub x hx
                · intro x hx
                  rcases List.mem_cons.1 hx with rfl | hx
                  · exact ⟨nx, hs, .refl nx⟩
                  · obtain ⟨m, s, c⟩ := hcyc x hx
                    exact ⟨m, s, c.snoc hs⟩


theorem WF.chain_lt {g : Graph} (hwf : WF g) {i k : Nat} (c : Chain g i k) (hi : i < g.length) : k < g.length := by
  induction c with
  | refl => exact hi
  | step s _ ih => exact ih (hwf _ _ s)

theorem WF.no_escape {g : Graph} (hwf : WF g) {i : Nat} (hi : i < g.length) : ¬ Escapes g i := by
  rintro ⟨k, c, hk⟩
  have := hwf.chain_lt c hi
  simp at hk
  omega

/-- the specification is deterministic: at most one answer is acceptable -/
theorem Expected.unique {g : Graph} {cnt : Nat → Nat} {n : Nat} {o o' : Option Nat × Option Errno}
    (h : Expected g cnt n o) (h' : Expected g cnt n o') : o = o' := by
  have key : ∀ {t t'}, EndsAt g n t → EndsAt g n t' → t = t' := fun a b => a.unique b
  match o, o', h, h' with
  | (some t, none), (some t', none), h, h' => rw [key h.1 h'.1]
  | (some t, none), (none, some .EPERM), h, ⟨t', h1, h2⟩ =>
    have := key h.1 h1; subst this; rw [h.2.1] at h2; cases h2
  | (some t, none), (none, some .EMLINK), h, h' =>
    rcases h' with hc | ⟨t', h1, _, h3⟩
    · exact (h.1.not_cyclic hc).elim
    · have := key h.1 h1; subst this; exact (h.2.2 h3).elim
  | (some t, none), (none, some .ENOENT), h, h' => exact (h.1.not_dangling h').elim
  | (some t, none), (none, some .ENOTDIR), h, h' => exact (h.1.not_dangling h').elim
  | (none, some .EPERM), (some t', none), ⟨t, h1, h2⟩, h' =>
    have := key h1 h'.1; subst this; rw [h'.2.1] at h2; cases h2
  | (none, some .EMLINK), (some t', none), h, h' =>
    rcases h with hc | ⟨t, h1, _, h3⟩
    · exact (h'.1.not_cyclic hc).elim
    · have := key h1 h'.1; subst this; exact (h'.2.2 h3).elim
  | (none, some .ENOENT), (some t', none), h, h' => exact (h'.1.not_dangling h).elim
  | (none, some .ENOTDIR), (some t', none), h, h' => exact (h'.1.not_dangling h).elim
  | (none, some .EPERM), (none, some .EPERM), _, _ => rfl
  | (none, some .EMLINK), (none, some .EMLINK), _, _ => rfl
  | (none, some .ENOENT), (none, some .ENOENT), _, _ => rfl
  | (none, some .ENOTDIR), (none, some .ENOTDIR), _, _ => rfl
  | (none, some .EPERM), (none, some .EMLINK), ⟨t, h1, h2⟩, h' =>
    rcases h' with hc | ⟨t', h1', h2', _⟩
    · exact (h1.not_cyclic hc).elim
    · have := key h1 h1'; subst this; rw [h2] at h2'; cases h2'
  | (none, some .EMLINK), (none, some .EPERM), h, ⟨t, h1, h2⟩ =>
    rcases h with hc | ⟨t', h1', h2', _⟩
    · exact (h1.not_cyclic hc).elim
    · have := key h1 h1'; subst this; rw [h2] at h2'; cases h2'
  | (none, some .EPERM), (none, some .ENOENT), ⟨t, h1, _⟩, h' => exact (h1.not_dangling h').elim
  | (none, some .EPERM), (none, some .ENOTDIR), ⟨t, h1, _⟩, h' => exact (h1.not_dangling h').elim
  | (none, some .ENOENT), (none, some .EPERM), h, ⟨t, h1, _⟩ => exact (h1.not_dangling h).elim
  | (none, some .ENOTDIR), (none, some .EPERM), h, ⟨t, h1, _⟩ => exact (h1.not_dangling h).elim
  | (none, some .EMLINK), (none, some .ENOENT), h, h' =>
    rcases h with hc | ⟨t, h1, _⟩
    · exact (h'.not_cyclic hc).elim
    · exact (h1.not_dangling h').elim
  | (none, some .EMLINK), (none, some .ENOTDIR), h, h' =>
    rcases h with hc | ⟨t, h1, _⟩
    · exact (h'.not_cyclic hc).elim
    · exact (h1.not_dangling h').elim
  | (none, some .ENOENT), (none, some .EMLINK), h', h =>
    rcases h with hc | ⟨t, h1, _⟩
    · exact (h'.not_cyclic hc).elim
    · exact (h1.not_dangling h').elim
  | (none, some .ENOTDIR), (none, some .EMLINK), h', h =>
    rcases h with hc | ⟨t, h1, _⟩
    · exact (h'.not_cyclic hc).elim
    · exact (h1.not_dangling h').elim
  | (none, some .ENOENT), (none, some .ENOTDIR), h, h' => cases Dangling.unique h h'
  | (none, some .ENOTDIR), (none, some .ENOENT), h, h' => cases Dangling.unique h h'
  | (none, none), _, h, _ => exact h.elim
  | (some _, some _), _, h, _ => exact h.elim
  | _, (none, none), _, h => exact h.elim
  | _, (some _, some _), _, h => exact h.elim

/-- the specification looks at the link counts pointwise -/
theorem Expected.congr {g : Graph} {cnt cnt' : Nat → Nat} {n : Nat} {o : Option Nat × Option Errno}
    (h : Expected g cnt n o) (hc : ∀ t, cnt t = cnt' t) : Expected g cnt' n o := by
  have : cnt = cnt' := funext hc
  subst this; exact h

/-- the link counts `resolve_links_exact` names do not depend on the choice of the function `tgt`: the end of a
chain is unique, so any two admissible choices count the same links -/
theorem countP_ends_unique {g : Graph} {pre : List Nat} {tgt tgt' : Nat → Nat}
    (h : ∀ m ∈ pre, EndsAt g m (tgt m)) (h' : ∀ m ∈ pre, EndsAt g m (tgt' m)) (t : Nat) :
    pre.countP (fun m => tgt m = t) = pre.countP (fun m => tgt' m = t) :=
  List.countP_congr (fun x hx => by rw [(h x hx).unique (h' x hx)])

/-- one call of the repaired `resolve_link`, judged against the specification -/
theorem resolveLink_sound (g : Graph) (hwf : WF g) (links0 : List Nat) (st : St) (n : Nat) (hn : n < g.length)
    (hc : Cons g links0 st.resolved) (fuel : Nat) (hf : links0.length + 2 ≤ fuel) :
    match finishLink g st n (loopFix g st.resolved n links0.length fuel n 0) with
    | .ok st' => ∃ t, Expected g st.linkCount n (some t, none) ∧
        st'.resolved = (fun k => if k = n then some t else st.resolved k) ∧
        st'.linkCount = (fun k => if k = t then st.linkCount k + 1 else st.linkCount k)
    | .err e => Expected g st.linkCount n (none, some e)
    | .outOfFuel => False
    | .badIndex => False := by
  have hres : ResOK g st.resolved := fun k t h => (hc.ends k t h).2
  have hfuel := loopFix_fuel g st.resolved n links0.length hres fuel n 0 (by omega)
  obtain ⟨h1, h2, h3, h4, h5⟩ := loopFix_sound g links0 st.resolved n hc fuel n 0 [] (.refl n) rfl
    (Or.inr List.nodup_nil) (by simp) (by simp)
  cases hl : loopFix g st.resolved n links0.length fuel n 0 with
  | outOfFuel => exact (hfuel hl).elim
  | badIndex => exact (hwf.no_escape hn (h5 hl)).elim
  | err e =>
    simp only [finishLink]
    cases e with
    | EMLINK => exact Or.inl (h2 hl)
    | EPERM => exact (h4 hl).elim
    | ENOENT => exact h3 .ENOENT hl
    | ENOTDIR => exact h3 .ENOTDIR hl
  | brk r =>
    have he := h1 r hl
    simp only [finishLink]
    by_cases hd : g[r]? = some Node.dir
    · simp only [hd, if_true]; exact ⟨r, he, hd⟩
    · have ho : g[r]? = some Node.other := by
        rcases he.2 with h | h
        · exact h
        · exact absurd h hd
      by_cases hm : st.linkCount r = linkCountMax
      · simp only [hd, hm, if_true, if_false]; exact Or.inr ⟨r, he, ho, hm⟩
      · simp only [hd, hm, if_false]
        exact ⟨r, ⟨he, ho, hm⟩, rfl, rfl⟩

theorem Cons.update {g : Graph} {links0 : List Nat} {res : Nat → Option Nat} (hc : Cons g links0 res)
    {n t : Nat} (he : EndsAt g n t) : Cons g links0 (fun k => if k = n then some t else res k) where
  ends := by
    intro k t' hk
    by_cases hkn : k = n
    · simp only [hkn, if_true, Option.some.injEq] at hk
      subst hk; subst hkn; exact he
    · simp only [hkn, if_false] at hk
      exact hc.ends k t' hk
  mem := by
    intro k tg hk hr
    by_cases hkn : k = n
    · simp [hkn] at hr
    · simp only [hkn, if_false] at hr
      exact hc.mem k tg hk hr

/-- the whole of the repaired `fstree_resolve_hard_links`, from any consistent state -/
theorem resolveAll_sound (g : Graph) (hwf : WF g) (links0 : List Nat) (fuel : Nat) (hf : links0.length + 2 ≤ fuel) :
    ∀ (rest : List Nat) (st : St), Cons g links0 st.resolved → (∀ n ∈ rest, n < g.length) →
      match resolveAllWith g (fun res n => loopFix g res n links0.length fuel n 0) st rest with
      | .ok st' => Cons g links0 st'.resolved ∧ (∀ k, (st.resolved k).isSome → (st'.resolved k).isSome) ∧
          ∀ n ∈ rest, (st'.resolved n).isSome
      | .err n e => ∃ (pre post : List Nat) (tgt : Nat → Nat), rest = pre ++ n :: post ∧
          (∀ m ∈ pre, EndsAt g m (tgt m) ∧ g[tgt m]? = some .other) ∧
          Expected g (fun t => st.linkCount t + pre.countP (fun m => tgt m = t)) n (none, some e)
      | .outOfFuel => False
      | .badIndex => False := by
  intro rest
  induction rest with
  | nil => intro st hc _; simp only [resolveAllWith]; exact ⟨hc, fun _ h => h, by simp⟩
  | cons n rest ih =>
    intro st hc hlt
    have h1 := resolveLink_sound g hwf links0 st n (hlt n (by simp)) hc fuel hf
    simp only [resolveAllWith]
    cases hfin : finishLink g st n (loopFix g st.resolved n links0.length fuel n 0) with
    | outOfFuel => rw [hfin] at h1; exact h1
    | badIndex => rw [hfin] at h1; exact h1
    | err e =>
      rw [hfin] at h1
      exact ⟨[], rest, fun _ => 0, rfl, by simp, Expected.congr h1 (fun t => by simp)⟩
    | ok st1 =>
      rw [hfin] at h1
      obtain ⟨t, hexp, hr, hlc⟩ := h1
      have hc1 : Cons g links0 st1.resolved := by rw [hr]; exact hc.update hexp.1
      have h2 := ih st1 hc1 (fun m hm => hlt m (List.mem_cons_of_mem _ hm))
      simp only
      cases hrest : resolveAllWith g (fun res n => loopFix g res n links0.length fuel n 0) st1 rest with
      | outOfFuel => rw [hrest] at h2; exact h2
      | badIndex => rw [hrest] at h2; exact h2
      | err m e =>
        rw [hrest] at h2
        obtain ⟨pre, post, tgt, hsplit, hpre, hex⟩ := h2
        -- the link just resolved ends at `t` (and so does every later occurrence of it on the list)
        have htgt : ∀ x ∈ pre, (if x = n then t else tgt x) = tgt x := by
          intro x hx
          by_cases hxn : x = n
          · subst hxn; simp only [if_true]; exact hexp.1.unique (hpre x hx).1
          · simp only [hxn, if_false]
        refine ⟨n :: pre, post, fun x => if x = n then t else tgt x, by simp [hsplit], ?_, Expected.congr hex ?_⟩
        · intro x hx
          rcases List.mem_cons.1 hx with rfl | hx
          · simp only [if_true]; exact ⟨hexp.1, hexp.2.1⟩
          · show EndsAt g x (if x = n then t else tgt x) ∧ g[if x = n then t else tgt x]? = some Node.other
            rw [htgt x hx]; exact hpre x hx
        · intro k
          have hcp : List.countP (fun m => decide ((if m = n then t else tgt m) = k)) pre =
              List.countP (fun m => decide (tgt m = k)) pre :=
            List.countP_congr (fun x hx => by rw [htgt x hx])
          rw [hlc, List.countP_cons, hcp]
          simp only [if_true]
          by_cases hk : k = t
          · subst hk; simp only [if_true, decide_true]; omega
          · have hk' : ¬ t = k := fun h => hk h.symm
            simp only [hk, hk', if_false, decide_false]; simp
      | ok st' =>
        rw [hrest] at h2
        obtain ⟨hc', hmono, hall⟩ := h2
        have hn1 : (st1.resolved n).isSome := by rw [hr]; simp
        refine ⟨hc', ?_, ?_⟩
        · intro k hk
          apply hmono
          rw [hr]; simp only
          split
          · rfl
          · exact hk
        · intro x hx
          rcases List.mem_cons.1 hx with rfl | hx
          · exact hmono _ hn1
          · exact hall x hx

/-! ### the executable classifier used by the check's monitor agrees with the relational specification -/

theorem classify_sound (g : Graph) (hwf : WF g) (start : Nat) :
    ∀ f i (vis : List Nat), Chain g start i → (Cyclic g start ∨ vis.Nodup) → (∀ v ∈ vis, v < g.length) →
      (∀ v ∈ vis, ∃ m, Step g v m ∧ Chain g m i) → vis.length + f = g.length + 1 → i < g.length →
      match classify g f i with
      | .endsAt t => EndsAt g start t
      | .dangling e => Dangling g start e
      | .cyclic => Cyclic g start
      | .escapes => False := by
  intro f
  induction f with
  | zero =>
    intro i vis hch hnd hlt _ hlen _
    simp only [classify]
    rcases hnd with hcy | hnd
    · exact hcy
    · have := nodup_subset_length (m := List.range g.length) hnd (fun x hx => List.mem_range.2 (hlt x hx))
      simp at this; omega
  | succ f ih =>
    intro i vis hch hnd hlt hcyc hlen hi
    cases hq : g[i]? with
    | none => simp at hq; omega
    | some nd =>
      cases nd with
      | other => simp only [classify, hq]; exact ⟨hch, Or.inl hq⟩
      | dir => simp only [classify, hq]; exact ⟨hch, Or.inr hq⟩
      | hlink tgt =>
        cases tgt with
        | fail e => simp only [classify, hq]; exact ⟨i, hch, hq⟩
        | found j =>
          simp only [classify, hq]
          have hs : Step g i j := hq
          have hnd' : Cyclic g start ∨ (i :: vis).Nodup := by
            rcases hnd with hcy | hnd
            · exact Or.inl hcy
            · by_cases hin : i ∈ vis
              · obtain ⟨m, s, c⟩ := hcyc i hin
                exact Or.inl ⟨i, m, hch, s, c⟩
              · exact Or.inr (List.nodup_cons.2 ⟨hin, hnd⟩)
          refine ih j (i :: vis) (hch.snoc hs) hnd' ?_ ?_ (by simp; omega) (hwf _ _ hs)
          · intro x hx
            rcases List.mem_cons.1 hx with rfl | hx
            · exact hi
            · exact hlt x hx
          · intro x hx
            rcases List.mem_cons.1 hx with rfl | hx
            · exact ⟨j, hs, .refl j⟩
            · obtain ⟨m, s, c⟩ := hcyc x hx
              exact ⟨m, s, c.snoc hs⟩

end Sqfs.HardLink
