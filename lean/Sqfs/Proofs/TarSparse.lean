/-
Sparse expansion: the region walk of `iterator.c` computes the specification for every well-formed map.
-/
import Sqfs.Spec.TarSparse
import Mathlib.Tactic.Ring
namespace Sqfs.Tar

def AllBehind (l : List (Nat × Nat)) (pos : Nat) : Prop := ∀ e ∈ l, e.1 + e.2 ≤ pos

theorem wf_bounds (pos : Nat) (t : List (Nat × Nat)) (F : Nat) (h : WellFormedMap pos t F) :
    pos ≤ F ∧ ∀ e ∈ t, pos ≤ e.1 ∧ e.1 + e.2 ≤ F := by
  induction t generalizing pos with
  | nil => exact ⟨h, by simp⟩
  | cons e t ih =>
    obtain ⟨o, c⟩ := e
    obtain ⟨h1, h2⟩ := h
    obtain ⟨h3, h4⟩ := ih (o + c) h2
    refine ⟨by omega, ?_⟩
    intro e he
    rcases List.mem_cons.1 he with rfl | he
    · simp only; omega
    · have := h4 e he; omega

theorem dataRegion_behind (done rest : List (Nat × Nat)) (pos : Nat) (h : AllBehind done pos) :
    dataRegion pos (done ++ rest) = dataRegion pos rest := by
  induction done with
  | nil => rfl
  | cons e t ih =>
    obtain ⟨o, c⟩ := e
    have he : o + c ≤ pos := h (o, c) (by simp)
    have hn : ¬ (pos ≥ o ∧ pos - o < c) := by omega
    simp only [List.cons_append, dataRegion, hn, if_false]
    exact ih (fun e he => h e (List.mem_cons_of_mem _ he))

theorem dataRegion_ahead (t : List (Nat × Nat)) (pos : Nat) (h : ∀ e ∈ t, pos < e.1 ∨ e.2 = 0) :
    dataRegion pos t = none := by
  induction t with
  | nil => rfl
  | cons e t ih =>
    obtain ⟨o, c⟩ := e
    have he := h (o, c) (by simp)
    have hn : ¬ (pos ≥ o ∧ pos - o < c) := by simp only at he; omega
    simp only [dataRegion, hn, if_false]
    exact ih (fun e he => h e (List.mem_cons_of_mem _ he))

theorem holeRegion_noop (t : List (Nat × Nat)) (pos cnt : Nat) (h : ∀ e ∈ t, e.1 ≤ pos ∨ cnt ≤ e.1 - pos) :
    holeRegion pos cnt t = cnt := by
  induction t with
  | nil => rfl
  | cons e t ih =>
    obtain ⟨o, c⟩ := e
    have he := h (o, c) (by simp)
    have hn : ¬ (pos < o ∧ o - pos < cnt) := by simp only at he; omega
    simp only [holeRegion, hn, if_false]
    exact ih (fun e he => h e (List.mem_cons_of_mem _ he))

theorem holeRegion_append (a b : List (Nat × Nat)) (pos cnt : Nat) :
    holeRegion pos cnt (a ++ b) = holeRegion pos (holeRegion pos cnt a) b := by
  induction a generalizing cnt with
  | nil => rfl
  | cons e t ih => obtain ⟨o, c⟩ := e; simp only [List.cons_append, holeRegion]; exact ih _

theorem zeros_add (a b : Nat) : zeros (a + b) = zeros a ++ zeros b := by
  unfold zeros; rw [List.replicate_append_replicate]

/-- all entries of `done` lie behind `pos`: the map walk only sees `rest` -/
theorem region_hole (done : List (Nat × Nat)) (o c : Nat) (t : List (Nat × Nat)) (pos F : Nat)
    (hb : AllBehind done pos) (hlt : pos < o) (hoF : o ≤ F) (ht : ∀ e ∈ t, o + c ≤ e.1) :
    isSparseRegion (done ++ (o, c) :: t) F pos = (true, o - pos) := by
  unfold isSparseRegion
  have hne : (done ++ (o, c) :: t).isEmpty = false := by cases done <;> rfl
  rw [hne]
  simp only [Bool.false_eq_true, if_false]
  rw [dataRegion_behind _ _ _ hb]
  have hd : dataRegion pos ((o, c) :: t) = none := by
    apply dataRegion_ahead
    intro e he
    rcases List.mem_cons.1 he with rfl | he
    · left; exact hlt
    · left; have := ht e he; omega
  rw [hd]
  simp only
  rw [holeRegion_append]
  have h1 : holeRegion pos (F - pos) done = F - pos := by
    apply holeRegion_noop
    intro e he; left; have := hb e he; omega
  rw [h1]
  by_cases hF : o - pos < F - pos
  · simp only [holeRegion, hlt, hF, and_self, if_true]
    rw [holeRegion_noop]
    intro e he; right; have := ht e he; omega
  · have hoF' : o = F := by omega
    subst hoF'
    have hn : ¬ (pos < o ∧ o - pos < o - pos) := by omega
    simp only [holeRegion, hn, if_false]
    rw [holeRegion_noop]
    intro e he; right; have := ht e he; omega

theorem region_data (done : List (Nat × Nat)) (o c : Nat) (t : List (Nat × Nat)) (F : Nat)
    (hb : AllBehind done o) (hc : 0 < c) :
    isSparseRegion (done ++ (o, c) :: t) F o = (false, c) := by
  unfold isSparseRegion
  have hne : (done ++ (o, c) :: t).isEmpty = false := by cases done <;> rfl
  rw [hne]
  simp only [Bool.false_eq_true, if_false]
  rw [dataRegion_behind _ _ _ hb]
  have : (o ≥ o ∧ o - o < c) := by omega
  simp only [dataRegion, this, and_self, if_true]
  congr 1
  omega

theorem region_tail (done : List (Nat × Nat)) (pos F : Nat) (hne : done ≠ [])
    (hb : AllBehind done pos) :
    isSparseRegion done F pos = (true, F - pos) := by
  unfold isSparseRegion
  have hne' : done.isEmpty = false := by cases done <;> simp_all
  rw [hne']
  simp only [Bool.false_eq_true, if_false]
  have hd : dataRegion pos done = none := by
    have := dataRegion_behind done [] pos hb
    simpa [dataRegion] using this
  rw [hd]
  simp only
  congr 1
  apply holeRegion_noop
  intro e he; left; have := hb e he; omega

theorem allBehind_mono (l : List (Nat × Nat)) (p q : Nat) (h : AllBehind l p) (hpq : p ≤ q) : AllBehind l q :=
  fun e he => Nat.le_trans (h e he) hpq

theorem allBehind_snoc (l : List (Nat × Nat)) (o c p : Nat) (h : AllBehind l p) (hoc : o + c ≤ p) :
    AllBehind (l ++ [(o, c)]) p := by
  intro e he
  rcases List.mem_append.1 he with he | he
  · exact h e he
  · simp only [List.mem_singleton] at he; subst he; exact hoc

/-- one step of `expandLoop` spelled out -/
theorem expandLoop_step (map : List (Nat × Nat)) (F f offset rsz : Nat) (s acc : Bytes) :
    expandLoop map F (f + 1) offset rsz s acc =
      if offset ≥ F then ⟨acc, s, rsz, .eof⟩
      else
        if (isSparseRegion map F offset).2 = 0 then ⟨acc, s, rsz, .eof⟩
        else if (isSparseRegion map F offset).1 then
          expandLoop map F f (offset + (isSparseRegion map F offset).2) rsz s (acc ++ zeros (isSparseRegion map F offset).2)
        else
          if s.isEmpty then ⟨acc, s, rsz, .corrupted⟩
          else
            expandLoop map F f (offset + (s.take (isSparseRegion map F offset).2).length)
              ((rsz + U64 - (s.take (isSparseRegion map F offset).2).length % U64) % U64)
              (s.drop (s.take (isSparseRegion map F offset).2).length) (acc ++ s.take (isSparseRegion map F offset).2) := by
  rfl

theorem expandLoop_wf (todo : List (Nat × Nat)) :
    ∀ (done : List (Nat × Nat)) (pos F fuel rsz : Nat) (s acc : Bytes),
      done ++ todo ≠ [] → AllBehind done pos → WellFormedMap pos todo F →
      dataBytes todo ≤ s.length → dataBytes todo ≤ rsz → rsz < U64 → 2 * todo.length + 2 ≤ fuel →
      expandLoop (done ++ todo) F fuel pos rsz s acc =
        ⟨acc ++ specExpand pos todo F s, s.drop (dataBytes todo), rsz - dataBytes todo, .eof⟩ := by
  induction todo with
  | nil =>
    intro done pos F fuel rsz s acc hne hb hwf _ _ _ hfuel
    simp only [List.append_nil] at hne ⊢
    have hwf' : pos ≤ F := hwf
    obtain ⟨f, rfl⟩ : ∃ f, fuel = f + 1 := ⟨fuel - 1, by simp at hfuel; omega⟩
    rw [expandLoop_step]
    simp only [specExpand, dataBytes, List.drop_zero, Nat.sub_zero]
    by_cases hge : pos ≥ F
    · rw [if_pos hge]
      have : F - pos = 0 := by omega
      simp [this, zeros]
    · rw [if_neg hge, region_tail done pos F hne hb]
      simp only
      have hn : ¬ (F - pos = 0) := by omega
      rw [if_neg hn]
      simp only [if_true]
      obtain ⟨f', rfl⟩ : ∃ f', f = f' + 1 := ⟨f - 1, by simp at hfuel; omega⟩
      rw [expandLoop_step]
      have : pos + (F - pos) ≥ F := by omega
      rw [if_pos this]
  | cons e t ih =>
    obtain ⟨o, c⟩ := e
    intro done pos F fuel rsz s acc _ hb hwf hs hr hr64 hfuel
    obtain ⟨hpo, hwft⟩ := hwf
    obtain ⟨hocF, htb⟩ := wf_bounds (o + c) t F hwft
    simp only [dataBytes] at hs hr ⊢
    simp only [List.length_cons] at hfuel
    have hassoc : done ++ (o, c) :: t = (done ++ [(o, c)]) ++ t := by simp
    -- the walk once `offset = o`
    have hat : ∀ (fuel' : Nat) (acc' : Bytes), 2 * t.length + 3 ≤ fuel' →
        expandLoop (done ++ (o, c) :: t) F fuel' o rsz s acc' =
          ⟨acc' ++ (s.take c ++ specExpand (o + c) t F (s.drop c)), s.drop (c + dataBytes t), rsz - (c + dataBytes t), .eof⟩ := by
      intro fuel' acc' hf'
      by_cases hc : c = 0
      · subst hc
        have := ih (done ++ [(o, 0)]) o F fuel' rsz s acc' (by simp)
          (allBehind_snoc _ _ _ _ (allBehind_mono _ _ _ hb hpo) (by omega))
          (by simpa using hwft) (by omega) (by omega) hr64 (by omega)
        rw [hassoc, this]
        simp
      · obtain ⟨f, rfl⟩ : ∃ f, fuel' = f + 1 := ⟨fuel' - 1, by omega⟩
        rw [expandLoop_step]
        have hlt : ¬ o ≥ F := by omega
        rw [if_neg hlt, region_data done o c t F (allBehind_mono _ _ _ hb hpo) (by omega)]
        simp only
        rw [if_neg hc]
        simp only [Bool.false_eq_true, if_false]
        have hsne : s.isEmpty = false := by
          cases s with
          | nil => simp at hs; omega
          | cons _ _ => rfl
        rw [hsne]
        simp only [Bool.false_eq_true, if_false]
        have hlen : (s.take c).length = c := by simp; omega
        rw [hlen]
        have hrsz : (rsz + U64 - c % U64) % U64 = rsz - c := by
          simp only [U64] at hr64 ⊢; omega
        rw [hrsz]
        have := ih (done ++ [(o, c)]) (o + c) F f (rsz - c) (s.drop c) (acc' ++ s.take c) (by simp)
          (allBehind_snoc _ _ _ _ (allBehind_mono _ _ _ hb (by omega)) (Nat.le_refl _))
          hwft (by simp; omega) (by omega) (by omega) (by omega)
        rw [hassoc, this]
        have e1 : (s.drop c).drop (dataBytes t) = s.drop (c + dataBytes t) := by rw [List.drop_drop]
        have e2 : rsz - c - dataBytes t = rsz - (c + dataBytes t) := by omega
        rw [e1, e2, List.append_assoc]
    by_cases heq : pos = o
    · subst heq
      have := hat fuel acc (by omega)
      rw [this]
      simp [specExpand, zeros]
    · have hlt : pos < o := by omega
      obtain ⟨f, rfl⟩ : ∃ f, fuel = f + 1 := ⟨fuel - 1, by omega⟩
      rw [expandLoop_step]
      have hnF : ¬ pos ≥ F := by omega
      rw [if_neg hnF, region_hole done o c t pos F hb hlt (by omega) (fun e he => (htb e he).1)]
      simp only
      have hn0 : ¬ (o - pos = 0) := by omega
      rw [if_neg hn0]
      simp only [if_true]
      have hpo' : pos + (o - pos) = o := by omega
      rw [hpo', hat f _ (by omega)]
      simp [specExpand, List.append_assoc]

end Sqfs.Tar
