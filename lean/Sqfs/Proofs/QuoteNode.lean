/-
Helper lemmas for C16: the path printed for a node, `handle_line` on a well-formed token list.
-/
import Sqfs.Proofs.QuoteLine
namespace Sqfs.Quote
open Sqfs.Path (Bytes joinSlash splitSlash canonicalize)
set_option linter.unusedSimpArgs false

/-! ### `sqfs_tree_node_get_path` + `canonicalize_name` -/

theorem foldr_getPath (comps : List Bytes) (hne : comps ≠ []) :
    comps.foldr (fun c acc => SL :: c ++ acc) [] = SL :: joinSlash comps := by
  induction comps with
  | nil => exact absurd rfl hne
  | cons a r ih =>
    cases r with
    | nil => simp [joinSlash]
    | cons b r' =>
      have := ih (by simp)
      simp only [List.foldr_cons] at this ⊢
      rw [this]
      simp [joinSlash]

theorem imgName_props {c : Bytes} (h : ImgName c) :
    (c = [] || c.contains SL || c = [46] || c = [46, 46]) = false := by
  obtain ⟨h1, h2, h3, h4, _⟩ := h
  have : c.contains SL = false := by simpa using h4
  simp [h1, h2, h3, h4]

theorem canon_abs_join_img (comps : List Bytes) (hne : comps ≠ []) (h : ∀ c ∈ comps, ImgName c) :
    canonicalize (SL :: joinSlash comps) = some (joinSlash comps) := by
  rw [Sqfs.C18.canon_eq_spec]
  unfold Sqfs.Path.specCanon
  have hsf : ∀ c ∈ comps, Sqfs.Path.SlashFree c := fun c hc => (h c hc).2.2.2.1
  have hs : splitSlash (SL :: joinSlash comps) = [] :: comps := by
    have : splitSlash (SL :: joinSlash comps) = [] :: splitSlash (joinSlash comps) := by
      simp [splitSlash]
    rw [this, Sqfs.Path.splitSlash_joinSlash comps hne hsf]
  rw [hs]
  have hdd : ¬ ([Sqfs.Path.DOT, Sqfs.Path.DOT] : Bytes) ∈ ([] :: comps) := by
    intro m
    rcases List.mem_cons.1 m with e | m
    · exact absurd e (by simp)
    · exact (h _ m).2.2.1 rfl
  simp only [hdd, if_false]
  congr 1
  have hk : ([] :: comps).filter Sqfs.Path.keep = comps := by
    have k0 : Sqfs.Path.keep [] = false := by decide
    rw [List.filter_cons_of_neg (by simp [k0])]
    apply List.filter_eq_self.2
    intro c hc
    obtain ⟨h1, h2, _⟩ := h c hc
    simp [Sqfs.Path.keep, Sqfs.Path.isNE_iff.2 h1, Sqfs.Path.notDot_iff.2 h2]
  rw [hk]

theorem canon_abs_join (comps : List Bytes) (hne : comps ≠ []) (h : ∀ c ∈ comps, GoodName c) :
    canonicalize (SL :: joinSlash comps) = some (joinSlash comps) :=
  canon_abs_join_img comps hne (fun c hc => (h c hc).img)

theorem nodePath_img (comps : List Bytes) (h : ∀ c ∈ comps, ImgName c) :
    nodePath comps = .ok (joinSlash comps) := by
  unfold nodePath getPath
  by_cases hne : comps = []
  · subst hne
    have : canonicalize [SL] = some [] := by decide
    simp [this, joinSlash]
  · have hany : comps.any (fun c => c = [] || c.contains SL || c = [46] || c = [46, 46]) = false := by
      rw [List.any_eq_false]
      intro c hc
      simp only [imgName_props (h c hc)]
      decide
    simp only [hne, if_false, hany, Bool.false_eq_true]
    rw [foldr_getPath comps hne, canon_abs_join_img comps hne h]

theorem nodePath_good (comps : List Bytes) (h : ∀ c ∈ comps, GoodName c) :
    nodePath comps = .ok (joinSlash comps) :=
  nodePath_img comps (fun c hc => (h c hc).img)

theorem joinSlash_ne_nil (comps : List Bytes) (hne : comps ≠ []) (h : ∀ c ∈ comps, GoodName c) :
    joinSlash comps ≠ [] := by
  cases comps with
  | nil => exact absurd rfl hne
  | cons a r =>
    have : a ≠ [] := (h a (by simp)).1
    cases r <;> simp [joinSlash, this]

theorem safe_joinSlash (comps : List Bytes) (h : ∀ c ∈ comps, GoodName c) : Safe (joinSlash comps) := by
  induction comps with
  | nil => intro c hc; simp [joinSlash] at hc
  | cons a r ih =>
    have ha : Safe a := fun c hc => ⟨fun e => (h a (by simp)).2.2.2.2.1 (e ▸ hc), fun e => (h a (by simp)).2.2.2.2.2 (e ▸ hc)⟩
    cases r with
    | nil => simpa [joinSlash] using ha
    | cons b r' =>
      simp only [joinSlash]
      exact Safe.append ha (Safe.cons (by decide) (by decide) (ih (fun c hc => h c (by simp [hc]))))

/-- the path token as printed (`/` for the root) canonicalises back to the path -/
theorem canon_printed_path (comps : List Bytes) (h : ∀ c ∈ comps, GoodName c) :
    canonicalize (if joinSlash comps = [] then [SL] else joinSlash comps) = some (joinSlash comps) := by
  by_cases hne : comps = []
  · subst hne; decide
  · have hj := joinSlash_ne_nil comps hne h
    simp only [hj, if_false]
    exact Sqfs.C18.canon_idempotent _ _ (canon_abs_join comps hne h)

/-! ### `handle_line` -/

theorem handleLine_known (opt : Opt) (h : Hook) (kw p' p m u g : Bytes) (rest : List Bytes) (mode uid gid : Nat)
    (hk : findHook kw hooks = some h) (hp : canonicalize p' = some p) (hroot : p ≠ [] ∨ h.allowRoot = true)
    (hm : parseNum 8 0 0o7777 m = .ok mode) (hu : parseNum 10 0 0x0FFFFFFFF u = .ok uid)
    (hg : parseNum 10 0 0x0FFFFFFFF g = .ok gid) (hex : h.needExtra = true → rest ≠ [])
    (hku : opt.keepUid = true) (hkg : opt.keepGid = true) :
    handleLine opt (kw :: p' :: m :: u :: g :: rest) =
      match h.cb with
      | .generic => addGeneric { name := p, mode := mode ||| h.mode, uid := uid, gid := gid, rdev := 0, extra := none, flags := h.flags } rest
      | .device => addDevice { name := p, mode := mode ||| h.mode, uid := uid, gid := gid, rdev := 0, extra := none, flags := h.flags } rest
      | .file => addFile { name := p, mode := mode ||| h.mode, uid := uid, gid := gid, rdev := 0, extra := none, flags := h.flags } rest := by
  have hr : (p = [] && !(false || h.allowRoot)) = false := by
    rcases hroot with h1 | h1
    · simp [h1]
    · simp [h1]
  have hx : (h.needExtra && decide (rest = [])) = false := by
    cases hne : h.needExtra with
    | false => simp
    | true => simp [hex hne]
  simp only [handleLine, hk, hp, hm, hu, hg, hku, hkg, Option.isNone_some, Bool.false_and, Bool.not_false,
    Bool.false_eq_true, if_false, if_true, Option.map_some, Option.getD_some, hr, hx]
  cases h.cb <;> rfl

end Sqfs.Quote
