/-
Helper lemmas for C18 (path canonicalisation).  Property theorems live in
`Sqfs/Props/C18.lean`.
-/
import Sqfs.Spec.Path
namespace Sqfs.Path
set_option linter.unusedSimpArgs false

/-- a component: no slash inside -/
def SlashFree (c : Bytes) : Prop := SL ∉ c

@[simp] theorem isNE_nil : isNE [] = false := rfl
theorem isNE_of_ne {c : Bytes} (h : c ≠ []) : isNE c = true := by
  cases c with
  | nil => exact absurd rfl h
  | cons _ _ => rfl
theorem isNE_iff {c : Bytes} : isNE c = true ↔ c ≠ [] := by
  cases c <;> simp [isNE]

/-! ### split / join -/

theorem splitSlash_ne_nil (s : Bytes) : splitSlash s ≠ [] := by
  cases s with
  | nil => simp [splitSlash]
  | cons c t =>
    unfold splitSlash
    split
    · simp
    · split <;> simp

theorem splitSlash_slashFree {c : Bytes} (h : SlashFree c) : splitSlash c = [c] := by
  induction c with
  | nil => rfl
  | cons x t ih =>
    have hx : x ≠ SL := by intro e; apply h; simp [e]
    have ht : SlashFree t := by intro m; apply h; simp [m]
    simp [splitSlash, hx, ih ht]

theorem splitSlash_append {c : Bytes} (h : SlashFree c) (rest : Bytes) :
    splitSlash (c ++ SL :: rest) = c :: splitSlash rest := by
  induction c with
  | nil => simp [splitSlash]
  | cons x t ih =>
    have hx : x ≠ SL := by intro e; apply h; simp [e]
    have ht : SlashFree t := by intro m; apply h; simp [m]
    simp [splitSlash, hx, ih ht]

theorem joinSlash_cons (c : Bytes) (ks : List Bytes) :
    joinSlash (c :: ks) = c ++ (match ks with | [] => [] | _ :: _ => SL :: joinSlash ks) := by
  cases ks <;> simp [joinSlash]

/-- components of any string are slash free, and joining them gives the string back -/
theorem splitSlash_spec (s : Bytes) :
    (∀ c ∈ splitSlash s, SlashFree c) ∧ joinSlash (splitSlash s) = s := by
  induction s with
  | nil => simp [splitSlash, joinSlash, SlashFree]
  | cons x t ih =>
    obtain ⟨ih1, ih2⟩ := ih
    by_cases hx : x = SL
    · subst hx
      have hne := splitSlash_ne_nil t
      constructor
      · intro c hc
        simp [splitSlash] at hc
        rcases hc with rfl | hc
        · simp [SlashFree]
        · exact ih1 c hc
      · simp only [splitSlash, if_true]
        cases hsp : splitSlash t with
        | nil => exact absurd hsp hne
        | cons a r => rw [hsp] at ih2; simp [joinSlash, ih2]
    · cases hsp : splitSlash t with
      | nil => exact absurd hsp (splitSlash_ne_nil t)
      | cons a r =>
        rw [hsp] at ih1 ih2
        have hsplit : splitSlash (x :: t) = (x :: a) :: r := by
          simp [splitSlash, hx, hsp]
        rw [hsplit]
        constructor
        · intro c hc
          simp at hc
          rcases hc with rfl | hc
          · intro m
            simp at m
            rcases m with m | m
            · exact hx m.symm
            · exact ih1 a (by simp) m
          · exact ih1 c (by simp [hc])
        · rw [joinSlash_cons] at ih2 ⊢
          simp [ih2]

/-- splitting a join of non-empty list of slash-free components gives the components -/
theorem splitSlash_joinSlash (ks : List Bytes) (hne : ks ≠ [])
    (hsf : ∀ c ∈ ks, SlashFree c) : splitSlash (joinSlash ks) = ks := by
  induction ks with
  | nil => exact absurd rfl hne
  | cons c r ih =>
    cases r with
    | nil => simpa [joinSlash] using splitSlash_slashFree (hsf c (by simp))
    | cons d r' =>
      simp only [joinSlash]
      rw [splitSlash_append (hsf c (by simp))]
      rw [ih (by simp) (fun x hx => hsf x (by simp [hx]))]

/-! ### `normalize_slashes` -/

theorem normGo_slash (st p : Bool) (rest : Bytes) :
    normGo st p (SL :: rest) = normGo st true rest := by
  simp [normGo]

theorem normGo_comp {c : Bytes} (h : SlashFree c) (hne : c ≠ []) (st p : Bool) (rest : Bytes) :
    normGo st p (c ++ rest) = (if st && p then [SL] else []) ++ c ++ normGo true false rest := by
  induction c generalizing st p with
  | nil => exact absurd rfl hne
  | cons x t ih =>
    have hx : x ≠ SL := by intro e; apply h; simp [e]
    have ht : SlashFree t := by intro m; apply h; simp [m]
    by_cases htn : t = []
    · subst htn
      cases st <;> cases p <;> simp [normGo, hx]
    · have := ih ht htn true false
      cases st <;> cases p <;> simp [normGo, hx, this]

/-- output prefix of `normGo` in state (st, pending = true) on a component list -/
def pre (st : Bool) : List Bytes → Bytes
  | [] => []
  | ks => (if st then [SL] else []) ++ joinSlash ks

theorem normGo_join_pending (st : Bool) (cs : List Bytes) (hne : cs ≠ [])
    (hsf : ∀ c ∈ cs, SlashFree c) :
    normGo st true (joinSlash cs) = pre st (cs.filter isNE) := by
  induction cs generalizing st with
  | nil => exact absurd rfl hne
  | cons c r ih =>
    have hc := hsf c (by simp)
    have hr : ∀ x ∈ r, SlashFree x := fun x hx => hsf x (by simp [hx])
    cases r with
    | nil =>
      by_cases hcn : c = []
      · subst hcn; simp [joinSlash, normGo, pre]
      · have := normGo_comp hc hcn st true []
        simp only [List.append_nil] at this
        simp [joinSlash, this, normGo, pre, isNE_of_ne hcn]
    | cons d r' =>
      simp only [joinSlash]
      by_cases hcn : c = []
      · subst hcn
        simp only [List.nil_append, normGo_slash]
        rw [ih st (by simp) hr]
        simp
      · rw [normGo_comp hc hcn, normGo_slash, ih true (by simp) hr]
        have hf : (c :: d :: r').filter isNE = c :: (d :: r').filter isNE := by
          simp [isNE_of_ne hcn]
        rw [hf]
        cases hfr : (d :: r').filter isNE with
        | nil => simp [pre, joinSlash]
        | cons e r'' => cases st <;> simp [pre, joinSlash_cons]

theorem normalizeSlashes_eq (s : Bytes) :
    normalizeSlashes s = joinSlash ((splitSlash s).filter isNE) := by
  obtain ⟨hsf, hj⟩ := splitSlash_spec s
  have hne := splitSlash_ne_nil s
  generalize splitSlash s = cs at hsf hj hne
  subst hj
  unfold normalizeSlashes
  cases cs with
  | nil => exact absurd rfl hne
  | cons c r =>
    have hc := hsf c (by simp)
    have hr : ∀ x ∈ r, SlashFree x := fun x hx => hsf x (by simp [hx])
    cases r with
    | nil =>
      by_cases hcn : c = []
      · subst hcn; simp [joinSlash, normGo]
      · have := normGo_comp hc hcn false false []
        simp only [List.append_nil] at this
        simp [joinSlash, this, normGo, isNE_of_ne hcn]
    | cons d r' =>
      simp only [joinSlash]
      by_cases hcn : c = []
      · subst hcn
        simp only [List.nil_append, normGo_slash]
        rw [normGo_join_pending false _ (by simp) hr]
        have hf0 : ([] :: d :: r').filter isNE = (d :: r').filter isNE := by simp
        rw [hf0]
        cases hfr : (d :: r').filter isNE with
        | nil => simp [pre, joinSlash]
        | cons e r'' => simp [pre]

      · rw [normGo_comp hc hcn, normGo_slash, normGo_join_pending true _ (by simp) hr]
        have hf : (c :: d :: r').filter isNE = c :: (d :: r').filter isNE := by
          simp [isNE_of_ne hcn]
        rw [hf]
        cases hfr : (d :: r').filter isNE with
        | nil => simp [pre, joinSlash]
        | cons e r'' => simp [pre, joinSlash_cons]

/-! ### main loop of `canonicalize_name` -/

/-- the inner copy loop on a slash-free run followed by end or a slash -/
theorem canonGo_copy {c : Bytes} (h : SlashFree c) (rest : Bytes) :
    canonGo false (c ++ SL :: rest) = (canonGo true rest).map (fun o => c ++ SL :: o) ∧
    canonGo false c = some c := by
  induction c with
  | nil =>
    constructor
    · simp [canonGo]
    · simp [canonGo]
  | cons x t ih =>
    have hx : x ≠ SL := by intro e; apply h; simp [e]
    have ht : SlashFree t := by intro m; apply h; simp [m]
    obtain ⟨ih1, ih2⟩ := ih ht
    constructor
    · simp [canonGo, hx, ih1, Option.map_map, Function.comp_def]
    · simp [canonGo, hx, ih2]

/-- at a component start, a component that is neither "." nor ".." is just copied -/
theorem canonGo_start_plain {c : Bytes} (h : SlashFree c) (hne : c ≠ [])
    (hd : c ≠ [DOT]) (hdd : c ≠ [DOT, DOT]) (tail : Bytes)
    (htail : tail = [] ∨ ∃ r, tail = SL :: r) :
    canonGo true (c ++ tail) = canonGo false (c ++ tail) := by
  have h46 : ((46 : UInt8) = SL) = False := by decide
  have h' : ∀ x ∈ c, x ≠ SL := fun x hx e => h (e ▸ hx)
  clear h
  rcases htail with rfl | ⟨r, rfl⟩
  · match c with
    | [] => exact absurd rfl hne
    | [x] =>
      have : x ≠ 46 := by intro e; subst e; exact hd rfl
      simp_all [canonGo, Function.comp_def]
    | [x, y] =>
      by_cases hx : x = 46
      · have : y ≠ 46 := by intro e; subst e; subst hx; exact hdd rfl
        simp_all [canonGo, Function.comp_def]
      · simp_all [canonGo, Function.comp_def]
    | x :: y :: z :: t =>
      by_cases hx : x = 46
      · by_cases hy : y = 46
        · simp_all [canonGo, Function.comp_def]
        · simp_all [canonGo, Function.comp_def]
      · simp_all [canonGo, Function.comp_def]
  · match c with
    | [] => exact absurd rfl hne
    | [x] =>
      have : x ≠ 46 := by intro e; subst e; exact hd rfl
      cases r <;> simp_all [canonGo, Function.comp_def]
    | [x, y] =>
      by_cases hx : x = 46
      · have : y ≠ 46 := by intro e; subst e; subst hx; exact hdd rfl
        simp_all [canonGo, Function.comp_def]
      · simp_all [canonGo, Function.comp_def]
    | x :: y :: z :: t =>
      by_cases hx : x = 46
      · by_cases hy : y = 46
        · simp_all [canonGo, Function.comp_def]
        · simp_all [canonGo, Function.comp_def]
      · simp_all [canonGo, Function.comp_def]

theorem canonGo_dotslash (rest : Bytes) : canonGo true (DOT :: SL :: rest) = canonGo true rest := by
  cases rest <;> simp [canonGo]

theorem canonGo_dotdotslash (rest : Bytes) : canonGo true (DOT :: DOT :: SL :: rest) = none := by
  have h46 : ((46 : UInt8) = SL) = False := by decide
  simp [canonGo, h46]

/-- a list of non-empty, slash-free components: what `normalize_slashes` leaves -/
def Norm (ks : List Bytes) : Prop := ∀ c ∈ ks, SlashFree c ∧ c ≠ []

/-- raw output of the main loop (before the second `normalize_slashes`) on a component list -/
def outC : List Bytes → Bytes
  | [] => []
  | [c] => if c = [DOT] then [] else c
  | c :: d :: r => if c = [DOT] then outC (d :: r) else c ++ SL :: outC (d :: r)

theorem canonGo_join (ks : List Bytes) (h : Norm ks) :
    canonGo true (joinSlash ks) = if [DOT, DOT] ∈ ks then none else some (outC ks) := by
  induction ks with
  | nil => simp [joinSlash, canonGo, outC]
  | cons c r ih =>
    obtain ⟨hc, hcn⟩ := h c (by simp)
    have hr : Norm r := fun x hx => h x (by simp [hx])
    cases r with
    | nil =>
      simp only [joinSlash, outC]
      by_cases hd : c = [DOT]
      · subst hd; simp [canonGo]
      · by_cases hdd : c = [DOT, DOT]
        · subst hdd
          have h46 : ((46 : UInt8) = SL) = False := by decide
          simp [canonGo, h46]
        · have := canonGo_start_plain hc hcn hd hdd [] (Or.inl rfl)
          simp only [List.append_nil] at this
          rw [this, (canonGo_copy hc []).2]
          simp [hd, Ne.symm hdd]
    | cons d r' =>
      simp only [joinSlash, outC]
      have ih := ih hr
      by_cases hd : c = [DOT]
      · subst hd
        have : ([DOT] : Bytes) ++ SL :: joinSlash (d :: r') = DOT :: SL :: joinSlash (d :: r') := rfl
        rw [this, canonGo_dotslash, ih]
        have : ([DOT, DOT] : Bytes) ∈ [DOT] :: d :: r' ↔ [DOT, DOT] ∈ d :: r' := by
          simp
        simp only [this, if_true]
      · by_cases hdd : c = [DOT, DOT]
        · subst hdd
          have : ([DOT, DOT] : Bytes) ++ SL :: joinSlash (d :: r') = DOT :: DOT :: SL :: joinSlash (d :: r') := rfl
          rw [this, canonGo_dotdotslash]
          simp
        · rw [canonGo_start_plain hc hcn hd hdd _ (Or.inr ⟨_, rfl⟩), (canonGo_copy hc _).1, ih]
          have : ([DOT, DOT] : Bytes) ∈ c :: d :: r' ↔ [DOT, DOT] ∈ d :: r' := by
            constructor
            · intro m
              rcases List.mem_cons.1 m with e | m
              · exact absurd e.symm hdd
              · exact m
            · intro m; exact List.mem_cons_of_mem _ m
          simp only [this, hd, if_false]
          split <;> simp

theorem notDot_iff {c : Bytes} : notDot c = true ↔ c ≠ [DOT] := by
  simp [notDot]

/-- the second `normalize_slashes` sees exactly the components that are not "." -/
theorem split_outC (ks : List Bytes) (h : Norm ks) :
    (splitSlash (outC ks)).filter isNE = ks.filter notDot := by
  induction ks with
  | nil => simp [outC, splitSlash]
  | cons c r ih =>
    obtain ⟨hc, hcn⟩ := h c (by simp)
    have hr : Norm r := fun x hx => h x (by simp [hx])
    cases r with
    | nil =>
      simp only [outC]
      by_cases hd : c = [DOT]
      · subst hd; simp [splitSlash, notDot]
      · simp [hd, splitSlash_slashFree hc, isNE_of_ne hcn, notDot_iff.2 hd]
    | cons d r' =>
      simp only [outC]
      have ih := ih hr
      by_cases hd : c = [DOT]
      · subst hd
        simp only [if_true, ih]
        simp [notDot]
      · simp only [hd, if_false]
        rw [splitSlash_append hc]
        simp [isNE_of_ne hcn, notDot_iff.2 hd, ih]

theorem norm_filter_split (s : Bytes) : Norm ((splitSlash s).filter isNE) := by
  intro c hc
  obtain ⟨h1, h2⟩ := List.mem_filter.1 hc
  exact ⟨(splitSlash_spec s).1 c h1, isNE_iff.1 h2⟩

theorem joinSlash_length_filter (p : Bytes → Bool) (cs : List Bytes) :
    (joinSlash (cs.filter p)).length ≤ (joinSlash cs).length := by
  induction cs with
  | nil => simp
  | cons c r ih =>
    by_cases hp : p c = true
    · rw [List.filter_cons_of_pos hp, joinSlash_cons, joinSlash_cons]
      cases r with
      | nil => simp
      | cons d r' =>
        cases hf : (d :: r').filter p with
        | nil => simp
        | cons e r'' =>
          rw [hf] at ih
          simp at ih ⊢
          omega
    · rw [List.filter_cons_of_neg hp, joinSlash_cons]
      cases r with
      | nil => simp [joinSlash]
      | cons d r' => simp at ih ⊢; omega

/-- splitting distributes over a slash, wherever it stands -/
theorem splitSlash_at_slash (a b : Bytes) : splitSlash (a ++ SL :: b) = splitSlash a ++ splitSlash b := by
  induction a with
  | nil => simp [splitSlash]
  | cons x a ih =>
    by_cases hx : x = SL
    · subst hx; simp only [List.cons_append, splitSlash, if_true, ih]
    · simp only [List.cons_append, splitSlash, if_neg hx, ih]
      cases hsp : splitSlash a with
      | nil => exact absurd hsp (splitSlash_ne_nil _)
      | cons h r => simp

theorem joinSlash_filter_sublist (p : Bytes → Bool) (cs : List Bytes) :
    (joinSlash (cs.filter p)).Sublist (joinSlash cs) := by
  induction cs with
  | nil => simp
  | cons c r ih =>
    by_cases hp : p c = true
    · rw [List.filter_cons_of_pos hp, joinSlash_cons, joinSlash_cons]
      cases r with
      | nil => simp
      | cons d r' =>
        cases hf : (d :: r').filter p with
        | nil => simp
        | cons e r'' =>
          rw [hf] at ih
          exact List.Sublist.append (List.Sublist.refl _) (List.Sublist.cons_cons _ ih)
    · rw [List.filter_cons_of_neg hp, joinSlash_cons]
      cases r with
      | nil => simp [joinSlash]
      | cons d r' => exact (ih.cons _).trans (List.sublist_append_right _ _)


end Sqfs.Path
