/-
Helper lemmas for C12: the transforming streams of lib/xfrm (model `Sqfs/Model/XfrmStream.lean`) inherit
script independence from the file streams they wrap, for every codec.
-/
import Sqfs.Proofs.IoIdeal
import Sqfs.Model.XfrmStream
namespace Sqfs.IoLoops
open Sqfs.IoLoops.Spec

/-- transforming streams over related wrapped streams, with the same codec state and buffer -/
def XRel {σ τ κ : Type} (R : σ → τ → Prop) (x : XStream σ κ) (y : XStream τ κ) : Prop :=
  R x.wrapped y.wrapped ∧ x.k = y.k ∧ x.off = y.off ∧ x.buf = y.buf

theorem xPrecacheLoop_sim {σ τ κ : Type} {I : StreamI σ} {J : StreamI τ} {R : σ → τ → Prop} (hs : Sim I J R)
    (C : Codec κ) (BX : Nat) :
    ∀ (fuel : Nat) (s : σ) (t : τ) (k : κ) (buf : Bytes) (os osj : OS), R s t → noHard os.sc = true →
    ∃ s' os', xPrecacheLoop I C BX fuel s k buf os =
        ((xPrecacheLoop J C BX fuel t k buf osj).1, s', (xPrecacheLoop J C BX fuel t k buf osj).2.2.1,
          (xPrecacheLoop J C BX fuel t k buf osj).2.2.2.1, os') ∧
      R s' (xPrecacheLoop J C BX fuel t k buf osj).2.1 ∧ noHard os'.sc = true ∧
      (xPrecacheLoop J C BX fuel t k buf osj).2.2.2.2 = osj := by
  intro fuel
  induction fuel with
  | zero => intro s t k buf os osj hr hn; exact ⟨s, os, rfl, hr, hn, rfl⟩
  | succ fuel ih =>
    intro s t k buf os osj hr hn
    unfold xPrecacheLoop
    obtain ⟨s1, os1, hg, hr1, hn1⟩ := hs.get s t BX os hr hn
    rw [hg, hs.pure t BX osj]
    generalize J.get t BX OS.full = jr at *
    obtain ⟨r, w, t1, o1⟩ := jr
    simp only at hr1 ⊢
    cases r with
    | fail e => exact ⟨s1, os1, rfl, hr1, hn1, rfl⟩
    | eof =>
      simp only []
      simp only [decide_true]
      generalize C.proc k w (BX - buf.length) true = pr
      obtain ⟨k', consumed, produced, res⟩ := pr
      cases res with
      | error => exact ⟨s1, os1, rfl, hr1, hn1, rfl⟩
      | ok =>
        simp only []
        split
        · exact ⟨_, os1, rfl, hs.adv _ _ _ hr1, hn1, rfl⟩
        · simp only [if_true]
          exact ⟨_, os1, rfl, hs.adv _ _ _ hr1, hn1, trivial⟩
      | end_ =>
        simp only []
        split
        · exact ⟨_, os1, rfl, hs.adv _ _ _ hr1, hn1, rfl⟩
        · simp only [if_true]
          exact ⟨_, os1, rfl, hs.adv _ _ _ hr1, hn1, trivial⟩
      | bufferFull =>
        simp only []
        split
        · exact ⟨_, os1, rfl, hs.adv _ _ _ hr1, hn1, rfl⟩
        · simp only [if_true]
          exact ⟨_, os1, rfl, hs.adv _ _ _ hr1, hn1, trivial⟩
    | ok =>
      simp only []
      have hdec : decide (GRet.ok = GRet.eof) = false := by decide
      simp only [hdec]
      generalize C.proc k w (BX - buf.length) false = pr
      obtain ⟨k', consumed, produced, res⟩ := pr
      cases res with
      | error => exact ⟨s1, os1, rfl, hr1, hn1, rfl⟩
      | ok =>
        simp only []
        split
        · exact ⟨_, os1, rfl, hs.adv _ _ _ hr1, hn1, rfl⟩
        · simp only [Bool.false_eq_true, if_false]
          exact ih _ _ _ _ os1 osj (hs.adv _ _ _ hr1) hn1
      | end_ =>
        simp only []
        split
        · exact ⟨_, os1, rfl, hs.adv _ _ _ hr1, hn1, rfl⟩
        · simp only [Bool.false_eq_true, if_false]
          exact ih _ _ _ _ os1 osj (hs.adv _ _ _ hr1) hn1
      | bufferFull =>
        simp only []
        split
        · exact ⟨_, os1, rfl, hs.adv _ _ _ hr1, hn1, rfl⟩
        · simp only [Bool.false_eq_true, if_false]
          exact ih _ _ _ _ os1 osj (hs.adv _ _ _ hr1) hn1

theorem xPrecacheLoop_pure {σ τ κ : Type} {I : StreamI σ} {J : StreamI τ} {R : σ → τ → Prop} (hs : Sim I J R)
    (C : Codec κ) (BX : Nat) :
    ∀ (fuel : Nat) (t : τ) (k : κ) (buf : Bytes) (osj : OS),
    xPrecacheLoop J C BX fuel t k buf osj =
      ((xPrecacheLoop J C BX fuel t k buf OS.full).1, (xPrecacheLoop J C BX fuel t k buf OS.full).2.1,
       (xPrecacheLoop J C BX fuel t k buf OS.full).2.2.1, (xPrecacheLoop J C BX fuel t k buf OS.full).2.2.2.1, osj) := by
  intro fuel
  induction fuel with
  | zero => intro t k buf osj; rfl
  | succ fuel ih =>
    intro t k buf osj
    unfold xPrecacheLoop
    rw [hs.pure t BX osj]
    have hf := hs.pure t BX OS.full
    generalize J.get t BX OS.full = jr at *
    obtain ⟨r, w, t1, o1⟩ := jr
    simp only [Prod.mk.injEq] at hf
    obtain ⟨_, _, _, ho1⟩ := hf
    subst ho1
    simp only []
    cases r with
    | fail e => rfl
    | eof =>
      simp only [decide_true]
      generalize C.proc k w (BX - buf.length) true = pr
      obtain ⟨k', consumed, produced, res⟩ := pr
      cases res <;> simp only [] <;> (try rfl) <;> split <;> (try rfl) <;> simp only [if_true]
    | ok =>
      have hdec : decide (GRet.ok = GRet.eof) = false := by decide
      simp only [hdec]
      generalize C.proc k w (BX - buf.length) false = pr
      obtain ⟨k', consumed, produced, res⟩ := pr
      cases res <;> simp only [] <;> (try rfl) <;> split <;> (try rfl) <;>
        (simp only [Bool.false_eq_true, if_false]; exact ih _ _ _ _)

theorem xfrm_sim {σ τ κ : Type} {I : StreamI σ} {J : StreamI τ} {R : σ → τ → Prop} (hs : Sim I J R)
    (C : Codec κ) (BX limit : Nat) :
    Sim (xfrmStream I C BX limit) (xfrmStream J C BX limit) (XRel R) where
  get := by
    intro x y want os hr hn
    obtain ⟨hr1, hk, hoff, hbuf⟩ := hr
    simp only [xfrmStream, xGet]
    rw [← hk, ← hoff, ← hbuf]
    generalize (if want > BX then BX else want) = w
    by_cases hc : x.buf.length = 0 ∨ x.buf.length - x.off < w
    · simp only [hc, if_true]
      obtain ⟨s', os', h1, hr', hn', ho⟩ := xPrecacheLoop_sim hs C BX limit x.wrapped y.wrapped x.k (x.buf.drop x.off) os OS.full hr1 hn
      rw [h1]
      generalize xPrecacheLoop J C BX limit y.wrapped x.k (x.buf.drop x.off) OS.full = jr at *
      obtain ⟨e, t', k', buf', oj⟩ := jr
      simp only at hr' ho ⊢
      cases e <;> exact ⟨_, os', rfl, ⟨hr', rfl, rfl, rfl⟩, hn'⟩
    · simp only [hc, if_false]
      exact ⟨x, os, rfl, ⟨hr1, hk, hoff, hbuf⟩, hn⟩
  pure := by
    intro y want osj
    simp only [xfrmStream, xGet]
    generalize (if want > BX then BX else want) = w
    by_cases hc : y.buf.length = 0 ∨ y.buf.length - y.off < w
    · simp only [hc, if_true]
      rw [xPrecacheLoop_pure hs C BX limit y.wrapped y.k (y.buf.drop y.off) osj]
      have hf := xPrecacheLoop_pure hs C BX limit y.wrapped y.k (y.buf.drop y.off) OS.full
      generalize xPrecacheLoop J C BX limit y.wrapped y.k (y.buf.drop y.off) OS.full = jr at *
      obtain ⟨e, t', k', buf', oj⟩ := jr
      cases e <;> rfl
    · simp only [hc, if_false]
  adv := by
    intro x y n hr
    obtain ⟨hr1, hk, hoff, hbuf⟩ := hr
    exact ⟨hr1, hk, by simp [xfrmStream, xAdv, hoff], hbuf⟩
  bound := fun _ _ _ => rfl

theorem xFlushLoop_indep {κ : Type} (C : Codec κ) (BX : Nat) (finish : Bool) :
    ∀ (fuel : Nat) (o : OStream) (k : κ) (rest : Bytes) (os osj : OS), noHard os.sc = true → noHard osj.sc = true →
    ∃ os', xFlushLoop C BX finish fuel o k rest os =
        ((xFlushLoop C BX finish fuel o k rest osj).1, (xFlushLoop C BX finish fuel o k rest osj).2.1,
         (xFlushLoop C BX finish fuel o k rest osj).2.2.1, (xFlushLoop C BX finish fuel o k rest osj).2.2.2.1, os') ∧
      noHard os'.sc = true ∧ noHard (xFlushLoop C BX finish fuel o k rest osj).2.2.2.2.sc = true := by
  intro fuel
  induction fuel with
  | zero => intro o k rest os osj hn hj; exact ⟨os, rfl, hn, hj⟩
  | succ fuel ih =>
    intro o k rest os osj hn hj
    unfold xFlushLoop
    by_cases hc : finish = true ∨ rest.length > 0
    · simp only [hc, if_true]
      generalize C.proc k rest BX finish = pr
      obtain ⟨k', consumed, produced, res⟩ := pr
      obtain ⟨os1, ha, hn1⟩ := fileAppend_det o produced produced.length rfl os hn
      obtain ⟨oj1, hb, hj1⟩ := fileAppend_det o produced produced.length rfl osj hj
      cases res with
      | error => exact ⟨os, rfl, hn, hj⟩
      | end_ => simp only [ha, hb, if_true]; exact ⟨os1, rfl, hn1, hj1⟩
      | ok =>
        simp only [ha, hb]
        have : ¬ (XRes.ok = XRes.end_) := by decide
        simp only [this, if_false]
        exact ih _ _ _ os1 oj1 hn1 hj1
      | bufferFull =>
        simp only [ha, hb]
        have : ¬ (XRes.bufferFull = XRes.end_) := by decide
        simp only [this, if_false]
        exact ih _ _ _ os1 oj1 hn1 hj1
    · simp only [hc, if_false]; exact ⟨os, rfl, hn, hj⟩

theorem xFlushInbuf_indep {κ : Type} (C : Codec κ) (BX limit : Nat) (x : XOStream κ) (finish : Bool) (os osj : OS)
    (hn : noHard os.sc = true) (hj : noHard osj.sc = true) :
    ∃ os', xFlushInbuf C BX limit x finish os =
        ((xFlushInbuf C BX limit x finish osj).1, (xFlushInbuf C BX limit x finish osj).2.1, os') ∧
      noHard os'.sc = true ∧ noHard (xFlushInbuf C BX limit x finish osj).2.2.sc = true := by
  unfold xFlushInbuf
  obtain ⟨os', h, hn', hj'⟩ := xFlushLoop_indep C BX finish limit x.o x.k x.inbuf os osj hn hj
  rw [h]
  generalize xFlushLoop C BX finish limit x.o x.k x.inbuf osj = jr at *
  obtain ⟨e, o', k', rest, oj⟩ := jr
  cases e <;> exact ⟨os', rfl, hn', hj'⟩

theorem xAppendLoop_indep {κ : Type} (C : Codec κ) (BX limit : Nat) :
    ∀ (fuel : Nat) (x : XOStream κ) (data : Bytes) (os osj : OS), noHard os.sc = true → noHard osj.sc = true →
    ∃ os', xAppendLoop C BX limit fuel x data os =
        ((xAppendLoop C BX limit fuel x data osj).1, (xAppendLoop C BX limit fuel x data osj).2.1, os') ∧
      noHard os'.sc = true ∧ noHard (xAppendLoop C BX limit fuel x data osj).2.2.sc = true := by
  intro fuel
  induction fuel with
  | zero => intro x data os osj hn hj; exact ⟨os, rfl, hn, hj⟩
  | succ fuel ih =>
    intro x data os osj hn hj
    unfold xAppendLoop
    by_cases h0 : data.length = 0
    · simp only [h0, if_true]; exact ⟨os, rfl, hn, hj⟩
    · simp only [h0, if_false]
      by_cases hfull : x.inbuf.length ≥ BX
      · simp only [hfull, if_true]
        obtain ⟨os', h, hn', hj'⟩ := xFlushInbuf_indep C BX limit x false os osj hn hj
        rw [h]
        generalize xFlushInbuf C BX limit x false osj = jr at *
        obtain ⟨e, x', oj⟩ := jr
        cases e with
        | ok => simp only []; exact ih _ _ os' oj hn' hj'
        | io => exact ⟨os', rfl, hn', hj'⟩
        | oob => exact ⟨os', rfl, hn', hj'⟩
        | compressor => exact ⟨os', rfl, hn', hj'⟩
        | fuel => exact ⟨os', rfl, hn', hj'⟩
        | corrupted => exact ⟨os', rfl, hn', hj'⟩
        | nullDeref => exact ⟨os', rfl, hn', hj'⟩
      · simp only [hfull, if_false]
        exact ih _ _ os osj hn hj

theorem fileFlush_det (st : OStream) (os : OS) (hn : noHard os.sc = true) :
    ∃ os', fileFlush st os = (.ok, realizeRes st, os') ∧ noHard os'.sc = true :=
  realizeSparse_det st os hn

theorem xFlush_indep {κ : Type} (C : Codec κ) (BX limit : Nat) (x : XOStream κ) (os osj : OS)
    (hn : noHard os.sc = true) (hj : noHard osj.sc = true) :
    ∃ os', xFlush C BX limit x os = ((xFlush C BX limit x osj).1, (xFlush C BX limit x osj).2.1, os') ∧
      noHard os'.sc = true ∧ noHard (xFlush C BX limit x osj).2.2.sc = true := by
  unfold xFlush
  by_cases hi : x.inbuf.length > 0
  · simp only [hi, if_true]
    obtain ⟨os', h, hn', hj'⟩ := xFlushInbuf_indep C BX limit x true os osj hn hj
    rw [h]
    generalize xFlushInbuf C BX limit x true osj = jr at *
    obtain ⟨e, x', oj⟩ := jr
    cases e with
    | ok =>
      simp only []
      obtain ⟨os2, ha, hn2⟩ := fileFlush_det x'.o os' hn'
      obtain ⟨oj2, hb, hj2⟩ := fileFlush_det x'.o oj hj'
      rw [ha, hb]
      exact ⟨os2, rfl, hn2, hj2⟩
    | io => exact ⟨os', rfl, hn', hj'⟩
    | oob => exact ⟨os', rfl, hn', hj'⟩
    | compressor => exact ⟨os', rfl, hn', hj'⟩
    | fuel => exact ⟨os', rfl, hn', hj'⟩
    | corrupted => exact ⟨os', rfl, hn', hj'⟩
    | nullDeref => exact ⟨os', rfl, hn', hj'⟩
  · simp only [hi, if_false]
    obtain ⟨os2, ha, hn2⟩ := fileFlush_det x.o os hn
    obtain ⟨oj2, hb, hj2⟩ := fileFlush_det x.o osj hj
    rw [ha, hb]
    exact ⟨os2, rfl, hn2, hj2⟩

theorem xStep_indep {κ : Type} (C : Codec κ) (BX limit : Nat) (x : XOStream κ) (op : OOp) (os osj : OS)
    (hn : noHard os.sc = true) (hj : noHard osj.sc = true) :
    ∃ os', xStep C BX limit x op os = ((xStep C BX limit x op osj).1, (xStep C BX limit x op osj).2.1, os') ∧
      noHard os'.sc = true ∧ noHard (xStep C BX limit x op osj).2.2.sc = true := by
  cases op with
  | data d => exact xAppendLoop_indep C BX limit _ x d os osj hn hj
  | hole n => exact xAppendLoop_indep C BX limit _ x _ os osj hn hj
  | flush => exact xFlush_indep C BX limit x os osj hn hj

theorem xRunOOps_indep {κ : Type} (C : Codec κ) (BX limit : Nat) :
    ∀ (ops : List OOp) (idx : Nat) (x : XOStream κ) (os osj : OS), noHard os.sc = true → noHard osj.sc = true →
    (xRunOOps C BX limit idx x ops os).1 = (xRunOOps C BX limit idx x ops osj).1 ∧
    (xRunOOps C BX limit idx x ops os).2.1 = (xRunOOps C BX limit idx x ops osj).2.1 := by
  intro ops
  induction ops with
  | nil => intro idx x os osj _ _; exact ⟨rfl, rfl⟩
  | cons op ops ih =>
    intro idx x os osj hn hj
    unfold xRunOOps
    obtain ⟨os', h, hn', hj'⟩ := xStep_indep C BX limit x op os osj hn hj
    rw [h]
    generalize xStep C BX limit x op osj = jr at *
    obtain ⟨e, x', oj⟩ := jr
    cases e with
    | ok => simp only []; exact ih _ _ os' oj hn' hj'
    | io => exact ⟨rfl, rfl⟩
    | oob => exact ⟨rfl, rfl⟩
    | compressor => exact ⟨rfl, rfl⟩
    | fuel => exact ⟨rfl, rfl⟩
    | corrupted => exact ⟨rfl, rfl⟩
    | nullDeref => exact ⟨rfl, rfl⟩

end Sqfs.IoLoops
