import Sqfs.Model.MemPool
/-! Helper lemmas for `Sqfs/Props/MemPool.lean`: bit-level reading of the bitmap scans and updates. -/
namespace Sqfs.MemPool

theorem scanBits_some {w : Word} : ∀ {n j k : Nat}, scanBits w n j = some k → j ≤ k ∧ k < j + n ∧ w.getLsbD k = false
  | 0, j, k, h => by simp [scanBits] at h
  | n + 1, j, k, h => by
    unfold scanBits at h
    split at h
    · cases h; exact ⟨Nat.le_refl _, by omega, by assumption⟩
    · have := scanBits_some h; exact ⟨by omega, by omega, this.2.2⟩

theorem scanBits_none {w : Word} : ∀ {n j : Nat}, scanBits w n j = none → ∀ k, j ≤ k → k < j + n → w.getLsbD k = true
  | 0, j, _, k, h1, h2 => by omega
  | n + 1, j, h, k, h1, h2 => by
    unfold scanBits at h
    split at h
    · cases h
    · rename_i hj
      by_cases hk : k = j
      · subst hk; simpa using hj
      · exact scanBits_none h k (by omega) (by omega)

/-- a word below `UINT_MAX` has a clear bit, and the bit scan finds one -/
theorem scanBits_of_lt (w : Word) (h : w.toNat < UINT_MAX) : ∃ j, scanBits w 32 0 = some j := by
  cases hs : scanBits w 32 0 with
  | some j => exact ⟨j, rfl⟩
  | none =>
    exfalso
    have hall := scanBits_none hs
    have : w = BitVec.allOnes 32 := by
      apply BitVec.eq_of_getLsbD_eq
      intro i hi
      show w.getLsbD i = (BitVec.allOnes 32).getLsbD i
      rw [hall i (Nat.zero_le _) (by omega), BitVec.getLsbD_allOnes]
      simp [hi]
    subst this
    simp [UINT_MAX] at h

theorem scanWords_some : ∀ {bm : List Word} {i : Nat}, scanWords bm = some i → i < bm.length ∧ (bm.getD i 0).toNat < UINT_MAX
  | [], i, h => by simp [scanWords] at h
  | w :: ws, i, h => by
    unfold scanWords at h
    split at h
    · cases h; simpa
    · cases hs : scanWords ws with
      | none => simp [hs] at h
      | some k =>
        simp [hs] at h; subst h
        have := scanWords_some hs
        simpa using this

theorem scanWords_none : ∀ {bm : List Word}, scanWords bm = none → ∀ i, i < bm.length → bm.getD i 0 = BitVec.allOnes 32
  | [], _, i, hi => by simp at hi
  | w :: ws, h, i, hi => by
    unfold scanWords at h
    split at h
    · cases h
    · rename_i hw
      cases hs : scanWords ws with
      | some k => simp [hs] at h
      | none =>
        cases i with
        | zero =>
          simp
          have : w.toNat = 4294967295 := by have := w.isLt; simp [UINT_MAX] at hw; omega
          apply BitVec.eq_of_toNat_eq; simp [this]
        | succ i => simpa using scanWords_none hs i (by simpa using hi)

/-! ### bitAt under set / clear -/

theorem bitAt_setBit {bm : List Word} {i j : Nat} (hi : i < bm.length) (hj : j < 32) (k : Nat) :
    bitAt (setBit bm i j) k = (decide (k = 32 * i + j) || bitAt bm k) := by
  unfold bitAt setBit
  by_cases hk : k / 32 = i
  · subst hk
    rw [List.getD_eq_getElem?_getD, List.getElem?_set_self hi]
    simp only [Option.getD_some, BitVec.getLsbD_or, BitVec.getLsbD_twoPow]
    have h32 : k % 32 < 32 := Nat.mod_lt _ (by decide)
    by_cases hkj : k % 32 = j
    · have : k = 32 * (k / 32) + j := by omega
      simp [hkj, hj, ← this, Bool.or_comm]
    · have : ¬ k = 32 * (k / 32) + j := by omega
      have hjk : ¬ j = k % 32 := fun h => hkj h.symm
      simp [this, hjk]
  · have : ¬ k = 32 * i + j := by omega
    rw [List.getD_eq_getElem?_getD, List.getElem?_set_ne (fun h => hk h.symm)]
    simp [this, List.getD_eq_getElem?_getD]

theorem bitAt_clearBit {bm : List Word} {i j : Nat} (hi : i < bm.length) (hj : j < 32) (k : Nat) :
    bitAt (clearBit bm i j) k = (!decide (k = 32 * i + j) && bitAt bm k) := by
  unfold bitAt clearBit
  by_cases hk : k / 32 = i
  · subst hk
    rw [List.getD_eq_getElem?_getD, List.getElem?_set_self hi]
    have h32 : k % 32 < 32 := Nat.mod_lt _ (by decide)
    simp only [Option.getD_some, BitVec.getLsbD_and, BitVec.getLsbD_not, BitVec.getLsbD_twoPow, h32, decide_true, Bool.true_and]
    by_cases hkj : k % 32 = j
    · have : k = 32 * (k / 32) + j := by omega
      simp [hkj, hj, ← this]
    · have : ¬ k = 32 * (k / 32) + j := by omega
      have hjk : ¬ j = k % 32 := fun h => hkj h.symm
      simp [this, hjk, Bool.and_comm]
  · have : ¬ k = 32 * i + j := by omega
    rw [List.getD_eq_getElem?_getD, List.getElem?_set_ne (fun h => hk h.symm)]
    simp [this, List.getD_eq_getElem?_getD]

/-! ### counting -/

theorem countP_range_update (f g : Nat → Bool) (k0 : Nat) : ∀ n, k0 < n → f k0 = true → g k0 = false →
    (∀ k, k ≠ k0 → g k = f k) → (List.range n).countP f = (List.range n).countP g + 1
  | 0, h, _, _, _ => by omega
  | n + 1, h, hf, hg, hne => by
    rw [List.range_succ, List.countP_append, List.countP_append]
    by_cases hn : k0 = n
    · subst hn
      have : (List.range k0).countP f = (List.range k0).countP g := by
        apply List.countP_congr
        intro x hx
        have : x ≠ k0 := by have := List.mem_range.mp hx; omega
        simp [hne x this]
      simp [hf, hg, this]
    · have ih := countP_range_update f g k0 n (by omega) hf hg hne
      have : g n = f n := hne n (fun h => hn h.symm)
      simp [ih, this]; omega

theorem countP_range_pos (f : Nat → Bool) : ∀ n, 0 < (List.range n).countP f → ∃ k, k < n ∧ f k = true
  | 0, h => by simp at h
  | n + 1, h => by
    rw [List.range_succ, List.countP_append] at h
    by_cases hn : f n = true
    · exact ⟨n, by omega, hn⟩
    · have : 0 < (List.range n).countP f := by simp [hn] at h; simpa using h
      obtain ⟨k, hk, hf⟩ := countP_range_pos f n this
      exact ⟨k, by omega, hf⟩

theorem setBit_length (bm : List Word) (i j : Nat) : (setBit bm i j).length = bm.length := by simp [setBit]
theorem clearBit_length (bm : List Word) (i j : Nat) : (clearBit bm i j).length = bm.length := by simp [clearBit]

theorem clearBits_setBit {bm : List Word} {i j : Nat} (hi : i < bm.length) (hj : j < 32) (hclr : bitAt bm (32 * i + j) = false) :
    clearBits bm = clearBits (setBit bm i j) + 1 := by
  unfold clearBits
  rw [setBit_length]
  apply countP_range_update _ _ (32 * i + j) _ (by omega)
  · simp [hclr]
  · simp [bitAt_setBit hi hj]
  · intro k hk; simp [bitAt_setBit hi hj, hk]

theorem clearBits_clearBit {bm : List Word} {i j : Nat} (hi : i < bm.length) (hj : j < 32) (hset : bitAt bm (32 * i + j) = true) :
    clearBits (clearBit bm i j) = clearBits bm + 1 := by
  unfold clearBits
  rw [clearBit_length]
  apply countP_range_update _ _ (32 * i + j) _ (by omega)
  · simp [bitAt_clearBit hi hj]
  · simp [hset]
  · intro k hk; simp [bitAt_clearBit hi hj, hk]

theorem clearBits_le (bm : List Word) : clearBits bm ≤ 32 * bm.length := by
  unfold clearBits
  have := List.countP_le_length (p := fun k => !bitAt bm k) (l := List.range (32 * bm.length))
  simpa using this

/-- a bitmap with a clear bit is found by the word scan -/
theorem scanWords_of_clear {bm : List Word} (h : 0 < clearBits bm) : ∃ i, scanWords bm = some i := by
  cases hs : scanWords bm with
  | some i => exact ⟨i, rfl⟩
  | none =>
    exfalso
    obtain ⟨k, hk, hf⟩ := countP_range_pos _ _ h
    have := scanWords_none hs (k / 32) (by omega)
    have h32 : k % 32 < 32 := Nat.mod_lt _ (by decide)
    unfold bitAt at hf
    rw [this, BitVec.getLsbD_allOnes] at hf
    simp [h32] at hf

theorem clearBits_replicate (n : Nat) : clearBits (List.replicate n (0 : Word)) = 32 * n := by
  unfold clearBits
  rw [List.countP_eq_length.mpr]
  · simp
  · intro k hk
    simp [bitAt, List.getD_eq_getElem?_getD]
    cases h : (List.replicate n (0 : Word))[k / 32]? with
    | none => simp
    | some w =>
      have := List.mem_replicate.mp (List.mem_of_getElem? h)
      simp [this.2]

end Sqfs.MemPool

namespace Sqfs.MemPool

/-! ### the invariant -/

/-- padding that brings `x` to the next multiple of `o` (mempool.c:56-57 and create_pool) -/
def padTo (x o : Nat) : Nat := if x % o ≠ 0 then o - x % o else 0

structure BlockWf (p : Pool) (b : Block) : Prop where
  len : b.bitmap.length = p.bitmapCount
  free : b.objFree = clearBits b.bitmap
  lim : b.limitOff + 1 = b.dataOff + 32 * p.bitmapCount * p.objSize
  hdr : HDR + 4 * p.bitmapCount ≤ b.dataOff
  align : b.dataOff % p.objSize = 0
  doff : b.dataOff = HDR + 4 * p.bitmapCount + padTo (HDR + 4 * p.bitmapCount) p.objSize

/-- `a` is the address of a slot whose bitmap bit is set -/
def liveIn (p : Pool) (a : Nat × Nat) : Prop :=
  ∃ b ∈ p.blocks, ∃ k, k < 32 * p.bitmapCount ∧ bitAt b.bitmap k = true ∧ a = slotAddr p.objSize b k

/-- consistency of a pool with the objects handed out and not yet returned (`live`, in the order of allocation, newest first) -/
structure Inv (p : Pool) (e : Env) (live : List (Nat × Nat)) : Prop where
  osz : 0 < p.objSize
  cnt : p.bitmapCount ≤ 16384
  wf : ∀ b ∈ p.blocks, BlockWf p b
  ids : (p.blocks.map (·.id)).Pairwise (· ≠ ·)
  fresh : ∀ b ∈ p.blocks, b.id < e.nextId
  live_iff : ∀ a, a ∈ live ↔ liveIn p a
  nodup : live.Nodup

theorem eq_of_id_eq {bs : List Block} (hp : (bs.map (·.id)).Pairwise (· ≠ ·)) {b1 b2 : Block} (h1 : b1 ∈ bs) (h2 : b2 ∈ bs)
    (hid : b1.id = b2.id) : b1 = b2 := by
  induction bs with
  | nil => simp at h1
  | cons b bs ih =>
    simp only [List.map_cons, List.pairwise_cons, List.mem_map, forall_exists_index, and_imp, forall_apply_eq_imp_iff₂] at hp
    rcases List.mem_cons.mp h1 with e1 | h1' <;> rcases List.mem_cons.mp h2 with e2 | h2'
    · rw [e1, e2]
    · subst e1; exact absurd hid (hp.1 _ h2')
    · subst e2; exact absurd hid.symm (hp.1 _ h1')
    · exact ih hp.2 h1' h2'

theorem not_mem_sides {pre post : List Block} {b : Block} (hp : ((pre ++ b :: post).map (·.id)).Pairwise (· ≠ ·)) :
    b ∉ pre ∧ b ∉ post := by
  simp only [List.map_append, List.map_cons, List.pairwise_append, List.pairwise_cons, List.mem_map, List.mem_cons,
    forall_exists_index, and_imp, forall_apply_eq_imp_iff₂] at hp
  refine ⟨fun h => ?_, fun h => ?_⟩
  · exact hp.2.2 _ h _ (Or.inl rfl) rfl
  · exact hp.2.1.1 _ h rfl

theorem slot_inj {o k k' d : Nat} (ho : 0 < o) (h : d + k * o = d + k' * o) : k = k' :=
  Nat.eq_of_mul_eq_mul_right ho (by omega)

/-- one bit of one block changes: which addresses are live afterwards -/
theorem liveIn_update {p : Pool} {pre post : List Block} {b b' : Block} {k : Nat} {v : Bool}
    (ho : 0 < p.objSize) (ids : (p.blocks.map (·.id)).Pairwise (· ≠ ·))
    (hb : p.blocks = pre ++ b :: post) (hid : b'.id = b.id) (hd : b'.dataOff = b.dataOff) (hk : k < 32 * p.bitmapCount)
    (hbits : ∀ k', bitAt b'.bitmap k' = if k' = k then v else bitAt b.bitmap k') (hold : bitAt b.bitmap k = !v) (x : Nat × Nat) :
    liveIn { p with blocks := pre ++ b' :: post } x ↔
      (if v then x = slotAddr p.objSize b k ∨ liveIn p x else x ≠ slotAddr p.objSize b k ∧ liveIn p x) := by
  have hbm : b ∈ p.blocks := by rw [hb]; simp
  have hside : b ∉ pre ∧ b ∉ post := not_mem_sides (by rw [← hb]; exact ids)
  have hsl : ∀ k', slotAddr p.objSize b' k' = slotAddr p.objSize b k' := by intro k'; simp [slotAddr, hid, hd]
  -- a live slot of the old pool that is not slot k of b stays live, and conversely
  have key : ∀ b0 k0, b0 ∈ p.blocks → slotAddr p.objSize b0 k0 = slotAddr p.objSize b k → b0 = b ∧ k0 = k := by
    intro b0 k0 h0 heq
    simp only [slotAddr, Prod.mk.injEq] at heq
    have := eq_of_id_eq ids h0 hbm heq.1
    subst this
    exact ⟨rfl, slot_inj ho heq.2⟩
  constructor
  · rintro ⟨b0, hb0, k0, hk0, hbit, rfl⟩
    simp only [List.mem_append, List.mem_cons] at hb0
    have old : ∀ b1, b1 ∈ p.blocks → bitAt b1.bitmap k0 = true → (b1 = b → k0 ≠ k) →
        (if v then slotAddr p.objSize b1 k0 = slotAddr p.objSize b k ∨ liveIn p (slotAddr p.objSize b1 k0)
         else slotAddr p.objSize b1 k0 ≠ slotAddr p.objSize b k ∧ liveIn p (slotAddr p.objSize b1 k0)) := by
      intro b1 h1 hbit1 hne
      have hl : liveIn p (slotAddr p.objSize b1 k0) := ⟨b1, h1, k0, hk0, hbit1, rfl⟩
      cases v with
      | true => exact Or.inr hl
      | false =>
        refine ⟨fun heq => ?_, hl⟩
        obtain ⟨rfl, rfl⟩ := key b1 k0 h1 heq
        exact hne rfl rfl
    rcases hb0 with h | rfl | h
    · by_cases hbb : b0 = b
      · subst hbb
        exact absurd h hside.1
      · exact old b0 (by rw [hb]; simp [h]) hbit (fun h' => absurd h' hbb)
    · rw [hsl]
      rw [hbits] at hbit
      by_cases hkk : k0 = k
      · subst hkk; simp at hbit; subst hbit; simp
      · simp [hkk] at hbit
        exact old b hbm hbit (fun _ => hkk)
    · by_cases hbb : b0 = b
      · subst hbb
        exact absurd h hside.2
      · exact old b0 (by rw [hb]; simp [h]) hbit (fun h' => absurd h' hbb)
  · intro h
    have keep : liveIn p x → x ≠ slotAddr p.objSize b k → liveIn { p with blocks := pre ++ b' :: post } x := by
      rintro ⟨b0, hb0, k0, hk0, hbit, rfl⟩ hne
      by_cases hbb : b0 = b
      · subst hbb
        have hkk : k0 ≠ k := fun h => hne (by rw [h])
        exact ⟨b', by simp, k0, hk0, by rw [hbits]; simp [hkk, hbit], (hsl k0).symm⟩
      · rw [hb] at hb0
        simp only [List.mem_append, List.mem_cons] at hb0
        refine ⟨b0, ?_, k0, hk0, hbit, rfl⟩
        simp only [List.mem_append, List.mem_cons]
        rcases hb0 with h | h | h
        · exact Or.inl h
        · exact absurd h hbb
        · exact Or.inr (Or.inr h)
    cases v with
    | true =>
      simp only [if_true] at h
      by_cases hx : x = slotAddr p.objSize b k
      · subst hx
        exact ⟨b', by simp, k, hk, by rw [hbits]; simp, (hsl k).symm⟩
      · rcases h with h | h
        · exact absurd h hx
        · exact keep h hx
    | false =>
      simp only [Bool.false_eq_true, if_false] at h
      exact keep h.2 h.1

end Sqfs.MemPool

namespace Sqfs.MemPool

theorem w64_small {x : Nat} (h : x < 18446744073709551616) : w64 x = x := Nat.mod_eq_of_lt h

theorem takeSlot_spec {p : Pool} {b : Block} (hwf : BlockWf p b) (hpos : 0 < b.objFree) (hc : p.bitmapCount ≤ 16384) :
    ∃ k b', takeSlot p.objSize b = some (b.dataOff + k * p.objSize, b') ∧ k < 32 * p.bitmapCount ∧ bitAt b.bitmap k = false ∧
      b'.id = b.id ∧ b'.base = b.base ∧ b'.dataOff = b.dataOff ∧ b'.limitOff = b.limitOff ∧ BlockWf p b' ∧
      b.objFree = b'.objFree + 1 ∧
      (∀ k', bitAt b'.bitmap k' = if k' = k then true else bitAt b.bitmap k') := by
  have hfree := hwf.free
  obtain ⟨i, hi⟩ := scanWords_of_clear (bm := b.bitmap) (by omega)
  obtain ⟨hil, hiw⟩ := scanWords_some hi
  obtain ⟨j, hj⟩ := scanBits_of_lt _ hiw
  obtain ⟨_, hj32, hjclr⟩ := scanBits_some hj
  have hkbit : bitAt b.bitmap (32 * i + j) = false := by
    unfold bitAt
    have h1 : (32 * i + j) / 32 = i := by omega
    have h2 : (32 * i + j) % 32 = j := by omega
    rw [h1, h2]; exact hjclr
  have hle := clearBits_le b.bitmap
  have hlen := hwf.len
  have hcnt := clearBits_setBit hil (by omega) hkbit
  refine ⟨i * 32 + j, { b with bitmap := setBit b.bitmap i j, objFree := w64 (b.objFree + 18446744073709551615) }, ?_, by omega, ?_, rfl, rfl, rfl, rfl, ?_, ?_, ?_⟩
  · unfold takeSlot; rw [hi]; simp only []; rw [hj]
  · rw [Nat.mul_comm i 32]; exact hkbit
  · have : w64 (b.objFree + 18446744073709551615) = b.objFree - 1 := by unfold w64; omega
    exact ⟨by simp [setBit_length, hlen], by simp only [this]; omega, hwf.lim, hwf.hdr, hwf.align, hwf.doff⟩
  · have : w64 (b.objFree + 18446744073709551615) = b.objFree - 1 := by unfold w64; omega
    simp only [this]; omega
  · intro k'
    simp only [bitAt_setBit hil (show j < 32 by omega)]
    rw [Nat.mul_comm i 32]
    by_cases h : k' = 32 * i + j <;> simp [h]

/-- what `walk` does in a consistent pool: never `stale`; `none` only when every block is full -/
theorem walk_spec {p : Pool} (hc : p.bitmapCount ≤ 16384) : ∀ (bs : List Block), (∀ b ∈ bs, BlockWf p b) →
    match walk p.objSize bs with
    | .none => ∀ b ∈ bs, b.objFree = 0
    | .stale _ => False
    | .got bid off bs' => ∃ pre b post b' k, bs = pre ++ b :: post ∧ bs' = pre ++ b' :: post ∧ bid = b.id ∧
        off = b.dataOff + k * p.objSize ∧ k < 32 * p.bitmapCount ∧ bitAt b.bitmap k = false ∧
        b'.id = b.id ∧ b'.base = b.base ∧ b'.dataOff = b.dataOff ∧ b'.limitOff = b.limitOff ∧ BlockWf p b' ∧
        (∀ k', bitAt b'.bitmap k' = if k' = k then true else bitAt b.bitmap k')
  | [], _ => by simp [walk]
  | b :: bs, h => by
    unfold walk
    by_cases hpos : b.objFree > 0
    · obtain ⟨k, b', ht, hk, hclr, h1, h2, h3, h4, h5, _, h6⟩ := takeSlot_spec (h b (by simp)) hpos hc
      simp only [hpos, if_true, ht]
      exact ⟨[], b, bs, b', k, rfl, rfl, rfl, rfl, hk, hclr, h1, h2, h3, h4, h5, h6⟩
    · have ih := walk_spec hc bs (fun x hx => h x (by simp [hx]))
      simp only [hpos, if_false]
      cases hw : walk p.objSize bs with
      | none =>
        rw [hw] at ih
        intro x hx
        rcases List.mem_cons.mp hx with rfl | hx
        · omega
        · exact ih x hx
      | stale bs' => rw [hw] at ih; exact ih
      | got bid off bs' =>
        rw [hw] at ih
        obtain ⟨pre, b0, post, b', k, e1, e2, rest⟩ := ih
        exact ⟨b :: pre, b0, post, b', k, by simp [e1], by simp [e2], rest⟩

theorem locate_some {bid off : Nat} : ∀ {bs pre : List Block} {b : Block} {post : List Block}, locate bid off bs = some (pre, b, post) →
    bs = pre ++ b :: post ∧ b.id = bid ∧ b.dataOff ≤ off ∧ off < b.limitOff
  | [], _, _, _, h => by simp [locate] at h
  | x :: xs, pre, b, post, h => by
    unfold locate at h
    split at h
    · rename_i hc
      simp only [Option.some.injEq, Prod.mk.injEq] at h
      obtain ⟨rfl, rfl, rfl⟩ := h
      exact ⟨rfl, hc⟩
    · cases hl : locate bid off xs with
      | none => simp [hl] at h
      | some r =>
        obtain ⟨pre', b', post'⟩ := r
        simp only [hl, Option.some.injEq, Prod.mk.injEq] at h
        obtain ⟨rfl, rfl, rfl⟩ := h
        obtain ⟨e, rest⟩ := locate_some hl
        exact ⟨by simp [e], rest⟩

theorem locate_none {bid off : Nat} : ∀ {bs : List Block}, (∀ b ∈ bs, ¬ (b.id = bid ∧ b.dataOff ≤ off ∧ off < b.limitOff)) → locate bid off bs = none
  | [], _ => rfl
  | x :: xs, h => by
    unfold locate
    simp only [h x (by simp), if_false]
    rw [locate_none (fun b hb => h b (by simp [hb]))]

theorem locate_of_mem {bid off : Nat} : ∀ {bs : List Block}, (∃ b ∈ bs, b.id = bid ∧ b.dataOff ≤ off ∧ off < b.limitOff) →
    ∃ r, locate bid off bs = some r
  | [], h => by simp at h
  | x :: xs, h => by
    unfold locate
    by_cases hc : x.id = bid ∧ x.dataOff ≤ off ∧ off < x.limitOff
    · simp [hc]
    · simp only [hc, if_false]
      obtain ⟨b, hb, hbc⟩ := h
      rcases List.mem_cons.mp hb with rfl | hb
      · exact absurd hbc hc
      · obtain ⟨r, hr⟩ := locate_of_mem ⟨b, hb, hbc⟩
        obtain ⟨a, b', c⟩ := r
        simp [hr]

end Sqfs.MemPool
