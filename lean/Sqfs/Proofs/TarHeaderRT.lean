/-
Pieces of the header round trip (C04): field lengths, the record size, string fields.
-/
import Sqfs.Proofs.TarHeader
import Sqfs.Proofs.TarNumber
namespace Sqfs.Tar

theorem zeros_length (n : Nat) : (zeros n).length = n := by simp [zeros]

theorem field_length (n : Nat) (b : Bytes) : (field n b).length = n := by
  unfold field
  simp only [List.length_append, zeros_length, List.length_take]
  omega

theorem writeBinary_length (v w : Nat) : (writeBinary v w).length = w := by
  unfold writeBinary
  have := beBytes_length w v
  cases h : beBytes w v with
  | nil => rw [h] at this; simpa using this
  | cons b t => rw [h] at this; simpa using this

theorem writeNumber_length (v w : Nat) (hw : 1 ≤ w) : (writeNumber v w).length = w := by
  unfold writeNumber
  split
  · simp [octDigits_length]; omega
  · split
    · exact octDigits_length w v
    · exact writeBinary_length v w

theorem writeNumberSigned_length (v : Int) (w : Nat) (hw : 1 ≤ w) : (writeNumberSigned v w).length = w := by
  unfold writeNumberSigned
  split
  · exact writeBinary_length _ w
  · exact writeNumber_length _ w hw

theorem rawHeader_length (name : Bytes) (mode uid gid size : Nat) (mtime : Int) (tf : UInt8) (linkname : Bytes)
    (maj min : Nat) (hn : name.length = 100) (hl : linkname.length = 100) :
    (rawHeader name mode uid gid size mtime tf linkname maj min).length = 512 := by
  unfold rawHeader
  simp only [List.length_append, writeNumber_length _ 8 (by omega), writeNumber_length _ 12 (by omega),
    writeNumberSigned_length _ 12 (by omega), zeros_length, field_length, hn, hl, List.length_cons, List.length_nil,
    magicOld, versionOld]

theorem strn_append_zeros (b : Bytes) (k : Nat) (hnul : ∀ x ∈ b, x ≠ 0) : strn (b ++ zeros k) = b := by
  unfold strn
  induction b with
  | nil =>
    cases k with
    | zero => rfl
    | succ k => simp [zeros, List.replicate_succ, List.takeWhile]
  | cons x t ih =>
    have hx : x ≠ 0 := hnul x (by simp)
    simp only [List.cons_append, List.takeWhile, ne_eq, hx, not_false_eq_true, decide_true]
    congr 1
    exact ih (fun y hy => hnul y (List.mem_cons_of_mem _ hy))

/-- `strndup(field, n)` of a NUL-padded field gives the string back (when it fits and has no NUL) -/
theorem strn_field (n : Nat) (b : Bytes) (hlen : b.length ≤ n) (hnul : ∀ x ∈ b, x ≠ 0) : strn (field n b) = b := by
  unfold field
  rw [List.take_of_length_le hlen]
  exact strn_append_zeros b _ hnul

end Sqfs.Tar
