/-
C17 — lemmas for `Sqfs/Model/C17Mkfs.lean` (flag hand-over of `pack_files` / `pack_file`) and for the flag-list decoder
of `Sqfs/Model/Sort.lean` (`applyFlagNames`): flag words seen through `Pack.Flags.ofNat`.
-/
import Sqfs.Model.C17Mkfs
import Sqfs.Proofs.Sort
namespace Sqfs.C17Mkfs
open Sqfs.Sort Sqfs.Pack

theorem testBit_or (a b bit : Nat) : testBit (a ||| b) bit = (testBit a bit || testBit b bit) := by
  unfold testBit
  rw [Nat.and_or_distrib_right]
  generalize a &&& bit = x
  generalize b &&& bit = y
  have h : (x ||| y = 0) ↔ (x = 0 ∧ y = 0) := Nat.or_eq_zero_iff
  by_cases hx : x = 0
  · subst hx; simp
  · by_cases hy : y = 0
    · subst hy; simp
    · have hxy : x ||| y ≠ 0 := fun e => hx (h.mp e).1
      have a : (x ||| y != 0) = true := bne_iff_ne.mpr hxy
      have b : (x != 0) = true := bne_iff_ne.mpr hx
      rw [a, b]; rfl

theorem ofNat_zero : Flags.ofNat 0 = {} := by decide

/-- `flags |= SQFS_BLK_DONT_FRAGMENT` seen through `Flags.ofNat` -/
theorem ofNat_or_dontFragment (n : Nat) :
    Flags.ofNat (n ||| Consts.blkDontFragment) = { Flags.ofNat n with dontFragment := true } := by
  simp only [Flags.ofNat, testBit_or]
  have h1 : testBit Consts.blkDontFragment Consts.blkDontCompress = false := by decide
  have h2 : testBit Consts.blkDontFragment Consts.blkDontHash = false := by decide
  have h3 : testBit Consts.blkDontFragment Consts.blkDontFragment = true := by decide
  have h4 : testBit Consts.blkDontFragment Consts.blkDontDeduplicate = false := by decide
  have h5 : testBit Consts.blkDontFragment Consts.blkIgnoreSparse = false := by decide
  simp [h1, h2, h3, h4, h5]

/-- the option handling of `pack_file` on the C flag word is `effectiveFlags` on the decoded flags -/
theorem ofNat_packFileFlags (nt : Bool) (B size n : Nat) :
    Flags.ofNat (packFileFlags nt B size n) = effectiveFlags nt B size (Flags.ofNat n) := by
  unfold packFileFlags effectiveFlags
  split
  · exact ofNat_or_dontFragment n
  · rfl

theorem packFiles_eq_map (nt : Bool) (B : Nat) (content : List UInt8 → List UInt8) (fs : List FileEnt) :
    packFiles nt B content fs = fs.map (packFile nt B content) := by
  induction fs with
  | nil => rfl
  | cons f fs ih => simp [packFiles, ih]

/-! ### the flag-list decoder: text → flag word -/

/-- the bit a flag name stands for (`decode_flags`, the `strcmp` chain); `glob` / `glob_no_path` set no bit -/
def nameBit (a : List UInt8) : Nat :=
  if a = nmDontFragment then Consts.blkDontFragment
  else if a = nmDontCompress then Consts.blkDontCompress
  else if a = nmDontDeduplicate then Consts.blkDontDeduplicate
  else if a = nmNosparse then Consts.blkIgnoreSparse
  else 0

theorem nameBit_glob_no_path : nameBit (nmGlobNoPath) = 0 := by decide
theorem nameBit_glob : nameBit (nmGlob) = 0 := by decide
theorem nameBit_df : nameBit (nmDontFragment) = Consts.blkDontFragment := by decide
theorem nameBit_dc : nameBit (nmDontCompress) = Consts.blkDontCompress := by decide
theorem nameBit_dd : nameBit (nmDontDeduplicate) = Consts.blkDontDeduplicate := by decide
theorem nameBit_ns : nameBit (nmNosparse) = Consts.blkIgnoreSparse := by decide

theorem applyFlagNames_flags : ∀ (args : List (List UInt8)) (d0 d : Directives), applyFlagNames d0 args = .ok d →
    d.flags = (args.map trim).foldl (fun acc a => acc ||| nameBit a) d0.flags := by
  intro args
  induction args with
  | nil => intro d0 d h; simp only [applyFlagNames, Except.ok.injEq] at h; subst h; rfl
  | cons a as ih =>
    intro d0 d h
    simp only [applyFlagNames] at h
    simp only [List.map_cons, List.foldl_cons]
    split at h
    · rename_i e; rw [ih _ _ h, e, nameBit_glob_no_path]; simp
    · split at h
      · rename_i e; rw [ih _ _ h, e, nameBit_glob]; simp
      · split at h
        · rename_i e; rw [ih _ _ h, e, nameBit_df]
        · split at h
          · rename_i e; rw [ih _ _ h, e, nameBit_dc]
          · split at h
            · rename_i e; rw [ih _ _ h, e, nameBit_dd]
            · split at h
              · rename_i e; rw [ih _ _ h, e, nameBit_ns]
              · cases h

theorem testBit_foldl (bit : Nat) : ∀ (l : List (List UInt8)) (x : Nat),
    testBit (l.foldl (fun acc a => acc ||| nameBit a) x) bit = (testBit x bit || l.any (fun a => testBit (nameBit a) bit)) := by
  intro l
  induction l with
  | nil => intro x; simp
  | cons a l ih => intro x; simp [List.foldl_cons, ih, testBit_or, Bool.or_assoc]

theorem nameBit_cases (a : List UInt8) :
    (a = nmDontFragment ∧ nameBit a = Consts.blkDontFragment) ∨
    (a = nmDontCompress ∧ nameBit a = Consts.blkDontCompress) ∨
    (a = nmDontDeduplicate ∧ nameBit a = Consts.blkDontDeduplicate) ∨
    (a = nmNosparse ∧ nameBit a = Consts.blkIgnoreSparse) ∨
    (a ≠ nmDontFragment ∧ a ≠ nmDontCompress ∧ a ≠ nmDontDeduplicate ∧ a ≠ nmNosparse
      ∧ nameBit a = 0) := by
  by_cases h1 : a = nmDontFragment
  · left; exact ⟨h1, by unfold nameBit; rw [if_pos h1]⟩
  · by_cases h2 : a = nmDontCompress
    · right; left; exact ⟨h2, by unfold nameBit; rw [if_neg h1, if_pos h2]⟩
    · by_cases h3 : a = nmDontDeduplicate
      · right; right; left; exact ⟨h3, by unfold nameBit; rw [if_neg h1, if_neg h2, if_pos h3]⟩
      · by_cases h4 : a = nmNosparse
        · right; right; right; left; exact ⟨h4, by unfold nameBit; rw [if_neg h1, if_neg h2, if_neg h3, if_pos h4]⟩
        · right; right; right; right
          exact ⟨h1, h2, h3, h4, by unfold nameBit; rw [if_neg h1, if_neg h2, if_neg h3, if_neg h4]⟩

theorem nameBit_compress (a : List UInt8) : testBit (nameBit a) Consts.blkDontCompress = (a == nmDontCompress) := by
  rcases nameBit_cases a with ⟨e, h⟩ | ⟨e, h⟩ | ⟨e, h⟩ | ⟨e, h⟩ | ⟨_, n, _, _, h⟩
  · subst e; rw [h]; decide
  · subst e; rw [h]; decide
  · subst e; rw [h]; decide
  · subst e; rw [h]; decide
  · rw [h]; simp [testBit, n]

theorem nameBit_hash (a : List UInt8) : testBit (nameBit a) Consts.blkDontHash = false := by
  rcases nameBit_cases a with ⟨_, h⟩ | ⟨_, h⟩ | ⟨_, h⟩ | ⟨_, h⟩ | ⟨_, _, _, _, h⟩ <;> rw [h] <;> decide

theorem nameBit_fragment (a : List UInt8) : testBit (nameBit a) Consts.blkDontFragment = (a == nmDontFragment) := by
  rcases nameBit_cases a with ⟨e, h⟩ | ⟨e, h⟩ | ⟨e, h⟩ | ⟨e, h⟩ | ⟨n, _, _, _, h⟩
  · subst e; rw [h]; decide
  · subst e; rw [h]; decide
  · subst e; rw [h]; decide
  · subst e; rw [h]; decide
  · rw [h]; simp [testBit, n]

theorem nameBit_dedup (a : List UInt8) : testBit (nameBit a) Consts.blkDontDeduplicate = (a == nmDontDeduplicate) := by
  rcases nameBit_cases a with ⟨e, h⟩ | ⟨e, h⟩ | ⟨e, h⟩ | ⟨e, h⟩ | ⟨_, _, n, _, h⟩
  · subst e; rw [h]; decide
  · subst e; rw [h]; decide
  · subst e; rw [h]; decide
  · subst e; rw [h]; decide
  · rw [h]; simp [testBit, n]

theorem nameBit_sparse (a : List UInt8) : testBit (nameBit a) Consts.blkIgnoreSparse = (a == nmNosparse) := by
  rcases nameBit_cases a with ⟨e, h⟩ | ⟨e, h⟩ | ⟨e, h⟩ | ⟨e, h⟩ | ⟨_, _, _, n, h⟩
  · subst e; rw [h]; decide
  · subst e; rw [h]; decide
  · subst e; rw [h]; decide
  · subst e; rw [h]; decide
  · rw [h]; simp [testBit, n]

end Sqfs.C17Mkfs
