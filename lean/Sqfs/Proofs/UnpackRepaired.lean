/-
Helper lemmas for C06, part 5: the repaired unpacker (`Sqfs/Model/UnpackRepaired.lean`) is confined to R from **any**
file system.  The invariant is no longer a statement about everything below R (that needs a hypothesis on what is
there) but about the calls made so far: the object at the path of every creating call that succeeded — or was a
`mkdir`/`EEXIST` accepted after `lstat` — is there, and is of that call's sort.  With the plan's order (a path's
prefixes are made earlier; the fill and attribute walks come after the create walk) this is all resolution needs.
-/
import Sqfs.Proofs.UnpackWeak
import Sqfs.Model.UnpackRepaired
namespace Sqfs.Unpack
open Sqfs.Path

/-- the call is made for a tree node with components `c` and kind `k` -/
def CallFor (sc : Syscall) (c : List Bytes) (k : Kind) : Prop := AllGood c ∧ sc.path = joinSlash c ∧ Compat sc k

/-- invariant of a repaired run; `done` = the calls that succeeded or were tolerated so far -/
structure InvR (R : PathC) (fs₀ fs : Fs) (done : List Syscall) : Prop where
  /-- whatever differs from the initial file system is the place, strictly below R, of a call made so far -/
  chg : ∀ p, fs p ≠ fs₀ p → ∃ sc ∈ done, ∃ c k, CallFor sc c k ∧ c ≠ [] ∧ p = R ++ c
  est : ∀ sc ∈ done, sc.isCreate = true → ∀ c k, CallFor sc c k → c ≠ [] →
          ∃ n, fs (R ++ c) = some n ∧ kindMatch n.kind k = true

theorem InvR.out {R : PathC} {fs₀ fs : Fs} {done : List Syscall} (hi : InvR R fs₀ fs done) :
    ∀ p, underB R p = false → fs p = fs₀ p := by
  intro p hp
  by_cases h : fs p = fs₀ p
  · exact h
  · obtain ⟨_, _, c, _, _, hne, rfl⟩ := hi.chg p h
    rw [underB_append R hne] at hp; cases hp

theorem InvR.chg_cons {R : PathC} {fs₀ fs : Fs} {done : List Syscall} (hi : InvR R fs₀ fs done) (sc : Syscall) :
    ∀ p, fs p ≠ fs₀ p → ∃ sc' ∈ sc :: done, ∃ c k, CallFor sc' c k ∧ c ≠ [] ∧ p = R ++ c := by
  intro p hp
  obtain ⟨sc', hm, h⟩ := hi.chg p hp
  exact ⟨sc', List.mem_cons_of_mem _ hm, h⟩

/-- what the plan's order says about a call made after the calls `done`: the `mkdir` of every proper prefix of its
    path is among them, and if it is not itself a creating call so is the creating call of its own node -/
def Placed (done : List Syscall) (sc : Syscall) : Prop :=
  ∃ c k, CallFor sc c k ∧
    (∀ pre, pre <+: c → pre ≠ [] → pre ≠ c → ∃ m, Syscall.mkdir (joinSlash pre) m ∈ done) ∧
    (sc.isCreate = false → ∃ sc', sc' ∈ done ∧ sc'.isCreate = true ∧ sc'.path = joinSlash c ∧ Compat sc' k)

def WellPlaced : List Syscall → List Syscall → Prop
  | _, [] => True
  | done, sc :: r => Placed done sc ∧ WellPlaced (sc :: done) r

theorem Placed.mono {d d' : List Syscall} {sc : Syscall} (h : Placed d sc) (hs : ∀ x ∈ d, x ∈ d') : Placed d' sc := by
  obtain ⟨c, k, hc, h1, h2⟩ := h
  refine ⟨c, k, hc, fun pre a b e => ?_, fun hn => ?_⟩
  · obtain ⟨m, hm⟩ := h1 pre a b e
    exact ⟨m, hs _ hm⟩
  · obtain ⟨sc', a, b⟩ := h2 hn
    exact ⟨sc', hs _ a, b⟩

theorem wellPlaced_of_splits : ∀ (scs done : List Syscall),
    (∀ s₁ sc s₂, scs = s₁ ++ sc :: s₂ → Placed (s₁.reverse ++ done) sc) → WellPlaced done scs
  | [], _, _ => trivial
  | sc :: r, done, h => by
    refine ⟨by simpa using h [] sc r rfl, wellPlaced_of_splits r (sc :: done) ?_⟩
    intro s₁ x s₂ e
    have := h (sc :: s₁) x s₂ (by rw [e]; rfl)
    simpa using this

theorem isCreate_follows {sc : Syscall} (h : sc.isCreate = true) : sc.follows = false := by
  cases sc <;> simp_all [Syscall.isCreate, Syscall.follows]

/-- a creating call that succeeds puts an object of its sort at a name where nothing was -/
theorem step_create {fs fs' : Fs} {R : PathC} {sc : Syscall} (hc : sc.isCreate = true) (h : step fs R sc = .ok fs') :
    ∃ key n, resolve fs R sc.path false = .ok (key, none) ∧ fs' = fs.set key n ∧
      ∀ k, Compat sc k → kindMatch n.kind k = true := by
  cases sc with
  | mkdir p m =>
    simp only [step] at h
    split at h
    · cases h
    · cases h
    · rename_i key hr
      cases h
      exact ⟨key, _, hr, rfl, by intro k hk; simp [Compat] at hk; subst hk; rfl⟩
  | symlink t p =>
    simp only [step] at h
    split at h
    · cases h
    · split at h
      · cases h
      · split at h
        · cases h
        · cases h
        · rename_i key hr
          cases h
          exact ⟨key, _, hr, rfl, by intro k hk; simp [Compat] at hk; subst hk; rfl⟩
  | mknod p kd m d =>
    simp only [step] at h
    split at h
    · cases h
    · cases h
    · rename_i key hr
      cases h
      refine ⟨key, _, hr, rfl, ?_⟩
      intro k hk
      simp only [Compat] at hk
      obtain ⟨rfl, h⟩ := hk
      rcases h with rfl | rfl | rfl | rfl <;> rfl
  | openExcl p m =>
    simp only [step] at h
    split at h
    · cases h
    · cases h
    · rename_i key hr
      cases h
      exact ⟨key, _, hr, rfl, by intro k hk; simp [Compat] at hk; subst hk; rfl⟩
  | openTrunc _ _ => simp [Syscall.isCreate] at hc
  | setxattr _ _ _ _ => simp [Syscall.isCreate] at hc
  | utimens _ _ _ => simp [Syscall.isCreate] at hc
  | chown _ _ _ _ => simp [Syscall.isCreate] at hc
  | chmod _ _ => simp [Syscall.isCreate] at hc

/-- under the invariant, a well placed call resolves to its node's place below R, or not at all — with the last
    component not followed, and also the way the call itself treats the last component -/
theorem InvR.resolves {R : PathC} {fs₀ fs : Fs} {done : List Syscall} (hi : InvR R fs₀ fs done) {sc : Syscall}
    {c : List Bytes} {k : Kind} (hc : CallFor sc c k)
    (h1 : ∀ pre, pre <+: c → pre ≠ [] → pre ≠ c → ∃ m, Syscall.mkdir (joinSlash pre) m ∈ done)
    (h2 : sc.isCreate = false → ∃ sc', sc' ∈ done ∧ sc'.isCreate = true ∧ sc'.path = joinSlash c ∧ Compat sc' k)
    (fl : Bool) (hfl : fl = false ∨ fl = sc.follows) :
    (∃ e, resolve fs R (joinSlash c) fl = .error e) ∨
      (c ≠ [] ∧ resolve fs R (joinSlash c) fl = .ok (R ++ c, fs (R ++ c))) := by
  obtain ⟨hg, hpath, hcompat⟩ := hc
  by_cases hne : c = []
  · subst hne; left; exact ⟨.ENOENT, by simp [resolve, joinSlash]⟩
  · apply resolve_goodW fs R c fl hg
    · intro pre hp hn1 hn2 t a hfs
      obtain ⟨m, hm⟩ := h1 pre hp hn1 hn2
      obtain ⟨n, hn, hk⟩ := hi.est _ hm rfl pre .dir ⟨hg.prefix hp, rfl, rfl⟩ hn1
      rw [hfs] at hn
      cases hn
      simp [kindMatch] at hk
    · rcases hfl with h | h
      · exact Or.inl h
      · rcases Syscall.follows_compat hcompat with hf | hk
        · exact Or.inl (h.trans hf)
        · by_cases hcr : sc.isCreate = true
          · exact Or.inl (h.trans (isCreate_follows hcr))
          · right
            intro t a hfs
            obtain ⟨sc', hm, hcr', hp', hc'⟩ := h2 (by simpa using hcr)
            obtain ⟨n, hn, hkm⟩ := hi.est sc' hm hcr' c k ⟨hg, hp', hc'⟩ hne
            rw [hfs] at hn
            cases hn
            exact hk (kindMatch_symlink hkm)

/-- **one successful call** of a well placed plan keeps the invariant -/
theorem InvR.step {R : PathC} {fs₀ fs fs' : Fs} {done : List Syscall} {sc : Syscall} (hi : InvR R fs₀ fs done)
    (hp : Placed done sc) (hs : step fs R sc = .ok fs') : InvR R fs₀ fs' (sc :: done) := by
  obtain ⟨c, k, hc, h1, h2⟩ := hp
  have hcc := hc
  obtain ⟨hg, hpath, hcompat⟩ := hc
  -- the invariant for the calls made before, when the file system does not change at their places
  have keepOld : ∀ key n, fs' = fs.set key n → key = R ++ c →
      (∀ sc'' ∈ done, sc''.isCreate = true → ∀ k'', CallFor sc'' c k'' → kindMatch n.kind k'' = true) →
      (sc.isCreate = true → ∀ k'', Compat sc k'' → kindMatch n.kind k'' = true) → c ≠ [] →
      InvR R fs₀ fs' (sc :: done) := by
    intro key n e1 e2 hold hnew hne
    subst e1 e2
    constructor
    · intro q hq
      by_cases hqc : q = R ++ c
      · exact ⟨sc, by simp, c, k, hcc, hne, hqc⟩
      · simp only [Fs.set, if_neg hqc] at hq
        exact hi.chg_cons sc q hq
    · intro sc'' hm hcr c'' k'' hcf hne''
      by_cases he : c'' = c
      · subst he
        refine ⟨n, by simp [Fs.set], ?_⟩
        rcases List.mem_cons.1 hm with rfl | hm
        · exact hnew hcr k'' hcf.2.2
        · exact hold sc'' hm hcr k'' hcf
      · have hkey : R ++ c'' ≠ R ++ c := fun e => he (List.append_cancel_left e)
        simp only [Fs.set, if_neg hkey]
        rcases List.mem_cons.1 hm with rfl | hm
        · exact absurd (joinSlash_inj hcf.1 hg (hcf.2.1.symm.trans hpath)) he
        · exact hi.est sc'' hm hcr c'' k'' hcf hne''
  by_cases hcr : sc.isCreate = true
  · obtain ⟨key, n, hr, rfl, hkm⟩ := step_create hcr hs
    rcases hi.resolves hcc h1 h2 false (Or.inl rfl) with ⟨e, he⟩ | ⟨hne, hok⟩
    · rw [hpath, he] at hr; cases hr
    · rw [hpath, hok] at hr
      have hk : R ++ c = key := by injection hr with hr; injection hr
      have hnone : fs (R ++ c) = none := by injection hr with hr; injection hr
      refine keepOld key n rfl hk.symm ?_ (fun _ => hkm) hne
      intro sc'' hm hcr'' k'' hcf
      obtain ⟨n₀, hn₀, _⟩ := hi.est sc'' hm hcr'' c k'' hcf hne
      rw [hn₀] at hnone; cases hnone
  · rcases step_shape hs with rfl | ⟨key, cur, n, hr, rfl, hnew⟩
    · refine ⟨hi.chg_cons sc, ?_⟩
      intro sc'' hm hcr'' c'' k'' hcf hne''
      rcases List.mem_cons.1 hm with rfl | hm
      · exact absurd hcr'' hcr
      · exact hi.est sc'' hm hcr'' c'' k'' hcf hne''
    · rcases hi.resolves hcc h1 h2 sc.follows (Or.inr rfl) with ⟨e, he⟩ | ⟨hne, hok⟩
      · rw [hpath, he] at hr; cases hr
      · rw [hpath, hok] at hr
        cases hr
        refine keepOld (R ++ c) n rfl rfl ?_ (fun h => absurd h hcr) hne
        intro sc'' hm hcr'' k'' hcf
        obtain ⟨n₀, hn₀, hk₀⟩ := hi.est sc'' hm hcr'' c k'' hcf hne
        rcases hnew with ⟨hnone, _⟩ | ⟨n₁, hcur, hsame⟩
        · rw [hn₀] at hnone; cases hnone
        · rw [hn₀] at hcur
          cases hcur
          exact hsame k'' hk₀

/-- a `mkdir` answering `EEXIST` that the repaired code accepts (after `lstat`) keeps the invariant -/
theorem InvR.tolerated {R : PathC} {fs₀ fs : Fs} {done : List Syscall} {sc : Syscall} {lf : Bool} {e : Errno}
    (hi : InvR R fs₀ fs done) (hp : Placed done sc) (ht : toleratedR lf fs R sc e = true) : InvR R fs₀ fs (sc :: done) := by
  obtain ⟨c, k, hc, h1, h2⟩ := hp
  refine ⟨hi.chg_cons sc, ?_⟩
  intro sc'' hm hcr c'' k'' hcf hne''
  rcases List.mem_cons.1 hm with rfl | hm
  · have e1 : c'' = c := joinSlash_inj hcf.1 hc.1 (hcf.2.1.symm.trans hc.2.1)
    subst e1
    cases sc'' with
    | mkdir p m =>
      have hd : lstatIsDir fs R p = true := by
        cases e <;> simp [toleratedR] at ht
        exact ht.2
      have hk : k'' = .dir := hcf.2.2
      subst hk
      have hpath : p = joinSlash c'' := hcf.2.1
      rcases hi.resolves hc h1 h2 false (Or.inl rfl) with ⟨er, he⟩ | ⟨_, hok⟩
      · simp [lstatIsDir, hpath, he] at hd
      · unfold lstatIsDir at hd
        rw [hpath, hok] at hd
        cases hfs : fs (R ++ c'') with
        | none => rw [hfs] at hd; simp at hd
        | some n =>
          obtain ⟨kd, a⟩ := n
          rw [hfs] at hd
          cases kd <;> simp at hd
          exact ⟨_, rfl, rfl⟩
    | symlink _ _ => simp [toleratedR] at ht
    | mknod _ _ _ _ => simp [toleratedR] at ht
    | openExcl _ _ => simp [toleratedR] at ht
    | openTrunc _ _ => simp [toleratedR] at ht
    | setxattr _ _ _ _ => simp [toleratedR] at ht
    | utimens _ _ _ => simp [toleratedR] at ht
    | chown _ _ _ _ => simp [toleratedR] at ht
    | chmod _ _ => simp [toleratedR] at ht
  · exact hi.est sc'' hm hcr c'' k'' hcf hne''

/-- **a repaired run, whatever fails**, keeps the invariant — for the calls made; all of them if no call failed -/
theorem InvR.run {R : PathC} {fs₀ : Fs} (flt : Faults) (lflt : Nat → Bool) :
    ∀ (scs : List Syscall) (i : Nat) (fs : Fs) (done : List Syscall), InvR R fs₀ fs done → WellPlaced done scs →
      ∃ done', (∀ x ∈ done', x ∈ done ∨ x ∈ scs) ∧ (∀ x ∈ done, x ∈ done') ∧
        ((runR flt lflt R i fs scs).failed = false → ∀ x ∈ scs, x ∈ done') ∧
        InvR R fs₀ (runR flt lflt R i fs scs).fs done' := by
  intro scs
  induction scs with
  | nil => intro i fs done hi _; exact ⟨done, fun x hx => Or.inl hx, fun x hx => hx, fun _ x hx => absurd hx (by simp), hi⟩
  | cons sc r ih =>
    intro i fs done hi hw
    obtain ⟨hp, hw'⟩ := hw
    have sub : ∀ d' : List Syscall, (∀ x ∈ d', x ∈ sc :: done ∨ x ∈ r) → ∀ x ∈ d', x ∈ done ∨ x ∈ sc :: r := by
      intro d' h x hx
      rcases h x hx with h1 | h1
      · rcases List.mem_cons.1 h1 with rfl | h2
        · exact Or.inr (by simp)
        · exact Or.inl h2
      · exact Or.inr (List.mem_cons_of_mem _ h1)
    have all : ∀ d' : List Syscall, (∀ x ∈ sc :: done, x ∈ d') → (∀ x ∈ r, x ∈ d') → ∀ x ∈ sc :: r, x ∈ d' := by
      intro d' h1 h2 x hx
      rcases List.mem_cons.1 hx with rfl | hx
      · exact h1 _ (by simp)
      · exact h2 x hx
    unfold runR
    split
    · rename_i fs' hs
      obtain ⟨d', h1, h2, h3, h4⟩ := ih (i + 1) fs' (sc :: done) (hi.step hp (stepF_ok hs).2) hw'
      exact ⟨d', sub d' h1, fun x hx => h2 x (List.mem_cons_of_mem _ hx), fun hf => all d' h2 (h3 hf), h4⟩
    · split
      · rename_i ht
        obtain ⟨d', h1, h2, h3, h4⟩ := ih (i + 1) fs (sc :: done) (hi.tolerated hp ht) hw'
        exact ⟨d', sub d' h1, fun x hx => h2 x (List.mem_cons_of_mem _ hx), fun hf => all d' h2 (h3 hf), h4⟩
      · exact ⟨done, fun x hx => Or.inl hx, fun x hx => hx, fun hf => by simp at hf, hi⟩

theorem InvR.start (R : PathC) (fs₀ : Fs) : InvR R fs₀ fs₀ [] :=
  ⟨fun _ h => absurd rfl h, fun _ h => absurd h (by simp)⟩

/-! ### the plan of `unpackTree` is well placed -/

theorem filterMap_split {α β : Type} (f : α → Option β) : ∀ (l : List α) (s₁ : List β) (x : β) (s₂ : List β),
    l.filterMap f = s₁ ++ x :: s₂ → ∃ l₁ y l₂, l = l₁ ++ y :: l₂ ∧ f y = some x ∧ l₁.filterMap f = s₁
  | [], s₁, x, s₂, h => by cases s₁ <;> simp at h
  | a :: l, s₁, x, s₂, h => by
    cases hf : f a with
    | none =>
      rw [List.filterMap_cons_none hf] at h
      obtain ⟨l₁, y, l₂, e1, e2, e3⟩ := filterMap_split f l s₁ x s₂ h
      exact ⟨a :: l₁, y, l₂, by rw [e1]; rfl, e2, by rw [List.filterMap_cons_none hf, e3]⟩
    | some b =>
      rw [List.filterMap_cons_some hf] at h
      cases s₁ with
      | nil =>
        simp at h
        exact ⟨[], a, l, rfl, by rw [hf, h.1], rfl⟩
      | cons b' s₁' =>
        simp at h
        obtain ⟨l₁, y, l₂, e1, e2, e3⟩ := filterMap_split f l s₁' x s₂ h.2
        exact ⟨a :: l₁, y, l₂, by rw [e1]; rfl, e2, by rw [List.filterMap_cons_some hf, e3, h.1]⟩

mutual
theorem createDfs_isCreate (rn : Bytes) (fl : Flags) : ∀ (x : TNode) (comps : List Bytes) (sc : Syscall),
    Ev.sys sc ∈ (createDfs rn fl comps x).evs → sc.isCreate = true
  | .mk name k pl a ch, comps, sc, h => by
    unfold createDfs at h
    split at h
    · simp at h
    · split at h
      · simp at h
      · rcases Out.mem_seq h with h1 | h1
        · simp at h1
          subst h1
          exact follows_createNode ..
        · split at h1
          · exact createList_isCreate rn fl ch comps sc h1
          · simp at h1
theorem createList_isCreate (rn : Bytes) (fl : Flags) : ∀ (l : List TNode) (anc : List Bytes) (sc : Syscall),
    Ev.sys sc ∈ (createList rn fl anc l).evs → sc.isCreate = true
  | [], _, _, h => by simp [createList] at h
  | c :: cs, anc, sc, h => by
    unfold createList at h
    rcases Out.mem_seq h with h1 | h1
    · exact createDfs_isCreate rn fl c _ sc h1
    · exact createList_isCreate rn fl cs anc sc h1
end

theorem restoreFstree_isCreate (fl : Flags) (t : TNode) (sc : Syscall) (h : Ev.sys sc ∈ (restoreFstree fl t).evs) :
    sc.isCreate = true := by
  unfold restoreFstree at h
  split at h
  · exact createList_isCreate _ fl _ [] sc h
  · exact createDfs_isCreate _ fl t [] sc h

theorem mem_syscalls_of_evs {l : List Ev} {sc : Syscall} (h : Ev.sys sc ∈ l) :
    sc ∈ l.filterMap (fun | .sys s => some s | .skip _ => none) :=
  List.mem_filterMap.2 ⟨_, h, rfl⟩

/-- every call of the plan, at its position, is placed: prefixes made earlier, own node created earlier -/
theorem unpackTree_placed (ord : List FileEnt → List FileEnt) (hord : OrdOK ord) (fl : Flags) (t t' : TNode)
    (hs : treeSort t = .ok t') (s₁ : List Syscall) (sc : Syscall) (s₂ : List Syscall)
    (h : (unpackTree ord fl t).syscalls = s₁ ++ sc :: s₂) : Placed s₁ sc := by
  obtain ⟨l₁, y, l₂, e1, e2, e3⟩ := filterMap_split _ _ s₁ sc s₂ h
  have hy : y = Ev.sys sc := by
    cases y with
    | sys s => simp at e2; rw [e2]
    | skip n => simp at e2
  subst hy
  obtain ⟨c, hpath, hg, hpre⟩ := unpackTree_ordered ord hord fl t t' hs l₁ sc l₂ e1
  obtain ⟨c₀, k, hm, hg₀, hpath₀, hcompat⟩ := unpackTree_ops ord hord fl t t' hs sc (by rw [h]; simp)
  have e0 : c₀ = c := joinSlash_inj hg₀ hg (hpath₀.symm.trans hpath)
  subst e0
  refine ⟨c₀, k, ⟨hg, hpath, hcompat⟩, ?_, ?_⟩
  · intro pre a b e
    obtain ⟨m, hm'⟩ := hpre pre a b e
    exact ⟨m, by rw [← e3]; exact mem_syscalls_of_evs hm'⟩
  · intro hnc
    -- a call that creates nothing belongs to the fill or attribute walk: the create walk is complete and before it
    rw [unpackTree_eq ord fl hs] at e1
    simp only [planSorted] at e1
    cases he : (restoreFstree fl t').err with
    | some er =>
      rw [Out.seq_evs_some he] at e1
      have := restoreFstree_isCreate fl t' sc (by rw [e1]; simp)
      rw [this] at hnc; cases hnc
    | none =>
      rw [Out.seq_evs_none he] at e1
      rcases split_append e1 with ⟨r, hA⟩ | ⟨a', hl₁, _⟩
      · have := restoreFstree_isCreate fl t' sc (by rw [hA]; simp)
        rw [this] at hnc; cases hnc
      · obtain ⟨sc', h1, h2, h3, h4⟩ := (restoreFstree_complete fl t' he).1 c₀ k hm
        refine ⟨sc', ?_, h4, h2, h3⟩
        rw [← e3, hl₁]
        exact mem_syscalls_of_evs (by simp [h1])

theorem unpackTree_wellPlaced (ord : List FileEnt → List FileEnt) (hord : OrdOK ord) (fl : Flags) (t t' : TNode)
    (hs : treeSort t = .ok t') : WellPlaced [] (unpackTree ord fl t).syscalls := by
  apply wellPlaced_of_splits
  intro s₁ sc s₂ e
  exact (unpackTree_placed ord hord fl t t' hs s₁ sc s₂ e).mono (fun x hx => by simpa using hx)

end Sqfs.Unpack
