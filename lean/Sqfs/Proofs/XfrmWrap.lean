/-
C15 — the backends' `process_data` loop (gzip.c / xz.c / bzip2.c) turns a library stream with the
documented calling convention into a codec that meets the contract of the wrappers.
-/
import Sqfs.Proofs.Xfrm
namespace Sqfs.Xfrm

/-- a loop with a natural-number variant leaves within `variant + 1` rounds -/
theorem iter_fuel {α β : Type} (body : α → LoopStep α β) (I : α → Prop) (Q : β → Prop) (μ : α → Nat)
    (h : ∀ a, I a → (∀ r, body a = LoopStep.done r → Q r) ∧ (∀ a', body a = LoopStep.next a' → I a' ∧ μ a' < μ a)) :
    ∀ a, I a → ∃ r, iter body (μ a + 1) a = some r ∧ Q r := by
  have key : ∀ n a, μ a = n → I a → ∃ r, iter body (μ a + 1) a = some r ∧ Q r := by
    intro n
    induction n using Nat.strongRecOn with
    | _ n ih =>
      intro a hn hI
      obtain ⟨hd, hnx⟩ := h a hI
      cases hb : body a with
      | done r => exact ⟨r, by simp [iter, hb], hd r hb⟩
      | next a' =>
        obtain ⟨hI', hlt⟩ := hnx a' hb
        obtain ⟨r, hr, hq⟩ := ih (μ a') (by omega) a' rfl hI'
        refine ⟨r, ?_, hq⟩
        simp only [iter, hb]
        exact iter_mono body _ _ _ hr _ (by omega)
  intro a hI
  exact key _ a rfl hI

theorem take_add_drop (l : Bytes) (a c : Nat) : l.take a ++ (l.drop a).take c = l.take (a + c) := by
  induction l generalizing a with
  | nil => simp
  | cons h t ih =>
    cases a with
    | zero => simp
    | succ a => simp [Nat.succ_add, ih]

section EncWrap
variable {τ : Type} {L : Lib τ} {b : Backend} {Dec : Bytes → Option Bytes}

theorem flag_fix (hL : LibEncContract L b Dec) {s : τ} {x y : Bytes} {f F : Bool} (hR : hL.R s x y f)
    (h : f = true → F = true) : hL.R s x y F := by
  cases f with
  | true => rw [h rfl]; exact hR
  | false =>
    cases F with
    | false => exact hR
    | true => exact hL.mono hR

/-- what one `process_data` call of a compressing backend achieves -/
def EncPost (hL : LibEncContract L b Dec) (s : τ) (x y : Bytes) (fin : Bool) (inp : Bytes) (room : Nat) (fl : Flush)
    (r : StepOut τ) : Prop :=
  r.res ≠ Res.error ∧ r.consumed ≤ inp.length ∧ r.out.length ≤ room ∧
  (r.res ≠ Res.streamEnd →
    hL.R r.st (x ++ inp.take r.consumed) (y ++ r.out) (fin || (decide (fl = Flush.full) && decide (r.consumed = inp.length)))) ∧
  (r.res = Res.streamEnd → fl = Flush.full ∧ r.consumed = inp.length ∧ hL.R r.st [] [] false ∧
    (x ++ inp ≠ [] → Dec (y ++ r.out) = some (x ++ inp))) ∧
  (0 < room → (inp ≠ [] ∨ (fl = Flush.full ∧ x ≠ [])) → r.res ≠ Res.streamEnd → 0 < r.consumed ∨ hL.pend r.st < hL.pend s)

theorem wrapProcess_enc_spec (hL : LibEncContract L b Dec) {s : τ} {x y : Bytes} {fin : Bool} (inp : Bytes) (room : Nat)
    (fl : Flush) (hR : hL.R s x y fin) (hP : Proto fin fl inp) :
    ∃ r, wrapProcess L b true s inp room fl = some r ∧ EncPost hL s x y fin inp room fl r := by
  let hyp : Prop := inp ≠ [] ∨ (fl = Flush.full ∧ x ≠ [])
  have main := iter_fuel (wrapBody L b true fl)
    (fun a => a.2.2.2.1 ≤ inp.length ∧ a.2.1 = inp.drop a.2.2.2.1 ∧ a.2.2.2.2.length ≤ room ∧ a.2.2.1 = room - a.2.2.2.2.length ∧
      ∃ f, hL.R a.1 (x ++ inp.take a.2.2.2.1) (y ++ a.2.2.2.2) f ∧
        (f = true → fin = true ∨ (fl = Flush.full ∧ a.2.2.2.1 = inp.length)) ∧ (fin = true → f = true) ∧
        (hyp → (a.1 = s ∧ a.2.2.2.1 = 0 ∧ a.2.2.2.2 = []) ∨ 0 < a.2.2.2.1 ∨ hL.pend a.1 < hL.pend s))
    (EncPost hL s x y fin inp room fl)
    (fun a => a.2.1.length + a.2.2.1) ?_ (s, inp, room, 0, [])
    ⟨Nat.zero_le _, by simp, by simp, by simp, fin, by simpa using hR, fun h => Or.inl h, fun h => h,
      fun _ => Or.inl ⟨rfl, rfl, rfl⟩⟩
  · obtain ⟨r, hr, hq⟩ := main
    refine ⟨r, ?_, hq⟩
    simp only [wrapProcess, wrapLoop]
    exact iter_mono _ _ _ _ hr _ (by simp)
  · rintro ⟨st, inp', room', ai, ao⟩ ⟨hai, hinp, hao, hroom, f, hRf, hf1, hf2, hprog⟩
    simp only at hai hinp hao hroom hRf hf1 hf2 hprog
    have hPf : Proto f fl inp' := by
      refine ⟨hP.1, fun hf => ?_⟩
      rcases hf1 hf with h | ⟨h1, h2⟩
      · obtain ⟨h1, h2⟩ := hP.2 h
        exact ⟨h1, by rw [hinp, h2]; simp⟩
      · exact ⟨h1, by rw [hinp, h2]; simp⟩
    by_cases hcond : ((decide (0 < inp'.length) || decide (fl = Flush.full)) && decide (0 < room')) = true
    · -- one library call
      have hr0 : 0 < room' := by simp only [Bool.and_eq_true, decide_eq_true_eq] at hcond; exact hcond.2
      have hret := hL.ret_ok inp' room' fl hRf hPf hr0
      have hcl := hL.consumed_le inp' room' fl hRf hPf hr0
      have hol := hL.out_le inp' room' fl hRf hPf hr0
      have hlen : inp'.length = inp.length - ai := by rw [hinp]; simp
      have hnoerr : isLibError b (L.call st inp' room' fl).ret = false := by
        rcases hret with h | h | ⟨h, _⟩ <;> rw [h] <;> cases b <;> rfl
      have hnobz : ¬ (b = Backend.bzip2 ∧ (L.call st inp' room' fl).ret = LibRet.bufError) := by
        rintro ⟨h1, h2⟩
        rcases hret with h | h | ⟨_, h⟩
        · rw [h] at h2; cases h2
        · rw [h] at h2; cases h2
        · exact h h1
      have htake : x ++ inp.take ai ++ inp'.take (L.call st inp' room' fl).consumed =
          x ++ inp.take (ai + (L.call st inp' room' fl).consumed) := by
        rw [List.append_assoc, hinp, take_add_drop]
      -- the flag after this call implies the flag the wrapper owes
      have hflag : (f || (decide (fl = Flush.full) && decide ((L.call st inp' room' fl).consumed = inp'.length))) = true →
          fin = true ∨ (fl = Flush.full ∧ ai + (L.call st inp' room' fl).consumed = inp.length) := by
        intro h
        simp only [Bool.or_eq_true, Bool.and_eq_true, decide_eq_true_eq] at h
        rcases h with h | ⟨h1, h2⟩
        · rcases hf1 h with h' | ⟨h1, h2⟩
          · exact Or.inl h'
          · exact Or.inr ⟨h1, by omega⟩
        · exact Or.inr ⟨h1, by omega⟩
      -- progress of the whole call, once this library call is not the end of the member
      have hprog' : (L.call st inp' room' fl).ret ≠ LibRet.streamEnd → hyp →
          0 < ai + (L.call st inp' room' fl).consumed ∨ hL.pend (L.call st inp' room' fl).st < hL.pend s := by
        intro hne hh
        by_cases hpos : 0 < ai + (L.call st inp' room' fl).consumed
        · exact Or.inl hpos
        · right
          have hai0 : ai = 0 := by omega
          have hinp0 : inp' = inp := by rw [hinp, hai0]; simp
          have hx0 : x ++ inp.take ai = x := by rw [hai0]; simp
          have hpre : inp' ≠ [] ∨ (fl = Flush.full ∧ x ++ inp.take ai ≠ []) := by
            rw [hinp0, hx0]; exact hh
          rcases hL.progress inp' room' fl hRf hPf hr0 hpre hne with h | h
          · omega
          · rcases hprog hh with ⟨h1, _, _⟩ | h1 | h1
            · rw [← h1]; exact h
            · omega
            · omega
      simp only [wrapBody, hcond, if_true, hnobz, if_false, hnoerr, Bool.false_eq_true, Bool.not_true, Bool.false_and]
      by_cases hend : (L.call st inp' room' fl).ret = LibRet.streamEnd
      · rw [if_pos hend]
        obtain ⟨h1, h2, h3, h4⟩ := hL.finish inp' room' fl hRf hPf hr0 hend
        refine ⟨?_, fun a' h => (by cases h)⟩
        intro r hr; cases hr
        refine ⟨by simp, by simp only; omega, by simp only [List.length_append]; omega, fun h => absurd rfl h, fun _ => ⟨h1, by simp only; omega, h3, ?_⟩,
          fun _ _ h => absurd rfl h⟩
        intro hne
        have e : x ++ inp.take ai ++ inp' = x ++ inp := by
          rw [List.append_assoc, hinp, List.take_append_drop]
        have h5 := h4 (by rw [e]; exact hne)
        rw [e] at h5
        simpa [List.append_assoc] using h5
      · rw [if_neg hend]
        have hkeep := hL.keep inp' room' fl hRf hPf hr0 hend
        rw [htake] at hkeep
        by_cases hbuf : (L.call st inp' room' fl).ret = LibRet.bufError
        · rw [if_pos hbuf]
          refine ⟨?_, fun a' h => (by cases h)⟩
          intro r hr; cases hr
          refine ⟨by simp, by simp only; omega, by simp only [List.length_append]; omega, fun _ => ?_, fun h => (by cases h), fun _ hh _ => hprog' hend hh⟩
          refine flag_fix hL (by simpa [List.append_assoc] using hkeep) ?_
          intro h
          show (fin || (decide (fl = Flush.full) && decide (ai + (L.call st inp' room' fl).consumed = inp.length))) = true
          rcases hflag h with h' | ⟨h1, h2⟩
          · simp [h']
          · rw [Bool.or_eq_true]; right
            simp only [Bool.and_eq_true, decide_eq_true_eq]; exact ⟨h1, h2⟩
        · rw [if_neg hbuf]
          have hok : (L.call st inp' room' fl).ret = LibRet.ok := by
            rcases hret with h | h | ⟨h, _⟩
            · exact h
            · exact absurd h hend
            · exact absurd h hbuf
          have hwork : inp' ≠ [] ∨ fl = Flush.full := by
            simp only [Bool.and_eq_true, Bool.or_eq_true, decide_eq_true_eq] at hcond
            rcases hcond.1 with h | h
            · left; intro h0; rw [h0] at h; simp at h
            · right; exact h
          have hbytes := hL.bytes inp' room' fl hRf hPf hr0 hwork hok
          refine ⟨fun r h => (by cases h), ?_⟩
          intro a' ha'; cases ha'
          refine ⟨⟨by simp only; omega, by simp only; rw [hinp, List.drop_drop], by simp only [List.length_append]; omega,
            by simp only [List.length_append]; omega, _, by simpa [List.append_assoc] using hkeep, hflag, ?_, ?_⟩, ?_⟩
          · intro h; simp [hf2 h]
          · intro hh
            rcases hprog' hend hh with h | h
            · exact Or.inr (Or.inl h)
            · exact Or.inr (Or.inr h)
          · simp only [List.length_drop]; omega
    · -- the loop condition is false: leave with XFRM_STREAM_OK
      simp only [wrapBody, hcond, Bool.false_eq_true, if_false]
      refine ⟨?_, fun a' h => (by cases h)⟩
      intro r hr; cases hr
      refine ⟨by simp, hai, hao, fun _ => ?_, fun h => (by cases h), fun hr0 hh _ => ?_⟩
      · refine flag_fix hL hRf ?_
        intro h
        show (fin || (decide (fl = Flush.full) && decide (ai = inp.length))) = true
        rcases hf1 h with h' | ⟨h1, h2⟩
        · simp [h']
        · rw [Bool.or_eq_true]; right
          simp only [Bool.and_eq_true, decide_eq_true_eq]; exact ⟨h1, h2⟩
      · rcases hprog hh with ⟨h1, h2, h3⟩ | h | h
        · -- no library call has been made although there is room and work: impossible
          exfalso
          apply hcond
          have hr' : 0 < room' := by rw [hroom, h3]; simpa using hr0
          have : 0 < inp'.length ∨ fl = Flush.full := by
            rcases hh with h | ⟨h, _⟩
            · left; rw [hinp, h2]
              cases inp with
              | nil => exact absurd rfl h
              | cons a t => simp
            · right; exact h
          rcases this with h | h <;> simp [h, hr']
        · exact Or.inl h
        · exact Or.inr h

/-- the compressing backend object is a codec that meets the encoder contract -/
def wrapEncContract (hL : LibEncContract L b Dec) : EncContract (wrapCodec L b true) Dec where
  R := hL.R
  pend := hL.pend
  init := hL.init
  no_error := by
    intro s x y fin inp room fl hR hP
    obtain ⟨r, hr, hq⟩ := wrapProcess_enc_spec hL inp room fl hR hP
    simp only [wrapCodec, hr]; exact hq.1
  consumed_le := by
    intro s x y fin inp room fl hR hP
    obtain ⟨r, hr, hq⟩ := wrapProcess_enc_spec hL inp room fl hR hP
    simp only [wrapCodec, hr]; exact hq.2.1
  out_le := by
    intro s x y fin inp room fl hR hP
    obtain ⟨r, hr, hq⟩ := wrapProcess_enc_spec hL inp room fl hR hP
    simp only [wrapCodec, hr]; exact hq.2.2.1
  keep := by
    intro s x y fin inp room fl hR hP
    obtain ⟨r, hr, hq⟩ := wrapProcess_enc_spec hL inp room fl hR hP
    simp only [wrapCodec, hr]; exact hq.2.2.2.1
  finish := by
    intro s x y fin inp room fl hR hP
    obtain ⟨r, hr, hq⟩ := wrapProcess_enc_spec hL inp room fl hR hP
    simp only [wrapCodec, hr]
    intro he
    obtain ⟨a, b', c, d⟩ := hq.2.2.2.2.1 he
    exact ⟨by rw [a]; simp, b', c, d⟩
  progress := by
    intro s x y fin inp room fl hR hP
    obtain ⟨r, hr, hq⟩ := wrapProcess_enc_spec hL inp room fl hR hP
    simp only [wrapCodec, hr]; exact hq.2.2.2.2.2

end EncWrap

/-! ### non-vacuity: the toy library meets the library-level contract, under each backend's convention -/
namespace Toy

theorem encLib_call (P : Params) (b : Backend) (s : LibSt Enc) (inp : Bytes) (room : Nat) (fl : Flush) :
    ((encLib P b).call s inp room fl).st = ⟨(encStep P s.eng inp room fl).st, s.total + (encStep P s.eng inp room fl).consumed⟩ ∧
    ((encLib P b).call s inp room fl).consumed = (encStep P s.eng inp room fl).consumed ∧
    ((encLib P b).call s inp room fl).out = (encStep P s.eng inp room fl).out ∧
    ((encLib P b).call s inp room fl).ret =
      (if (encStep P s.eng inp room fl).res = Res.streamEnd then LibRet.streamEnd
       else if (encStep P s.eng inp room fl).consumed = 0 ∧ (encStep P s.eng inp room fl).out.length = 0 then stuckRet b
       else LibRet.ok) := ⟨rfl, rfl, rfl, rfl⟩

def encLibContract (P : Params) (b : Backend) : LibEncContract (encLib P b) b decode where
  R s x y fin := EncR s.eng x y fin
  pend s := encPend s.eng
  init := (encContract P).init
  mono := fun h => ⟨h.1, fun _ => rfl⟩
  ret_ok := by
    intro s x y fin inp room fl _ _ _
    obtain ⟨_, _, _, h4⟩ := encLib_call P b s inp room fl
    rw [h4]
    split
    · exact Or.inr (Or.inl rfl)
    · split
      · unfold stuckRet
        split
        · exact Or.inl rfl
        · rename_i hb; exact Or.inr (Or.inr ⟨rfl, hb⟩)
      · exact Or.inl rfl
  consumed_le := by
    intro s x y fin inp room fl hR hP _
    exact (encContract P).consumed_le inp room fl hR hP
  out_le := by
    intro s x y fin inp room fl hR hP _
    exact (encContract P).out_le inp room fl hR hP
  keep := by
    intro s x y fin inp room fl hR hP _ hne
    obtain ⟨h1, h2, h3, h4⟩ := encLib_call P b s inp room fl
    rw [h1, h2, h3]
    apply (encContract P).keep inp room fl hR hP
    intro he
    apply hne
    rw [h4]
    change (encStep P s.eng inp room fl).res = Res.streamEnd at he
    rw [if_pos he]
  finish := by
    intro s x y fin inp room fl hR hP hroom he
    obtain ⟨h1, h2, h3, h4⟩ := encLib_call P b s inp room fl
    have hend : (encStep P s.eng inp room fl).res = Res.streamEnd := by
      rw [h4] at he
      split at he
      · assumption
      · split at he
        · unfold stuckRet at he; split at he <;> cases he
        · cases he
    obtain ⟨_, f2, f3, f4⟩ := (encContract P).finish inp room fl hR hP hend
    have f1 : fl = Flush.full := by
      rw [encStep_eq P s.eng inp room fl hroom] at hend
      split at hend
      · rename_i hc
        simp only [Bool.and_eq_true, encFin, Bool.or_eq_true, decide_eq_true_eq] at hc
        rcases hc.1 with h | h
        · exact (hP.2 (hR.2 h)).1
        · exact h.1
      · cases hend
    rw [h2, h3]
    refine ⟨f1, f2, ?_, f4⟩
    exact (encContract P).init
  progress := by
    intro s x y fin inp room fl hR hP hr hin hne
    obtain ⟨h1, h2, h3, h4⟩ := encLib_call P b s inp room fl
    rw [h1, h2]
    apply (encContract P).progress inp room fl hR hP hr hin
    intro he
    apply hne
    rw [h4]
    change (encStep P s.eng inp room fl).res = Res.streamEnd at he
    rw [if_pos he]
  bytes := by
    intro s x y fin inp room fl hR hP hr hwork hok
    obtain ⟨h1, h2, h3, h4⟩ := encLib_call P b s inp room fl
    rw [h2, h3]
    by_cases hstuck : (encStep P s.eng inp room fl).consumed = 0 ∧ (encStep P s.eng inp room fl).out.length = 0
    · -- with room and work to do the engine is never stuck
      exfalso
      obtain ⟨hc, ho⟩ := hstuck
      rw [encStep_eq P s.eng inp room fl hr] at hc ho
      have hn : encN P s.eng inp = 0 := by split at hc <;> exact hc
      have hm : encM P s.eng inp room fl = 0 ∨ (encQ P s.eng inp fl).length = 0 := by
        have : ((encQ P s.eng inp fl).take (encM P s.eng inp room fl)).length = 0 := by split at ho <;> exact ho
        rw [List.length_take] at this; omega
      have hq0 : (encQ P s.eng inp fl).length = 0 := by
        rcases hm with h | h
        · unfold encM at h; omega
        · exact h
      have hql := encQ_length P s.eng inp fl
      rw [hq0, hn] at hql
      simp only [List.take_zero, encBytes, List.length_nil, Nat.add_zero] at hql
      -- so the queue is empty, nothing was taken in and no terminator was queued
      have hfinq : ¬ (encFin P s.eng inp fl = true ∧ s.eng.fin = false) := by
        rintro ⟨h1', h2'⟩; simp [h1', h2'] at hql
      cases hf : s.eng.fin with
      | true =>
        -- finishing with an empty queue is the end of the member: the call would have answered STREAM_END
        have hfin : encFin P s.eng inp fl = true := by simp [encFin, hf]
        rw [h4, encStep_eq P s.eng inp room fl hr] at hok
        simp [hfin, hq0, List.length_drop] at hok
      | false =>
        have hnofin : encFin P s.eng inp fl = false := by
          cases h : encFin P s.eng inp fl with
          | false => rfl
          | true => exact absurd ⟨h, hf⟩ hfinq
        have hsq : s.eng.q.length = 0 := by omega
        simp only [encFin, hf, Bool.false_or, Bool.and_eq_false_iff, decide_eq_false_iff_not] at hnofin
        simp only [encN, hf, Bool.false_eq_true, if_false, hsq, Nat.zero_le, if_true] at hn hnofin
        have hlen : inp.length = 0 := by omega
        rcases hwork with h | h
        · exact h (List.eq_nil_of_length_eq_zero hlen)
        · rcases hnofin with h' | h'
          · exact h' h
          · rw [hlen] at h'; simp at h'
    · have : ¬ ((encStep P s.eng inp room fl).consumed = 0 ∧ (encStep P s.eng inp room fl).out.length = 0) := hstuck
      omega

end Toy


end Sqfs.Xfrm
