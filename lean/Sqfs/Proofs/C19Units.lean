import Sqfs.Model.C19Units
import Sqfs.Proofs.ObjKinds
/-! Lemmas about the unit models of the generic containers (C19): answers depend on the used part of an array only. -/
namespace Sqfs.C19U
open Sqfs.Obj.Kinds Sqfs.Rb

theorem arrStep_data (sz : Nat) (t u : ByteArr) (h : t.data = u.data) (op : ArrOp) :
    (arrStep sz t op).2 = (arrStep sz u op).2 ∧ (arrStep sz t op).1.data = (arrStep sz u op).1.data := by
  cases op with
  | app x => simp [arrStep, Arr.append_data, h]
  | get i => simp [arrStep, h]
  | set i x =>
    have hs := Arr.set_data t u h i (fit sz x)
    simp only [arrStep]
    cases ht : t.set i (fit sz x) <;> cases hu : u.set i (fit sz x) <;> simp_all
  | used => simp [arrStep, h]

theorem arrRun_data (sz : Nat) (ops : List ArrOp) : ∀ (t u : ByteArr), t.data = u.data → arrRun sz t ops = arrRun sz u ops := by
  induction ops with
  | nil => intros; rfl
  | cons op ops ih =>
    intro t u h
    have := arrStep_data sz t u h op
    simp only [arrRun]
    rw [this.1, ih _ _ this.2]

theorem strCopy_eq (t : StrTable) : strCopy t = t := by
  unfold strCopy
  induction t with
  | nil => rfl
  | cons b r ih => simp [List.map, ih]

end Sqfs.C19U
