/-
C04 — slicing the fields back out of a 512-byte header record built by field-wise concatenation.

One general lemma (`slice_flatten_get`: the `i`-th field of a flattened field list sits at the sum of the
lengths before it), instantiated for the 17 fields of `rawHeader`; the offsets that come out are the
`offsetof`/`sizeof` values of `tar_header_t` (`Sqfs/Generated/Consts.lean`, regenerated from
`include/tar/format.h` on every run — the lemmas are *stated* with those constants, so a changed layout
breaks this file).  `update_checksum` only rewrites `[148, 156)`.
-/
import Sqfs.Proofs.TarHeaderRT
namespace Sqfs.Tar
open Sqfs.Consts

/-- offset of field `i` in the concatenation of `fs` -/
def offsetOf (fs : List Bytes) (i : Nat) : Nat := ((fs.take i).flatten).length

theorem slice_append_mid (a f b : Bytes) : slice (a ++ (f ++ b)) a.length f.length = f := by
  unfold slice
  rw [List.drop_left' rfl, List.take_left' rfl]

/-- **general slicing lemma**: the `i`-th field of a record built by concatenating `fs` -/
theorem slice_flatten_get (fs : List Bytes) (i : Nat) (h : i < fs.length) :
    slice fs.flatten (offsetOf fs i) (fs[i]).length = fs[i] := by
  unfold offsetOf
  have e : fs = fs.take i ++ fs[i] :: fs.drop (i + 1) := by
    rw [List.getElem_cons_drop, List.take_append_drop]
  conv => lhs; arg 1; rw [e]
  rw [List.flatten_append, List.flatten_cons]
  exact slice_append_mid _ _ _

/-- the fields of `rawHeader`, in struct order -/
def rawFields (name : Bytes) (mode uid gid size : Nat) (mtime : Int) (typeflag : UInt8) (linkname : Bytes)
    (maj min : Nat) : List Bytes :=
  [name, writeNumber mode 8, writeNumber uid 8, writeNumber gid 8, writeNumber size 12, writeNumberSigned mtime 12,
   zeros 8, [typeflag], linkname, magicOld, versionOld, field 32 (decStr uid), field 32 (decStr gid),
   writeNumber maj 8, writeNumber min 8, zeros 167]

theorem rawHeader_eq_flatten (name : Bytes) (mode uid gid size : Nat) (mtime : Int) (tf : UInt8) (linkname : Bytes)
    (maj min : Nat) :
    rawHeader name mode uid gid size mtime tf linkname maj min =
      (rawFields name mode uid gid size mtime tf linkname maj min).flatten := by
  simp only [rawHeader, rawFields, List.flatten_cons, List.flatten_nil, List.append_assoc, List.append_nil]

/-! ### the fields of `rawHeader` at the struct offsets -/

section fields
set_option linter.unusedSectionVars false
variable (name : Bytes) (mode uid gid size : Nat) (mtime : Int) (tf : UInt8) (linkname : Bytes) (maj min : Nat)
  (hn : name.length = tarSizeofName) (hl : linkname.length = tarSizeofLinkname)

include hn hl

local macro "field_slice" i:num : tactic =>
  `(tactic| (
    rw [rawHeader_eq_flatten]
    have h := slice_flatten_get (rawFields name mode uid gid size mtime tf linkname maj min) $i (by simp [rawFields])
    simp only [tarSizeofName, tarSizeofLinkname] at hn hl
    simpa [offsetOf, rawFields, hn, hl, writeNumber_length, writeNumberSigned_length, zeros_length, field_length,
      magicOld, versionOld, tarOffName, tarSizeofName, tarOffMode, tarOffUid, tarOffGid, tarOffSize, tarOffMtime, tarOffTypeflag,
      tarOffLinkname, tarSizeofLinkname, tarOffMagic, tarOffVersion, tarOffDevmajor, tarOffDevminor, tarSizeofNum8,
      tarSizeofNum12] using h))

theorem raw_name : slice (rawHeader name mode uid gid size mtime tf linkname maj min) tarOffName tarSizeofName = name := by
  field_slice 0
theorem raw_mode : slice (rawHeader name mode uid gid size mtime tf linkname maj min) tarOffMode tarSizeofNum8 = writeNumber mode 8 := by
  field_slice 1
theorem raw_uid : slice (rawHeader name mode uid gid size mtime tf linkname maj min) tarOffUid tarSizeofNum8 = writeNumber uid 8 := by
  field_slice 2
theorem raw_gid : slice (rawHeader name mode uid gid size mtime tf linkname maj min) tarOffGid tarSizeofNum8 = writeNumber gid 8 := by
  field_slice 3
theorem raw_size : slice (rawHeader name mode uid gid size mtime tf linkname maj min) tarOffSize tarSizeofNum12 = writeNumber size 12 := by
  field_slice 4
theorem raw_mtime : slice (rawHeader name mode uid gid size mtime tf linkname maj min) tarOffMtime tarSizeofNum12 = writeNumberSigned mtime 12 := by
  field_slice 5
theorem raw_typeflag : slice (rawHeader name mode uid gid size mtime tf linkname maj min) tarOffTypeflag 1 = [tf] := by
  field_slice 7
theorem raw_linkname : slice (rawHeader name mode uid gid size mtime tf linkname maj min) tarOffLinkname tarSizeofLinkname = linkname := by
  field_slice 8
theorem raw_magic : slice (rawHeader name mode uid gid size mtime tf linkname maj min) tarOffMagic 6 = magicOld := by
  field_slice 9
theorem raw_version : slice (rawHeader name mode uid gid size mtime tf linkname maj min) tarOffVersion 2 = versionOld := by
  field_slice 10
theorem raw_devmajor : slice (rawHeader name mode uid gid size mtime tf linkname maj min) tarOffDevmajor tarSizeofNum8 = writeNumber maj 8 := by
  field_slice 13
theorem raw_devminor : slice (rawHeader name mode uid gid size mtime tf linkname maj min) tarOffDevminor tarSizeofNum8 = writeNumber min 8 := by
  field_slice 14

/-- the ustar `prefix` field (and the rest of the `tail` union) stays zero: the writer never splits a name -/
theorem raw_prefix : slice (rawHeader name mode uid gid size mtime tf linkname maj min) tarOffPrefix tarSizeofPrefix = zeros 155 := by
  rw [rawHeader_eq_flatten]
  have h := slice_flatten_get (rawFields name mode uid gid size mtime tf linkname maj min) 15 (by simp [rawFields])
  simp only [tarSizeofName, tarSizeofLinkname] at hn hl
  have h' : slice (rawFields name mode uid gid size mtime tf linkname maj min).flatten 345 167 = zeros 167 := by
    simpa [offsetOf, rawFields, hn, hl, writeNumber_length, writeNumberSigned_length, zeros_length, field_length,
      magicOld, versionOld] using h
  unfold slice at h' ⊢
  simp only [tarOffPrefix, tarSizeofPrefix]
  have : List.take 155 (List.drop 345 (rawFields name mode uid gid size mtime tf linkname maj min).flatten) =
      List.take 155 (List.take 167 (List.drop 345 (rawFields name mode uid gid size mtime tf linkname maj min).flatten)) := by
    rw [List.take_take]; rfl
  rw [this, h']
  simp [zeros, List.take_replicate]

end fields

/-! ### `update_checksum` rewrites only `[148, 156)` -/

theorem slice_append_left (a b : Bytes) (off n : Nat) (h : off + n ≤ a.length) : slice (a ++ b) off n = slice a off n := by
  unfold slice
  rw [List.drop_append_of_le_length (by omega), List.take_append_of_le_length (by simp; omega)]

theorem slice_append_right (a b : Bytes) (off n : Nat) (h : a.length ≤ off) : slice (a ++ b) off n = slice b (off - a.length) n := by
  unfold slice
  rw [List.drop_append, List.drop_of_length_le h, List.nil_append]

theorem slice_take (h : Bytes) (k off n : Nat) (hb : off + n ≤ k) : slice (h.take k) off n = slice h off n := by
  unfold slice
  rw [List.drop_take, List.take_take, Nat.min_eq_left (by omega)]

theorem slice_drop (h : Bytes) (k off n : Nat) : slice (h.drop k) off n = slice h (k + off) n := by
  unfold slice
  rw [List.drop_drop]

theorem slice_updateChecksum_lo (h : Bytes) (off n : Nat) (hl : h.length = tarSizeofHeader) (hb : off + n ≤ tarOffChksum) :
    slice (updateChecksum h) off n = slice h off n := by
  simp only [tarSizeofHeader, tarOffChksum] at hl hb
  unfold updateChecksum
  rw [List.append_assoc, slice_append_left _ _ _ _ (by simp [hl]; omega), slice_take _ _ _ _ hb]

theorem slice_updateChecksum_hi (h : Bytes) (off n : Nat) (hl : h.length = tarSizeofHeader)
    (hb : tarOffChksum + tarSizeofChksum ≤ off) : slice (updateChecksum h) off n = slice h off n := by
  simp only [tarSizeofHeader, tarOffChksum, tarSizeofChksum] at hl hb
  unfold updateChecksum
  have hlen : (h.take 148 ++ chksumField (computeChecksum h)).length = 156 := by
    simp only [List.length_append, List.length_take, chksumField, octDigits_length, hl, List.length_cons, List.length_nil]
    omega
  have h1 := slice_append_right (h.take 148 ++ chksumField (computeChecksum h)) (h.drop 156) off n (by rw [hlen]; omega)
  rw [h1, slice_drop, hlen]
  have : 156 + (off - 156) = off := by omega
  rw [this]

end Sqfs.Tar
