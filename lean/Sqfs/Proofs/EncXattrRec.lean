/-
C01 — the record side of the xattr writer: what index `sqfs_xattr_writer_end` hands out.
-/
import Sqfs.Model.EncXattr
namespace Sqfs.Enc
open Sqfs.Consts

theorem insertPair_length (p : Nat × Nat) (l : List (Nat × Nat)) : (insertPair p l).length = l.length + 1 := by
  induction l with
  | nil => rfl
  | cons e r ih => simp only [insertPair]; split <;> simp [ih]

theorem sortPairs_length (l : List (Nat × Nat)) : (sortPairs l).length = l.length := by
  induction l with
  | nil => rfl
  | cons e r ih => simp [sortPairs, insertPair_length, ih]

theorem insertPair_mem (p q : Nat × Nat) (l : List (Nat × Nat)) : q ∈ insertPair p l ↔ q = p ∨ q ∈ l := by
  induction l with
  | nil => simp [insertPair]
  | cons e r ih =>
    simp only [insertPair]
    split
    · simp
    · simp only [List.mem_cons, ih]
      constructor
      · rintro (h | h | h) <;> simp [h]
      · rintro (h | h | h) <;> simp [h]

/-- sorting neither loses nor invents a pair -/
theorem sortPairs_mem (q : Nat × Nat) (l : List (Nat × Nat)) : q ∈ sortPairs l ↔ q ∈ l := by
  induction l with
  | nil => simp [sortPairs]
  | cons e r ih => simp [sortPairs, insertPair_mem, ih]

/-- a block that lies in front of position `k` is not touched by replacing what follows `k` -/
theorem blockPairs_stable (l x : List (Nat × Nat)) (k : Nat) (b : Nat × Nat) (hk : k ≤ l.length) (hb : b.1 + b.2 ≤ k) :
    blockPairs (l.take k ++ x) b = blockPairs l b := by
  unfold blockPairs
  have h1 : (l.take k ++ x).drop b.1 = (l.take k).drop b.1 ++ x := by
    rw [List.drop_append_of_le_length (by simp; omega)]
  rw [h1, List.take_append_of_le_length (by simp; omega), List.drop_take, List.take_take]
  congr 1
  omega

/-- **`sqfs_xattr_writer_end`.**  With the blocks recorded so far lying in front of `kv_start`:
an empty set gets `0xFFFFFFFF` and changes nothing; a non-empty set gets the index of a block whose pairs are exactly
the set's pairs, sorted — a new block, or an existing block with the same pairs (equal sets are stored once); no earlier
block changes; keys and values are untouched; the blocks again lie in front of the end of the pair array. -/
theorem endSet_spec (w : XWriter) (hk : w.kvStart ≤ w.pairs.length) (hb : ∀ b ∈ w.blocks, b.1 + b.2 ≤ w.kvStart) :
    (w.pairs.length = w.kvStart → endSet w = (w, NONE32))
    ∧ (w.kvStart < w.pairs.length →
        (endSet w).2 < (endSet w).1.blocks.length
        ∧ blockPairs (endSet w).1.pairs ((endSet w).1.blocks.getD (endSet w).2 (0, 0)) = sortPairs (w.pairs.drop w.kvStart)
        ∧ (∀ i, i < w.blocks.length → (endSet w).1.blocks.getD i (0, 0) = w.blocks.getD i (0, 0)
              ∧ blockPairs (endSet w).1.pairs (w.blocks.getD i (0, 0)) = blockPairs w.pairs (w.blocks.getD i (0, 0)))
        ∧ (∀ b ∈ (endSet w).1.blocks, b.1 + b.2 ≤ (endSet w).1.pairs.length)
        ∧ (endSet w).1.keys = w.keys ∧ (endSet w).1.values = w.values) := by
  constructor
  · intro h
    unfold endSet
    simp [h]
  · intro hlt
    have hne : ¬ (w.pairs.length - w.kvStart = 0) := by omega
    have hslen : (sortPairs (w.pairs.drop w.kvStart)).length = w.pairs.length - w.kvStart := by
      rw [sortPairs_length, List.length_drop]
    have hstab : ∀ b ∈ w.blocks, blockPairs (w.pairs.take w.kvStart ++ sortPairs (w.pairs.drop w.kvStart)) b = blockPairs w.pairs b :=
      fun b hbm => blockPairs_stable w.pairs _ w.kvStart b hk (hb b hbm)
    have hstab0 : ∀ b ∈ w.blocks, blockPairs (w.pairs.take w.kvStart) b = blockPairs w.pairs b := by
      intro b hbm
      have := blockPairs_stable w.pairs [] w.kvStart b hk (hb b hbm)
      simpa using this
    unfold endSet
    simp only [hne, if_false]
    split
    · -- an equal block exists
      rename_i hj
      generalize hjdef : List.idxOf (sortPairs (w.pairs.drop w.kvStart))
        (w.blocks.map (blockPairs (w.pairs.take w.kvStart ++ sortPairs (w.pairs.drop w.kvStart)))) = j at hj
      have hget : (w.blocks.map (blockPairs (w.pairs.take w.kvStart ++ sortPairs (w.pairs.drop w.kvStart))))[j]'(by simpa using hj)
          = sortPairs (w.pairs.drop w.kvStart) := by
        subst hjdef; exact List.getElem_idxOf _
      have hmemj : w.blocks[j] ∈ w.blocks := List.getElem_mem hj
      refine ⟨hj, ?_, ?_, ?_, rfl, rfl⟩
      · simp only [List.getD_eq_getElem?_getD, List.getElem?_eq_getElem hj, Option.getD_some]
        rw [hstab0 _ hmemj, ← hstab _ hmemj]
        simpa using hget
      · intro i hi
        refine ⟨rfl, ?_⟩
        simp only [List.getD_eq_getElem?_getD, List.getElem?_eq_getElem hi, Option.getD_some]
        exact hstab0 _ (List.getElem_mem hi)
      · intro b hbm
        simp only [List.length_take]
        have := hb b hbm
        omega
    · -- a new block
      simp only [List.length_append, List.length_cons, List.length_nil]
      refine ⟨by omega, ?_, ?_, ?_, trivial, trivial⟩
      · simp only [List.getD_eq_getElem?_getD, List.getElem?_append_right (Nat.le_refl _), Nat.sub_self, List.getElem?_cons_zero,
          Option.getD_some]
        unfold blockPairs
        simp only
        have : (w.pairs.take w.kvStart ++ sortPairs (w.pairs.drop w.kvStart)).drop w.kvStart = sortPairs (w.pairs.drop w.kvStart) := by
          have hl : (w.pairs.take w.kvStart).length = w.kvStart := by simp; omega
          conv => lhs; arg 1; rw [← hl]
          rw [List.drop_left]
        rw [this, ← hslen, List.take_length]
      · intro i hi
        refine ⟨?_, ?_⟩
        · simp only [List.getD_eq_getElem?_getD, List.getElem?_append_left hi]
        · simp only [List.getD_eq_getElem?_getD, List.getElem?_eq_getElem hi, Option.getD_some]
          exact hstab _ (List.getElem_mem hi)
      · intro b hbm
        simp only [List.length_append, List.length_take, hslen]
        rcases List.mem_append.mp hbm with h | h
        · have := hb b h; omega
        · simp only [List.mem_singleton] at h; subst h; simp only; omega

end Sqfs.Enc
