/-
C02, `packRef = specPack`, part 1: the closed form of the front end.  `feFile` (the loop of `append`, then `end_file`)
submits the full blocks `Pack.fullBlocks` (the first one flagged `FIRST`), then the tail end `Pack.tailOf` — as a data
block with `LAST` under `DONT_FRAGMENT`, else as a fragment, preceded by a size-0 sentinel with `LAST` when the file has a
full block — or just the sentinel when the size is a multiple of the block size.  An empty file submits nothing.
-/
import Sqfs.Proofs.BPSPDefs
namespace Sqfs.BlockProc
open Sqfs.Consts
open Sqfs.BlockWriter (hasFlag)

theorem clearFlag_idem (g c : Nat) : clearFlag (clearFlag g c) c = clearFlag g c := by
  unfold clearFlag; rw [Nat.and_assoc, Nat.and_self]

/-- blocks numbered from `i`: the first one carries the flags `a`, the others `b` -/
def mkItems (a b : Nat) (ino : Option Nat) : Nat → List Bytes → List Blk
  | _, [] => []
  | i, x :: xs => { flags := a, inode := ino, index := i, data := x } :: mkItems b b ino (i + 1) xs

/-! ### block decomposition -/

theorem fullBlocks_small (B : Nat) (d : Bytes) (h : d.length < B) : Sqfs.Pack.fullBlocks B d = [] := by
  unfold Sqfs.Pack.fullBlocks
  rw [Nat.div_eq_of_lt h]; rfl

theorem tailOf_small (B : Nat) (d : Bytes) (h : d.length < B) : Sqfs.Pack.tailOf B d = d := by
  unfold Sqfs.Pack.tailOf
  rw [Nat.div_eq_of_lt h]; simp

theorem blockAt_drop (B : Nat) (d : Bytes) (i : Nat) : Sqfs.Pack.blockAt B (d.drop B) i = Sqfs.Pack.blockAt B d (i + 1) := by
  unfold Sqfs.Pack.blockAt
  rw [List.drop_drop, Nat.add_mul, Nat.one_mul, Nat.add_comm]

theorem div_step (B n : Nat) (hB : 0 < B) (h : B ≤ n) : n / B = (n - B) / B + 1 := Nat.div_eq_sub_div hB h

theorem fullBlocks_step (B : Nat) (hB : 0 < B) (d : Bytes) (h : B ≤ d.length) :
    Sqfs.Pack.fullBlocks B d = d.take B :: Sqfs.Pack.fullBlocks B (d.drop B) := by
  unfold Sqfs.Pack.fullBlocks
  rw [div_step B d.length hB h, List.length_drop, List.range_succ_eq_map, List.map_cons, List.map_map]
  congr 1
  · simp [Sqfs.Pack.blockAt]
  · apply List.map_congr_left
    intro i _
    exact (blockAt_drop B d i).symm

theorem tailOf_step (B : Nat) (hB : 0 < B) (d : Bytes) (h : B ≤ d.length) :
    Sqfs.Pack.tailOf B d = Sqfs.Pack.tailOf B (d.drop B) := by
  unfold Sqfs.Pack.tailOf
  rw [div_step B d.length hB h, List.length_drop, List.drop_drop, Nat.add_mul, Nat.one_mul, Nat.add_comm]

/-! ### the loop of `append` -/

/-- the fields of the front end `end_file` looks at -/
structure GoRes (B : Nat) (f f' : Front) (d : Bytes) : Prop where
  flags : f'.blkFlags = clearFlag f.blkFlags blkFirstBlock
  inode : f'.inode = f.inode
  cur : f'.blkCurrent =
    if d.length % B = 0 then none
    else some { flags := if d.length / B = 0 then f.blkFlags else clearFlag f.blkFlags blkFirstBlock, inode := f.inode,
                index := f.blkIndex + d.length / B, data := Sqfs.Pack.tailOf B d }

theorem feAppendGo_none (B : Nat) (hB : 0 < B) : ∀ (n : Nat) (d : Bytes), d.length ≤ n → d ≠ [] → ∀ (fuel : Nat),
    3 * d.length ≤ fuel → ∀ f : Front, f.blkCurrent = none →
    ∃ f', feAppendGo B fuel f d =
        some (f', mkItems f.blkFlags (clearFlag f.blkFlags blkFirstBlock) f.inode f.blkIndex (Sqfs.Pack.fullBlocks B d)) ∧
      GoRes B f f' d := by
  intro n
  induction n with
  | zero => intro d h hne; exact absurd (List.eq_nil_of_length_eq_zero (by omega)) hne
  | succ n ih =>
    intro d hn hne fuel hfuel f hcur
    have hpos : 0 < d.length := List.length_pos_iff.mpr hne
    obtain ⟨fuel, rfl⟩ : ∃ k, fuel = k + 3 := ⟨fuel - 3, by omega⟩
    have h0 : ¬ d.length = 0 := by omega
    -- step 1: a new block
    rw [feAppendGo, if_neg h0, hcur]
    simp only
    -- step 2: fill it
    rw [feAppendGo, if_neg h0]
    simp only [List.length_nil, Nat.sub_zero, if_neg (Nat.ne_of_gt hB), List.nil_append]
    by_cases hlt : d.length < B
    · -- the data ends inside the block
      have hmin : min B d.length = d.length := by omega
      rw [hmin, List.drop_length, List.take_length, feAppendGo]
      simp only [List.length_nil, if_true, if_neg (Nat.ne_of_lt hlt)]
      refine ⟨?w, ?h1, ?h2⟩
      case h1 => rw [fullBlocks_small B d hlt]; rfl
      refine ⟨rfl, rfl, ?_⟩
      have hm : d.length % B = d.length := Nat.mod_eq_of_lt hlt
      simp only [hm, if_neg h0, Nat.div_eq_of_lt hlt, if_true, Nat.add_zero, tailOf_small B d hlt]
    · have hge : B ≤ d.length := by omega
      have hmin : min B d.length = B := by omega
      rw [hmin]
      by_cases heq : d.length = B
      · -- exactly one block
        have hdrop : d.drop B = [] := by rw [← heq, List.drop_length]
        have htake : d.take B = d := by rw [← heq, List.take_length]
        rw [hdrop, htake, feAppendGo]
        simp only [List.length_nil, if_true, heq]
        refine ⟨?w', ?h1', ?h2'⟩
        case h1' => rw [fullBlocks_step B hB d hge, hdrop, htake, fullBlocks_small B [] (by simpa using hB)]; rfl
        refine ⟨rfl, rfl, ?_⟩
        simp only [heq, Nat.mod_self, if_true]
      · -- the block is full and data remains
        have hrest : (d.drop B).length = d.length - B := List.length_drop
        have hrne : d.drop B ≠ [] := by
          intro h; rw [h] at hrest; simp at hrest; omega
        have hr0 : ¬ (d.drop B).length = 0 := by omega
        rw [feAppendGo, if_neg hr0]
        simp only [List.length_take, hmin, Nat.sub_self, if_true]
        obtain ⟨f', hgo, hres⟩ := ih (d.drop B) (by omega) hrne fuel (by omega)
          { f with blkCurrent := none, blkIndex := f.blkIndex + 1, blkFlags := clearFlag f.blkFlags blkFirstBlock } rfl
        rw [hgo]
        simp only [clearFlag_idem] at hres ⊢
        refine ⟨f', ?_, hres.flags.trans (clearFlag_idem _ _), hres.inode, ?_⟩
        · rw [fullBlocks_step B hB d hge]; rfl
        · rw [hres.cur, hrest, ← tailOf_step B hB d hge]
          have hd := div_step B d.length hB hge
          have hm : (d.length - B) % B = d.length % B := (Nat.mod_eq_sub_mod hge).symm
          rw [hm]
          by_cases hz : d.length % B = 0
          · simp only [hz, if_true]
          · simp only [hz, if_false, clearFlag_idem]
            have : ¬ d.length / B = 0 := by rw [hd]; exact Nat.succ_ne_zero _
            rw [if_neg this, ite_self]
            congr 2; omega

/-! ### one file -/

theorem userFlags_lt {fl : Nat} (h : fl &&& blkUserSettable = fl) : fl < 32 := by
  have : fl &&& blkUserSettable ≤ blkUserSettable := Nat.and_le_right
  rw [h] at this
  exact Nat.lt_succ_of_le this

theorem clear_first_user : ∀ fl, fl < 32 → clearFlag (fl ||| blkFirstBlock) blkFirstBlock = fl := by decide
theorem user_not_first : ∀ fl, fl < 32 → hasFlag fl blkFirstBlock = false := by decide
theorem user_or_first : ∀ fl, fl < 32 → hasFlag (fl ||| blkFirstBlock) blkFirstBlock = true := by decide

/-- data block `j` of file `id` (user flags `fl`) -/
def dataItem (fl id j : Nat) (d : Bytes) : Blk :=
  { flags := if j = 0 then fl ||| blkFirstBlock else fl, inode := some id, index := j, data := d }

def dataItems (fl id : Nat) : Nat → List Bytes → List Blk
  | _, [] => []
  | j, x :: xs => dataItem fl id j x :: dataItems fl id (j + 1) xs

/-- the size-0 block that only carries `LAST` -/
def sentinel (fl id : Nat) : Blk := { inode := some id, flags := fl ||| blkLastBlock }

/-- everything file `id` submits, in order -/
def fileItems (B id : Nat) (f : InFile) : List Blk :=
  if f.data.length = 0 then []
  else
    let fulls := dataItems f.flags id 0 (Sqfs.Pack.fullBlocks B f.data)
    if f.data.length % B = 0 then fulls ++ [sentinel f.flags id]
    else
      let cur := dataItem f.flags id (f.data.length / B) (Sqfs.Pack.tailOf B f.data)
      if hasFlag f.flags blkDontFragment then fulls ++ [{ cur with flags := cur.flags ||| blkLastBlock }]
      else fulls ++ ((if f.data.length / B = 0 then [] else [sentinel f.flags id]) ++
                     [{ cur with flags := cur.flags ||| blkIsFragment }])

theorem mkItems_succ (fl id : Nat) : ∀ (xs : List Bytes) (j : Nat),
    mkItems fl fl (some id) (j + 1) xs = dataItems fl id (j + 1) xs := by
  intro xs
  induction xs with
  | nil => intro j; rfl
  | cons x xs ih => intro j; simp only [mkItems, dataItems, dataItem, ih, Nat.succ_ne_zero, if_false]

theorem mkItems_zero (fl id : Nat) (xs : List Bytes) :
    mkItems (fl ||| blkFirstBlock) fl (some id) 0 xs = dataItems fl id 0 xs := by
  cases xs with
  | nil => rfl
  | cons x xs => simp only [mkItems, dataItems, dataItem, mkItems_succ, if_true]

theorem feFile_eq (B : Nat) (hB : 0 < B) (id : Nat) (f : InFile) (hfl : f.flags &&& blkUserSettable = f.flags) :
    feFile B id f = .ok (fileItems B id f) := by
  have hlt := userFlags_lt hfl
  unfold feFile fileItems
  rw [if_neg (by simp [hfl])]
  simp only
  by_cases h0 : f.data.length = 0
  · rw [if_pos h0, if_pos h0]
    simp [feEndItems, feBegin, user_or_first _ hlt]
  · rw [if_neg h0, if_neg h0]
    have hne : f.data ≠ [] := fun h => h0 (by simp [h])
    obtain ⟨f', hgo, hres⟩ := feAppendGo_none B hB f.data.length f.data (Nat.le_refl _) hne (3 * f.data.length + 3) (by omega)
      (feBegin {} id f.flags) rfl
    unfold feAppend
    rw [hgo]
    have hcl := clear_first_user _ hlt
    have hnf := user_not_first _ hlt
    have hof := user_or_first _ hlt
    simp only [feBegin, hcl, mkItems_zero] at hres ⊢
    obtain ⟨h1, h2, h3⟩ := hres
    simp only [hcl, Nat.zero_add] at h1 h2 h3
    congr 1
    unfold feEndItems feSentinel
    rw [h3, h1, h2]
    by_cases hr : f.data.length % B = 0
    · simp only [hr, if_true, hnf, Bool.not_false, sentinel]
    · simp only [hr, if_false, dataItem, sentinel]
      by_cases hdf : hasFlag f.flags blkDontFragment = true
      · simp only [hdf, if_true]
      · simp only [hdf, Bool.false_eq_true, if_false]
        by_cases hk : f.data.length / B = 0
        · simp only [hk, if_true, hof, Bool.not_true, Bool.false_eq_true, if_false]
        · simp only [hk, if_false, hnf, Bool.not_false, if_true]

end Sqfs.BlockProc
