/-
C02 helper lemmas, part 2: the invariant.

`PInv P s g held` ties a reachable state `s` of the implementation model to the three passes of the reference
(`Spec/BlockProcSpec.lean`) run on the *history*: `g.front` are the blocks the front end has submitted so far,
`g.done` (worked) the ones the pool has handed back, `F = fRun … g.done` the fragment pass on exactly those, and the
writer pass on the first `io_deq_seq_num` blocks of `F.stream`.  Everything the state contains is a function of that
history, except *where* blocks currently wait (pool, `io_queue`) and where fragment-block bytes currently live
(in-flight copy, cache, output file) — and those only up to the facts listed here.
-/
import Sqfs.Proofs.BPFront
import Sqfs.Proofs.BlockWriter
namespace Sqfs.BlockProc
open Sqfs.Consts
open Sqfs.BlockWriter (hasFlag)

/-! ### the fragment pass -/

/-- flags of a fragment block before the pool works on it: `FRAGMENT_BLOCK`, possibly `| DONT_COMPRESS` -/
def FBRawFlags (f : Nat) : Prop := f = blkFragmentBlock ∨ f = blkFragmentBlock ||| blkDontCompress

/-- `b` is the worked form of a closed fragment block with content `d` -/
def FBWorked (P : Params) (b : Blk) (d : Bytes) : Prop :=
  ∃ fb : Blk, FBRawFlags fb.flags ∧ fb.data = d ∧ b = processBlock P fb

structure FInv (P : Params) (n : Nat) (done : List Blk) (F : FSt) : Prop where
  seqs : ∀ i (h : i < F.stream.length), (F.stream[i]).seq = i
  opn : ∀ fb, F.opn = some fb → FBRawFlags fb.flags ∧ fb.index < F.ntbl ∧ 0 < fb.data.length ∧ fb.data.length ≤ P.B ∧
          (∀ e ∈ F.closed, e.1 ≠ fb.index)
  closedNodup : (F.closed.map (·.1)).Nodup
  closedOK : ∀ e ∈ F.closed, e.1 < F.ntbl ∧ 0 < e.2.length ∧ e.2.length ≤ P.B
  chunks : ∀ c ∈ F.ht, ∃ blk, F.fragData c.index = some blk ∧ c.offset + c.size ≤ blk.length ∧ 0 < c.size
  /-- the fragment blocks of the stream are the closed blocks, oldest first -/
  fbIdx : (F.stream.filter isFB).map (·.index) = (F.closed.map (·.1)).reverse
  fbs : ∀ b ∈ F.stream, isFB b = true → ∃ d, (b.index, d) ∈ F.closed ∧ FBWorked P b d
  /-- the other blocks of the stream are items of `done`, numbered -/
  datas : ∀ b ∈ F.stream, isFB b = false → ∃ x ∈ done, isFrag x = false ∧ b = x.withSeq b.seq
  effIds : ∀ e ∈ F.effs, e.id < n
  effProv : ∀ e ∈ F.effs, (∃ i o, e.e = .fragLoc i o) ∨
              (∃ k m x, e.e = .sparse k m ∧ x ∈ done ∧ isFrag x = true ∧ x.inode = some e.id ∧ x.index = k)
  proto : sproto false F.stream = true
  opened : F.stream.foldl bOpen false = done.foldl fOpen false

/-! ### the writer pass -/

/-- what the block writer's invariant (Proofs/BlockWriter.lean) gives for the blocks `written` so far -/
structure WInv (P : Params) (written : List Blk) (W : WSt) : Prop where
  inv : ∃ ps acc recs loose, BlockWriter.Inv P.pre W.wr ps (written.foldl bOpen false) acc recs loose ∧
          ∀ b ∈ written, isFB b = true →
            ∃ loc, (b.index, loc, sizeWord b) ∈ W.sets ∧ (⟨loc, [⟨sizeWord b, b.chk, b.data⟩]⟩ : BlockWriter.Rec) ∈ recs
  setsIdx : W.sets.map (·.1) = (written.filter isFB).map (·.index)
  effProv : ∀ e ∈ W.effs, (∃ loc, e.e = .start loc) ∨ (∃ k m, e.e = .sparse k m) ∨
              (∃ k v y, e.e = .word k v ∧ y ∈ written ∧ isFB y = false ∧ y.data ≠ [] ∧ y.inode = some e.id ∧ y.index = k)
  effIds : ∀ e ∈ W.effs, ∃ y ∈ written, isFB y = false ∧ y.inode = some e.id

/-! ### the state -/

structure Ghost where
  /-- blocks the front end has submitted so far, as submitted -/
  front : List Blk := []
  /-- worked front-end blocks the pool has handed back -/
  done : List Blk := []
  /-- worked front-end blocks still inside the pool -/
  pend : List Blk := []
  /-- everything inside the pool, FIFO: `pend` interleaved with closed fragment blocks -/
  items : List Blk := []
  /-- `finish` has closed the last fragment block -/
  fin : Bool := false
  /-- `size` updates so far -/
  fe : List Eff := []
  /-- all inode updates in the order the implementation applied them, and its fragment/writer part -/
  h : List Eff := []
  m : List Eff := []

def Ghost.F (P : Params) (g : Ghost) : FSt :=
  if g.fin then (fRun P {} g.done).close P else fRun P {} g.done

def boolNat (b : Bool) : Nat := if b then 1 else 0

/-- everything except the front end's own fields and the backlog counter; `F` is the fragment pass so far and `W` the
writer pass on the first `io_deq_seq_num` blocks of its stream -/
structure Back (P : Params) (s : Proc) (g : Ghost) (F : FSt) (W : WSt) : Prop where
  maxBacklog : 3 ≤ s.maxBacklog
  -- pool and queues
  pool : PoolOk s.pool g.items
  pend : g.items.filter (fun b => !isFB b) = g.pend
  worked : g.done ++ g.pend = g.front.map (processBlock P)
  deqLe : s.ioDeqSeqNum ≤ F.stream.length
  queue : (s.ioQueue ++ g.items.filter isFB).Perm (F.stream.drop s.ioDeqSeqNum)
  sorted : s.ioQueue.Pairwise (fun a b => a.seq < b.seq)
  -- what the front end submitted
  itemsOK : ∀ x ∈ g.front, ItemOK P.B s.w.inodes.length x
  fprotoOK : fproto false g.front = true
  -- fragment pass
  finv : FInv P s.w.inodes.length g.done F
  fragBlock : s.fragBlock = F.opn
  fragHt : s.fragHt = F.ht
  ioSeq : s.ioSeqNum = F.stream.length
  -- writer pass
  wrun : wRun { wr := BlockWriter.init P.pre } (F.stream.take s.ioDeqSeqNum) = .ok W
  winv : WInv P (F.stream.take s.ioDeqSeqNum) W
  wr : s.w.wr = W.wr
  calls : s.w.calls = W.calls
  fragTbl : s.w.fragTbl = applySets (List.replicate F.ntbl (0, 0)) W.sets
  inodes : s.w.inodes = applyEffs (List.replicate s.w.inodes.length {}) g.h
  mergeH : Merge g.h g.fe g.m
  mergeM : Merge g.m F.effs W.effs
  feIds : ∀ e ∈ g.fe, e.id < s.w.inodes.length ∧ ∃ k, e.e = .size k
  -- where fragment-block bytes live
  inFlSub : ∀ e ∈ s.fblkInFlight, e ∈ F.closed
  inFlNodup : (s.fblkInFlight.map (·.1)).Nodup
  inFlAll : P.byteCompare = true → ∀ b ∈ F.stream.drop s.ioDeqSeqNum, isFB b = true → b.index ∈ s.fblkInFlight.map (·.1)
  inFlNone : P.byteCompare = false → s.fblkInFlight = []
  cache : ∀ ci cd, s.cachedFragBlk = some (ci, cd) → (ci, cd) ∈ F.closed

/-- `backlog` counts the blocks inside the pool, in `io_queue`, the open fragment block, and `k` more
(`blk_current`, a block just obtained from `get_new_block`, a block just taken back from the pool) -/
def Acct (s : Proc) (g : Ghost) (k : Nat) : Prop :=
  s.backlog = g.items.length + s.ioQueue.length + boolNat s.fragBlock.isSome + k

/-- the invariant of the implementation model between two primitive steps; `held` = blocks the front end has
obtained from `get_new_block` and not yet stored in `blk_current` or submitted.  (The front end's own invariant,
`FrontInv P.B s.fe g.front s.w.inodes.length`, is carried next to it: draining the pool does not touch it.) -/
structure PInv (P : Params) (s : Proc) (g : Ghost) (held : Nat) (W : WSt) : Prop where
  back : Back P s g (g.F P) W
  acct : Acct s g (boolNat s.blkCurrent.isSome + held)
  finNoPend : g.fin = true → g.pend = []

end Sqfs.BlockProc
