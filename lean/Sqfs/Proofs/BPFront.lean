/-
C02 helper lemmas, part 1b: what the front end submits.  `FrontInv` is an invariant of the pure front end
(`feBegin` / the steps of `feAppendGo` / `feEnd` of Spec/BlockProcSpec.lean): every submitted block is well formed,
the `FIRST`/`LAST` protocol of `write_data_block` is respected, a fragment is only submitted between files, and a
fragment's index differs from the index of every stored data block of its file.
-/
import Sqfs.Proofs.BPBasic
namespace Sqfs.BlockProc
open Sqfs.Consts
open Sqfs.BlockWriter (hasFlag)

/-- the contract assumed of the block codec (trusted base) -/
structure CodecOk (c : Codec) : Prop where
  roundTrip : ∀ x z, c.cmp x = some z → c.unc z = some x
  smaller : ∀ x z, c.cmp x = some z → z.length < x.length

def isFB (b : Blk) : Bool := hasFlag b.flags blkFragmentBlock
def isFrag (b : Blk) : Bool := hasFlag b.flags blkIsFragment
def isFirst (b : Blk) : Bool := hasFlag b.flags blkFirstBlock
def isLast (b : Blk) : Bool := hasFlag b.flags blkLastBlock

/-! ### the pool under the serial behaviour -/

/-- the pool holds exactly `items` (worked), in FIFO order, and no worker has failed -/
structure PoolOk (p : PoolSt) (items : List Blk) : Prop where
  status : p.ser.status = 0
  queue : p.ser.queue.map (fun id => p.table[id]?) = items.map some

/-! ### blocks the front end submits -/

/-- a block handed to `enqueue_block` by the front end (`n` = number of inodes, `B` = block size) -/
structure ItemOK (B n : Nat) (x : Blk) : Prop where
  notFB : hasFlag x.flags blkFragmentBlock = false
  notManual : hasFlag x.flags blkFlagManualSubmission = false
  ino : ∃ id, x.inode = some id ∧ id < n
  size : x.data.length ≤ B
  frag : hasFlag x.flags blkIsFragment = true → x.data ≠ []

/-- `write_data_block` protocol state after a block (`nextOpened` of Proofs/BlockWriter.lean) -/
def bOpen (o : Bool) (b : Blk) : Bool := if isLast b then false else o || isFirst b

/-- the front end's view: fragments never reach the writer -/
def fOpen (o : Bool) (x : Blk) : Bool := if isFrag x then o else bOpen o x

/-- every `LAST` is preceded by a `FIRST`, and a fragment is only submitted between files -/
def fproto : Bool → List Blk → Bool
  | _, [] => true
  | o, x :: r => (if isFrag x then !o else (!isLast x || o || isFirst x)) && fproto (fOpen o x) r

/-- the same for the numbered stream: a fragment block is only written between files -/
def sproto : Bool → List Blk → Bool
  | _, [] => true
  | o, b :: r => (if isFB b then !o else (!isLast b || o || isFirst b)) && sproto (bOpen o b) r

/-- a fragment's block index differs from the index of every stored data block of the same file -/
def FragIdx (front : List Blk) : Prop :=
  ∀ x ∈ front, ∀ y ∈ front, isFrag x = true → isFrag y = false → y.data ≠ [] → x.inode = y.inode → x.index ≠ y.index


/-! ### `FrontInv` -/

/-- flag words the front end keeps in `blk_flags` / in the open block: nothing private, neither `LAST` nor `IS_FRAGMENT` -/
structure FlagsClean (fl : Nat) : Prop where
  notFB : hasFlag fl blkFragmentBlock = false
  notManual : hasFlag fl blkFlagManualSubmission = false
  notLast : hasFlag fl blkLastBlock = false
  notFrag : hasFlag fl blkIsFragment = false

/-- the index every stored block of the current file stays below -/
def Front.bound (f : Front) : Nat :=
  match f.blkCurrent with
  | some c => c.index
  | none => f.blkIndex

structure FrontBusy (B : Nat) (f : Front) (front : List Blk) (n id : Nat) : Prop where
  ino : f.inode = some id
  last : id + 1 = n
  flags : FlagsClean f.blkFlags
  mine : ∀ x ∈ front, x.inode = some id → isFrag x = false ∧ (x.data = [] ∨ x.index < f.bound)
  fresh : hasFlag f.blkFlags blkFirstBlock = true → f.blkCurrent = none ∧ front.foldl fOpen false = false
  opened : hasFlag f.blkFlags blkFirstBlock = false →
    front.foldl fOpen false = (match f.blkCurrent with
                               | none => true
                               | some c => !isFirst c)
  cur : ∀ c, f.blkCurrent = some c → c.inode = some id ∧ c.index + 1 = f.blkIndex ∧ c.data.length ≤ B ∧ FlagsClean c.flags

structure FrontInv (B : Nat) (f : Front) (front : List Blk) (n : Nat) : Prop where
  items : ∀ x ∈ front, ItemOK B n x
  proto : fproto false front = true
  fragIdx : FragIdx front
  idle : f.beginCalled = false → f.inode = none ∧ f.blkCurrent = none ∧ front.foldl fOpen false = false
  busy : f.beginCalled = true → ∃ id, FrontBusy B f front n id

theorem ItemOK.mono {B n m : Nat} {x : Blk} (h : ItemOK B n x) (hm : n ≤ m) : ItemOK B m x :=
  ⟨h.notFB, h.notManual, by obtain ⟨id, h1, h2⟩ := h.ino; exact ⟨id, h1, by omega⟩, h.size, h.frag⟩

theorem fproto_append (o : Bool) (a b : List Blk) :
    fproto o (a ++ b) = (fproto o a && fproto (a.foldl fOpen o) b) := by
  induction a generalizing o with
  | nil => simp [fproto]
  | cons x a ih => simp [fproto, ih, Bool.and_assoc]

theorem sproto_append (o : Bool) (a b : List Blk) :
    sproto o (a ++ b) = (sproto o a && sproto (a.foldl bOpen o) b) := by
  induction a generalizing o with
  | nil => simp [sproto]
  | cons x a ih => simp [sproto, ih, Bool.and_assoc]

theorem FragIdx.snoc {front : List Blk} (h : FragIdx front) (y : Blk)
    (h1 : isFrag y = true → ∀ z ∈ front, isFrag z = false → z.data ≠ [] → y.inode = z.inode → y.index ≠ z.index)
    (h2 : isFrag y = false → y.data ≠ [] → ∀ x ∈ front, isFrag x = true → x.inode = y.inode → x.index ≠ y.index) :
    FragIdx (front ++ [y]) := by
  intro a ha b hb fa fb hne hi
  rw [List.mem_append, List.mem_singleton] at ha hb
  rcases ha with ha | ha <;> rcases hb with hb | hb
  · exact h a ha b hb fa fb hne hi
  · subst hb; exact h2 fb hne a ha fa hi
  · subst ha; exact h1 fa b hb fb hne hi
  · subst ha; subst hb; rw [fa] at fb; cases fb

theorem FragIdx.snoc_empty {front : List Blk} (h : FragIdx front) (y : Blk) (hf : isFrag y = false) (he : y.data = []) :
    FragIdx (front ++ [y]) :=
  h.snoc y (fun hy => by rw [hf] at hy; cases hy) (fun _ hne => absurd he hne)

/-! #### `begin_file` -/

theorem flagsClean_begin (flags : Nat) (h : flags &&& blkUserSettable = flags) : FlagsClean (flags ||| blkFirstBlock) := by
  constructor <;> (rw [← h]; flag_simp)

theorem FrontInv.begin {B : Nat} {f : Front} {front : List Blk} {n : Nat} (h : FrontInv B f front n)
    (hb : f.beginCalled = false) (flags : Nat) (hfl : flags &&& blkUserSettable = flags) :
    FrontInv B (feBegin f n flags) front (n + 1) := by
  obtain ⟨hi, hc, ho⟩ := h.idle hb
  refine ⟨fun x hx => (h.items x hx).mono (Nat.le_succ n), h.proto, h.fragIdx, fun hb' => by simp [feBegin] at hb', fun _ => ⟨n, ?_⟩⟩
  have hfirst : hasFlag (flags ||| blkFirstBlock) blkFirstBlock = true := by flag_simp
  refine ⟨rfl, rfl, flagsClean_begin flags hfl, ?_, fun _ => ⟨hc, ho⟩, fun hf => ?_, fun c hcur => ?_⟩
  · intro x hx hxi
    obtain ⟨id, h1, h2⟩ := (h.items x hx).ino
    rw [h1] at hxi; cases hxi; omega
  · simp only [feBegin] at hf; rw [hfirst] at hf; cases hf
  · simp only [feBegin] at hcur; rw [hc] at hcur; cases hcur

/-! #### a new open block (`get_new_block` in `append`) -/

theorem FrontInv.newBlock {B : Nat} {f : Front} {front : List Blk} {n : Nat} (h : FrontInv B f front n)
    (hb : f.beginCalled = true) (hc : f.blkCurrent = none) :
    FrontInv B { f with blkCurrent := some { flags := f.blkFlags, inode := f.inode, index := f.blkIndex },
                        blkIndex := f.blkIndex + 1, blkFlags := clearFlag f.blkFlags blkFirstBlock } front n := by
  obtain ⟨id, hbz⟩ := h.busy hb
  refine ⟨h.items, h.proto, h.fragIdx, fun hb' => by simp [hb] at hb', fun _ => ⟨id, ?_⟩⟩
  have hcl : FlagsClean (clearFlag f.blkFlags blkFirstBlock) := by
    obtain ⟨a, b, c, d⟩ := hbz.flags
    constructor
    · rw [← a]; flag_simp
    · rw [← b]; flag_simp
    · rw [← c]; flag_simp
    · rw [← d]; flag_simp
  have hnf : hasFlag (clearFlag f.blkFlags blkFirstBlock) blkFirstBlock = false := by flag_simp
  refine ⟨hbz.ino, hbz.last, hcl, ?_, fun hf => ?_, fun _ => ?_, fun c hcur => ?_⟩
  · intro x hx hxi
    have := hbz.mine x hx hxi
    simpa [Front.bound, hc] using this
  · simp only at hf; rw [hnf] at hf; cases hf
  · simp only [isFirst]
    by_cases hf : hasFlag f.blkFlags blkFirstBlock = true
    · rw [(hbz.fresh hf).2, hf]; rfl
    · have hf' : hasFlag f.blkFlags blkFirstBlock = false := by simpa using hf
      have := hbz.opened hf'
      rw [hc] at this
      rw [this, hf']; rfl
  · simp only [Option.some.injEq] at hcur
    subst hcur
    exact ⟨hbz.ino, rfl, by simp, hbz.flags⟩

/-! #### bytes copied into the open block -/

theorem FrontInv.fill {B : Nat} {f : Front} {front : List Blk} {n : Nat} (h : FrontInv B f front n)
    (hb : f.beginCalled = true) (c : Blk) (hc : f.blkCurrent = some c) (d : Bytes) (hd : c.data.length + d.length ≤ B) :
    FrontInv B { f with blkCurrent := some { c with data := c.data ++ d } } front n := by
  obtain ⟨id, hbz⟩ := h.busy hb
  refine ⟨h.items, h.proto, h.fragIdx, fun hb' => by simp [hb] at hb', fun _ => ⟨id, ?_⟩⟩
  refine ⟨hbz.ino, hbz.last, hbz.flags, ?_, fun hf => ?_, fun hf => ?_, fun c' hcur => ?_⟩
  · intro x hx hxi
    have := hbz.mine x hx hxi
    simpa [Front.bound, hc] using this
  · have := (hbz.fresh hf).1; rw [hc] at this; cases this
  · have := hbz.opened hf
    rw [hc] at this
    simpa [isFirst] using this
  · simp only [Option.some.injEq] at hcur
    subst hcur
    obtain ⟨a, b, _, e⟩ := hbz.cur c hc
    exact ⟨a, b, by simpa using hd, e⟩

/-! #### a block handed to `enqueue_block` -/

theorem itemOK_of_cur {B n id : Nat} (c : Blk) (hi : c.inode = some id) (hid : id < n) (hsz : c.data.length ≤ B)
    (hfl : FlagsClean c.flags) : ItemOK B n c :=
  ⟨hfl.notFB, hfl.notManual, ⟨id, hi, hid⟩, hsz, fun hf => by rw [hfl.notFrag] at hf; cases hf⟩

theorem foldl_fOpen_snoc (front : List Blk) (x : Blk) : (front ++ [x]).foldl fOpen false = fOpen (front.foldl fOpen false) x := by
  simp [List.foldl_append]

/-- the full open block is submitted (`append`) -/
theorem FrontInv.emit {B : Nat} {f : Front} {front : List Blk} {n : Nat} (h : FrontInv B f front n)
    (hb : f.beginCalled = true) (c : Blk) (hc : f.blkCurrent = some c) (hne : c.data ≠ []) :
    FrontInv B { f with blkCurrent := none } (front ++ [c]) n := by
  obtain ⟨id, hbz⟩ := h.busy hb
  obtain ⟨ci, cidx, csz, cfl⟩ := hbz.cur c hc
  have hcf : isFrag c = false := cfl.notFrag
  have hcl : isLast c = false := cfl.notLast
  have hnofirst : hasFlag f.blkFlags blkFirstBlock = false := by
    by_cases hf : hasFlag f.blkFlags blkFirstBlock = true
    · have := (hbz.fresh hf).1; rw [hc] at this; cases this
    · simpa using hf
  refine ⟨?_, ?_, ?_, fun hb' => by simp [hb] at hb', fun _ => ⟨id, ?_⟩⟩
  · intro x hx
    rw [List.mem_append, List.mem_singleton] at hx
    rcases hx with hx | hx
    · exact h.items x hx
    · subst hx; exact itemOK_of_cur x ci (by have := hbz.last; omega) csz cfl
  · rw [fproto_append, h.proto]
    simp [fproto, hcf, hcl]
  · refine h.fragIdx.snoc c (fun hy => by rw [hcf] at hy; cases hy) (fun _ _ x hx fx hxi => ?_)
    rw [ci] at hxi
    have := (hbz.mine x hx hxi).1
    rw [fx] at this; cases this
  · refine ⟨hbz.ino, hbz.last, hbz.flags, ?_, fun hf => (by rw [hnofirst] at hf; cases hf), fun _ => ?_, fun c' hcur => (by simp at hcur)⟩
    · intro x hx hxi
      rw [List.mem_append, List.mem_singleton] at hx
      simp only [Front.bound]
      rcases hx with hx | hx
      · have := hbz.mine x hx hxi
        simp only [Front.bound, hc] at this
        exact ⟨this.1, this.2.elim Or.inl (fun h => Or.inr (by omega))⟩
      · subst hx; exact ⟨hcf, Or.inr (by omega)⟩
    · rw [foldl_fOpen_snoc]
      have := hbz.opened hnofirst
      rw [hc] at this
      simp only [fOpen, hcf, bOpen, hcl, this]
      cases isFirst c <;> rfl

/-! #### `end_file` -/

/-- the facts about the submitted blocks that grow block by block -/
structure Acc (B n : Nat) (front : List Blk) (o : Bool) : Prop where
  items : ∀ x ∈ front, ItemOK B n x
  proto : fproto false front = true
  fragIdx : FragIdx front
  opened : front.foldl fOpen false = o

theorem Acc.snoc {B n : Nat} {front : List Blk} {o : Bool} (a : Acc B n front o) (y : Blk) (hy : ItemOK B n y)
    (hp : (if isFrag y then !o else (!isLast y || o || isFirst y)) = true)
    (h1 : isFrag y = true → ∀ z ∈ front, isFrag z = false → z.data ≠ [] → y.inode = z.inode → y.index ≠ z.index)
    (h2 : isFrag y = false → y.data ≠ [] → ∀ x ∈ front, isFrag x = true → x.inode = y.inode → x.index ≠ y.index) :
    Acc B n (front ++ [y]) (fOpen o y) := by
  refine ⟨?_, ?_, a.fragIdx.snoc y h1 h2, by rw [foldl_fOpen_snoc, a.opened]⟩
  · intro x hx
    rw [List.mem_append, List.mem_singleton] at hx
    rcases hx with hx | hx
    · exact a.items x hx
    · subst hx; exact hy
  · rw [fproto_append, a.proto, a.opened]
    simp only [fproto, hp, Bool.and_self]

theorem flagsClean_or_last {fl : Nat} (h : FlagsClean fl) :
    hasFlag (fl ||| blkLastBlock) blkFragmentBlock = false ∧ hasFlag (fl ||| blkLastBlock) blkFlagManualSubmission = false ∧
    hasFlag (fl ||| blkLastBlock) blkIsFragment = false ∧ hasFlag (fl ||| blkLastBlock) blkLastBlock = true := by
  obtain ⟨a, b, _, d⟩ := h
  refine ⟨?_, ?_, ?_, ?_⟩
  · rw [hasFlag_or, a]; decide
  · rw [hasFlag_or, b]; decide
  · rw [hasFlag_or, d]; decide
  · rw [hasFlag_or]; simp; right; decide

theorem flagsClean_or_frag {fl : Nat} (h : FlagsClean fl) :
    hasFlag (fl ||| blkIsFragment) blkFragmentBlock = false ∧ hasFlag (fl ||| blkIsFragment) blkFlagManualSubmission = false ∧
    hasFlag (fl ||| blkIsFragment) blkIsFragment = true := by
  obtain ⟨a, b, _, _⟩ := h
  refine ⟨?_, ?_, ?_⟩
  · rw [hasFlag_or, a]; decide
  · rw [hasFlag_or, b]; decide
  · rw [hasFlag_or]; simp; right; decide

theorem hasFlag_or_last_first (fl : Nat) : hasFlag (fl ||| blkLastBlock) blkFirstBlock = hasFlag fl blkFirstBlock := by
  flag_simp

/-- the sentinel block that only carries `LAST` -/
theorem Acc.sentinel {B n id : Nat} {front : List Blk} {f : Front} (a : Acc B n front true) (hi : f.inode = some id) (hid : id < n)
    (hfl : FlagsClean f.blkFlags) : Acc B n (front ++ [feSentinel f]) false := by
  obtain ⟨s1, s2, s3, s4⟩ := flagsClean_or_last hfl
  have hfr : isFrag (feSentinel f) = false := s3
  have hla : isLast (feSentinel f) = true := s4
  have := a.snoc (feSentinel f) ⟨s1, s2, ⟨id, hi, hid⟩, by simp [feSentinel], fun h => by have h' : isFrag (feSentinel f) = true := h; rw [hfr] at h'; cases h'⟩
    (by simp [hfr]) (fun h => by rw [hfr] at h; cases h) (fun _ hne => absurd rfl hne)
  simpa [fOpen, hfr, bOpen, hla] using this

theorem FrontInv.endFile {B : Nat} {f : Front} {front : List Blk} {n : Nat} (h : FrontInv B f front n)
    (hb : f.beginCalled = true) (hne : ∀ c, f.blkCurrent = some c → c.data ≠ []) :
    FrontInv B (feEnd f) (front ++ feEndItems f) n := by
  obtain ⟨id, hbz⟩ := h.busy hb
  have hid : id < n := by have := hbz.last; omega
  suffices hs : Acc B n (front ++ feEndItems f) false by
    exact ⟨hs.items, hs.proto, hs.fragIdx, fun _ => ⟨rfl, rfl, hs.opened⟩, fun hb' => by simp [feEnd] at hb'⟩
  have a0 : Acc B n front (front.foldl fOpen false) := ⟨h.items, h.proto, h.fragIdx, rfl⟩
  unfold feEndItems
  cases hc : f.blkCurrent with
  | none =>
    simp only
    by_cases hf : hasFlag f.blkFlags blkFirstBlock = true
    · simp only [hf, Bool.not_true, Bool.false_eq_true, if_false, List.append_nil]
      rw [(hbz.fresh hf).2] at a0; exact a0
    · have hf' : hasFlag f.blkFlags blkFirstBlock = false := by simpa using hf
      simp only [hf', Bool.not_false, if_true]
      have ho := hbz.opened hf'
      rw [hc] at ho
      rw [ho] at a0
      exact a0.sentinel hbz.ino hid hbz.flags
  | some c =>
    simp only
    obtain ⟨ci, cidx, csz, cfl⟩ := hbz.cur c hc
    have hcne := hne c hc
    have hf' : hasFlag f.blkFlags blkFirstBlock = false := by
      by_cases hf : hasFlag f.blkFlags blkFirstBlock = true
      · have := (hbz.fresh hf).1; rw [hc] at this; cases this
      · simpa using hf
    have ho := hbz.opened hf'
    rw [hc] at ho
    simp only at ho
    have hmine : ∀ x ∈ front, x.inode = some id → isFrag x = false ∧ (x.data = [] ∨ x.index < c.index) := by
      intro x hx hxi
      have := hbz.mine x hx hxi
      simpa [Front.bound, hc] using this
    by_cases hdf : hasFlag f.blkFlags blkDontFragment = true
    · simp only [hdf, if_true]
      obtain ⟨s1, s2, s3, s4⟩ := flagsClean_or_last cfl
      let y : Blk := { c with flags := c.flags ||| blkLastBlock }
      have hfr : isFrag y = false := s3
      have hla : isLast y = true := s4
      have hfi : isFirst y = isFirst c := hasFlag_or_last_first c.flags
      have := a0.snoc y ⟨s1, s2, ⟨id, ci, hid⟩, csz, fun h => by have h' : isFrag y = true := h; rw [hfr] at h'; cases h'⟩
        (by rw [ho, hfi]; simp only [hfr, Bool.false_eq_true, if_false]; cases isFirst c <;> simp)
        (fun h => by rw [hfr] at h; cases h)
        (fun _ _ x hx fx hxi => by
          have hxi' : x.inode = some id := by rw [hxi]; exact ci
          have := (hmine x hx hxi').1; rw [fx] at this; cases this)
      simpa [fOpen, hfr, bOpen, hla] using this
    · simp only [hdf, Bool.false_eq_true, if_false]
      obtain ⟨s1, s2, s3⟩ := flagsClean_or_frag cfl
      let y : Blk := { c with flags := c.flags ||| blkIsFragment }
      have hfr : isFrag y = true := s3
      have key : ∀ (fr : List Blk), Acc B n fr false →
          (∀ z ∈ fr, z.inode = some id → isFrag z = false ∧ (z.data = [] ∨ z.index < c.index)) → Acc B n (fr ++ [y]) false := by
        intro fr a hm
        have := a.snoc y ⟨s1, s2, ⟨id, ci, hid⟩, csz, fun _ => hcne⟩ (by simp [hfr])
          (fun _ z hz _ hzne hzi => by
            have hzi' : z.inode = some id := by rw [← hzi]; exact ci
            rcases (hm z hz hzi').2 with h0 | h0
            · exact absurd h0 hzne
            · show c.index ≠ z.index; omega)
          (fun h => by rw [hfr] at h; cases h)
        simpa [fOpen, hfr] using this
      by_cases hcf : hasFlag c.flags blkFirstBlock = true
      · simp only [hcf, Bool.not_true, Bool.false_eq_true, if_false, List.nil_append]
        have : isFirst c = true := hcf
        rw [this] at ho
        rw [ho] at a0
        exact key front a0 hmine
      · have hcf' : hasFlag c.flags blkFirstBlock = false := by simpa using hcf
        simp only [hcf', Bool.not_false, if_true]
        have : isFirst c = false := hcf'
        rw [this] at ho
        rw [ho] at a0
        rw [← List.append_assoc]
        refine key _ (a0.sentinel hbz.ino hid hbz.flags) ?_
        intro z hz hzi
        rw [List.mem_append, List.mem_singleton] at hz
        rcases hz with hz | hz
        · exact hmine z hz hzi
        · subst hz
          exact ⟨(flagsClean_or_last hbz.flags).2.2.1, Or.inl rfl⟩

end Sqfs.BlockProc
