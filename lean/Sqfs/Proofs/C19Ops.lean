import Sqfs.Proofs.ObjRestore
/-! C19: operations that reshape an object's own buffers (`reallocSlot`, `releaseSlot`) keep the heap balanced and are
invisible to every other object; histories mixing operations, grabs and releases. -/
namespace Sqfs.Obj

theorem upd_same' {α : Type} (f : Nat → α) (i : Nat) (v : α) : upd f i v i = v := by simp [upd]

/-- counting after a pointer fix-up -/
theorem count_map_rep (l : List (Option Nat)) (old : Nat) (nw : Option Nat) (hne : nw ≠ some old) (b : Nat) :
    (l.map (rep old nw)).count (some b) =
      if nw = some b then l.count (some b) + l.count (some old) else if b = old then 0 else l.count (some b) := by
  induction l with
  | nil => simp
  | cons s t ih =>
    simp only [List.map_cons, List.count_cons, ih]
    by_cases h1 : s = some old
    · subst h1
      by_cases h2 : nw = some b
      · have hbo : b ≠ old := by rintro rfl; exact hne h2
        have : ¬ old = b := fun e => hbo e.symm
        simp [rep, h2, this]
        omega
      · by_cases h3 : b = old
        · subst h3; simp [rep, h2]
        · have : ¬ old = b := fun e => h3 e.symm
          simp [rep, h2, h3, this]
    · by_cases h2 : nw = some b
      · simp [rep, h1, h2]
        omega
      · by_cases h3 : b = old
        · subst h3
          have : ¬ s = some b := h1
          simp [rep, h1, h2, this]
        · simp [rep, h1, h2, h3]

theorem mem_map_rep {l : List (Option Nat)} {old : Nat} {nw : Option Nat} {v : Nat} (hv : some v ∈ l.map (rep old nw)) :
    (some v = nw ∧ some old ∈ l) ∨ (v ≠ old ∧ some v ∈ l) := by
  obtain ⟨s, hs, he⟩ := List.mem_map.mp hv
  unfold rep at he
  split at he
  · rename_i h1; left; exact ⟨he.symm, h1 ▸ hs⟩
  · rename_i h1; right; subst he; exact ⟨fun e => h1 (by rw [e]), hs⟩

/-- the slot lists of a live object change; buffers move between the object and the code that holds them pending -/
theorem Bal.setSlots {h : Heap} {U : Nat → Nat} {P PB PB' Z : List Nat} (hb : Bal h U P PB Z) {x : Nat} {ox : Obj}
    (hx : h.objs x = some ox) (hz : x ∉ Z) (nb nv : List (Option Nat))
    (hcnt : ∀ b, PB'.count b + nb.count (some b) = PB.count b + ox.bufs.count (some b))
    (hv : ∀ v, some v ∈ nv → some v ∈ nb) :
    Bal { h with objs := upd h.objs x (some { ox with bufs := nb, views := nv }) } U P PB' Z := by
  have hxn : x < h.nobj := hb.bound x (by simp [hx])
  have hrefsmap : ∀ y, (({ h with objs := upd h.objs x (some { ox with bufs := nb, views := nv }) } : Heap).objs y).map (·.refs) =
      (h.objs y).map (·.refs) := by
    intro y
    by_cases hy : y = x
    · subst hy; simp [upd, hx]
    · simp [upd, hy]
  have hrc : ∀ z, refCount ({ h with objs := upd h.objs x (some { ox with bufs := nb, views := nv }) } : Heap) Z z = refCount h Z z :=
    fun z => slotCount_congr' (·.refs) z rfl hrefsmap
  have hbc : ∀ b, bufCount ({ h with objs := upd h.objs x (some { ox with bufs := nb, views := nv }) } : Heap) Z b + ox.bufs.count (some b) =
      bufCount h Z b + nb.count (some b) := by
    intro b
    have e1 := slotCount_toZ (·.bufs) (h := ({ h with objs := upd h.objs x (some { ox with bufs := nb, views := nv }) } : Heap))
      (Z := Z) (x := x) (ox := { ox with bufs := nb, views := nv }) (by simp [upd]) hz hxn b
    have e2 := slotCount_toZ (·.bufs) (h := h) (Z := Z) hx hz hxn b
    have e3 : slotCount (·.bufs) ({ h with objs := upd h.objs x (some { ox with bufs := nb, views := nv }) } : Heap) (x :: Z) b =
        slotCount (·.bufs) h (x :: Z) b := by
      refine slotCount_congr (·.bufs) (show _ = h.nobj from rfl) ?_
      intro y _
      unfold slotAt
      by_cases hy : y = x
      · subst hy; simp
      · simp [upd, hy]
    show slotCount (·.bufs) _ Z b + _ = slotCount (·.bufs) h Z b + _
    rw [e1, e2, e3]
    simp only
    omega
  refine ⟨hb.ok, ?_, ?_, ?_, ?_, ?_, hb.bufBound⟩
  · intro y oy hy hyz
    by_cases hyx : y = x
    · subst hyx
      simp only [upd_same', Option.some.injEq] at hy
      subst hy
      obtain ⟨h1, h2, h3, h4, h5, _⟩ := hb.live y ox hx hz
      exact ⟨h1, h2, by rw [hrc]; exact h3, h4, h5, hv⟩
    · have hy' : h.objs y = some oy := by simpa [upd, hyx] using hy
      obtain ⟨h1, h2, h3, h4, h5, h6⟩ := hb.live y oy hy' hyz
      exact ⟨h1, h2, by rw [hrc]; exact h3, h4, h5, h6⟩
  · intro y hy
    by_cases hyx : y = x
    · subst hyx; exact hxn
    · exact hb.bound y (by simpa [upd, hyx] using hy)
  · intro y hy
    rw [hrc]
    apply hb.dead y
    rcases hy with hy | hy
    · left
      by_cases hyx : y = x
      · subst hyx; simp [upd] at hy
      · simpa [upd, hyx] using hy
    · exact Or.inr hy
  · intro b hbl
    have := hb.bufLive b hbl
    have := hbc b
    have := hcnt b
    omega
  · intro b hbd
    have := hb.bufDead b hbd
    have := hbc b
    have := hcnt b
    omega

/-- a live buffer slot of a live object is held exactly once, and by nobody else -/
theorem Bal.slot_once {h : Heap} {U : Nat → Nat} {P PB Z : List Nat} (hb : Bal h U P PB Z) {x : Nat} {ox : Obj}
    (hx : h.objs x = some ox) (hz : x ∉ Z) {b : Nat} (hm : some b ∈ ox.bufs) :
    ox.bufs.count (some b) = 1 ∧ PB.count b = 0 := by
  have hxn : x < h.nobj := hb.bound x (by simp [hx])
  have hl := hb.buf_live hx hz hm
  have h1 : PB.count b + slotCount (·.bufs) h Z b = 1 := hb.bufLive b hl
  have e2 := slotCount_toZ (·.bufs) (h := h) (Z := Z) hx hz hxn b
  have hp := List.count_pos_iff.mpr hm
  rw [e2] at h1
  omega

theorem freeBuf_objs (h : Heap) (b : Nat) : (freeBuf h b).objs = h.objs := by
  unfold freeBuf Heap.fail
  repeat' split
  all_goals rfl

/-- `reallocSlot` keeps the heap balanced -/
theorem Bal.reallocSlot {h : Heap} {U : Nat → Nat} {P PB : List Nat} (hb : Bal h U P PB []) {x : Nat} {ox : Obj}
    (hx : h.objs x = some ox) (s : Nat) (bf : Buf) : Bal (Sqfs.Obj.reallocSlot h x s bf) U P PB [] := by
  unfold Sqfs.Obj.reallocSlot
  split
  · rename_i c hc; rw [hb.ok] at hc; cases hc
  simp only [hx]
  split
  · rename_i hs
    have ba := hb.allocBuf bf
    have hxa : ({ h with bufs := upd h.bufs h.nbuf (some bf), nbuf := h.nbuf + 1 } : Heap).objs x = some ox := hx
    have hfresh : ox.bufs.count (some h.nbuf) = 0 := by
      apply List.count_eq_zero.mpr
      intro hm
      have := hb.bufBound _ (hb.buf_live hx (by simp) hm)
      omega
    cases hg : listGet ox.bufs s with
    | none =>
      simp only
      have hget : ox.bufs[s]? = some none := by
        unfold listGet at hg
        cases hq : ox.bufs[s]? with
        | none => have := List.getElem?_eq_none_iff.mp hq; omega
        | some v => rw [hq] at hg; cases v with
          | none => rfl
          | some _ => simp at hg
      have hgi : ox.bufs[s] = none := by
        have := List.getElem?_eq_getElem hs
        rw [this] at hget; exact Option.some.inj hget
      have := ba.setSlots (PB' := PB) hxa (by simp) (ox.bufs.set s (some h.nbuf)) ox.views ?_ ?_
      · exact this
      · intro b
        rw [List.count_set hs, hgi]
        by_cases hbn : b = h.nbuf
        · subst hbn; simp [hfresh]
        · have : ¬ h.nbuf = b := fun e => hbn e.symm
          simp [List.count_cons, this, hbn]
      · intro v hvm
        have hvb := (hb.live x ox hx (by simp)).2.2.2.2.2 v hvm
        obtain ⟨i, hi, hiv⟩ := List.getElem_of_mem hvb
        have his : i ≠ s := by rintro rfl; rw [hgi] at hiv; cases hiv
        apply List.mem_iff_getElem.mpr
        refine ⟨i, by simpa using hi, ?_⟩
        rw [List.getElem_set_ne (fun e => his e.symm)]
        exact hiv
    | some old =>
      simp only
      have hold : some old ∈ ox.bufs := listGet_mem hg
      obtain ⟨hc1, hc0⟩ := hb.slot_once hx (by simp) hold
      have holdlt : old < h.nbuf := hb.bufBound _ (hb.buf_live hx (by simp) hold)
      have hne : (some h.nbuf : Option Nat) ≠ some old := by intro e; injection e with e; omega
      have bs := ba.setSlots (PB' := old :: PB) hxa (by simp) (ox.bufs.map (rep old (some h.nbuf))) (ox.views.map (rep old (some h.nbuf))) ?_ ?_
      · exact bs.freeBuf
      · intro b
        rw [count_map_rep _ _ _ hne]
        by_cases hbn : b = h.nbuf
        · subst hbn
          have : ¬ old = h.nbuf := by omega
          simp [List.count_cons, this, hfresh, hc1]
        · have h1 : ¬ (some h.nbuf : Option Nat) = some b := by intro e; injection e with e; exact hbn e.symm
          have h2 : ¬ h.nbuf = b := fun e => hbn e.symm
          by_cases hbo : b = old
          · subst hbo; simp [List.count_cons, h1, h2, hc1]
          · have : ¬ old = b := fun e => hbo e.symm
            simp [List.count_cons, h1, h2, hbo, this]
      · intro v hvm
        rcases mem_map_rep hvm with ⟨e, _⟩ | ⟨hvo, hvv⟩
        · rw [e]
          exact List.mem_map.mpr ⟨some old, hold, by simp [rep]⟩
        · have hvb := (hb.live x ox hx (by simp)).2.2.2.2.2 v hvv
          exact List.mem_map.mpr ⟨some v, hvb, by simp [rep, hvo]⟩
  · exact hb

/-- `releaseSlot` keeps the heap balanced -/
theorem Bal.releaseSlot {h : Heap} {U : Nat → Nat} {P PB : List Nat} (hb : Bal h U P PB []) {x : Nat} {ox : Obj}
    (hx : h.objs x = some ox) (s : Nat) : Bal (Sqfs.Obj.releaseSlot h x s) U P PB [] := by
  unfold Sqfs.Obj.releaseSlot
  split
  · rename_i c hc; rw [hb.ok] at hc; cases hc
  simp only [hx]
  cases hg : listGet ox.bufs s with
  | none => exact hb
  | some old =>
    simp only
    have hold : some old ∈ ox.bufs := listGet_mem hg
    obtain ⟨hc1, hc0⟩ := hb.slot_once hx (by simp) hold
    have bs := hb.setSlots (PB' := old :: PB) hx (by simp) (ox.bufs.map (rep old none)) (ox.views.map (rep old none)) ?_ ?_
    · exact bs.freeBuf
    · intro b
      rw [count_map_rep _ _ _ (by simp)]
      by_cases hbo : b = old
      · subst hbo; simp [List.count_cons, hc1, hc0]
      · have : ¬ old = b := fun e => hbo e.symm
        simp [List.count_cons, hbo, this]
    · intro v hvm
      rcases mem_map_rep hvm with ⟨e, _⟩ | ⟨hvo, hvv⟩
      · cases e
      · have hvb := (hb.live x ox hx (by simp)).2.2.2.2.2 v hvv
        exact List.mem_map.mpr ⟨some v, hvb, by simp [rep, hvo]⟩

theorem Bal.applyOp {h : Heap} {U : Nat → Nat} (hb : Balanced h U) {x : Nat} {ox : Obj} (hx : h.objs x = some ox) (w : SlotOp) :
    Balanced (Sqfs.Obj.applyOp h x w) U := by
  cases w with
  | store s v => exact hb.writeSlot hx (by simp) s v
  | realloc s bf => exact hb.reallocSlot hx s bf
  | release s => exact hb.releaseSlot hx s


/-! ### frames: what an event leaves of an object it is not aimed at -/

/-- object `y` (record `oy` in `h`) is still there in `h'`, with the same slots (only its reference count may differ), and
every buffer it owns is what it was -/
def KeepsObj (h h' : Heap) (y : Nat) (oy : Obj) : Prop :=
  ∃ oy', h'.objs y = some oy' ∧ oy'.erase = oy.erase ∧ ∀ b, some b ∈ oy.bufs → h'.bufs b = h.bufs b

theorem KeepsObj.refl {h : Heap} {y : Nat} {oy : Obj} (hy : h.objs y = some oy) : KeepsObj h h y oy :=
  ⟨oy, hy, rfl, fun _ _ => rfl⟩

theorem KeepsObj.trans {h h1 h2 : Heap} {y : Nat} {oy oy1 : Obj} (a : KeepsObj h h1 y oy) (h1y : h1.objs y = some oy1)
    (b : KeepsObj h1 h2 y oy1) : KeepsObj h h2 y oy := by
  obtain ⟨oa, ha1, ha2, ha3⟩ := a
  obtain ⟨ob, hb1, hb2, hb3⟩ := b
  rw [h1y] at ha1; cases ha1
  have hbufs : oy1.bufs = oy.bufs := (congrArg Obj.bufs ha2 : oy1.erase.bufs = oy.erase.bufs)
  exact ⟨ob, hb1, hb2.trans ha2, fun bb hbb => by rw [hb3 bb (hbufs ▸ hbb), ha3 bb hbb]⟩

theorem view_of_keeps {h h' : Heap} {U : Nat → Nat} {y : Nat} {oy : Obj} (hb : Balanced h U) (hy : h.objs y = some oy)
    (hk : KeepsObj h h' y oy) : view h' y = view h y := by
  obtain ⟨oy', h1, h2, h3⟩ := hk
  have e1 : oy'.bufs = oy.bufs := (congrArg Obj.bufs h2 : oy'.erase.bufs = oy.erase.bufs)
  have e2 : oy'.views = oy.views := (congrArg Obj.views h2 : oy'.erase.views = oy.erase.views)
  unfold view
  simp only [h1, hy, Option.map_some, Option.some.injEq, e1, e2]
  apply List.map_congr_left
  intro s hs
  apply slotVal_congr
  intro b hsb
  subst hsb
  rcases List.mem_append.mp hs with hm | hm
  · exact h3 b hm
  · exact h3 b ((hb.live y oy hy (by simp)).2.2.2.2.2 b hm)

theorem freeBuf_bufs_ne (h : Heap) {b b' : Nat} (hne : b' ≠ b) : (freeBuf h b).bufs b' = h.bufs b' := by
  unfold freeBuf Heap.fail
  repeat' split
  all_goals first | rfl | simp [upd, hne]

/-- an operation on `x` leaves every other live object and its buffers alone -/
theorem applyOp_keeps {h : Heap} {U : Nat → Nat} (hb : Balanced h U) {x y : Nat} {ox oy : Obj}
    (hx : h.objs x = some ox) (hy : h.objs y = some oy) (hne : x ≠ y) (w : SlotOp) : KeepsObj h (applyOp h x w) y oy := by
  have hyx : y ≠ x := fun e => hne e.symm
  have disj : ∀ b, some b ∈ ox.bufs → some b ∉ oy.bufs := fun b hbx => hb.bufs_disjoint hx hy (by simp) (by simp) hne hbx
  have ylt : ∀ b, some b ∈ oy.bufs → b < h.nbuf := fun b hbm => hb.bufBound b (hb.buf_live hy (by simp) hbm)
  cases w with
  | store s v =>
    refine ⟨oy, by show (writeSlot h x s v).objs y = _; rw [writeSlot_objs]; exact hy, rfl, ?_⟩
    intro b' hb'
    show (writeSlot h x s v).bufs b' = _
    unfold writeSlot
    simp only [hb.ok, hx]
    cases hs : listGet (ox.bufs ++ ox.views) s with
    | none => rfl
    | some b =>
      have hown := slot_owned (hb.live x ox hx (by simp)).2.2.2.2.2 hs
      obtain ⟨bf, hbf⟩ := Option.isSome_iff_exists.mp (hb.buf_live hx (by simp) hown)
      have : b' ≠ b := by rintro rfl; exact disj _ hown hb'
      simp [hbf, upd, this]
  | realloc s bf =>
    show KeepsObj h (reallocSlot h x s bf) y oy
    unfold reallocSlot
    simp only [hb.ok, hx]
    split
    · cases hg : listGet ox.bufs s with
      | none =>
        refine ⟨oy, by simp [upd, hyx, hy], rfl, ?_⟩
        intro b' hb'
        have : b' ≠ h.nbuf := by have := ylt b' hb'; omega
        simp [upd, this]
      | some old =>
        have hold : some old ∈ ox.bufs := listGet_mem hg
        refine ⟨oy, by simp only [freeBuf_objs]; simp [upd, hyx, hy], rfl, ?_⟩
        intro b' hb'
        have h1 : b' ≠ old := by rintro rfl; exact disj _ hold hb'
        have h2 : b' ≠ h.nbuf := by have := ylt b' hb'; omega
        simp only
        rw [freeBuf_bufs_ne _ h1]
        simp [upd, h2]
    · exact KeepsObj.refl hy
  | release s =>
    show KeepsObj h (releaseSlot h x s) y oy
    unfold releaseSlot
    simp only [hb.ok, hx]
    cases hg : listGet ox.bufs s with
    | none => exact KeepsObj.refl hy
    | some old =>
      have hold : some old ∈ ox.bufs := listGet_mem hg
      refine ⟨oy, by simp only [freeBuf_objs]; simp [upd, hyx, hy], rfl, ?_⟩
      intro b' hb'
      have h1 : b' ≠ old := by rintro rfl; exact disj _ hold hb'
      simp only
      rw [freeBuf_bufs_ne _ h1]

/-! ### histories of operations, grabs and releases -/

theorem Ev.apply_bal {h : Heap} {U : Nat → Nat} (hb : Balanced h U) (e : Ev) (hu : 1 ≤ U e.target) :
    Balanced (e.apply h) (e.user U) := by
  obtain ⟨hl, _⟩ := hb.user_live hu
  obtain ⟨ox, hox⟩ := Option.isSome_iff_exists.mp hl
  cases e with
  | op x w => exact hb.applyOp hox w
  | grab x => exact (hb.grabbed hox (by simp)).pendingToUser
  | drop x =>
    have := Bal.dropAllTop [x] hb (by
      intro z
      by_cases hz : z = x
      · subst hz; have hu' : 1 ≤ U z := hu; simpa using hu'
      · have : ¬ x = z := fun e => hz e.symm
        simp [List.count_cons, this])
    have hU : (fun z => U z - [x].count z) = Ev.user U (.drop x) := by
      funext z
      by_cases hz : z = x
      · subst hz; simp [Ev.user]
      · have : ¬ x = z := fun e => hz e.symm
        simp [Ev.user, hz, List.count_cons, this]
    rw [hU] at this
    exact this

theorem Ev.user_other (U : Nat → Nat) (e : Ev) {y : Nat} (hy : e.target ≠ y) : e.user U y = U y := by
  have : y ≠ e.target := fun h => hy h.symm
  cases e <;> simp_all [Ev.user, Ev.target]

/-- an event aimed at another object leaves an object the user holds, and its buffers, alone -/
theorem Ev.apply_keeps {h : Heap} {U : Nat → Nat} (hb : Balanced h U) (e : Ev) (hu : 1 ≤ U e.target) {y : Nat} {oy : Obj}
    (hy : h.objs y = some oy) (hne : e.target ≠ y) (huy : 1 ≤ U y) : KeepsObj h (e.apply h) y oy := by
  have hb' := Ev.apply_bal hb e hu
  obtain ⟨hl, _⟩ := hb.user_live hu
  obtain ⟨ox, hox⟩ := Option.isSome_iff_exists.mp hl
  cases e with
  | op x w => exact applyOp_keeps hb hox hy hne w
  | grab x =>
    have hyx : y ≠ x := fun e => hne e.symm
    show KeepsObj h (Sqfs.Obj.grab h x) y oy
    have hox' : h.objs x = some ox := hox
    rw [grab_eq hb.ok hox']
    exact ⟨oy, by simp [upd, hyx, hy], rfl, fun _ _ => rfl⟩
  | drop x =>
    have hs : Shrinks h (sqfsDrop h x) := Shrinks.drop _ _ _
    have huy' : 1 ≤ Ev.user U (.drop x) y := by rw [Ev.user_other U _ hne]; exact huy
    obtain ⟨hl', _⟩ := hb'.user_live huy'
    obtain ⟨oy', hoy'⟩ := Option.isSome_iff_exists.mp hl'
    have he : oy'.erase = oy.erase := by
      rcases hs.objs y with hn | he
      · rw [show (sqfsDrop h x).objs y = some oy' from hoy'] at hn; cases hn
      · rw [show (sqfsDrop h x).objs y = some oy' from hoy', hy] at he; simpa using he
    refine ⟨oy', hoy', he, ?_⟩
    intro b hbm
    have hbufs : oy'.bufs = oy.bufs := (congrArg Obj.bufs he : oy'.erase.bufs = oy.erase.bufs)
    have hlive := hb'.buf_live hoy' (by simp) (hbufs ▸ hbm)
    rcases hs.bufs b with hn | hq
    · rw [show (Ev.apply h (.drop x)).bufs b = (sqfsDrop h x).bufs b from rfl, hn] at hlive; cases hlive
    · exact hq

theorem runEvs_bal : ∀ (es : List Ev) {h : Heap} {U : Nat → Nat}, Balanced h U → Admissible U es →
    Balanced (runEvs h es) (userAfter U es) := by
  intro es
  induction es with
  | nil => intro h U hb _; exact hb
  | cons e es ih =>
    intro h U hb ha
    exact ih (Ev.apply_bal hb e ha.1) ha.2

theorem runEvs_keeps : ∀ (es : List Ev) {h : Heap} {U : Nat → Nat} {y : Nat} {oy : Obj}, Balanced h U → Admissible U es →
    (∀ e ∈ es, e.target ≠ y) → 1 ≤ U y → h.objs y = some oy → KeepsObj h (runEvs h es) y oy ∧ 1 ≤ userAfter U es y := by
  intro es
  induction es with
  | nil => intro h U y oy _ _ _ hu hy; exact ⟨KeepsObj.refl hy, hu⟩
  | cons e es ih =>
    intro h U y oy hb ha hne hu hy
    have hney := hne e List.mem_cons_self
    have k1 := Ev.apply_keeps hb e ha.1 hy hney hu
    obtain ⟨oy1, h1y, _, _⟩ := k1
    have hu1 : 1 ≤ e.user U y := by rw [Ev.user_other U e hney]; exact hu
    obtain ⟨k2, hu2⟩ := ih (Ev.apply_bal hb e ha.1) ha.2 (fun e' he' => hne e' (List.mem_cons_of_mem _ he')) hu1 h1y
    exact ⟨(Ev.apply_keeps hb e ha.1 hy hney hu).trans h1y k2, hu2⟩

end Sqfs.Obj
