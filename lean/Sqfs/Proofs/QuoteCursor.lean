/-
Helper lemmas for C16: `split_line` consumes input on every iteration (fuel suffices) and its write cursor
never overtakes its read cursor.
-/
import Sqfs.Model.Quote
namespace Sqfs.Quote
open Sqfs.Path (Bytes)
set_option linter.unusedSimpArgs false

theorem quoted_facts : ∀ (n : Nat) (r : Bytes), r.length ≤ n →
    (∀ tok rest, quoted r = .ok (tok, rest) → rest.length + tok.length + 1 ≤ r.length) ∧ quoted r ≠ .error .fuel := by
  intro n
  induction n with
  | zero =>
    intro r hr
    have : r = [] := List.length_eq_zero_iff.1 (by omega)
    subst this
    simp [quoted]
  | succ n ih =>
    intro r hr
    cases r with
    | nil => simp [quoted]
    | cons c r =>
      unfold quoted
      by_cases hc : c = NUL
      · simp [hc]
      · by_cases hq : c = DQ
        · subst hq
          have d0 : (DQ : UInt8) ≠ NUL := by decide
          simp only [d0, if_false, if_true]
          refine ⟨fun tok rest h => ?_, by simp⟩
          simp at h
          obtain ⟨rfl, rfl⟩ := h
          simp
        · by_cases hb : c = BS
          · subst hb
            cases r with
            | nil => simp [hc, hq]
            | cons d r' =>
              by_cases hd : (d = DQ || d = BS) = true
              · have := ih r' (by simp at hr; omega)
                simp only [hc, hq, if_false, if_true, hd]
                cases hr' : quoted r' with
                | error e => simp; intro h; subst h; exact this.2 hr'
                | ok p =>
                  obtain ⟨t, rs⟩ := p
                  have := this.1 t rs hr'
                  simp
                  omega
              · simp [hc, hq, hd]
          · have := ih r (by simp at hr; omega)
            simp only [hc, hq, hb, if_false]
            cases hr' : quoted r with
            | error e => simp; intro h; subst h; exact this.2 hr'
            | ok p =>
              obtain ⟨t, rs⟩ := p
              have := this.1 t rs hr'
              simp
              omega

theorem quoted_length (r tok rest : Bytes) (h : quoted r = .ok (tok, rest)) : rest.length + tok.length + 1 ≤ r.length :=
  (quoted_facts r.length r (Nat.le_refl _)).1 tok rest h

theorem quoted_ne_fuel (r : Bytes) : quoted r ≠ .error .fuel := (quoted_facts r.length r (Nat.le_refl _)).2

theorem unquoted_length (sep : Bytes) (s : Bytes) :
    (unquoted sep s).1.length + (unquoted sep s).2.length = s.length := by
  induction s with
  | nil => simp [unquoted]
  | cons c r ih =>
    unfold unquoted
    split
    · simp
    · simp; omega

/-- where an unquoted token stops: end of buffer, a separator, or NUL -/
theorem unquoted_stop (sep : Bytes) (s : Bytes) :
    (unquoted sep s).2 = [] ∨ ∃ c r, (unquoted sep s).2 = c :: r ∧ (isSep sep c = true ∨ c = NUL) := by
  induction s with
  | nil => simp [unquoted]
  | cons c r ih =>
    unfold unquoted
    split
    · rename_i h
      right
      refine ⟨c, r, rfl, ?_⟩
      simpa using h
    · exact ih

theorem unquoted_first (sep : Bytes) (c : UInt8) (r : Bytes) (h : (isSep sep c || c = NUL) = false) :
    (unquoted sep (c :: r)).1.length ≥ 1 := by
  unfold unquoted
  simp [h]

theorem skipSep_length (sep : Bytes) (s : Bytes) : (skipSep sep s).length ≤ s.length := by
  induction s with
  | nil => simp [skipSep]
  | cons c r ih => unfold skipSep; split <;> simp <;> omega

theorem skipSep_sep (sep : Bytes) (c : UInt8) (r : Bytes) (h : isSep sep c = true) :
    (skipSep sep (c :: r)).length ≤ r.length := by
  unfold skipSep
  simp [h, skipSep_length]

theorem skipSep_nul (sep : Bytes) (r : Bytes) : skipSep sep (NUL :: r) = NUL :: r := by
  unfold skipSep
  have : isSep sep NUL = false := by simp [isSep]
  simp [this]

theorem splitLoop_fuel (sep : Bytes) : ∀ fuel s, s.length ≤ fuel → splitLoop sep fuel s ≠ .error .fuel := by
  intro fuel
  induction fuel with
  | zero =>
    intro s hs
    have : s = [] := List.length_eq_zero_iff.1 (by omega)
    subst this
    simp [splitLoop]
  | succ f ih =>
    intro s hs
    cases s with
    | nil => simp [splitLoop]
    | cons c r =>
      simp only [splitLoop]
      split
      · simp
      · split
        · cases hq : quoted r with
          | error e =>
            simp only []
            intro h
            injection h with h
            subst h
            exact quoted_ne_fuel r hq
          | ok p =>
            obtain ⟨tok, rest⟩ := p
            have hl := quoted_length r tok rest hq
            have h1 := skipSep_length sep rest
            have := ih (skipSep sep rest) (by simp at hs; omega)
            simp only []
            cases hh : splitLoop sep f (skipSep sep rest) with
            | ok toks => simp
            | error e => simp; intro h; subst h; exact this hh
        · have h0 := unquoted_length sep (c :: r)
          have h1 := skipSep_length sep (unquoted sep (c :: r)).2
          rename_i hc hq
          have hpos : (unquoted sep (c :: r)).1.length ≥ 1 ∨ (skipSep sep (unquoted sep (c :: r)).2).length ≤ r.length := by
            by_cases hs' : isSep sep c = true
            · right
              have : unquoted sep (c :: r) = ([], c :: r) := by simp [unquoted, hs']
              rw [this]
              exact skipSep_sep sep c r hs'
            · left
              apply unquoted_first
              simp [hs', hc]
          have := ih (skipSep sep (unquoted sep (c :: r)).2) (by simp at hs h0; omega)
          cases hh : splitLoop sep f (skipSep sep (unquoted sep (c :: r)).2) with
          | ok toks => simp
          | error e => simp; intro h; subst h; exact this hh

/-- **in-place faithfulness**: at the start of every token the write cursor is not ahead of the read cursor -/
theorem splitPos_le (sep : Bytes) : ∀ fuel s dst sp l, splitPos sep fuel s dst sp = .ok l →
    (dst ≤ sp ∨ s = [] ∨ s.head? = some NUL) → ∀ p ∈ l, p.1 ≤ p.2 := by
  intro fuel
  induction fuel with
  | zero =>
    intro s dst sp l h _
    cases s with
    | nil => simp [splitPos] at h; subst h; simp
    | cons c r => simp [splitPos] at h
  | succ f ih =>
    intro s dst sp l h hinv
    cases s with
    | nil => simp [splitPos] at h; subst h; simp
    | cons c r =>
      simp only [splitPos] at h
      by_cases hc : c = NUL
      · simp [hc] at h; subst h; simp
      · have hle : dst ≤ sp := by
          rcases hinv with h1 | h1 | h1
          · exact h1
          · simp at h1
          · simp at h1; exact absurd h1 hc
        simp only [hc, if_false] at h
        by_cases hq : c = DQ
        · simp only [hq, if_true] at h
          cases hqr : quoted r with
          | error e => simp [hqr] at h
          | ok pr =>
            obtain ⟨tok, rest⟩ := pr
            simp only [hqr] at h
            have hl := quoted_length r tok rest hqr
            have h1 := skipSep_length sep rest
            cases hrec : splitPos sep f (skipSep sep rest) (dst + tok.length + 1)
                (sp + (r.length + 1 - (skipSep sep rest).length)) with
            | error e => simp [hrec] at h
            | ok l' =>
              simp [hrec] at h
              subst h
              intro p hp
              rcases List.mem_cons.1 hp with rfl | hp
              · exact hle
              · exact ih _ _ _ _ hrec (Or.inl (by omega)) p hp
        · simp only [hq, if_false] at h
          have h0 := unquoted_length sep (c :: r)
          have h1 := skipSep_length sep (unquoted sep (c :: r)).2
          cases hrec : splitPos sep f (skipSep sep (unquoted sep (c :: r)).2) (dst + (unquoted sep (c :: r)).1.length + 1)
              (sp + (r.length + 1 - (skipSep sep (unquoted sep (c :: r)).2).length)) with
          | error e => simp [hrec] at h
          | ok l' =>
            simp [hrec] at h
            subst h
            intro p hp
            rcases List.mem_cons.1 hp with rfl | hp
            · exact hle
            · refine ih _ _ _ _ hrec ?_ p hp
              rcases unquoted_stop sep (c :: r) with hs | ⟨x, y, hs, hx⟩
              · right; left; rw [hs]; simp [skipSep]
              · rcases hx with hx | hx
                · left
                  have := skipSep_sep sep x y hx
                  rw [hs] at h0 ⊢
                  simp at h0 ⊢
                  omega
                · right; right
                  subst hx
                  rw [hs, skipSep_nul]
                  rfl

end Sqfs.Quote
