/-
C01 — `decInode (encInode i ++ rest) = (i, rest)` for every well-formed inode, all 14 kinds.
-/
import Sqfs.Model.EncInode
import Sqfs.Proofs.EncBytes
namespace Sqfs.Enc
open Sqfs.Consts
open Sqfs.Writer (le leVal le_length)

/-! ### mode bits -/

theorem and_4095 (x : Nat) : x &&& 4095 = x % 4096 := Nat.and_two_pow_sub_one_eq_mod x 12

theorem or_typebits {p k : Nat} (hp : p < 4096) : p ||| (k * 4096) = k * 4096 + p := by
  have h : k * 4096 = k <<< 12 := by rw [Nat.shiftLeft_eq]
  rw [h, Nat.or_comm, Nat.shiftLeft_add_eq_or_of_lt (by simpa using hp)]

/-- what the writer stores for a mode whose type bits are `tb` -/
theorem permBits_eq {m : Nat} (h : m < 65536) : permBits m = m % 4096 := by
  unfold permBits
  rw [Nat.mod_eq_of_lt h]
  exact and_4095 m

/-- `set_mode` on the stored permission bits puts the type bits of the kind back -/
theorem setMode_perm {m : Nat} (typ tbk : Nat) (hm : m < 65536) (htb : m / 4096 * 4096 = tbk * 4096)
    (hsel : ∀ p, setMode typ p = .ok (((p % 65536) &&& (65535 - sIFMT)) ||| (tbk * 4096))) :
    setMode typ (permBits m % 256 ^ 2) = .ok m := by
  rw [hsel, permBits_eq hm]
  have e : (256 : Nat) ^ 2 = 65536 := by decide
  have h1 : m % 4096 % 256 ^ 2 % 65536 = m % 4096 := by rw [e]; omega
  have h2 : 65535 - sIFMT = 4095 := by decide
  rw [h1, h2, and_4095, Nat.mod_mod, or_typebits (Nat.mod_lt _ (by decide))]
  have h3 : tbk * 4096 + m % 4096 = m := by
    rw [← htb, Nat.mul_comm]; exact Nat.div_add_mod m 4096
  rw [h3]

/-! ### the variable-length payloads -/

theorem decIndex_encIndex (idx : List DirIdx) (rest : Bytes) (h : ∀ e ∈ idx, WfIdx e) :
    decIndex idx.length (encIndex idx ++ rest) = .ok (idx, rest) := by
  induction idx with
  | nil => rfl
  | cons e r ih =>
    obtain ⟨h1, h2, h3, h4⟩ := h e (List.mem_cons_self ..)
    have hr := ih (fun x hx => h x (List.mem_cons_of_mem _ hx))
    simp only [List.length_cons, decIndex, encIndex, List.append_assoc]
    have hf := readFields_encFields_fit [(4, e.index), (4, e.startBlock), (4, e.name.length - 1)]
      (e.name ++ (encIndex r ++ rest)) (by
        intro f hf
        simp only [List.mem_cons, List.mem_nil_iff, or_false] at hf
        rcases hf with rfl | rfl | rfl <;> simp <;> omega)
    simp only [List.map_cons, List.map_nil] at hf
    rw [hf]
    simp only
    have hl : e.name.length - 1 + 1 = e.name.length := by omega
    rw [hl, take?_append]
    simp only [hr]

theorem blocks_roundtrip {bs sz fi fo : Nat} {blks : List Nat} (rest : Bytes) (h : WfBlocks bs sz fi fo blks) :
    take? (4 * getBlockCount sz bs fi fo) (encWords 4 blks ++ rest) = .ok (encWords 4 blks, rest)
    ∧ decWords 4 (getBlockCount sz bs fi fo) (encWords 4 blks) = blks := by
  obtain ⟨hl, hw⟩ := h
  rw [← hl]
  refine ⟨take?_append' _ _ (encWords_length 4 blks), ?_⟩
  have := decWords_encWords 4 blks [] (by intro v hv; have := hw v hv; simpa using this)
  simpa using this

end Sqfs.Enc
