/-
Safety proofs for `Sqfs/Model/ReaderTables.lean` (C05): superblock checks, id/fragment table location checks,
xattr reader, directory reader states, `sqfs_dir_entry_from_inode`.  Core Lean only.
-/
import Sqfs.Proofs.ReaderBounds
import Sqfs.Model.ReaderTables
namespace Sqfs.ReaderTables
open Sqfs Sqfs.ReaderBounds

/-! ## chains of meta reader calls -/

/-- all accesses in bounds and the reader keeps `data_used ≤ 8192` -/
def RV.Safe {α : Type} (a : RV α) : Prop := (∀ x ∈ a.acc, x.inBounds) ∧ a.st.dataUsed.toNat ≤ metaCap

theorem bind_safe {α β : Type} (a : RV α) (f : α → MetaSt → RV β) (ha : a.Safe)
    (hf : ∀ v m, m.dataUsed.toNat ≤ metaCap → (f v m).Safe) : (a.bind f).Safe := by
  unfold RV.bind
  split
  · exact ha
  · rename_i v _
    have := hf v a.st ha.2
    refine ⟨?_, this.2⟩
    intro x hx
    rcases List.mem_append.1 hx with hx | hx
    · exact ha.1 x hx
    · exact this.1 x hx

theorem ofRes_seek_safe (c : MetaCfg) (hc : MetaCodecOk c) (m : MetaSt) (b o : UInt64)
    (hm : m.dataUsed.toNat ≤ metaCap) : (ofRes (seek c m b o)).Safe := by
  have h := seek_spec c hc m b o hm
  exact ⟨h.1, h.2.1⟩

theorem mread_safe (c : MetaCfg) (hc : MetaCodecOk c) (m : MetaSt) (size : UInt64)
    (hm : m.dataUsed.toNat ≤ metaCap) :
    (∀ a ∈ (mread true c m size).acc, a.inBounds) ∧ (mread true c m size).st.dataUsed.toNat ≤ metaCap := by
  unfold mread
  exact readLoop_safe c hc size.toNat _ m size 0 [] hm (by simp) (by simp)

theorem readInto_safe (c : MetaCfg) (hc : MetaCodecOk c) (m : MetaSt) (buf : Buf) (off n cap : UInt64)
    (hm : m.dataUsed.toNat ≤ metaCap) (hfit : off.toNat + n.toNat ≤ cap.toNat) : (readInto c m buf off n cap).Safe := by
  have h := mread_safe c hc m n hm
  refine ⟨?_, h.2⟩
  intro x hx
  simp only [readInto, List.mem_cons] at hx
  rcases hx with rfl | hx
  · exact hfit
  · exact h.1 x hx

theorem pure_safe {α : Type} (m : MetaSt) (r : Except Err α) (hm : m.dataUsed.toNat ≤ metaCap) :
    (RV.mk m r [] : RV α).Safe := ⟨by simp, hm⟩

theorem bind_ne_fuel {α β : Type} (a : RV α) (f : α → MetaSt → RV β) (ha : a.r ≠ .error .fuel)
    (hf : ∀ v m, (f v m).r ≠ .error .fuel) : (a.bind f).r ≠ .error .fuel := by
  unfold RV.bind
  split
  · rename_i e he
    simp only
    intro h
    apply ha
    rw [he]
    simp only [Except.error.injEq] at h ⊢
    exact h
  · rename_i v _; exact hf v a.st

theorem mread_ne_fuel (c : MetaCfg) (m : MetaSt) (size : UInt64) : (mread true c m size).r ≠ .error .fuel := by
  unfold mread
  exact readLoop_no_fuel true c size.toNat _ m size 0 [] (by omega)

theorem readInto_ne_fuel (c : MetaCfg) (m : MetaSt) (buf : Buf) (off n cap : UInt64) :
    (readInto c m buf off n cap).r ≠ .error .fuel := mread_ne_fuel c m n

theorem bind_safe_of {α β : Type} (a : RV α) (f : α → MetaSt → RV β) (P : α → Prop) (ha : a.Safe)
    (hp : ∀ v, a.r = .ok v → P v) (hf : ∀ v m, P v → m.dataUsed.toNat ≤ metaCap → (f v m).Safe) : (a.bind f).Safe := by
  unfold RV.bind
  split
  · exact ha
  · rename_i v hv
    have := hf v a.st (hp v hv) ha.2
    refine ⟨?_, this.2⟩
    intro x hx
    rcases List.mem_append.1 hx with hx | hx
    · exact ha.1 x hx
    · exact this.1 x hx

/-- accesses put in front of a chain -/
theorem prepend_safe {α : Type} (r : RV α) (acc : List Access) (hr : r.Safe) (hacc : ∀ x ∈ acc, x.inBounds) :
    (RV.mk r.st r.r (acc ++ r.acc)).Safe := by
  refine ⟨?_, hr.2⟩
  intro x hx
  rcases List.mem_append.1 hx with hx | hx
  · exact hacc x hx
  · exact hr.1 x hx

/-! ## `xattr_reader.c` -/

theorem addOv_some (a b s : UInt64) (h : addOv a b = some s) : s.toNat = a.toNat + b.toNat := by
  unfold addOv at h
  split at h
  · rename_i hlt
    cases h
    rw [UInt64.toNat_add]
    exact Nat.mod_eq_of_lt hlt
  · cases h

theorem mulOv_some (a b s : UInt64) (h : mulOv a b = some s) : s.toNat = a.toNat * b.toNat := by
  unfold mulOv at h
  split at h
  · rename_i hlt
    cases h
    rw [UInt64.toNat_mul]
    exact Nat.mod_eq_of_lt hlt
  · cases h

theorem prefixLen_le (t : UInt16) (p : UInt64) (h : prefixLen t = some p) : p.toNat ≤ 9 := by
  unfold prefixLen at h
  simp only at h
  split at h
  · cases h; decide
  · split at h
    · cases h; decide
    · split at h
      · cases h; decide
      · cases h

theorem szXattrEntry_eq : szXattrEntry = 4 := by decide
theorem szXattrValue_eq : szXattrValue = 4 := by decide
theorem szXattrId_eq : szXattrId = 16 := by decide
theorem szXattrIdTable_eq : szXattrIdTable = 16 := by decide
theorem szXattrT_eq : szXattrT = 32 := by decide

theorem readKeyHdr_safe (c : MetaCfg) (hc : MetaCodecOk c) (a : KvAns) (m : MetaSt)
    (hm : m.dataUsed.toNat ≤ metaCap) : (readKeyHdr c a m).Safe := by
  unfold readKeyHdr
  apply bind_safe
  · exact readInto_safe c hc m _ _ _ _ hm (by simp)
  · intro _ m' hm'
    split
    · exact pure_safe _ _ hm'
    · exact pure_safe _ _ hm'

theorem readKeyHdr_ok (c : MetaCfg) (a : KvAns) (m : MetaSt) (p : UInt64)
    (h : (readKeyHdr c a m).r = .ok p) : p.toNat ≤ 9 := by
  unfold readKeyHdr RV.bind at h
  split at h
  · simp at h
  · simp only at h
    split at h
    · simp at h
    · rename_i q hq
      simp only [Except.ok.injEq] at h
      subst h
      exact prefixLen_le _ _ hq

theorem restorePos_safe (c : MetaCfg) (hc : MetaCodecOk c) (a : KvAns) (saved : UInt64 × UInt64) (m : MetaSt)
    (hm : m.dataUsed.toNat ≤ metaCap) : (restorePos c a saved m).Safe := by
  unfold restorePos
  split
  · exact ofRes_seek_safe c hc m _ _ hm
  · exact pure_safe _ _ hm

theorem readValueHdr_safe (c : MetaCfg) (hc : MetaCodecOk c) (xs xe : UInt64) (a : KvAns) (m : MetaSt)
    (hm : m.dataUsed.toNat ≤ metaCap) : (readValueHdr c xs xe a m).Safe := by
  unfold readValueHdr
  apply bind_safe
  · exact readInto_safe c hc m _ _ _ _ hm (by simp)
  · intro _ m1 hm1
    split
    · apply bind_safe
      · exact readInto_safe c hc m1 _ _ _ _ hm1 (by decide)
      · intro _ m2 hm2
        dsimp only
        split
        · exact pure_safe _ _ hm2
        · apply bind_safe
          · exact ofRes_seek_safe c hc m2 _ _ hm2
          · intro _ m3 hm3
            apply bind_safe
            · exact readInto_safe c hc m3 _ _ _ _ hm3 (by simp)
            · intro _ m4 hm4
              exact pure_safe _ _ hm4
    · exact pure_safe _ _ hm1

theorem e_szEntry : szXattrEntry.toUInt64.toNat = 4 := by decide
theorem e_szValue : szXattrValue.toUInt64.toNat = 4 := by decide
theorem e_szT : szXattrT.toUInt64.toNat = 32 := by decide
theorem e_szId : szXattrId.toUInt64.toNat = 16 := by decide

theorem kvReadKey_safe (c : MetaCfg) (hc : MetaCodecOk c) (a : KvAns) (m : MetaSt)
    (hm : m.dataUsed.toNat ≤ metaCap) : (kvReadKey c a m).Safe := by
  unfold kvReadKey
  apply bind_safe
  · exact readKeyHdr_safe c hc a m hm
  · intro plen m1 hm1
    split
    · exact pure_safe _ _ hm1
    · rename_i total htot
      cases h1 : addOv plen a.ksize.toUInt64 with
      | none => rw [h1] at htot; simp at htot
      | some s1 =>
        rw [h1] at htot
        simp only [Option.bind_some] at htot
        cases h2 : addOv s1 1 with
        | none => rw [h2] at htot; simp at htot
        | some s2 =>
          rw [h2] at htot
          simp only [Option.bind_some] at htot
          have e1 := addOv_some _ _ _ h1
          have e2 := addOv_some _ _ _ h2
          have e3 := addOv_some _ _ _ htot
          have one : (1 : UInt64).toNat = 1 := rfl
          rw [e_szEntry] at e3
          rw [one] at e2
          have hlt := UInt64.toNat_lt total
          have hadd : (szXattrEntry.toUInt64 + plen).toNat = 4 + plen.toNat := by
            rw [UInt64.toNat_add, e_szEntry]; exact Nat.mod_eq_of_lt (by omega)
          dsimp only
          apply prepend_safe (readInto c m1 .xattrKeyOut (szXattrEntry.toUInt64 + plen) a.ksize.toUInt64 total)
          · exact readInto_safe c hc m1 _ _ _ _ hm1 (by rw [hadd]; omega)
          · intro x hx
            simp only [List.mem_cons, List.mem_nil_iff, or_false] at hx
            rcases hx with rfl | rfl
            · simp only [Access.inBounds, szXattrEntry_eq]; omega
            · simp only [Access.inBounds, szXattrEntry_eq]; omega

theorem kvReadValue_safe (c : MetaCfg) (hc : MetaCodecOk c) (xs xe : UInt64) (a : KvAns) (m : MetaSt)
    (hm : m.dataUsed.toNat ≤ metaCap) : (kvReadValue c xs xe a m).Safe := by
  unfold kvReadValue
  apply bind_safe
  · exact readValueHdr_safe c hc xs xe a m hm
  · intro saved m1 hm1
    split
    · exact pure_safe _ _ hm1
    · rename_i size hsize
      have e := addOv_some _ _ _ hsize
      have hbase : (szXattrValue.toUInt64 + 1).toNat = 5 := by decide
      rw [hbase] at e
      dsimp only
      apply prepend_safe ((readInto c m1 .xattrValOut szXattrValue.toUInt64 a.vsize.toUInt64 size).bind
        fun _ m => restorePos c a saved m)
      · apply bind_safe
        · exact readInto_safe c hc m1 _ _ _ _ hm1 (by rw [e_szValue]; omega)
        · intro _ m2 hm2
          exact restorePos_safe c hc a saved m2 hm2
      · intro x hx
        simp only [List.mem_cons, List.mem_nil_iff, or_false] at hx
        subst hx
        simp only [Access.inBounds, szXattrValue_eq]; omega

theorem kvRead_safe (c : MetaCfg) (hc : MetaCodecOk c) (xs xe : UInt64) (a : KvAns) (m : MetaSt)
    (hm : m.dataUsed.toNat ≤ metaCap) : (kvRead c xs xe a m).Safe := by
  unfold kvRead
  apply bind_safe_of _ _ (fun p => p.toNat ≤ 9)
  · exact readKeyHdr_safe c hc a m hm
  · intro p hp; exact readKeyHdr_ok c a m p hp
  · intro plen m1 hp hm1
    have hbase : (szXattrT.toUInt64 + plen + 1).toNat = 33 + plen.toNat := by
      have one : (1 : UInt64).toNat = 1 := rfl
      rw [UInt64.toNat_add, UInt64.toNat_add, e_szT, one]
      omega
    have hk := UInt16.toNat_lt a.ksize
    split
    · exact pure_safe _ _ hm1
    · rename_i total0 h0
      have e0 := addOv_some _ _ _ h0
      rw [hbase] at e0
      simp only [UInt16.toNat_toUInt64] at e0
      have hoff : (szXattrT.toUInt64 + plen).toNat = 32 + plen.toNat := by
        rw [UInt64.toNat_add, e_szT]; omega
      dsimp only
      apply prepend_safe (RV.bind _ _)
      · apply bind_safe
        · exact readInto_safe c hc m1 _ _ _ _ hm1 (by rw [hoff]; simp only [UInt16.toNat_toUInt64]; omega)
        · intro _ m2 hm2
          apply bind_safe
          · exact readValueHdr_safe c hc xs xe a m2 hm2
          · intro saved m3 hm3
            split
            · exact pure_safe _ _ hm3
            · rename_i total htot
              cases h1 : addOv total0 a.vsize.toUInt64 with
              | none => rw [h1] at htot; simp at htot
              | some s1 =>
                rw [h1] at htot
                simp only [Option.bind_some] at htot
                have e1 := addOv_some _ _ _ h1
                have e2 := addOv_some _ _ _ htot
                have one : (1 : UInt64).toNat = 1 := rfl
                rw [one] at e2
                simp only [UInt32.toNat_toUInt64] at e1
                have hlt := UInt64.toNat_lt total
                have hv := UInt32.toNat_lt a.vsize
                have hvoff : (szXattrT.toUInt64 + plen + a.ksize.toUInt64 + 1).toNat = 33 + plen.toNat + a.ksize.toNat := by
                  rw [UInt64.toNat_add, UInt64.toNat_add, hoff, one]
                  simp only [UInt16.toNat_toUInt64]
                  omega
                apply bind_safe
                · exact readInto_safe c hc m3 _ _ _ _ hm3 (by rw [hvoff]; simp only [UInt32.toNat_toUInt64]; omega)
                · intro _ m4 hm4
                  apply bind_safe
                  · exact restorePos_safe c hc a saved m4 hm4
                  · intro _ m5 hm5
                    refine ⟨?_, hm5⟩
                    intro x hx
                    simp only [List.mem_cons, List.mem_nil_iff, or_false] at hx
                    subst hx
                    simp only [Access.inBounds]
                    rw [UInt64.toNat_add, hvoff]
                    simp only [UInt32.toNat_toUInt64]
                    omega
      · intro x hx
        simp only [List.mem_cons, List.mem_nil_iff, or_false] at hx
        subst hx
        simp only [Access.inBounds, szXattrT_eq]; omega

theorem kvReadMany_safe (c : MetaCfg) (hc : MetaCodecOk c) (xs xe : UInt64) (ans : Nat → KvAns) :
    ∀ (rem i : Nat) (m : MetaSt), m.dataUsed.toNat ≤ metaCap → (kvReadMany c xs xe ans rem i m).Safe := by
  intro rem
  induction rem with
  | zero => intro i m hm; exact pure_safe _ _ hm
  | succ rem ih =>
    intro i m hm
    unfold kvReadMany
    apply bind_safe
    · exact kvRead_safe c hc xs xe (ans i) m hm
    · intro _ m1 hm1; exact ih (i + 1) m1 hm1

/-- what every public function of the xattr reader keeps: both meta readers hold at most a block, and after a
successful load the number of location entries matches the number of descriptors -/
def XattrInv (x : XattrSt) : Prop :=
  x.idrd.dataUsed.toNat ≤ metaCap ∧ x.kvrd.dataUsed.toNat ≤ metaCap ∧
  (x.loaded = true → x.numIdBlocks = xattrIdBlocks x.numIds ∧ x.numIds.toNat < 2 ^ 32)

theorem XattrInv_init : XattrInv XattrSt.init := by
  refine ⟨by decide, by decide, ?_⟩
  intro h; cases h

theorem e_metaCap64 : metaCap.toUInt64.toNat = 8192 := by decide

theorem xattrIdBlocks_spec (numIds : UInt64) (h : numIds.toNat < 2 ^ 32) :
    (xattrIdBlocks numIds).toNat = (numIds.toNat * 16 + 8191) / 8192 := by
  unfold xattrIdBlocks
  have hb : (numIds * szXattrId.toUInt64).toNat = numIds.toNat * 16 := by
    rw [UInt64.toNat_mul, e_szId]; exact Nat.mod_eq_of_lt (by omega)
  have one : (1 : UInt64).toNat = 1 := rfl
  dsimp only
  split
  · rename_i hne
    have hne' : (numIds * szXattrId.toUInt64 % metaCap.toUInt64).toNat ≠ 0 := by
      intro h0
      have : numIds * szXattrId.toUInt64 % metaCap.toUInt64 = 0 := UInt64.toNat_inj.1 (by simpa using h0)
      simp [this] at hne
    rw [UInt64.toNat_mod, hb, e_metaCap64] at hne'
    rw [UInt64.toNat_add, UInt64.toNat_div, hb, e_metaCap64, one]
    omega
  · rename_i hne
    have heq : numIds * szXattrId.toUInt64 % metaCap.toUInt64 = 0 := by simpa using hne
    have h0 : (numIds * szXattrId.toUInt64 % metaCap.toUInt64).toNat = 0 := by rw [heq]; rfl
    rw [UInt64.toNat_mod, hb, e_metaCap64] at h0
    rw [UInt64.toNat_div, hb, e_metaCap64]
    omega

theorem xattrCheckStarts_safe (bu : UInt64) (starts : Nat → UInt64) (n : Nat) :
    ∀ (rem i : Nat) (acc : List Access), i + rem = n → (∀ a ∈ acc, a.inBounds) →
      ∀ a ∈ (xattrCheckStarts bu starts n rem i acc).2, a.inBounds := by
  intro rem
  induction rem with
  | zero => intro i acc _ hacc; simpa [xattrCheckStarts] using hacc
  | succ rem ih =>
    intro i acc hi hacc
    unfold xattrCheckStarts
    have hacc' : ∀ a ∈ acc ++ [Access.mk .idBlockStarts (i * 8) 8 (n * 8)], a.inBounds := by
      intro a ha
      rcases List.mem_append.1 ha with ha | ha
      · exact hacc a ha
      · simp only [List.mem_cons, List.mem_nil_iff, or_false] at ha
        subst ha; simp only [Access.inBounds]; omega
    dsimp only
    split
    · exact hacc'
    · exact ih (i + 1) _ (by omega) hacc'

theorem xattrLoad_spec (s : Super) (x : XattrSt) (io1 : Bool) (tblStart : UInt64) (ids : UInt32) (io2 : Bool)
    (starts : Nat → UInt64) (hx : XattrInv x) :
    (∀ a ∈ (xattrLoad s x io1 tblStart ids io2 starts).acc, a.inBounds) ∧
    XattrInv (xattrLoad s x io1 tblStart ids io2 starts).st := by
  have hx' : ∀ (y : XattrSt), y.idrd = x.idrd → y.kvrd = x.kvrd → y.loaded = false → XattrInv y := by
    intro y h1 h2 h3
    refine ⟨by rw [h1]; exact hx.1, by rw [h2]; exact hx.2.1, ?_⟩
    intro h; rw [h3] at h; cases h
  have ha1 : ∀ a ∈ [Access.mk .xattrIdTbl 0 szXattrIdTable szXattrIdTable], a.inBounds := by
    intro a ha
    simp only [List.mem_cons, List.mem_nil_iff, or_false] at ha
    subst ha; simp [Access.inBounds]
  unfold xattrLoad
  split
  · exact ⟨by simp, hx⟩
  split
  · exact ⟨by simp, hx⟩
  split
  · exact ⟨by simp, hx⟩
  dsimp only
  split
  · exact ⟨ha1, hx' _ rfl rfl rfl⟩
  split
  · exact ⟨ha1, hx' _ rfl rfl rfl⟩
  rename_i cap hcap
  have ecap := mulOv_some _ _ _ hcap
  have e8 : (8 : UInt64).toNat = 8 := rfl
  rw [e8] at ecap
  have hlt := UInt64.toNat_lt cap
  have ha2 : ∀ a ∈ [Access.mk .xattrIdTbl 0 szXattrIdTable szXattrIdTable] ++
      [Access.mk .idBlockStarts 0 (8 * xattrIdBlocks ids.toUInt64).toNat cap.toNat], a.inBounds := by
    intro a ha
    rcases List.mem_append.1 ha with ha | ha
    · exact ha1 a ha
    · simp only [List.mem_cons, List.mem_nil_iff, or_false] at ha
      subst ha
      simp only [Access.inBounds, UInt64.toNat_mul, e8]
      rw [Nat.mod_eq_of_lt (by omega)]
      omega
  split
  · exact ⟨ha2, hx' _ rfl rfl rfl⟩
  have hck := xattrCheckStarts_safe s.bytesUsed starts (xattrIdBlocks ids.toUInt64).toNat
    (xattrIdBlocks ids.toUInt64).toNat 0 _ (by omega) ha2
  split
  · rename_i e acc heq
    rw [heq] at hck
    exact ⟨hck, hx' _ rfl rfl rfl⟩
  · rename_i acc heq
    rw [heq] at hck
    have h0 : MetaSt.init.dataUsed.toNat ≤ metaCap := by decide
    refine ⟨hck, h0, h0, ?_⟩
    intro _
    refine ⟨rfl, ?_⟩
    simp only [UInt32.toNat_toUInt64]
    exact UInt32.toNat_lt ids

theorem xattrGetDesc_spec (c : MetaCfg) (hc : MetaCodecOk c) (x : XattrSt) (idx : UInt32) (hx : XattrInv x) :
    (∀ a ∈ (xattrGetDesc c x idx).acc, a.inBounds) ∧ XattrInv (xattrGetDesc c x idx).st := by
  have ha0 : ∀ a ∈ [Access.mk .xattrDesc 0 szXattrId szXattrId], a.inBounds := by
    intro a ha
    simp only [List.mem_cons, List.mem_nil_iff, or_false] at ha
    subst ha; simp [Access.inBounds]
  unfold xattrGetDesc
  dsimp only
  split
  · exact ⟨ha0, hx⟩
  split
  · exact ⟨ha0, hx⟩
  split
  · exact ⟨ha0, hx⟩
  rename_i _ hl hlt
  have hloaded : x.loaded = true := by simpa using hl
  obtain ⟨hnb, hni⟩ := hx.2.2 hloaded
  rw [UInt64.not_le, UInt64.lt_iff_toNat_lt] at hlt
  simp only [UInt32.toNat_toUInt64] at hlt
  have hpos : (idx.toUInt64 * szXattrId.toUInt64).toNat = idx.toNat * 16 := by
    rw [UInt64.toNat_mul, e_szId]
    simp only [UInt32.toNat_toUInt64]
    have := UInt32.toNat_lt idx
    exact Nat.mod_eq_of_lt (by omega)
  have hblocks := xattrIdBlocks_spec x.numIds hni
  have hchain : (RV.bind (ofRes (seek c x.idrd (x.blockStarts (idx.toUInt64 * szXattrId.toUInt64 / metaCap.toUInt64).toNat)
      (idx.toUInt64 * szXattrId.toUInt64 % metaCap.toUInt64)))
      fun _ m => readInto c m .xattrDesc 0 szXattrId.toUInt64 szXattrId.toUInt64).Safe := by
    apply bind_safe
    · exact ofRes_seek_safe c hc _ _ _ hx.1
    · intro _ m hm; exact readInto_safe c hc m _ _ _ _ hm (by simp)
  refine ⟨?_, hchain.2, hx.2.1, hx.2.2⟩
  intro a ha
  rcases List.mem_append.1 ha with ha | ha
  · rcases List.mem_append.1 ha with ha | ha
    · exact ha0 a ha
    · simp only [List.mem_cons, List.mem_nil_iff, or_false] at ha
      subst ha
      simp only [Access.inBounds]
      rw [UInt64.toNat_div, hpos, e_metaCap64, hnb, hblocks]
      omega
  · exact hchain.1 a ha

theorem xattrSeekKv_spec (c : MetaCfg) (hc : MetaCodecOk c) (x : XattrSt) (xattr : UInt64) (hx : XattrInv x) :
    (∀ a ∈ (xattrSeekKv c x xattr).acc, a.inBounds) ∧ XattrInv (xattrSeekKv c x xattr).st := by
  unfold xattrSeekKv
  dsimp only
  split
  · exact ⟨by simp, hx⟩
  · have h := seek_spec c hc x.kvrd (x.xattrStart + (xattr >>> 16)) (xattr &&& 0xFFFF).toUInt32.toUInt64 hx.2.1
    exact ⟨h.1, hx.1, h.2.1, hx.2.2⟩

theorem xattrReadAll_spec (c : MetaCfg) (hc : MetaCodecOk c) (x : XattrSt) (idx : UInt32) (xattr : UInt64)
    (count : UInt32) (ans : Nat → KvAns) (hx : XattrInv x) :
    (∀ a ∈ (xattrReadAll c x idx xattr count ans).acc, a.inBounds) ∧
    XattrInv (xattrReadAll c x idx xattr count ans).st := by
  unfold xattrReadAll
  split
  · exact ⟨by simp, hx⟩
  have hd := xattrGetDesc_spec c hc x idx hx
  dsimp only
  split
  · exact hd
  have hs := xattrSeekKv_spec c hc (xattrGetDesc c x idx).st xattr hd.2
  split
  · refine ⟨?_, hs.2⟩
    intro a ha
    rcases List.mem_append.1 ha with ha | ha
    · exact hd.1 a ha
    · exact hs.1 a ha
  have hr := kvReadMany_safe c hc (xattrSeekKv c (xattrGetDesc c x idx).st xattr).st.xattrStart
    (xattrSeekKv c (xattrGetDesc c x idx).st xattr).st.xattrEnd ans count.toNat 0 _ hs.2.2.1
  refine ⟨?_, hs.2.1, hr.2, hs.2.2.2⟩
  intro a ha
  rcases List.mem_append.1 ha with ha | ha
  · rcases List.mem_append.1 ha with ha | ha
    · exact hd.1 a ha
    · exact hs.1 a ha
  · exact hr.1 a ha

/-! ### termination: no routine of the xattr reader runs out of fuel -/

theorem ofRes_seek_ne_fuel (c : MetaCfg) (m : MetaSt) (b o : UInt64) : (ofRes (seek c m b o)).r ≠ .error .fuel :=
  seek_ne_fuel c m b o

theorem readKeyHdr_ne_fuel (c : MetaCfg) (a : KvAns) (m : MetaSt) : (readKeyHdr c a m).r ≠ .error .fuel := by
  unfold readKeyHdr
  apply bind_ne_fuel
  · exact readInto_ne_fuel _ _ _ _ _ _
  · intro _ m; split <;> simp

theorem restorePos_ne_fuel (c : MetaCfg) (a : KvAns) (saved : UInt64 × UInt64) (m : MetaSt) :
    (restorePos c a saved m).r ≠ .error .fuel := by
  unfold restorePos
  split
  · exact ofRes_seek_ne_fuel _ _ _ _
  · simp

theorem readValueHdr_ne_fuel (c : MetaCfg) (xs xe : UInt64) (a : KvAns) (m : MetaSt) :
    (readValueHdr c xs xe a m).r ≠ .error .fuel := by
  unfold readValueHdr
  apply bind_ne_fuel
  · exact readInto_ne_fuel _ _ _ _ _ _
  · intro _ m1
    split
    · apply bind_ne_fuel
      · exact readInto_ne_fuel _ _ _ _ _ _
      · intro _ m2
        dsimp only
        split
        · simp
        · apply bind_ne_fuel
          · exact ofRes_seek_ne_fuel _ _ _ _
          · intro _ m3
            apply bind_ne_fuel
            · exact readInto_ne_fuel _ _ _ _ _ _
            · intro _ m4; simp
    · simp

theorem kvRead_ne_fuel (c : MetaCfg) (xs xe : UInt64) (a : KvAns) (m : MetaSt) :
    (kvRead c xs xe a m).r ≠ .error .fuel := by
  unfold kvRead
  apply bind_ne_fuel
  · exact readKeyHdr_ne_fuel _ _ _
  · intro plen m1
    split
    · simp
    · dsimp only
      apply bind_ne_fuel
      · exact readInto_ne_fuel _ _ _ _ _ _
      · intro _ m2
        apply bind_ne_fuel
        · exact readValueHdr_ne_fuel _ _ _ _ _
        · intro saved m3
          split
          · simp
          · skip
            apply bind_ne_fuel
            · exact readInto_ne_fuel _ _ _ _ _ _
            · intro _ m4
              apply bind_ne_fuel
              · exact restorePos_ne_fuel _ _ _ _
              · intro _ m5; simp

theorem kvReadMany_ne_fuel (c : MetaCfg) (xs xe : UInt64) (ans : Nat → KvAns) :
    ∀ (rem i : Nat) (m : MetaSt), (kvReadMany c xs xe ans rem i m).r ≠ .error .fuel := by
  intro rem
  induction rem with
  | zero => intro i m; simp [kvReadMany]
  | succ rem ih =>
    intro i m
    unfold kvReadMany
    apply bind_ne_fuel
    · exact kvRead_ne_fuel _ _ _ _ _
    · intro _ m1; exact ih (i + 1) m1

theorem xattrGetDesc_ne_fuel (c : MetaCfg) (x : XattrSt) (idx : UInt32) : (xattrGetDesc c x idx).r ≠ .error .fuel := by
  unfold xattrGetDesc
  dsimp only
  split
  · simp
  split
  · split <;> simp
  split
  · simp
  · apply bind_ne_fuel
    · exact ofRes_seek_ne_fuel _ _ _ _
    · intro _ m; exact readInto_ne_fuel _ _ _ _ _ _

theorem xattrSeekKv_ne_fuel (c : MetaCfg) (x : XattrSt) (xattr : UInt64) : (xattrSeekKv c x xattr).r ≠ .error .fuel := by
  unfold xattrSeekKv
  dsimp only
  split
  · simp
  · exact seek_ne_fuel _ _ _ _

theorem xattrReadAll_ne_fuel (c : MetaCfg) (x : XattrSt) (idx : UInt32) (xattr : UInt64) (count : UInt32)
    (ans : Nat → KvAns) : (xattrReadAll c x idx xattr count ans).r ≠ .error .fuel := by
  unfold xattrReadAll
  split
  · simp
  dsimp only
  split
  · rename_i e he
    intro h
    simp only [Except.error.injEq] at h
    subst h
    exact xattrGetDesc_ne_fuel c x idx he
  split
  · rename_i e he
    intro h
    simp only [Except.error.injEq] at h
    subst h
    exact xattrSeekKv_ne_fuel c _ xattr he
  · exact kvReadMany_ne_fuel c _ _ ans count.toNat 0 _

/-! ## `read_super.c` -/

theorem shiftLoop_pow (k : Nat) (h1 : 12 ≤ k) (h2 : k ≤ 20) : (shiftLoop k 1).toNat = 2 ^ k := by
  have : k = 12 ∨ k = 13 ∨ k = 14 ∨ k = 15 ∨ k = 16 ∨ k = 17 ∨ k = 18 ∨ k = 19 ∨ k = 20 := by omega
  rcases this with rfl | rfl | rfl | rfl | rfl | rfl | rfl | rfl | rfl <;> decide

theorem superRead_safe (io : Bool) (s : Super) : ∀ a ∈ (superRead io s).2, a.inBounds := by
  have ha : ∀ a ∈ [Access.mk .superBuf 0 Consts.sizeofSuper Consts.sizeofSuper], a.inBounds := by
    intro a ha
    simp only [List.mem_cons, List.mem_nil_iff, or_false] at ha
    subst ha; simp [Access.inBounds]
  unfold superRead
  dsimp only
  repeat (first | exact ha | split)

/-- what a successful `sqfs_super_read` has established -/
structure SuperOk (s : Super) : Prop where
  magic : s.magic.toNat = Consts.magic
  version : s.vMajor.toNat = Consts.versionMajor ∧ s.vMinor.toNat = Consts.versionMinor
  bsMin : Consts.minBlockSize ≤ s.blockSize.toNat
  bsMax : s.blockSize.toNat ≤ Consts.maxBlockSize
  logMin : 12 ≤ s.blockLog.toNat
  logMax : s.blockLog.toNat ≤ 20
  bsPow : s.blockSize.toNat = 2 ^ s.blockLog.toNat
  comp : Consts.compMin ≤ s.compId.toNat ∧ s.compId.toNat ≤ Consts.compMax
  ids : s.idCount.toNat ≠ 0

theorem superRead_ok (io : Bool) (s : Super) (h : (superRead io s).1 = .ok ()) : io = false ∧ SuperOk s := by
  unfold superRead at h
  dsimp only at h
  split at h
  · simp at h
  split at h
  · simp at h
  split at h
  · simp at h
  split at h
  · simp at h
  split at h
  · simp at h
  split at h
  · simp at h
  split at h
  · simp at h
  split at h
  · simp at h
  split at h
  · simp at h
  split at h
  · simp at h
  rename_i hio hmagic hver _ hmin hmax hlog hpow hcomp hid
  have hmagic' : s.magic = Consts.magic.toUInt32 := by simpa using hmagic
  have hver' : s.vMajor = Consts.versionMajor.toUInt16 ∧ s.vMinor = Consts.versionMinor.toUInt16 := by
    simpa using hver
  have hlog' : 12 ≤ s.blockLog.toNat ∧ s.blockLog.toNat ≤ 20 := by
    simp only [Bool.or_eq_true, decide_eq_true_eq, not_or, UInt16.not_lt, UInt16.le_iff_toNat_le] at hlog
    exact ⟨by simpa using hlog.1, by simpa using hlog.2⟩
  have hpow' : s.blockSize.toUInt64 = shiftLoop s.blockLog.toNat 1 := by simpa using hpow
  have hcomp' : Consts.compMin ≤ s.compId.toNat ∧ s.compId.toNat ≤ Consts.compMax := by
    simp only [Bool.or_eq_true, decide_eq_true_eq, not_or, UInt16.not_lt, UInt16.le_iff_toNat_le] at hcomp
    have e1 : Consts.compMin % 65536 = Consts.compMin := by decide
    have e2 : Consts.compMax % 65536 = Consts.compMax := by decide
    have c1 := hcomp.1
    have c2 := hcomp.2
    simp only [Nat.toUInt16, UInt16.toNat_ofNat', Nat.reducePow, e1, e2] at c1 c2
    exact ⟨c1, c2⟩
  refine ⟨by simpa using hio, ⟨?_, ?_, ?_, ?_, hlog'.1, hlog'.2, ?_, hcomp', ?_⟩⟩
  · rw [hmagic']; decide
  · rw [hver'.1, hver'.2]; decide
  · rw [UInt32.not_lt, UInt32.le_iff_toNat_le] at hmin
    have e1 : Consts.minBlockSize % 4294967296 = Consts.minBlockSize := by decide
    simp only [Nat.toUInt32, UInt32.toNat_ofNat', Nat.reducePow, e1] at hmin
    exact hmin
  · rw [UInt32.not_lt, UInt32.le_iff_toNat_le] at hmax
    have e1 : Consts.maxBlockSize % 4294967296 = Consts.maxBlockSize := by decide
    simp only [Nat.toUInt32, UInt32.toNat_ofNat', Nat.reducePow, e1] at hmax
    exact hmax
  · have := shiftLoop_pow s.blockLog.toNat hlog'.1 hlog'.2
    rw [← hpow'] at this
    simpa using this
  · intro h0
    apply hid
    have : s.idCount = 0 := UInt16.toNat_inj.1 (by simpa using h0)
    simp [this]

/-! ## `id_table.c`, `frag_table.c` -/

/-- the request `sqfs_id_table_read` hands to `sqfs_read_table`: `id_count * 4` bytes (no wrap), read at
`id_table_start`, the meta reader window ends at `id_table_start` -/
theorem idTableReq_ok (s : Super) (req : TableReq) (h : idTableReq s = .ok req) :
    req.tableSize.toNat = s.idCount.toNat * 4 ∧ req.location = s.idTableStart ∧ req.upper = s.idTableStart ∧
    s.idCount.toNat ≠ 0 ∧ s.idTableStart.toNat < s.bytesUsed.toNat := by
  unfold idTableReq at h
  split at h
  · cases h
  · rename_i hc
    simp only [Bool.or_eq_true, decide_eq_true_eq, not_or, UInt64.not_le, UInt64.lt_iff_toNat_lt] at hc
    dsimp only at h
    simp only [Except.ok.injEq] at h
    subst h
    have hid := UInt16.toNat_lt s.idCount
    refine ⟨?_, rfl, rfl, ?_, hc.2⟩
    · have e4 : (4 : UInt64).toNat = 4 := rfl
      rw [UInt64.toNat_mul, e4]; simp only [UInt16.toNat_toUInt64]; omega
    · intro h0
      apply hc.1
      have : s.idCount = 0 := UInt16.toNat_inj.1 (by simpa using h0)
      simp [this]

theorem idTableRead_safe (s : Super) (rt : Except Err Unit) : ∀ a ∈ (idTableRead s rt).2, a.inBounds := by
  unfold idTableRead
  split
  · simp
  · rename_i req hreq
    split
    · simp
    · have h := idTableReq_ok s req hreq
      intro a ha
      simp only [idTableSwap, List.mem_map, List.mem_range] at ha
      obtain ⟨i, hi, rfl⟩ := ha
      simp only [Access.inBounds]
      omega

theorem indexToId_safe (used : UInt64) (index : UInt16) (as : List Access) (h : indexToId used index = .ok as) :
    ∀ a ∈ as, a.inBounds := by
  unfold indexToId at h
  split at h
  · cases h
  · rename_i hlt
    rw [UInt64.not_le, UInt64.lt_iff_toNat_lt] at hlt
    simp only [UInt16.toNat_toUInt64] at hlt
    simp only [Except.ok.injEq] at h
    subst h
    intro a ha
    simp only [List.mem_cons, List.mem_nil_iff, or_false] at ha
    subst ha
    simp only [Access.inBounds]; omega

theorem e_szFrag : Consts.sizeofFragment.toUInt64.toNat = 16 := by decide

/-- the request `sqfs_frag_table_read` hands to `sqfs_read_table`: `count * 16` bytes without wrap, located inside
the window `[directory_table_start, min(id_table_start, export_table_start))` -/
theorem fragTableReq_ok (s : Super) (req : TableReq) (h : fragTableReq s = .ok (some req)) :
    req.tableSize.toNat = s.fragCount.toNat * 16 ∧ s.fragCount.toNat ≠ 0 ∧ req.location = s.fragTableStart ∧
    req.lower = s.dirTableStart ∧ req.lower.toNat ≤ req.location.toNat ∧ req.location.toNat < s.idTableStart.toNat ∧
    req.location.toNat < s.bytesUsed.toNat ∧ req.upper.toNat ≤ s.idTableStart.toNat := by
  unfold fragTableReq at h
  split at h
  · cases h
  split at h
  · cases h
  split at h
  · cases h
  split at h
  · cases h
  split at h
  · cases h
  split at h
  · cases h
  rename_i _ _ hcnt hbu hdts hits
  dsimp only at h
  split at h
  · cases h
  · rename_i size hsize
    have e := mulOv_some _ _ _ hsize
    rw [e_szFrag] at e
    simp only [UInt32.toNat_toUInt64] at e
    simp only [Except.ok.injEq, Option.some.injEq] at h
    subst h
    rw [UInt64.not_le, UInt64.lt_iff_toNat_lt] at hbu hits
    rw [UInt64.not_lt, UInt64.le_iff_toNat_le] at hdts
    refine ⟨e, ?_, rfl, rfl, hdts, hits, hbu, ?_⟩
    · intro h0
      apply hcnt
      have : s.fragCount = 0 := UInt32.toNat_inj.1 (by simpa using h0)
      simp [this]
    · dsimp only
      split
      · rename_i hlt; rw [UInt64.lt_iff_toNat_lt] at hlt; omega
      · omega

theorem fragLookup_safe (used : UInt64) (index : UInt32) (as : List Access) (h : fragLookup used index = .ok as) :
    ∀ a ∈ as, a.inBounds := by
  unfold fragLookup at h
  split at h
  · cases h
  · rename_i hlt
    rw [UInt64.not_le, UInt64.lt_iff_toNat_lt] at hlt
    simp only [UInt32.toNat_toUInt64] at hlt
    simp only [Except.ok.injEq] at h
    subst h
    intro a ha
    simp only [List.mem_cons, List.mem_nil_iff, or_false] at ha
    subst ha
    have e : Consts.sizeofFragment = 16 := by decide
    simp only [Access.inBounds, e]; omega

/-! ## `dir_reader.c`, `sqfs_dir_entry_from_inode`, `it_read_link` -/

theorem openDir_ok (dotEntries : Bool) (flags : UInt32) (dts rootRef : UInt64) (cache : UInt32 → Option UInt64)
    (ino : DirIno) (st : DirSt) (h : openDir dotEntries flags dts rootRef cache ino = .ok st) :
    st.size.toNat = ino.size.toNat ∧ st.offset.toNat = ino.offset.toNat ∧ st.block = ino.startBlock.toUInt64 + dts ∧
    (st.state = .opened ∨ st.state = .entries) ∧ (st.state = .opened → cache ino.inum = some st.dirRef) := by
  unfold openDir at h
  split at h
  · cases h
  split at h
  · cases h
  dsimp only at h
  split at h
  · split at h
    · cases h
    · rename_i dirRef hdir
      split at h
      · simp only [Except.ok.injEq] at h; subst h
        simp [DirSt.zero, hdir]
      · split at h
        · cases h
        · simp only [Except.ok.injEq] at h; subst h
          simp [DirSt.zero, hdir]
  · simp only [Except.ok.injEq] at h; subst h
    simp [DirSt.zero]

theorem dirReadDot_safe (st : DirSt) (r : Except Err DirSt) (as : List Access) (h : dirReadDot st = some (r, as)) :
    ∀ a ∈ as, a.inBounds := by
  unfold dirReadDot at h
  split at h
  · simp only [Option.some.injEq, Prod.mk.injEq] at h
    obtain ⟨_, rfl⟩ := h
    intro a ha
    simp only [dummyEntry, List.mem_cons, List.mem_nil_iff, or_false] at ha
    subst ha; simp only [Access.inBounds]; omega
  · simp only [Option.some.injEq, Prod.mk.injEq] at h
    obtain ⟨_, rfl⟩ := h
    intro a ha
    simp only [dummyEntry, List.mem_cons, List.mem_nil_iff, or_false] at ha
    subst ha; simp only [Access.inBounds]; omega
  · simp at h
  · simp only [Option.some.injEq, Prod.mk.injEq] at h
    obtain ⟨_, rfl⟩ := h
    simp

/-- `.` and `..` are delivered once each, in this order, then the listing follows -/
theorem dirReadDot_states (st : DirSt) (hs : st.state = .opened) :
    ∃ st1 st2 a1 a2, dirReadDot st = some (.ok st1, a1) ∧ st1.entRef = st.dirRef ∧
      dirReadDot st1 = some (.ok st2, a2) ∧ st2.entRef = st.parentRef ∧ dirReadDot st2 = none := by
  refine ⟨{ st with state := .dot, entRef := st.dirRef }, { st with state := .entries, entRef := st.parentRef },
    dummyEntry 1, dummyEntry 2, ?_, rfl, ?_, rfl, ?_⟩
  · simp [dirReadDot, hs]
  · simp [dirReadDot]
  · simp [dirReadDot]

theorem takeWhile_length_le {α : Type} (p : α → Bool) : ∀ l : List α, (l.takeWhile p).length ≤ l.length := by
  intro l
  induction l with
  | nil => simp
  | cons a t ih =>
    simp only [List.takeWhile_cons]
    split
    · simp only [List.length_cons]; omega
    · simp

theorem cstr_length_le (name : List UInt8) : (cstr name).length ≤ name.length := by
  unfold cstr
  exact takeWhile_length_le _ _

theorem entryNameLen_le (name : List UInt8) (len : UInt64) : entryNameLen name len ≤ name.length := by
  have := cstr_length_le name
  unfold entryNameLen
  split
  · split <;> omega
  · omega

theorem entryNameExamined_le (name : List UInt8) (len : UInt64) : entryNameExamined name len ≤ name.length + 1 := by
  have := cstr_length_le name
  unfold entryNameExamined
  split
  · split <;> omega
  · omega

/-- `hlen`: the name buffer is an object in memory, its size fits a `size_t` -/
theorem dirEntryFromInode_safe (used : UInt64) (uidIdx gidIdx : UInt16) (name : List UInt8) (len : UInt64)
    (hlen : name.length + 1 < 2 ^ 64) :
    ∀ a ∈ (dirEntryFromInode used uidIdx gidIdx name len).2, a.inBounds := by
  have hn := entryNameLen_le name len
  have he := entryNameExamined_le name len
  unfold dirEntryFromInode
  split
  · simp
  · rename_i a1 h1
    have s1 := indexToId_safe used uidIdx a1 h1
    split
    · exact s1
    · rename_i a2 h2
      have s2 := indexToId_safe used gidIdx a2 h2
      have h3 : ∀ a ∈ a1 ++ a2 ++ [Access.mk .nameIn 0 (entryNameExamined name len) (name.length + 1)], a.inBounds := by
        intro a ha
        rcases List.mem_append.1 ha with ha | ha
        · rcases List.mem_append.1 ha with ha | ha
          · exact s1 a ha
          · exact s2 a ha
        · simp only [List.mem_cons, List.mem_nil_iff, or_false] at ha
          subst ha; simp only [Access.inBounds]; omega
      dsimp only
      split
      · exact h3
      · rename_i alloc halloc
        have e := allocFlex_some _ _ _ _ halloc
        intro a ha
        rcases List.mem_append.1 ha with ha | ha
        · exact h3 a ha
        · have e64 : Consts.sizeofDirEntry.toUInt64.toNat = 64 := by decide
          have e64' : Consts.sizeofDirEntry = 64 := by decide
          have one : (1 : UInt64).toNat = 1 := rfl
          have hn1 : ((entryNameLen name len).toUInt64 + 1).toNat = entryNameLen name len + 1 := by
            rw [UInt64.toNat_add, one]
            simp only [Nat.toUInt64, UInt64.toNat_ofNat']
            omega
          rw [e64, one, hn1] at e
          simp only [List.mem_cons, List.mem_nil_iff, or_false] at ha
          rcases ha with rfl | rfl
          · simp only [Access.inBounds]; omega
          · simp only [Access.inBounds, e64']; omega

theorem readLink_safe (targetSize : UInt32) : ∀ a ∈ readLink targetSize, a.inBounds := by
  intro a ha
  have h := UInt32.toNat_lt targetSize
  have one : (1 : UInt64).toNat = 1 := rfl
  simp only [readLink, List.mem_cons, List.mem_nil_iff, or_false] at ha
  rcases ha with rfl | rfl
  · simp only [Access.inBounds, UInt64.toNat_add, UInt32.toNat_toUInt64, one]; omega
  · simp only [Access.inBounds, UInt32.toNat_toUInt64]; omega

end Sqfs.ReaderTables
