/-
C04 fix-point — paths: the name sqfs2tar writes for a node (components joined by '/', directories with a trailing '/')
is canonicalised by the tar iterator to the join of the components, and splits back into them.
-/
import Sqfs.Props.C18
import Sqfs.Spec.TarFix
namespace Sqfs.Tar
open Sqfs.Path

theorem clean_slashFree {c : Bytes} (h : CleanComp c) : SlashFree c := h.2.2.2.1

theorem clean_keep {c : Bytes} (h : CleanComp c) : keep c = true := by
  unfold keep
  rw [isNE_of_ne h.1, notDot_iff.2 h.2.1]; rfl

theorem splitSlash_join_trailing (ps : List Bytes) (hne : ps ≠ []) (hsf : ∀ c ∈ ps, SlashFree c) :
    splitSlash (joinSlash ps ++ [SL]) = ps ++ [[]] := by
  induction ps with
  | nil => exact absurd rfl hne
  | cons c r ih =>
    cases r with
    | nil =>
      simp only [joinSlash]
      rw [splitSlash_append (hsf c (by simp))]
      rfl
    | cons d r' =>
      simp only [joinSlash, List.append_assoc, List.cons_append]
      rw [splitSlash_append (hsf c (by simp))]
      rw [ih (by simp) (fun x hx => hsf x (by simp [hx]))]
      rfl

theorem filter_keep_clean (ps : List Bytes) (h : ∀ c ∈ ps, CleanComp c) : ps.filter keep = ps := by
  rw [List.filter_eq_self]
  intro c hc; exact clean_keep (h c hc)

theorem dotdot_not_mem (ps : List Bytes) (h : ∀ c ∈ ps, CleanComp c) : ([DOT, DOT] : Bytes) ∉ ps := by
  intro hm; exact (h _ hm).2.2.1 rfl

/-- a clean path is canonical -/
theorem canon_join (ps : List Bytes) (hne : ps ≠ []) (h : ∀ c ∈ ps, CleanComp c) :
    canonicalize (joinSlash ps) = some (joinSlash ps) := by
  rw [Sqfs.C18.canon_eq_spec]
  unfold specCanon
  rw [splitSlash_joinSlash ps hne (fun c hc => clean_slashFree (h c hc))]
  simp only [dotdot_not_mem ps h, if_false, filter_keep_clean ps h]

/-- … and so is the same path with the trailing '/' sqfs2tar gives directories -/
theorem canon_join_trailing (ps : List Bytes) (hne : ps ≠ []) (h : ∀ c ∈ ps, CleanComp c) :
    canonicalize (joinSlash ps ++ [SL]) = some (joinSlash ps) := by
  rw [Sqfs.C18.canon_eq_spec]
  unfold specCanon
  rw [splitSlash_join_trailing ps hne (fun c hc => clean_slashFree (h c hc))]
  have hnm : ([DOT, DOT] : Bytes) ∉ ps ++ [[]] := by
    intro hm
    rcases List.mem_append.1 hm with hm | hm
    · exact dotdot_not_mem ps h hm
    · simp at hm
  simp only [hnm, if_false, List.filter_append, filter_keep_clean ps h]
  have : ([[]] : List Bytes).filter keep = [] := by decide
  rw [this, List.append_nil]

theorem joinSlash_mem (ps : List Bytes) (x : UInt8) (hx : x ∈ joinSlash ps) : x = SL ∨ ∃ c ∈ ps, x ∈ c := by
  induction ps with
  | nil => simp [joinSlash] at hx
  | cons c r ih =>
    cases r with
    | nil => exact Or.inr ⟨c, by simp, by simpa [joinSlash] using hx⟩
    | cons d r' =>
      simp only [joinSlash, List.mem_append, List.mem_cons] at hx
      rcases hx with hx | hx | hx
      · exact Or.inr ⟨c, by simp, hx⟩
      · exact Or.inl hx
      · rcases ih hx with h | ⟨c', hc', hxc⟩
        · exact Or.inl h
        · exact Or.inr ⟨c', List.mem_cons_of_mem _ hc', hxc⟩

theorem joinSlash_nul_free (ps : List Bytes) (h : ∀ c ∈ ps, CleanComp c) : ∀ x ∈ joinSlash ps, x ≠ 0 := by
  intro x hx
  rcases joinSlash_mem ps x hx with rfl | ⟨c, hc, hxc⟩
  · decide
  · intro h0; subst h0; exact (h c hc).2.2.2.2 hxc

theorem joinSlash_ne_nil (ps : List Bytes) (hne : ps ≠ []) (h : ∀ c ∈ ps, CleanComp c) : joinSlash ps ≠ [] := by
  cases ps with
  | nil => exact absurd rfl hne
  | cons c r =>
    have hc := (h c (by simp)).1
    cases r with
    | nil => simpa [joinSlash] using hc
    | cons d r' =>
      simp only [joinSlash]
      intro h0
      have := congrArg List.length h0
      simp at this

end Sqfs.Tar
