/-
C01 — id table, fragment table, export table and super block round trips; index safety of the xattr location array.
-/
import Sqfs.Proofs.EncTable
import Sqfs.Proofs.WriterStep
import Sqfs.Model.EncXattr
namespace Sqfs.Enc
open Sqfs.Consts
open Sqfs.Writer (le leVal le_length)
open Sqfs.MetaWriter (Codec)

theorem decWords_encWords' (w : Nat) (l : List Nat) (h : ∀ v ∈ l, v < 256 ^ w) : decWords w l.length (encWords w l) = l := by
  have := decWords_encWords w l [] h
  simpa using this

/-- a non-empty table has at least one block, so its location list is not empty -/
theorem writeTableAt_start_lt (cmp : Codec) (file data : Bytes) (h : data ≠ []) :
    (writeTableAt cmp file data).2 < (writeTableAt cmp file data).1.length := by
  have hb := blocks_count cmp _ (run_blocksOk cmp (Sqfs.MetaWriter.chunksOf (data.length + 1) data)).1
    (run_full cmp (Sqfs.MetaWriter.chunksOf (data.length + 1) data))
  rw [(run_blocksOk cmp _).2, chunksOf_flatten _ _ (by omega)] at hb
  have hl := locs_fold (Sqfs.MetaWriter.run cmp (Sqfs.MetaWriter.chunksOf (data.length + 1) data)).out [] 0
  have hpos : 0 < data.length := List.length_pos_iff.mpr h
  have hcnt : 0 < tableBlockCount data.length := by
    unfold tableBlockCount
    simp only [metaBlockSize]
    by_cases hm : data.length % 8192 = 0 <;> simp [hm] <;> omega
  simp only [writeTableAt, Sqfs.MetaWriter.writeTable, hl, List.nil_append, List.length_append, encWords_length, List.length_map,
    List.length_range, hb]
  omega

/-- **id table**: the ids read back in table order (so that index `i` still names id `i`) -/
theorem idTable_roundtrip {cmp : Codec} {unc : Unc} (hc : CodecOk cmp unc) (file : Bytes) (ids : List Nat)
    (hne : ids ≠ []) (h32 : ∀ v ∈ ids, v < 2 ^ 32) (hsz : (idTableWrite cmp file ids).1.length < 2 ^ 64) :
    idTableRead unc (idTableWrite cmp file ids).1 ids.length (idTableWrite cmp file ids).2 file.length
      (idTableWrite cmp file ids).2 (idTableWrite cmp file ids).1.length = .ok ids := by
  unfold idTableRead idTableWrite at *
  have hlen : ids.length ≠ 0 := by intro h; exact hne (List.eq_nil_of_length_eq_zero h)
  have hloc := writeTableAt_start_lt cmp file (encWords 4 ids) (by
    intro h
    have := congrArg List.length h
    rw [encWords_length] at this
    simp at this; omega)
  have hcond : ¬ (ids.length = 0 ∨ (writeTableAt cmp file (encWords 4 ids)).2 ≥ (writeTableAt cmp file (encWords 4 ids)).1.length) := by
    omega
  simp only [hcond, if_false]
  have hrt := readTableAt_writeTableAt hc file (encWords 4 ids) hsz
  rw [encWords_length, Nat.mul_comm] at hrt
  rw [hrt]
  simp only
  rw [decWords_encWords' 4 ids (by intro v hv; have := h32 v hv; simpa using this)]

theorem decFrags_encFrags (l : List (Nat × Nat)) (h : ∀ f ∈ l, f.1 < 2 ^ 64 ∧ f.2 < 2 ^ 32) : decFrags l.length (encFrags l) = l := by
  induction l with
  | nil => rfl
  | cons f l ih =>
    obtain ⟨h1, h2⟩ := h f (List.mem_cons_self ..)
    simp only [List.length_cons, decFrags, encFrags, List.map_cons, List.flatten_cons, encFrag]
    have hd := decFields_encFields [(8, f.1), (4, f.2), (4, 0)] ((l.map encFrag).flatten)
    simp only [List.map_cons, List.map_nil, wrapFields] at hd
    rw [hd]
    have e8 : (256 : Nat) ^ 8 = 2 ^ 64 := by decide
    have e4 : (256 : Nat) ^ 4 = 2 ^ 32 := by decide
    simp only [e8, e4, Nat.mod_eq_of_lt h1, Nat.mod_eq_of_lt h2]
    have hlen : (encFields [(8, f.1), (4, f.2), (4, 0)]).length = sizeofFragment := by simp [encFields_length, sizeofFragment]
    rw [← hlen, List.drop_left]
    have := ih (fun x hx => h x (List.mem_cons_of_mem _ hx))
    simp only [encFrags] at this
    rw [this]

theorem encFrags_length (l : List (Nat × Nat)) : (encFrags l).length = l.length * sizeofFragment := by
  induction l with
  | nil => rfl
  | cons f l ih =>
    simp only [encFrags, List.map_cons, List.flatten_cons, List.length_append, List.length_cons] at ih ⊢
    rw [ih]; simp [encFrag, encFields_length, sizeofFragment]; omega

/-- **fragment table**: every `(start, size word)` entry reads back -/
theorem fragTable_roundtrip {cmp : Codec} {unc : Unc} (hc : CodecOk cmp unc) (file : Bytes) (frags : List (Nat × Nat))
    (h : ∀ f ∈ frags, f.1 < 2 ^ 64 ∧ f.2 < 2 ^ 32) (hsz : (fragTableWrite cmp file frags).1.length < 2 ^ 64) :
    fragTableRead unc (fragTableWrite cmp file frags).1 frags.length (fragTableWrite cmp file frags).2 file.length
      (fragTableWrite cmp file frags).2 = .ok frags := by
  unfold fragTableRead fragTableWrite at *
  have hrt := readTableAt_writeTableAt hc file (encFrags frags) hsz
  rw [encFrags_length] at hrt
  rw [hrt]
  simp only
  rw [decFrags_encFrags frags h]

/-- **export table**: entry `n - 1` is the reference stored for inode `n` -/
theorem exportTable_roundtrip {cmp : Codec} {unc : Unc} (hc : CodecOk cmp unc) (file : Bytes) (refs : List Nat)
    (h : ∀ v ∈ refs, v < 2 ^ 64) (hsz : (exportTableWrite cmp file refs).1.length < 2 ^ 64) :
    exportTableRead unc (exportTableWrite cmp file refs).1 refs.length (exportTableWrite cmp file refs).2 file.length
      (exportTableWrite cmp file refs).2 = .ok refs := by
  unfold exportTableRead exportTableWrite at *
  have hrt := readTableAt_writeTableAt hc file (encWords 8 refs) hsz
  rw [encWords_length, Nat.mul_comm] at hrt
  rw [hrt]
  simp only
  rw [decWords_encWords' 8 refs (by intro v hv; have := h v hv; simpa using this)]

/-! ### super block -/

open Sqfs.Writer in
/-- what `sqfs_super_read` checks, on the in-memory super block -/
structure SuperValid (s : Super) : Prop where
  fits : s.wrap = s
  magic : s.magic = Consts.magic
  vmaj : s.vMajor = versionMajor
  vmin : s.vMinor = versionMinor
  log : 12 ≤ s.blockLog ∧ s.blockLog ≤ 20
  bs : s.blockSize = 2 ^ s.blockLog
  comp : compMin ≤ s.compId ∧ s.compId ≤ compMax
  ids : s.idCount ≠ 0

open Sqfs.Writer in
/-- **super block**: `sqfs_super_read` returns what `sqfs_super_write` was given, for every super block that passes
the reader's own sanity checks and whose fields fit their on-disk widths -/
theorem super_roundtrip' (s : Super) (rest : Bytes) (h : SuperValid s) : superRead (s.encode ++ rest) = .ok s := by
  have hl : sizeofSuper ≤ (s.encode ++ rest).length := by rw [List.length_append, encode_length]; omega
  have ht : (s.encode ++ rest).take sizeofSuper = s.encode := by rw [← encode_length s, List.take_left]
  have hd : Super.decode ((s.encode ++ rest).take sizeofSuper) = s := by rw [ht, decode_encode, h.fits]
  have hp := pow2_check s.blockLog h.log.1 h.log.2
  have := superRead_of_checks (s.encode ++ rest) hl (by rw [hd]; exact h.magic) (by rw [hd]; exact h.vmaj) (by rw [hd]; exact h.vmin)
    (by rw [hd, h.bs]; exact hp.1) (by rw [hd, h.bs]; exact hp.2.1) (by rw [hd, h.bs]; exact hp.2.2.1) (by rw [hd]; exact h.log)
    (by rw [hd]; exact h.bs) (by rw [hd]; exact h.comp) (by rw [hd]; exact h.ids)
  rw [this, hd]

/-! ### `locations[]` of the xattr id table -/

theorem locStoresGo_lt (c : Nat) (blockAfter : Nat → Nat) : ∀ (f k i last : Nat),
    ∀ s ∈ locStoresGo (some c) blockAfter f k i last, s.1 < c := by
  intro f
  induction f with
  | zero => intro k i last s hs; simp [locStoresGo] at hs
  | succ f ih =>
    intro k i last s hs
    simp only [locStoresGo] at hs
    split at hs
    · rename_i hc
      simp only [Bool.and_eq_true, decide_eq_true_eq] at hc
      rcases List.mem_cons.mp hs with h | h
      · subst h; exact hc.2
      · exact ih _ _ _ s h
    · exact ih _ _ _ s hs

/-- **Index safety of the repaired `write_id_table`**: every store into `locations[]` has an index below the
number of slots `alloc_location_table` provided, for any number of sets (multiples of 512 included) and any block
layout -/
theorem locStores_lt (blockAfter : Nat → Nat) (n : Nat) (hn : 0 < n) :
    ∀ s ∈ locStores (some (locCount n)) blockAfter n, s.1 < locCount n := by
  intro s hs
  rcases List.mem_cons.mp hs with h | h
  · subst h
    unfold locCount
    simp only [sizeofXattrId, metaBlockSize]
    by_cases hm : n * 16 % 8192 = 0 <;> simp [hm] <;> omega
  · exact locStoresGo_lt _ _ _ _ _ _ s h

end Sqfs.Enc
