/-
C01 — the whole tree, part 4: the walk from the root reference over the finished streams yields `normalise`.
-/
import Sqfs.Proofs.EncTreeAll3
namespace Sqfs.Enc
open Sqfs.Consts
open Sqfs.FsTree (TNode Path lookup Result indexOf isType)
open Sqfs.DirWriter (DEnt)

theorem toEntry_map (des : List DEnt) :
    (des.map DEnt.toEntry).map (fun e => (e.name, e.ref)) = des.map (fun e => (e.name, e.inodeRef)) := by
  rw [List.map_map]; rfl

/-- **the walk**: entries whose references are those handed out for the paths `tps` read back as `normNodes` of
those paths, level by level, with the same fuel -/
theorem walk (bs : Nat) (root : TNode) (inodes : List Path) (x : TreeExtra) (stF : TreeSt) (refsF : List (Path × Nat))
    (hk : refsF.map (·.1) = inodes.reverse) (hst : ∀ p ∈ inodes, StoredAt bs root inodes x stF refsF p) :
    ∀ (fuel : Nat) (tps : List (Bytes × Path)) (ents : List DirEntry) (vs : List VNode),
      ents.map (fun e => (e.name, e.ref)) = tps.map (fun t => (t.1, lookupRef refsF t.2)) →
      (∀ t ∈ tps, t.2 ∈ inodes) → normNodes root inodes x fuel tps = some vs →
      ∃ rns, readNodes bs stF fuel ents = .ok rns ∧ resolveList stF.ids rns = vs := by
  intro fuel
  induction fuel with
  | zero =>
    intro tps ents vs hm _ hn
    cases tps with
    | nil =>
      cases ents with
      | nil => simp only [normNodes, Option.some.injEq] at hn; subst hn; exact ⟨[], rfl, rfl⟩
      | cons e er => simp at hm
    | cons t tr => simp [normNodes] at hn
  | succ f ih =>
    intro tps ents vs hm hin hn
    cases tps with
    | nil =>
      cases ents with
      | nil => simp only [normNodes, Option.some.injEq] at hn; subst hn; exact ⟨[], rfl, rfl⟩
      | cons e er => simp at hm
    | cons t trest =>
      obtain ⟨nm, tp⟩ := t
      cases ents with
      | nil => simp at hm
      | cons e erest =>
        simp only [List.map_cons, List.cons.injEq, Prod.mk.injEq] at hm
        obtain ⟨⟨hname, href⟩, hmrest⟩ := hm
        have htp : tp ∈ inodes := hin (nm, tp) (List.mem_cons_self ..)
        obtain ⟨n, i, pos, tail, a, h1, h2, h3, h4, h5, h6, h7, h8, h9⟩ := hst tp htp
        -- the inode behind the entry
        have hget : getInode bs stF.inodes e.ref = .ok i := by
          rw [href, h2]
          simp only [getInode, rawPos_rawRef]
          rw [if_neg (by omega), h5, decInode_encInode bs i tail h4]
        -- the input's side
        simp only [normNodes, h1, h6] at hn
        by_cases hdir : n.isDir = true
        · simp only [hdir, if_true] at hn
          obtain ⟨dpos, des, dtail, d1, d2, d3, d4, d5, d6, d7⟩ := h9 hdir
          cases hb : normNodes root inodes x f (n.children.map (fun c => (c.name, entryTarget tp c))) with
          | none => rw [hb] at hn; cases hn
          | some cs =>
            rw [hb] at hn
            cases hr : normNodes root inodes x f trest with
            | none => rw [hr] at hn; cases hn
            | some l =>
              rw [hr] at hn
              simp only [Option.some.injEq] at hn
              have hlist : listDir stF i = .ok (des.map DEnt.toEntry) := by
                simp only [listDir, d1, d5, d2]
                exact readListing_encListing _ _ _ des dtail d4
              obtain ⟨rcs, hrc, hvc⟩ := ih (n.children.map (fun c => (c.name, entryTarget tp c))) (des.map DEnt.toEntry) cs
                (by rw [toEntry_map, d6, List.map_map]; rfl)
                (by
                  intro t ht
                  simp only [List.mem_map] at ht
                  obtain ⟨c, hc, rfl⟩ := ht
                  have := d7 c hc
                  rw [hk] at this
                  simpa using this)
                hb
              obtain ⟨rl, hrl, hvl⟩ := ih trest erest l hmrest (fun t ht => hin t (List.mem_cons_of_mem _ ht)) hr
              have hty : i.typeBits = sIFDIR := by rw [← view_typeBits]; exact h8.mpr hdir
              refine ⟨.mk e.name i rcs :: rl, ?_, ?_⟩
              · simp only [readNodes, hget, hty, if_true, hlist, hrc, hrl]
              · rw [← hn]
                simp only [resolveList, RNode.resolve, hvc, hvl, hname]
                have := h7 []
                rw [List.append_nil] at this
                rw [this]
        · have hdir' : n.isDir = false := by simpa using hdir
          simp only [hdir', Bool.false_eq_true, if_false] at hn
          cases hr : normNodes root inodes x f trest with
          | none => rw [hr] at hn; cases hn
          | some l =>
            rw [hr] at hn
            simp only [Option.some.injEq] at hn
            obtain ⟨rl, hrl, hvl⟩ := ih trest erest l hmrest (fun t ht => hin t (List.mem_cons_of_mem _ ht)) hr
            have hty : ¬ i.typeBits = sIFDIR := by
              rw [← view_typeBits]; intro hh; exact hdir (h8.mp hh)
            refine ⟨.mk e.name i [] :: rl, ?_, ?_⟩
            · simp only [readNodes, hget, hty, if_false, hrl]
            · rw [← hn]
              simp only [resolveList, RNode.resolve, hvl, hname]
              have := h7 []
              rw [List.append_nil] at this
              rw [this]

/-! ### from the check `orderOkB` to the form the induction uses -/

theorem orderOk_spec (r : Result) (h : orderOkB r = true) :
    r.inodes.Nodup ∧ [] ∈ r.inodes ∧
    ∀ d p t, r.inodes = d ++ p :: t → ∀ n, lookup r.tree p = some n → n.isDir = true →
      ∀ c ∈ n.children, entryTarget p c ∈ d := by
  simp only [orderOkB, Bool.and_eq_true, decide_eq_true_eq, List.contains_iff_mem, List.all_eq_true, List.mem_range] at h
  obtain ⟨⟨h1, h2⟩, h3⟩ := h
  refine ⟨h1, h2, ?_⟩
  intro d p t hsplit n hl hdir c hc
  have hlen : d.length < r.inodes.length := by rw [hsplit]; simp
  have := h3 d.length hlen
  have hget : r.inodes.getD d.length [] = p := by rw [hsplit]; simp
  have htake : r.inodes.take d.length = d := by rw [hsplit]; simp
  rw [hget, hl, htake] at this
  simp only [hdir, Bool.not_true, Bool.false_or, List.all_eq_true, List.contains_iff_mem] at this
  exact this c hc

/-- **the whole tree reads back**: the walk from the root reference over the streams `sqfs_serialize_fstree` wrote
yields the tree the input describes -/
theorem serializeTree_readTree (bs : Nat) (r : Result) (x : TreeExtra) (out : TreeOut)
    (hser : serializeTree r x = .ok out) (hord : orderOkB r = true)
    (hattr : ∀ p ∈ r.inodes, ∀ n, lookup r.tree p = some n → AttrOk bs x p n)
    (hlen : r.inodes.length + 1 < 2 ^ 32)
    (hI : out.st.inodes.length / metaBlockSize * rawCost < 2 ^ 32)
    (hD1 : out.st.dirs.length / metaBlockSize * rawCost < 2 ^ 32) (hD2 : out.st.dirs.length + 3 < 2 ^ 32) :
    ∀ fuel v, normalise r x fuel = some v →
      ∃ rn, readTree bs out fuel = .ok rn ∧ rn.resolve out.st.ids = v := by
  obtain ⟨o1, o2, o3⟩ := orderOk_spec r hord
  unfold serializeTree at hser
  cases hgo : serializeGo r.tree r.inodes x r.inodes {} [] with
  | error e => rw [hgo] at hser; cases hser
  | ok res =>
    obtain ⟨stF, refsF⟩ := res
    rw [hgo] at hser
    simp only [Except.ok.injEq] at hser
    subst hser
    have hinv := serializeGo_inv bs r.tree r.inodes x hattr hlen o1 o3 stF refsF hI hD1 hD2 r.inodes [] {} []
      (by simp) (ginv_empty bs r.tree r.inodes x) hgo
    intro fuel v hv
    unfold normalise at hv
    cases hn : normNodes r.tree r.inodes x fuel [([], [])] with
    | none => rw [hn] at hv; cases hv
    | some vs =>
      rw [hn] at hv
      obtain ⟨rns, hr, hres⟩ := walk bs r.tree r.inodes x stF refsF hinv.keys hinv.stored fuel [([], [])]
        [⟨[], 0, 0, lookupRef refsF []⟩] vs rfl (by intro t ht; simp only [List.mem_singleton] at ht; subst ht; exact o2) hn
      cases vs with
      | nil => cases hv
      | cons v0 vr =>
        cases vr with
        | cons _ _ => cases hv
        | nil =>
          simp only [Option.some.injEq] at hv
          subst hv
          cases rns with
          | nil => simp [resolveList] at hres
          | cons r0 rr =>
            cases rr with
            | cons _ _ => simp [resolveList] at hres
            | nil =>
              simp only [resolveList, List.cons.injEq, and_true] at hres
              exact ⟨r0, by simp only [readTree, hr], hres⟩

end Sqfs.Enc
