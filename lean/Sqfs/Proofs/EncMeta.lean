/-
C01 — metadata blocks on disk: a run of blocks written by the meta writer reads back as the stream that was appended
(any codec meeting `CodecOk`), and a `(block start, offset)` reference computed from a stream position leads a reader
to the bytes at that position.
-/
import Sqfs.Model.EncMeta
import Sqfs.Proofs.EncBytes
import Sqfs.Proofs.MetaWriter
namespace Sqfs.Enc
open Sqfs.Consts
open Sqfs.Writer (le leVal le_length)
open Sqfs.MetaWriter (Block Codec Made run run_shape)

/-! ### one block -/

theorem or_8000 {n : Nat} (h : n < 32768) : n ||| 0x8000 = 32768 + n := by
  have : (0x8000 : Nat) = 1 <<< 15 := by decide
  rw [this, Nat.or_comm, ← Nat.shiftLeft_add_eq_or_of_lt (by simpa using h)]

theorem encBlock_length (b : Block) : (encBlock b).length = Block.diskSize b := by
  simp [encBlock, le_length, Block.diskSize]; omega

/-- a block made by the writer's `flush` is loaded back as the chunk it was made from -/
theorem decBlock_encBlock {cmp : Codec} {unc : Unc} (hc : CodecOk cmp unc) (b : Block) (hm : Made cmp b)
    (hl : b.raw.length ≤ metaBlockSize) (rest : Bytes) :
    decBlock unc (encBlock b ++ rest) = .ok (b.raw, rest) := by
  have h8 : metaBlockSize = 8192 := rfl
  unfold decBlock encBlock
  have hf := readFields_encFields [(2, b.header)] (b.stored ++ rest)
  simp only [encFields, List.append_nil, List.map_cons, List.map_nil, wrapFields] at hf
  rw [List.append_assoc, hf]
  have e2 : (256 : Nat) ^ 2 = 65536 := by decide
  cases hcomp : b.compressed with
  | true =>
    obtain ⟨h1, h2⟩ := hm.1 hcomp
    have hfit := hc.fits _ _ h1
    have hh : b.header % 256 ^ 2 = b.stored.length := by
      simp only [Block.header, hcomp, if_true, e2]; omega
    simp only [hh]
    have hs : b.stored.length % 32768 = b.stored.length := by omega
    have hd : b.stored.length / 32768 = 0 := by omega
    have hgt : ¬ (b.stored.length > metaBlockSize) := by omega
    simp only [hs, hgt, if_false, take?_append, hd, if_true, hc.inv _ _ h1 h2]
  | false =>
    have hst := hm.2 hcomp
    have hh : b.header % 256 ^ 2 = 32768 + b.raw.length := by
      simp only [Block.header, hcomp, Bool.false_eq_true, if_false, e2]
      rw [or_8000 (by omega)]; omega
    simp only [hh]
    have hs : (32768 + b.raw.length) % 32768 = b.stored.length := by rw [hst]; omega
    have hd : ¬ ((32768 + b.raw.length) / 32768 = 0) := by omega
    have hgt : ¬ (b.raw.length > metaBlockSize) := by omega
    simp only [hs, hst, hgt, if_false, take?_append, hd]

/-! ### a whole run -/

/-- what the meta writer guarantees for every block it emits -/
def BlocksOk (cmp : Codec) (bs : List Block) : Prop := ∀ b ∈ bs, Made cmp b ∧ 1 ≤ b.raw.length ∧ b.raw.length ≤ metaBlockSize

def rawOf (bs : List Block) : Bytes := (bs.map (·.raw)).flatten

theorem encBlocks_cons (b : Block) (bs : List Block) : encBlocks (b :: bs) = encBlock b ++ encBlocks bs := by
  simp [encBlocks]

theorem encBlock_ne_nil (b : Block) (rest : Bytes) : encBlock b ++ rest ≠ [] := by
  intro h
  have := congrArg List.length h
  simp [encBlock, le_length] at this

theorem metaReadAllGo_spec {cmp : Codec} {unc : Unc} (hc : CodecOk cmp unc) : ∀ (bs : List Block) (f : Nat),
    BlocksOk cmp bs → bs.length < f → metaReadAllGo unc f (encBlocks bs) = .ok (rawOf bs) := by
  intro bs
  induction bs with
  | nil =>
    intro f _ hf
    obtain ⟨g, rfl⟩ : ∃ g, f = g + 1 := ⟨f - 1, by simp at hf; omega⟩
    simp [metaReadAllGo, encBlocks, rawOf]
  | cons b bs ih =>
    intro f hok hf
    obtain ⟨g, rfl⟩ : ∃ g, f = g + 1 := ⟨f - 1, by simp at hf; omega⟩
    obtain ⟨hm, _, hl⟩ := hok b (List.mem_cons_self ..)
    have hr := ih g (fun x hx => hok x (List.mem_cons_of_mem _ hx)) (by simp at hf; omega)
    rw [encBlocks_cons]
    unfold metaReadAllGo
    simp only [encBlock_ne_nil, if_false, decBlock_encBlock hc b hm hl, hr]
    simp [rawOf]

theorem encBlocks_length_ge (bs : List Block) : bs.length ≤ (encBlocks bs).length := by
  induction bs with
  | nil => simp [encBlocks]
  | cons b bs ih => rw [encBlocks_cons]; simp [encBlock, le_length]; omega

theorem run_blocksOk (cmp : Codec) (chunks : List Bytes) :
    BlocksOk cmp (run cmp chunks).out ∧ rawOf (run cmp chunks).out = chunks.flatten := by
  obtain ⟨full, last, h1, _, h3, _, h5, h6, h7⟩ := run_shape cmp chunks
  rw [h1]
  refine ⟨?_, h7⟩
  intro b hb
  refine ⟨h6 b hb, ?_⟩
  rcases List.mem_append.mp hb with h | h
  · have := h3 b h; rw [this]; decide
  · have := h5 b h; omega

/-- **Metadata stream round trip**: for every codec pair meeting the contract and every sequence of appends, reading
the blocks the writer produced front to back yields exactly the bytes appended -/
theorem metaReadAll_run {cmp : Codec} {unc : Unc} (hc : CodecOk cmp unc) (chunks : List Bytes) :
    metaReadAll unc (encBlocks (run cmp chunks).out) = .ok chunks.flatten := by
  obtain ⟨hok, hraw⟩ := run_blocksOk cmp chunks
  unfold metaReadAll
  rw [metaReadAllGo_spec hc _ _ hok (by have := encBlocks_length_ge (run cmp chunks).out; omega), hraw]

/-! ### seeking to a reference -/

theorem metaReadGo_spec {cmp : Codec} {unc : Unc} (hc : CodecOk cmp unc) : ∀ (f : Nat) (avail : Bytes) (bs : List Block) (n : Nat),
    BlocksOk cmp bs → n ≤ avail.length + (rawOf bs).length →
    (if avail = [] then 2 * n + 1 else 2 * n) ≤ f →
    metaReadGo unc f avail (encBlocks bs) n = .ok ((avail ++ rawOf bs).take n) := by
  intro f
  induction f with
  | zero =>
    intro avail bs n _ _ hf
    have : n = 0 := by split at hf <;> omega
    subst this
    simp [metaReadGo]
  | succ f ih =>
    intro avail bs n hok hn hf
    unfold metaReadGo
    by_cases hn0 : n = 0
    · simp [hn0]
    · simp only [hn0, if_false]
      by_cases ha : avail = []
      · subst ha
        simp only [if_true] at hf ⊢
        cases bs with
        | nil => simp [rawOf] at hn; omega
        | cons b bs =>
          obtain ⟨hm, h1, hl⟩ := hok b (List.mem_cons_self ..)
          rw [encBlocks_cons]
          simp only [encBlock_ne_nil, if_false, decBlock_encBlock hc b hm hl]
          have hne : b.raw ≠ [] := by intro h; rw [h] at h1; simp at h1
          simp only [hne, if_false]
          have := ih b.raw bs n (fun x hx => hok x (List.mem_cons_of_mem _ hx))
            (by simp only [rawOf, List.map_cons, List.flatten_cons, List.length_append, List.length_nil, Nat.zero_add] at hn ⊢; omega)
            (by simp only [hne, if_false]; omega)
          rw [this]
          simp [rawOf]
      · simp only [ha, if_false] at hf ⊢
        have hpos : 0 < avail.length := List.length_pos_iff.mpr ha
        have hrec := ih (avail.drop (min n avail.length)) bs (n - min n avail.length) hok
          (by simp only [List.length_drop]; omega)
          (by
            by_cases hd : avail.drop (min n avail.length) = []
            · simp only [hd, if_true]
              have : 1 ≤ min n avail.length := by omega
              omega
            · simp only [hd, if_false]; omega)
        rw [hrec]
        congr 1
        by_cases hle : n ≤ avail.length
        · have : min n avail.length = n := by omega
          rw [this]; simp [List.take_append_of_le_length hle]
        · have hm : min n avail.length = avail.length := by omega
          rw [hm]
          simp only [List.take_length, List.drop_length, List.nil_append]
          rw [List.take_append]
          simp [List.take_of_length_le (Nat.le_of_lt (Nat.lt_of_not_le hle))]

theorem encBlocks_drop_startOf : ∀ (bs : List Block) (k : Nat), k ≤ bs.length →
    (encBlocks bs).drop (startOf bs k) = encBlocks (bs.drop k) := by
  intro bs
  induction bs with
  | nil => intro k hk; simp at hk; subst hk; simp [startOf, encBlocks]
  | cons b bs ih =>
    intro k hk
    cases k with
    | zero => simp [startOf]
    | succ k =>
      simp only [startOf, List.take_succ_cons, List.map_cons, List.sum_cons, List.drop_succ_cons]
      rw [encBlocks_cons, ← encBlock_length, ← List.drop_drop, List.drop_left]
      exact ih k (by simp at hk; omega)

theorem startOf_lt (bs : List Block) (k : Nat) (hk : k < bs.length) : startOf bs k < (encBlocks bs).length := by
  have h := encBlocks_drop_startOf bs k (by omega)
  have hne : encBlocks (bs.drop k) ≠ [] := by
    obtain ⟨b, rest, hb⟩ : ∃ b rest, bs.drop k = b :: rest := by
      cases hd : bs.drop k with
      | nil => simp at hd; omega
      | cons b rest => exact ⟨b, rest, rfl⟩
    rw [hb, encBlocks_cons]; exact encBlock_ne_nil _ _
  by_cases hlt : startOf bs k < (encBlocks bs).length
  · exact hlt
  · rw [List.drop_eq_nil_of_le (by omega)] at h
    exact absurd h.symm hne

/-- all blocks of a stream but the last hold exactly 8 KiB -/
def FullButLast (bs : List Block) : Prop := ∀ i, i + 1 < bs.length → (bs.getD i ⟨false, [], []⟩).raw.length = metaBlockSize

theorem rawOf_take_full : ∀ (bs : List Block) (k : Nat), FullButLast bs → k < bs.length →
    (rawOf (bs.take k)).length = k * metaBlockSize := by
  intro bs
  induction bs with
  | nil => intro k _ hk; simp at hk
  | cons b bs ih =>
    intro k hf hk
    cases k with
    | zero => simp [rawOf]
    | succ k =>
      have hb := hf 0 (by simp at hk ⊢; omega)
      simp only [List.getD_cons_zero] at hb
      have hf' : FullButLast bs := by
        intro i hi
        have := hf (i + 1) (by simp; omega)
        simpa using this
      have := ih k hf' (by simp at hk; omega)
      simp only [rawOf, List.take_succ_cons, List.map_cons, List.flatten_cons, List.length_append] at this ⊢
      rw [hb, this]; simp only [metaBlockSize]; omega

theorem rawOf_split (bs : List Block) (k : Nat) : rawOf bs = rawOf (bs.take k) ++ rawOf (bs.drop k) := by
  simp only [rawOf, ← List.flatten_append, ← List.map_append, List.take_append_drop]

/-- **A reference reads back the bytes written at its position.**  `refOfPos blocks p` is what
`sqfs_meta_writer_get_position` reported when `p` bytes had been appended (`writer_position` below); seeking a reader
there and reading `n` bytes yields bytes `[p, p + n)` of the stream, across block boundaries. -/
theorem metaReadAt_refOfPos {cmp : Codec} {unc : Unc} (hc : CodecOk cmp unc) (bs : List Block) (hok : BlocksOk cmp bs)
    (hfull : FullButLast bs) (p n : Nat) (hp : p < (rawOf bs).length) (hn : p + n ≤ (rawOf bs).length) :
    metaReadAt unc (encBlocks bs) (refOfPos bs p).1 (refOfPos bs p).2 n = .ok (((rawOf bs).drop p).take n) := by
  have h8 : metaBlockSize = 8192 := rfl
  -- the block the position lies in
  have hk : p / metaBlockSize < bs.length := by
    apply Decidable.byContradiction
    intro hc'
    have hlen : (rawOf bs).length ≤ bs.length * metaBlockSize := by
      clear hp hn hfull hc'
      induction bs with
      | nil => simp [rawOf]
      | cons b bs ih =>
        have := ih (fun x hx => hok x (List.mem_cons_of_mem _ hx))
        have hb := (hok b (List.mem_cons_self ..)).2.2
        simp only [rawOf, List.map_cons, List.flatten_cons, List.length_append, List.length_cons] at this ⊢
        rw [Nat.add_mul]; omega
    have : bs.length * metaBlockSize ≤ p := by
      have := Nat.div_mul_le_self p metaBlockSize
      have h2 : bs.length ≤ p / metaBlockSize := by omega
      calc bs.length * metaBlockSize ≤ p / metaBlockSize * metaBlockSize := Nat.mul_le_mul_right _ h2
        _ ≤ p := this
    omega
  obtain ⟨b, rest, hdrop⟩ : ∃ b rest, bs.drop (p / metaBlockSize) = b :: rest := by
    cases hd : bs.drop (p / metaBlockSize) with
    | nil => simp at hd; omega
    | cons b rest => exact ⟨b, rest, rfl⟩
  have hb : b ∈ bs := by
    have : b ∈ bs.drop (p / metaBlockSize) := by rw [hdrop]; exact List.mem_cons_self ..
    exact List.mem_of_mem_drop this
  obtain ⟨hm, h1, hl⟩ := hok b hb
  have hrest : BlocksOk cmp rest := by
    intro x hx
    apply hok
    have : x ∈ bs.drop (p / metaBlockSize) := by rw [hdrop]; exact List.mem_cons_of_mem _ hx
    exact List.mem_of_mem_drop this
  have htake := rawOf_take_full bs (p / metaBlockSize) hfull hk
  have hsplit := rawOf_split bs (p / metaBlockSize)
  rw [hdrop] at hsplit
  have hraw : rawOf (b :: rest) = b.raw ++ rawOf rest := by simp [rawOf]
  rw [hraw] at hsplit
  have hpdecomp : p = p / metaBlockSize * metaBlockSize + p % metaBlockSize := by
    have := Nat.div_add_mod p metaBlockSize; rw [Nat.mul_comm] at this; omega
  -- length bookkeeping
  have hlen : (rawOf bs).length = p / metaBlockSize * metaBlockSize + (b.raw.length + (rawOf rest).length) := by
    rw [hsplit]; simp [htake]
  have hoff : p % metaBlockSize < b.raw.length := by
    apply Decidable.byContradiction
    intro hc'
    -- then b is not the last block, hence full: contradiction with p % 8192 < 8192
    have : rest = [] := by
      apply Decidable.byContradiction
      intro hne
      have hfullb := hfull (p / metaBlockSize) (by
        have : (bs.drop (p / metaBlockSize)).length = rest.length + 1 := by rw [hdrop]; rfl
        simp only [List.length_drop] at this
        have : 0 < rest.length := List.length_pos_iff.mpr hne
        omega)
      have hget : bs.getD (p / metaBlockSize) ⟨false, [], []⟩ = b := by
        have : bs[p / metaBlockSize]? = some b := by
          have := congrArg List.head? hdrop
          simpa [List.head?_drop] using this
        simp [List.getD_eq_getElem?_getD, this]
      rw [hget] at hfullb
      have := Nat.mod_lt p (show 0 < metaBlockSize by decide)
      omega
    subst this
    have hr0 : (rawOf ([] : List Block)).length = 0 := rfl
    rw [hr0] at hlen
    omega
  unfold metaReadAt refOfPos
  simp only
  have hstart := startOf_lt bs (p / metaBlockSize) hk
  have : ¬ (startOf bs (p / metaBlockSize) ≥ (encBlocks bs).length) := by omega
  simp only [this, if_false]
  rw [encBlocks_drop_startOf bs _ (by omega), hdrop, encBlocks_cons, decBlock_encBlock hc b hm hl]
  have : ¬ (p % metaBlockSize ≥ b.raw.length) := by omega
  simp only [this, if_false]
  have hne : b.raw.drop (p % metaBlockSize) ≠ [] := by
    intro h
    have := congrArg List.length h
    simp only [List.length_drop, List.length_nil] at this
    omega
  rw [metaReadGo_spec hc _ _ rest n hrest (by simp only [List.length_drop]; omega) (by simp only [hne, if_false]; omega)]
  congr 1
  -- (raw.drop p) = (b.raw.drop o) ++ rawOf rest
  have : (rawOf bs).drop p = b.raw.drop (p % metaBlockSize) ++ rawOf rest := by
    rw [hsplit]
    generalize rawOf (bs.take (p / metaBlockSize)) = T at htake
    have h1' : p = T.length + p % metaBlockSize := by rw [htake]; exact hpdecomp
    generalize p % metaBlockSize = o at h1' hoff
    rw [h1', ← List.drop_drop, List.drop_left, List.drop_append_of_le_length (by omega)]
  rw [this]

end Sqfs.Enc
