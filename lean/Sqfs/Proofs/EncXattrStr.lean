/-
C01 — the record side of the xattr writer on *strings*: interning, replace-by-key, and the invariant every reachable
writer state satisfies.
-/
import Sqfs.Spec.EncXattrSpec
import Sqfs.Proofs.EncXattr
import Sqfs.Proofs.EncXattrRec
namespace Sqfs.Enc
open Sqfs.Consts

/-- the strings behind an index pair -/
def strPair (w : XWriter) (p : Nat × Nat) : Bytes × Bytes := (keyOf w p.1, valOf w p.2)

/-- the index pair of a string pair -/
def idxPair (w : XWriter) (kv : Bytes × Bytes) : Nat × Nat := (w.keys.idxOf kv.1, (w.values.map (·.1)).idxOf kv.2)

/-! ### `replacePair` on a set with distinct keys -/

theorem map_replace_id (kp : Nat × Nat) : ∀ (r : List (Nat × Nat)), kp.1 ∉ r.map (·.1) →
    r.map (fun e => if e.1 = kp.1 then kp else e) = r := by
  intro r h
  induction r with
  | nil => rfl
  | cons e r ih =>
    simp only [List.map_cons, List.mem_cons, not_or] at h
    simp only [List.map_cons]
    rw [if_neg (fun he => h.1 he.symm), ih h.2]

theorem replacePair_none (kp : Nat × Nat) : ∀ (cur : List (Nat × Nat)), kp.1 ∉ cur.map (·.1) → replacePair kp cur = none := by
  intro cur h
  induction cur with
  | nil => rfl
  | cons e r ih =>
    simp only [List.map_cons, List.mem_cons, not_or] at h
    simp only [replacePair]
    have h1 : ¬ e = kp := fun he => h.1 (by rw [he])
    have h2 : ¬ e.1 = kp.1 := fun he => h.1 he.symm
    rw [if_neg h1, if_neg h2, ih h.2]; rfl

theorem replacePair_some (kp : Nat × Nat) : ∀ (cur : List (Nat × Nat)), (cur.map (·.1)).Nodup → kp.1 ∈ cur.map (·.1) →
    ∃ old, replacePair kp cur = some (cur.map (fun e => if e.1 = kp.1 then kp else e), old) := by
  intro cur hn hm
  induction cur with
  | nil => simp at hm
  | cons e r ih =>
    simp only [List.map_cons, List.nodup_cons] at hn
    simp only [replacePair, List.map_cons]
    by_cases h1 : e = kp
    · rw [if_pos h1]
      subst h1
      exact ⟨none, by rw [if_pos rfl, map_replace_id _ r hn.1]⟩
    · rw [if_neg h1]
      by_cases h2 : e.1 = kp.1
      · rw [if_pos h2, if_pos h2]
        exact ⟨some e.2, by rw [map_replace_id kp r (by rw [← h2]; exact hn.1)]⟩
      · rw [if_neg h2, if_neg h2]
        simp only [List.map_cons, List.mem_cons] at hm
        have hm' : kp.1 ∈ r.map (·.1) := by
          rcases hm with h | h
          · exact absurd h.symm h2
          · exact h
        obtain ⟨old, ho⟩ := ih hn.2 hm'
        exact ⟨old, by rw [ho]; rfl⟩

theorem map_replace_keys (kp : Nat × Nat) (cur : List (Nat × Nat)) :
    (cur.map (fun e => if e.1 = kp.1 then kp else e)).map (·.1) = cur.map (·.1) := by
  induction cur with
  | nil => rfl
  | cons e r ih =>
    simp only [List.map_cons, ih]
    congr 1
    split
    · rename_i h; exact h.symm
    · rfl

/-! ### string tables -/

theorem getD_append_left {α : Type} (l x : List α) (i : Nat) (d : α) (h : i < l.length) : (l ++ x).getD i d = l.getD i d := by
  simp [List.getD_eq_getElem?_getD, List.getElem?_append_left h]

theorem nodup_getD_inj {α : Type} (l : List α) (hn : l.Nodup) (i j : Nat) (d : α) (hi : i < l.length) (hj : j < l.length)
    (h : l.getD i d = l.getD j d) : i = j := by
  simp only [List.getD_eq_getElem?_getD, List.getElem?_eq_getElem hi, List.getElem?_eq_getElem hj, Option.getD_some] at h
  exact (List.getElem_inj hn).mp h

theorem getD_idxOf {α : Type} [BEq α] [LawfulBEq α] (l : List α) (a d : α) (h : a ∈ l) : l.getD (l.idxOf a) d = a := by
  have hlt := List.idxOf_lt_length_iff.mpr h
  simp [List.getD_eq_getElem?_getD, List.getElem?_eq_getElem hlt]

/-- `str_table_get_index` on the key table -/
theorem internKey_spec (keys : List Bytes) (k : Bytes) (hn : keys.Nodup) :
    let r := internKey keys k
    r.2.Nodup ∧ r.1 < r.2.length ∧ r.2.getD r.1 [] = k ∧ (∃ ek, r.2 = keys ++ ek) ∧ (∀ x ∈ r.2, x ∈ keys ∨ x = k)
      ∧ r.1 = r.2.idxOf k := by
  unfold internKey
  simp only
  by_cases h : keys.idxOf k < keys.length
  · rw [if_pos h]
    have hm := List.idxOf_lt_length_iff.mp h
    exact ⟨hn, h, by simpa using getD_idxOf keys k [] hm, ⟨[], by simp⟩, fun x hx => Or.inl hx, rfl⟩
  · rw [if_neg h]
    have hm : k ∉ keys := fun hm => h (List.idxOf_lt_length_iff.mpr hm)
    refine ⟨?_, by simp, ?_, ⟨[k], rfl⟩, ?_, ?_⟩
    · rw [List.nodup_append]
      exact ⟨hn, by simp, by intro a ha b hb; simp only [List.mem_singleton] at hb; subst hb; intro e; subst e; exact hm ha⟩
    · simp [List.getD_eq_getElem?_getD]
    · intro x hx; rcases List.mem_append.mp hx with h | h
      · exact Or.inl h
      · simp only [List.mem_singleton] at h; exact Or.inr h
    · simp only
      rw [List.idxOf_append, if_neg hm]; simp

theorem modify_map_fst (l : List (Bytes × Nat)) (i : Nat) (f : Bytes × Nat → Bytes × Nat) (hf : ∀ e, (f e).1 = e.1) :
    (l.modify i f).map (·.1) = l.map (·.1) := by
  induction l generalizing i with
  | nil => simp
  | cons e r ih =>
    cases i with
    | zero => simp [List.modify, hf]
    | succ i => simp only [List.modify_succ_cons, List.map_cons, ih]

/-- `str_table_get_index` + `add_ref` on the value table (reference counts aside) -/
theorem internValue_spec (values : List (Bytes × Nat)) (v : Bytes) (hn : (values.map (·.1)).Nodup) :
    let r := internValue values v
    (r.2.map (·.1)).Nodup ∧ r.1 < r.2.length ∧ (r.2.getD r.1 ([], 0)).1 = v ∧ (∃ ev, r.2.map (·.1) = values.map (·.1) ++ ev)
      ∧ (∀ x ∈ r.2, x.1 ∈ values.map (·.1) ∨ x.1 = v) ∧ r.1 = (r.2.map (·.1)).idxOf v := by
  unfold internValue
  simp only
  by_cases h : (values.map (·.1)).idxOf v < values.length
  · rw [if_pos h]
    simp only
    have hfst := modify_map_fst values ((values.map (·.1)).idxOf v) (fun e => (e.1, e.2 + 1)) (fun _ => rfl)
    have hm : v ∈ values.map (·.1) := List.idxOf_lt_length_iff.mp (by simpa using h)
    refine ⟨by rw [hfst]; exact hn, by simpa using h, ?_, ⟨[], by rw [hfst]; simp⟩, ?_, by rw [hfst]⟩
    · have : ((values.modify ((values.map (·.1)).idxOf v) (fun e => (e.1, e.2 + 1))).map (·.1)).getD ((values.map (·.1)).idxOf v) [] = v := by
        rw [hfst]; exact getD_idxOf _ v [] hm
      rw [List.getD_eq_getElem?_getD, List.getElem?_map] at this
      rw [List.getD_eq_getElem?_getD]
      cases hg : (values.modify ((values.map (·.1)).idxOf v) (fun e => (e.1, e.2 + 1)))[(values.map (·.1)).idxOf v]? with
      | none => rw [hg] at this; simp at this; simp [← this]
      | some x => rw [hg] at this; simpa using this
    · intro x hx
      left
      have : x.1 ∈ (values.modify ((values.map (·.1)).idxOf v) (fun e => (e.1, e.2 + 1))).map (·.1) := List.mem_map_of_mem hx
      rwa [hfst] at this
  · rw [if_neg h]
    simp only
    have hm : v ∉ values.map (·.1) := fun hm => h (by simpa using List.idxOf_lt_length_iff.mpr hm)
    refine ⟨?_, by simp, by simp [List.getD_eq_getElem?_getD], ⟨[v], by simp⟩, ?_, ?_⟩
    · rw [List.map_append, List.nodup_append]
      exact ⟨hn, by simp, by intro a ha b hb; simp at hb; subst hb; intro e; subst e; exact hm ha⟩
    · intro x hx; rcases List.mem_append.mp hx with h | h
      · exact Or.inl (List.mem_map_of_mem h)
      · simp only [List.mem_singleton] at h; exact Or.inr (by rw [h])
    · rw [List.map_append, List.idxOf_append, if_neg hm]; simp

theorem delRef_map_fst (values : List (Bytes × Nat)) (i : Nat) : (delRef values i).map (·.1) = values.map (·.1) :=
  modify_map_fst values i _ (fun _ => rfl)

theorem getD_fst (l : List (Bytes × Nat)) (i : Nat) : (l.getD i ([], 0)).1 = (l.map (·.1)).getD i [] := by
  simp only [List.getD_eq_getElem?_getD, List.getElem?_map]
  cases l[i]? <;> rfl

/-! ### the invariant inside a set -/

/-- what holds of the writer between `begin` and `end` (and, with `kvStart = pairs.length`, between sets) -/
structure XCur (w : XWriter) : Prop where
  kN : w.keys.Nodup
  vN : (w.values.map (·.1)).Nodup
  rng : ∀ p ∈ w.pairs, p.1 < w.keys.length ∧ p.2 < w.values.length
  ks : w.kvStart ≤ w.pairs.length
  bl : ∀ b ∈ w.blocks, b.1 + b.2 ≤ w.kvStart
  cur : ((w.pairs.drop w.kvStart).map (·.1)).Nodup
  keyOk : ∀ k ∈ w.keys, (∃ t, prefixId k = some t) ∧ (afterDot k).length < 65536
  valOk : ∀ v ∈ w.values, v.1.length < 2 ^ 32

/-- the set collected so far, as strings -/
def curSet (w : XWriter) : List (Bytes × Bytes) := (w.pairs.drop w.kvStart).map (strPair w)

theorem xcur_empty : XCur {} := ⟨by simp, by simp, by simp, by simp, by simp, by simp, by simp, by simp⟩

/-- **`sqfs_xattr_writer_add_kv` on strings**: a representable key/value is accepted, the invariant survives, nothing
recorded earlier moves, the string tables only grow, and the set collected so far changes by `canonStep`. -/
theorem addKv_spec (w : XWriter) (hc : XCur w) (key value : Bytes) (t : Nat) (hk : prefixId key = some t)
    (hkl : (afterDot key).length < 65536) (hvl : value.length < 2 ^ 32) :
    ∃ w', addKv w key value = .ok w' ∧ XCur w' ∧ w'.kvStart = w.kvStart ∧ w'.blocks = w.blocks
      ∧ w'.pairs.take w.kvStart = w.pairs.take w.kvStart
      ∧ (∃ ek, w'.keys = w.keys ++ ek) ∧ (∃ ev, w'.values.map (·.1) = w.values.map (·.1) ++ ev)
      ∧ curSet w' = canonStep (curSet w) (key, value) := by
  obtain ⟨n1, l1, g1, ⟨ek, e1⟩, m1, _⟩ := internKey_spec w.keys key hc.kN
  obtain ⟨n2, l2, g2, ⟨ev, e2⟩, m2, _⟩ := internValue_spec w.values value hc.vN
  generalize hr1 : internKey w.keys key = r1 at n1 l1 g1 e1 m1
  generalize hr2 : internValue w.values value = r2 at n2 l2 g2 e2 m2
  obtain ⟨ki, keys'⟩ := r1
  obtain ⟨vi, vals'⟩ := r2
  simp only at n1 l1 g1 e1 m1 n2 l2 g2 e2 m2
  -- the pairs of the current set, and what they become
  obtain ⟨cur, hcur⟩ : ∃ cur, cur = w.pairs.drop w.kvStart := ⟨_, rfl⟩
  have hcurN : (cur.map (·.1)).Nodup := by rw [hcur]; exact hc.cur
  have hcurV : ∀ e ∈ cur, e.1 < w.keys.length ∧ e.2 < w.values.length := by
    intro e he; rw [hcur] at he; exact hc.rng e (List.mem_of_mem_drop he)
  have hklen : w.keys.length ≤ keys'.length := by rw [e1]; simp
  have hvlen : w.values.length ≤ vals'.length := by
    have := congrArg List.length e2; simp only [List.length_map, List.length_append] at this; omega
  -- an index names the key exactly when its string is the key
  have keyEquiv : ∀ e ∈ cur, (keyOf w e.1 = key ↔ e.1 = ki) := by
    intro e he
    have hv := (hcurV e he).1
    have hsame : keys'.getD e.1 [] = keyOf w e.1 := by rw [e1]; exact getD_append_left _ _ _ _ hv
    constructor
    · intro h
      exact nodup_getD_inj keys' n1 e.1 ki [] (by omega) l1 (by rw [hsame, h, g1])
    · intro h
      rw [← hsame, h, g1]
  -- strings of valid pairs do not change
  have strSame : ∀ (V : List (Bytes × Nat)), V.map (·.1) = vals'.map (·.1) → ∀ p, p.1 < w.keys.length → p.2 < w.values.length →
      strPair { w with keys := keys', values := V } p = strPair w p := by
    intro V hV p h1 h2
    simp only [strPair, keyOf, valOf]
    rw [e1, getD_append_left _ _ _ _ h1, getD_fst, hV, e2, getD_append_left _ _ _ _ (by simpa using h2), ← getD_fst]
  have strNew : ∀ (V : List (Bytes × Nat)), V.map (·.1) = vals'.map (·.1) →
      strPair { w with keys := keys', values := V } (ki, vi) = (key, value) := by
    intro V hV
    simp only [strPair, keyOf, valOf]
    rw [g1, getD_fst, hV, ← getD_fst, g2]
  -- the common shape of both branches
  have main : ∀ (V : List (Bytes × Nat)) (cur' : List (Nat × Nat)), V.map (·.1) = vals'.map (·.1) →
      cur' = (if ki ∈ cur.map (·.1) then cur.map (fun e => if e.1 = ki then (ki, vi) else e) else cur ++ [(ki, vi)]) →
      let w' : XWriter := { w with keys := keys', values := V, pairs := w.pairs.take w.kvStart ++ cur' }
      XCur w' ∧ w'.kvStart = w.kvStart ∧ w'.blocks = w.blocks ∧ w'.pairs.take w.kvStart = w.pairs.take w.kvStart
        ∧ (∃ ek, w'.keys = w.keys ++ ek) ∧ (∃ ev, w'.values.map (·.1) = w.values.map (·.1) ++ ev)
        ∧ curSet w' = canonStep (curSet w) (key, value) := by
    intro V cur' hV hcur'
    have hVlen : V.length = vals'.length := by have := congrArg List.length hV; simpa using this
    have htl : (w.pairs.take w.kvStart).length = w.kvStart := by simp [hc.ks]
    have hdrop : (w.pairs.take w.kvStart ++ cur').drop w.kvStart = cur' := by
      conv => lhs; arg 1; rw [← htl]
      rw [List.drop_left]
    have hcur'V : ∀ e ∈ cur', e.1 < keys'.length ∧ e.2 < V.length := by
      intro e he
      rw [hcur'] at he
      split at he
      · simp only [List.mem_map] at he
        obtain ⟨x, hx, rfl⟩ := he
        split
        · exact ⟨l1, by omega⟩
        · have := hcurV x hx; omega
      · rcases List.mem_append.mp he with h | h
        · have := hcurV e h; omega
        · simp only [List.mem_singleton] at h; subst h; exact ⟨l1, by omega⟩
    have hkeys' : (cur'.map (·.1)).Nodup := by
      rw [hcur']
      split
      · rw [map_replace_keys (ki, vi) cur]; exact hcurN
      · rename_i hnot
        rw [List.map_append, List.nodup_append]
        exact ⟨hcurN, by simp, by intro a ha b hb; simp at hb; subst hb; intro e; subst e; exact hnot ha⟩
    refine ⟨⟨n1, by rw [hV]; exact n2, ?_, by simp [htl], hc.bl, by simp only; rw [hdrop]; exact hkeys', ?_, ?_⟩, rfl, rfl, ?_,
      ⟨ek, e1⟩, ⟨ev, by simp only; rw [hV, e2]⟩, ?_⟩
    · intro p hp
      simp only at hp ⊢
      rcases List.mem_append.mp hp with h | h
      · have := hc.rng p (List.mem_of_mem_take h); omega
      · exact hcur'V p h
    · intro k hkm
      rcases m1 k hkm with h | h
      · exact hc.keyOk k h
      · subst h; exact ⟨⟨t, hk⟩, hkl⟩
    · intro v hvm
      have : v.1 ∈ vals'.map (·.1) := by rw [← hV]; exact List.mem_map_of_mem hvm
      obtain ⟨y, hy, hy1⟩ := List.mem_map.mp this
      rcases m2 y hy with h | h
      · obtain ⟨z, hz, hz1⟩ := List.mem_map.mp h
        rw [← hy1, ← hz1]; exact hc.valOk z hz
      · rw [← hy1, h]; exact hvl
    · simp only
      rw [List.take_append_of_le_length (by omega), List.take_take, Nat.min_self]
    · -- the strings
      simp only [curSet]
      rw [hdrop, ← hcur]
      have hmemEq : (key ∈ (cur.map (strPair w)).map (·.1)) ↔ (ki ∈ cur.map (·.1)) := by
        simp only [List.map_map, List.mem_map, Function.comp]
        constructor
        · rintro ⟨e, he, h⟩; exact ⟨e, he, (keyEquiv e he).mp h⟩
        · rintro ⟨e, he, h⟩; exact ⟨e, he, (keyEquiv e he).mpr h⟩
      unfold canonStep
      simp only
      rw [hcur']
      by_cases hin : ki ∈ cur.map (·.1)
      · rw [if_pos hin, if_pos (hmemEq.mpr hin), List.map_map, List.map_map]
        apply List.map_congr_left
        intro e he
        simp only [Function.comp]
        have hv := hcurV e he
        by_cases hek : e.1 = ki
        · rw [if_pos hek, if_pos (by simpa [strPair] using (keyEquiv e he).mpr hek)]
          exact strNew V hV
        · rw [if_neg hek, if_neg (by intro h; exact hek ((keyEquiv e he).mp (by simpa [strPair] using h)))]
          exact strSame V hV e hv.1 hv.2
      · rw [if_neg hin, if_neg (fun h => hin (hmemEq.mp h)), List.map_append]
        congr 1
        · apply List.map_congr_left
          intro e he
          have hv := hcurV e he
          exact strSame V hV e hv.1 hv.2
        · simp only [List.map_cons, List.map_nil]; exact congrArg (fun x => [x]) (strNew V hV)
  -- now the two branches of `addKv`
  unfold addKv
  simp only [hk, hr1, hr2]
  rw [← hcur]
  by_cases hin : ki ∈ cur.map (·.1)
  · obtain ⟨old, ho⟩ := replacePair_some (ki, vi) cur hcurN hin
    rw [ho]
    simp only
    refine ⟨_, rfl, ?_⟩
    apply main
    · cases old with
      | none => rfl
      | some o => exact delRef_map_fst vals' o
    · rw [if_pos hin]
  · rw [replacePair_none (ki, vi) cur hin]
    simp only
    refine ⟨_, rfl, ?_⟩
    have hp : w.pairs ++ [(ki, vi)] = w.pairs.take w.kvStart ++ (cur ++ [(ki, vi)]) := by
      rw [hcur, ← List.append_assoc, List.take_append_drop]
    rw [hp]
    apply main vals' _ rfl
    rw [if_neg hin]

end Sqfs.Enc
