/-
C15 — the wrappers over wrapped streams that can fail (`flushBodyE` … `oRunE`, `precacheBodyE` … `iReadE` of
`Sqfs/Model/Xfrm.lean`, the functions the correspondence check runs):

* without a failure they are the functions the transparency theorems are about (`oRunE_good`, `iReadE_good`);
* a run that comes back without an error has not executed the failing call of the wrapped stream, i.e. a failing
  `wrapped->append` / `wrapped->flush` / `wrapped->get_buffered_data` is never swallowed (`oRunE_ok_no_append_failure`,
  `oRunE_ok_no_flush_failure`, `iReadE_ok_no_failure`).
-/
import Sqfs.Proofs.XfrmWrapErr
namespace Sqfs.Xfrm

/-- two loops that go round in step -/
theorem iter_sim {α α' β β' : Type} (bodyE : α → LoopStep α β) (body : α' → LoopStep α' β') (π : α → α') (ρ : β → β')
    (h : ∀ a, body (π a) = match bodyE a with
      | LoopStep.done r => LoopStep.done (ρ r)
      | LoopStep.next a' => LoopStep.next (π a')) :
    ∀ fuel a, iter body fuel (π a) = (iter bodyE fuel a).map ρ := by
  intro fuel
  induction fuel with
  | zero => intro a; rfl
  | succ n ih =>
    intro a
    simp only [iter, h a]
    cases bodyE a with
    | done r => rfl
    | next a' => exact ih a'

/-- a loop invariant carries over to the result -/
theorem iter_inv {α β : Type} (body : α → LoopStep α β) (I : α → Prop) (Q : β → Prop)
    (h : ∀ a, I a → (∀ r, body a = LoopStep.done r → Q r) ∧ (∀ a', body a = LoopStep.next a' → I a')) :
    ∀ fuel a r, I a → iter body fuel a = some r → Q r := by
  intro fuel
  induction fuel with
  | zero => intro a r _ hr; simp [iter] at hr
  | succ n ih =>
    intro a r hI hr
    simp only [iter] at hr
    cases hb : body a with
    | done r' =>
      rw [hb] at hr
      cases hr
      exact (h a hI).1 _ hb
    | next a' =>
      rw [hb] at hr
      exact ih a' r ((h a hI).2 _ hb) hr

section Out
variable {σ : Type} {C : Codec σ}

/-- forget the bookkeeping of the wrapped stream -/
def projFlush : Except (Int × Bytes) (FlushStE σ) → Except Int (σ × Bytes × Bytes)
  | .error e => .error e.1
  | .ok a => .ok (a.1, a.2.1, a.2.2.1)

def projO : Except (Int × Bytes) (OStateE σ) → Except Int (OState σ)
  | .error e => .error e.1
  | .ok s => .ok s.st

theorem failCode_none (k : Nat) : failCode none k = none := rfl

theorem flushLoopE_good (bufsz : Nat) (finish : Bool) (fuel : Nat) (a : FlushStE σ) :
    flushLoop C bufsz finish fuel a.1 a.2.1 a.2.2.1 = (iter (flushBodyE C bufsz OEnv.good finish) fuel a).map projFlush := by
  have := iter_sim (flushBodyE C bufsz OEnv.good finish) (flushBody C bufsz finish)
    (fun a : FlushStE σ => (a.1, a.2.1, a.2.2.1)) projFlush ?_ fuel a
  · simpa [flushLoop] using this
  · rintro ⟨cs, rest, sink, k⟩
    simp only [flushBody, flushBodyE, OEnv.good, failCode_none]
    by_cases hc : (finish || decide (0 < rest.length)) = true
    · simp only [hc, if_true]
      by_cases he : (C.step cs rest bufsz (if finish = true then Flush.full else Flush.none)).res = Res.error
      · simp only [he, if_true]; rfl
      · simp only [he, if_false]
        by_cases hs : (C.step cs rest bufsz (if finish = true then Flush.full else Flush.none)).res = Res.streamEnd
        · simp only [hs, if_true]; rfl
        · simp only [hs, if_false]
    · simp only [hc, Bool.false_eq_true, if_false]; rfl

theorem flushInbufE_good (bufsz fuel : Nat) (s : OStateE σ) (finish : Bool) :
    (flushInbufE C bufsz fuel OEnv.good s finish).map projO = flushInbuf C bufsz fuel s.st finish := by
  have h := flushLoopE_good (C := C) bufsz finish fuel (s.st.cs, s.st.inbuf, s.st.sink, s.appends)
  simp only [flushInbuf, flushInbufE]
  simp only at h
  rw [h]
  cases iter (flushBodyE C bufsz OEnv.good finish) fuel (s.st.cs, s.st.inbuf, s.st.sink, s.appends) with
  | none => rfl
  | some r =>
    cases r with
    | error e => rfl
    | ok a => obtain ⟨cs, rest, sink, k⟩ := a; rfl

theorem oAppendE_good (bufsz fuel : Nat) (s : OStateE σ) (data : Bytes) :
    (oAppendE C bufsz fuel OEnv.good s data).map projO = oAppend C bufsz fuel s.st data := by
  have hsim := iter_sim (appendBodyE C bufsz fuel OEnv.good) (appendBody C bufsz fuel)
    (fun a : OStateE σ × Bytes => (a.1.st, a.2)) (fun r : OutcomeE (OStateE σ) => r.map projO) ?_ (data.length + 1) (s, data)
  · simp only [oAppend, appendLoop, oAppendE]
    simp only at hsim
    rw [hsim]
    cases iter (appendBodyE C bufsz fuel OEnv.good) (data.length + 1) (s, data) with
    | none => rfl
    | some r => rfl
  · rintro ⟨s1, d⟩
    simp only [appendBody, appendBodyE]
    by_cases hd : d.length = 0
    · simp only [hd, if_true]; rfl
    · simp only [hd, if_false]
      by_cases hf : bufsz ≤ s1.st.inbuf.length
      · simp only [hf, if_true]
        rw [← flushInbufE_good (C := C) bufsz fuel s1 false]
        cases flushInbufE C bufsz fuel OEnv.good s1 false with
        | none => rfl
        | some r =>
          cases r with
          | error e => rfl
          | ok s2 => rfl
      · simp only [hf, if_false]

theorem oFlushE_good (bufsz fuel : Nat) (s : OStateE σ) :
    (oFlushE C bufsz fuel OEnv.good s).map projO = oFlush C bufsz fuel s.st := by
  have hfc : ∀ k, failCode (OEnv.good).flushFail k = none := fun _ => rfl
  simp only [oFlush, oFlushE, hfc]
  by_cases hp : 0 < s.st.inbuf.length
  · simp only [hp, if_true]
    rw [← flushInbufE_good (C := C) bufsz fuel s true]
    cases flushInbufE C bufsz fuel OEnv.good s true with
    | none => rfl
    | some r =>
      cases r with
      | error e => rfl
      | ok s2 => rfl
  · simp only [hp, if_false]; rfl

/-- **without a failure of the wrapped stream, the run is the one the transparency theorems speak about** -/
theorem oRunE_good (bufsz fuel : Nat) : ∀ (ops : List OOp) (s : OStateE σ),
    (oRunE C bufsz fuel OEnv.good s ops).map projO = oRun C bufsz fuel s.st ops := by
  intro ops
  induction ops with
  | nil => intro s; rfl
  | cons op ops ih =>
    intro s
    cases op with
    | append d =>
      simp only [oRun, oRunE]
      rw [← oAppendE_good (C := C) bufsz fuel s d]
      cases oAppendE C bufsz fuel OEnv.good s d with
      | none => rfl
      | some r =>
        cases r with
        | error e => rfl
        | ok s2 => exact ih s2
    | flush =>
      simp only [oRun, oRunE]
      rw [← oFlushE_good (C := C) bufsz fuel s]
      cases oFlushE C bufsz fuel OEnv.good s with
      | none => rfl
      | some r =>
        cases r with
        | error e => rfl
        | ok s2 => exact ih s2

/-! ### a failing call of the wrapped output stream is never swallowed -/

theorem failCode_hit {k : Nat} {e : Int} (he : e ≠ 0) : failCode (some (k, e)) k = some e := by
  simp [failCode, he]

/-- `flush_inbuf`: coming back with 0 means that the failing `append` call has not been made -/
theorem flushInbufE_ok_appends (bufsz fuel : Nat) (E : OEnv) {k : Nat} {e : Int} (hE : E.appendFail = some (k, e)) (he : e ≠ 0)
    (s s' : OStateE σ) (finish : Bool) (h : flushInbufE C bufsz fuel E s finish = some (.ok s')) (hk : s.appends ≤ k) :
    s'.appends ≤ k ∧ s'.st.flushed = s.st.flushed := by
  simp only [flushInbufE] at h
  cases hi : iter (flushBodyE C bufsz E finish) fuel (s.st.cs, s.st.inbuf, s.st.sink, s.appends) with
  | none => rw [hi] at h; cases h
  | some r =>
    rw [hi] at h
    cases r with
    | error e' => cases h
    | ok a =>
      obtain ⟨cs, rest, sink, k'⟩ := a
      simp only [Option.some.injEq, Except.ok.injEq] at h
      subst h
      refine ⟨?_, rfl⟩
      have := iter_inv (flushBodyE C bufsz E finish) (fun a => a.2.2.2 ≤ k)
        (fun r => ∀ a, r = .ok a → a.2.2.2 ≤ k) ?_ fuel _ _ hk hi (cs, rest, sink, k') rfl
      · exact this
      · rintro ⟨cs1, rest1, sink1, k1⟩ hI
        simp only at hI
        simp only [flushBodyE, hE]
        by_cases hc : (finish || decide (0 < rest1.length)) = true
        · simp only [hc, if_true]
          by_cases herr : (C.step cs1 rest1 bufsz (if finish = true then Flush.full else Flush.none)).res = Res.error
          · simp only [herr, if_true]
            exact ⟨(fun r hr a ha => by rw [ha] at hr; cases hr), (fun a' ha' => by cases ha')⟩
          · simp only [herr, if_false]
            by_cases hkk : k = k1
            · subst hkk
              rw [failCode_hit he]
              exact ⟨(fun r hr a ha => by rw [ha] at hr; cases hr), (fun a' ha' => by cases ha')⟩
            · have hnone : failCode (some (k, e)) k1 = none := by simp [failCode, hkk]
              rw [hnone]
              simp only
              have hlt : k1 + 1 ≤ k := by omega
              by_cases hs : (C.step cs1 rest1 bufsz (if finish = true then Flush.full else Flush.none)).res = Res.streamEnd
              · simp only [hs, if_true]
                refine ⟨fun r hr a ha => ?_, (fun a' ha' => by cases ha')⟩
                rw [ha] at hr
                simp only [LoopStep.done.injEq, Except.ok.injEq] at hr
                rw [← hr]; exact hlt
              · simp only [hs, if_false]
                refine ⟨(fun r hr => by cases hr), fun a' ha' => ?_⟩
                simp only [LoopStep.next.injEq] at ha'
                rw [← ha']; exact hlt
        · simp only [hc, Bool.false_eq_true, if_false]
          refine ⟨fun r hr a ha => ?_, (fun a' ha' => by cases ha')⟩
          rw [ha] at hr
          simp only [LoopStep.done.injEq, Except.ok.injEq] at hr
          rw [← hr]; exact hI

theorem oAppendE_ok_appends (bufsz fuel : Nat) (E : OEnv) {k : Nat} {e : Int} (hE : E.appendFail = some (k, e)) (he : e ≠ 0)
    (s s' : OStateE σ) (data : Bytes) (h : oAppendE C bufsz fuel E s data = some (.ok s')) (hk : s.appends ≤ k) :
    s'.appends ≤ k ∧ s'.st.flushed = s.st.flushed := by
  simp only [oAppendE] at h
  cases hi : iter (appendBodyE C bufsz fuel E) (data.length + 1) (s, data) with
  | none => rw [hi] at h; cases h
  | some r =>
    rw [hi] at h
    simp only at h
    subst h
    have := iter_inv (appendBodyE C bufsz fuel E) (fun a => a.1.appends ≤ k ∧ a.1.st.flushed = s.st.flushed)
      (fun r => ∀ s2, r = some (.ok s2) → s2.appends ≤ k ∧ s2.st.flushed = s.st.flushed) ?_ _ _ _ ⟨hk, rfl⟩ hi s' rfl
    · exact this
    · rintro ⟨s1, d⟩ ⟨hI1, hI2⟩
      simp only at hI1 hI2
      simp only [appendBodyE]
      by_cases hd : d.length = 0
      · simp only [hd, if_true]
        refine ⟨fun r hr s2 hs2 => ?_, (fun a' ha' => by cases ha')⟩
        rw [hs2] at hr
        simp only [LoopStep.done.injEq, Option.some.injEq, Except.ok.injEq] at hr
        rw [← hr]; exact ⟨hI1, hI2⟩
      · simp only [hd, if_false]
        by_cases hf : bufsz ≤ s1.st.inbuf.length
        · simp only [hf, if_true]
          cases hfi : flushInbufE C bufsz fuel E s1 false with
          | none => exact ⟨(fun r hr s2 hs2 => by rw [hs2] at hr; cases hr), (fun a' ha' => by cases ha')⟩
          | some r1 =>
            cases r1 with
            | error e' => exact ⟨(fun r hr s2 hs2 => by rw [hs2] at hr; cases hr), (fun a' ha' => by cases ha')⟩
            | ok s3 =>
              obtain ⟨h1, h2⟩ := flushInbufE_ok_appends bufsz fuel E hE he s1 s3 false hfi hI1
              refine ⟨(fun r hr => by cases hr), fun a' ha' => ?_⟩
              simp only [LoopStep.next.injEq] at ha'
              rw [← ha']
              exact ⟨h1, by simp only; rw [h2, hI2]⟩
        · simp only [hf, if_false]
          refine ⟨(fun r hr => by cases hr), fun a' ha' => ?_⟩
          simp only [LoopStep.next.injEq] at ha'
          rw [← ha']
          exact ⟨hI1, hI2⟩

/-- **a failing `wrapped->append` is reported**: a history of operations that comes back without an error has not made the
failing call (so: if the call is made, the operation making it returns an error) -/
theorem oRunE_ok_no_append_failure (bufsz fuel : Nat) (E : OEnv) {k : Nat} {e : Int} (hE : E.appendFail = some (k, e)) (he : e ≠ 0) :
    ∀ (ops : List OOp) (s s' : OStateE σ), oRunE C bufsz fuel E s ops = some (.ok s') → s.appends ≤ k → s'.appends ≤ k := by
  intro ops
  induction ops with
  | nil => intro s s' h hk; simp only [oRunE, Option.some.injEq, Except.ok.injEq] at h; rw [← h]; exact hk
  | cons op ops ih =>
    intro s s' h hk
    cases op with
    | append d =>
      simp only [oRunE] at h
      cases ha : oAppendE C bufsz fuel E s d with
      | none => rw [ha] at h; cases h
      | some r =>
        cases r with
        | error e' => rw [ha] at h; cases h
        | ok s2 =>
          rw [ha] at h
          exact ih s2 s' h (oAppendE_ok_appends bufsz fuel E hE he s s2 d ha hk).1
    | flush =>
      simp only [oRunE] at h
      cases ha : oFlushE C bufsz fuel E s with
      | none => rw [ha] at h; cases h
      | some r =>
        cases r with
        | error e' => rw [ha] at h; cases h
        | ok s2 =>
          rw [ha] at h
          refine ih s2 s' h ?_
          simp only [oFlushE] at ha
          by_cases hp : 0 < s.st.inbuf.length
          · simp only [hp, if_true] at ha
            cases hfi : flushInbufE C bufsz fuel E s true with
            | none => rw [hfi] at ha; cases ha
            | some r1 =>
              cases r1 with
              | error e' => rw [hfi] at ha; cases ha
              | ok s3 =>
                rw [hfi] at ha
                simp only at ha
                have h3 := (flushInbufE_ok_appends bufsz fuel E hE he s s3 true hfi hk).1
                cases hfc : failCode E.flushFail s3.st.flushed with
                | some e'' => rw [hfc] at ha; cases ha
                | none =>
                  rw [hfc] at ha
                  simp only [Option.some.injEq, Except.ok.injEq] at ha
                  rw [← ha]; exact h3
          · simp only [hp, if_false] at ha
            cases hfc : failCode E.flushFail s.st.flushed with
            | some e'' => rw [hfc] at ha; cases ha
            | none =>
              rw [hfc] at ha
              simp only [Option.some.injEq, Except.ok.injEq] at ha
              rw [← ha]; exact hk

theorem flushInbufE_ok_flushed (bufsz fuel : Nat) (E : OEnv) (s s' : OStateE σ) (finish : Bool)
    (h : flushInbufE C bufsz fuel E s finish = some (.ok s')) : s'.st.flushed = s.st.flushed := by
  simp only [flushInbufE] at h
  cases hi : iter (flushBodyE C bufsz E finish) fuel (s.st.cs, s.st.inbuf, s.st.sink, s.appends) with
  | none => rw [hi] at h; cases h
  | some r =>
    rw [hi] at h
    cases r with
    | error e' => cases h
    | ok a =>
      obtain ⟨cs, rest, sink, k'⟩ := a
      simp only [Option.some.injEq, Except.ok.injEq] at h
      rw [← h]

theorem oAppendE_ok_flushed (bufsz fuel : Nat) (E : OEnv) (s s' : OStateE σ) (data : Bytes)
    (h : oAppendE C bufsz fuel E s data = some (.ok s')) : s'.st.flushed = s.st.flushed := by
  simp only [oAppendE] at h
  cases hi : iter (appendBodyE C bufsz fuel E) (data.length + 1) (s, data) with
  | none => rw [hi] at h; cases h
  | some r =>
    rw [hi] at h
    simp only at h
    subst h
    have := iter_inv (appendBodyE C bufsz fuel E) (fun a => a.1.st.flushed = s.st.flushed)
      (fun r => ∀ s2, r = some (.ok s2) → s2.st.flushed = s.st.flushed) ?_ _ _ _ rfl hi s' rfl
    · exact this
    · rintro ⟨s1, d⟩ hI
      simp only at hI
      simp only [appendBodyE]
      by_cases hd : d.length = 0
      · simp only [hd, if_true]
        refine ⟨fun r hr s2 hs2 => ?_, (fun a' ha' => by cases ha')⟩
        rw [hs2] at hr
        simp only [LoopStep.done.injEq, Option.some.injEq, Except.ok.injEq] at hr
        rw [← hr]; exact hI
      · simp only [hd, if_false]
        by_cases hf : bufsz ≤ s1.st.inbuf.length
        · simp only [hf, if_true]
          cases hfi : flushInbufE C bufsz fuel E s1 false with
          | none => exact ⟨(fun r hr s2 hs2 => by rw [hs2] at hr; cases hr), (fun a' ha' => by cases ha')⟩
          | some r1 =>
            cases r1 with
            | error e' => exact ⟨(fun r hr s2 hs2 => by rw [hs2] at hr; cases hr), (fun a' ha' => by cases ha')⟩
            | ok s3 =>
              have h2 := flushInbufE_ok_flushed bufsz fuel E s1 s3 false hfi
              refine ⟨(fun r hr => by cases hr), fun a' ha' => ?_⟩
              simp only [LoopStep.next.injEq] at ha'
              rw [← ha']
              simp only; rw [h2, hI]
        · simp only [hf, if_false]
          refine ⟨(fun r hr => by cases hr), fun a' ha' => ?_⟩
          simp only [LoopStep.next.injEq] at ha'
          rw [← ha']
          exact hI

/-- **a failing `wrapped->flush` is reported** (`xfrm_flush` returns what it returns) -/
theorem oRunE_ok_no_flush_failure (bufsz fuel : Nat) (E : OEnv) {k : Nat} {e : Int} (hE : E.flushFail = some (k, e)) (he : e ≠ 0) :
    ∀ (ops : List OOp) (s s' : OStateE σ), oRunE C bufsz fuel E s ops = some (.ok s') → s.st.flushed ≤ k → s'.st.flushed ≤ k := by
  intro ops
  induction ops with
  | nil => intro s s' h hk; simp only [oRunE, Option.some.injEq, Except.ok.injEq] at h; rw [← h]; exact hk
  | cons op ops ih =>
    intro s s' h hk
    cases op with
    | append d =>
      simp only [oRunE] at h
      cases ha : oAppendE C bufsz fuel E s d with
      | none => rw [ha] at h; cases h
      | some r =>
        cases r with
        | error e' => rw [ha] at h; cases h
        | ok s2 =>
          rw [ha] at h
          exact ih s2 s' h (by rw [oAppendE_ok_flushed bufsz fuel E s s2 d ha]; exact hk)
    | flush =>
      simp only [oRunE] at h
      cases ha : oFlushE C bufsz fuel E s with
      | none => rw [ha] at h; cases h
      | some r =>
        cases r with
        | error e' => rw [ha] at h; cases h
        | ok s2 =>
          rw [ha] at h
          refine ih s2 s' h ?_
          simp only [oFlushE, hE] at ha
          have key : ∀ s3 : OStateE σ, s3.st.flushed ≤ k →
              (match failCode (some (k, e)) s3.st.flushed with
               | some e => some (Except.error (e, s3.st.sink))
               | none => some (Except.ok ⟨{ s3.st with flushed := s3.st.flushed + 1 }, s3.appends⟩)) = some (.ok s2) →
              s2.st.flushed ≤ k := by
            intro s3 h3 hm
            by_cases hkk : k = s3.st.flushed
            · rw [← hkk, failCode_hit he] at hm; cases hm
            · have hnone : failCode (some (k, e)) s3.st.flushed = none := by simp [failCode, hkk]
              rw [hnone] at hm
              simp only [Option.some.injEq, Except.ok.injEq] at hm
              rw [← hm]; simp only; omega
          by_cases hp : 0 < s.st.inbuf.length
          · simp only [hp, if_true] at ha
            cases hfi : flushInbufE C bufsz fuel E s true with
            | none => rw [hfi] at ha; cases ha
            | some r1 =>
              cases r1 with
              | error e' => rw [hfi] at ha; cases ha
              | ok s3 =>
                rw [hfi] at ha
                exact key s3 (by rw [flushInbufE_ok_flushed bufsz fuel E s s3 true hfi]; exact hk) ha
          · simp only [hp, if_false] at ha
            exact key s hk ha

end Out

/-! ### the input side -/
section In
variable {σ : Type} {C : Codec σ}

def projI (st : IStateE σ) : IState σ := { cs := st.cs, buf := st.buf, off := st.off, inner := st.inner.inner }

def projPre : Except Int (σ × Bytes × InnerE) → Except Int (σ × Bytes × Inner)
  | .error e => .error e
  | .ok a => .ok (a.1, a.2.1, a.2.2.inner)

theorem failNow_none {i : InnerE} (h : i.fail = none) : i.failNow = none := by simp [InnerE.failNow, h]

theorem precacheE_good (bufsz fuel : Nat) (st : IStateE σ) (hf : st.inner.fail = none) :
    (precacheE C bufsz fuel st).map (Except.map projI) = precache C bufsz fuel (projI st) ∧
    ∀ st', precacheE C bufsz fuel st = some (.ok st') → st'.inner.fail = none := by
  have hsim : ∀ fuel (a : σ × Bytes × InnerE), a.2.2.fail = none →
      iter (precacheBody C bufsz) fuel (a.1, a.2.1, a.2.2.inner) = (iter (precacheBodyE C bufsz) fuel a).map projPre ∧
      ∀ b, iter (precacheBodyE C bufsz) fuel a = some (.ok b) → b.2.2.fail = none := by
    intro fuel
    induction fuel with
    | zero => intro a _; exact ⟨rfl, fun b h => by simp [iter] at h⟩
    | succ n ih =>
      rintro ⟨cs, buf, ie⟩ hfa
      simp only at hfa
      simp only [iter, precacheBody, precacheBodyE, failNow_none hfa]
      by_cases he : (C.step cs ie.inner.peek.1 (bufsz - buf.length) (if ie.inner.peek.2.1 = true then Flush.full else Flush.none)).res = Res.error
      · simp only [he, if_true]
        exact ⟨rfl, fun b h => by cases h⟩
      · simp only [he, if_false]
        by_cases hx : ((C.step cs ie.inner.peek.1 (bufsz - buf.length) (if ie.inner.peek.2.1 = true then Flush.full else Flush.none)).res = Res.bufferFull ||
            decide (bufsz ≤ (buf ++ (C.step cs ie.inner.peek.1 (bufsz - buf.length) (if ie.inner.peek.2.1 = true then Flush.full else Flush.none)).out).length)) = true
        · simp only [hx, if_true]
          refine ⟨rfl, fun b h => ?_⟩
          simp only [Option.some.injEq, Except.ok.injEq] at h
          rw [← h]; exact hfa
        · simp only [hx, Bool.false_eq_true, if_false]
          by_cases hE : ie.inner.peek.2.1 = true
          · simp only [hE, if_true]
            refine ⟨rfl, fun b h => ?_⟩
            simp only [Option.some.injEq, Except.ok.injEq] at h
            rw [← h]; exact hfa
          · simp only [hE, Bool.false_eq_true, if_false]
            exact ih (_, _, { ie with inner := _, calls := ie.calls + 1 }) hfa
  obtain ⟨h1, h2⟩ := hsim fuel (st.cs, st.buf.drop st.off, st.inner) hf
  constructor
  · simp only [precache, precacheE, precacheLoop, projI]
    simp only at h1
    rw [h1]
    cases iter (precacheBodyE C bufsz) fuel (st.cs, st.buf.drop st.off, st.inner) with
    | none => rfl
    | some r =>
      cases r with
      | error e => rfl
      | ok a => obtain ⟨cs, buf, ie⟩ := a; rfl
  · intro st' h
    simp only [precacheE] at h
    cases hi : iter (precacheBodyE C bufsz) fuel (st.cs, st.buf.drop st.off, st.inner) with
    | none => rw [hi] at h; cases h
    | some r =>
      rw [hi] at h
      cases r with
      | error e => cases h
      | ok a =>
        obtain ⟨cs, buf, ie⟩ := a
        simp only [Option.some.injEq, Except.ok.injEq] at h
        rw [← h]
        exact h2 _ hi

def projRead : Except Int (IStateE σ × Bytes × Bool) → Except Int (IState σ × Bytes × Bool)
  | .error e => .error e
  | .ok a => .ok (projI a.1, a.2.1, a.2.2)

/-- **without a failure of the wrapped stream, the reader's run is the one the transparency theorems speak about** -/
theorem iReadE_good (bufsz fuel : Nat) : ∀ (ops : List (Nat × Nat)) (st : IStateE σ) (acc : Bytes), st.inner.fail = none →
    (iReadE C bufsz fuel st ops acc).map projRead = iRead C bufsz fuel (projI st) ops acc := by
  intro ops
  induction ops with
  | nil => intro st acc _; rfl
  | cons op ops ih =>
    intro st acc hf
    obtain ⟨want, take⟩ := op
    obtain ⟨hp1, hp2⟩ := precacheE_good (C := C) bufsz fuel st hf
    simp only [iRead, iReadE, iGet, iGetE]
    by_cases hc : (st.buf.length = 0 || decide (st.buf.length - st.off < if bufsz < want then bufsz else want)) = true
    · have hc' : ((projI st).buf.length = 0 || decide ((projI st).buf.length - (projI st).off < if bufsz < want then bufsz else want)) = true := hc
      simp only [hc, hc', if_true]
      rw [← hp1]
      cases hpe : precacheE C bufsz fuel st with
      | none => rfl
      | some r =>
        cases r with
        | error e => rfl
        | ok st1 =>
          have hf1 := hp2 st1 hpe
          simp only [Option.map, Except.map]
          by_cases hv : ((st1.buf.drop st1.off).length = 0)
          · have : ((projI st1).buf.drop (projI st1).off).length = 0 := hv
            simp only [hv, this, decide_true, if_true]; rfl
          · have hv' : ¬ ((projI st1).buf.drop (projI st1).off).length = 0 := hv
            simp only [hv, hv', decide_false, Bool.false_eq_true, if_false]
            by_cases ha : min take (st1.buf.drop st1.off).length ≤ st1.buf.length ∧ st1.off + min take (st1.buf.drop st1.off).length ≤ st1.buf.length
            · have ha' : min take ((projI st1).buf.drop (projI st1).off).length ≤ (projI st1).buf.length ∧
                  (projI st1).off + min take ((projI st1).buf.drop (projI st1).off).length ≤ (projI st1).buf.length := ha
              simp only [iAdvance, iAdvanceE, ha, ha', if_true]
              exact ih _ _ hf1
            · have ha' : ¬ (min take ((projI st1).buf.drop (projI st1).off).length ≤ (projI st1).buf.length ∧
                  (projI st1).off + min take ((projI st1).buf.drop (projI st1).off).length ≤ (projI st1).buf.length) := ha
              simp only [iAdvance, iAdvanceE, ha, ha', if_false]; rfl
    · have hc' : ¬ ((projI st).buf.length = 0 || decide ((projI st).buf.length - (projI st).off < if bufsz < want then bufsz else want)) = true := hc
      simp only [hc, hc', Bool.false_eq_true, if_false]
      by_cases hv : ((st.buf.drop st.off).length = 0)
      · have : ((projI st).buf.drop (projI st).off).length = 0 := hv
        simp only [hv, this, decide_true, if_true]; rfl
      · have hv' : ¬ ((projI st).buf.drop (projI st).off).length = 0 := hv
        simp only [hv, hv', decide_false, Bool.false_eq_true, if_false]
        by_cases ha : min take (st.buf.drop st.off).length ≤ st.buf.length ∧ st.off + min take (st.buf.drop st.off).length ≤ st.buf.length
        · have ha' : min take ((projI st).buf.drop (projI st).off).length ≤ (projI st).buf.length ∧
              (projI st).off + min take ((projI st).buf.drop (projI st).off).length ≤ (projI st).buf.length := ha
          simp only [iAdvance, iAdvanceE, ha, ha', if_true]
          exact ih _ _ hf
        · have ha' : ¬ (min take ((projI st).buf.drop (projI st).off).length ≤ (projI st).buf.length ∧
              (projI st).off + min take ((projI st).buf.drop (projI st).off).length ≤ (projI st).buf.length) := ha
          simp only [iAdvance, iAdvanceE, ha, ha', if_false]; rfl

/-- `precache`: coming back with 0 means that the failing `get_buffered_data` call has not been made -/
theorem precacheE_ok_calls (bufsz fuel : Nat) {k : Nat} {e : Int} (he : e < 0) (st st' : IStateE σ) (hf : st.inner.fail = some (k, e))
    (h : precacheE C bufsz fuel st = some (.ok st')) (hk : st.inner.calls ≤ k) :
    st'.inner.calls ≤ k ∧ st'.inner.fail = some (k, e) := by
  simp only [precacheE] at h
  cases hi : iter (precacheBodyE C bufsz) fuel (st.cs, st.buf.drop st.off, st.inner) with
  | none => rw [hi] at h; cases h
  | some r =>
    rw [hi] at h
    cases r with
    | error e' => cases h
    | ok a =>
      obtain ⟨cs, buf, ie⟩ := a
      simp only [Option.some.injEq, Except.ok.injEq] at h
      subst h
      have := iter_inv (precacheBodyE C bufsz) (fun a => a.2.2.calls ≤ k ∧ a.2.2.fail = some (k, e))
        (fun r => ∀ a, r = .ok a → a.2.2.calls ≤ k ∧ a.2.2.fail = some (k, e)) ?_ fuel _ _ ⟨hk, hf⟩ hi (cs, buf, ie) rfl
      · exact this
      · rintro ⟨cs1, buf1, ie1⟩ ⟨hI1, hI2⟩
        simp only at hI1 hI2
        simp only [precacheBodyE]
        by_cases hkk : k = ie1.calls
        · have : ie1.failNow = some e := by simp [InnerE.failNow, hI2, hkk, he]
          rw [this]
          exact ⟨(fun r hr a ha => by rw [ha] at hr; cases hr), (fun a' ha' => by cases ha')⟩
        · have : ie1.failNow = none := by simp [InnerE.failNow, hI2, hkk]
          rw [this]
          simp only
          have hlt : ie1.calls + 1 ≤ k := by omega
          by_cases herr : (C.step cs1 ie1.inner.peek.1 (bufsz - buf1.length) (if ie1.inner.peek.2.1 = true then Flush.full else Flush.none)).res = Res.error
          · simp only [herr, if_true]
            exact ⟨(fun r hr a ha => by rw [ha] at hr; cases hr), (fun a' ha' => by cases ha')⟩
          · simp only [herr, if_false]
            by_cases hx : ((C.step cs1 ie1.inner.peek.1 (bufsz - buf1.length) (if ie1.inner.peek.2.1 = true then Flush.full else Flush.none)).res = Res.bufferFull ||
                decide (bufsz ≤ (buf1 ++ (C.step cs1 ie1.inner.peek.1 (bufsz - buf1.length) (if ie1.inner.peek.2.1 = true then Flush.full else Flush.none)).out).length)) = true
            · simp only [hx, if_true]
              refine ⟨fun r hr a ha => ?_, (fun a' ha' => by cases ha')⟩
              rw [ha] at hr
              simp only [LoopStep.done.injEq, Except.ok.injEq] at hr
              rw [← hr]; exact ⟨hlt, hI2⟩
            · simp only [hx, Bool.false_eq_true, if_false]
              by_cases hE : ie1.inner.peek.2.1 = true
              · simp only [hE, if_true]
                refine ⟨fun r hr a ha => ?_, (fun a' ha' => by cases ha')⟩
                rw [ha] at hr
                simp only [LoopStep.done.injEq, Except.ok.injEq] at hr
                rw [← hr]; exact ⟨hlt, hI2⟩
              · simp only [hE, Bool.false_eq_true, if_false]
                refine ⟨(fun r hr => by cases hr), fun a' ha' => ?_⟩
                simp only [LoopStep.next.injEq] at ha'
                rw [← ha']; exact ⟨hlt, hI2⟩

/-- **a failing `wrapped->get_buffered_data` is reported**: a reader's run that ends without an error has not made the failing
call -/
theorem iReadE_ok_no_failure (bufsz fuel : Nat) {k : Nat} {e : Int} (he : e < 0) :
    ∀ (ops : List (Nat × Nat)) (st : IStateE σ) (acc : Bytes) (r : IStateE σ × Bytes × Bool), st.inner.fail = some (k, e) →
      iReadE C bufsz fuel st ops acc = some (.ok r) → st.inner.calls ≤ k → r.1.inner.calls ≤ k := by
  intro ops
  induction ops with
  | nil =>
    intro st acc r _ h hk
    simp only [iReadE, Option.some.injEq, Except.ok.injEq] at h
    rw [← h]; exact hk
  | cons op ops ih =>
    intro st acc r hf h hk
    obtain ⟨want, take⟩ := op
    simp only [iReadE, iGetE] at h
    have key : ∀ st1 : IStateE σ, st1.inner.fail = some (k, e) → st1.inner.calls ≤ k →
        (if decide ((st1.buf.drop st1.off).length = 0) = true then some (Except.ok (st1, acc, true))
         else match iAdvanceE st1 (min take (st1.buf.drop st1.off).length) with
          | none => some (Except.error 0)
          | some st2 => iReadE C bufsz fuel st2 ops (acc ++ (st1.buf.drop st1.off).take (min take (st1.buf.drop st1.off).length))) = some (.ok r) →
        r.1.inner.calls ≤ k := by
      intro st1 hf1 hk1 h1
      by_cases hv : (st1.buf.drop st1.off).length = 0
      · simp only [hv, decide_true, if_true, Option.some.injEq, Except.ok.injEq] at h1
        rw [← h1]; exact hk1
      · simp only [hv, decide_false, Bool.false_eq_true, if_false] at h1
        cases had : iAdvanceE st1 (min take (st1.buf.drop st1.off).length) with
        | none => rw [had] at h1; cases h1
        | some st2 =>
          rw [had] at h1
          simp only [iAdvanceE] at had
          split at had
          · simp only [Option.some.injEq] at had
            exact ih st2 _ r (by rw [← had]; exact hf1) h1 (by rw [← had]; exact hk1)
          · cases had
    by_cases hc : (st.buf.length = 0 || decide (st.buf.length - st.off < if bufsz < want then bufsz else want)) = true
    · simp only [hc, if_true] at h
      cases hpe : precacheE C bufsz fuel st with
      | none => rw [hpe] at h; cases h
      | some r1 =>
        rw [hpe] at h
        cases r1 with
        | error e' => cases h
        | ok st1 =>
          obtain ⟨h1, h2⟩ := precacheE_ok_calls bufsz fuel he st st1 hf hpe hk
          exact key st1 h2 h1 h
    · simp only [hc, Bool.false_eq_true, if_false] at h
      exact key st hf hk h

end In

end Sqfs.Xfrm
