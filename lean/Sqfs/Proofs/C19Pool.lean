import Sqfs.Model.C19Pool
import Sqfs.Proofs.RbTree
/-!
Lemmas about the pool configuration of `rbtree.c` (`Sqfs.Model.C19Pool`):
* `copyNodeP_st` — on node memory `copy_node` does in the pool configuration exactly what it does in the `calloc` configuration
  (so `rbtree_copy_equiv` carries over);
* `copyNodeP_owner` — every node it allocates belongs to the pool it was handed (`nt->pool`), no other node changes owner, no
  pool is created.
-/
namespace Sqfs.Rb

theorem copyNode_succ (c : Cfg) (fuel : Nat) (st : Store) (a : Nat) (n : Cell) (hn : st.cells a = some n) :
    copyNode c (fuel + 1) st a =
      match copyChild (copyNode c fuel) (st.alloc ⟨none, none, n.off, n.red, copyData c n.data⟩).1 n.left with
      | none => none
      | some (st2, l') =>
        match copyChild (copyNode c fuel) (modCell st2 st.next fun x => { x with left := l' }) n.right with
        | none => none
        | some (st4, r') => some (modCell st4 st.next fun x => { x with right := r' }, st.next) := by
  simp only [copyNode, hn, Store.alloc]
  rfl

theorem copyNodeP_succ (c : Cfg) (pool fuel : Nat) (ps : PStore) (a : Nat) (n : Cell) (hn : ps.st.cells a = some n) :
    copyNodeP c pool (fuel + 1) ps a =
      match copyChildP (copyNodeP c pool fuel) (ps.alloc pool ⟨none, none, n.off, n.red, copyData c n.data⟩).1 n.left with
      | none => none
      | some (ps2, l') =>
        match copyChildP (copyNodeP c pool fuel) (ps2.mod ps.st.next fun x => { x with left := l' }) n.right with
        | none => none
        | some (ps4, r') => some (ps4.mod ps.st.next fun x => { x with right := r' }, ps.st.next) := by
  simp only [copyNodeP, hn, PStore.alloc]
  rfl

theorem copyChildP_st (recP : PStore → Nat → Option (PStore × Nat)) (rec : Store → Nat → Option (Store × Nat))
    (h : ∀ ps a, (recP ps a).map (fun r => (r.1.st, r.2)) = rec ps.st a) (ps : PStore) (p : Option Nat) :
    (copyChildP recP ps p).map (fun r => (r.1.st, r.2)) = copyChild rec ps.st p := by
  cases p with
  | none => rfl
  | some a =>
    have ha := h ps a
    simp only [copyChildP, copyChild]
    cases hr : recP ps a with
    | none =>
      rw [hr] at ha
      simp only [Option.map_none] at ha
      rw [← ha]; rfl
    | some r =>
      obtain ⟨ps', x⟩ := r
      rw [hr] at ha
      simp only [Option.map_some] at ha
      rw [← ha]; rfl

/-- on node memory the pool configuration's `copy_node` is the `calloc` configuration's -/
theorem copyNodeP_st (c : Cfg) (pool : Nat) : ∀ (fuel : Nat) (ps : PStore) (a : Nat),
    (copyNodeP c pool fuel ps a).map (fun r => (r.1.st, r.2)) = copyNode c fuel ps.st a := by
  intro fuel
  induction fuel with
  | zero => intro ps a; rfl
  | succ fuel ih =>
    intro ps a
    cases hn : ps.st.cells a with
    | none => simp [copyNodeP, copyNode, hn]
    | some n =>
      rw [copyNode_succ c fuel ps.st a n hn, copyNodeP_succ c pool fuel ps a n hn]
      have hL := copyChildP_st _ _ ih (ps.alloc pool ⟨none, none, n.off, n.red, copyData c n.data⟩).1 n.left
      cases h2 : copyChildP (copyNodeP c pool fuel) (ps.alloc pool ⟨none, none, n.off, n.red, copyData c n.data⟩).1 n.left with
      | none =>
        rw [h2] at hL
        simp only [Option.map_none] at hL
        have hL' : copyChild (copyNode c fuel) (ps.st.alloc ⟨none, none, n.off, n.red, copyData c n.data⟩).1 n.left = none := hL.symm
        rw [hL']; rfl
      | some r2 =>
        obtain ⟨ps2, l'⟩ := r2
        rw [h2] at hL
        simp only [Option.map_some] at hL
        have hL' : copyChild (copyNode c fuel) (ps.st.alloc ⟨none, none, n.off, n.red, copyData c n.data⟩).1 n.left = some (ps2.st, l') := hL.symm
        rw [hL']
        simp only []
        have hR := copyChildP_st _ _ ih (ps2.mod ps.st.next fun x => { x with left := l' }) n.right
        cases h4 : copyChildP (copyNodeP c pool fuel) (ps2.mod ps.st.next fun x => { x with left := l' }) n.right with
        | none =>
          rw [h4] at hR
          simp only [Option.map_none] at hR
          have hR' : copyChild (copyNode c fuel) (modCell ps2.st ps.st.next fun x => { x with left := l' }) n.right = none := hR.symm
          rw [hR']; rfl
        | some r4 =>
          obtain ⟨ps4, r'⟩ := r4
          rw [h4] at hR
          simp only [Option.map_some] at hR
          have hR' : copyChild (copyNode c fuel) (modCell ps2.st ps.st.next fun x => { x with left := l' }) n.right = some (ps4.st, r') := hR.symm
          rw [hR']; rfl

/-- what a run of allocations from `pool` does to the ownership map -/
structure OwnerStep (pool : Nat) (ps ps' : PStore) : Prop where
  next_le : ps.st.next ≤ ps'.st.next
  old : ∀ i, i < ps.st.next → ps'.owner i = ps.owner i
  new : ∀ i, ps.st.next ≤ i → i < ps'.st.next → ps'.owner i = pool
  np : ps'.nextPool = ps.nextPool
  lv : ps'.live = ps.live

theorem OwnerStep.refl (pool : Nat) (ps : PStore) : OwnerStep pool ps ps :=
  ⟨Nat.le_refl _, fun _ _ => rfl, fun i h1 h2 => absurd h2 (by omega), rfl, rfl⟩

theorem OwnerStep.trans {pool : Nat} {a b c : PStore} (h1 : OwnerStep pool a b) (h2 : OwnerStep pool b c) : OwnerStep pool a c := by
  refine ⟨Nat.le_trans h1.next_le h2.next_le, ?_, ?_, by rw [h2.np, h1.np], by rw [h2.lv, h1.lv]⟩
  · intro i hi
    rw [h2.old i (Nat.lt_of_lt_of_le hi h1.next_le), h1.old i hi]
  · intro i hlo hhi
    by_cases hb : i < b.st.next
    · rw [h2.old i hb]; exact h1.new i hlo hb
    · exact h2.new i (by omega) hhi

theorem OwnerStep.alloc (pool : Nat) (ps : PStore) (c : Cell) : OwnerStep pool ps (ps.alloc pool c).1 := by
  refine ⟨by simp [PStore.alloc, Store.alloc], ?_, ?_, rfl, rfl⟩
  · intro i hi
    simp only [PStore.alloc]
    rw [if_neg (by omega)]
  · intro i hlo hhi
    have : i = ps.st.next := by simp [PStore.alloc, Store.alloc] at hhi; omega
    simp [PStore.alloc, this]

theorem OwnerStep.mod (pool : Nat) (ps : PStore) (a : Nat) (f : Cell → Cell) : OwnerStep pool ps (ps.mod a f) := by
  have hn : (ps.mod a f).st.next = ps.st.next := modCell_next _ _ _
  refine ⟨by rw [hn]; exact Nat.le_refl _, fun _ _ => rfl, ?_, rfl, rfl⟩
  intro i hlo hhi
  rw [hn] at hhi
  exact absurd hhi (by omega)

theorem copyChildP_owner (pool : Nat) (recP : PStore → Nat → Option (PStore × Nat))
    (h : ∀ ps a ps' out, recP ps a = some (ps', out) → OwnerStep pool ps ps')
    (ps : PStore) (p : Option Nat) (ps' : PStore) (p' : Option Nat) (he : copyChildP recP ps p = some (ps', p')) :
    OwnerStep pool ps ps' := by
  cases p with
  | none =>
    simp only [copyChildP] at he
    cases he
    exact OwnerStep.refl pool ps
  | some a =>
    simp only [copyChildP] at he
    cases hr : recP ps a with
    | none => rw [hr] at he; cases he
    | some r =>
      obtain ⟨ps2, x⟩ := r
      rw [hr] at he
      cases he
      exact h ps a ps' x hr

/-- every node `copy_node` allocates belongs to the pool it was handed; nothing else changes owner -/
theorem copyNodeP_owner (c : Cfg) (pool : Nat) : ∀ (fuel : Nat) (ps : PStore) (a : Nat) (ps' : PStore) (out : Nat),
    copyNodeP c pool fuel ps a = some (ps', out) → OwnerStep pool ps ps' := by
  intro fuel
  induction fuel with
  | zero => intro ps a ps' out h; simp [copyNodeP] at h
  | succ fuel ih =>
    intro ps a ps' out h
    cases hn : ps.st.cells a with
    | none => simp [copyNodeP, hn] at h
    | some n =>
      rw [copyNodeP_succ c pool fuel ps a n hn] at h
      cases h2 : copyChildP (copyNodeP c pool fuel) (ps.alloc pool ⟨none, none, n.off, n.red, copyData c n.data⟩).1 n.left with
      | none => rw [h2] at h; cases h
      | some r2 =>
        obtain ⟨ps2, l'⟩ := r2
        rw [h2] at h
        simp only [] at h
        cases h4 : copyChildP (copyNodeP c pool fuel) (ps2.mod ps.st.next fun x => { x with left := l' }) n.right with
        | none => rw [h4] at h; cases h
        | some r4 =>
          obtain ⟨ps4, r'⟩ := r4
          rw [h4] at h
          simp only [] at h
          cases h
          have s1 := OwnerStep.alloc pool ps ⟨none, none, n.off, n.red, copyData c n.data⟩
          have s2 := copyChildP_owner pool _ ih _ _ _ _ h2
          have s3 := OwnerStep.mod pool ps2 ps.st.next fun x => { x with left := l' }
          have s4 := copyChildP_owner pool _ ih _ _ _ _ h4
          have s5 := OwnerStep.mod pool ps4 ps.st.next fun x => { x with right := r' }
          exact s1.trans (s2.trans (s3.trans (s4.trans s5)))

/-- cells of a store after `mem_pool_destroy` -/
theorem destroyPool_cells (ps : PStore) (pool i : Nat) :
    (ps.destroyPool pool).st.cells i = if ps.owner i = pool then none else ps.st.cells i := rfl

end Sqfs.Rb
