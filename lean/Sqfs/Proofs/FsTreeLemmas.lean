/-
C11: general lemmas about the tree model — child lists (`childByName`, `replaceChild`, `insertBy`), `lookup`, grafting a
subtree.  (Extracted from the proofs about the pre-7ff9210 code, which live on in `Sqfs/Proofs/C11Pinned/`.)
-/
import Sqfs.Proofs.FsTree

namespace Sqfs.FsTree
/-! ### child lists: `childByName`, `replaceChild`, `insertBy` -/

theorem childByName_some_name {cs : List TNode} {n : Name} {c : TNode} (h : childByName cs n = some c) : c.name = n := by
  induction cs with
  | nil => simp [childByName] at h
  | cons x xs ih =>
    simp only [childByName] at h
    split at h
    · cases h; assumption
    · exact ih h

theorem childByName_replaceChild_ne (c' : TNode) (cs : List TNode) (m : Name) (h : m ≠ c'.name) :
    childByName (replaceChild c' cs) m = childByName cs m := by
  induction cs with
  | nil => rfl
  | cons x xs ih =>
    simp only [replaceChild]
    split
    · rename_i hx
      simp only [childByName]
      have h1 : ¬ c'.name = m := fun e => h e.symm
      have h2 : ¬ x.name = m := fun e => h (by rw [← e, hx])
      simp [h1, h2]
    · simp only [childByName, ih]

theorem childByName_insertBy_ne (x : TNode) (cs : List TNode) (m : Name) (h : m ≠ x.name) :
    childByName (insertBy TNode.name x cs) m = childByName cs m := by
  induction cs with
  | nil =>
    have h1 : ¬ x.name = m := fun e => h e.symm
    simp [insertBy, childByName, h1]
  | cons y ys ih =>
    simp only [insertBy]
    split
    · simp only [childByName, ih]
    · have h1 : ¬ x.name = m := fun e => h e.symm
      simp [childByName, h1]

theorem childByName_replaceChild_self (c' : TNode) (cs : List TNode) (c : TNode)
    (h : childByName cs c'.name = some c) : childByName (replaceChild c' cs) c'.name = some c' := by
  induction cs with
  | nil => simp [childByName] at h
  | cons x xs ih =>
    simp only [childByName] at h
    simp only [replaceChild]
    split at h
    · rename_i hx; simp [hx, childByName]
    · rename_i hx; simp [hx, childByName, ih h]

theorem childByName_insertBy_self (x : TNode) (cs : List TNode) (h : childByName cs x.name = none) :
    childByName (insertBy TNode.name x cs) x.name = some x := by
  induction cs with
  | nil => simp [insertBy, childByName]
  | cons y ys ih =>
    simp only [childByName] at h
    split at h
    · cases h
    · rename_i hy
      simp only [insertBy]
      split
      · simp [childByName, hy, ih h]
      · simp [childByName]

theorem replaceChild_self (cs : List TNode) (c : TNode) (h : childByName cs c.name = some c) :
    replaceChild c cs = cs := by
  induction cs with
  | nil => rfl
  | cons x xs ih =>
    simp only [childByName] at h
    simp only [replaceChild]
    split at h
    · cases h; simp
    · rename_i hx; simp [hx, ih h]

theorem replaceChild_comm (a b : TNode) (cs : List TNode) (h : a.name ≠ b.name) :
    replaceChild a (replaceChild b cs) = replaceChild b (replaceChild a cs) := by
  induction cs with
  | nil => rfl
  | cons x xs ih =>
    by_cases hxa : x.name = a.name
    · have hxb : ¬ x.name = b.name := fun e => h (hxa.symm.trans e)
      have hab : ¬ a.name = b.name := h
      simp [replaceChild, hxa, hab]
    · by_cases hxb : x.name = b.name
      · have hba : ¬ b.name = a.name := fun e => h e.symm
        simp [replaceChild, hxb, hba]
      · simp [replaceChild, hxa, hxb, ih]

theorem replaceChild_insertBy_comm (a b : TNode) (cs : List TNode) (h : a.name ≠ b.name) :
    replaceChild a (insertBy TNode.name b cs) = insertBy TNode.name b (replaceChild a cs) := by
  induction cs with
  | nil =>
    have : ¬ b.name = a.name := fun e => h e.symm
    simp [insertBy, replaceChild, this]
  | cons x xs ih =>
    by_cases hxa : x.name = a.name
    · have hba : ¬ b.name = a.name := fun e => h e.symm
      simp only [insertBy, replaceChild, hxa, if_true]
      split
      · simp [replaceChild, hxa]
      · simp [replaceChild, hxa, hba]
    · have hba : ¬ b.name = a.name := fun e => h e.symm
      simp only [insertBy, replaceChild, hxa, if_false]
      split
      · simp [replaceChild, hxa, ih]
      · simp [replaceChild, hxa, hba]

/-- replacing the freshly inserted child -/
theorem replaceChild_insertBy_self (x y : TNode) (cs : List TNode) (hn : y.name = x.name)
    (h : childByName cs x.name = none) :
    replaceChild y (insertBy TNode.name x cs) = insertBy TNode.name y cs := by
  induction cs with
  | nil => simp [insertBy, replaceChild, hn]
  | cons z zs ih =>
    simp only [childByName] at h
    split at h
    · cases h
    · rename_i hz
      have hz' : ¬ z.name = y.name := by rw [hn]; exact hz
      simp only [insertBy, hn]
      split
      · simp [replaceChild, hz', ih h]
      · simp [replaceChild, hn]


@[simp] theorem TNode.name_mk (n : Name) (a : Attr) (c : List TNode) : (TNode.mk n a c).name = n := rfl
@[simp] theorem TNode.attr_mk (n : Name) (a : Attr) (c : List TNode) : (TNode.mk n a c).attr = a := rfl
@[simp] theorem TNode.children_mk (n : Name) (a : Attr) (c : List TNode) : (TNode.mk n a c).children = c := rfl


/-- replace the node at path `q` by `X` -/
def graft (t : TNode) (q : Path) (X : TNode) : TNode := modifyAt (fun _ => X) q t

theorem TNode.eta (t : TNode) : TNode.mk t.name t.attr t.children = t := by cases t; rfl

@[simp] theorem graft_nil (t X : TNode) : graft t [] X = X := rfl

theorem graft_cons (t : TNode) (n : Name) (q : Path) (X : TNode) :
    graft t (n :: q) X = match childByName t.children n with
      | some c => .mk t.name t.attr (replaceChild (graft c q X) t.children)
      | none => t := rfl

theorem lookup_cons (t : TNode) (n : Name) (q : Path) :
    lookup t (n :: q) = if !t.isDir then none else match childByName t.children n with
      | some c => lookup c q
      | none => none := rfl

theorem lookup_append (t : TNode) (q r : Path) : lookup t (q ++ r) = (lookup t q).bind (fun D => lookup D r) := by
  induction q generalizing t with
  | nil => simp [lookup]
  | cons n q ih =>
    simp only [List.cons_append, lookup_cons]
    split
    · rfl
    · split
      · exact ih _
      · rfl

theorem lookup_single (D : TNode) (n : Name) :
    lookup D [n] = if !D.isDir then none else childByName D.children n := by
  simp only [lookup_cons]
  split
  · rfl
  · split <;> simp_all [lookup]

theorem graft_name (t : TNode) (n : Name) (q : Path) (X : TNode) : (graft t (n :: q) X).name = t.name := by
  rw [graft_cons]; split <;> rfl

theorem graft_attr (t : TNode) (n : Name) (q : Path) (X : TNode) : (graft t (n :: q) X).attr = t.attr := by
  rw [graft_cons]; split <;> rfl

theorem graft_self {t D : TNode} {q : Path} (h : lookup t q = some D) : graft t q D = t := by
  induction q generalizing t with
  | nil => simp only [lookup] at h; cases h; rfl
  | cons n q ih =>
    rw [lookup_cons] at h
    split at h
    · cases h
    · split at h
      · rename_i c hc
        rw [graft_cons, hc]
        simp only [ih h]
        rw [replaceChild_self _ _ (by rw [childByName_some_name hc]; exact hc)]
        exact TNode.eta t
      · cases h

theorem replaceChild_replaceChild_same (a b : TNode) (cs : List TNode) (h : a.name = b.name) :
    replaceChild a (replaceChild b cs) = replaceChild a cs := by
  induction cs with
  | nil => rfl
  | cons x xs ih =>
    by_cases hx : x.name = b.name
    · simp [replaceChild, hx, h]
    · have hx' : ¬ x.name = a.name := by rw [h]; exact hx
      simp [replaceChild, hx, hx', ih]

/-- name of the grafted node, provided the replacement keeps the name of what it replaces -/
theorem graft_name' {t D X : TNode} {q : Path} (h : lookup t q = some D) (hX : X.name = D.name) :
    (graft t q X).name = t.name := by
  cases q with
  | nil => simp only [lookup] at h; cases h; simpa using hX
  | cons n q => exact graft_name t n q X

theorem lookup_graft {t D X : TNode} {q : Path} (h : lookup t q = some D) (hX : X.name = D.name) :
    lookup (graft t q X) q = some X := by
  induction q generalizing t with
  | nil => rfl
  | cons n q ih =>
    rw [lookup_cons] at h
    split at h
    · cases h
    · rename_i hdir
      split at h
      · rename_i c hc
        have hcn : c.name = n := childByName_some_name hc
        have hg : (graft c q X).name = n := by rw [graft_name' h hX, hcn]
        rw [graft_cons, hc, lookup_cons]
        simp only [TNode.isDir, TNode.attr_mk, TNode.children_mk] at hdir ⊢
        simp only [hdir]
        have := childByName_replaceChild_self (graft c q X) t.children c (by rw [hg]; exact hc)
        rw [hg] at this
        simp only [this]
        exact ih h
      · cases h

theorem graft_graft {t D X : TNode} {q : Path} (r : Path) (Y : TNode) (h : lookup t q = some D) (hX : X.name = D.name)
    (hY : r = [] → Y.name = X.name) :
    graft (graft t q X) (q ++ r) Y = graft t q (graft X r Y) := by
  induction q generalizing t with
  | nil => rfl
  | cons n q ih =>
    rw [lookup_cons] at h
    split at h
    · cases h
    · split at h
      · rename_i c hc
        have hcn : c.name = n := childByName_some_name hc
        have hg : (graft c q X).name = n := by rw [graft_name' h hX, hcn]
        have h1 : childByName (replaceChild (graft c q X) t.children) n = some (graft c q X) := by
          have := childByName_replaceChild_self (graft c q X) t.children c (by rw [hg]; exact hc)
          rwa [hg] at this
        rw [graft_cons t n q X, hc, List.cons_append, graft_cons]
        simp only [TNode.children_mk, TNode.name_mk, TNode.attr_mk, h1]
        rw [ih h, graft_cons, hc]
        congr 1
        apply replaceChild_replaceChild_same
        cases q with
        | nil =>
          simp only [lookup] at h; cases h
          simp only [graft_nil]
          cases r with
          | nil => simpa using hY rfl
          | cons m r => rw [graft_name]
        | cons m q => rw [graft_name, graft_name]
      · cases h

theorem parentOf_snoc (t : TNode) (q : Path) (n : Name) :
    parentOf t (q ++ [n]) = (lookup t q).bind (fun D => if D.isDir then some D else none) := by
  unfold parentOf
  have : q ++ [n] ≠ [] := by simp
  split
  · rename_i heq; exact absurd heq this
  · simp only [List.dropLast_concat]
    cases lookup t q with
    | none => rfl
    | some D => rfl

theorem overwrite_name {c c' : TNode} {e : Ent} (h : overwrite c e = some c') : c'.name = c.name := by
  obtain ⟨n, a, cs⟩ := c
  simp only [overwrite] at h
  split at h
  · cases h
  · cases h; rfl

end Sqfs.FsTree
