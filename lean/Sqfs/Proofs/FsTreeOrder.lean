/-
`fstree_post_process`: what the numbering step leaves in `fs->inodes` (used by C01 `post_process_order_partial`).

* `reorder_hard_links` only permutes the array (`reorderHardLinks_perm`: every `moveTo arr i j` is called with `i < j`);
* the DFS numbering `alloc_inode_num_dfs` + `map_inodes_dfs` (`allocOrder`) lists pairwise different paths when every
  directory's children have pairwise different names (`allocOrder_nodup`; `AllSorted` is what `insert_sorted` keeps,
  `Proofs/FsTreeSorted.lean`).
-/
import Sqfs.Proofs.FsTreeSorted
namespace Sqfs.FsTree

theorem moveTo_perm (arr : List Path) (i j : Nat) (hij : i ≤ j) : (moveTo arr i j).Perm arr := by
  unfold moveTo
  cases hx : arr[j]? with
  | none => exact List.Perm.refl _
  | some x =>
    have hj : j < arr.length := by
      rcases Nat.lt_or_ge j arr.length with h | h
      · exact h
      · rw [List.getElem?_eq_none h] at hx; cases hx
    have hxe : arr[j] = x := by rw [List.getElem?_eq_getElem hj] at hx; exact Option.some.inj hx
    have h1 : arr.drop j = x :: arr.drop (j + 1) := by rw [← hxe]; exact List.drop_eq_getElem_cons hj
    have h2 : (arr.drop i).drop (j - i) = arr.drop j := by rw [List.drop_drop]; congr 1; omega
    have h3 : arr = arr.take i ++ ((arr.drop i).take (j - i) ++ (x :: arr.drop (j + 1))) := by
      rw [← h1, ← h2, List.take_append_drop, List.take_append_drop]
    simp only
    conv => rhs; rw [h3]
    rw [List.append_assoc]
    apply List.Perm.append_left
    simp only [List.cons_append]
    exact (List.perm_middle).symm

theorem reorderChildren_perm (dirPath : Path) : ∀ (cs : List TNode) (arr : List Path) (i : Nat),
    (reorderChildren dirPath cs arr i).1.Perm arr := by
  intro cs
  induction cs with
  | nil => intro arr i; exact List.Perm.refl _
  | cons c cs ih =>
    intro arr i
    unfold reorderChildren
    split
    · exact ih arr i
    · split
      · rename_i tgt _
        show (if indexOf tgt arr ≤ i then reorderChildren dirPath cs arr i
          else reorderChildren dirPath cs (moveTo arr i (indexOf tgt arr)) (i + 1)).1.Perm arr
        split
        · exact ih arr i
        · exact (ih _ _).trans (moveTo_perm arr i _ (by omega))
      · exact ih arr i

theorem reorderLoop_perm (root : TNode) : ∀ (fuel : Nat) (arr : List Path) (i : Nat),
    (reorderLoop root fuel arr i).Perm arr := by
  intro fuel
  induction fuel with
  | zero => intro arr i; exact List.Perm.refl _
  | succ f ih =>
    intro arr i
    unfold reorderLoop
    split
    · exact List.Perm.refl _
    · split
      · exact List.Perm.refl _
      · split
        · exact ih arr (i + 1)
        · exact (ih _ _).trans (reorderChildren_perm _ _ arr i)

theorem reorderHardLinks_perm (root : TNode) (arr : List Path) : (reorderHardLinks root arr).Perm arr :=
  reorderLoop_perm root _ arr 0

end Sqfs.FsTree

namespace Sqfs.FsTree

theorem sortedNames_nodup {l : List Name} (h : SortedNames l) : l.Nodup := by
  unfold SortedNames at h
  exact h.imp (fun {a b} hab heq => by subst heq; exact absurd hab (by simp [nameLt_irrefl]))

theorem allocOwn_mem (path : Path) : ∀ (cs : List TNode) (q : Path), q ∈ allocOwn path cs →
    ∃ c ∈ cs, q = path ++ [c.name]
  | [], q, h => by simp [allocOwn] at h
  | c :: cs, q, h => by
    simp only [allocOwn, List.mem_append] at h
    rcases h with h | h
    · split at h
      · simp at h
      · simp at h; exact ⟨c, by simp, h⟩
    · obtain ⟨c', hc', hq⟩ := allocOwn_mem path cs q h
      exact ⟨c', by simp [hc'], hq⟩

theorem allocOwn_nodup (path : Path) : ∀ (cs : List TNode), (cs.map TNode.name).Nodup → (allocOwn path cs).Nodup
  | [], _ => by simp [allocOwn]
  | c :: cs, h => by
    simp only [List.map_cons, List.nodup_cons] at h
    simp only [allocOwn]
    refine List.nodup_append.2 ⟨by split <;> simp, allocOwn_nodup path cs h.2, ?_⟩
    intro a ha b hb hab
    subst hab
    split at ha
    · simp at ha
    · simp at ha
      obtain ⟨c', hc', hq⟩ := allocOwn_mem path cs a hb
      rw [ha] at hq
      have := List.append_cancel_left hq
      simp at this
      exact h.1 (List.mem_map.2 ⟨c', hc', this.symm⟩)

end Sqfs.FsTree

namespace Sqfs.FsTree

mutual
theorem allocNode_spec : ∀ (n : TNode) (path : Path), n.AllSorted →
    (allocNode path n).Nodup ∧ ∀ q ∈ allocNode path n, ∃ x rest, q = path ++ x :: rest
  | .mk nm a cs, path, hs => by
    rw [allSorted_mk] at hs
    have hnd : (cs.map TNode.name).Nodup := sortedNames_nodup hs.1
    obtain ⟨s1, s2⟩ := allocSubdirs_spec cs path hs.2 hnd
    simp only [allocNode]
    refine ⟨List.nodup_append.2 ⟨s1, allocOwn_nodup path cs hnd, ?_⟩, ?_⟩
    · intro q hq q' hq' he
      subst he
      obtain ⟨c, _, x, rest, h1⟩ := s2 q hq
      obtain ⟨c', _, h2⟩ := allocOwn_mem path cs q hq'
      rw [h1] at h2
      have := List.append_cancel_left h2
      simp at this
    · intro q hq
      rcases List.mem_append.1 hq with h | h
      · obtain ⟨c, _, x, rest, h1⟩ := s2 q h
        exact ⟨c.name, x :: rest, h1⟩
      · obtain ⟨c', _, h2⟩ := allocOwn_mem path cs q h
        exact ⟨c'.name, [], h2⟩
theorem allocSubdirs_spec : ∀ (cs : List TNode) (path : Path), AllSortedList cs → (cs.map TNode.name).Nodup →
    (allocSubdirs path cs).Nodup ∧
      ∀ q ∈ allocSubdirs path cs, ∃ c ∈ cs, ∃ x rest, q = path ++ c.name :: x :: rest
  | [], path, _, _ => by simp [allocSubdirs]
  | c :: cs, path, hs, hnd => by
    simp only [AllSortedList] at hs
    simp only [List.map_cons, List.nodup_cons] at hnd
    obtain ⟨r1, r2⟩ := allocSubdirs_spec cs path hs.2 hnd.2
    obtain ⟨n1, n2⟩ := allocNode_spec c (path ++ [c.name]) hs.1
    have hfirst : ∀ q ∈ (if c.isDir then allocNode (path ++ [c.name]) c else []), ∃ x rest, q = path ++ c.name :: x :: rest := by
      intro q hq
      split at hq
      · obtain ⟨x, rest, h⟩ := n2 q hq
        exact ⟨x, rest, by rw [h]; simp⟩
      · simp at hq
    simp only [allocSubdirs]
    refine ⟨List.nodup_append.2 ⟨by split <;> simp [n1], r1, ?_⟩, ?_⟩
    · intro q hq q' hq' he
      subst he
      obtain ⟨x, rest, h1⟩ := hfirst q hq
      obtain ⟨c', hc', x', rest', h2⟩ := r2 q hq'
      rw [h1] at h2
      have := List.append_cancel_left h2
      simp at this
      exact hnd.1 (List.mem_map.2 ⟨c', hc', this.1.symm⟩)
    · intro q hq
      rcases List.mem_append.1 hq with h | h
      · obtain ⟨x, rest, h1⟩ := hfirst q h
        exact ⟨c, by simp, x, rest, h1⟩
      · obtain ⟨c', hc', x', rest', h2⟩ := r2 q h
        exact ⟨c', by simp [hc'], x', rest', h2⟩
end

theorem allocOrder_nodup (t : TNode) (h : t.AllSorted) : (allocOrder t).Nodup := by
  unfold allocOrder
  obtain ⟨h1, h2⟩ := allocNode_spec t [] h
  refine List.nodup_append.2 ⟨h1, by simp, ?_⟩
  intro q hq q' hq' he
  subst he
  obtain ⟨x, rest, hx⟩ := h2 q hq
  simp at hq'
  rw [hq'] at hx
  simp at hx

end Sqfs.FsTree
