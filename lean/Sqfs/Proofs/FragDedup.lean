/-
Helper lemmas for the fragment half of C08.

Invariant (`Inv`): every fragment block holds its (ghost) uncompressed `data` in whichever place it currently
lives — for a written block, un-compressing what is on disk gives `data` back (codec round trip); only the last
block can be open; the one-entry cache holds the data of a block that is on disk; every table entry points
inside its block.  Consequently the bytes `chunk_info_equals` compares are the same whether they come from the
in-flight copy, the open block, the cache or the disk (`it_spec`).
-/
import Sqfs.Spec.FragDedup
namespace Sqfs.FragDedup
open Sqfs.Consts

theorem allZero_append (a b : Bytes) : allZero (a ++ b) = (allZero a && allZero b) := by
  simp [allZero, List.all_append]

def BlockOk (codec : Codec) (n i : Nat) (b : FragBlock) : Prop :=
  b.data ≠ [] ∧ (b.place = .opened → i + 1 = n) ∧
  (∀ s, b.place = .written s true → codec.unc s = some b.data) ∧
  (∀ s, b.place = .written s false → s = b.data)

def CacheOk (blocks : List FragBlock) (cache : Option (Nat × Bytes)) : Prop :=
  ∀ k d, cache = some (k, d) → ∃ b, blocks[k]? = some b ∧ d = b.data ∧ b.place ≠ .opened ∧ b.place ≠ .inFlight

def ChunkOk (blocks : List FragBlock) (c : Chunk) : Prop :=
  ∃ b, blocks[c.index]? = some b ∧ 0 < c.size ∧ c.offset + c.size ≤ b.data.length

structure Inv (codec : Codec) (st : State) : Prop where
  blocks : ∀ i b, st.blocks[i]? = some b → BlockOk codec st.blocks.length i b
  cache  : CacheOk st.blocks st.cache
  chunks : ∀ c ∈ st.table, ChunkOk st.blocks c

theorem Inv_init (codec : Codec) : Inv codec {} :=
  ⟨fun i b h => by simp at h, fun k d h => by simp at h, fun c h => by simp at h⟩

/-- table entry `c` holds the bytes `d` (and has the right size and checksum) -/
def Match (st : State) (c : Chunk) (d : Bytes) (hd : UInt32) (kf : Nat) : Prop :=
  c.size = d.length ∧ c.hash = hd ∧ c.flags = kf ∧ ∃ b, st.blocks[c.index]? = some b ∧ slice b.data c.offset c.size = d

/-- Where-ever the block currently lives, the comparison reads its `data`. -/
theorem it_spec (codec : Codec) (st : State) (hinv : Inv codec st) (idx : Nat) (b : FragBlock)
    (hb : st.blocks[idx]? = some b) :
    ∃ cache', fragBytesFor codec st idx = .ok (b.data, cache') ∧ CacheOk st.blocks cache' := by
  have hok := hinv.blocks idx b hb
  unfold fragBytesFor
  rw [hb]
  obtain ⟨data, place, flags⟩ := b
  have hload : ∀ s cmp, place = .written s cmp →
      loadFragBlock.load codec st idx = .ok (data, some (idx, data)) := by
    intro s cmp hp
    subst hp
    unfold loadFragBlock.load
    rw [hb]
    cases cmp with
    | true =>
      simp only []
      rw [hok.2.2.1 s rfl]
      have : data ≠ [] := hok.1
      simp [this]
    | false =>
      simp only []
      rw [hok.2.2.2 s rfl]
  have hnew : ∀ s cmp, place = .written s cmp → CacheOk st.blocks (some (idx, data)) := by
    intro s cmp hp k d hkd
    simp only [Option.some.injEq, Prod.mk.injEq] at hkd
    obtain ⟨rfl, rfl⟩ := hkd
    exact ⟨_, hb, rfl, by simp [hp], by simp [hp]⟩
  cases place with
  | opened => exact ⟨st.cache, rfl, hinv.cache⟩
  | inFlight => exact ⟨st.cache, rfl, hinv.cache⟩
  | written s cmp =>
    simp only []
    unfold loadFragBlock
    cases hc : st.cache with
    | none =>
      simp only []
      exact ⟨_, hload s cmp rfl, hnew s cmp rfl⟩
    | some p =>
      obtain ⟨ci, cd⟩ := p
      simp only []
      by_cases hci : ci = idx
      · rw [if_pos hci]
        obtain ⟨b', hb', hd', _, _⟩ := hinv.cache ci cd hc
        rw [hci, hb] at hb'
        cases hb'
        refine ⟨some (ci, cd), by rw [hd'], ?_⟩
        rw [← hc]; exact hinv.cache
      · rw [if_neg hci]
        exact ⟨_, hload s cmp rfl, hnew s cmp rfl⟩

theorem slice_length_le (f : Bytes) (o n : Nat) : (slice f o n).length ≤ n := by
  simp [slice]; omega

/-- `chunk_info_equals` answers exactly "this entry holds these bytes", never fails, keeps the cache coherent. -/
theorem chunkEquals_spec (codec : Codec) (st : State) (hinv : Inv codec st) (d : Bytes) (hd : UInt32) (kf : Nat)
    (c : Chunk) (hc : ChunkOk st.blocks c) :
    ∃ r cache', chunkEquals codec true st d hd kf c = .ok (r, cache') ∧ (r = true ↔ Match st c d hd kf) ∧
      CacheOk st.blocks cache' := by
  obtain ⟨b, hb, hpos, hle⟩ := hc
  unfold chunkEquals
  by_cases hkey : c.size = d.length ∧ c.hash = hd ∧ c.flags = kf
  · have h1 : (c.size != d.length || c.hash != hd || c.flags != kf) = false := by simp [hkey.1, hkey.2.1, hkey.2.2]
    rw [h1]
    simp only [Bool.false_eq_true, if_false, Bool.not_true]
    obtain ⟨cache', hit, hco⟩ := it_spec codec st hinv c.index b hb
    rw [hit]
    simp only []
    have h2 : (decide (c.offset ≥ b.data.length) || decide (b.data.length - c.offset < c.size)) = false := by
      simp; omega
    rw [h2]
    simp only [Bool.false_eq_true, if_false]
    refine ⟨_, cache', rfl, ?_, hco⟩
    rw [beq_iff_eq]
    constructor
    · intro h; exact ⟨hkey.1, hkey.2.1, hkey.2.2, b, hb, h⟩
    · rintro ⟨_, _, _, b', hb', h⟩
      rw [hb] at hb'; cases hb'; exact h
  · have h1 : (c.size != d.length || c.hash != hd || c.flags != kf) = true := by
      simp only [Bool.or_eq_true, bne_iff_ne]
      by_cases hs : c.size = d.length
      · by_cases hh : c.hash = hd
        · exact Or.inr (fun hf => hkey ⟨hs, hh, hf⟩)
        · exact Or.inl (Or.inr hh)
      · exact Or.inl (Or.inl hs)
    rw [h1]
    simp only [if_true]
    refine ⟨false, st.cache, rfl, ?_, hinv.cache⟩
    constructor
    · intro h; cases h
    · rintro ⟨hs, hh, hf, _⟩; exact absurd ⟨hs, hh, hf⟩ hkey

theorem Inv_setCache {codec st} (hinv : Inv codec st) (cache' : Option (Nat × Bytes))
    (hc : CacheOk st.blocks cache') : Inv codec { st with cache := cache' } :=
  ⟨hinv.blocks, hc, hinv.chunks⟩

theorem Match_setCache (st : State) (cache' : Option (Nat × Bytes)) (c d hd kf) :
    Match { st with cache := cache' } c d hd kf ↔ Match st c d hd kf := Iff.rfl

/-- `hash_table_search`: the first matching entry, or none when no entry matches; never fails. -/
theorem search_spec (codec : Codec) (d : Bytes) (hd : UInt32) (kf : Nat) : ∀ (l : List Chunk) (st : State), Inv codec st →
    (∀ c ∈ l, ChunkOk st.blocks c) →
    ∃ r st', search codec true st d hd kf l = .ok (r, st') ∧ st'.blocks = st.blocks ∧ st'.table = st.table ∧
      Inv codec st' ∧ (∀ c, r = some c → c ∈ l ∧ Match st c d hd kf) ∧ (r = none → ∀ c ∈ l, ¬ Match st c d hd kf) := by
  intro l
  induction l with
  | nil =>
    intro st hinv _
    exact ⟨none, st, rfl, rfl, rfl, hinv, fun c h => (by cases h), fun _ c h => (by cases h)⟩
  | cons c rest ih =>
    intro st hinv hl
    obtain ⟨r, cache', heq, hiff, hco⟩ := chunkEquals_spec codec st hinv d hd kf c (hl c (List.mem_cons_self ..))
    unfold search
    rw [heq]
    cases r with
    | true =>
      simp only []
      refine ⟨some c, _, rfl, rfl, rfl, Inv_setCache hinv cache' hco, ?_, fun h => (by cases h)⟩
      intro c' hc'
      cases hc'
      exact ⟨List.mem_cons_self .., hiff.1 rfl⟩
    | false =>
      simp only []
      obtain ⟨r, st', h1, h2, h3, h4, h5, h6⟩ := ih { st with cache := cache' } (Inv_setCache hinv cache' hco)
        (fun x hx => hl x (List.mem_cons_of_mem _ hx))
      refine ⟨r, st', h1, h2, h3, h4, ?_, ?_⟩
      · intro c' hc'
        obtain ⟨hm, hmt⟩ := h5 c' hc'
        exact ⟨List.mem_cons_of_mem _ hm, hmt⟩
      · intro hr c' hc'
        rcases List.mem_cons.1 hc' with rfl | hm
        · intro hmt; have := hiff.2 hmt; cases this
        · exact h6 hr c' hm

/-- blocks are only ever added, and a block's data only ever grows at its end -/
@[reducible] def Ext (st st' : State) : Prop :=
  ∀ (i : Nat) (b : FragBlock), st.blocks[i]? = some b → ∃ b', st'.blocks[i]? = some b' ∧ b.data <+: b'.data

theorem Ext.refl (st : State) : Ext st st := fun _ b h => ⟨b, h, List.prefix_refl _⟩

theorem Ext.trans {a b c : State} (h1 : Ext a b) (h2 : Ext b c) : Ext a c := by
  intro i x hx
  obtain ⟨y, hy, p1⟩ := h1 i x hx
  obtain ⟨z, hz, p2⟩ := h2 i y hy
  exact ⟨z, hz, List.IsPrefix.trans p1 p2⟩

theorem Ext_of_blocks_eq {a b : State} (h : b.blocks = a.blocks) : Ext a b := by
  intro i x hx; exact ⟨x, by rw [h]; exact hx, List.prefix_refl _⟩

/-- the location `(i, o)` holds the bytes `d` -/
def Valid (st : State) (i o : Nat) (d : Bytes) : Prop :=
  ∃ b, st.blocks[i]? = some b ∧ o + d.length ≤ b.data.length ∧ slice b.data o d.length = d

theorem slice_prefix_of_le (x t : Bytes) (o n : Nat) (h : o + n ≤ x.length) : slice (x ++ t) o n = slice x o n := by
  unfold slice
  rw [List.drop_append_of_le_length (by omega), List.take_append_of_le_length (by simp; omega)]

theorem Valid_ext {st st' : State} {i o : Nat} {d : Bytes} (hv : Valid st i o d) (he : Ext st st') :
    Valid st' i o d := by
  obtain ⟨b, hb, hle, hs⟩ := hv
  obtain ⟨b', hb', ⟨t, ht⟩⟩ := he i b hb
  refine ⟨b', hb', ?_, ?_⟩
  · rw [← ht]; simp; omega
  · rw [← ht, slice_prefix_of_le _ _ _ _ hle]; exact hs

theorem ChunkOk_ext {st st' : State} {c : Chunk} (h : ChunkOk st.blocks c) (he : Ext st st') :
    ChunkOk st'.blocks c := by
  obtain ⟨b, hb, hpos, hle⟩ := h
  obtain ⟨b', hb', ⟨t, ht⟩⟩ := he c.index b hb
  refine ⟨b', hb', hpos, ?_⟩
  rw [← ht]; simp; omega

theorem getElem?_modify_self {α} (l : List α) (i : Nat) (f : α → α) (a : α) (h : l[i]? = some a) :
    (l.modify i f)[i]? = some (f a) := by
  rw [List.getElem?_modify, h]; simp

theorem getElem?_modify_ne {α} (l : List α) (i j : Nat) (f : α → α) (h : i ≠ j) :
    (l.modify i f)[j]? = l[j]? := by
  rw [List.getElem?_modify]
  cases l[j]? <;> simp [h]

/-- changing only the place of a block that is open or in flight keeps the invariant, provided the block is fine
in its new place -/
theorem Inv_setPlace (codec : Codec) (st : State) (i : Nat) (b : FragBlock) (p : Place) (hinv : Inv codec st)
    (hb : st.blocks[i]? = some b) (hold : b.place = .opened ∨ b.place = .inFlight)
    (hnew : BlockOk codec st.blocks.length i { b with place := p }) :
    Inv codec { st with blocks := (st.blocks.modify i (fun b => { b with place := p })) } := by
  refine ⟨?_, ?_, ?_⟩
  · intro j b' hb'
    simp only [List.length_modify]
    by_cases hij : i = j
    · subst hij
      rw [getElem?_modify_self _ _ _ _ hb] at hb'
      cases hb'; exact hnew
    · rw [getElem?_modify_ne _ _ _ _ hij] at hb'
      exact hinv.blocks j b' hb'
  · intro k d hkd
    obtain ⟨b', hb', hd', h1, h2⟩ := hinv.cache k d hkd
    have hik : i ≠ k := by
      intro he; subst he
      rw [hb] at hb'; cases hb'
      rcases hold with h | h
      · exact h1 h
      · exact h2 h
    exact ⟨b', by simp only []; rw [getElem?_modify_ne _ _ _ _ hik]; exact hb', hd', h1, h2⟩
  · intro c hc
    obtain ⟨b', hb', hpos, hle⟩ := hinv.chunks c hc
    by_cases hic : i = c.index
    · rw [← hic, hb] at hb'; cases hb'
      exact ⟨{ b with place := p }, by simp only []; rw [← hic]; exact getElem?_modify_self _ _ _ _ hb, hpos, hle⟩
    · exact ⟨b', by simp only []; rw [getElem?_modify_ne _ _ _ _ hic]; exact hb', hpos, hle⟩

theorem Ext_setPlace (st : State) (i : Nat) (p : Place) :
    Ext st { st with blocks := (st.blocks.modify i (fun b => { b with place := p })) } := by
  intro j b hb
  by_cases hij : i = j
  · subst hij
    exact ⟨_, getElem?_modify_self _ _ _ _ hb, List.prefix_refl _⟩
  · exact ⟨b, by simp only []; rw [getElem?_modify_ne _ _ _ _ hij]; exact hb, List.prefix_refl _⟩


theorem openIndex_some {st : State} {i : Nat} (h : openIndex st = some i) :
    ∃ b, st.blocks[i]? = some b ∧ b.place = .opened ∧ i + 1 = st.blocks.length := by
  unfold openIndex at h
  rw [List.getLast?_eq_getElem?] at h
  cases hb : st.blocks[st.blocks.length - 1]? with
  | none => rw [hb] at h; cases h
  | some b =>
    rw [hb] at h
    simp only [] at h
    split at h
    · rename_i hp
      cases h
      have : st.blocks.length - 1 < st.blocks.length := by
        have := (List.getElem?_eq_some_iff.1 hb).1
        exact this
      exact ⟨b, hb, hp, by omega⟩
    · cases h

theorem openIndex_none {codec : Codec} {st : State} (hinv : Inv codec st) (h : openIndex st = none) :
    ∀ (i : Nat) (b : FragBlock), st.blocks[i]? = some b → b.place ≠ .opened := by
  intro i b hb hp
  have hlast := (hinv.blocks i b hb).2.1 hp
  unfold openIndex at h
  rw [List.getLast?_eq_getElem?] at h
  have : st.blocks.length - 1 = i := by omega
  rw [this, hb] at h
  simp [hp] at h

/-- `enqueue_block(proc, proc->frag_block)` -/
theorem closeOpen_spec (codec : Codec) (st : State) (hinv : Inv codec st) :
    Inv codec (closeOpen st) ∧ Ext st (closeOpen st) ∧ (closeOpen st).table = st.table ∧
      openIndex (closeOpen st) = none ∧ (closeOpen st).blocks.length = st.blocks.length := by
  unfold closeOpen
  cases ho : openIndex st with
  | none => exact ⟨hinv, Ext.refl st, rfl, ho, rfl⟩
  | some i =>
    simp only []
    obtain ⟨b, hb, hp, hlen⟩ := openIndex_some ho
    have hok := hinv.blocks i b hb
    refine ⟨Inv_setPlace codec st i b .inFlight hinv hb (Or.inl hp) ?_, Ext_setPlace st i .inFlight, trivial, ?_,
      by simp⟩
    · exact ⟨hok.1, fun h => (by cases h), fun s h => (by cases h), fun s h => (by cases h)⟩
    · unfold openIndex
      rw [List.getLast?_eq_getElem?]
      simp only [List.length_modify]
      have : st.blocks.length - 1 = i := by omega
      rw [this, getElem?_modify_self _ _ _ _ hb]
      simp

theorem overflow_spec (codec : Codec) (maxBlock : Nat) (st : State) (d : Bytes) (hinv : Inv codec st) :
    Inv codec (overflow maxBlock st d) ∧ Ext st (overflow maxBlock st d) ∧
      (overflow maxBlock st d).table = st.table := by
  unfold overflow
  cases openIndex st with
  | none => exact ⟨hinv, Ext.refl st, rfl⟩
  | some i =>
    simp only []
    cases st.blocks[i]? with
    | none => exact ⟨hinv, Ext.refl st, rfl⟩
    | some b =>
      simp only []
      split
      · have := closeOpen_spec codec st hinv
        exact ⟨this.1, this.2.1, this.2.2.1⟩
      · exact ⟨hinv, Ext.refl st, rfl⟩


theorem slice_append_right (x d : Bytes) : slice (x ++ d) x.length d.length = d := by
  simp [slice]

/-- storing the fragment: new open block, or appended to the open block -/
theorem place_spec (codec : Codec) (st : State) (d : Bytes) (flags : Nat) (hinv : Inv codec st)
    (hz : d ≠ []) :
    Inv codec (place st d flags).2.2 ∧ Ext st (place st d flags).2.2 ∧ (place st d flags).2.2.table = st.table ∧
      Valid (place st d flags).2.2 (place st d flags).1 (place st d flags).2.1 d := by
  unfold place
  cases ho : openIndex st with
  | none =>
    simp only []
    have hno := openIndex_none hinv ho
    let nb : FragBlock := ⟨d, .opened, blkFragmentBlock ||| (flags &&& blkDontCompress)⟩
    have hext : Ext st { st with blocks := st.blocks ++ [nb] } := by
      intro i b hb
      have hi : i < st.blocks.length := (List.getElem?_eq_some_iff.1 hb).1
      exact ⟨b, by simp only []; rw [List.getElem?_append_left hi]; exact hb, List.prefix_refl _⟩
    refine ⟨⟨?_, ?_, ?_⟩, hext, trivial, ?_⟩
    · intro i b hb
      simp only [List.length_append, List.length_singleton] at hb ⊢
      by_cases hi : i < st.blocks.length
      · rw [List.getElem?_append_left hi] at hb
        have hok := hinv.blocks i b hb
        exact ⟨hok.1, fun hp => absurd hp (hno i b hb), hok.2.2.1, hok.2.2.2⟩
      · rw [List.getElem?_append_right (by omega)] at hb
        have hi0 : i - st.blocks.length = 0 := by
          by_cases h0 : i - st.blocks.length = 0
          · exact h0
          · rw [List.getElem?_eq_none (by simp; omega)] at hb; cases hb
        rw [hi0] at hb
        simp only [List.getElem?_cons_zero, Option.some.injEq] at hb
        subst hb
        exact ⟨hz, fun _ => by omega, fun s h => (by cases h), fun s h => (by cases h)⟩
    · intro k dd hkd
      obtain ⟨b, hb, h1, h2, h3⟩ := hinv.cache k dd hkd
      obtain ⟨b', hb', _⟩ := hext k b hb
      have hi : k < st.blocks.length := (List.getElem?_eq_some_iff.1 hb).1
      exact ⟨b, by simp only []; rw [List.getElem?_append_left hi]; exact hb, h1, h2, h3⟩
    · intro c hc
      exact ChunkOk_ext (hinv.chunks c hc) hext
    · refine ⟨nb, ?_, by simp [nb], by simp [nb, slice]⟩
      simp only []
      rw [List.getElem?_append_right (Nat.le_refl _)]
      simp [nb]
  | some i =>
    simp only []
    obtain ⟨b, hb, hp, hlen⟩ := openIndex_some ho
    have hok := hinv.blocks i b hb
    let f : FragBlock → FragBlock :=
      fun b => { b with data := b.data ++ d, flags := b.flags ||| (flags &&& blkDontCompress) }
    have hext : Ext st { st with blocks := (st.blocks.modify i f) } := by
      intro j b' hb'
      by_cases hij : i = j
      · subst hij
        rw [hb] at hb'; cases hb'
        exact ⟨f b, getElem?_modify_self _ _ _ _ hb, List.prefix_append _ _⟩
      · exact ⟨b', by simp only []; rw [getElem?_modify_ne _ _ _ _ hij]; exact hb', List.prefix_refl _⟩
    refine ⟨⟨?_, ?_, ?_⟩, hext, trivial, ?_⟩
    · intro j b' hb'
      simp only [List.length_modify] at hb' ⊢
      by_cases hij : i = j
      · subst hij
        rw [getElem?_modify_self _ _ _ _ hb] at hb'
        cases hb'
        refine ⟨?_, fun _ => hlen, ?_, ?_⟩
        · show b.data ++ d ≠ []
          intro he; exact hok.1 (List.append_eq_nil_iff.1 he).1
        · intro s h; change b.place = _ at h; rw [hp] at h; cases h
        · intro s h; change b.place = _ at h; rw [hp] at h; cases h
      · rw [getElem?_modify_ne _ _ _ _ hij] at hb'
        exact hinv.blocks j b' hb'
    · intro k dd hkd
      obtain ⟨b', hb', h1, h2, h3⟩ := hinv.cache k dd hkd
      have hik : i ≠ k := by
        intro he; subst he
        rw [hb] at hb'; cases hb'; exact h2 hp
      exact ⟨b', by simp only []; rw [getElem?_modify_ne _ _ _ _ hik]; exact hb', h1, h2, h3⟩
    · intro c hc
      exact ChunkOk_ext (hinv.chunks c hc) hext
    · refine ⟨f b, getElem?_modify_self _ _ _ _ hb, ?_, ?_⟩
      · simp [hb, f]
      · simp only [hb, Option.map_some, Option.getD_some]
        exact slice_append_right b.data d


/-- `hash_table_insert`: the new entry is in the table afterwards; entries are only dropped when they hold the
same bytes as the new one; never fails. -/
theorem insert_spec (codec : Codec) (d : Bytes) (hd : UInt32) (new : Chunk) : ∀ (l done : List Chunk) (st : State),
    Inv codec st → (∀ c ∈ done ++ l, ChunkOk st.blocks c) → ChunkOk st.blocks new →
    ∃ st', insert codec true st d hd new done l = .ok st' ∧ st'.blocks = st.blocks ∧ Inv codec st' ∧
      new ∈ st'.table ∧ (∀ c ∈ st'.table, c = new ∨ c ∈ done ++ l) ∧
      (∀ c ∈ done ++ l, c ∈ st'.table ∨ Match st c d hd new.flags) := by
  intro l
  induction l with
  | nil =>
    intro done st hinv hall hnew
    refine ⟨{ st with table := done ++ [new] }, rfl, rfl, ⟨hinv.blocks, hinv.cache, ?_⟩, by simp, ?_, ?_⟩
    · intro c hc
      rcases List.mem_append.1 hc with h | h
      · exact hall c (by simpa using h)
      · simp at h; subst h; exact hnew
    · intro c hc
      rcases List.mem_append.1 hc with h | h
      · exact Or.inr (by simpa using h)
      · simp at h; exact Or.inl h
    · intro c hc
      exact Or.inl (List.mem_append_left _ (by simpa using hc))
  | cons c rest ih =>
    intro done st hinv hall hnew
    obtain ⟨r, cache', heq, hiff, hco⟩ :=
      chunkEquals_spec codec st hinv d hd new.flags c (hall c (by simp))
    unfold insert
    rw [heq]
    cases r with
    | true =>
      simp only []
      refine ⟨_, rfl, rfl, ⟨hinv.blocks, hco, ?_⟩, by simp, ?_, ?_⟩
      · intro x hx
        simp only [List.mem_append, List.mem_cons] at hx
        rcases hx with h | h | h
        · exact hall x (by simp [h])
        · subst h; exact hnew
        · exact hall x (by simp [h])
      · intro x hx
        simp only [List.mem_append, List.mem_cons] at hx ⊢
        rcases hx with h | h | h
        · exact Or.inr (Or.inl h)
        · exact Or.inl h
        · exact Or.inr (Or.inr (Or.inr h))
      · intro x hx
        simp only [List.mem_append, List.mem_cons] at hx ⊢
        rcases hx with h | h | h
        · exact Or.inl (Or.inl h)
        · subst h; exact Or.inr (hiff.1 rfl)
        · exact Or.inl (Or.inr (Or.inr h))
    | false =>
      simp only []
      obtain ⟨st', h1, h2, h3, h4, h5, h6⟩ := ih (done ++ [c]) { st with cache := cache' }
        (Inv_setCache hinv cache' hco) (by intro x hx; exact hall x (by simpa using hx)) hnew
      refine ⟨st', h1, h2, h3, h4, ?_, ?_⟩
      · intro x hx
        rcases h5 x hx with h | h
        · exact Or.inl h
        · exact Or.inr (by simpa using h)
      · intro x hx
        exact h6 x (by simpa using hx)

theorem storeFragment_spec (codec : Codec) (maxBlock : Nat) (st : State) (d : Bytes) (hd : UInt32) (flags : Nat)
    (hinv : Inv codec st) (hz : d ≠ []) :
    ∃ i o st', storeFragment codec true maxBlock st d hd flags = .ok (.loc i o, st') ∧ Inv codec st' ∧ Ext st st' ∧
      Valid st' i o d ∧ (⟨i, o, d.length, hd, flags &&& blkDontCompress⟩ : Chunk) ∈ st'.table ∧
      (∀ c ∈ st.table, c ∈ st'.table ∨ Match st' c d hd (flags &&& blkDontCompress)) := by
  obtain ⟨hi1, he1, ht1⟩ := overflow_spec codec maxBlock st d hinv
  obtain ⟨hi2, he2, ht2, hv⟩ := place_spec codec (overflow maxBlock st d) d flags hi1 hz
  unfold storeFragment
  simp only []
  generalize place (overflow maxBlock st d) d flags = r at *
  obtain ⟨i, o, st3⟩ := r
  simp only [] at hi2 he2 ht2 hv ⊢
  have hnew : ChunkOk st3.blocks ⟨i, o, d.length, hd, flags &&& blkDontCompress⟩ := by
    obtain ⟨b, hb, hle, _⟩ := hv
    exact ⟨b, hb, by simp; exact List.length_pos_iff.2 hz, hle⟩
  obtain ⟨st4, h1, h2, h3, h4, h5, h6⟩ := insert_spec codec d hd ⟨i, o, d.length, hd, flags &&& blkDontCompress⟩ st3.table [] st3 hi2
    (by intro c hc; exact hi2.chunks c (by simpa using hc)) hnew
  rw [h1]
  have he34 : Ext st3 st4 := Ext_of_blocks_eq h2
  refine ⟨i, o, st4, rfl, h3, Ext.trans (Ext.trans he1 he2) he34, Valid_ext hv he34, h4, ?_⟩
  intro c hc
  rw [← ht1, ← ht2] at hc
  rcases h6 c (by simpa using hc) with h | h
  · exact Or.inl h
  · refine Or.inr ?_
    obtain ⟨a1, a2, a4, b, hb, a3⟩ := h
    exact ⟨a1, a2, a4, b, by rw [h2]; exact hb, a3⟩


theorem Match_ext {st st' : State} {c : Chunk} {d : Bytes} {hd : UInt32} {kf : Nat} (hc : ChunkOk st.blocks c)
    (hm : Match st c d hd kf) (he : Ext st st') : Match st' c d hd kf := by
  obtain ⟨h1, h2, h3, b, hb, hs⟩ := hm
  obtain ⟨b0, hb0, _, hle⟩ := hc
  rw [hb] at hb0; cases hb0
  obtain ⟨b', hb', ⟨t, ht⟩⟩ := he c.index b hb
  refine ⟨h1, h2, h3, b', hb', ?_⟩
  rw [← ht, slice_prefix_of_le _ _ _ _ hle]; exact hs

/-- every fragment stored so far can still be found: some table entry holds its bytes under its key -/
def SeenInv (st : State) (seen : List (Bytes × UInt32 × Nat)) : Prop :=
  ∀ p ∈ seen, ∃ c ∈ st.table, Match st c p.1 p.2.1 p.2.2

theorem processFragment_spec (codec : Codec) (h : Bytes → UInt32) (maxBlock : Nat) (st : State) (d : Bytes)
    (flags : Nat) (seen : List (Bytes × UInt32 × Nat)) (hinv : Inv codec st) (hok : fragOk d flags)
    (hseen : SeenInv st seen) :
    ∃ r st', processFragment codec h true maxBlock st d flags = .ok (r, st') ∧ Inv codec st' ∧ Ext st st' ∧
      (∀ i o, r = .loc i o → Valid st' i o d) ∧
      (r = .sparse ↔ isSparse d flags = true) ∧
      SeenInv st' (if isSparse d flags then seen else (d, fragHash h d flags, flags &&& blkDontCompress) :: seen) ∧
      (isSparse d flags = false → hasFlag flags blkDontDeduplicate = false →
        (d, fragHash h d flags, flags &&& blkDontCompress) ∈ seen → st'.blocks = st.blocks) := by
  unfold processFragment
  by_cases hsp : isSparse d flags = true
  · have hsp' : (!hasFlag flags blkIgnoreSparse && allZero d) = true := hsp
    rw [if_pos hsp']
    refine ⟨.sparse, st, rfl, hinv, Ext.refl st, fun i o hh => (by cases hh), (by simp [hsp]),
      (by simp only [hsp, if_true]; exact hseen), fun hh => (by rw [hsp] at hh; cases hh)⟩
  · have hsp' : ¬ (!hasFlag flags blkIgnoreSparse && allZero d) = true := hsp
    rw [if_neg hsp']
    have hspf : isSparse d flags = false := by simpa using hsp
    have hz : d ≠ [] := hok
    generalize fragHash h d flags = hd at *
    generalize hkf : flags &&& blkDontCompress = kf at *
    -- the lookup
    have hfind : ∃ r st1, findShared codec true st d hd flags = .ok (r, st1) ∧ st1.blocks = st.blocks ∧
        st1.table = st.table ∧ Inv codec st1 ∧ (∀ c, r = some c → c ∈ st.table ∧ Match st c d hd kf) ∧
        (hasFlag flags blkDontDeduplicate = false → r = none → ∀ c ∈ st.table, ¬ Match st c d hd kf) := by
      unfold findShared
      by_cases hdd : hasFlag flags blkDontDeduplicate = true
      · rw [if_pos hdd]
        exact ⟨none, st, rfl, rfl, rfl, hinv, fun c hc => (by cases hc), fun hf => (by rw [hdd] at hf; cases hf)⟩
      · rw [if_neg hdd, hkf]
        obtain ⟨r, st1, a1, a2, a3, a4, a5, a6⟩ := search_spec codec d hd kf st.table st hinv hinv.chunks
        exact ⟨r, st1, a1, a2, a3, a4, a5, fun _ => a6⟩
    obtain ⟨r, st1, hf, hb1, ht1, hinv1, hfound, hnone⟩ := hfind
    rw [hf]
    have hseen1 : SeenInv st1 seen := by
      intro p hp
      obtain ⟨c, hc, a1, a2, a4, b, hb, a3⟩ := hseen p hp
      exact ⟨c, by rw [ht1]; exact hc, a1, a2, a4, b, by rw [hb1]; exact hb, a3⟩
    cases r with
    | some c =>
      simp only []
      obtain ⟨hcm, hm⟩ := hfound c rfl
      have hm1 : Match st1 c d hd kf := by
        obtain ⟨a1, a2, a4, b, hb, a3⟩ := hm
        exact ⟨a1, a2, a4, b, by rw [hb1]; exact hb, a3⟩
      refine ⟨.loc c.index c.offset, st1, rfl, hinv1, Ext_of_blocks_eq hb1, ?_, (by simp [hspf]), ?_, fun _ _ _ => hb1⟩
      · intro i o hio
        cases hio
        obtain ⟨b0, hb0, _, hle⟩ := hinv.chunks c hcm
        obtain ⟨a1, a2, a4, b, hb, a3⟩ := hm
        have hle' : c.offset + c.size ≤ b.data.length := by rw [hb] at hb0; cases hb0; exact hle
        exact ⟨b, (by rw [hb1]; exact hb), (by rw [← a1]; exact hle'), (by rw [← a1]; exact a3)⟩
      · simp only [hspf, Bool.false_eq_true, if_false]
        intro p hp
        rcases List.mem_cons.1 hp with rfl | hp
        · exact ⟨c, by rw [ht1]; exact hcm, hm1⟩
        · exact hseen1 p hp
    | none =>
      simp only []
      obtain ⟨i, o, st', hs, hinv', hext, hval, hin, hkeep⟩ :=
        storeFragment_spec codec maxBlock st1 d hd flags hinv1 hz
      rw [hkf] at hin hkeep
      rw [hs]
      refine ⟨.loc i o, st', rfl, hinv', Ext.trans (Ext_of_blocks_eq hb1) hext, ?_, (by simp [hspf]), ?_, ?_⟩
      · intro i' o' hio; cases hio; exact hval
      · simp only [hspf, Bool.false_eq_true, if_false]
        have hnewm : Match st' ⟨i, o, d.length, hd, kf⟩ d hd kf := by
          obtain ⟨b, hb, _, hsl⟩ := hval
          exact ⟨rfl, rfl, rfl, b, hb, hsl⟩
        intro p hp
        rcases List.mem_cons.1 hp with rfl | hp
        · exact ⟨_, hin, hnewm⟩
        · obtain ⟨c, hc, hm⟩ := hseen1 p hp
          have hm' : Match st' c p.1 p.2.1 p.2.2 := Match_ext (hinv1.chunks c hc) hm hext
          rcases hkeep c hc with hk | hk
          · exact ⟨c, hk, hm'⟩
          · -- `c` was replaced by the new entry: it held the same bytes under the same key
            obtain ⟨a1, a2, a4, b, hb, a3⟩ := hm'
            obtain ⟨e1, e2, e4, b2, hb2, e3⟩ := hk
            rw [hb] at hb2; cases hb2
            have hpd : p.1 = d := by rw [← a3, ← e3]
            have hph : p.2.1 = hd := by rw [← a2, ← e2]
            have hpf : p.2.2 = kf := by rw [← a4, ← e4]
            exact ⟨_, hin, by rw [hpd, hph, hpf]; exact hnewm⟩
      · intro _ hdd hmem
        exfalso
        obtain ⟨c, hc, hm⟩ := hseen (d, hd, kf) hmem
        exact hnone hdd rfl c hc hm

theorem SeenInv_ext {codec : Codec} {st st' : State} {seen : List (Bytes × UInt32 × Nat)} (hinv : Inv codec st)
    (hs : SeenInv st seen) (he : Ext st st') (ht : st'.table = st.table) : SeenInv st' seen := by
  intro p hp
  obtain ⟨c, hc, hm⟩ := hs p hp
  exact ⟨c, by rw [ht]; exact hc, Match_ext (hinv.chunks c hc) hm he⟩

/-- `process_completed_block` of a fragment block: fails only when the script is impossible -/
theorem blockWritten_spec (codec : Codec) (hrt : codec.RoundTrip) (st : State) (idx : Nat) (hinv : Inv codec st) :
    (∃ st', blockWritten codec st idx = .ok st' ∧ Inv codec st' ∧ Ext st st' ∧ st'.table = st.table) ∨
    blockWritten codec st idx = .error .badEvent := by
  unfold blockWritten
  cases hb : st.blocks[idx]? with
  | none => exact Or.inr rfl
  | some b =>
    obtain ⟨data, place, fl⟩ := b
    cases place with
    | opened => exact Or.inr rfl
    | written s c => exact Or.inr rfl
    | inFlight =>
      left
      simp only []
      have hok := hinv.blocks idx _ hb
      refine ⟨_, rfl, ?_, Ext_setPlace st idx _, rfl⟩
      apply Inv_setPlace codec st idx _ _ hinv hb (Or.inr rfl)
      refine ⟨hok.1, ?_, ?_, ?_⟩
      · intro hp
        simp only [] at hp
        split at hp
        · cases hp
        · split at hp <;> cases hp
      · intro s hp
        simp only [] at hp
        split at hp
        · cases hp
        · split at hp
          · rename_i c hc
            injection hp with hp1 hp2
            subst hp1
            exact hrt data _ hc
          · cases hp
      · intro s hp
        simp only [] at hp
        split at hp
        · cases hp; rfl
        · split at hp
          · cases hp
          · cases hp; rfl

/-- every answer of the run is right with respect to state `st` -/
def ResAll (st : State) : List Ev → List (Option Res) → Prop
  | [], [] => True
  | .frag d _ :: es, some (.loc i o) :: rs => Valid st i o d ∧ ResAll st es rs
  | .frag d fl :: es, some .sparse :: rs => isSparse d fl = true ∧ ResAll st es rs
  | .written _ :: es, none :: rs => ResAll st es rs
  | .finish :: es, none :: rs => ResAll st es rs
  | _, _ => False

theorem ResAll_ext {st st' : State} (he : Ext st st') : ∀ (evs : List Ev) (rs : List (Option Res)),
    ResAll st evs rs → ResAll st' evs rs := by
  intro evs
  induction evs with
  | nil => intro rs h; cases rs <;> simp [ResAll] at h ⊢
  | cons e es ih =>
    intro rs h
    cases rs with
    | nil => cases e <;> simp [ResAll] at h
    | cons r rs =>
      cases e with
      | frag d fl =>
        cases r with
        | none => simp [ResAll] at h
        | some r =>
          cases r with
          | sparse => exact ⟨h.1, ih rs h.2⟩
          | loc i o => exact ⟨Valid_ext h.1 he, ih rs h.2⟩
      | written idx =>
        cases r with
        | none => exact ih rs h
        | some r => simp [ResAll] at h
      | finish =>
        cases r with
        | none => exact ih rs h
        | some r => simp [ResAll] at h

theorem run_spec (codec : Codec) (hrt : codec.RoundTrip) (h : Bytes → UInt32) (maxBlock : Nat) :
    ∀ (evs : List Ev) (st : State) (seen : List (Bytes × UInt32 × Nat)), Inv codec st → SeenInv st seen → evsOk evs →
    (∃ rs st', run codec h true maxBlock st evs = .ok (rs, st') ∧ Inv codec st' ∧ Ext st st' ∧
        SeenInv st' (seenOf h evs ++ seen) ∧ ResAll st' evs rs) ∨
    run codec h true maxBlock st evs = .error .badEvent := by
  intro evs
  induction evs with
  | nil =>
    intro st seen hinv hseen _
    exact Or.inl ⟨[], st, rfl, hinv, Ext.refl st, by simpa [seenOf] using hseen, trivial⟩
  | cons e es ih =>
    intro st seen hinv hseen hok
    have hoke : e.ok := hok e (List.mem_cons_self ..)
    have hokes : evsOk es := fun x hx => hok x (List.mem_cons_of_mem _ hx)
    unfold run
    cases e with
    | frag d fl =>
      obtain ⟨r, st1, hpf, hinv1, hext1, hval, hsp, hseen1, _⟩ :=
        processFragment_spec codec h maxBlock st d fl seen hinv hoke hseen
      simp only [step, hpf]
      rcases ih st1 _ hinv1 hseen1 hokes with ⟨rs, st', hr, hinv', hext', hseen', hres⟩ | herr
      · left
        rw [hr]
        refine ⟨some r :: rs, st', rfl, hinv', Ext.trans hext1 hext', ?_, ?_⟩
        · have : seenOf h (Ev.frag d fl :: es) ++ seen
              = seenOf h es ++ (if isSparse d fl = true then seen
                  else (d, fragHash h d fl, fl &&& blkDontCompress) :: seen) := by
            simp only [seenOf]
            split <;> simp
          rw [this]; exact hseen'
        · cases r with
          | sparse => exact ⟨hsp.1 rfl, hres⟩
          | loc i o => exact ⟨Valid_ext (hval i o rfl) hext', hres⟩
      · right; rw [herr]
    | written idx =>
      rcases blockWritten_spec codec hrt st idx hinv with ⟨st1, hbw, hinv1, hext1, ht1⟩ | herr
      · simp only [step, hbw]
        rcases ih st1 seen hinv1 (SeenInv_ext hinv hseen hext1 ht1) hokes with
          ⟨rs, st', hr, hinv', hext', hseen', hres⟩ | herr
        · left
          rw [hr]
          exact ⟨none :: rs, st', rfl, hinv', Ext.trans hext1 hext', by simpa [seenOf] using hseen', hres⟩
        · right; rw [herr]
      · right; simp only [step, herr]
    | finish =>
      obtain ⟨hinv1, hext1, ht1, _, _⟩ := closeOpen_spec codec st hinv
      simp only [step]
      rcases ih (closeOpen st) seen hinv1 (SeenInv_ext hinv hseen hext1 ht1) hokes with
        ⟨rs, st', hr, hinv', hext', hseen', hres⟩ | herr
      · left
        rw [hr]
        exact ⟨none :: rs, st', rfl, hinv', Ext.trans hext1 hext', by simpa [seenOf] using hseen', hres⟩
      · right; rw [herr]

/-- a reader of the finished image gets the block's data, wherever the block is -/
theorem readBlock_spec (codec : Codec) (st : State) (hinv : Inv codec st) (i : Nat) (b : FragBlock)
    (hb : st.blocks[i]? = some b) : readBlock codec st i = some b.data := by
  have hok := hinv.blocks i b hb
  unfold readBlock
  rw [hb]
  obtain ⟨data, place, fl⟩ := b
  cases place with
  | opened => rfl
  | inFlight => rfl
  | written s c =>
    cases c with
    | true => exact hok.2.2.1 s rfl
    | false => simp only []; rw [hok.2.2.2 s rfl]

theorem fragSound_of_ResAll (codec : Codec) (st : State) (hinv : Inv codec st) :
    ∀ (evs : List Ev) (rs : List (Option Res)), ResAll st evs rs → fragSoundOk codec st evs rs = true := by
  intro evs
  induction evs with
  | nil => intro rs h; cases rs <;> simp [ResAll] at h ⊢; rfl
  | cons e es ih =>
    intro rs h
    cases rs with
    | nil => cases e <;> simp [ResAll] at h
    | cons r rs =>
      cases e with
      | frag d fl =>
        cases r with
        | none => simp [ResAll] at h
        | some r =>
          cases r with
          | sparse =>
            simp only [fragSoundOk, Bool.and_eq_true]
            exact ⟨h.1, ih rs h.2⟩
          | loc i o =>
            obtain ⟨⟨b, hb, _, hs⟩, h2⟩ := h
            simp only [fragSoundOk, Bool.and_eq_true]
            rw [readBlock_spec codec st hinv i b hb]
            exact ⟨by simp [hs], ih rs h2⟩
      | written idx =>
        cases r with
        | none => exact ih rs h
        | some r => simp [ResAll] at h
      | finish =>
        cases r with
        | none => exact ih rs h
        | some r => simp [ResAll] at h

/-! ### the probe order of the hash table is immaterial -/

/-- two table entries that would answer the same lookups: same size, checksum and `DONT_COMPRESS` flag, same bytes -/
def SameKey (blocks : List FragBlock) (a b : Chunk) : Prop :=
  a.size = b.size ∧ a.hash = b.hash ∧ a.flags = b.flags ∧
    ∃ ba bb, blocks[a.index]? = some ba ∧ blocks[b.index]? = some bb ∧
      slice ba.data a.offset a.size = slice bb.data b.offset b.size

/-- no two entries of the fragment table hold the same bytes under the same key -/
def Uniq (st : State) : Prop := st.table.Pairwise (fun a b => ¬ SameKey st.blocks a b)

theorem SameKey_symm {blocks a b} (h : SameKey blocks a b) : SameKey blocks b a := by
  obtain ⟨h1, h2, h6, ba, bb, h3, h4, h5⟩ := h
  exact ⟨h1.symm, h2.symm, h6.symm, bb, ba, h4, h3, h5.symm⟩

theorem SameKey_of_Match {st : State} {a b : Chunk} {d : Bytes} {hd : UInt32} {kf : Nat} (ha : Match st a d hd kf)
    (hb : Match st b d hd kf) : SameKey st.blocks a b := by
  obtain ⟨a1, a2, a5, ba, a3, a4⟩ := ha
  obtain ⟨b1, b2, b5, bb, b3, b4⟩ := hb
  exact ⟨by rw [a1, b1], by rw [a2, b2], by rw [a5, b5], ba, bb, a3, b3, by rw [a4, b4]⟩

theorem Match_of_SameKey {st : State} {a b : Chunk} {d : Bytes} {hd : UInt32} {kf : Nat}
    (h : SameKey st.blocks a b) (ha : Match st a d hd kf) : Match st b d hd kf := by
  obtain ⟨h1, h2, h6, ba, bb, h3, h4, h5⟩ := h
  obtain ⟨a1, a2, a5, ba', a3, a4⟩ := ha
  rw [h3] at a3; cases a3
  exact ⟨by rw [← h1, a1], by rw [← h2, a2], by rw [← h6, a5], bb, h4, by rw [← h5, a4]⟩

theorem pairwise_unique {α} {R : α → α → Prop} (hsym : ∀ a b, R a b → R b a) :
    ∀ (l : List α), l.Pairwise R → ∀ a ∈ l, ∀ b ∈ l, ¬ R a b → a = b := by
  intro l
  induction l with
  | nil => intro _ a ha; cases ha
  | cons x t ih =>
    intro hp a ha b hb hn
    rw [List.pairwise_cons] at hp
    rcases List.mem_cons.1 ha with rfl | ha'
    · rcases List.mem_cons.1 hb with rfl | hb'
      · rfl
      · exact absurd (hp.1 b hb') hn
    · rcases List.mem_cons.1 hb with rfl | hb'
      · exact absurd (hsym _ _ (hp.1 a ha')) hn
      · exact ih hp.2 a ha' b hb' hn

/-- at most one table entry can match a fragment -/
theorem match_unique {st : State} (hu : Uniq st) {a b : Chunk} (ha : a ∈ st.table) (hb : b ∈ st.table) {d : Bytes}
    {hd : UInt32} {kf : Nat} (hma : Match st a d hd kf) (hmb : Match st b d hd kf) : a = b := by
  apply pairwise_unique (R := fun a b => ¬ SameKey st.blocks a b) ?_ st.table hu a ha b hb
  · intro hn; exact hn (SameKey_of_Match hma hmb)
  · intro x y hxy hyx; exact hxy (SameKey_symm hyx)

/-- `SameKey` of valid entries does not change when blocks are added or grow at the end -/
theorem SameKey_ext {st st' : State} {a b : Chunk} (ha : ChunkOk st.blocks a) (hb : ChunkOk st.blocks b)
    (he : Ext st st') : SameKey st'.blocks a b ↔ SameKey st.blocks a b := by
  obtain ⟨ba, hba, _, hla⟩ := ha
  obtain ⟨bb, hbb, _, hlb⟩ := hb
  obtain ⟨ba', hba', ⟨ta, hta⟩⟩ := he a.index ba hba
  obtain ⟨bb', hbb', ⟨tb, htb⟩⟩ := he b.index bb hbb
  have ea : slice ba'.data a.offset a.size = slice ba.data a.offset a.size := by
    rw [← hta, slice_prefix_of_le _ _ _ _ hla]
  have eb : slice bb'.data b.offset b.size = slice bb.data b.offset b.size := by
    rw [← htb, slice_prefix_of_le _ _ _ _ hlb]
  constructor
  · rintro ⟨h1, h2, h6, x, y, hx, hy, h3⟩
    rw [hba'] at hx; cases hx
    rw [hbb'] at hy; cases hy
    exact ⟨h1, h2, h6, ba, bb, hba, hbb, by rw [← ea, ← eb]; exact h3⟩
  · rintro ⟨h1, h2, h6, x, y, hx, hy, h3⟩
    rw [hba] at hx; cases hx
    rw [hbb] at hy; cases hy
    exact ⟨h1, h2, h6, ba', bb', hba', hbb', by rw [ea, eb]; exact h3⟩

theorem Uniq_ext {codec : Codec} {st st' : State} (hinv : Inv codec st) (hu : Uniq st) (he : Ext st st')
    (ht : st'.table = st.table) : Uniq st' := by
  unfold Uniq
  rw [ht]
  refine List.Pairwise.imp_of_mem ?_ hu
  intro a b ha hb hn hs
  exact hn ((SameKey_ext (hinv.chunks a ha) (hinv.chunks b hb) he).1 hs)


/-- shape of the table after `hash_table_insert`: the first matching entry is replaced, or the new entry is added
when nothing matches -/
theorem insert_table (codec : Codec) (d : Bytes) (hd : UInt32) (new : Chunk) : ∀ (l done : List Chunk) (st st' : State),
    Inv codec st → (∀ c ∈ l, ChunkOk st.blocks c) → insert codec true st d hd new done l = .ok st' →
    (∃ c r1 r2, l = r1 ++ c :: r2 ∧ st'.table = done ++ r1 ++ new :: r2 ∧ Match st c d hd new.flags ∧
        ∀ x ∈ r1, ¬ Match st x d hd new.flags) ∨
    (st'.table = done ++ l ++ [new] ∧ ∀ x ∈ l, ¬ Match st x d hd new.flags) := by
  intro l
  induction l with
  | nil =>
    intro done st st' _ _ h
    simp only [insert] at h
    cases h
    exact Or.inr ⟨by simp, fun x hx => by cases hx⟩
  | cons c rest ih =>
    intro done st st' hinv hall h
    obtain ⟨r, cache', heq, hiff, hco⟩ := chunkEquals_spec codec st hinv d hd new.flags c (hall c (by simp))
    unfold insert at h
    rw [heq] at h
    cases r with
    | true =>
      simp only [] at h
      cases h
      exact Or.inl ⟨c, [], rest, by simp, by simp, hiff.1 rfl, fun x hx => by cases hx⟩
    | false =>
      simp only [] at h
      have hnc : ¬ Match st c d hd new.flags := fun hm => by have := hiff.2 hm; cases this
      rcases ih (done ++ [c]) { st with cache := cache' } st' (Inv_setCache hinv cache' hco)
          (fun x hx => hall x (List.mem_cons_of_mem _ hx)) h with ⟨c', r1, r2, h1, h2, h3, h4⟩ | ⟨h1, h2⟩
      · refine Or.inl ⟨c', c :: r1, r2, by simp [h1], by simp [h2], h3, ?_⟩
        intro x hx
        rcases List.mem_cons.1 hx with rfl | hx'
        · exact hnc
        · exact h4 x hx'
      · refine Or.inr ⟨by simp [h1], ?_⟩
        intro x hx
        rcases List.mem_cons.1 hx with rfl | hx'
        · exact hnc
        · exact h2 x hx'

/-- uniqueness survives `hash_table_insert` -/
theorem insert_uniq (codec : Codec) (d : Bytes) (hd : UInt32) (new : Chunk) (st st' : State) (hinv : Inv codec st)
    (hu : Uniq st) (hnew : Match st new d hd new.flags)
    (h : insert codec true st d hd new [] st.table = .ok st') (hb : st'.blocks = st.blocks) : Uniq st' := by
  unfold Uniq at hu ⊢
  rw [hb]
  rcases insert_table codec d hd new st.table [] st st' hinv hinv.chunks h with
    ⟨c, r1, r2, h1, h2, h3, h4⟩ | ⟨h1, h2⟩
  · rw [h2]
    rw [h1] at hu
    simp only [List.nil_append]
    rw [List.pairwise_append, List.pairwise_cons] at hu ⊢
    obtain ⟨p1, ⟨p2, p3⟩, p4⟩ := hu
    have hcn : SameKey st.blocks c new := SameKey_of_Match h3 hnew
    refine ⟨p1, ⟨?_, p3⟩, ?_⟩
    · intro y hy hs
      apply p2 y hy
      -- SameKey c y from SameKey new y
      have hmy : Match st y d hd new.flags := Match_of_SameKey hs hnew
      exact SameKey_of_Match h3 hmy
    · intro x hx y hy
      rcases List.mem_cons.1 hy with rfl | hy'
      · intro hs
        apply p4 x hx c (List.mem_cons_self ..)
        have hmx : Match st x d hd y.flags := Match_of_SameKey (SameKey_symm hs) hnew
        exact SameKey_of_Match hmx h3
      · exact p4 x hx y (List.mem_cons_of_mem _ hy')
  · rw [h1]
    simp only [List.nil_append]
    rw [List.pairwise_append]
    refine ⟨hu, by simp, ?_⟩
    intro x hx y hy
    simp at hy; subst hy
    intro hs
    exact h2 x hx (Match_of_SameKey (SameKey_symm hs) hnew)


theorem Uniq_of_eq {st st' : State} (hu : Uniq st) (hb : st'.blocks = st.blocks) (ht : st'.table = st.table) :
    Uniq st' := by
  unfold Uniq at hu ⊢; rw [hb, ht]; exact hu

theorem storeFragment_uniq (codec : Codec) (maxBlock : Nat) (st : State) (d : Bytes) (hd : UInt32) (flags : Nat)
    (hinv : Inv codec st) (hu : Uniq st) (hz : d ≠ []) (r : Res) (st' : State)
    (h : storeFragment codec true maxBlock st d hd flags = .ok (r, st')) : Uniq st' := by
  obtain ⟨hi1, he1, ht1⟩ := overflow_spec codec maxBlock st d hinv
  have hu1 := Uniq_ext hinv hu he1 ht1
  obtain ⟨hi2, he2, ht2, hv⟩ := place_spec codec (overflow maxBlock st d) d flags hi1 hz
  have hu2 := Uniq_ext hi1 hu1 he2 ht2
  unfold storeFragment at h
  simp only [] at h
  generalize place (overflow maxBlock st d) d flags = pr at *
  obtain ⟨i, o, st3⟩ := pr
  simp only [] at hi2 he2 ht2 hv hu2 h
  have hnewm : Match st3 ⟨i, o, d.length, hd, flags &&& blkDontCompress⟩ d hd (flags &&& blkDontCompress) := by
    obtain ⟨b, hb, _, hsl⟩ := hv
    exact ⟨rfl, rfl, rfl, b, hb, hsl⟩
  have hnew : ChunkOk st3.blocks ⟨i, o, d.length, hd, flags &&& blkDontCompress⟩ := by
    obtain ⟨b, hb, hle, _⟩ := hv
    exact ⟨b, hb, by simp; exact List.length_pos_iff.2 hz, hle⟩
  obtain ⟨st4, h1, h2, _⟩ := insert_spec codec d hd ⟨i, o, d.length, hd, flags &&& blkDontCompress⟩ st3.table [] st3 hi2
    (by intro c hc; exact hi2.chunks c (by simpa using hc)) hnew
  rw [h1] at h
  cases h
  exact insert_uniq codec d hd _ st3 st' hi2 hu2 hnewm h1 h2

theorem processFragment_uniq (codec : Codec) (h : Bytes → UInt32) (maxBlock : Nat) (st : State) (d : Bytes)
    (flags : Nat) (hinv : Inv codec st) (hu : Uniq st) (hok : fragOk d flags) (r : Res) (st' : State)
    (hpf : processFragment codec h true maxBlock st d flags = .ok (r, st')) : Uniq st' := by
  unfold processFragment at hpf
  by_cases hsp : (!hasFlag flags blkIgnoreSparse && allZero d) = true
  · rw [if_pos hsp] at hpf; cases hpf; exact hu
  · rw [if_neg hsp] at hpf
    have hz : d ≠ [] := hok
    generalize fragHash h d flags = hd at *
    have hfind : ∃ r st1, findShared codec true st d hd flags = .ok (r, st1) ∧ st1.blocks = st.blocks ∧
        st1.table = st.table ∧ Inv codec st1 := by
      unfold findShared
      by_cases hdd : hasFlag flags blkDontDeduplicate = true
      · rw [if_pos hdd]; exact ⟨none, st, rfl, rfl, rfl, hinv⟩
      · rw [if_neg hdd]
        obtain ⟨r, st1, a1, a2, a3, a4, _, _⟩ := search_spec codec d hd _ st.table st hinv hinv.chunks
        exact ⟨r, st1, a1, a2, a3, a4⟩
    obtain ⟨r1, st1, hf, hb1, ht1, hinv1⟩ := hfind
    rw [hf] at hpf
    have hu1 : Uniq st1 := Uniq_of_eq hu hb1 ht1
    cases r1 with
    | some c => simp only [] at hpf; cases hpf; exact hu1
    | none =>
      simp only [] at hpf
      exact storeFragment_uniq codec maxBlock st1 d hd flags hinv1 hu1 hz r st' hpf

theorem run_uniq (codec : Codec) (hrt : codec.RoundTrip) (h : Bytes → UInt32) (maxBlock : Nat) :
    ∀ (evs : List Ev) (st : State), Inv codec st → Uniq st → evsOk evs → ∀ rs st',
      run codec h true maxBlock st evs = .ok (rs, st') → Uniq st' := by
  intro evs
  induction evs with
  | nil => intro st _ hu _ rs st' hr; simp only [run] at hr; cases hr; exact hu
  | cons e es ih =>
    intro st hinv hu hok rs st' hr
    have hoke : e.ok := hok e (List.mem_cons_self ..)
    have hokes : evsOk es := fun x hx => hok x (List.mem_cons_of_mem _ hx)
    unfold run at hr
    cases e with
    | frag d fl =>
      obtain ⟨r, st1, hpf, hinv1, _⟩ :=
        processFragment_spec codec h maxBlock st d fl [] hinv hoke (fun p hp => by cases hp)
      have hu1 := processFragment_uniq codec h maxBlock st d fl hinv hu hoke r st1 hpf
      simp only [step, hpf] at hr
      cases hrr : run codec h true maxBlock st1 es with
      | error x => rw [hrr] at hr; cases hr
      | ok p =>
        obtain ⟨rs1, st2⟩ := p
        rw [hrr] at hr; cases hr
        exact ih st1 hinv1 hu1 hokes rs1 _ hrr
    | written idx =>
      rcases blockWritten_spec codec hrt st idx hinv with ⟨st1, hbw, hinv1, hext1, ht1⟩ | herr
      · simp only [step, hbw] at hr
        cases hrr : run codec h true maxBlock st1 es with
        | error x => rw [hrr] at hr; cases hr
        | ok p =>
          obtain ⟨rs1, st2⟩ := p
          rw [hrr] at hr; cases hr
          exact ih st1 hinv1 (Uniq_ext hinv hu hext1 ht1) hokes rs1 _ hrr
      · simp only [step, herr] at hr; cases hr
    | finish =>
      obtain ⟨hinv1, hext1, ht1, _, _⟩ := closeOpen_spec codec st hinv
      simp only [step] at hr
      cases hrr : run codec h true maxBlock (closeOpen st) es with
      | error x => rw [hrr] at hr; cases hr
      | ok p =>
        obtain ⟨rs1, st2⟩ := p
        rw [hrr] at hr; cases hr
        exact ih (closeOpen st) hinv1 (Uniq_ext hinv hu hext1 ht1) hokes rs1 _ hrr

theorem Uniq_init : Uniq {} := List.Pairwise.nil

/-- the answer of a lookup does not depend on the order in which the table is probed -/
theorem search_perm (codec : Codec) (st : State) (hinv : Inv codec st) (hu : Uniq st) (d : Bytes) (hd : UInt32)
    (kf : Nat) (l : List Chunk) (hp : l.Perm st.table) :
    ∃ r s1 s2, search codec true st d hd kf st.table = .ok (r, s1) ∧ search codec true st d hd kf l = .ok (r, s2) := by
  obtain ⟨r1, s1, a1, _, _, _, a5, a6⟩ := search_spec codec d hd kf st.table st hinv hinv.chunks
  obtain ⟨r2, s2, b1, _, _, _, b5, b6⟩ := search_spec codec d hd kf l st hinv
    (fun c hc => hinv.chunks c (hp.mem_iff.1 hc))
  have : r1 = r2 := by
    cases r1 with
    | none =>
      cases r2 with
      | none => rfl
      | some b =>
        obtain ⟨hb, hm⟩ := b5 b rfl
        exact absurd hm (a6 rfl b (hp.mem_iff.1 hb))
    | some a =>
      obtain ⟨ha, hma⟩ := a5 a rfl
      cases r2 with
      | none => exact absurd hma (b6 rfl a (hp.mem_iff.2 ha))
      | some b =>
        obtain ⟨hb, hmb⟩ := b5 b rfl
        rw [match_unique hu ha (hp.mem_iff.1 hb) hma hmb]
  subst this
  exact ⟨r1, s1, s2, a1, b1⟩

end Sqfs.FragDedup
