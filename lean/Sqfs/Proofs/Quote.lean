/-
Helper lemmas for C16 (`Sqfs/Props/C16.lean`): tokeniser vs. encoder.
-/
import Sqfs.Spec.Quote
import Sqfs.Proofs.Path
namespace Sqfs.Quote
open Sqfs.Path (Bytes)

/-! ### separators -/

@[simp] theorem isSep_pack (c : UInt8) : isSep packSep c = (c == SP || c == TAB) := by
  unfold isSep packSep
  by_cases h1 : c = SP
  · subst h1; decide
  · by_cases h2 : c = TAB
    · subst h2; decide
    · simp [h1, h2]

/-- a byte that can stand inside an unquoted token -/
def Plain (c : UInt8) : Prop := c ≠ SP ∧ c ≠ TAB ∧ c ≠ NUL

theorem skipSep_of_plain (c : UInt8) (r : Bytes) (h : Plain c) : skipSep packSep (c :: r) = c :: r := by
  obtain ⟨h1, h2, _⟩ := h
  simp [skipSep, h1, h2]

@[simp] theorem skipSep_sp (r : Bytes) : skipSep packSep (SP :: r) = skipSep packSep r := by
  simp [skipSep]

/-! ### quoted tokens -/

theorem quoted_escapeBody (t rest : Bytes) (h : NUL ∉ t) :
    quoted (escapeBody t ++ DQ :: rest) = .ok (t, rest) := by
  induction t with
  | nil =>
    have d0 : (DQ : UInt8) ≠ NUL := by decide
    simp only [escapeBody, List.nil_append]; unfold quoted; simp [d0]
  | cons c r ih =>
    have hc : c ≠ NUL := fun e => h (by simp [e])
    have hr : NUL ∉ r := fun m => h (by simp [m])
    by_cases hq : c = DQ ∨ c = BS
    · have : escapeBody (c :: r) = BS :: c :: escapeBody r := by
        rcases hq with rfl | rfl <;> simp [escapeBody]
      rw [this]
      simp only [List.cons_append]
      unfold quoted
      have hbs : (BS : UInt8) ≠ NUL := by decide
      have hbd : (BS : UInt8) ≠ DQ := by decide
      simp only [hbs, hbd, if_false, if_true]
      rcases hq with rfl | rfl <;> simp [ih hr]
    · have h1 : c ≠ DQ := fun e => hq (Or.inl e)
      have h2 : c ≠ BS := fun e => hq (Or.inr e)
      have : escapeBody (c :: r) = c :: escapeBody r := by simp [escapeBody, h1, h2]
      rw [this]
      simp only [List.cons_append]
      unfold quoted
      simp [hc, h1, h2, ih hr]

/-! ### unquoted tokens -/

theorem unquoted_plain (t rest : Bytes) (ht : ∀ c ∈ t, Plain c)
    (hr : rest = [] ∨ ∃ c r, rest = c :: r ∧ ¬ Plain c) :
    unquoted packSep (t ++ rest) = (t, rest) := by
  induction t with
  | nil =>
    rcases hr with rfl | ⟨c, r, rfl, hp⟩
    · simp [unquoted]
    · simp only [List.nil_append, unquoted]
      have : (isSep packSep c || c = NUL) = true := by
        simp only [isSep_pack]
        unfold Plain at hp
        by_cases h1 : c = SP
        · simp [h1]
        · by_cases h2 : c = TAB
          · simp [h2]
          · have : c = NUL := by
              apply Classical.byContradiction; intro h3; exact hp ⟨h1, h2, h3⟩
            simp [this]
      rw [this]; rfl
  | cons c r ih =>
    obtain ⟨h1, h2, h3⟩ := ht c (by simp)
    have := ih (fun d hd => ht d (by simp [hd]))
    simp only [List.cons_append, unquoted, isSep_pack]
    simp [h1, h2, h3, this]

/-! ### encodings of one token -/

/-- `e` is a way of writing the token `t` that `split_line` reads back as `t` -/
inductive Enc : Bytes → Bytes → Prop
  | plain (t : Bytes) : t ≠ [] → (∀ c ∈ t, Plain c) → t.head? ≠ some DQ → Enc t t
  | quoted (t : Bytes) : NUL ∉ t → Enc t (DQ :: escapeBody t ++ [DQ])

theorem Enc.ne_nil {t e : Bytes} (h : Enc t e) : e ≠ [] := by
  cases h with
  | plain h1 _ _ => exact h1
  | quoted _ => simp

/-- the first byte of an encoding is neither a separator nor NUL -/
theorem Enc.head_plain {t e : Bytes} (h : Enc t e) : ∃ c r, e = c :: r ∧ Plain c := by
  cases h with
  | plain h1 h2 _ =>
    cases t with
    | nil => exact absurd rfl h1
    | cons c r => exact ⟨c, r, rfl, h2 c (by simp)⟩
  | quoted _ => exact ⟨DQ, _, rfl, by unfold Plain; decide⟩

/-- one iteration of the outer loop of `split_line` on an encoded token followed by end-of-line or a separator -/
theorem splitLoop_enc {t e : Bytes} (h : Enc t e) (fuel : Nat) (rest : Bytes)
    (hr : rest = [] ∨ ∃ c r, rest = c :: r ∧ ¬ Plain c) :
    splitLoop packSep (fuel + 1) (e ++ rest) =
      match splitLoop packSep fuel (skipSep packSep rest) with
      | .ok toks => .ok (t :: toks)
      | .error err => .error err := by
  cases h with
  | plain h1 h2 h3 =>
    cases t with
    | nil => exact absurd rfl h1
    | cons c r =>
      obtain ⟨_, _, c3⟩ := h2 c (by simp)
      have cq : c ≠ DQ := by simpa using h3
      have hu := unquoted_plain (c :: r) rest h2 hr
      simp only [List.cons_append] at hu ⊢
      simp only [splitLoop, c3, cq, if_false, hu]
      cases splitLoop packSep fuel (skipSep packSep rest) <;> rfl
  | quoted h1 =>
    have hq := quoted_escapeBody t rest h1
    have : DQ :: escapeBody t ++ [DQ] ++ rest = DQ :: (escapeBody t ++ DQ :: rest) := by simp
    rw [this]
    have d0 : (DQ : UInt8) ≠ NUL := by decide
    simp only [splitLoop, d0, if_false, if_true, hq]
    cases splitLoop packSep fuel (skipSep packSep rest) <;> rfl

/-- field-wise encoding of a token list -/
inductive Encs : List Bytes → List Bytes → Prop
  | nil : Encs [] []
  | cons {t e : Bytes} {ts es : List Bytes} : Enc t e → Encs ts es → Encs (t :: ts) (e :: es)

/-- single-space join of the encoded fields of a line -/
def joinSp : List Bytes → Bytes
  | [] => []
  | [a] => a
  | a :: b :: r => a ++ SP :: joinSp (b :: r)

theorem joinSp_head {ts es : List Bytes} (h : Encs ts es) (hne : es ≠ []) :
    ∃ c r, joinSp es = c :: r ∧ Plain c := by
  cases h with
  | nil => exact absurd rfl hne
  | cons h1 h2 =>
    obtain ⟨c, r, he, hp⟩ := h1.head_plain
    rename_i t e ts' es'
    cases es' with
    | nil => exact ⟨c, r, by simp [joinSp, he], hp⟩
    | cons b r' => exact ⟨c, r ++ SP :: joinSp (b :: r'), by simp [joinSp, he], hp⟩

theorem splitLoop_join {ts es : List Bytes} (h : Encs ts es) :
    ∀ fuel, (joinSp es).length ≤ fuel → splitLoop packSep fuel (joinSp es) = .ok ts := by
  induction h with
  | nil => intro fuel _; cases fuel <;> simp [joinSp, splitLoop]
  | cons h1 h2 ih =>
    rename_i t e ts' es'
    intro fuel hf
    have hene := h1.ne_nil
    cases es' with
    | nil =>
      cases h2
      have hl : 0 < e.length := List.length_pos_iff.2 hene
      simp only [joinSp] at hf ⊢
      obtain ⟨f, rfl⟩ : ∃ f, fuel = f + 1 := ⟨fuel - 1, by omega⟩
      have := splitLoop_enc h1 f [] (Or.inl rfl)
      simp only [List.append_nil] at this
      rw [this]
      cases f <;> simp [skipSep, splitLoop]
    | cons b r' =>
      have hl : 0 < e.length := List.length_pos_iff.2 hene
      simp only [joinSp, List.length_append, List.length_cons] at hf ⊢
      obtain ⟨f, rfl⟩ : ∃ f, fuel = f + 1 := ⟨fuel - 1, by omega⟩
      have hsp : ¬ Plain SP := fun h => h.1 rfl
      rw [splitLoop_enc h1 f _ (Or.inr ⟨SP, _, rfl, hsp⟩)]
      obtain ⟨c, r, hj, hp⟩ := joinSp_head h2 (by simp)
      rw [skipSep_sp, hj, skipSep_of_plain c r hp, ← hj]
      rw [ih f (by omega)]

theorem splitLine_join {ts es : List Bytes} (h : Encs ts es) :
    splitLine packSep (joinSp es) = .ok ts := by
  unfold splitLine
  cases hes : es with
  | nil => subst hes; cases h; simp [joinSp, skipSep, splitLoop]
  | cons e r =>
    obtain ⟨c, r', hj, hp⟩ := joinSp_head h (by rw [hes]; simp)
    rw [← hes, hj, skipSep_of_plain c r' hp, ← hj]
    exact splitLoop_join h _ (Nat.le_refl _)

/-! ### `print_escaped` produces an encoding -/

theorem needsQuote_false {s : Bytes} (h : needsQuote s = false) :
    s ≠ [] ∧ ∀ c ∈ s, c ≠ SP ∧ c ≠ TAB ∧ c ≠ CR ∧ c ≠ DQ ∧ c ≠ BS := by
  unfold needsQuote at h
  simp only [Bool.or_eq_false_iff, decide_eq_false_iff_not, List.any_eq_false] at h
  refine ⟨h.1, fun c hc => ?_⟩
  have := h.2 c hc
  simp only [Bool.or_eq_true, decide_eq_true_eq, not_or] at this
  obtain ⟨⟨⟨⟨a, b⟩, c'⟩, d⟩, e⟩ := this
  exact ⟨a, b, c', d, e⟩

theorem enc_printEscaped (s : Bytes) (h : NUL ∉ s) : Enc s (printEscaped s) := by
  unfold printEscaped
  cases hq : needsQuote s with
  | true => simp only [if_true]; exact Enc.quoted s h
  | false =>
    obtain ⟨hne, hall⟩ := needsQuote_false hq
    simp only [Bool.false_eq_true, if_false]
    refine Enc.plain s hne (fun c hc => ?_) ?_
    · obtain ⟨a, b, _, _, _⟩ := hall c hc
      exact ⟨a, b, fun e => h (e ▸ hc)⟩
    · cases s with
      | nil => exact absurd rfl hne
      | cons c r =>
        have := (hall c (by simp)).2.2.2.1
        simpa using this

end Sqfs.Quote
