import Sqfs.Model.Obj
/-! Lemmas about the object heap (`Sqfs.Model.Obj`). -/
namespace Sqfs.Obj

@[simp] theorem upd_same {α : Type} (f : Nat → α) (i : Nat) (v : α) : upd f i v i = v := by simp [upd]
theorem upd_ne {α : Type} (f : Nat → α) {i j : Nat} (v : α) (h : j ≠ i) : upd f i v j = f j := by simp [upd, h]

theorem finishCopy_spec (d : CopyDesc) (h : Heap) (o : Obj) (nb nr : List (Option Nat)) (h' : Heap) (c : Nat)
    (hf : finishCopy d h o nb nr = (h', some c)) :
    c = h.nobj ∧ h'.crash = h.crash ∧ h'.bufs = h.bufs ∧ h'.nobj = h.nobj + 1 ∧
    ∃ co, h'.objs c = some co ∧ co.rc = 1 ∧ co.kind = o.kind ∧ co.bufs = nb ∧ co.refs = nr ∧
      (d.header = .init → co.destroy = true ∧ co.copy = true) ∧
      (d.header = .memcpy → co.destroy = o.destroy ∧ co.copy = o.copy) ∧
      (d.header = .zeroed → co.destroy = false ∧ co.copy = false) ∧
      (∀ j, j ≠ c → h'.objs j = h.objs j) := by
  unfold finishCopy at hf
  simp only [Prod.mk.injEq, Option.some.injEq] at hf
  obtain ⟨rfl, rfl⟩ := hf
  refine ⟨rfl, rfl, rfl, rfl, ?_⟩
  refine ⟨_, upd_same _ _ _, rfl, rfl, rfl, rfl, ?_, ?_, ?_, ?_⟩
  · intro hh; simp [hh]
  · intro hh; simp [hh]
  · intro hh; simp [hh]
  · intro j hj; exact upd_ne _ _ hj

/-- a successful `sqfs_copy` ends in `finishCopy` -/
theorem sqfsCopy_some (D : Kind → CopyDesc) (n : Nat) (h h' : Heap) (id c : Nat)
    (hc : sqfsCopy D n h id = (h', some c)) :
    ∃ o hm nb nr, h.objs id = some o ∧ o.copy = true ∧ finishCopy (D o.kind) hm o nb nr = (h', some c) := by
  cases n with
  | zero => simp [sqfsCopy] at hc
  | succ n =>
    unfold sqfsCopy at hc
    split at hc
    · simp at hc
    · split at hc
      · simp at hc
      · rename_i o ho
        split at hc
        · simp at hc
        · rename_i hcp
          simp only [Bool.not_eq_eq_eq_not, Bool.not_true] at hcp
          split at hc
          · simp at hc
          · dsimp only at hc
            split at hc
            · split at hc
              · simp at hc
              · split at hc
                · simp at hc
                · exact ⟨o, _, _, _, ho, by simpa using hcp, hc⟩
            · split at hc
              · simp at hc
              · split at hc
                · simp at hc
                · exact ⟨o, _, _, _, ho, by simpa using hcp, hc⟩

end Sqfs.Obj
