/-
C15 — `tar_open_stream`'s decision (`tar_probe`, `xfrm_compressor_id_from_magic`): the byte-level predicates the property
theorem `Sqfs.C15.probe_spec` is stated with, and the helper lemmas of its proof.
-/
import Sqfs.Spec.XfrmContract
namespace Sqfs.C15
open Sqfs.Xfrm Sqfs.Xfrm.Spec

/-- the five bytes `ustar` -/
def ustarMagic : Bytes := [0x75, 0x73, 0x74, 0x61, 0x72]
/-- `ustar` stands at offset 257 of `r` (in particular `r` has at least 262 bytes) -/
def UstarAt (r : Bytes) : Prop := (r.drop 257).take 5 = ustarMagic
/-- the first 512-byte record of `d` is there and is all zero -/
def ZeroRecord (d : Bytes) : Prop := 512 ≤ d.length ∧ ∀ b ∈ d.take 512, b = 0
/-- the informal condition of `tar_probe`: `ustar` at offset 257 of the first record, or of the second when the first is all zero -/
def TarLike (d : Bytes) : Prop := UstarAt d ∨ (ZeroRecord d ∧ UstarAt (d.drop 512))

theorem ustarAt_iff (r : Bytes) :
    (decide (257 + 5 ≤ r.length) && ((r.drop 257).take 5 == ustarMagic)) = true ↔ UstarAt r := by
  unfold UstarAt
  simp only [Bool.and_eq_true, decide_eq_true_eq, beq_iff_eq]
  constructor
  · exact fun h => h.2
  · intro h
    refine ⟨?_, h⟩
    have := congrArg List.length h
    simp [ustarMagic] at this
    omega

theorem zeroRecord_not_ustarAt (d : Bytes) (hz : ZeroRecord d) : ¬ UstarAt d := by
  intro hu
  unfold UstarAt at hu
  have hm : (0x75 : UInt8) ∈ (d.drop 257).take 5 := by rw [hu]; simp [ustarMagic]
  have hsub : (0x75 : UInt8) ∈ d.take 512 := by
    have e : (d.drop 257).take 5 = (((d.take 512).drop 257).take 5) := by
      rw [List.drop_take, List.take_take]
      simp
    rw [e] at hm
    exact List.mem_of_mem_drop (List.mem_of_mem_take hm)
  have := hz.2 _ hsub
  exact absurd this (by decide)

/-- an input that is not tar-like and starts with one of the magic numbers of compress.c's table is handed to that codec -/
theorem openStreamCodec_of_magic (d : Bytes) (hp : tarProbe d = false) (id : Nat) (m : Bytes)
    (hm : (id, m) ∈ magicTable) (hpre : IsPre m d) : openStreamCodec d = some id := by
  obtain ⟨t, rfl⟩ := hpre
  simp only [magicTable, List.mem_cons, Prod.mk.injEq, List.mem_nil_iff, or_false] at hm
  rcases hm with ⟨rfl, rfl⟩ | ⟨rfl, rfl⟩ | ⟨rfl, rfl⟩ | ⟨rfl, rfl⟩ <;>
    simp only [List.cons_append, List.nil_append] at hp <;>
    simp [openStreamCodec, hp, compressorIdFromMagic, magicTable, List.find?, Sqfs.Consts.xfrmCompGzip,
      Sqfs.Consts.xfrmCompXz, Sqfs.Consts.xfrmCompZstd, Sqfs.Consts.xfrmCompBzip2]


end Sqfs.C15
