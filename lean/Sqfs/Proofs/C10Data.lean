/-
Helper lemmas for C10: on files the library wrote, positional read, per-block access and the stream deliver the
same bytes.
-/
import Sqfs.Proofs.DataReaderCache
namespace Sqfs.DataReader
open Sqfs.Consts Sqfs.MetaReader

/-- decidable equality of `Except` values (for the concrete instances in `Sqfs/Props/C10.lean`) -/
instance exceptDecEq {ε α : Type} [DecidableEq ε] [DecidableEq α] : DecidableEq (Except ε α)
  | .ok a, .ok b => if h : a = b then isTrue (by rw [h]) else isFalse (by intro e; cases e; exact h rfl)
  | .error a, .error b => if h : a = b then isTrue (by rw [h]) else isFalse (by intro e; cases e; exact h rfl)
  | .ok _, .error _ => isFalse (by intro e; cases e)
  | .error _, .ok _ => isFalse (by intro e; cases e)

theorem sparse_onDisk {w : Nat} (h : isSparse w = true) : onDisk w = 0 := by
  simpa [isSparse] using h

theorem zeros_length (n : Nat) : (zeros n).length = n := by simp [zeros]

theorem BlockIs.length {f : File} {unc : Codec} {off w u : Nat} {d : Bytes} (h : BlockIs f unc off w u d) : d.length = u := by
  cases h with
  | inl h => rw [h.2]; exact zeros_length u
  | inr h =>
    obtain ⟨_, _, raw, hr, hc⟩ := h
    cases hc with
    | inl hc => exact hc.2.1
    | inr hc => rw [hc.2.2, readAt_length hr]; exact hc.2.1

/-- `get_block` on a block that holds `d`, with at least `u` bytes of room -/
theorem getBlock_of_blockIs {f : File} {unc : Codec} {off w u : Nat} {d : Bytes} (h : BlockIs f unc off w u d)
    (hs : isSparse w = false) (room : Nat) (hr : u ≤ room) :
    getBlock f unc off w room = .ok (overwrite (zeros room) d, u) := by
  cases h with
  | inl h => rw [h.1] at hs; cases hs
  | inr h =>
    obtain ⟨_, hn, raw, hraw, hc⟩ := h
    unfold getBlock
    have hgt : ¬ onDisk w > room := by omega
    simp only [hs, Bool.false_eq_true, if_false, hgt, hraw]
    cases hc with
    | inl hc =>
      obtain ⟨hcomp, hlen, hpos, hunc⟩ := hc
      have hne : ¬ u = 0 := by omega
      simp only [hcomp, if_true, hunc room hr, hlen, hne, if_false]
    | inr hc =>
      obtain ⟨hcomp, hnu, hd⟩ := hc
      simp only [hcomp, Bool.false_eq_true, if_false, hd, hnu]

theorem overwrite_zeros_take {room : Nat} {d : Bytes} : (overwrite (zeros room) d).take d.length = d :=
  overwrite_take _ _

/-! ### positional read -/

theorem copyBlocksSpec_written {f : File} {unc : Codec} {bs : Nat} (hbs : 0 < bs) :
    ∀ (ws : List Nat) (off rem : Nat) (ds : List Bytes) (acc : Bytes), BlocksAre f unc bs ws off rem ds →
      (ds.map List.length).sum ≤ rem ∧
      copyBlocksSpec f unc bs ws off 0 rem acc = .ok (0, rem - (ds.map List.length).sum, acc ++ ds.flatten) := by
  intro ws
  induction ws with
  | nil =>
    intro off rem ds acc h
    unfold BlocksAre at h
    subst h
    simp [copyBlocksSpec]
  | cons w ws ih =>
    intro off rem ds acc h
    unfold BlocksAre at h
    obtain ⟨d, rest, hds, hpos, hb, hrest⟩ := h
    subst hds
    have hlen := hb.length
    generalize hu : (if rem < bs then rem else bs) = u at hb hrest hlen
    have hule : u ≤ rem := by rw [← hu]; split <;> omega
    have hubs : u ≤ bs := by rw [← hu]; split <;> omega
    obtain ⟨ih1, ih2⟩ := ih (off + onDisk w) (rem - u) rest (acc ++ d) hrest
    have hsum : ((d :: rest).map List.length).sum = u + (rest.map List.length).sum := by simp [hlen]
    refine ⟨by rw [hsum]; omega, ?_⟩
    rw [copyBlocksSpec]
    have hne : ¬ rem = 0 := by omega
    have hdiff : (if rem < bs - 0 then rem else bs - 0) = u := by rw [← hu]; simp
    simp only [hne, if_false, hdiff]
    have hfin : rem - u - (rest.map List.length).sum = rem - ((d :: rest).map List.length).sum := by rw [hsum]; omega
    have hflat : acc ++ d ++ rest.flatten = acc ++ (d :: rest).flatten := by simp
    by_cases hsp : isSparse w = true
    · simp only [hsp, if_true]
      cases hb with
      | inl hb =>
        rw [← hb.2]
        have := ih2
        rw [sparse_onDisk hsp, Nat.add_zero] at this
        rw [this, hfin, hflat]
      | inr hb => rw [hb.1] at hsp; cases hsp
    · have hsp' : isSparse w = false := by simpa using hsp
      simp only [hsp', Bool.false_eq_true, if_false]
      rw [getBlock_of_blockIs hb hsp' bs hubs]
      simp only [List.drop_zero]
      have htk : (overwrite (zeros bs) d).take u = d := by rw [← hlen]; exact overwrite_zeros_take
      rw [htk, ih2, hfin, hflat]

theorem skipBlocks_zero (bs : Nat) (ws : List Nat) (off : Nat) : skipBlocks bs ws off 0 = (ws, off, 0) := by
  cases ws with
  | nil => rfl
  | cons w ws => simp [skipBlocks]

/-- **positional read of the whole file** -/
theorem readSpec_written {f : File} {unc : Codec} {bs : Nat} {tbl : List (Nat × Nat)} {ino : Inode} {datas : List Bytes}
    {tail : Bytes} (h : Written f unc bs tbl ino datas tail) :
    readSpec f unc bs tbl ino 0 ino.fileSize = (0, datas.flatten ++ tail) := by
  obtain ⟨hbs, hb32, hsmall, hblocks, hcov, htl, hts, hfrag⟩ := h
  obtain ⟨_, hcopy⟩ := copyBlocksSpec_written hbs ino.blocks ino.blocksStart ino.fileSize datas [] hblocks
  unfold readSpec
  have h1 : ¬ ino.fileSize ≥ 2147483647 := by omega
  simp only [h1, if_false]
  by_cases h0 : ino.fileSize = 0
  · -- empty file: no block, no tail
    have ht : tail = [] := by
      apply List.eq_nil_of_length_eq_zero; omega
    have hd : datas.flatten = [] := by
      have : (datas.map List.length).sum = 0 := by omega
      apply List.eq_nil_of_length_eq_zero
      rw [List.length_flatten]; exact this
    simp [h0, ht, hd]
  · have h2 : ¬ 0 ≥ ino.fileSize := by omega
    have h3 : (if ino.fileSize - 0 < ino.fileSize then ino.fileSize - 0 else ino.fileSize) = ino.fileSize := by simp
    simp only [h2, if_false, h3, h0, skipBlocks_zero, hcopy, List.nil_append]
    by_cases ht : tail = []
    · have : ino.fileSize - (datas.map List.length).sum = 0 := by rw [← htl, ht]; rfl
      simp [this, ht]
    · have hne : ¬ ino.fileSize - (datas.map List.length).sum = 0 := by
        rw [← htl]; intro h; exact ht (List.eq_nil_of_length_eq_zero h)
      obtain ⟨ent, fb, hent, hgb, hfo, hfb, htail⟩ := hfrag ht
      simp only [hne, if_false, hent, hgb, Nat.add_zero]
      have hw : wrap64 ino.fragOff = ino.fragOff := by
        unfold wrap64
        have : ino.fragOff < U64 := by simp only [U64]; omega
        simp [this]
      rw [hw, ← htl]
      have c1 : ¬ ino.fragOff ≥ fb.2 := by
        have : 0 < tail.length := List.length_pos_iff.2 ht
        omega
      have c2 : ¬ fb.2 - ino.fragOff < tail.length := by omega
      simp only [c1, if_false, c2, ← htail]

/-! ### per-block access -/

theorem blocksAre_facts {f : File} {unc : Codec} {bs : Nat} (hbs : 0 < bs) :
    ∀ (ws : List Nat) (off rem : Nat) (ds : List Bytes), BlocksAre f unc bs ws off rem ds →
      ds.length = ws.length ∧ (ds.map List.length).sum ≤ ws.length * bs ∧
      ((ds.map List.length).sum < rem → (ds.map List.length).sum = ws.length * bs) ∧ ws.length ≤ rem := by
  intro ws
  induction ws with
  | nil =>
    intro off rem ds h
    unfold BlocksAre at h
    subst h
    simp
  | cons w ws ih =>
    intro off rem ds h
    unfold BlocksAre at h
    obtain ⟨d, rest, hds, hpos, hb, hrest⟩ := h
    subst hds
    have hlen := hb.length
    obtain ⟨i1, i2, i3, i4⟩ := ih _ _ _ hrest
    have hsum : ((d :: rest).map List.length).sum = d.length + (rest.map List.length).sum := by simp
    simp only [List.length_cons, hsum, hlen, Nat.add_mul, Nat.one_mul]
    by_cases hlt : rem < bs
    · simp only [hlt, if_true, Nat.sub_self] at i3 i4 ⊢
      have hz : ws.length = 0 := by omega
      have hz' : (rest.map List.length).sum = 0 := by rw [hz] at i2; omega
      rw [hz, hz']
      omega
    · simp only [hlt, if_false] at i3 i4 ⊢
      refine ⟨by omega, by omega, fun h => ?_, by omega⟩
      have := i3 (by omega)
      omega

/-- `get_block` of index `i` on a block list that holds `ds` -/
theorem apiAt_written {f : File} {unc : Codec} {bs : Nat} (hbs : 0 < bs) :
    ∀ (ws : List Nat) (off rem : Nat) (ds : List Bytes), BlocksAre f unc bs ws off rem ds →
      ∀ (i : Nat) (d : Bytes), ds[i]? = some d →
        ∃ w buf, ws[i]? = some w ∧
          getBlock f unc (blockLoc bs ws i off rem).1 w
            (if (blockLoc bs ws i off rem).2 < bs then (blockLoc bs ws i off rem).2 else bs) = .ok (buf, d.length) ∧
          buf.take d.length = d := by
  intro ws
  induction ws with
  | nil =>
    intro off rem ds h i d hd
    unfold BlocksAre at h
    subst h
    simp at hd
  | cons w ws ih =>
    intro off rem ds h i d hd
    unfold BlocksAre at h
    obtain ⟨d0, rest, hds, hpos, hb, hrest⟩ := h
    subst hds
    have hlen := hb.length
    cases i with
    | zero =>
      simp only [List.getElem?_cons_zero, Option.some.injEq] at hd
      subst hd
      simp only [blockLoc]
      have key : ∀ u, u = d0.length → BlockIs f unc off w u d0 →
          ∃ w_1 buf, (w :: ws)[0]? = some w_1 ∧ getBlock f unc off w_1 u = .ok (buf, d0.length) ∧ buf.take d0.length = d0 := by
        intro u hu hb
        subst hu
        by_cases hsp : isSparse w = true
        · refine ⟨w, zeros d0.length, rfl, ?_, ?_⟩
          · unfold getBlock
            simp only [hsp, if_true]
          · cases hb with
            | inl hb => rw [← hb.2]; exact List.take_length
            | inr hb => rw [hb.1] at hsp; cases hsp
        · have hsp' : isSparse w = false := by simpa using hsp
          exact ⟨w, _, rfl, getBlock_of_blockIs hb hsp' d0.length (Nat.le_refl _), overwrite_zeros_take⟩
      by_cases c : rem < bs
      · simp only [c, if_true] at hb hlen ⊢
        exact key rem hlen.symm hb
      · simp only [c, if_false] at hb hlen ⊢
        exact key bs hlen.symm hb
    | succ i =>
      simp only [List.getElem?_cons_succ] at hd ⊢
      obtain ⟨f1, _, _, f4⟩ := blocksAre_facts hbs _ _ _ _ hrest
      -- the next block exists, so this one is full and `filesz -= block_size` does not wrap
      have hex : i < ws.length := by
        rw [← f1]
        exact (List.getElem?_eq_some_iff.1 hd).1
      have hfull : ¬ rem < bs := by
        intro hlt
        simp only [hlt, if_true, Nat.sub_self] at f4
        omega
      simp only [hfull, if_false] at hrest
      have hsw : subWrap rem bs = rem - bs := by
        unfold subWrap; simp only [show bs ≤ rem by omega, if_true]
      simp only [blockLoc, hsw]
      exact ih _ _ _ hrest i d hd

theorem getBlockApi_written {f : File} {unc : Codec} {bs : Nat} (hbs : 0 < bs) {ino : Inode} {ds : List Bytes}
    (h : BlocksAre f unc bs ino.blocks ino.blocksStart ino.fileSize ds) (i : Nat) (d : Bytes) (hd : ds[i]? = some d) :
    getBlockApi f unc bs ino i = .ok d := by
  obtain ⟨w, buf, hw, hg, ht⟩ := apiAt_written hbs _ _ _ _ h i d hd
  unfold getBlockApi
  simp only [hw, hg, ht]

theorem catBlocks_written {f : File} {unc : Codec} {bs : Nat} (hbs : 0 < bs) {ino : Inode} {ds : List Bytes}
    (h : BlocksAre f unc bs ino.blocks ino.blocksStart ino.fileSize ds) :
    ∀ n, n ≤ ds.length → catBlocks f unc bs ino n = .ok (ds.take n).flatten := by
  intro n
  induction n with
  | zero => intro _; simp [catBlocks]
  | succ n ih =>
    intro hn
    have hlt : n < ds.length := by omega
    have hd : ds[n]? = some ds[n] := List.getElem?_eq_getElem hlt
    rw [catBlocks, ih (by omega), getBlockApi_written hbs h n _ hd]
    simp only
    rw [List.take_succ_eq_append_getElem hlt]
    simp only [List.flatten_append, List.flatten_cons, List.flatten_nil, List.append_nil]

/-- **per-block access of the whole file** -/
theorem viaBlocks_written {f : File} {unc : Codec} {bs : Nat} {tbl : List (Nat × Nat)} {ino : Inode} {datas : List Bytes}
    {tail : Bytes} (h : Written f unc bs tbl ino datas tail) :
    viaBlocks f unc bs tbl ino = .ok (datas.flatten ++ tail) := by
  obtain ⟨hbs, hb32, hsmall, hblocks, hcov, htl, hts, hfrag⟩ := h
  obtain ⟨f1, f2, f3, f4⟩ := blocksAre_facts hbs _ _ _ _ hblocks
  unfold viaBlocks
  rw [← f1, catBlocks_written hbs hblocks _ (Nat.le_refl _), List.take_length]
  simp only
  unfold getFragmentSpec
  have hov : ¬ ino.blocks.length > (U64 - 1) / bs := by
    have h1 : ino.blocks.length * bs ≤ (U64 - 1) := by
      have : ino.blocks.length * bs ≤ 2147483646 * 4294967296 := Nat.mul_le_mul (by omega) (by omega)
      simp only [U64]; omega
    have := (Nat.le_div_iff_mul_le hbs).2 h1
    omega
  simp only [hov, if_false]
  by_cases ht : tail = []
  · have hz : ino.fileSize - (datas.map List.length).sum = 0 := by rw [← htl, ht]; rfl
    have hge : ino.blocks.length * bs ≥ ino.fileSize := by omega
    simp [hge, ht]
  · have hpos : 0 < tail.length := List.length_pos_iff.2 ht
    have hfull := f3 (by omega)
    have hlt : ¬ ino.blocks.length * bs ≥ ino.fileSize := by omega
    obtain ⟨ent, fb, hent, hgb, hfo, hfb, htail⟩ := hfrag ht
    have hmod : ino.fileSize % bs = tail.length := by
      have : ino.fileSize = tail.length + ino.blocks.length * bs := by omega
      rw [this, Nat.add_mul_mod_self_right, Nat.mod_eq_of_lt hts]
    have hchk : ¬ ino.fragOff + tail.length > bs := by omega
    simp only [hlt, if_false, hent, hgb, hmod, hchk, ← htail]

/-! ### the stream -/

theorem writeMem_take (mem : List (Option UInt8)) (new : Bytes) : (writeMem mem new).take new.length = new.map some := by
  unfold writeMem
  have : new.length = (new.map some).length := by simp
  rw [this, List.take_left']
  simp

theorem filterMap_id_map_some (l : Bytes) : (l.map some).filterMap id = l := by
  induction l with
  | nil => rfl
  | cons a l ih => simp [ih]

/-- the fill step on a block that holds `d` -/
theorem streamFill_block {f : File} {unc : Codec} (dd : DR) (s : Stream) (w : Nat) (ws : List Nat) (u : Nat) (d : Bytes)
    (hblk : s.blocks = w :: ws) (hb : BlockIs f unc s.diskOffset w u d) (hu : u ≤ dd.blockSize) :
    streamFill f unc dd s u =
      (.ok (writeMem s.mem d) { s with blocks := ws, mem := writeMem s.mem d, diskOffset := s.diskOffset + onDisk w,
                                       filesz := s.filesz - u }, dd) := by
  unfold streamFill
  rw [hblk]
  cases hb with
  | inl hb =>
    have h0 : onDisk w = 0 := sparse_onDisk hb.1
    simp only [h0, if_true, hb.2]
  | inr hb =>
    obtain ⟨hsp, hn, raw, hraw, hc⟩ := hb
    have h0 : ¬ onDisk w = 0 := by
      intro h0
      have : isSparse w = true := by simp [isSparse, h0]
      rw [this] at hsp; cases hsp
    have hgt : ¬ onDisk w > dd.blockSize := by omega
    simp only [h0, if_false, hgt, hraw]
    cases hc with
    | inl hc =>
      obtain ⟨hcomp, hlen, hpos, hunc⟩ := hc
      have hne : ¬ d.length = 0 := by omega
      have hz : u - d.length = 0 := by omega
      simp only [hcomp, if_true, hunc u (Nat.le_refl _), hne, if_false, hz, zeros, List.replicate_zero, List.append_nil]
    | inr hc =>
      obtain ⟨hcomp, hnu, hd⟩ := hc
      have hz : u - onDisk w = 0 := by omega
      simp only [hcomp, Bool.false_eq_true, if_false, hz, zeros, List.replicate_zero, List.append_nil, hd]

/-- one `get_buffered_data` + `advance_buffer(everything)` on a stream that stands in front of a block holding `d` -/
theorem streamGet_block {f : File} {unc : Codec} {bs : Nat} (tbl : List (Nat × Nat)) (s : Stream) (w : Nat) (ws : List Nat)
    (d : Bytes) (hblk : s.blocks = w :: ws) (hbuf : s.bufOff = s.bufUsed) (hpos : 0 < s.filesz)
    (hb : BlockIs f unc s.diskOffset w (if s.filesz < bs then s.filesz else bs) d) :
    ∃ s', streamGetSpec true f unc bs tbl s = (.data (d.map some), s') ∧
      (streamAdvance s' d.length).blocks = ws ∧ (streamAdvance s' d.length).filesz = s.filesz - d.length ∧
      (streamAdvance s' d.length).diskOffset = s.diskOffset + onDisk w ∧
      (streamAdvance s' d.length).bufOff = (streamAdvance s' d.length).bufUsed ∧
      (streamAdvance s' d.length).fragIdx = s.fragIdx ∧ (streamAdvance s' d.length).fragOff = s.fragOff := by
  have hlen := hb.length
  unfold streamGetSpec streamGet
  have h1 : ¬ s.bufOff < s.bufUsed := by omega
  have h2 : ¬ s.filesz = 0 := by omega
  simp only [h1, if_false, h2]
  by_cases c : s.filesz < bs
  · simp only [c, if_true] at hb hlen ⊢
    rw [streamFill_block _ { s with bufOff := 0, bufUsed := s.filesz } w ws s.filesz d hblk hb (by simp only; omega)]
    simp only
    rw [show List.take s.filesz (writeMem s.mem d) = d.map some from by rw [← hlen]; exact writeMem_take _ _]
    refine ⟨_, rfl, ?_⟩
    unfold streamAdvance
    simp only [hlen, Nat.sub_zero, Nat.lt_irrefl, if_false, Nat.zero_add, and_self]
  · simp only [c, if_false] at hb hlen ⊢
    rw [streamFill_block _ { s with bufOff := 0, bufUsed := bs } w ws bs d hblk hb (by simp only; omega)]
    simp only
    rw [show List.take bs (writeMem s.mem d) = d.map some from by rw [← hlen]; exact writeMem_take _ _]
    refine ⟨_, rfl, ?_⟩
    unfold streamAdvance
    simp only [hlen, Nat.sub_zero, Nat.lt_irrefl, if_false, Nat.zero_add, and_self]

/-- one `get_buffered_data` + `advance_buffer(everything)` on a stream that stands in front of the fragment tail -/
theorem streamGet_tail {f : File} {unc : Codec} {bs : Nat} (tbl : List (Nat × Nat)) (s : Stream) (tail : Bytes)
    (hblk : s.blocks = []) (hbuf : s.bufOff = s.bufUsed) (hsz : s.filesz = tail.length) (hpos : 0 < tail.length)
    (hshort : tail.length < bs) (ent : Nat × Nat) (fb : Bytes × Nat) (hent : tbl[s.fragIdx]? = some ent)
    (hgb : getBlock f unc ent.1 ent.2 bs = .ok fb) (hfo : s.fragOff + tail.length ≤ fb.2)
    (htail : tail = (fb.1.drop s.fragOff).take tail.length) :
    ∃ s', streamGetSpec true f unc bs tbl s = (.data (tail.map some), s') ∧
      (streamAdvance s' tail.length).blocks = [] ∧ (streamAdvance s' tail.length).filesz = 0 ∧
      (streamAdvance s' tail.length).bufOff = (streamAdvance s' tail.length).bufUsed := by
  unfold streamGetSpec streamGet
  have h1 : ¬ s.bufOff < s.bufUsed := by omega
  have h2 : ¬ s.filesz = 0 := by omega
  have c : s.filesz < bs := by omega
  simp only [h1, if_false, h2, c, if_true]
  unfold streamFill
  simp only [hblk]
  unfold precacheFrag
  simp only [Option.isSome_none, Bool.false_eq_true, false_and, if_false, hent, hgb, ne_eq, not_true_eq_false]
  have c2 : ¬ (fb.2 < s.fragOff ∨ fb.2 - s.fragOff < tail.length) := by omega
  simp only [hsz]
  simp only [c2, if_false]
  rw [← htail]
  rw [show List.take tail.length (writeMem s.mem tail) = tail.map some from writeMem_take _ _]
  refine ⟨_, rfl, ?_⟩
  unfold streamAdvance
  simp only [hblk, Nat.sub_zero, Nat.lt_irrefl, if_false, Nat.zero_add, Nat.sub_self, and_self]

theorem streamGet_eof {f : File} {unc : Codec} {bs : Nat} (tbl : List (Nat × Nat)) (s : Stream)
    (hbuf : s.bufOff = s.bufUsed) (hsz : s.filesz = 0) : (streamGetSpec true f unc bs tbl s).1 = .eof := by
  unfold streamGetSpec streamGet
  have h1 : ¬ s.bufOff < s.bufUsed := by omega
  simp only [h1, if_false, hsz, if_true]

/-- **the stream delivers the whole file** -/
theorem streamAllGo_written {f : File} {unc : Codec} {bs : Nat} (hbs : 0 < bs) (tbl : List (Nat × Nat)) (fi fo : Nat) (tail : Bytes)
    (hshort : tail.length < bs)
    (hfrag : tail ≠ [] → ∃ ent fb, tbl[fi]? = some ent ∧ getBlock f unc ent.1 ent.2 bs = .ok fb ∧
      fo + tail.length ≤ fb.2 ∧ fb.2 ≤ bs ∧ tail = (fb.1.drop fo).take tail.length) :
    ∀ (ws : List Nat) (off rem : Nat) (ds : List Bytes) (s : Stream) (acc : Bytes) (fuel : Nat),
      BlocksAre f unc bs ws off rem ds → s.blocks = ws → s.filesz = rem → s.diskOffset = off → s.bufOff = s.bufUsed →
      s.fragIdx = fi → s.fragOff = fo → tail.length = rem - (ds.map List.length).sum → ws.length + 2 ≤ fuel →
      streamAllGo f unc bs tbl fuel s acc = .ok (acc ++ ds.flatten ++ tail) := by
  intro ws
  induction ws with
  | nil =>
    intro off rem ds s acc fuel hB hblk hsz hoff hbuf hfi hfo htl hfuel
    unfold BlocksAre at hB
    subst hB
    simp only [List.map_nil, List.sum_nil, Nat.sub_zero, List.flatten_nil, List.append_nil] at htl ⊢
    obtain ⟨fuel, rfl⟩ : ∃ k, fuel = k + 1 := ⟨fuel - 1, by omega⟩
    by_cases ht : tail = []
    · have hz : s.filesz = 0 := by rw [hsz, ← htl, ht]; rfl
      have := streamGet_eof (f := f) (unc := unc) (bs := bs) tbl s hbuf hz
      rw [streamAllGo]
      generalize streamGetSpec true f unc bs tbl s = r at this
      obtain ⟨r1, r2⟩ := r
      simp only at this
      subst this
      simp [ht]
    · have hpos : 0 < tail.length := List.length_pos_iff.2 ht
      obtain ⟨ent, fb, hent, hgb, hfo', _, htail⟩ := hfrag ht
      rw [← hfi] at hent
      rw [← hfo] at hfo' htail
      obtain ⟨s', hget, a1, a2, a3⟩ := streamGet_tail tbl s tail hblk hbuf (by omega) hpos hshort ent fb hent hgb hfo' htail
      rw [streamAllGo, hget]
      simp only [List.length_map, filterMap_id_map_some]
      obtain ⟨fuel, rfl⟩ : ∃ k, fuel = k + 1 := ⟨fuel - 1, by simp only [List.length_nil] at hfuel; omega⟩
      have := streamGet_eof (f := f) (unc := unc) (bs := bs) tbl _ a3 a2
      rw [streamAllGo]
      generalize streamGetSpec true f unc bs tbl (streamAdvance s' tail.length) = r at this
      obtain ⟨r1, r2⟩ := r
      simp only at this
      subst this
      rfl
  | cons w ws ih =>
    intro off rem ds s acc fuel hB hblk hsz hoff hbuf hfi hfo htl hfuel
    unfold BlocksAre at hB
    obtain ⟨d, rest, hds, hpos, hb, hrest⟩ := hB
    subst hds
    have hlen := hb.length
    rw [← hsz, ← hoff] at hb
    obtain ⟨s', hget, a1, a2, a3, a4, a5, a6⟩ := streamGet_block tbl s w ws d hblk hbuf (by omega) hb
    obtain ⟨fuel, rfl⟩ : ∃ k, fuel = k + 1 := ⟨fuel - 1, by omega⟩
    rw [streamAllGo, hget]
    simp only [List.length_map, filterMap_id_map_some]
    have hsum : ((d :: rest).map List.length).sum = d.length + (rest.map List.length).sum := by simp
    rw [ih (off + onDisk w) (rem - d.length) rest _ (acc ++ d) fuel (by rw [hlen]; exact hrest) a1 (by rw [a2, hsz]) (by rw [a3, hoff])
      a4 (a5.trans hfi) (a6.trans hfo) (by rw [htl, hsum]; omega) (by simp only [List.length_cons] at hfuel; omega)]
    simp

end Sqfs.DataReader
