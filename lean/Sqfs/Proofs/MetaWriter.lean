/-
Helper lemmas about the model of `meta_writer.c` / `process_block` (`Sqfs/Model/MetaWriter.lean`).
-/
import Sqfs.Model.MetaWriter
namespace Sqfs.MetaWriter
open Sqfs.Consts

theorem mb_pos : 0 < metaBlockSize := by decide

/-- relation between a block's flag, its stored bytes and the chunk it was made from -/
def Made (cmp : Codec) (b : Block) : Prop :=
  (b.compressed = true → cmp b.raw = some b.stored ∧ 0 < b.stored.length) ∧
  (b.compressed = false → b.stored = b.raw)

theorem flush_spec (cmp : Codec) (st : St) :
    (st.cur = [] ∧ flush cmp st = st) ∨
    (st.cur ≠ [] ∧ ∃ b, b.raw = st.cur ∧ Made cmp b ∧
      flush cmp st = { cur := [], blockOffset := st.blockOffset + b.stored.length + 2, out := st.out ++ [b] }) := by
  unfold flush
  by_cases h : st.cur = []
  · left; simp [h]
  · right
    refine ⟨h, ?_⟩
    rw [if_neg h]
    cases hc : cmp st.cur with
    | none => exact ⟨⟨false, st.cur, st.cur⟩, rfl, ⟨by simp, by simp⟩, rfl⟩
    | some c =>
      by_cases hl : c.length > 0
      · simp only [hl, if_true]
        exact ⟨⟨true, c, st.cur⟩, rfl, ⟨fun _ => ⟨hc, hl⟩, by simp⟩, rfl⟩
      · simp only [hl, if_false]
        exact ⟨⟨false, st.cur, st.cur⟩, rfl, ⟨by simp, by simp⟩, rfl⟩

theorem flush_cur (cmp : Codec) (st : St) : (flush cmp st).cur = [] := by
  rcases flush_spec cmp st with ⟨h1, h2⟩ | ⟨_, b, _, _, h⟩
  · rw [h2]; exact h1
  · rw [h]

theorem flush_stream (cmp : Codec) (st : St) : stream (flush cmp st) = stream st := by
  rcases flush_spec cmp st with ⟨_, h2⟩ | ⟨_, b, hb, _, h⟩
  · rw [h2]
  · rw [h]; simp [stream, hb]

/-- invariant between operations: all emitted blocks are full 8 KiB chunks made by the codec -/
structure Inv (cmp : Codec) (st : St) : Prop where
  curLe : st.cur.length ≤ metaBlockSize
  full : ∀ b ∈ st.out, b.raw.length = metaBlockSize
  made : ∀ b ∈ st.out, Made cmp b

theorem flush_full_inv (cmp : Codec) (st : St) (hi : Inv cmp st) (hf : st.cur.length = metaBlockSize) :
    Inv cmp (flush cmp st) := by
  rcases flush_spec cmp st with ⟨h1, _⟩ | ⟨_, b, hb, hm, h⟩
  · rw [h1] at hf; simp at hf; exact absurd hf.symm (Nat.ne_of_gt mb_pos)
  · rw [h]
    refine ⟨by simp, ?_, ?_⟩
    · intro x hx
      simp only [List.mem_append, List.mem_singleton] at hx
      rcases hx with hx | hx
      · exact hi.full x hx
      · subst hx; rw [hb]; exact hf
    · intro x hx
      simp only [List.mem_append, List.mem_singleton] at hx
      rcases hx with hx | hx
      · exact hi.made x hx
      · subst hx; exact hm

theorem appendGo_inv (cmp : Codec) : ∀ (f : Nat) (st : St) (data : Bytes), data.length < f → Inv cmp st →
    Inv cmp (appendGo cmp f st data) ∧ stream (appendGo cmp f st data) = stream st ++ data := by
  intro f
  induction f with
  | zero => intro st data h; omega
  | succ f ih =>
    intro st data hlen hi
    unfold appendGo
    by_cases hd : data = []
    · simp [hd, hi]
    · rw [if_neg hd]
      -- the state after the optional flush
      obtain ⟨st', hst', hi', hlt, hs'⟩ : ∃ st', st' = (if st.cur.length = metaBlockSize then flush cmp st else st) ∧
          Inv cmp st' ∧ st'.cur.length < metaBlockSize ∧ stream st' = stream st := by
        refine ⟨_, rfl, ?_⟩
        by_cases hfull : st.cur.length = metaBlockSize
        · rw [if_pos hfull]
          exact ⟨flush_full_inv cmp st hi hfull, by rw [flush_cur]; exact mb_pos, flush_stream cmp st⟩
        · rw [if_neg hfull]
          exact ⟨hi, Nat.lt_of_le_of_ne hi.curLe hfull, rfl⟩
      simp only [← hst']
      have hdl : 0 < data.length := List.length_pos_iff.mpr hd
      have hdiff : 1 ≤ min (metaBlockSize - st'.cur.length) data.length := by
        simp only [Nat.le_min]; omega
      have hdiff2 : min (metaBlockSize - st'.cur.length) data.length ≤ metaBlockSize - st'.cur.length := Nat.min_le_left _ _
      have hdiff3 : min (metaBlockSize - st'.cur.length) data.length ≤ data.length := Nat.min_le_right _ _
      generalize min (metaBlockSize - st'.cur.length) data.length = diff at hdiff hdiff2 hdiff3
      have hinv2 : Inv cmp { st' with cur := st'.cur ++ data.take diff } := by
        refine ⟨?_, hi'.full, hi'.made⟩
        simp only [List.length_append, List.length_take]
        omega
      obtain ⟨r1, r2⟩ := ih { st' with cur := st'.cur ++ data.take diff } (data.drop diff)
        (by simp only [List.length_drop]; omega) hinv2
      refine ⟨r1, ?_⟩
      rw [r2, ← hs']
      simp only [stream, List.append_assoc, List.take_append_drop]

/-- invariant after a complete `append`: the current chunk is never left full -/
theorem append_inv (cmp : Codec) (st : St) (data : Bytes) (hi : Inv cmp st) :
    Inv cmp (append cmp st data) ∧ (append cmp st data).cur.length < metaBlockSize ∧
      stream (append cmp st data) = stream st ++ data := by
  unfold append
  obtain ⟨h1, h2⟩ := appendGo_inv cmp (data.length + 1) st data (by omega) hi
  simp only
  by_cases hf : (appendGo cmp (data.length + 1) st data).cur.length = metaBlockSize
  · rw [if_pos hf]
    exact ⟨flush_full_inv cmp _ h1 hf, by rw [flush_cur]; exact mb_pos, by rw [flush_stream, h2]⟩
  · rw [if_neg hf]
    exact ⟨h1, Nat.lt_of_le_of_ne h1.curLe hf, h2⟩

theorem foldl_append_inv (cmp : Codec) : ∀ (chunks : List Bytes) (st : St), Inv cmp st → st.cur.length < metaBlockSize →
    Inv cmp (chunks.foldl (append cmp) st) ∧ (chunks.foldl (append cmp) st).cur.length < metaBlockSize ∧
      stream (chunks.foldl (append cmp) st) = stream st ++ chunks.flatten := by
  intro chunks
  induction chunks with
  | nil => intro st hi hl; simp [hi, hl]
  | cons c cs ih =>
    intro st hi hl
    obtain ⟨a1, a2, a3⟩ := append_inv cmp st c hi
    obtain ⟨b1, b2, b3⟩ := ih (append cmp st c) a1 a2
    simp only [List.foldl_cons, List.flatten_cons]
    exact ⟨b1, b2, by rw [b3, a3, List.append_assoc]⟩

/-- shape of a finished table: full blocks followed by at most one shorter, non-empty block -/
theorem run_shape (cmp : Codec) (chunks : List Bytes) :
    ∃ (fullBlocks last : List Block), (run cmp chunks).out = fullBlocks ++ last ∧ (run cmp chunks).cur = [] ∧
      (∀ b ∈ fullBlocks, b.raw.length = metaBlockSize) ∧ last.length ≤ 1 ∧
      (∀ b ∈ last, 1 ≤ b.raw.length ∧ b.raw.length < metaBlockSize) ∧
      (∀ b ∈ fullBlocks ++ last, Made cmp b) ∧
      ((fullBlocks ++ last).map (·.raw)).flatten = chunks.flatten := by
  unfold run
  have h0 : Inv cmp ({} : St) := ⟨by simp, by simp, by simp⟩
  obtain ⟨i1, i2, i3⟩ := foldl_append_inv cmp chunks {} h0 (by simpa using mb_pos)
  generalize chunks.foldl (append cmp) {} = st at i1 i2 i3
  have hs0 : stream ({} : St) = [] := by simp [stream]
  rw [hs0, List.nil_append] at i3
  rcases flush_spec cmp st with ⟨h1, h2⟩ | ⟨hne, b, hb, hm, h⟩
  · refine ⟨st.out, [], ?_, ?_, i1.full, by simp, by simp, ?_, ?_⟩
    · rw [h2]; simp
    · rw [h2]; exact h1
    · simpa using i1.made
    · rw [← i3]; simp [stream, h1]
  · refine ⟨st.out, [b], ?_, ?_, i1.full, by simp, ?_, ?_, ?_⟩
    · rw [h]
    · rw [h]
    · intro x hx
      simp only [List.mem_singleton] at hx
      subst hx
      rw [hb]
      exact ⟨List.length_pos_iff.mpr hne, i2⟩
    · intro x hx
      simp only [List.mem_append, List.mem_singleton] at hx
      rcases hx with hx | hx
      · exact i1.made x hx
      · subst hx; exact hm
    · rw [← i3]; simp [stream, hb]

/-! ### positions: `block_offset`, what is already flushed, stream offsets -/

theorem outBytes_append (a b : List Block) : outBytes (a ++ b) = outBytes a + outBytes b := by
  simp [outBytes]

/-- `m->block_offset` is the number of bytes the flushed blocks occupy -/
def Off (st : St) : Prop := st.blockOffset = outBytes st.out

/-- `b` was reached from `a` by appending/flushing: blocks flushed earlier are never touched again -/
def Ext (a b : St) : Prop := ∃ bs, b.out = a.out ++ bs

theorem Ext.refl (a : St) : Ext a a := ⟨[], by simp⟩

theorem Ext.trans {a b c : St} (h1 : Ext a b) (h2 : Ext b c) : Ext a c := by
  obtain ⟨x, hx⟩ := h1
  obtain ⟨y, hy⟩ := h2
  exact ⟨x ++ y, by rw [hy, hx, List.append_assoc]⟩

theorem Ext.take {a b : St} (h : Ext a b) : b.out.take a.out.length = a.out := by
  obtain ⟨x, hx⟩ := h
  rw [hx]; simp

theorem flush_off (cmp : Codec) (st : St) (h : Off st) : Off (flush cmp st) := by
  rcases flush_spec cmp st with ⟨_, h2⟩ | ⟨_, b, _, _, h2⟩
  · rw [h2]; exact h
  · rw [h2]; unfold Off at h ⊢; simp only [outBytes_append]; rw [h]; simp [outBytes]; omega

theorem flush_ext (cmp : Codec) (st : St) : Ext st (flush cmp st) := by
  rcases flush_spec cmp st with ⟨_, h2⟩ | ⟨_, b, _, _, h2⟩
  · rw [h2]; exact Ext.refl _
  · rw [h2]; exact ⟨[b], rfl⟩

theorem appendGo_off_ext (cmp : Codec) : ∀ (f : Nat) (st : St) (data : Bytes), Off st →
    Off (appendGo cmp f st data) ∧ Ext st (appendGo cmp f st data) := by
  intro f
  induction f with
  | zero => intro st data h; exact ⟨h, Ext.refl _⟩
  | succ f ih =>
    intro st data h
    unfold appendGo
    by_cases hd : data = []
    · simp only [hd, if_true]; exact ⟨h, Ext.refl _⟩
    · rw [if_neg hd]
      by_cases hfull : st.cur.length = metaBlockSize
      · simp only [hfull, if_true]
        have ho := flush_off cmp st h
        have he := flush_ext cmp st
        generalize flush cmp st = st' at ho he ⊢
        obtain ⟨r1, r2⟩ := ih { st' with cur := st'.cur ++ data.take (min (metaBlockSize - st'.cur.length) data.length) }
          (data.drop (min (metaBlockSize - st'.cur.length) data.length)) ho
        exact ⟨r1, Ext.trans he r2⟩
      · simp only [hfull, if_false]
        exact ih { st with cur := st.cur ++ data.take (min (metaBlockSize - st.cur.length) data.length) }
          (data.drop (min (metaBlockSize - st.cur.length) data.length)) h

theorem append_off_ext (cmp : Codec) (st : St) (data : Bytes) (h : Off st) :
    Off (append cmp st data) ∧ Ext st (append cmp st data) := by
  unfold append
  obtain ⟨h1, h2⟩ := appendGo_off_ext cmp (data.length + 1) st data h
  simp only
  split
  · exact ⟨flush_off cmp _ h1, Ext.trans h2 (flush_ext cmp _)⟩
  · exact ⟨h1, h2⟩

theorem foldl_append_off_ext (cmp : Codec) : ∀ (chunks : List Bytes) (st : St), Off st →
    Off (chunks.foldl (append cmp) st) ∧ Ext st (chunks.foldl (append cmp) st) := by
  intro chunks
  induction chunks with
  | nil => intro st h; exact ⟨h, Ext.refl _⟩
  | cons c cs ih =>
    intro st h
    obtain ⟨a1, a2⟩ := append_off_ext cmp st c h
    obtain ⟨b1, b2⟩ := ih (append cmp st c) a1
    exact ⟨b1, Ext.trans a2 b2⟩

theorem full_raw_length : ∀ (bs : List Block), (∀ b ∈ bs, b.raw.length = metaBlockSize) →
    ((bs.map (·.raw)).flatten).length = metaBlockSize * bs.length := by
  intro bs
  induction bs with
  | nil => intro _; simp
  | cons b bs ih =>
    intro hb
    simp only [List.map_cons, List.flatten_cons, List.length_append, List.length_cons]
    rw [ih (fun x hx => hb x (List.mem_cons_of_mem _ hx)), hb b List.mem_cons_self, Nat.mul_succ]
    omega

/-- with only full blocks flushed, the stream position determines how many blocks there are -/
theorem inv_stream_length (cmp : Codec) (st : St) (hi : Inv cmp st) :
    (stream st).length = metaBlockSize * st.out.length + st.cur.length := by
  unfold stream
  rw [List.length_append, full_raw_length st.out hi.full]

/-- a meta writer state between two API calls, reached from a fresh writer -/
structure WF (cmp : Codec) (st : St) : Prop where
  inv : Inv cmp st
  curLt : st.cur.length < metaBlockSize
  off : Off st

theorem wf_init (cmp : Codec) : WF cmp {} :=
  ⟨⟨by simp, by simp, by simp⟩, by simpa using mb_pos, by simp [Off, outBytes]⟩

theorem WF.blocks {cmp : Codec} {st : St} (h : WF cmp st) : st.out.length = (stream st).length / metaBlockSize := by
  rw [inv_stream_length cmp st h.inv]
  have := h.curLt
  rw [Nat.mul_add_div mb_pos, Nat.div_eq_of_lt this]; rfl

theorem WF.offset {cmp : Codec} {st : St} (h : WF cmp st) : st.cur.length = (stream st).length % metaBlockSize := by
  rw [inv_stream_length cmp st h.inv]
  have := h.curLt
  rw [Nat.mul_add_mod, Nat.mod_eq_of_lt this]

theorem foldl_append_wf (cmp : Codec) (chunks : List Bytes) (st : St) (h : WF cmp st) :
    WF cmp (chunks.foldl (append cmp) st) ∧ Ext st (chunks.foldl (append cmp) st) ∧
      stream (chunks.foldl (append cmp) st) = stream st ++ chunks.flatten := by
  obtain ⟨a1, a2, a3⟩ := foldl_append_inv cmp chunks st h.inv h.curLt
  obtain ⟨b1, b2⟩ := foldl_append_off_ext cmp chunks st h.off
  exact ⟨⟨a1, a2, b1⟩, b2, a3⟩

/-! ### `sqfs_write_table` -/

theorem mb_eq : metaBlockSize = 8192 := rfl

theorem chunksOf_nil (f : Nat) : chunksOf f [] = [] := by
  cases f <;> simp [chunksOf]

theorem chunksOf_length (f : Nat) : ∀ (data : Bytes), data.length < f →
    (chunksOf f data).length = (data.length + 8191) / 8192 := by
  induction f with
  | zero => intro data h; omega
  | succ f ih =>
    intro data h
    unfold chunksOf
    by_cases hd : data = []
    · simp [hd]
    · rw [if_neg hd]
      have hl : 0 < data.length := List.length_pos_iff.mpr hd
      by_cases hs : data.length ≤ 8192
      · have : data.drop metaBlockSize = [] := by
          apply List.drop_eq_nil_of_le; rw [mb_eq]; exact hs
        rw [this, chunksOf_nil]; simp only [List.length_cons, List.length_nil]; omega
      · simp only [List.length_cons]
        rw [ih _ (by simp only [List.length_drop, mb_eq]; omega)]
        simp only [List.length_drop, mb_eq]; omega

theorem chunksOf_spec (f : Nat) : ∀ (data : Bytes), data.length < f →
    (chunksOf f data).flatten = data ∧
    ∀ i, i < (chunksOf f data).length → (((chunksOf f data).take i).flatten).length = metaBlockSize * i := by
  induction f with
  | zero => intro data h; omega
  | succ f ih =>
    intro data h
    unfold chunksOf
    by_cases hd : data = []
    · simp [hd]
    · rw [if_neg hd]
      have hl : 0 < data.length := List.length_pos_iff.mpr hd
      obtain ⟨r1, r2⟩ := ih (data.drop metaBlockSize) (by simp only [List.length_drop, mb_eq]; omega)
      refine ⟨by simp only [List.flatten_cons, r1, List.take_append_drop], ?_⟩
      intro i hi
      cases i with
      | zero => simp
      | succ j =>
        simp only [List.length_cons] at hi
        have hj : j < (chunksOf f (data.drop metaBlockSize)).length := by omega
        have hne : data.drop metaBlockSize ≠ [] := by
          intro he; rw [he, chunksOf_nil] at hj; simp at hj
        have hlen : metaBlockSize < data.length := by
          have := List.length_pos_iff.mpr hne
          simp only [List.length_drop] at this; omega
        simp only [List.take_succ_cons, List.flatten_cons, List.length_append, List.length_take, r2 j hj]
        rw [Nat.min_eq_left (Nat.le_of_lt hlen), Nat.mul_succ]; omega

theorem writeTableGo_fst (cmp : Codec) (base : Nat) : ∀ (cs : List Bytes) (st : St) (locs : List Nat),
    (writeTableGo cmp base cs st locs).1 = cs.foldl (append cmp) st := by
  intro cs
  induction cs with
  | nil => intro st locs; rfl
  | cons c cs ih => intro st locs; simp only [writeTableGo, List.foldl_cons]; exact ih _ _

theorem writeTableGo_snd (cmp : Codec) (base : Nat) : ∀ (cs : List Bytes) (st : St) (locs : List Nat),
    (writeTableGo cmp base cs st locs).2 =
      locs ++ (List.range cs.length).map (fun i => base + outBytes ((cs.take i).foldl (append cmp) st).out) := by
  intro cs
  induction cs with
  | nil => intro st locs; simp [writeTableGo]
  | cons c cs ih =>
    intro st locs
    simp only [writeTableGo]
    rw [ih, List.length_cons, List.range_succ_eq_map]
    simp [List.append_assoc]

/--
`sqfs_write_table`: the location list has one entry per metadata block, there are `ceil(size / 8192)` of them,
entry `i` is the file offset of the header of block `i` (the file size before the table plus everything blocks
`0..i-1` occupy), `*start` is the offset directly behind the last block, the blocks unpack to the table and all
but the last hold exactly 8192 bytes (so table entry `k` of size `e | 8192` is in block `k*e / 8192`).
-/
theorem writeTableM_spec (cmp : Codec) (base : Nat) (data : Bytes) :
    (writeTableM cmp base data).locs.length = (writeTableM cmp base data).blocks.length ∧
    (writeTableM cmp base data).blocks.length = (data.length + 8191) / 8192 ∧
    (∀ i, i < (writeTableM cmp base data).locs.length →
      (writeTableM cmp base data).locs[i]? = some (base + outBytes ((writeTableM cmp base data).blocks.take i))) ∧
    (writeTableM cmp base data).start = base + outBytes (writeTableM cmp base data).blocks ∧
    (((writeTableM cmp base data).blocks.map (·.raw)).flatten = data) ∧
    (∀ i, i + 1 < (writeTableM cmp base data).blocks.length →
      ((writeTableM cmp base data).blocks[i]?.map (·.raw.length)) = some 8192) := by
  have hcl := chunksOf_length (data.length + 1) data (by omega)
  obtain ⟨hflat, htake⟩ := chunksOf_spec (data.length + 1) data (by omega)
  obtain ⟨fb, last, s1, _, s3, s4, s5, _, s7⟩ := run_shape cmp (chunksOf (data.length + 1) data)
  have hblocks : (writeTableM cmp base data).blocks = (run cmp (chunksOf (data.length + 1) data)).out := by
    simp only [writeTableM, writeTableGo_fst]; rfl
  have hlocs : (writeTableM cmp base data).locs = (List.range (chunksOf (data.length + 1) data).length).map
      (fun i => base + outBytes (((chunksOf (data.length + 1) data).take i).foldl (append cmp) {}).out) := by
    simp only [writeTableM, writeTableGo_snd]; simp
  have hstart : (writeTableM cmp base data).start = base + outBytes (writeTableM cmp base data).blocks := by
    simp only [writeTableM]
  -- number of blocks
  have hraw : ((fb ++ last).map (·.raw)).flatten.length = data.length := by rw [s7, hflat]
  have hfbl : ((fb.map (·.raw)).flatten).length = 8192 * fb.length := full_raw_length fb s3
  have hcount : (fb ++ last).length = (data.length + 8191) / 8192 := by
    rw [List.map_append, List.flatten_append, List.length_append, hfbl] at hraw
    rcases last with _ | ⟨l, _ | ⟨l2, r⟩⟩
    · simp at hraw ⊢; omega
    · have := s5 l List.mem_cons_self
      simp only [List.map_cons, List.map_nil, List.flatten_cons, List.flatten_nil, List.append_nil] at hraw
      simp only [List.length_append, List.length_cons, List.length_nil]
      rw [mb_eq] at this; omega
    · simp at s4
  rw [hblocks, s1]
  refine ⟨by rw [hlocs, hcount, hcl]; simp, hcount, ?_, by rw [hstart, hblocks, s1], s7.trans hflat, ?_⟩
  · intro i hi
    rw [hlocs] at hi ⊢
    simp only [List.length_map, List.length_range] at hi
    rw [List.getElem?_map, List.getElem?_range hi]
    simp only [Option.map_some]
    -- the state before chunk `i`
    obtain ⟨w1, _, w3⟩ := foldl_append_wf cmp ((chunksOf (data.length + 1) data).take i) {} (wf_init cmp)
    have hlen : (((chunksOf (data.length + 1) data).take i).foldl (append cmp) {}).out.length = i := by
      rw [w1.blocks, w3]
      have hs0 : stream ({} : St) = [] := by simp [stream]
      rw [hs0, List.nil_append, htake i hi, Nat.mul_div_cancel_left _ mb_pos]
    -- it is a prefix of the final block list
    have hext : Ext (((chunksOf (data.length + 1) data).take i).foldl (append cmp) {}) (run cmp (chunksOf (data.length + 1) data)) := by
      unfold run
      have hsplit : (chunksOf (data.length + 1) data).foldl (append cmp) {} =
          ((chunksOf (data.length + 1) data).drop i).foldl (append cmp)
            (((chunksOf (data.length + 1) data).take i).foldl (append cmp) {}) := by
        rw [← List.foldl_append, List.take_append_drop]
      rw [hsplit]
      exact Ext.trans (foldl_append_off_ext cmp _ _ w1.off).2 (flush_ext cmp _)
    have := hext.take
    rw [hlen, s1] at this
    rw [this]
  · intro i hi
    have hi' : i < fb.length := by
      rcases last with _ | ⟨l, r⟩
      · simp at hi; omega
      · simp only [List.length_append, List.length_cons] at hi
        have : r.length = 0 := by simp only [List.length_cons] at s4; omega
        omega
    rw [List.getElem?_append_left hi', List.getElem?_eq_getElem hi']
    simp only [Option.map_some]
    rw [s3 _ (List.getElem_mem hi'), mb_eq]

/-! ### the coarser `writeTable` is `writeTableM` at base 0 -/

theorem outBytes_cons (b : Block) (bs : List Block) : outBytes (b :: bs) = b.stored.length + 2 + outBytes bs := by
  simp [outBytes]

theorem locs_foldl : ∀ (bs : List Block) (acc : List Nat) (n : Nat),
    bs.foldl (fun (a : List Nat × Nat) b => (a.1 ++ [a.2], a.2 + 2 + b.stored.length)) (acc, n) =
      (acc ++ (List.range bs.length).map (fun i => n + outBytes (bs.take i)), n + outBytes bs) := by
  intro bs
  induction bs with
  | nil => intro acc n; simp [outBytes]
  | cons b bs ih =>
    intro acc n
    simp only [List.foldl_cons]
    rw [ih, List.length_cons, List.range_succ_eq_map]
    refine Prod.ext ?_ ?_
    · show acc ++ [n] ++ _ = acc ++ _
      rw [List.append_assoc]
      congr 1
      simp only [List.singleton_append, List.map_cons, List.map_map, List.take_zero]
      congr 1
      apply List.map_congr_left
      intro i _
      simp only [Function.comp, List.take_succ_cons, outBytes_cons]
      omega
    · simp only [outBytes_cons]; omega

/-- the first model of `sqfs_write_table` (locations recomputed from the block list, relative to the table) gives the
blocks and locations of `writeTableM` for a file that is empty before the call -/
theorem writeTable_eq_writeTableM (cmp : Codec) (data : Bytes) :
    writeTable cmp data = ((writeTableM cmp 0 data).blocks, (writeTableM cmp 0 data).locs) := by
  obtain ⟨h1, _, h3, _⟩ := writeTableM_spec cmp 0 data
  have hb : (writeTableM cmp 0 data).blocks = (run cmp (chunksOf (data.length + 1) data)).out := by
    simp only [writeTableM, writeTableGo_fst]; rfl
  unfold writeTable
  simp only
  rw [locs_foldl]
  refine Prod.ext hb.symm ?_
  simp only [List.nil_append, Nat.zero_add]
  apply List.ext_getElem?
  intro i
  by_cases hi : i < (writeTableM cmp 0 data).locs.length
  · rw [h3 i hi, Nat.zero_add, hb]
    rw [h1, hb] at hi
    rw [List.getElem?_map, List.getElem?_range hi]
    rfl
  · have hi' : (run cmp (chunksOf (data.length + 1) data)).out.length ≤ i := by rw [h1, hb] at hi; omega
    rw [List.getElem?_eq_none (by rw [List.length_map, List.length_range]; exact hi'),
      List.getElem?_eq_none (by rw [h1, hb]; exact hi')]

end Sqfs.MetaWriter
