/-
Helper lemmas about the model of `meta_writer.c` / `process_block` (`Sqfs/Model/MetaWriter.lean`).
-/
import Sqfs.Model.MetaWriter
namespace Sqfs.MetaWriter
open Sqfs.Consts

theorem mb_pos : 0 < metaBlockSize := by decide

/-- relation between a block's flag, its stored bytes and the chunk it was made from -/
def Made (cmp : Codec) (b : Block) : Prop :=
  (b.compressed = true → cmp b.raw = some b.stored ∧ 0 < b.stored.length) ∧
  (b.compressed = false → b.stored = b.raw)

theorem flush_spec (cmp : Codec) (st : St) :
    (st.cur = [] ∧ flush cmp st = st) ∨
    (st.cur ≠ [] ∧ ∃ b, b.raw = st.cur ∧ Made cmp b ∧
      flush cmp st = { cur := [], blockOffset := st.blockOffset + b.stored.length + 2, out := st.out ++ [b] }) := by
  unfold flush
  by_cases h : st.cur = []
  · left; simp [h]
  · right
    refine ⟨h, ?_⟩
    rw [if_neg h]
    cases hc : cmp st.cur with
    | none => exact ⟨⟨false, st.cur, st.cur⟩, rfl, ⟨by simp, by simp⟩, rfl⟩
    | some c =>
      by_cases hl : c.length > 0
      · simp only [hl, if_true]
        exact ⟨⟨true, c, st.cur⟩, rfl, ⟨fun _ => ⟨hc, hl⟩, by simp⟩, rfl⟩
      · simp only [hl, if_false]
        exact ⟨⟨false, st.cur, st.cur⟩, rfl, ⟨by simp, by simp⟩, rfl⟩

theorem flush_cur (cmp : Codec) (st : St) : (flush cmp st).cur = [] := by
  rcases flush_spec cmp st with ⟨h1, h2⟩ | ⟨_, b, _, _, h⟩
  · rw [h2]; exact h1
  · rw [h]

theorem flush_stream (cmp : Codec) (st : St) : stream (flush cmp st) = stream st := by
  rcases flush_spec cmp st with ⟨_, h2⟩ | ⟨_, b, hb, _, h⟩
  · rw [h2]
  · rw [h]; simp [stream, hb]

/-- invariant between operations: all emitted blocks are full 8 KiB chunks made by the codec -/
structure Inv (cmp : Codec) (st : St) : Prop where
  curLe : st.cur.length ≤ metaBlockSize
  full : ∀ b ∈ st.out, b.raw.length = metaBlockSize
  made : ∀ b ∈ st.out, Made cmp b

theorem flush_full_inv (cmp : Codec) (st : St) (hi : Inv cmp st) (hf : st.cur.length = metaBlockSize) :
    Inv cmp (flush cmp st) := by
  rcases flush_spec cmp st with ⟨h1, _⟩ | ⟨_, b, hb, hm, h⟩
  · rw [h1] at hf; simp at hf; exact absurd hf.symm (Nat.ne_of_gt mb_pos)
  · rw [h]
    refine ⟨by simp, ?_, ?_⟩
    · intro x hx
      simp only [List.mem_append, List.mem_singleton] at hx
      rcases hx with hx | hx
      · exact hi.full x hx
      · subst hx; rw [hb]; exact hf
    · intro x hx
      simp only [List.mem_append, List.mem_singleton] at hx
      rcases hx with hx | hx
      · exact hi.made x hx
      · subst hx; exact hm

theorem appendGo_inv (cmp : Codec) : ∀ (f : Nat) (st : St) (data : Bytes), data.length < f → Inv cmp st →
    Inv cmp (appendGo cmp f st data) ∧ stream (appendGo cmp f st data) = stream st ++ data := by
  intro f
  induction f with
  | zero => intro st data h; omega
  | succ f ih =>
    intro st data hlen hi
    unfold appendGo
    by_cases hd : data = []
    · simp [hd, hi]
    · rw [if_neg hd]
      -- the state after the optional flush
      obtain ⟨st', hst', hi', hlt, hs'⟩ : ∃ st', st' = (if st.cur.length = metaBlockSize then flush cmp st else st) ∧
          Inv cmp st' ∧ st'.cur.length < metaBlockSize ∧ stream st' = stream st := by
        refine ⟨_, rfl, ?_⟩
        by_cases hfull : st.cur.length = metaBlockSize
        · rw [if_pos hfull]
          exact ⟨flush_full_inv cmp st hi hfull, by rw [flush_cur]; exact mb_pos, flush_stream cmp st⟩
        · rw [if_neg hfull]
          exact ⟨hi, Nat.lt_of_le_of_ne hi.curLe hfull, rfl⟩
      simp only [← hst']
      have hdl : 0 < data.length := List.length_pos_iff.mpr hd
      have hdiff : 1 ≤ min (metaBlockSize - st'.cur.length) data.length := by
        simp only [Nat.le_min]; omega
      have hdiff2 : min (metaBlockSize - st'.cur.length) data.length ≤ metaBlockSize - st'.cur.length := Nat.min_le_left _ _
      have hdiff3 : min (metaBlockSize - st'.cur.length) data.length ≤ data.length := Nat.min_le_right _ _
      generalize min (metaBlockSize - st'.cur.length) data.length = diff at hdiff hdiff2 hdiff3
      have hinv2 : Inv cmp { st' with cur := st'.cur ++ data.take diff } := by
        refine ⟨?_, hi'.full, hi'.made⟩
        simp only [List.length_append, List.length_take]
        omega
      obtain ⟨r1, r2⟩ := ih { st' with cur := st'.cur ++ data.take diff } (data.drop diff)
        (by simp only [List.length_drop]; omega) hinv2
      refine ⟨r1, ?_⟩
      rw [r2, ← hs']
      simp only [stream, List.append_assoc, List.take_append_drop]

/-- invariant after a complete `append`: the current chunk is never left full -/
theorem append_inv (cmp : Codec) (st : St) (data : Bytes) (hi : Inv cmp st) :
    Inv cmp (append cmp st data) ∧ (append cmp st data).cur.length < metaBlockSize ∧
      stream (append cmp st data) = stream st ++ data := by
  unfold append
  obtain ⟨h1, h2⟩ := appendGo_inv cmp (data.length + 1) st data (by omega) hi
  simp only
  by_cases hf : (appendGo cmp (data.length + 1) st data).cur.length = metaBlockSize
  · rw [if_pos hf]
    exact ⟨flush_full_inv cmp _ h1 hf, by rw [flush_cur]; exact mb_pos, by rw [flush_stream, h2]⟩
  · rw [if_neg hf]
    exact ⟨h1, Nat.lt_of_le_of_ne h1.curLe hf, h2⟩

theorem foldl_append_inv (cmp : Codec) : ∀ (chunks : List Bytes) (st : St), Inv cmp st → st.cur.length < metaBlockSize →
    Inv cmp (chunks.foldl (append cmp) st) ∧ (chunks.foldl (append cmp) st).cur.length < metaBlockSize ∧
      stream (chunks.foldl (append cmp) st) = stream st ++ chunks.flatten := by
  intro chunks
  induction chunks with
  | nil => intro st hi hl; simp [hi, hl]
  | cons c cs ih =>
    intro st hi hl
    obtain ⟨a1, a2, a3⟩ := append_inv cmp st c hi
    obtain ⟨b1, b2, b3⟩ := ih (append cmp st c) a1 a2
    simp only [List.foldl_cons, List.flatten_cons]
    exact ⟨b1, b2, by rw [b3, a3, List.append_assoc]⟩

/-- shape of a finished table: full blocks followed by at most one shorter, non-empty block -/
theorem run_shape (cmp : Codec) (chunks : List Bytes) :
    ∃ (fullBlocks last : List Block), (run cmp chunks).out = fullBlocks ++ last ∧ (run cmp chunks).cur = [] ∧
      (∀ b ∈ fullBlocks, b.raw.length = metaBlockSize) ∧ last.length ≤ 1 ∧
      (∀ b ∈ last, 1 ≤ b.raw.length ∧ b.raw.length < metaBlockSize) ∧
      (∀ b ∈ fullBlocks ++ last, Made cmp b) ∧
      ((fullBlocks ++ last).map (·.raw)).flatten = chunks.flatten := by
  unfold run
  have h0 : Inv cmp ({} : St) := ⟨by simp, by simp, by simp⟩
  obtain ⟨i1, i2, i3⟩ := foldl_append_inv cmp chunks {} h0 (by simpa using mb_pos)
  generalize chunks.foldl (append cmp) {} = st at i1 i2 i3
  have hs0 : stream ({} : St) = [] := by simp [stream]
  rw [hs0, List.nil_append] at i3
  rcases flush_spec cmp st with ⟨h1, h2⟩ | ⟨hne, b, hb, hm, h⟩
  · refine ⟨st.out, [], ?_, ?_, i1.full, by simp, by simp, ?_, ?_⟩
    · rw [h2]; simp
    · rw [h2]; exact h1
    · simpa using i1.made
    · rw [← i3]; simp [stream, h1]
  · refine ⟨st.out, [b], ?_, ?_, i1.full, by simp, ?_, ?_, ?_⟩
    · rw [h]
    · rw [h]
    · intro x hx
      simp only [List.mem_singleton] at hx
      subst hx
      rw [hb]
      exact ⟨List.length_pos_iff.mpr hne, i2⟩
    · intro x hx
      simp only [List.mem_append, List.mem_singleton] at hx
      rcases hx with hx | hx
      · exact i1.made x hx
      · subst hx; exact hm
    · rw [← i3]; simp [stream, hb]

end Sqfs.MetaWriter
