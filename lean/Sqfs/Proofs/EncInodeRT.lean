/-
C01 — the inode round trip, kind by kind.
-/
import Sqfs.Proofs.EncInode
namespace Sqfs.Enc
open Sqfs.Consts
open Sqfs.Writer (le leVal le_length)

theorem setMode_typ (i : Inode) (p : Nat) :
    setMode i.typ p = .ok (((p % 65536) &&& (65535 - sIFMT)) ||| i.typeBits) := by
  cases i with
  | dev b c nl d => cases c <;> rfl
  | ipc b c nl => cases c <;> rfl
  | devExt b c nl d x => cases c <;> rfl
  | ipcExt b c nl x => cases c <;> rfl
  | _ => rfl

theorem typeBits_mul (i : Inode) : ∃ k, i.typeBits = k * 4096 := by
  cases i with
  | dev b c nl d => cases c; exact ⟨6, rfl⟩; exact ⟨2, rfl⟩
  | ipc b c nl => cases c; exact ⟨1, rfl⟩; exact ⟨12, rfl⟩
  | devExt b c nl d x => cases c; exact ⟨6, rfl⟩; exact ⟨2, rfl⟩
  | ipcExt b c nl x => cases c; exact ⟨1, rfl⟩; exact ⟨12, rfl⟩
  | dir => exact ⟨4, rfl⟩
  | dirExt => exact ⟨4, rfl⟩
  | file => exact ⟨8, rfl⟩
  | fileExt => exact ⟨8, rfl⟩
  | slink => exact ⟨10, rfl⟩
  | slinkExt => exact ⟨10, rfl⟩

theorem typ_lt (i : Inode) : i.typ < 65536 := by
  cases i with
  | dev b c nl d => cases c <;> simp [Inode.typ, inodeBdev, inodeCdev]
  | ipc b c nl => cases c <;> simp [Inode.typ, inodeFifo, inodeSocket]
  | devExt b c nl d x => cases c <;> simp [Inode.typ, inodeExtBdev, inodeExtCdev]
  | ipcExt b c nl x => cases c <;> simp [Inode.typ, inodeExtFifo, inodeExtSocket]
  | _ => simp [Inode.typ, inodeDir, inodeFile, inodeSlink, inodeExtDir, inodeExtFile, inodeExtSlink]

theorem decBase_encBase (i : Inode) (rest : Bytes) (h : WfBase i.typeBits i.base) :
    decBase (encBase i.typ i.base ++ rest) = .ok ((i.typ, i.base), rest) := by
  obtain ⟨hm, htb, hu, hg, hmt, hi⟩ := h
  obtain ⟨k, hk⟩ := typeBits_mul i
  unfold decBase encBase
  have hf := readFields_encFields [(2, i.typ), (2, permBits i.base.mode), (2, i.base.uidIdx), (2, i.base.gidIdx),
    (4, i.base.mtime), (4, i.base.inum)] rest
  simp only [List.map_cons, List.map_nil, wrapFields] at hf
  rw [hf]
  have e2 : (256 : Nat) ^ 2 = 65536 := by decide
  have e4 : (256 : Nat) ^ 4 = 4294967296 := by decide
  have ht : i.typ % 256 ^ 2 = i.typ := by rw [e2]; exact Nat.mod_eq_of_lt (typ_lt i)
  have hsm := setMode_perm (m := i.base.mode) i.typ k hm (by rw [htb, hk])
    (by intro p; rw [setMode_typ, hk])
  simp only [ht, hsm]
  have h1 : i.base.uidIdx % 256 ^ 2 = i.base.uidIdx := by rw [e2]; omega
  have h2 : i.base.gidIdx % 256 ^ 2 = i.base.gidIdx := by rw [e2]; omega
  have h3 : i.base.mtime % 256 ^ 4 = i.base.mtime := by rw [e4]; omega
  have h4 : i.base.inum % 256 ^ 4 = i.base.inum := by rw [e4]; omega
  rw [h1, h2, h3, h4]

/-- discharges `∀ f ∈ [(w₁, v₁), …], f.2 < 256 ^ f.1` from bounds in the context -/
macro "fits" : tactic => `(tactic| (simp only [List.forall_mem_cons, List.not_mem_nil, false_imp_iff, implies_true, and_true]; simp; omega))

theorem rt_dir (bs : Nat) (b : Base) (sb nl sz off par : Nat) (rest : Bytes)
    (h : sb < 2 ^ 32 ∧ nl < 2 ^ 32 ∧ sz < 65536 ∧ off < 65536 ∧ par < 2 ^ 32) :
    decBody bs inodeDir b (encBody (.dir b sb nl sz off par) ++ rest) = .ok (.dir b sb nl sz off par, rest) := by
  obtain ⟨h1, h2, h3, h4, h5⟩ := h
  have hf := readFields_encFields_fit [(4, sb), (4, nl), (2, sz), (2, off), (4, par)] rest (by fits)
  simp only [List.map_cons, List.map_nil] at hf
  simp [decBody, encBody, hf, inodeDir, inodeFile, inodeSlink, inodeExtFile, inodeExtSlink, inodeExtDir]

theorem rt_file (bs : Nat) (b : Base) (st fi fo sz : Nat) (blks : List Nat) (rest : Bytes)
    (h : st < 2 ^ 32 ∧ fi < 2 ^ 32 ∧ fo < 2 ^ 32 ∧ sz < 2 ^ 32 ∧ WfBlocks bs sz fi fo blks) :
    decBody bs inodeFile b (encBody (.file b st fi fo sz blks) ++ rest) = .ok (.file b st fi fo sz blks, rest) := by
  obtain ⟨h1, h2, h3, h4, hb⟩ := h
  have hf := readFields_encFields_fit [(4, st), (4, fi), (4, fo), (4, sz)] (encWords 4 blks ++ rest) (by fits)
  simp only [List.map_cons, List.map_nil] at hf
  obtain ⟨hb1, hb2⟩ := blocks_roundtrip rest hb
  simp [decBody, encBody, decFile, hf, hb1, hb2, inodeFile]

theorem rt_fileExt (bs : Nat) (b : Base) (st sz sp nl fi fo x : Nat) (blks : List Nat) (rest : Bytes)
    (h : st < 2 ^ 64 ∧ sz < 2 ^ 64 ∧ sp < 2 ^ 64 ∧ nl < 2 ^ 32 ∧ fi < 2 ^ 32 ∧ fo < 2 ^ 32 ∧ x < 2 ^ 32 ∧
      WfBlocks bs sz fi fo blks) :
    decBody bs inodeExtFile b (encBody (.fileExt b st sz sp nl fi fo x blks) ++ rest)
      = .ok (.fileExt b st sz sp nl fi fo x blks, rest) := by
  obtain ⟨h1, h2, h3, h4, h5, h6, h7, hb⟩ := h
  have hf := readFields_encFields_fit [(8, st), (8, sz), (8, sp), (4, nl), (4, fi), (4, fo), (4, x)]
    (encWords 4 blks ++ rest) (by fits)
  simp only [List.map_cons, List.map_nil] at hf
  obtain ⟨hb1, hb2⟩ := blocks_roundtrip rest hb
  simp [decBody, encBody, decFileExt, hf, hb1, hb2, inodeFile, inodeSlink, inodeExtFile]

theorem slinkBody_rt (nl : Nat) (t rest : Bytes) (h1 : nl < 2 ^ 32) (h2 : t.length < 2 ^ 32) :
    decSlinkBody (encFields [(4, nl), (4, t.length)] ++ (List.take t.length t ++ rest)) = .ok ((nl, t.length, t), rest) := by
  have hf := readFields_encFields_fit [(4, nl), (4, t.length)] (t ++ rest) (by fits)
  simp only [List.map_cons, List.map_nil] at hf
  simp [decSlinkBody, hf, take?_append]

theorem rt_slink (bs : Nat) (b : Base) (nl ts : Nat) (t rest : Bytes) (h : nl < 2 ^ 32 ∧ ts < 2 ^ 32 ∧ ts = t.length) :
    decBody bs inodeSlink b (encBody (.slink b nl ts t) ++ rest) = .ok (.slink b nl ts t, rest) := by
  obtain ⟨h1, h2, rfl⟩ := h
  have := slinkBody_rt nl t rest h1 h2
  simp only [decBody, encBody, List.append_assoc, this]
  simp [inodeFile, inodeSlink]

theorem rt_slinkExt (bs : Nat) (b : Base) (nl ts : Nat) (t : Bytes) (x : Nat) (rest : Bytes)
    (h : nl < 2 ^ 32 ∧ ts < 2 ^ 32 ∧ ts = t.length ∧ x < 2 ^ 32) :
    decBody bs inodeExtSlink b (encBody (.slinkExt b nl ts t x) ++ rest) = .ok (.slinkExt b nl ts t x, rest) := by
  obtain ⟨h1, h2, rfl, h4⟩ := h
  have := slinkBody_rt nl t (encFields [(4, x)] ++ rest) h1 h2
  have hf := readFields_encFields_fit [(4, x)] rest (by fits)
  simp only [List.map_cons, List.map_nil] at hf
  simp only [decBody, encBody, List.append_assoc, this, hf]
  simp [inodeFile, inodeSlink, inodeExtFile, inodeExtSlink]

theorem rt_dev (bs : Nat) (b : Base) (c : Bool) (nl d : Nat) (rest : Bytes) (h : nl < 2 ^ 32 ∧ d < 2 ^ 32) :
    decBody bs (Inode.dev b c nl d).typ b (encBody (.dev b c nl d) ++ rest) = .ok (.dev b c nl d, rest) := by
  obtain ⟨h1, h2⟩ := h
  have hf := readFields_encFields_fit [(4, nl), (4, d)] rest (by fits)
  simp only [List.map_cons, List.map_nil] at hf
  cases c <;>
    simp [decBody, encBody, hf, Inode.typ, inodeBdev, inodeCdev, inodeDir, inodeFile, inodeSlink, inodeExtFile,
      inodeExtSlink, inodeExtDir]

theorem rt_devExt (bs : Nat) (b : Base) (c : Bool) (nl d x : Nat) (rest : Bytes)
    (h : nl < 2 ^ 32 ∧ d < 2 ^ 32 ∧ x < 2 ^ 32) :
    decBody bs (Inode.devExt b c nl d x).typ b (encBody (.devExt b c nl d x) ++ rest) = .ok (.devExt b c nl d x, rest) := by
  obtain ⟨h1, h2, h3⟩ := h
  have hf := readFields_encFields_fit [(4, nl), (4, d), (4, x)] rest (by fits)
  simp only [List.map_cons, List.map_nil] at hf
  cases c <;>
    simp [decBody, encBody, hf, Inode.typ, inodeBdev, inodeCdev, inodeDir, inodeFile, inodeSlink, inodeExtFile,
      inodeExtSlink, inodeExtDir, inodeFifo, inodeSocket, inodeExtBdev, inodeExtCdev]

theorem rt_ipc (bs : Nat) (b : Base) (c : Bool) (nl : Nat) (rest : Bytes) (h : nl < 2 ^ 32) :
    decBody bs (Inode.ipc b c nl).typ b (encBody (.ipc b c nl) ++ rest) = .ok (.ipc b c nl, rest) := by
  have hf := readFields_encFields_fit [(4, nl)] rest (by fits)
  simp only [List.map_cons, List.map_nil] at hf
  cases c <;>
    simp [decBody, encBody, hf, Inode.typ, inodeBdev, inodeCdev, inodeDir, inodeFile, inodeSlink, inodeExtFile,
      inodeExtSlink, inodeExtDir, inodeFifo, inodeSocket]

theorem rt_ipcExt (bs : Nat) (b : Base) (c : Bool) (nl x : Nat) (rest : Bytes) (h : nl < 2 ^ 32 ∧ x < 2 ^ 32) :
    decBody bs (Inode.ipcExt b c nl x).typ b (encBody (.ipcExt b c nl x) ++ rest) = .ok (.ipcExt b c nl x, rest) := by
  obtain ⟨h1, h2⟩ := h
  have hf := readFields_encFields_fit [(4, nl), (4, x)] rest (by fits)
  simp only [List.map_cons, List.map_nil] at hf
  cases c <;>
    simp [decBody, encBody, hf, Inode.typ, inodeBdev, inodeCdev, inodeDir, inodeFile, inodeSlink, inodeExtFile,
      inodeExtSlink, inodeExtDir, inodeFifo, inodeSocket, inodeExtBdev, inodeExtCdev, inodeExtFifo, inodeExtSocket]

theorem rt_dirExt (bs : Nat) (b : Base) (nl sz sb par ic off x : Nat) (idx : List DirIdx) (rest : Bytes)
    (h : nl < 2 ^ 32 ∧ sz < 2 ^ 32 ∧ sb < 2 ^ 32 ∧ par < 2 ^ 32 ∧ ic < 65536 ∧ off < 65536 ∧ x < 2 ^ 32 ∧
      ic = idx.length ∧ (sz = 0 → idx = []) ∧ ∀ e ∈ idx, WfIdx e) :
    decBody bs inodeExtDir b (encBody (.dirExt b nl sz sb par ic off x idx) ++ rest)
      = .ok (.dirExt b nl sz sb par ic off x idx, rest) := by
  obtain ⟨h1, h2, h3, h4, h5, h6, h7, rfl, h9, h10⟩ := h
  have hf := readFields_encFields_fit [(4, nl), (4, sz), (4, sb), (4, par), (2, idx.length), (2, off), (4, x)]
    (encIndex idx ++ rest) (by fits)
  simp only [List.map_cons, List.map_nil] at hf
  have hi := decIndex_encIndex idx rest h10
  by_cases hz : sz = 0
  · have := h9 hz
    subst this
    subst hz
    simp only [List.length_nil, encIndex, List.nil_append] at hf
    simp [decBody, encBody, decDirExt, hf, encIndex, inodeFile, inodeSlink, inodeExtFile, inodeExtSlink, inodeExtDir]
  · simp [decBody, encBody, decDirExt, hf, hz, hi, inodeFile, inodeSlink, inodeExtFile, inodeExtSlink, inodeExtDir]

/-- the type switch reads back what the type switch of the writer appended -/
theorem decBody_encBody (bs : Nat) (i : Inode) (rest : Bytes) (h : WfInode bs i) :
    decBody bs i.typ i.base (encBody i ++ rest) = .ok (i, rest) := by
  obtain ⟨_, h⟩ := h
  cases i with
  | dir b sb nl sz off par => exact rt_dir bs b sb nl sz off par rest h
  | file b st fi fo sz blks => exact rt_file bs b st fi fo sz blks rest h
  | slink b nl ts t => exact rt_slink bs b nl ts t rest h
  | dev b c nl d => exact rt_dev bs b c nl d rest h
  | ipc b c nl => exact rt_ipc bs b c nl rest h
  | dirExt b nl sz sb par ic off x idx => exact rt_dirExt bs b nl sz sb par ic off x idx rest h
  | fileExt b st sz sp nl fi fo x blks => exact rt_fileExt bs b st sz sp nl fi fo x blks rest h
  | slinkExt b nl ts t x => exact rt_slinkExt bs b nl ts t x rest h
  | devExt b c nl d x => exact rt_devExt bs b c nl d x rest h
  | ipcExt b c nl x => exact rt_ipcExt bs b c nl x rest h

/-- **inode round trip**: reading an inode back from the stream position where it was written yields the inode and
leaves the stream at the byte after it. -/
theorem decInode_encInode (bs : Nat) (i : Inode) (rest : Bytes) (h : WfInode bs i) :
    decInode bs (encInode i ++ rest) = .ok (i, rest) := by
  unfold decInode encInode
  rw [List.append_assoc, decBase_encBase i _ h.1]
  exact decBody_encBody bs i rest h

end Sqfs.Enc
